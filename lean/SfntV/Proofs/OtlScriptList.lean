/-
Lemmas about the script-list model (C08).
-/
import SfntV.Model.OtlScriptList
import SfntV.Proofs.OtlLookupList

namespace SfntV.Otl.SL
open SfntV SfntV.Otl

/-! ### reading at byte positions -/



theorem u16b_eq (b : Bytes) (p : Nat) :
    u16b b p = match LL.u16at b p with
      | some v => .ok v
      | none => .err eIO := by
  unfold u16b LL.u16at
  cases b[p]? <;> cases b[p + 1]? <;> rfl

theorem bytesAt_append_left {b : Bytes} {p : Nat} {X Y : Bytes} (h : LL.BytesAt b p (X ++ Y)) :
    LL.BytesAt b p X := by
  obtain ⟨pre, post, rfl, rfl⟩ := h
  exact ⟨pre, Y ++ post, by simp, rfl⟩

theorem bytesAt_append_right {b : Bytes} {p : Nat} {X Y : Bytes} (h : LL.BytesAt b p (X ++ Y)) :
    LL.BytesAt b (p + X.length) Y := by
  obtain ⟨pre, post, rfl, rfl⟩ := h
  exact ⟨pre ++ X, post, by simp, by simp⟩

theorem bytesAt_length {b : Bytes} {p : Nat} {X : Bytes} (h : LL.BytesAt b p X) : p + X.length ≤ b.length := by
  obtain ⟨pre, post, rfl, rfl⟩ := h
  simp only [List.length_append]; omega

theorem u16b_at {b : Bytes} {p : Nat} {ws : List Nat} (h : LL.BytesAt b p (wordsToBytes ws))
    (hlt : ∀ w ∈ ws, w < 65536) (k : Nat) (w : Nat) (hk : ws[k]? = some w) :
    u16b b (p + 2 * k) = .ok w := by
  rw [u16b_eq, LL.u16at_wordsAt h hlt k w hk]

theorem wordsAt_spec {b : Bytes} {p : Nat} {ws : List Nat} (h : LL.BytesAt b p (wordsToBytes ws))
    (hlt : ∀ w ∈ ws, w < 65536) : ∀ (n k : Nat), k + n ≤ ws.length →
    wordsAt b (p + 2 * k) n = .ok ((ws.drop k).take n)
  | 0, _, _ => by simp [wordsAt]
  | n + 1, k, hk => by
    have hkl : k < ws.length := by omega
    simp only [wordsAt]
    rw [u16b_at h hlt k ws[k] (List.getElem?_eq_getElem hkl)]
    have e : p + 2 * k + 2 = p + 2 * (k + 1) := by omega
    rw [e, wordsAt_spec h hlt n (k + 1) (by omega)]
    simp only
    congr 1
    rw [List.drop_eq_getElem_cons hkl, List.take_succ_cons]

theorem rec6_spec {b : Bytes} {p : Nat} {tag : Bytes} {off : Nat}
    (h : LL.BytesAt b p (tag ++ be16 off)) (ht : tag.length = 4) (ho : off < 65536) :
    rec6 b p = .ok (tag, off) := by
  have hlen := bytesAt_length h
  simp only [List.length_append, ht, length_be16] at hlen
  have h2 : LL.BytesAt b (p + 4) (wordsToBytes [off]) := by
    have := bytesAt_append_right h
    rw [ht] at this
    simpa [wordsToBytes] using this
  have hu := u16b_at h2 (by intro w hw; simp at hw; omega) 0 off (by simp)
  simp only [Nat.mul_zero, Nat.add_zero] at hu
  unfold rec6
  rw [if_pos (by omega), hu]
  simp only
  obtain ⟨pre, post, rfl, rfl⟩ := h
  rw [List.append_assoc, List.drop_left, List.append_assoc, ← ht, List.take_left]

/-! ### language systems -/

/-- a well-typed entry whose tags the library knows -/
structure EntryOk (e : Entry) : Prop where
  script4 : e.script.length = 4
  req : e.required < 65536
  optLen : e.optional.length < 65536
  opt : ∀ x ∈ e.optional, x < 65535
  known : known e.script e.lang = true

theorem langSysBytes_length (e : Entry) : (langSysBytes e).length = langSysLen e := by
  simp only [langSysBytes, length_wordsToBytes, List.length_cons, langSysLen]; omega

theorem readLangSys_spec {b : Bytes} {p : Nat} (e : Entry) (he : EntryOk e)
    (h : LL.BytesAt b p (langSysBytes e)) : readLangSys b p = .ok (e.required, e.optional) := by
  have hlt : ∀ w ∈ 0 :: e.required :: w16 e.optional.length :: e.optional, w < 65536 := by
    intro w hw
    simp only [List.mem_cons] at hw
    rcases hw with rfl | rfl | rfl | hw
    · decide
    · exact he.req
    · exact w16_lt _
    · have := he.opt w hw; omega
  have h3 := wordsAt_spec h hlt 3 0 (by simp)
  have hopt := wordsAt_spec h hlt e.optional.length 3 (by simp; omega)
  simp only [Nat.mul_zero, Nat.add_zero, List.drop_zero] at h3
  have e6 : p + 2 * 3 = p + 6 := by omega
  rw [e6] at hopt
  unfold readLangSys
  rw [h3]
  simp only [List.take, w16_of_lt he.optLen]
  have hz : ((0 : Nat) != 0) = false := by decide
  simp only [hz, Bool.false_eq_true, if_false]
  rw [w16_of_lt he.optLen] at hopt
  rw [hopt]
  simp only [List.drop, List.take_length]
  have hid : e.optional.map (fun i => if i == 0xFFFF then 0 else i) = e.optional.map id := by
    apply List.map_congr_left
    intro x hx
    have := he.opt x hx
    have hne : (x == 65535) = false := by simp; omega
    simp [hne]
  rw [hid, List.map_id]

/-- consecutive 6-byte records -/
theorem recs6_spec {b : Bytes} : ∀ (recs : List (Bytes × Nat)) (p : Nat),
    LL.BytesAt b p (recs.flatMap fun r => r.1 ++ be16 r.2) →
    (∀ r ∈ recs, r.1.length = 4 ∧ r.2 < 65536) → recs6 b p recs.length = .ok recs
  | [], _, _, _ => rfl
  | r :: recs, p, h, hr => by
    simp only [List.flatMap_cons] at h
    obtain ⟨h4, ho⟩ := hr r (by simp)
    simp only [List.length_cons, recs6]
    rw [rec6_spec (bytesAt_append_left h) h4 ho]
    have h2 := bytesAt_append_right h
    simp only [List.length_append, h4, length_be16] at h2
    rw [recs6_spec recs (p + 6) h2 (fun r' hr' => hr r' (by simp [hr']))]

/-- the offsets `langOffsets` assigns are where the language systems lie -/
theorem langOffsets_spec {b : Bytes} (base : Nat) : ∀ (es : List Entry) (start : Nat) (offs : List Nat),
    langOffsets es start = .ok offs → LL.BytesAt b (base + start) (es.flatMap langSysBytes) →
    offs.length = es.length ∧ (∀ o ∈ offs, start ≤ o ∧ o < 65536) ∧ offs.Pairwise (· ≤ ·) ∧
    ∀ q ∈ es.zip offs, LL.BytesAt b (base + q.2) (langSysBytes q.1)
  | [], _, offs, h, _ => by simp [langOffsets] at h; subst h; simp
  | e :: es, start, offs, h, hb => by
    simp only [langOffsets] at h
    split at h
    · simp at h
    · rename_i hle
      cases h2 : langOffsets es (start + langSysLen e) with
      | ok r =>
        rw [h2] at h
        simp only [Outcome.ok.injEq] at h
        subst h
        simp only [List.flatMap_cons] at hb
        have hb2 := bytesAt_append_right hb
        rw [langSysBytes_length, Nat.add_assoc] at hb2
        obtain ⟨i1, i2, i3, i4⟩ := langOffsets_spec base es _ r h2 hb2
        refine ⟨by simp [i1], ?_, ?_, ?_⟩
        · intro o ho
          rw [List.mem_cons] at ho
          rcases ho with rfl | ho
          · omega
          · have := i2 o ho; simp only [langSysLen] at this; omega
        · rw [List.pairwise_cons]
          refine ⟨fun o ho => ?_, i3⟩
          have := (i2 o ho).1; omega
        · intro q hq
          simp only [List.zip_cons_cons, List.mem_cons] at hq
          rcases hq with rfl | hq
          · exact bytesAt_append_left hb
          · exact i4 q hq
      | err e' => rw [h2] at h; simp at h
      | panic s => rw [h2] at h; simp at h

/-- reading the language systems found at the recorded offsets -/
theorem readLangs_spec {b : Bytes} (script : Bytes) (pos : Nat) : ∀ (qs : List (Entry × Nat)),
    (∀ q ∈ qs, EntryOk q.1 ∧ q.1.script = script ∧ LL.BytesAt b (pos + q.2) (langSysBytes q.1)) →
    readLangs b script pos (qs.map fun q => (q.1.lang, q.2)) = .ok (qs.map (·.1))
  | [], _ => rfl
  | q :: qs, h => by
    obtain ⟨he, hs, hb⟩ := h q (by simp)
    simp only [List.map_cons, readLangs]
    rw [readLangSys_spec q.1 he hb, readLangs_spec script pos qs (fun q' hq' => h q' (by simp [hq']))]
    simp only
    have hk : known script q.1.lang = true := by rw [← hs]; exact he.known
    rw [if_pos hk]
    congr 2
    cases q with
    | mk e o => cases e; simp_all

/-! ### one script table -/

structure PlanOk (p : ScriptPlan) : Prop where
  script4 : p.script.length = 4
  dflt : ∀ d, p.dflt = some d → EntryOk d ∧ d.script = p.script ∧ d.lang = []
  langs : ∀ e ∈ p.langs, EntryOk e ∧ e.script = p.script ∧ e.lang.length = 4

/-- the entries of a plan in the order in which the reader stores them -/
def planEntries (p : ScriptPlan) : List Entry := p.dflt.toList ++ p.langs

theorem pairwise_snd_of_offs : ∀ (es : List Entry) (offs : List Nat), offs.Pairwise (· ≤ ·) →
    ((es.zip offs).map fun q => (q.1.lang, q.2)).Pairwise (fun a c => a.2 ≤ c.2)
  | [], _, _ => by simp
  | _ :: _, [], _ => by simp
  | e :: es, o :: offs, h => by
    rw [List.pairwise_cons] at h
    simp only [List.zip_cons_cons, List.map_cons, List.pairwise_cons]
    refine ⟨?_, pairwise_snd_of_offs es offs h.2⟩
    intro a ha
    simp only [List.mem_map] at ha
    obtain ⟨q, hq, rfl⟩ := ha
    exact h.1 q.2 (List.of_mem_zip hq).2

theorem readScriptTable_spec {b : Bytes} (size pos : Nat) (p : ScriptPlan) (hp : PlanOk p) (T : Bytes)
    (hT : scriptTableBytes p = .ok T) (hb : LL.BytesAt b pos T) (hsize : 8 + 12 * p.langs.length ≤ size) :
    readScriptTable size b p.script pos = .ok (planEntries p) ∧ T.length = planSize p := by
  unfold scriptTableBytes at hT
  split at hT
  · simp at hT
  cases ho : langOffsets p.langs (4 + 6 * p.langs.length + dfltLen p) with
  | err e => rw [ho] at hT; simp at hT
  | panic s => rw [ho] at hT; simp at hT
  | ok offs =>
    rw [ho] at hT
    simp only [Outcome.ok.injEq] at hT
    subst hT
    -- sizes of the parts
    have hLRlen : ∀ (l : List (Entry × Nat)), (∀ q ∈ l, q.1.lang.length = 4) →
        (l.flatMap fun q => q.1.lang ++ be16 q.2).length = 6 * l.length := by
      intro l
      induction l with
      | nil => intro _; rfl
      | cons q l ih =>
        intro h
        simp only [List.flatMap_cons, List.length_append, h q (by simp), length_be16, List.length_cons,
          ih (fun q' hq' => h q' (by simp [hq']))]
        omega
    have hLR := hLRlen (p.langs.zip offs) (fun q hq => (hp.langs q.1 (List.of_mem_zip hq).1).2.2)
    have h4 : (wordsToBytes [dfltOff p, w16 p.langs.length]).length = 4 := by
      rw [length_wordsToBytes]; rfl
    have hDlen : (dfltBytes p).length = dfltLen p := by
      unfold dfltBytes dfltLen
      cases p.dflt with
      | none => rfl
      | some d => exact langSysBytes_length d
    -- where the parts lie in `b`
    have hA := bytesAt_append_left (bytesAt_append_left (bytesAt_append_left hb))
    have hB := bytesAt_append_right (bytesAt_append_left (bytesAt_append_left hb))
    have hC := bytesAt_append_right (bytesAt_append_left hb)
    have hE := bytesAt_append_right hb
    rw [h4] at hB
    simp only [List.length_append, h4, hLR, hDlen] at hC hE
    -- the offsets of the named language systems
    have hE' : LL.BytesAt b (pos + (4 + 6 * p.langs.length + dfltLen p)) (p.langs.flatMap langSysBytes) := by
      obtain ⟨i1, _, _, _⟩ : offs.length = p.langs.length ∧ True ∧ True ∧ True := by
        refine ⟨?_, trivial, trivial, trivial⟩
        have : ∀ (es : List Entry) (st : Nat) (os : List Nat), langOffsets es st = .ok os → os.length = es.length := by
          intro es
          induction es with
          | nil => intro st os h; simp [langOffsets] at h; simp [← h]
          | cons e es ih =>
            intro st os h
            simp only [langOffsets] at h
            split at h
            · simp at h
            · cases h2 : langOffsets es (st + langSysLen e) with
              | ok r => rw [h2] at h; simp only [Outcome.ok.injEq] at h; rw [← h]; simp [ih _ _ h2]
              | err e' => rw [h2] at h; simp at h
              | panic s => rw [h2] at h; simp at h
        exact this _ _ _ ho
      have hz : (p.langs.zip offs).length = p.langs.length := by simp [List.length_zip, i1]
      rw [hz] at hE
      exact hE
    obtain ⟨i1, i2, i3, i4⟩ := langOffsets_spec pos p.langs _ offs ho hE'
    have hz : (p.langs.zip offs).length = p.langs.length := by simp [List.length_zip, i1]
    rw [hz] at hC
    -- the number of language systems is small
    have hk : 4 + 6 * p.langs.length < 65536 := by
      cases hl : p.langs with
      | nil => simp
      | cons e es =>
        rw [hl] at i1
        cases offs with
        | nil => simp at i1
        | cons o os =>
          have := i2 o (by simp)
          rw [hl] at this
          simp only [List.length_cons] at this ⊢
          omega
    constructor
    · -- the reader
      have hlt : ∀ w ∈ [dfltOff p, w16 p.langs.length], w < 65536 := by
        intro w hw
        simp only [List.mem_cons, List.not_mem_nil, or_false] at hw
        rcases hw with rfl | rfl
        · unfold dfltOff; cases p.dflt <;> simp [w16_lt]
        · exact w16_lt _
      have h2 := wordsAt_spec hA hlt 2 0 (by simp)
      simp only [Nat.mul_zero, Nat.add_zero, List.drop_zero, List.take] at h2
      unfold readScriptTable
      rw [h2, w16_of_lt (by omega)]
      simp only
      have hdoff : dfltOff p = 0 ∨ dfltOff p = 4 + 6 * p.langs.length := by
        unfold dfltOff
        cases p.dflt with
        | none => exact Or.inl rfl
        | some d => right; exact w16_of_lt hk
      have hc1 : (decide (dfltOff p > 0) && decide (dfltOff p < (4 + 6 * p.langs.length) % 65536)) = false := by
        rw [Nat.mod_eq_of_lt hk]
        rcases hdoff with h0 | h0 <;> simp [h0]
      rw [if_neg (by simpa using hc1), if_neg (by omega)]
      -- the language-system records
      have hrecs := recs6_spec ((p.langs.zip offs).map fun q => (q.1.lang, q.2)) (pos + 4)
        (by rw [List.flatMap_map]; exact hB)
        (by intro r hr
            rw [List.mem_map] at hr
            obtain ⟨q, hq, rfl⟩ := hr
            exact ⟨(hp.langs q.1 (List.of_mem_zip hq).1).2.2, (i2 q.2 (List.of_mem_zip hq).2).2⟩)
      rw [List.length_map, hz] at hrecs
      rw [hrecs]
      simp only
      -- all records with their entries
      cases hd : p.dflt with
      | none =>
        have hoff0 : dfltOff p = 0 := by unfold dfltOff; rw [hd]
        rw [hoff0]
        simp only [bne_self_eq_false, Bool.false_eq_true, if_false, List.nil_append]
        rw [List.mergeSort_of_pairwise (by
          have := pairwise_snd_of_offs p.langs offs i3
          exact this.imp (fun h => by simpa using h))]
        have := readLangs_spec p.script pos (p.langs.zip offs) (fun q hq =>
          ⟨(hp.langs q.1 (List.of_mem_zip hq).1).1, (hp.langs q.1 (List.of_mem_zip hq).1).2.1, i4 q hq⟩)
        rw [this]
        simp only [planEntries, hd, Option.toList_none, List.nil_append]
        congr 1
        exact List.map_fst_zip (by omega)
      | some d =>
        obtain ⟨hdok, hds, hdl⟩ := hp.dflt d hd
        have hoffd : dfltOff p = 4 + 6 * p.langs.length := by
          unfold dfltOff; rw [hd]; exact w16_of_lt hk
        have hDd : dfltBytes p = langSysBytes d := by unfold dfltBytes; rw [hd]
        have hLd : dfltLen p = langSysLen d := by unfold dfltLen; rw [hd]
        rw [hoffd]
        have hne : ((4 + 6 * p.langs.length != 0) = true) := by simp
        simp only [hne, if_true]
        have hpw : ((([] : Bytes), 4 + 6 * p.langs.length) ::
            (p.langs.zip offs).map fun q => (q.1.lang, q.2)).Pairwise
              (fun a c => (decide (a.2 ≤ c.2)) = true) := by
          rw [List.pairwise_cons]
          refine ⟨?_, (pairwise_snd_of_offs p.langs offs i3).imp (fun h => by simpa using h)⟩
          intro c hc
          rw [List.mem_map] at hc
          obtain ⟨q, hq, rfl⟩ := hc
          have := (i2 q.2 (List.of_mem_zip hq).2).1
          simp only [decide_eq_true_eq]
          omega
        rw [List.singleton_append, List.mergeSort_of_pairwise hpw]
        have := readLangs_spec p.script pos ((d, 4 + 6 * p.langs.length) :: p.langs.zip offs) (by
          intro q hq
          rw [List.mem_cons] at hq
          rcases hq with rfl | hq
          · refine ⟨hdok, hds, ?_⟩
            rw [hDd] at hC
            exact hC
          · exact ⟨(hp.langs q.1 (List.of_mem_zip hq).1).1, (hp.langs q.1 (List.of_mem_zip hq).1).2.1, i4 q hq⟩)
        simp only [List.map_cons, hdl] at this
        rw [this]
        simp only [planEntries, hd, Option.toList_some, List.singleton_append]
        congr 2
        exact List.map_fst_zip (by omega)
    · -- the size
      simp only [List.length_append, h4, hLR, hz, hDlen, planSize]
      have : ∀ (es : List Entry), (es.flatMap langSysBytes).length = (es.map langSysLen).sum := by
        intro es
        induction es with
        | nil => rfl
        | cons e es ih => simp only [List.flatMap_cons, List.length_append, langSysBytes_length, ih,
            List.map_cons, List.sum_cons]
      rw [this]

/-! ### the whole list -/

theorem scriptTableBytes_length (p : ScriptPlan) (hp : PlanOk p) (T : Bytes)
    (hT : scriptTableBytes p = .ok T) : T.length = planSize p :=
  (readScriptTable_spec (b := T) (8 + 12 * p.langs.length) 0 p hp T hT ⟨[], [], by simp, rfl⟩
    (Nat.le_refl _)).2

theorem planSize_ge (p : ScriptPlan) : 4 + 12 * p.langs.length ≤ planSize p := by
  unfold planSize
  have : ∀ (es : List Entry), 6 * es.length ≤ (es.map langSysLen).sum := by
    intro es
    induction es with
    | nil => simp
    | cons e es ih => simp only [List.length_cons, List.map_cons, List.sum_cons, langSysLen]; omega
  have := this p.langs
  omega

/-- the offsets `scriptOffsets` assigns are where the script tables lie -/
theorem scriptOffsets_spec {B : Bytes} : ∀ (plans : List ScriptPlan) (start : Nat) (offs : List Nat) (tb : Bytes),
    (∀ p ∈ plans, PlanOk p) → scriptOffsets plans start = .ok offs → allTables plans = .ok tb →
    LL.BytesAt B start tb →
    offs.length = plans.length ∧ (∀ o ∈ offs, start ≤ o ∧ o < 65536) ∧ offs.Pairwise (· ≤ ·) ∧
    ∀ q ∈ plans.zip offs, ∃ T, scriptTableBytes q.1 = .ok T ∧ LL.BytesAt B q.2 T
  | [], _, offs, _, _, h, _, _ => by simp [scriptOffsets] at h; subst h; simp
  | p :: ps, start, offs, tb, hp, h, ht, hb => by
    simp only [scriptOffsets] at h
    split at h
    · simp at h
    · rename_i hle
      cases h2 : scriptOffsets ps (start + planSize p) with
      | ok r =>
        rw [h2] at h
        simp only [Outcome.ok.injEq] at h
        subst h
        simp only [allTables] at ht
        cases hT : scriptTableBytes p with
        | ok T =>
          rw [hT] at ht
          cases hr : allTables ps with
          | ok rest =>
            rw [hr] at ht
            simp only [Outcome.ok.injEq] at ht
            subst ht
            have hlen := scriptTableBytes_length p (hp p (by simp)) T hT
            have hb2 := bytesAt_append_right hb
            rw [hlen] at hb2
            obtain ⟨i1, i2, i3, i4⟩ := scriptOffsets_spec ps _ r rest
              (fun p' hp' => hp p' (by simp [hp'])) h2 hr hb2
            refine ⟨by simp [i1], ?_, ?_, ?_⟩
            · intro o ho
              rw [List.mem_cons] at ho
              rcases ho with rfl | ho
              · omega
              · have := i2 o ho; omega
            · rw [List.pairwise_cons]
              exact ⟨fun o ho => by have := (i2 o ho).1; omega, i3⟩
            · intro q hq
              simp only [List.zip_cons_cons, List.mem_cons] at hq
              rcases hq with rfl | hq
              · exact ⟨T, hT, bytesAt_append_left hb⟩
              · exact i4 q hq
          | err e => rw [hr] at ht; simp at ht
          | panic s => rw [hr] at ht; simp at ht
        | err e => rw [hT] at ht; simp at ht
        | panic s => rw [hT] at ht; simp at ht
      | err e => rw [h2] at h; simp at h
      | panic s => rw [h2] at h; simp at h

theorem readScripts_spec {B : Bytes} (size : Nat) : ∀ (qs : List (ScriptPlan × Nat)),
    (∀ q ∈ qs, PlanOk q.1 ∧ 8 + 12 * q.1.langs.length ≤ size ∧
      ∃ T, scriptTableBytes q.1 = .ok T ∧ LL.BytesAt B q.2 T) →
    readScripts size B (qs.map fun q => (q.1.script, q.2)) = .ok (qs.flatMap fun q => planEntries q.1)
  | [], _ => rfl
  | q :: qs, h => by
    obtain ⟨hp, hs, T, hT, hb⟩ := h q (by simp)
    simp only [List.map_cons, readScripts, List.flatMap_cons]
    rw [(readScriptTable_spec size q.2 q.1 hp T hT hb hs).1,
      readScripts_spec size qs (fun q' hq' => h q' (by simp [hq']))]

/-- **the binary part**: what `encodePlans` writes reads back as the entries of the plans -/
theorem roundtripPlans (plans : List ScriptPlan) (hp : ∀ p ∈ plans, PlanOk p) (b : Bytes)
    (hb : encodePlans plans = .ok b) (tail : Bytes) (size : Nat) (hsize : (b ++ tail).length ≤ size) :
    readSized size (b ++ tail) = .ok (plans.flatMap planEntries) := by
  unfold encodePlans at hb
  cases ho : scriptOffsets plans (2 + 6 * plans.length) with
  | err e => rw [ho] at hb; simp at hb
  | panic s => rw [ho] at hb; simp at hb
  | ok offs =>
    rw [ho] at hb
    cases ht : allTables plans with
    | err e => rw [ht] at hb; simp at hb
    | panic s => rw [ht] at hb; simp at hb
    | ok tb =>
      rw [ht] at hb
      simp only [Outcome.ok.injEq] at hb
      subst hb
      -- sizes
      have hRlen : ∀ (l : List (ScriptPlan × Nat)), (∀ q ∈ l, q.1.script.length = 4) →
          (l.flatMap fun q => pad4 q.1.script ++ be16 q.2).length = 6 * l.length := by
        intro l
        induction l with
        | nil => intro _; rfl
        | cons q l ih =>
          intro h
          have : (pad4 q.1.script).length = 4 := by
            unfold pad4; simp [h q (by simp)]
          simp only [List.flatMap_cons, List.length_append, this, length_be16, List.length_cons,
            ih (fun q' hq' => h q' (by simp [hq']))]
          omega
      have hR := hRlen (plans.zip offs) (fun q hq => (hp q.1 (List.of_mem_zip hq).1).script4)
      -- where the tables lie
      have hBtb : LL.BytesAt (be16 (w16 plans.length) ++
          (plans.zip offs).flatMap (fun q => pad4 q.1.script ++ be16 q.2) ++ tb ++ tail)
          (2 + 6 * (plans.zip offs).length) tb :=
        ⟨be16 (w16 plans.length) ++ (plans.zip offs).flatMap (fun q => pad4 q.1.script ++ be16 q.2),
         tail, rfl, by simp only [List.length_append, length_be16, hR]⟩
      have hoffsLen : offs.length = plans.length := by
        have : ∀ (ps : List ScriptPlan) (st : Nat) (os : List Nat), scriptOffsets ps st = .ok os →
            os.length = ps.length := by
          intro ps
          induction ps with
          | nil => intro st os h; simp [scriptOffsets] at h; simp [← h]
          | cons p ps ih =>
            intro st os h
            simp only [scriptOffsets] at h
            split at h
            · simp at h
            · cases h2 : scriptOffsets ps (st + planSize p) with
              | ok r => rw [h2] at h; simp only [Outcome.ok.injEq] at h; rw [← h]; simp [ih _ _ h2]
              | err e' => rw [h2] at h; simp at h
              | panic s => rw [h2] at h; simp at h
        exact this _ _ _ ho
      have hz : (plans.zip offs).length = plans.length := by simp [List.length_zip, hoffsLen]
      rw [hz] at hBtb
      obtain ⟨i1, i2, i3, i4⟩ := scriptOffsets_spec plans _ offs tb hp ho ht hBtb
      generalize hB : be16 (w16 plans.length) ++
          (plans.zip offs).flatMap (fun q => pad4 q.1.script ++ be16 q.2) ++ tb ++ tail = B at *
      -- the number of scripts is small
      have hn : plans.length < 65536 := by
        cases hl : plans with
        | nil => simp
        | cons p ps =>
          rw [hl] at i1
          cases offs with
          | nil => simp at i1
          | cons o os =>
            have := i2 o (by simp)
            rw [hl] at this
            simp only [List.length_cons] at this ⊢
            omega
      have hBlen : 2 + 6 * plans.length ≤ B.length := by
        rw [← hB]; simp only [List.length_append, length_be16, hR, hz]; omega
      -- the header
      have hcnt : u16b B 0 = .ok plans.length := by
        have hA : LL.BytesAt B 0 (wordsToBytes [plans.length]) :=
          ⟨[], (plans.zip offs).flatMap (fun q => pad4 q.1.script ++ be16 q.2) ++ tb ++ tail, by
            rw [← hB, w16_of_lt hn]; simp [wordsToBytes], rfl⟩
        have := u16b_at hA (by intro w hw; simp at hw; omega) 0 plans.length (by simp)
        simpa using this
      -- the script records
      have hrecs : recs6 B 2 plans.length = .ok ((plans.zip offs).map fun q => (q.1.script, q.2)) := by
        have hBR : LL.BytesAt B 2 (((plans.zip offs).map fun q => (q.1.script, q.2)).flatMap
            fun r => r.1 ++ be16 r.2) := by
          refine ⟨be16 (w16 plans.length), tb ++ tail, ?_, rfl⟩
          rw [← hB, List.flatMap_map]
          have : ((plans.zip offs).flatMap fun q => pad4 q.1.script ++ be16 q.2) =
              (plans.zip offs).flatMap fun q => q.1.script ++ be16 q.2 := by
            have hc : ∀ (l : List (ScriptPlan × Nat)), (∀ q ∈ l, q.1.script.length = 4) →
                (l.flatMap fun q => pad4 q.1.script ++ be16 q.2) =
                  l.flatMap fun q => q.1.script ++ be16 q.2 := by
              intro l
              induction l with
              | nil => intro _; rfl
              | cons q l ih =>
                intro h
                have h4 := h q (by simp)
                simp only [List.flatMap_cons, ih (fun q' hq' => h q' (by simp [hq']))]
                unfold pad4
                rw [List.take_append_of_le_length (by omega), List.take_of_length_le (by omega)]
            exact hc _ (fun q hq => (hp q.1 (List.of_mem_zip hq).1).script4)
          rw [this]
          simp [List.append_assoc]
        have := recs6_spec _ 2 hBR (by
          intro r hr
          rw [List.mem_map] at hr
          obtain ⟨q, hq, rfl⟩ := hr
          exact ⟨(hp q.1 (List.of_mem_zip hq).1).script4, (i2 q.2 (List.of_mem_zip hq).2).2⟩)
        rw [List.length_map, hz] at this
        exact this
      unfold readSized
      rw [hcnt]
      simp only
      rw [if_neg (by omega), hrecs]
      simp only
      rw [List.mergeSort_of_pairwise (by
        have : ∀ (ps : List ScriptPlan) (os : List Nat), os.Pairwise (· ≤ ·) →
            ((ps.zip os).map fun q => (q.1.script, q.2)).Pairwise (fun a c => decide (a.2 ≤ c.2) = true) := by
          intro ps
          induction ps with
          | nil => intro os _; simp
          | cons p ps ih =>
            intro os hos
            cases os with
            | nil => simp
            | cons o os =>
              rw [List.pairwise_cons] at hos
              simp only [List.zip_cons_cons, List.map_cons, List.pairwise_cons]
              refine ⟨?_, ih os hos.2⟩
              intro a ha
              rw [List.mem_map] at ha
              obtain ⟨q, hq, rfl⟩ := ha
              simpa using hos.1 q.2 (List.of_mem_zip hq).2
        exact this plans offs i3)]
      have hany : (((plans.zip offs).map fun q => (q.1.script, q.2)).any
          fun r => decide (r.2 < 2 + 6 * ((plans.zip offs).map fun q => (q.1.script, q.2)).length)) = false := by
        rw [List.any_eq_false]
        intro r hr
        rw [List.mem_map] at hr
        obtain ⟨q, hq, rfl⟩ := hr
        have := (i2 q.2 (List.of_mem_zip hq).2).1
        simp only [List.length_map, hz, decide_eq_true_eq]
        omega
      rw [hany]
      simp only [Bool.false_eq_true, if_false]
      rw [readScripts_spec size (plans.zip offs) (by
        intro q hq
        obtain ⟨T, hT, hbT⟩ := i4 q hq
        have hpq := hp q.1 (List.of_mem_zip hq).1
        refine ⟨hpq, ?_, T, hT, hbT⟩
        have h1 := bytesAt_length hbT
        have h2 := scriptTableBytes_length q.1 hpq T hT
        have h3 := planSize_ge q.1
        have h4 := (i2 q.2 (List.of_mem_zip hq).2).1
        have h5 : 0 < plans.length := by
          cases hl : plans with
          | nil => rw [hl] at hq; simp at hq
          | cons _ _ => simp
        omega)]
      congr 1
      have : ∀ (ps : List ScriptPlan) (os : List Nat), os.length = ps.length →
          ((ps.zip os).flatMap fun q => planEntries q.1) = ps.flatMap planEntries := by
        intro ps
        induction ps with
        | nil => intro os _; rfl
        | cons p ps ih =>
          intro os hos
          cases os with
          | nil => simp at hos
          | cons o os =>
            simp only [List.zip_cons_cons, List.flatMap_cons]
            rw [ih os (by simpa using hos)]
      exact this plans offs hoffsLen

/-! ### planning: grouping the entries by script loses nothing -/

theorem mem_dedup_aux (x : Bytes) : ∀ (l acc : List Bytes),
    x ∈ l.foldl (fun acc x => if acc.contains x then acc else acc ++ [x]) acc ↔ x ∈ acc ∨ x ∈ l
  | [], acc => by simp
  | y :: l, acc => by
    rw [List.foldl_cons, mem_dedup_aux x l]
    by_cases hc : acc.contains y = true
    · rw [if_pos hc]
      have : y ∈ acc := by simpa using hc
      constructor
      · rintro (h | h)
        · exact .inl h
        · exact .inr (by simp [h])
      · rintro (h | h)
        · exact .inl h
        · rw [List.mem_cons] at h
          rcases h with rfl | h
          · exact .inl this
          · exact .inr h
    · rw [if_neg hc]
      simp only [List.mem_append, List.mem_cons, List.not_mem_nil, or_false]
      constructor
      · rintro ((h | h) | h)
        · exact .inl h
        · exact .inr (.inl h)
        · exact .inr (.inr h)
      · rintro (h | h | h)
        · exact .inl (.inl h)
        · exact .inl (.inr h)
        · exact .inr h

theorem mem_scriptsOf (es : List Entry) (s : Bytes) : s ∈ scriptsOf es ↔ ∃ e ∈ es, e.script = s := by
  unfold scriptsOf dedup
  rw [List.mem_mergeSort, mem_dedup_aux]
  simp

/-- the entries the map-to-list conversion may produce -/
structure InputOk (es : List Entry) : Prop where
  ok : ∀ e ∈ es, EntryOk e ∧ (e.lang = [] ∨ e.lang.length = 4)
  distinct : es.Pairwise fun a c => ¬ (a.script = c.script ∧ a.lang = c.lang)

theorem key_inj : ∀ (es : List Entry), (es.Pairwise fun a c => ¬ (a.script = c.script ∧ a.lang = c.lang)) →
    ∀ a ∈ es, ∀ c ∈ es, a.script = c.script → a.lang = c.lang → a = c
  | [], _, a, ha, _, _, _, _ => by simp at ha
  | x :: es, h, a, ha, c, hc, hs, hl => by
    rw [List.pairwise_cons] at h
    rw [List.mem_cons] at ha hc
    rcases ha with rfl | ha <;> rcases hc with rfl | hc
    · rfl
    · exact absurd ⟨hs, hl⟩ (h.1 c hc)
    · exact absurd ⟨hs.symm, hl.symm⟩ (h.1 a ha)
    · exact key_inj es h.2 a ha c hc hs hl

theorem mem_planEntries (es : List Entry) (s : Bytes) (e : Entry) :
    e ∈ planEntries (planOf es s) → e ∈ es ∧ e.script = s := by
  intro h
  unfold planEntries planOf at h
  simp only [List.mem_append, Option.mem_toList, List.mem_mergeSort, List.mem_filter] at h
  rcases h with h | h
  · have := List.mem_of_find?_eq_some h
    rw [List.mem_filter] at this
    exact ⟨this.1, by simpa using this.2⟩
  · exact ⟨h.1.1, by simpa using h.1.2⟩

theorem planOk_planOf (es : List Entry) (h : InputOk es) (s : Bytes) (hs : s ∈ scriptsOf es) :
    PlanOk (planOf es s) := by
  rw [mem_scriptsOf] at hs
  obtain ⟨e0, he0, rfl⟩ := hs
  refine ⟨(h.ok e0 he0).1.script4, ?_, ?_⟩
  · intro d hd
    have hm := mem_planEntries es e0.script d (by
      unfold planEntries; rw [hd]; simp)
    refine ⟨(h.ok d hm.1).1, hm.2, ?_⟩
    have := List.find?_some hd
    simpa using this
  · intro e he
    have hm := mem_planEntries es e0.script e (by
      unfold planEntries; simp [he])
    refine ⟨(h.ok e hm.1).1, hm.2, ?_⟩
    unfold planOf at he
    simp only [List.mem_mergeSort, List.mem_filter] at he
    rcases (h.ok e hm.1).2 with h0 | h4
    · rw [h0] at he; simp at he
    · exact h4

theorem mem_plans (es : List Entry) (h : InputOk es) (e : Entry) :
    e ∈ (plansOf es).flatMap planEntries ↔ e ∈ es := by
  unfold plansOf
  rw [List.mem_flatMap]
  constructor
  · rintro ⟨p, hp, he⟩
    rw [List.mem_map] at hp
    obtain ⟨s, _, rfl⟩ := hp
    exact (mem_planEntries es s e he).1
  · intro he
    refine ⟨planOf es e.script, List.mem_map.mpr ⟨e.script, (mem_scriptsOf es _).mpr ⟨e, he, rfl⟩, rfl⟩, ?_⟩
    unfold planEntries
    rw [List.mem_append]
    rcases (h.ok e he).2 with h0 | h4
    · left
      have hg : e ∈ es.filter (·.script == e.script) := by
        rw [List.mem_filter]; exact ⟨he, by simp⟩
      cases hf : (planOf es e.script).dflt with
      | none =>
        unfold planOf at hf
        simp only at hf
        rw [List.find?_eq_none] at hf
        have := hf e hg
        rw [h0] at this
        simp at this
      | some d =>
        have hm := mem_planEntries es e.script d (by unfold planEntries; rw [hf]; simp)
        have hd0 : d.lang = [] := by
          unfold planOf at hf
          have := List.find?_some hf
          simpa using this
        have := key_inj es h.distinct d hm.1 e he hm.2 (by rw [hd0, h0])
        rw [this]; simp
    · right
      unfold planOf
      simp only [List.mem_mergeSort, List.mem_filter]
      refine ⟨⟨he, by simp⟩, ?_⟩
      cases hl : e.lang with
      | nil => rw [hl] at h4; simp at h4
      | cons _ _ => simp

/-- **script list round trip** (OpenType side of the tag conversion): every entry written is read
back and nothing else -/
theorem roundtrip (es : List Entry) (h : InputOk es) (b : Bytes) (hb : encode es = .ok b)
    (tail : Bytes) (size : Nat) (hsize : (b ++ tail).length ≤ size) :
    ∃ r, readSized size (b ++ tail) = .ok r ∧ ∀ e, e ∈ r ↔ e ∈ es :=
  ⟨_, roundtripPlans (plansOf es) (by
      intro p hp
      unfold plansOf at hp
      rw [List.mem_map] at hp
      obtain ⟨s, hs, rfl⟩ := hp
      exact planOk_planOf es h s hs) b hb tail size hsize,
   mem_plans es h⟩

/-- the encoder never returns an error value: it writes, or refuses with a panic -/
theorem encode_refusal_or_ok (es : List Entry) :
    (∃ b, encode es = .ok b) ∨ (∃ s, encode es = .panic s) := by
  have hL : ∀ (l : List Entry) (p : Nat), (∃ r, langOffsets l p = .ok r) ∨ ∃ s, langOffsets l p = .panic s := by
    intro l
    induction l with
    | nil => intro p; exact .inl ⟨[], rfl⟩
    | cons e l ih =>
      intro p
      simp only [langOffsets]
      split
      · exact .inr ⟨_, rfl⟩
      · rcases ih (p + langSysLen e) with ⟨r, hr⟩ | ⟨s, hs⟩
        · rw [hr]; exact .inl ⟨_, rfl⟩
        · rw [hs]; exact .inr ⟨_, rfl⟩
  have hT : ∀ p : ScriptPlan, (∃ r, scriptTableBytes p = .ok r) ∨ ∃ s, scriptTableBytes p = .panic s := by
    intro p
    unfold scriptTableBytes
    split
    · exact .inr ⟨_, rfl⟩
    · rcases hL p.langs (4 + 6 * p.langs.length + dfltLen p) with ⟨r, hr⟩ | ⟨s, hs⟩
      · rw [hr]; exact .inl ⟨_, rfl⟩
      · rw [hs]; exact .inr ⟨_, rfl⟩
  have hA : ∀ ps : List ScriptPlan, (∃ r, allTables ps = .ok r) ∨ ∃ s, allTables ps = .panic s := by
    intro ps
    induction ps with
    | nil => exact .inl ⟨[], rfl⟩
    | cons p ps ih =>
      simp only [allTables]
      rcases hT p with ⟨r, hr⟩ | ⟨s, hs⟩
      · rw [hr]
        rcases ih with ⟨r2, hr2⟩ | ⟨s, hs⟩
        · rw [hr2]; exact .inl ⟨_, rfl⟩
        · rw [hs]; exact .inr ⟨_, rfl⟩
      · rw [hs]; exact .inr ⟨_, rfl⟩
  have hO : ∀ (ps : List ScriptPlan) (t : Nat), (∃ r, scriptOffsets ps t = .ok r) ∨ ∃ s, scriptOffsets ps t = .panic s := by
    intro ps
    induction ps with
    | nil => intro t; exact .inl ⟨[], rfl⟩
    | cons p ps ih =>
      intro t
      simp only [scriptOffsets]
      split
      · exact .inr ⟨_, rfl⟩
      · rcases ih (t + planSize p) with ⟨r, hr⟩ | ⟨s, hs⟩
        · rw [hr]; exact .inl ⟨_, rfl⟩
        · rw [hs]; exact .inr ⟨_, rfl⟩
  unfold encode encodePlans
  rcases hO (plansOf es) (2 + 6 * (plansOf es).length) with ⟨r, hr⟩ | ⟨s, hs⟩
  · rw [hr]
    rcases hA (plansOf es) with ⟨r2, hr2⟩ | ⟨s, hs⟩
    · rw [hr2]; exact .inl ⟨_, rfl⟩
    · rw [hs]; exact .inr ⟨_, rfl⟩
  · rw [hs]; exact .inr ⟨_, rfl⟩

end SfntV.Otl.SL
