/-
Lemmas for C18 at parser level: the parser on a source ending at `k`.
-/
import SfntV.Model.FaultsParser
import SfntV.Proofs.Parser

namespace SfntV.FaultsParser
open SfntV SfntV.Parser

theorem faultRun_eq (o : Oracle) (f : Bytes) (k : Nat) (ops : List Op) (hops : ∀ op ∈ ops, op.ok) :
    ∀ p : P, p.Inv → p.input = f.take k → faultRun o f.length p ops = viewRun f k p.cursor ops := by
  induction ops with
  | nil => intro p _ _; rfl
  | cons op ops ih =>
    intro p h hin
    have hop : op.ok := hops op (by simp)
    have hrest : ∀ op ∈ ops, op.ok := fun op h => hops op (by simp [h])
    simp only [faultRun, viewRun]
    by_cases hs : op = .size
    · subst hs
      simp only [faultStep, viewStep]
      rw [ih hrest p h hin]
    · have ⟨hi, hin', hstep⟩ := step_refines o p h op hop
      have e1 : faultStep o f.length p op = implStep o p op := by
        cases op <;> first | rfl | exact absurd rfl hs
      have e2 : viewStep f k p.cursor op = specStep (f.take k) p.cursor op := by
        cases op <;> first | rfl | exact absurd rfl hs
      rw [e1, e2, ← hin]
      have h1 : (implStep o p op).2 = (specStep p.input p.cursor op).2 := by
        have := congrArg Prod.snd hstep; simpa using this
      have h2 : (implStep o p op).1.cursor = (specStep p.input p.cursor op).1 := by
        have := congrArg Prod.fst hstep; simpa using this
      rw [h1]
      congr 1
      rw [ih hrest (implStep o p op).1 hi (by rw [hin', hin]), h2, hin]

theorem take_drop_take (f : Bytes) (k c n : Nat) (h : c + n ≤ k) :
    ((f.take k).drop c).take n = (f.drop c).take n := by
  rw [List.drop_take, List.take_take]
  congr 1
  omega

theorem specBytes_take (f : Bytes) (k c n : Nat) (h : c + n ≤ k) :
    specBytes (f.take k) c n = specBytes f c n := by
  unfold specBytes
  rw [take_drop_take f k c n h, List.length_take]
  by_cases hc : n = 0 ∨ c + n ≤ f.length
  · have : n = 0 ∨ c + n ≤ min k f.length := by omega
    rw [if_pos hc, if_pos this]
  · have : ¬ (n = 0 ∨ c + n ≤ min k f.length) := by omega
    rw [if_neg hc, if_neg this]

theorem specBytes_take_none (f : Bytes) (k c n : Nat) (hn : 0 < n) (h : k < c + n) :
    specBytes (f.take k) c n = none := by
  unfold specBytes
  rw [List.length_take]
  have : ¬ (n = 0 ∨ c + n ≤ min k f.length) := by omega
  rw [if_neg this]

theorem specU16s_take (f : Bytes) (k : Nat) : ∀ (cnt c : Nat) (acc : List Nat), c + 2 * cnt ≤ k →
    specU16s (f.take k) cnt c acc = specU16s f cnt c acc := by
  intro cnt
  induction cnt with
  | zero => intro c acc _; rfl
  | succ cnt ih =>
    intro c acc h
    simp only [specU16s]
    rw [specBytes_take f k c 2 (by omega)]
    cases specBytes f c 2 with
    | none => rfl
    | some b => exact ih (c + 2) _ (by omega)

theorem specU16s_take_err (f : Bytes) (k : Nat) : ∀ (cnt c : Nat) (acc : List Nat), c ≤ k →
    k < c + 2 * cnt → (specU16s (f.take k) cnt c acc).2 = .eof := by
  intro cnt
  induction cnt with
  | zero => intro c acc hc h; omega
  | succ cnt ih =>
    intro c acc hc h
    simp only [specU16s]
    cases hs : specBytes (f.take k) c 2 with
    | none => rfl
    | some b =>
      have := (specBytes_some _ _ _ _ hs).2
      rw [List.length_take] at this
      exact ih (c + 2) _ (by omega) (by omega)

theorem specBulk_take (f : Bytes) (k : Nat) : ∀ (fuel rem c : Nat) (acc : Bytes),
    (rem = 0 ∨ c + rem ≤ k) → specBulk (f.take k) fuel rem c acc = specBulk f fuel rem c acc := by
  intro fuel
  induction fuel with
  | zero => intro rem c acc _; rfl
  | succ fuel ih =>
    intro rem c acc h
    unfold specBulk
    by_cases hr0 : rem = 0
    · simp only [hr0, if_true]
    · simp only [hr0, if_false]
      have hk : c + min rem bufferSize ≤ k := by omega
      rw [specBytes_take f k c _ hk]
      cases specBytes f c (min rem bufferSize) with
      | none => rfl
      | some b => exact ih _ _ _ (by omega)

/-- operations whose byte range ends at or before `k` are unaffected by the source ending at `k` -/
theorem viewStep_unaffected (f : Bytes) (k c : Nat) (op : Op) (h : needEnd f c op ≤ k) :
    viewStep f k c op = specStep f c op := by
  cases op with
  | seek q => rfl
  | discard n => rfl
  | pos => rfl
  | size => rfl
  | bytes n =>
    simp only [needEnd] at h
    simp only [viewStep, specStep]
    by_cases hn : n = 0
    · subst hn
      simp [specBytes]
    · rw [if_neg hn] at h; rw [specBytes_take f k c n h]
  | u8 => simp only [needEnd] at h; simp only [viewStep, specStep, specFixed, specBytes_take f k c 1 h]
  | u16 => simp only [needEnd] at h; simp only [viewStep, specStep, specFixed, specBytes_take f k c 2 h]
  | u32 => simp only [needEnd] at h; simp only [viewStep, specStep, specFixed, specBytes_take f k c 4 h]
  | i16 => simp only [needEnd] at h; simp only [viewStep, specStep, specBytes_take f k c 2 h]
  | read n =>
    simp only [needEnd] at h
    simp only [viewStep, specStep]
    apply specBulk_take
    by_cases hn : n = 0
    · exact Or.inl hn
    · rw [if_neg hn] at h; exact Or.inr h
  | u16s =>
    simp only [needEnd] at h
    simp only [viewStep, specStep]
    have h2 : c + 2 ≤ k := by split at h <;> omega
    rw [specBytes_take f k c 2 h2]
    cases hs : specBytes f c 2 with
    | none => rfl
    | some b =>
      obtain ⟨hb, hfit⟩ := specBytes_some _ _ _ _ hs
      have hfit' : c + 2 ≤ f.length := by omega
      rw [if_pos hfit', ← hb] at h
      exact specU16s_take f k _ _ _ (by omega)

/-- operations that need a byte at or beyond `k` fail; a bulk read reports fewer bytes than
asked for only together with the error -/
theorem viewStep_error (f : Bytes) (k c : Nat) (op : Op) (h : k < needEnd f c op) :
    isErr (viewStep f k c op).2 = true ∧
    (∀ n b, op = .read n → (viewStep f k c op).2 = .short b → b.length < n) := by
  cases op with
  | seek q => simp [needEnd] at h
  | discard n => simp [needEnd] at h
  | pos => simp [needEnd] at h
  | size => simp [needEnd] at h
  | bytes n =>
    simp only [needEnd] at h
    have hn : n ≠ 0 := by intro hn; simp [hn] at h
    rw [if_neg hn] at h
    simp only [viewStep, specStep, specBytes_take_none f k c n (by omega) h]
    exact ⟨rfl, fun _ _ h => by cases h⟩
  | u8 =>
    simp only [needEnd] at h
    simp only [viewStep, specStep, specFixed, specBytes_take_none f k c 1 (by omega) h]
    exact ⟨rfl, fun _ _ h => by cases h⟩
  | u16 =>
    simp only [needEnd] at h
    simp only [viewStep, specStep, specFixed, specBytes_take_none f k c 2 (by omega) h]
    exact ⟨rfl, fun _ _ h => by cases h⟩
  | u32 =>
    simp only [needEnd] at h
    simp only [viewStep, specStep, specFixed, specBytes_take_none f k c 4 (by omega) h]
    exact ⟨rfl, fun _ _ h => by cases h⟩
  | i16 =>
    simp only [needEnd] at h
    simp only [viewStep, specStep, specBytes_take_none f k c 2 (by omega) h]
    exact ⟨rfl, fun _ _ h => by cases h⟩
  | read n =>
    simp only [needEnd] at h
    have hn : n ≠ 0 := by intro hn; simp [hn] at h
    rw [if_neg hn] at h
    have hc := (specBulk_closed (f.take k) (n + 1) n c [] (by omega)).2
      (by rw [List.length_take]; omega)
    obtain ⟨t, ht, hs⟩ := hc
    simp only [viewStep, specStep, hs]
    refine ⟨rfl, ?_⟩
    intro n' b hop hb
    injection hop with hop
    injection hb with hb
    subst hop
    rw [← hb]
    simp only [List.nil_append, List.length_take]
    omega
  | u16s =>
    simp only [needEnd] at h
    simp only [viewStep, specStep]
    refine ⟨?_, fun _ _ h => by cases h⟩
    by_cases h2 : c + 2 ≤ k
    · rw [specBytes_take f k c 2 h2]
      cases hs : specBytes f c 2 with
      | none => rfl
      | some b =>
        obtain ⟨hb, hfit⟩ := specBytes_some _ _ _ _ hs
        have hfit' : c + 2 ≤ f.length := by omega
        rw [if_pos hfit', ← hb] at h
        simp only
        rw [specU16s_take_err f k _ _ _ (by omega) (by omega)]
        rfl
    · rw [specBytes_take_none f k c 2 (by omega) (by omega)]
      rfl

end SfntV.FaultsParser
