/-
C06: contextual lookups nested to ANY depth — engine model = reference shaper (the full
refinement of DESIGN §8).  The engine's stack `entry_d :: entry_{d-1} :: … :: entry_0` is related
to the tagged buffer: `entry_e = (inputPositions e ts, remaining actions, windowEnd e ts)` for
every pending match; every operation inside the innermost window is a `Splice` that moves all
window ends by the same amount, `fixStackInsert` / `fixStackMerge` applied to EVERY entry
re-establishes the relation (`track_insert`, `track_merge`), tagging and untagging a deeper
window does not change the flags of the other depths.  The engine's flat loop is compared with
the reference's recursion in continuation form (`LoopGoal`), observing only what
`applyAtRecursively` looks at (`Obs`).
-/
import SfntV.Proofs.ShapeSpecNest
import SfntV.Proofs.ShapeSpecDeepEngine
import SfntV.Proofs.ShapeSpecDeepBase2
import SfntV.Proofs.ShapeSpecDeepTags
import SfntV.Proofs.ShapeSpecLigLim2
import SfntV.Proofs.ShapeSpecSplice
namespace SfntV.C06
open SfntV
open SfntV.Shape (Glyph Gdef Lookup LookupList Subtable Action St Nested)
open SfntV.Spec.Shape (TG gl Hit matchSub SubEq CtxMatch tagWindow inputPositions windowEnd)

theorem formD_get {d a : Nat} {P A D ts : List TG} (h : FormD d a P A D ts) (j : Nat) (t : TG) (hj : ts[j]? = some t)
    (ha : a ≤ j) (hlt : j < a + A.length) : t.hasWin d = true := by
  have := (formD_replace h j t [] hj ha hlt (by intro x hx; cases hx)).2
  exact h.inA t (List.mem_of_getElem? this)

theorem ipk_mem (d : Nat) : ∀ (l : List TG) (k i : Nat) (t : TG), l[i]? = some t → t.hasInp d = true → k + i ∈ ipk d l k := by
  intro l
  induction l with
  | nil => intro k i t h; simp at h
  | cons x l ih =>
    intro k i t h ht
    rw [ipk_cons]
    cases i with
    | zero =>
      simp only [List.getElem?_cons_zero] at h
      injection h with h; subst h
      simp [ht]
    | succ i =>
      simp only [List.getElem?_cons_succ] at h
      have := ih (k + 1) i t h ht
      have he : k + (i + 1) = k + 1 + i := by omega
      rw [he]
      split
      · exact List.mem_cons_of_mem _ this
      · exact this

theorem inputPositions_mem (e : Nat) (ts : List TG) (p : Nat) (t : TG) (hp : ts[p]? = some t) (ht : t.hasInp e = true) :
    p ∈ inputPositions e ts := by
  have := ipk_mem e ts 0 p t hp ht
  simpa [inputPositions_eq_ipk] using this

end SfntV.C06

namespace SfntV.C06
open SfntV
open SfntV.Shape (Glyph Gdef Lookup LookupList Subtable Action St Nested)
open SfntV.Spec.Shape (TG gl Hit matchSub SubEq CtxMatch tagWindow inputPositions windowEnd)

/-! ## what is known about a pending match of depth `e` with window start `a'` -/

structure DepthOK (e a' : Nat) (ts : List TG) : Prop where
  form : ∃ P A D, FormD e a' P A D ts ∧ A ≠ []
  inpwin : InpWin e ts

/-- tracking one stack entry through the replacement of the glyph at `j` by the glyphs `dn` -/
theorem track_insert {e a' : Nat} {ts : List TG} (hD : DepthOK e a' ts) (acts : List Action) (j : Nat) (cur : TG)
    (dn : List TG) (hj : ts[j]? = some cur) (ha : a' ≤ j) (hlt : j < windowEnd e ts) (hne : dn ≠ [])
    (hdn : ∀ x ∈ dn, SameTags cur x) :
    Shape.fixInsertOne j dn.length (entryD e ts acts) = entryD e (ts.take j ++ dn ++ ts.drop (j + 1)) acts
    ∧ DepthOK e a' (ts.take j ++ dn ++ ts.drop (j + 1))
    ∧ windowEnd e (ts.take j ++ dn ++ ts.drop (j + 1)) + 1 = windowEnd e ts + dn.length := by
  obtain ⟨P, A, D, hF, hA⟩ := hD.form
  have hwe := formD_windowEnd hF hA
  have hsp := splice_replace ts j cur dn hj hne hdn
  have hcw : cur.hasWin e = true := formD_get hF j cur hj ha (by omega)
  have hold : ∀ x ∈ [cur], x.hasWin e = true := by intro x hx; simp at hx; subst hx; exact hcw
  have hw' := windowEnd_splice hsp hold
  simp only [List.length_singleton] at hw'
  obtain ⟨A', hF', hl', hA'⟩ := formD_splice hF hsp ha (by simp only [List.length_singleton]; omega)
  have hpos : 1 ≤ dn.length := by
    cases dn with
    | nil => exact absurd rfl hne
    | cons _ _ => simp
  refine ⟨?_, ⟨⟨P, A', D, hF', hA'⟩, inpWin_splice hD.inpwin hsp⟩, hw'⟩
  unfold entryD
  have hs := inputPositions_sorted e ts
  rw [fixInsertOne_expand' _ acts (windowEnd e ts) j dn.length hs.1 hlt (fun p hp => inpWin_lt hD.inpwin p hp) hpos,
    ipD_replace (d := e) ts j cur dn hj hne hdn]
  congr 2
  omega

theorem region_hasWin {e a' : Nat} {P A D ts : List TG} (hF : FormD e a' P A D ts) (j n : Nat) (ha : a' ≤ j)
    (hb : j + n ≤ a' + A.length) : ∀ x ∈ (ts.drop j).take n, x.hasWin e = true := by
  intro x hx
  obtain ⟨i, hi⟩ := List.getElem?_of_mem hx
  rw [List.getElem?_take] at hi
  split at hi
  · rename_i hin
    rw [List.getElem?_drop] at hi
    exact formD_get hF (j + i) x hi (by omega) (by omega)
  · cases hi

/-- tracking one stack entry through a ligature: the glyph at `j` and the kept glyphs of the
region behind it (at the offsets `offs`) become one glyph -/
theorem track_merge {e a' : Nat} {ts : List TG} (hD : DepthOK e a' ts) (acts : List Action) (kp : Nat → Bool)
    (j used : Nat) (cur lig : TG) (offs : List Nat) (hj : ts[j]? = some cur) (ha : a' ≤ j) (hl : SameTags cur lig)
    (hend : j + 1 + used ≤ windowEnd e ts) (hoffs : offs.Pairwise (· < ·)) (hob : ∀ o ∈ offs, o < used)
    (hk : ∀ r, r < used → ∀ t, (ts.drop (j + 1))[r]? = some t → (kp t.g.gid = true ↔ r ∈ offs))
    (hcomp : cur.hasInp e = true ∨ ∀ r ∈ offs, ∀ t, (ts.drop (j + 1))[r]? = some t → t.hasInp e = false) :
    Shape.fixMergeOne ((j :: offs.map (· + (j + 1))).map Int.ofNat) (entryD e ts acts)
      = entryD e (ts.take j ++ (lig :: ((ts.drop (j + 1)).take used).filter (fun t => !kp t.g.gid)) ++ ts.drop (j + 1 + used)) acts
    ∧ DepthOK e a' (ts.take j ++ (lig :: ((ts.drop (j + 1)).take used).filter (fun t => !kp t.g.gid)) ++ ts.drop (j + 1 + used))
    ∧ windowEnd e (ts.take j ++ (lig :: ((ts.drop (j + 1)).take used).filter (fun t => !kp t.g.gid)) ++ ts.drop (j + 1 + used))
        + offs.length = windowEnd e ts := by
  obtain ⟨P, A, D, hF, hA⟩ := hD.form
  have hwe := formD_windowEnd hF hA
  have hlen := formD_length hF
  have hu : j + 1 + used ≤ ts.length := by omega
  have hsp := splice_merge ts kp j used cur lig hj hl hu
  obtain ⟨hip, hlen2⟩ := ipD_merge' (d := e) ts kp j used cur lig offs hj hl hu hoffs hob hk
  have hfl : (((ts.drop (j + 1)).take used).filter (fun t => !kp t.g.gid)).length + offs.length = used := by
    simp only [List.length_append, List.length_cons, List.length_take, List.length_drop] at hlen2
    omega
  have hold : ∀ x ∈ cur :: (ts.drop (j + 1)).take used, x.hasWin e = true := by
    intro x hx
    rcases List.mem_cons.mp hx with hx | hx
    · subst hx; exact formD_get hF j _ hj ha (by omega)
    · exact region_hasWin hF (j + 1) used (by omega) (by omega) x hx
  have hw' := windowEnd_splice hsp hold
  simp only [List.length_cons, List.length_take, List.length_drop] at hw'
  have hmin : min used (ts.length - (j + 1)) = used := by omega
  rw [hmin] at hw'
  obtain ⟨A', hF', hl', hA'⟩ := formD_splice hF hsp ha (by
    simp only [List.length_cons, List.length_take, List.length_drop]; omega)
  refine ⟨?_, ⟨⟨P, A', D, hF', hA'⟩, inpWin_splice hD.inpwin hsp⟩, by omega⟩
  unfold entryD
  have hs := inputPositions_sorted e ts
  have hcs : (offs.map (· + (j + 1))).Pairwise (· < ·) := by
    rw [List.pairwise_map]; exact hoffs.imp (by intro x y h; omega)
  have hjc : ∀ c ∈ offs.map (· + (j + 1)), j < c := by
    intro c hc; obtain ⟨o, _, ho⟩ := List.mem_map.mp hc; omega
  have hce : ∀ c ∈ offs.map (· + (j + 1)), c < windowEnd e ts := by
    intro c hc; obtain ⟨o, ho1, ho⟩ := List.mem_map.mp hc
    have := hob o ho1; omega
  have hcomp' : j ∈ inputPositions e ts ∨ ∀ c ∈ offs.map (· + (j + 1)), c ∉ inputPositions e ts := by
    rcases hcomp with h1 | h2
    · exact Or.inl (inputPositions_mem e ts j cur hj h1)
    · refine Or.inr ?_
      intro c hc hmem
      obtain ⟨o, ho1, ho⟩ := List.mem_map.mp hc
      obtain ⟨t, ht, hti⟩ := inputPositions_get e ts c hmem
      have : (ts.drop (j + 1))[o]? = some t := by
        rw [List.getElem?_drop]; rw [← ho] at ht
        rw [show j + 1 + o = o + (j + 1) from by omega]; exact ht
      rw [h2 o ho1 t this] at hti
      cases hti
  rw [fixMergeOne_mergePos' _ _ acts (windowEnd e ts) j hs.1 hcs hjc (by omega) (fun p hp => inpWin_lt hD.inpwin p hp) hce hcomp',
    hip]
  congr 2
  simp only [List.length_map]
  omega

/-! ## the invariant of the engine's stack against the tagged buffer -/

/-- a pending enclosing match: depth, start of its window, remaining actions -/
abbrev Frame := Nat × Nat × List Action

def stackOf (ts : List TG) (fr : List Frame) : List Nested := fr.map fun f => entryD f.1 ts f.2.2

/-- the stack while the actions `acts` of the match of depth `d` are run -/
def stackD (d : Nat) (ts : List TG) (acts : List Action) (fr : List Frame) : List Nested :=
  entryD d ts acts :: stackOf ts fr

structure InvD (d a : Nat) (ts : List TG) (fr : List Frame) : Prop where
  cur : DepthOK d a ts
  frames : ∀ f ∈ fr, DepthOK f.1 f.2.1 ts ∧ f.2.1 ≤ a ∧ windowEnd d ts ≤ windowEnd f.1 ts ∧ f.1 < d
  above : ∀ e, d < e → ∀ t ∈ ts, OutD e t

theorem depthOK_splice {e a' : Nat} {ts ts' : List TG} {j : Nat} {old new : List TG} (hD : DepthOK e a' ts)
    (hs : Splice ts j old new ts') (ha : a' ≤ j) (hb : j + old.length ≤ windowEnd e ts) :
    DepthOK e a' ts' ∧ windowEnd e ts' + old.length = windowEnd e ts + new.length := by
  obtain ⟨P, A, D, hF, hA⟩ := hD.form
  have hwe := formD_windowEnd hF hA
  obtain ⟨A', hF', _, hA'⟩ := formD_splice hF hs ha (by omega)
  refine ⟨⟨⟨P, A', D, hF', hA'⟩, inpWin_splice hD.inpwin hs⟩, ?_⟩
  apply windowEnd_splice hs
  intro x hx
  have hreg := region_hasWin hF j old.length ha (by omega)
  apply hreg
  have : (ts.drop j).take old.length = old := by
    have h1 := hs.eq
    have : ts.drop j = old ++ ts.drop (j + old.length) := by
      conv => lhs; rw [h1]
      rw [List.append_assoc, List.drop_append]
      have hl : (ts.take j).length = j := by simp; have := hs.len; omega
      simp [hl]
    rw [this]; simp
  rw [this]; exact hx

/-- every operation inside the innermost window keeps the invariant, moves all window ends by the
same amount and leaves everything before the window alone -/
theorem inv_splice {d a : Nat} {ts ts' : List TG} {fr : List Frame} {j : Nat} {old new : List TG}
    (hI : InvD d a ts fr) (hs : Splice ts j old new ts') (ha : a ≤ j) (hb : j + old.length ≤ windowEnd d ts) :
    InvD d a ts' fr ∧ windowEnd d ts' + old.length = windowEnd d ts + new.length ∧
    (∀ f ∈ fr, windowEnd f.1 ts' + old.length = windowEnd f.1 ts + new.length) ∧ ts'.take a = ts.take a := by
  obtain ⟨hc, hwd⟩ := depthOK_splice hI.cur hs ha hb
  have hfr : ∀ f ∈ fr, DepthOK f.1 f.2.1 ts' ∧ windowEnd f.1 ts' + old.length = windowEnd f.1 ts + new.length := by
    intro f hf
    obtain ⟨h1, h2, h3, _⟩ := hI.frames f hf
    exact depthOK_splice h1 hs (by omega) (by omega)
  refine ⟨⟨hc, ?_, ?_⟩, hwd, fun f hf => (hfr f hf).2, splice_take hs a ha⟩
  · intro f hf
    obtain ⟨h1, h2, h3, h4⟩ := hI.frames f hf
    have := (hfr f hf).2
    exact ⟨(hfr f hf).1, h2, by omega, h4⟩
  · intro e he
    exact outD_splice (hI.above e he) hs

/-! ## a non-contextual subtable applied at an input position, any stack -/

/-- the target for a `.done` hit of the reference at depth `d` -/
def DoneOK (d a : Nat) (fr : List Frame) (kp : Nat → Bool) (ts : List TG) (acts : List Action) (j : Nat) (s : Subtable)
    (ts' : List TG) : Prop :=
  ∃ nx, Shape.applySub kp ⟨gl ts, stackD d ts acts fr⟩ j ((windowEnd d ts : Nat) : Int) s
      = .ok (some (⟨gl ts', stackD d ts' acts fr⟩, nx)) ∧
    InvD d a ts' fr ∧
    (∀ f ∈ fr, windowEnd f.1 ts' + windowEnd d ts = windowEnd f.1 ts + windowEnd d ts') ∧
    ts'.take a = ts.take a

theorem doneOK_of {d a : Nat} {fr : List Frame} {kp : Nat → Bool} {ts ts' : List TG} {acts : List Action} {j : Nat}
    {s : Subtable} {old new : List TG} (hI : InvD d a ts fr) (hs : Splice ts j old new ts') (ha : a ≤ j)
    (hb : j + old.length ≤ windowEnd d ts) (fx : Nested → Nested) (nx : Nat)
    (happ : Shape.applySub kp ⟨gl ts, stackD d ts acts fr⟩ j ((windowEnd d ts : Nat) : Int) s
      = .ok (some (⟨gl ts', (stackD d ts acts fr).map fx⟩, nx)))
    (hfx : ∀ e a' acts', DepthOK e a' ts → a' ≤ j → j + old.length ≤ windowEnd e ts → fx (entryD e ts acts') = entryD e ts' acts') :
    DoneOK d a fr kp ts acts j s ts' := by
  obtain ⟨hI', hwd, hwf, htk⟩ := inv_splice hI hs ha hb
  refine ⟨nx, ?_, hI', ?_, htk⟩
  · rw [happ]
    have : (stackD d ts acts fr).map fx = stackD d ts' acts fr := by
      unfold stackD stackOf
      simp only [List.map_cons, List.map_map]
      rw [hfx d a acts hI.cur ha hb]
      congr 1
      apply List.map_congr_left
      intro f hf
      obtain ⟨h1, h2, h3, _⟩ := hI.frames f hf
      simp only [Function.comp]
      exact hfx f.1 f.2.1 f.2.2 h1 (by omega) (by omega)
    rw [this]
  · intro f hf
    have := hwf f hf
    omega

/-- a pointwise or multiple-substitution subtable, any stack -/
theorem insert_any_stack (kp : Nat → Bool) (gd : Gdef) (ts : List TG) (j : Nat) (cur : TG) (hj : ts[j]? = some cur)
    (stk : List Nested) (b : Int) (lim : Nat) (s : Subtable) (hs : insertwise s = true)
    (hok : Spec.Shape.subtableOk s = true) :
    match Spec.Shape.matchSub kp gd (ts.take j).reverse cur (ts.drop (j + 1)) lim s with
    | .error _ => True
    | .ok none => Shape.applySub kp ⟨gl ts, stk⟩ j b s = .ok none
    | .ok (some (.done dn rest)) => dn ≠ [] ∧ rest = ts.drop (j + 1) ∧ (∀ x ∈ dn, SameTags cur x) ∧
        Shape.applySub kp ⟨gl ts, stk⟩ j b s
          = .ok (some (⟨gl (ts.take j ++ dn ++ ts.drop (j + 1)), stk.map (Shape.fixInsertOne j dn.length)⟩, j + dn.length))
    | .ok (some (.ctx _ _)) => False := by
  have hid : stk.map (Shape.fixInsertOne j 1) = stk := by
    have : (Shape.fixInsertOne (j : Int) 1) = id := by funext e; exact fixInsertOne_one _ e
    rw [this, List.map_id]
  by_cases hp : pointwise s = true
  · have h := childSubEq kp gd ts j cur hj stk b lim s hp hok
    unfold ChildSubEq at h
    cases hm : Spec.Shape.matchSub kp gd (ts.take j).reverse cur (ts.drop (j + 1)) lim s with
    | error e => trivial
    | ok r =>
      rw [hm] at h
      cases r with
      | none => exact h
      | some hit =>
        cases hit with
        | ctx m a => exact h.elim
        | done dn rest =>
          simp only at h ⊢
          obtain ⟨c', h1, h2, h3, h4, h5⟩ := h
          subst h1
          refine ⟨by simp, h2, ?_, ?_⟩
          · intro x hx
            have : x = c' := by simpa using hx
            subst this; exact ⟨h3, h4⟩
          · rw [h5]
            simp only [List.length_singleton, hid]
  · cases s with
    | gsub21 cov repl =>
      have hse := subEq_simple kp gd (ts.take j).reverse cur (ts.drop (j + 1)) (.gsub21 cov repl)
        (by simp [Subtable.contextual]) hok
      unfold SubEq at hse
      rw [seq_at ts j cur hj] at hse
      have hjl := lt_of_get hj
      have hlen : ((ts.take j).reverse).length = j := by simp; omega
      rw [hlen] at hse
      rw [matchSub_gsub21_lim kp gd _ cur _ lim (ts.drop (j + 1)).length cov repl]
      rw [applySub_gsub21_stack kp (gl ts) stk j b cov repl]
      cases hm : Spec.Shape.matchSub kp gd (ts.take j).reverse cur (ts.drop (j + 1)) (ts.drop (j + 1)).length
          (.gsub21 cov repl) with
      | error e => trivial
      | ok r =>
        rw [hm] at hse
        cases r with
        | none => simp only at hse ⊢; rw [hse]
        | some hit =>
          obtain ⟨dn, hd, hne, htags⟩ := matchSub_gsub21_shape kp gd _ cur _ _ cov repl hit hm
          subst hd
          simp only at hse ⊢
          refine ⟨hne, trivial, htags, ?_⟩
          rw [hse]
          simp only [List.reverse_reverse, Nat.add_sub_cancel_left]
          have hpos : 1 ≤ dn.length := by
            cases dn with
            | nil => exact absurd rfl hne
            | cons _ _ => simp
          by_cases hk : dn.length > 1
          · simp only [hk, if_true]
          · have h1 : dn.length = 1 := by omega
            simp only [h1, hid]
            simp
    | _ => simp [insertwise] at hs <;> exact absurd hs hp

/-- the facts about an input position `j` of the innermost match -/
structure AtD (d a : Nat) (ts : List TG) (fr : List Frame) (j : Nat) (cur : TG) : Prop where
  inv : InvD d a ts fr
  get : ts[j]? = some cur
  mem : j ∈ inputPositions d ts

theorem AtD.bounds {d a ts fr j cur} (h : AtD d a ts fr j cur) :
    a ≤ j ∧ j < windowEnd d ts ∧ windowEnd d ts ≤ ts.length ∧ cur.hasInp d = true := by
  obtain ⟨P, A, D, hF, hA⟩ := h.inv.cur.form
  have hip := formD_inputPositions hF
  have hm := h.mem
  rw [hip] at hm
  obtain ⟨i, hi, hij⟩ := List.mem_map.mp hm
  obtain ⟨t, ht, hinp⟩ := inputPositions_get d ts j h.mem
  have hc : t = cur := by rw [h.get] at ht; injection ht with ht; exact ht.symm
  subst hc
  exact ⟨by omega, inpWin_lt h.inv.cur.inpwin j h.mem, windowEnd_le_length ts, hinp⟩

theorem AtD.inst {d a ts fr j cur} (h : AtD d a ts fr j cur) :
    gl ((ts.take j).reverse.reverse ++ cur :: ts.drop (j + 1)) = gl ts ∧ ((ts.take j).reverse).length = j ∧
    windowEnd d ts - (j + 1) ≤ (ts.drop (j + 1)).length ∧
    (ts.take j).reverse.length + 1 + (windowEnd d ts - (j + 1)) = windowEnd d ts := by
  obtain ⟨h1, h2, h3, _⟩ := h.bounds
  have hjl := lt_of_get h.get
  refine ⟨by rw [seq_at ts j cur h.get], by simp; omega, by simp; omega, ?_⟩
  simp only [List.length_reverse, List.length_take]; omega

def ChildSubOKD (d a : Nat) (fr : List Frame) (kp : Nat → Bool) (gd : Gdef) (ts : List TG) (acts : List Action) (j : Nat)
    (cur : TG) (s : Subtable) : Prop :=
  match Spec.Shape.matchSub kp gd (ts.take j).reverse cur (ts.drop (j + 1)) (windowEnd d ts - (j + 1)) s with
  | .error _ => True
  | .ok none => Shape.applySub kp ⟨gl ts, stackD d ts acts fr⟩ j ((windowEnd d ts : Nat) : Int) s = .ok none
  | .ok (some (.done dn rest)) => DoneOK d a fr kp ts acts j s (ts.take j ++ dn ++ rest)
  | .ok (some (.ctx m acts')) =>
    Shape.applySub kp ⟨gl ts, stackD d ts acts fr⟩ j ((windowEnd d ts : Nat) : Int) s
      = .ok (some (Shape.pushMatch ⟨gl ts, stackD d ts acts fr⟩ (j :: m.offs.map (· + (j + 1))) acts' (j + 1 + m.wlen),
                   j + 1 + m.wlen))

theorem childSubOKD_insert {d a ts fr j cur} (h : AtD d a ts fr j cur) (kp : Nat → Bool) (gd : Gdef)
    (acts : List Action) (s : Subtable) (hs : insertwise s = true) (hok : Spec.Shape.subtableOk s = true) :
    ChildSubOKD d a fr kp gd ts acts j cur s := by
  obtain ⟨ha, hlt, hle, _⟩ := h.bounds
  have h2 := insert_any_stack kp gd ts j cur h.get (stackD d ts acts fr) ((windowEnd d ts : Nat) : Int)
    (windowEnd d ts - (j + 1)) s hs hok
  unfold ChildSubOKD
  cases hm : Spec.Shape.matchSub kp gd (ts.take j).reverse cur (ts.drop (j + 1)) (windowEnd d ts - (j + 1)) s with
  | error e => trivial
  | ok r =>
    rw [hm] at h2
    cases r with
    | none => exact h2
    | some hit =>
      cases hit with
      | ctx m ac => exact h2.elim
      | done dn rest =>
        simp only at h2 ⊢
        obtain ⟨hdne, hr, hdn, happ⟩ := h2
        subst hr
        refine doneOK_of h.inv (splice_replace ts j cur dn h.get hdne hdn) ha (by simp only [List.length_singleton]; omega)
          (Shape.fixInsertOne j dn.length) (j + dn.length) happ ?_
        intro e a' acts' hD ha' hb'
        simp only [List.length_singleton] at hb'
        exact (track_insert hD acts' j cur dn h.get ha' (by omega) hdne hdn).1

theorem childSubOKD_lig {d a ts fr j cur} (h : AtD d a ts fr j cur) (kp : Nat → Bool) (gd : Gdef)
    (acts : List Action) (cov : Shape.Cov) (ligs : List (List Shape.Lig)) :
    ChildSubOKD d a fr kp gd ts acts j cur (.gsub41 cov ligs) := by
  obtain ⟨hseq, hlen, hlim, hb⟩ := h.inst
  obtain ⟨ha, hlt, hle, _⟩ := h.bounds
  have hp := Spec.Shape.gsub41_lim' kp gd (ts.take j).reverse cur (ts.drop (j + 1)) (windowEnd d ts - (j + 1)) hlim
    (stackD d ts acts fr) cov ligs
  simp only at hp
  rw [hseq, hb, hlen] at hp
  unfold ChildSubOKD
  cases hm : Spec.Shape.matchSub kp gd (ts.take j).reverse cur (ts.drop (j + 1)) (windowEnd d ts - (j + 1))
      (.gsub41 cov ligs) with
  | error e => trivial
  | ok r =>
    rw [hm] at hp
    cases r with
    | none => exact hp
    | some hit =>
      cases hit with
      | ctx m ac => exact hp.elim
      | done dn rest =>
        simp only at hp ⊢
        obtain ⟨offs, lig, hsorted, hob, hkept, htag, hli, hlw, hd, hr, happ⟩ := hp
        rw [List.reverse_reverse] at happ
        have hused : Spec.Shape.usedLen offs ≤ windowEnd d ts - (j + 1) := usedLen_le_of_lt hob
        have hbuf : ts.take j ++ dn ++ rest
            = ts.take j ++ (lig :: ((ts.drop (j + 1)).take (Spec.Shape.usedLen offs)).filter (fun t => !kp t.g.gid))
              ++ ts.drop (j + 1 + Spec.Shape.usedLen offs) := by
          rw [hd, hr, List.drop_drop]
        rw [hbuf] at happ ⊢
        have hsp := splice_merge ts kp j (Spec.Shape.usedLen offs) cur lig h.get ⟨hli, hlw⟩ (by omega)
        have holen : (cur :: (ts.drop (j + 1)).take (Spec.Shape.usedLen offs)).length = 1 + Spec.Shape.usedLen offs := by
          simp only [List.length_cons, List.length_take, List.length_drop]; omega
        refine doneOK_of h.inv hsp ha (by rw [holen]; omega) _ (j + dn.length) happ ?_
        intro e a' acts' hD ha' hb'
        rw [holen] at hb'
        have hcomp : cur.hasInp e = true ∨ ∀ r ∈ offs, ∀ t, (ts.drop (j + 1))[r]? = some t → t.hasInp e = false := by
          cases hc : cur.hasInp e with
          | true => exact Or.inl rfl
          | false =>
            refine Or.inr ?_
            intro r hr' t ht
            cases hti : t.hasInp e with
            | false => rfl
            | true =>
              have hmem : e ∈ t.inp := by
                unfold TG.hasInp at hti; simpa using hti
              have := (htag r hr' t ht).2 e hmem
              unfold TG.hasInp at hc
              simp at hc
              exact absurd this hc
        exact (track_merge hD acts' kp j (Spec.Shape.usedLen offs) cur lig offs h.get ha' ⟨hli, hlw⟩ (by omega) hsorted
          (lt_usedLen_of_mem hsorted) hkept hcomp).1

theorem childSubOKD_pair {d a ts fr j cur} (h : AtD d a ts fr j cur) (kp : Nat → Bool) (gd : Gdef)
    (acts : List Action) (s : Subtable)
    (hpl : ∀ pre cur post lim (stk : List Nested), lim ≤ post.length → Spec.Shape.PairLim kp gd pre cur post lim stk s) :
    ChildSubOKD d a fr kp gd ts acts j cur s := by
  obtain ⟨hseq, hlen, hlim, hb⟩ := h.inst
  obtain ⟨ha, hlt, hle, _⟩ := h.bounds
  have hp := hpl (ts.take j).reverse cur (ts.drop (j + 1)) (windowEnd d ts - (j + 1)) (stackD d ts acts fr) hlim
  unfold Spec.Shape.PairLim at hp
  simp only at hp
  rw [hseq, hb, hlen] at hp
  unfold ChildSubOKD
  cases hm : Spec.Shape.matchSub kp gd (ts.take j).reverse cur (ts.drop (j + 1)) (windowEnd d ts - (j + 1)) s with
  | error e => trivial
  | ok r =>
    rw [hm] at hp
    cases r with
    | none => exact hp
    | some hit =>
      cases hit with
      | ctx m ac => exact hp.elim
      | done dn rest =>
        simp only at hp ⊢
        obtain ⟨⟨jj, second, c', hjj, hsec, hci, hcw, hshape⟩, happ⟩ := hp
        have hsec' : ts[j + 1 + jj]? = some second := by
          rw [List.getElem?_drop] at hsec; exact hsec
        have hjl := lt_of_get hsec'
        rw [List.reverse_reverse] at happ
        have hmapid : (stackD d ts acts fr).map id = stackD d ts acts fr := List.map_id _
        rcases hshape with ⟨hd, hr⟩ | ⟨s', hsi, hsw, hd, hr⟩
        · have hbuf : ts.take j ++ dn ++ rest = ts.take j ++ (c' :: (ts.drop (j + 1)).take jj) ++ ts.drop (j + 1 + jj) := by
            rw [hd, hr, List.drop_drop]
          rw [hbuf] at happ ⊢
          rw [← hmapid] at happ
          have hsp := splice_pair1 ts j jj cur c' h.get ⟨hci, hcw⟩ (by omega)
          have holen : (cur :: (ts.drop (j + 1)).take jj).length = 1 + jj := by
            simp only [List.length_cons, List.length_take, List.length_drop]; omega
          refine doneOK_of h.inv hsp ha (by rw [holen]; omega) id _ (by rw [List.map_id] at happ ⊢; exact happ) ?_
          intro e a' acts' _ _ _
          obtain ⟨h1, h2⟩ := pair1_same (e := e) ts j jj cur c' h.get ⟨hci, hcw⟩ (by omega)
          simp only [id, entryD, h1, h2]
        · have hbuf : ts.take j ++ dn ++ rest
              = ts.take j ++ (c' :: (ts.drop (j + 1)).take jj ++ [s']) ++ ts.drop (j + 1 + jj + 1) := by
            rw [hd, hr, List.drop_drop]
            simp only [List.cons_append, Nat.add_assoc]
          rw [hbuf] at happ ⊢
          have hsp := splice_pair2 ts j jj cur second c' s' h.get hsec' ⟨hci, hcw⟩ ⟨hsi, hsw⟩
          have holen : (cur :: (ts.drop (j + 1)).take jj ++ [second]).length = 1 + jj + 1 := by
            simp only [List.length_cons, List.length_append, List.length_take, List.length_drop, List.length_singleton,
              List.length_nil]; omega
          refine doneOK_of h.inv hsp ha (by rw [holen]; omega) id _ (by rw [List.map_id]; exact happ) ?_
          intro e a' acts' _ _ _
          obtain ⟨h1, h2⟩ := pair2_same (e := e) ts j jj cur second c' s' h.get hsec' ⟨hci, hcw⟩ ⟨hsi, hsw⟩
          simp only [id, entryD, h1, h2]

theorem childSubOKD_ctx {d a ts fr j cur} (h : AtD d a ts fr j cur) (kp : Nat → Bool) (gd : Gdef)
    (acts : List Action) (s : Subtable) (hs : s.contextual = true) :
    ChildSubOKD d a fr kp gd ts acts j cur s := by
  obtain ⟨hseq, hlen, hlim, hb⟩ := h.inst
  have hp := Spec.Shape.ctx_eq kp gd (ts.take j).reverse cur (ts.drop (j + 1)) (windowEnd d ts - (j + 1)) hlim
    (stackD d ts acts fr) s hs
  simp only at hp
  rw [hseq, hb, hlen] at hp
  unfold ChildSubOKD
  cases hm : Spec.Shape.matchSub kp gd (ts.take j).reverse cur (ts.drop (j + 1)) (windowEnd d ts - (j + 1)) s with
  | error e => trivial
  | ok r =>
    rw [hm] at hp
    cases r with
    | none => exact hp
    | some hit =>
      cases hit with
      | ctx m ac => exact hp
      | done dn rest => exact hp.elim

theorem childSubOKD_any {d a ts fr j cur} (h : AtD d a ts fr j cur) (kp : Nat → Bool) (gd : Gdef)
    (acts : List Action) (s : Subtable) (hok : Spec.Shape.subtableOk s = true) :
    ChildSubOKD d a fr kp gd ts acts j cur s := by
  cases s with
  | gsub41 cov ligs => exact childSubOKD_lig h kp gd acts cov ligs
  | gpos21 pairs =>
    exact childSubOKD_pair h kp gd acts _ (fun pre cur post lim stk hl => Spec.Shape.pairLim_gpos21 kp gd pre cur post lim hl stk pairs)
  | gpos22 cov c1 c2 adj =>
    exact childSubOKD_pair h kp gd acts _ (fun pre cur post lim stk hl =>
      Spec.Shape.pairLim_gpos22 kp gd pre cur post lim hl stk cov c1 c2 adj (by simpa [Spec.Shape.subtableOk] using hok))
  | gpos31 cov recs => simp [ChildSubOKD, Spec.Shape.matchSub, Spec.Shape.undef]
  | gsub11 _ _ => exact childSubOKD_insert h kp gd acts _ (by rfl) hok
  | gsub12 _ _ => exact childSubOKD_insert h kp gd acts _ (by rfl) hok
  | gsub21 _ _ => exact childSubOKD_insert h kp gd acts _ (by rfl) hok
  | gsub31 _ _ => exact childSubOKD_insert h kp gd acts _ (by rfl) hok
  | gsub81 _ _ _ _ => exact childSubOKD_insert h kp gd acts _ (by rfl) hok
  | gpos11 _ _ => exact childSubOKD_insert h kp gd acts _ (by rfl) hok
  | gpos12 _ _ => exact childSubOKD_insert h kp gd acts _ (by rfl) hok
  | gpos41 _ _ _ _ _ => exact childSubOKD_insert h kp gd acts _ (by rfl) hok
  | gpos61 _ _ _ _ => exact childSubOKD_insert h kp gd acts _ (by rfl) hok
  | ctx1 _ _ => exact childSubOKD_ctx h kp gd acts _ (by rfl)
  | ctx2 _ _ _ => exact childSubOKD_ctx h kp gd acts _ (by rfl)
  | ctx3 _ _ => exact childSubOKD_ctx h kp gd acts _ (by rfl)
  | chain1 _ _ => exact childSubOKD_ctx h kp gd acts _ (by rfl)
  | chain2 _ _ _ _ _ => exact childSubOKD_ctx h kp gd acts _ (by rfl)
  | chain3 _ _ _ _ => exact childSubOKD_ctx h kp gd acts _ (by rfl)

def ChildOKD (d a : Nat) (fr : List Frame) (kp : Nat → Bool) (gd : Gdef) (ts : List TG) (acts : List Action) (j : Nat)
    (cur : TG) (ss : List Subtable) : Prop :=
  match Spec.Shape.firstHit kp gd (ts.take j).reverse cur (ts.drop (j + 1)) (windowEnd d ts - (j + 1)) ss with
  | .error _ => True
  | .ok none => Shape.applyAt kp ⟨gl ts, stackD d ts acts fr⟩ j ((windowEnd d ts : Nat) : Int) ss = .ok none
  | .ok (some (.done dn rest)) =>
    ∃ nx, Shape.applyAt kp ⟨gl ts, stackD d ts acts fr⟩ j ((windowEnd d ts : Nat) : Int) ss
        = .ok (some (⟨gl (ts.take j ++ dn ++ rest), stackD d (ts.take j ++ dn ++ rest) acts fr⟩, nx)) ∧
      InvD d a (ts.take j ++ dn ++ rest) fr ∧
      (∀ f ∈ fr, windowEnd f.1 (ts.take j ++ dn ++ rest) + windowEnd d ts = windowEnd f.1 ts + windowEnd d (ts.take j ++ dn ++ rest)) ∧
      (ts.take j ++ dn ++ rest).take a = ts.take a
  | .ok (some (.ctx m acts')) =>
    Shape.applyAt kp ⟨gl ts, stackD d ts acts fr⟩ j ((windowEnd d ts : Nat) : Int) ss
      = .ok (some (Shape.pushMatch ⟨gl ts, stackD d ts acts fr⟩ (j :: m.offs.map (· + (j + 1))) acts' (j + 1 + m.wlen),
                   j + 1 + m.wlen))

theorem childOKD {d a ts fr j cur} (h : AtD d a ts fr j cur) (kp : Nat → Bool) (gd : Gdef) (acts : List Action) :
    ∀ (ss : List Subtable), ss.all Spec.Shape.subtableOk = true → ChildOKD d a fr kp gd ts acts j cur ss := by
  intro ss
  induction ss with
  | nil => intro _; simp [ChildOKD, Spec.Shape.firstHit, Shape.applyAt, pure, Except.pure]
  | cons s ss ih =>
    intro hok
    simp only [List.all_cons, Bool.and_eq_true] at hok
    have hs := childSubOKD_any h kp gd acts s hok.1
    have hrest := ih hok.2
    unfold ChildOKD
    unfold ChildSubOKD at hs
    simp only [Spec.Shape.firstHit, Shape.applyAt]
    cases hm : Spec.Shape.matchSub kp gd (ts.take j).reverse cur (ts.drop (j + 1)) (windowEnd d ts - (j + 1)) s with
    | error e => simp [bind, Except.bind]
    | ok r =>
      rw [hm] at hs
      cases r with
      | none =>
        simp only at hs
        simp only [bind, Except.bind]
        rw [hs]
        exact hrest
      | some hit =>
        cases hit with
        | done dn rest =>
          simp only at hs
          obtain ⟨nx, h1, h2, h3, h4⟩ := hs
          simp only [bind, Except.bind, pure, Except.pure]
          exact ⟨nx, by rw [h1], h2, h3, h4⟩
        | ctx m a' =>
          simp only at hs
          simp only [bind, Except.bind, pure, Except.pure]
          rw [hs]

/-! ## transfer along buffers with the same depth-`e` flags -/

theorem flags_get {e : Nat} {ts ts' : List TG} (hf : flagsD e ts' = flagsD e ts) (t' : TG) (ht : t' ∈ ts') :
    ∃ t ∈ ts, t.hasInp e = t'.hasInp e ∧ t.hasWin e = t'.hasWin e := by
  obtain ⟨i, hi⟩ := List.getElem?_of_mem ht
  have h1 : (flagsD e ts')[i]? = some (t'.hasInp e, t'.hasWin e) := by
    unfold flagsD; rw [List.getElem?_map, hi]; rfl
  rw [hf] at h1
  unfold flagsD at h1
  rw [List.getElem?_map] at h1
  cases hg : ts[i]? with
  | none => rw [hg] at h1; cases h1
  | some t =>
    rw [hg] at h1
    simp only [Option.map_some] at h1
    injection h1 with h1
    injection h1 with h2 h3
    exact ⟨t, List.mem_of_getElem? hg, h2, h3⟩

theorem inpWin_congr {e : Nat} {ts ts' : List TG} (hf : flagsD e ts' = flagsD e ts) (h : InpWin e ts) : InpWin e ts' := by
  intro t' ht' hi
  obtain ⟨t, ht, h1, h2⟩ := flags_get hf t' ht'
  rw [← h2]; apply h t ht; rw [h1]; exact hi

theorem outD_congr {e : Nat} {ts ts' : List TG} (hf : flagsD e ts' = flagsD e ts) (h : ∀ t ∈ ts, OutD e t) :
    ∀ t ∈ ts', OutD e t := by
  intro t' ht'
  obtain ⟨t, ht, h1, h2⟩ := flags_get hf t' ht'
  have := h t ht
  exact ⟨by rw [← h2]; exact this.1, by rw [← h1]; exact this.2⟩

theorem entryD_congr {e : Nat} {ts ts' : List TG} (hf : flagsD e ts' = flagsD e ts) (acts : List Action) :
    entryD e ts' acts = entryD e ts acts := by
  obtain ⟨h1, h2⟩ := flagsD_congr hf
  unfold entryD; rw [h1, h2]

theorem depthOK_congr {e a' : Nat} {ts ts' : List TG} (hf : flagsD e ts' = flagsD e ts) (h : DepthOK e a' ts) :
    DepthOK e a' ts' := by
  obtain ⟨P, A, D, hF, hA⟩ := h.form
  obtain ⟨P', A', D', hF', hl⟩ := formD_congr hf hF
  refine ⟨⟨P', A', D', hF', ?_⟩, inpWin_congr hf h.inpwin⟩
  intro he; rw [he] at hl
  exact hA (List.length_eq_zero_iff.mp hl.symm)

theorem formD_inpWin {e a : Nat} {P A D ts : List TG} (h : FormD e a P A D ts) : InpWin e ts := by
  intro t ht hi
  rw [h.eq] at ht
  simp only [List.mem_append] at ht
  rcases ht with (ht | ht) | ht
  · have := (h.outP t ht).2; rw [this] at hi; cases hi
  · exact h.inA t ht
  · have := (h.outD t ht).2; rw [this] at hi; cases hi

/-- what the engine's caller looks at: the sequence and the end position of the outermost match -/
def Obs (o : Outcome (St × Int)) : Outcome (List Glyph × Int) :=
  match o with
  | .ok (st, nx) => .ok (st.seq, match st.stack.getLast? with
      | none => nx
      | some b => b.endPos)
  | .err e => .err e
  | .panic p => .panic p

/-! ## the engine's loop against the reference's recursion -/

def LoopGoal (B : Nat) (ll : LookupList) (gd : Gdef) (d a : Nat) (fr : List Frame) (acts : List Action)
    (ts : List TG) (ns : Nat) (out : List TG) (n' : Nat) : Prop :=
  ∀ ne, ne + ns = B → ∀ fe, 2 * (B - ne) + fr.length + 1 ≤ fe → ∀ next : Int,
    ∃ fe', InvD d a out fr ∧ n' ≤ ns ∧ 2 * n' + fr.length ≤ fe' ∧
      (∀ f ∈ fr, windowEnd f.1 out + windowEnd d ts = windowEnd f.1 ts + windowEnd d out) ∧
      out.take a = ts.take a ∧
      Obs (Shape.nestedLoop B ll gd fe ⟨gl ts, stackD d ts acts fr⟩ ne next)
        = Obs (Shape.nestedLoop B ll gd fe' ⟨gl out, stackOf out fr⟩ (B - n')
            (if fr.isEmpty then ((windowEnd d out : Nat) : Int) else next))

def LoopAll (B : Nat) (ll : LookupList) (gd : Gdef) (fuel : Nat) : Prop :=
  ∀ (d : Nat) (acts : List Action) (ts : List TG) (ns : Nat) (out : List TG) (n' a : Nat) (fr : List Frame),
    Spec.Shape.runActions (Spec.Shape.applyAt ll gd fuel (d + 1)) ll gd d acts ts ns = .ok (out, n') →
    InvD d a ts fr → LoopGoal B ll gd d a fr acts ts ns out n'

theorem nestedLoop_stop (B : Nat) (ll : LookupList) (gd : Gdef) (fe : Nat) (st : St) (n : Nat) (next : Int) (h : n ≥ B) :
    Shape.nestedLoop B ll gd fe st n next = .ok (st, next) := by
  cases fe with
  | zero => simp [Shape.nestedLoop, h]
  | succ f =>
    simp only [Shape.nestedLoop]
    cases hs : st.stack with
    | nil => rfl
    | cons t b => simp [h]

theorem getLast?_cons_ne {α : Type} (x : α) (l : List α) (h : l ≠ []) : (x :: l).getLast? = l.getLast? := by
  cases l with
  | nil => exact absurd rfl h
  | cons y l => simp [List.getLast?_cons_cons]

theorem stackOf_eq_nil {ts : List TG} {fr : List Frame} : stackOf ts fr = [] ↔ fr = [] := by
  unfold stackOf; simp

theorem loop_inner (B : Nat) (ll : LookupList) (gd : Gdef)
    (hok : ∀ lk ∈ ll, lk.subtables.all Spec.Shape.subtableOk = true) (fuel : Nat)
    (hrec : ∀ fuel', fuel = fuel' + 1 → LoopAll B ll gd fuel') : LoopAll B ll gd fuel := by
  intro d acts
  induction acts with
  | nil =>
    intro ts ns out n' a fr h hI ne hn fe hfe next
    simp only [Spec.Shape.runActions, pure, Except.pure] at h
    injection h with h; injection h with h1 h2; subst h1 h2
    have hne' : B - ns = ne := by omega
    cases fe with
    | zero => omega
    | succ f =>
      refine ⟨f, hI, Nat.le_refl _, by omega, fun f _ => rfl, rfl, ?_⟩
      rw [hne']
      simp only [Shape.nestedLoop, stackD]
      by_cases hb : ne ≥ B
      · rw [if_pos hb, nestedLoop_stop B ll gd f _ ne _ hb]
        simp only [Obs]
        cases hfr : fr with
        | nil => simp [stackOf, entryD]
        | cons f0 fr0 =>
          have hne0 : stackOf ts (f0 :: fr0) ≠ [] := by simp [stackOf]
          rw [getLast?_cons_ne _ _ hne0]
          simp
      · rw [if_neg hb]
        simp only [entryD]
        congr 2
        cases hfr : fr with
        | nil => simp [stackOf]
        | cons f0 fr0 => simp [stackOf]
  | cons act acts ih =>
    intro ts ns out n' a fr h hI ne hn fe hfe next
    simp only [Spec.Shape.runActions] at h
    by_cases hns : ns = 0
    · simp [hns, Spec.Shape.undef] at h
    · simp only [hns, if_false] at h
      have hneB : ¬ (ne ≥ B) := by omega
      cases fe with
      | zero => omega
      | succ f =>
        have hf : 2 * (B - (ne + 1)) + fr.length + 1 ≤ f := by omega
        have hn' : (ne + 1) + (ns - 1) = B := by omega
        simp only [Shape.nestedLoop, stackD, entryD, hneB, if_false]
        rw [getElem?_map_ofNat]
        cases hj : (inputPositions d ts)[act.seqIdx]? with
        | none => rw [hj] at h; simp [Spec.Shape.undef] at h
        | some j =>
          rw [hj] at h
          simp only [Option.map_some] at h ⊢
          cases hl : ll[act.lookup]? with
          | none => rw [hl] at h; simp [Spec.Shape.undef] at h
          | some lk =>
            rw [hl] at h
            have hjm : j ∈ inputPositions d ts := List.mem_of_getElem? hj
            obtain ⟨cur, hc, hinp⟩ := inputPositions_get d ts j hjm
            rw [hc] at h
            simp only at h ⊢
            rw [idxI_gl _ ts j cur hc]
            simp only [Shape.bind_ok_eq]
            rw [Spec.Shape.keepOf_eq] at h
            -- continuing with the same buffer
            have hskip : ∀ out' n'', Spec.Shape.runActions (Spec.Shape.applyAt ll gd fuel (d + 1)) ll gd d acts ts (ns - 1) = .ok (out', n'') →
                ∃ fe', InvD d a out' fr ∧ n'' ≤ ns ∧ 2 * n'' + fr.length ≤ fe' ∧
                  (∀ f ∈ fr, windowEnd f.1 out' + windowEnd d ts = windowEnd f.1 ts + windowEnd d out') ∧
                  out'.take a = ts.take a ∧
                  Obs (Shape.nestedLoop B ll gd f ⟨gl ts, stackD d ts acts fr⟩ (ne + 1) next)
                    = Obs (Shape.nestedLoop B ll gd fe' ⟨gl out', stackOf out' fr⟩ (B - n'')
                        (if fr.isEmpty then ((windowEnd d out' : Nat) : Int) else next)) := by
              intro out' n'' h'
              obtain ⟨fe', i1, i2, i3, i4, i5, i6⟩ := ih ts (ns - 1) out' n'' a fr h' hI (ne + 1) hn' f hf next
              exact ⟨fe', i1, by omega, i3, i4, i5, i6⟩
            cases hk : lk.keep gd cur.g.gid with
            | false =>
              simp only [hk, Bool.not_false, if_true] at h
              simp only [Bool.false_eq_true, if_false]
              exact hskip out n' h
            | true =>
              simp only [hk, Bool.not_true, Bool.false_eq_true, if_false] at h
              simp only [if_true]
              have hlkok := hok lk (List.mem_of_getElem? hl)
              cases fuel with
              | zero => simp [Spec.Shape.applyAt, Spec.Shape.undef, bind, Except.bind] at h
              | succ fuel' =>
                rw [spec_applyAt_succ, Spec.Shape.keepOf_eq] at h
                have hAt : AtD d a ts fr j cur := ⟨hI, hc, hjm⟩
                have hat := childOKD hAt (lk.keep gd) gd acts lk.subtables hlkok
                unfold ChildOKD at hat
                cases hfh : Spec.Shape.firstHit (lk.keep gd) gd (ts.take j).reverse cur (ts.drop (j + 1))
                    (Spec.Shape.windowEnd d ts - (j + 1)) lk.subtables with
                | error e' => rw [hfh] at h; simp [bind, Except.bind] at h
                | ok r =>
                  rw [hfh] at h hat
                  cases r with
                  | none =>
                    simp only [bind, Except.bind, pure, Except.pure] at h
                    simp only at hat
                    rw [show Int.toNat (Int.ofNat j) = j from rfl]
                    simp only [stackD, entryD] at hat
                    rw [hat]
                    simp only [Shape.bind_ok_eq]
                    exact hskip out n' h
                  | some hit =>
                    cases hit with
                    | done dn rest =>
                      simp only [bind, Except.bind, pure, Except.pure] at h
                      simp only at hat
                      obtain ⟨nx0, happ, hI', hdl, htk⟩ := hat
                      rw [show Int.toNat (Int.ofNat j) = j from rfl]
                      simp only [stackD, entryD] at happ
                      rw [happ]
                      simp only [Shape.bind_ok_eq]
                      obtain ⟨fe', i1, i2, i3, i4, i5, i6⟩ :=
                        ih (ts.take j ++ dn ++ rest) (ns - 1) out n' a fr h hI' (ne + 1) hn' f hf next
                      refine ⟨fe', i1, by omega, i3, ?_, by rw [i5, htk], i6⟩
                      intro f0 hf0
                      have e1 := i4 f0 hf0
                      have e2 := hdl f0 hf0
                      omega
                    | ctx m acts' =>
                      simp only [bind, Except.bind, pure, Except.pure] at h
                      simp only at hat
                      cases hr : Spec.Shape.runActions (Spec.Shape.applyAt ll gd fuel' (d + 1 + 1)) ll gd (d + 1) acts'
                          ((ts.take j).reverse.reverse ++ Spec.Shape.tagWindow (d + 1) m cur (ts.drop (j + 1))
                            ++ (ts.drop (j + 1)).drop m.wlen) (ns - 1) with
                      | error e' => rw [hr] at h; simp at h
                      | ok res =>
                        obtain ⟨ts2, n2⟩ := res
                        rw [hr] at h
                        simp only at h
                        obtain ⟨ha, hlt, hle, _⟩ := hAt.bounds
                        obtain ⟨s0, hs0, hm0⟩ := firstHit_src _ gd _ cur _ _ _ _ hfh
                        obtain ⟨_, hsorted, hbound, hwl, hw⟩ := ctx_hit_facts _ gd _ cur _ _ s0 m acts' hm0
                        have hjl := lt_of_get hc
                        have hlenj : ((ts.take j).reverse).length = j := by simp; omega
                        have hseq : (ts.take j).reverse.reverse ++ cur :: ts.drop (j + 1) = ts := seq_at ts j cur hc
                        have hout1 : ∀ t ∈ (ts.take j).reverse.reverse ++ cur :: ts.drop (j + 1), OutD (d + 1) t := by
                          rw [hseq]; exact hI.above (d + 1) (by omega)
                        obtain ⟨hF1, hne1, hlen1⟩ := tagD_form (d + 1) (ts.take j).reverse (ts.drop (j + 1)) cur m hout1 hw
                        rw [hlenj] at hF1
                        have hflag1 : ∀ e, e ≠ d + 1 →
                            flagsD e ((ts.take j).reverse.reverse ++ Spec.Shape.tagWindow (d + 1) m cur (ts.drop (j + 1))
                              ++ (ts.drop (j + 1)).drop m.wlen) = flagsD e ts := by
                          intro e he
                          have := tagD_other (d + 1) (ts.take j).reverse (ts.drop (j + 1)) cur m e he
                          rw [hseq] at this; exact this
                        have hwe1 := formD_windowEnd hF1 hne1
                        rw [hlen1] at hwe1
                        have hwd1 := (flagsD_congr (hflag1 d (by omega))).2
                        -- the invariant one level deeper
                        have hInv1 : InvD (d + 1) j ((ts.take j).reverse.reverse ++ Spec.Shape.tagWindow (d + 1) m cur (ts.drop (j + 1))
                              ++ (ts.drop (j + 1)).drop m.wlen) ((d, a, acts) :: fr) := by
                          refine ⟨⟨⟨_, _, _, hF1, hne1⟩, formD_inpWin hF1⟩, ?_, ?_⟩
                          · intro f0 hf0
                            rcases List.mem_cons.mp hf0 with hf0 | hf0
                            · subst hf0
                              exact ⟨depthOK_congr (hflag1 d (by omega)) hI.cur, ha, by simp only; omega, Nat.lt_succ_self d⟩
                            · obtain ⟨g1, g2, g3, g4⟩ := hI.frames f0 hf0
                              have hwf := (flagsD_congr (hflag1 f0.1 (by omega))).2
                              exact ⟨depthOK_congr (hflag1 f0.1 (by omega)) g1, by omega, by omega, by omega⟩
                          · intro e he
                            exact outD_congr (hflag1 e (by omega)) (hI.above e (by omega))
                        -- the engine pushes exactly the entry of the tagged buffer
                        rw [show Int.toNat (Int.ofNat j) = j from rfl]
                        simp only [stackD, entryD] at hat
                        rw [hat]
                        simp only [Shape.bind_ok_eq]
                        have hstk : stackOf ((ts.take j).reverse.reverse ++ Spec.Shape.tagWindow (d + 1) m cur (ts.drop (j + 1))
                              ++ (ts.drop (j + 1)).drop m.wlen) fr = stackOf ts fr := by
                          unfold stackOf
                          apply List.map_congr_left
                          intro f0 hf0
                          obtain ⟨_, _, _, g4⟩ := hI.frames f0 hf0
                          exact entryD_congr (hflag1 f0.1 (by omega)) _
                        have hpush : Shape.pushMatch ⟨gl ts,
                              ⟨List.map Int.ofNat (inputPositions d ts), acts, ((windowEnd d ts : Nat) : Int)⟩ :: stackOf ts fr⟩
                              (j :: List.map (fun x => x + (j + 1)) m.offs) acts' (j + 1 + m.wlen)
                            = ⟨gl ((ts.take j).reverse.reverse ++ Spec.Shape.tagWindow (d + 1) m cur (ts.drop (j + 1))
                                  ++ (ts.drop (j + 1)).drop m.wlen),
                               stackD (d + 1) ((ts.take j).reverse.reverse ++ Spec.Shape.tagWindow (d + 1) m cur (ts.drop (j + 1))
                                  ++ (ts.drop (j + 1)).drop m.wlen) acts' ((d, a, acts) :: fr)⟩ := by
                          have hip1 := tagD_inputPositions (d + 1) (ts.take j).reverse (ts.drop (j + 1)) cur m hout1 hw hsorted hbound
                          rw [hlenj] at hip1
                          have h1 : entryD (d + 1) ((ts.take j).reverse.reverse ++ Spec.Shape.tagWindow (d + 1) m cur (ts.drop (j + 1))
                                ++ (ts.drop (j + 1)).drop m.wlen) acts'
                              = ⟨(j :: List.map (fun x => x + (j + 1)) m.offs).map Int.ofNat, acts', ((j + 1 + m.wlen : Nat) : Int)⟩ := by
                            unfold entryD
                            rw [hip1, hwe1, Nat.add_assoc]
                          have h2 := entryD_congr (hflag1 d (by omega)) acts
                          unfold Shape.pushMatch stackD
                          rw [tagD_gl, hseq]
                          rw [show stackOf ((ts.take j).reverse.reverse ++ Spec.Shape.tagWindow (d + 1) m cur (ts.drop (j + 1))
                                ++ (ts.drop (j + 1)).drop m.wlen) ((d, a, acts) :: fr)
                              = entryD d ((ts.take j).reverse.reverse ++ Spec.Shape.tagWindow (d + 1) m cur (ts.drop (j + 1))
                                ++ (ts.drop (j + 1)).drop m.wlen) acts :: stackOf ((ts.take j).reverse.reverse ++
                                  Spec.Shape.tagWindow (d + 1) m cur (ts.drop (j + 1)) ++ (ts.drop (j + 1)).drop m.wlen) fr from rfl,
                            h1, h2, hstk]
                          rfl
                        rw [hpush]
                        obtain ⟨fe2, hI2, hn2, hfe2, hdl2, htk2, hobs2⟩ :=
                          hrec fuel' rfl (d + 1) acts' _ (ns - 1) ts2 n2 j ((d, a, acts) :: fr) hr hInv1 (ne + 1) hn' f
                            (by simp only [List.length_cons]; omega) next
                        rw [hobs2]
                        -- back at depth d: the buffer with the tags of depth d + 1 removed
                        obtain ⟨P2, A2, D2, hF2, hA2⟩ := hI2.cur.form
                        obtain ⟨u1, u2, u3⟩ := untagD_split hF2
                        have hP2 : P2 = ts.take j := by
                          rw [← u3, htk2, List.append_assoc, List.take_left' (by simp; omega), List.reverse_reverse]
                        rw [hlenj, u1, u2, ← hP2] at h
                        have hflag3 : ∀ e, e ≠ d + 1 → flagsD e (P2 ++ A2.map (TG.untag (d + 1)) ++ D2) = flagsD e ts2 :=
                          fun e he => untagD_other hF2 e he
                        have hwe_d : windowEnd d ts2 + windowEnd (d + 1) ((ts.take j).reverse.reverse ++
                              Spec.Shape.tagWindow (d + 1) m cur (ts.drop (j + 1)) ++ (ts.drop (j + 1)).drop m.wlen)
                            = windowEnd d ((ts.take j).reverse.reverse ++ Spec.Shape.tagWindow (d + 1) m cur (ts.drop (j + 1))
                                ++ (ts.drop (j + 1)).drop m.wlen) + windowEnd (d + 1) ts2 :=
                          hdl2 (d, a, acts) List.mem_cons_self
                        have hwd3 := (flagsD_congr (hflag3 d (by omega))).2
                        have hI3 : InvD d a (P2 ++ A2.map (TG.untag (d + 1)) ++ D2) fr := by
                          refine ⟨depthOK_congr (hflag3 d (by omega)) (hI2.frames (d, a, acts) List.mem_cons_self).1, ?_, ?_⟩
                          · intro f0 hf0
                            obtain ⟨g1, g2, g3, g4⟩ := hI.frames f0 hf0
                            have k1 := (hI2.frames f0 (List.mem_cons_of_mem _ hf0)).1
                            have k2 := hdl2 f0 (List.mem_cons_of_mem _ hf0)
                            have hwf1 := (flagsD_congr (hflag1 f0.1 (by omega))).2
                            have hwf3 := (flagsD_congr (hflag3 f0.1 (by omega))).2
                            exact ⟨depthOK_congr (hflag3 f0.1 (by omega)) k1, g2, by omega, g4⟩
                          · intro e he
                            by_cases hed : e = d + 1
                            · subst hed; exact untagD_out hF2
                            · exact outD_congr (hflag3 e hed) (hI2.above e (by omega))
                        have hst3 : (⟨gl ts2, stackOf ts2 ((d, a, acts) :: fr)⟩ : St)
                            = ⟨gl (P2 ++ A2.map (TG.untag (d + 1)) ++ D2), stackD d (P2 ++ A2.map (TG.untag (d + 1)) ++ D2) acts fr⟩ := by
                          rw [untagD_gl hF2]
                          unfold stackD stackOf
                          simp only [List.map_cons]
                          rw [entryD_congr (hflag3 d (by omega)) acts]
                          congr 2
                          apply List.map_congr_left
                          intro f0 hf0
                          obtain ⟨_, _, _, g4⟩ := hI.frames f0 hf0
                          exact (entryD_congr (hflag3 f0.1 (by omega)) _).symm
                        rw [hst3]
                        simp only [List.isEmpty_cons, Bool.false_eq_true, if_false]
                        obtain ⟨fe', i1, i2, i3, i4, i5, i6⟩ :=
                          ih _ n2 out n' a fr h hI3 (B - n2) (by omega) fe2 (by simp only [List.length_cons] at hfe2; omega) next
                        refine ⟨fe', i1, by omega, i3, ?_, ?_, i6⟩
                        · intro f0 hf0
                          obtain ⟨g1, g2, g3, g4⟩ := hI.frames f0 hf0
                          have e1 := i4 f0 hf0
                          have k2 := hdl2 f0 (List.mem_cons_of_mem _ hf0)
                          have hwf1 := (flagsD_congr (hflag1 f0.1 (by omega))).2
                          have hwf3 := (flagsD_congr (hflag3 f0.1 (by omega))).2
                          omega
                        · rw [i5, hP2, List.append_assoc, List.take_append_of_le_length (by simp; omega), List.take_take]
                          congr 1; omega

theorem loopAll (B : Nat) (ll : LookupList) (gd : Gdef)
    (hok : ∀ lk ∈ ll, lk.subtables.all Spec.Shape.subtableOk = true) : ∀ fuel, LoopAll B ll gd fuel := by
  intro fuel
  induction fuel with
  | zero => exact loop_inner B ll gd hok 0 (fun fuel' h => by omega)
  | succ n ih =>
    refine loop_inner B ll gd hok (n + 1) ?_
    intro fuel' h
    have : fuel' = n := by omega
    subst this
    exact ih

/-! ## one top-level application, any nesting -/

theorem clean_of_outD (t : TG) (h : ∀ e, OutD e t) : Clean t := by
  constructor
  · cases hi : t.inp with
    | nil => rfl
    | cons x l =>
      have := (h x).2
      unfold TG.hasInp at this
      rw [hi] at this
      simp at this
  · cases hw : t.win with
    | nil => rfl
    | cons x l =>
      have := (h x).1
      unfold TG.hasWin at this
      rw [hw] at this
      simp at this

theorem outD_of_clean (e : Nat) (t : TG) (h : Clean t) : OutD e t := by
  unfold OutD TG.hasWin TG.hasInp
  rw [h.1, h.2]; simp

theorem obs_ok {o : Outcome (St × Int)} {sq : List Glyph} {e : Int} (h : Obs o = .ok (sq, e)) :
    (o >>= fun (r : St × Int) => match r.1.stack.getLast? with
      | none => (Outcome.ok (r.1, r.2) : Outcome (St × Int))
      | some bottom => Outcome.ok ({ r.1 with stack := [] }, bottom.endPos)) = .ok (⟨sq, []⟩, e) := by
  cases o with
  | err x => simp [Obs] at h
  | panic x => simp [Obs] at h
  | ok r =>
    obtain ⟨st, nx⟩ := r
    simp only [Obs] at h
    injection h with h; injection h with h1 h2
    simp only [Shape.bind_ok_eq]
    cases hg : st.stack.getLast? with
    | none =>
      rw [hg] at h2
      have : st.stack = [] := List.getLast?_eq_none_iff.mp hg
      simp only
      cases st
      simp_all
    | some b =>
      rw [hg] at h2
      simp only at h2 ⊢
      rw [h1, h2]

theorem stepEq4 (B : Nat) (ll : LookupList) (gd : Gdef) (hok : Spec.Shape.tablesOk ll gd = true)
    (lk : Lookup) (hlk : lk ∈ ll) : StepEq B ll gd lk := by
  intro pre cur post hpre hcur hpost hk
  have hokl : ∀ lk ∈ ll, lk.subtables.all Spec.Shape.subtableOk = true := by
    unfold Spec.Shape.tablesOk at hok
    simp only [Bool.and_eq_true] at hok
    exact fun lk h => List.all_eq_true.mp hok.2 lk h
  cases B with
  | zero => simp [Spec.Shape.applyAt, Spec.Shape.undef]
  | succ B' =>
    rw [spec_applyAt_succ, Spec.Shape.keepOf_eq]
    have hat := atEq2 (lk.keep gd) gd pre cur post lk.subtables (hokl lk hlk)
    unfold AtEq2 at hat
    have hi : Shape.idxI "applyAtRecursively:seq[pos]" (gl (pre.reverse ++ cur :: post)) (pre.length : Int) = .ok cur.g :=
      idxI_mid _ pre cur post
    cases hf : Spec.Shape.firstHit (lk.keep gd) gd pre cur post post.length lk.subtables with
    | error e => simp [bind, Except.bind]
    | ok r =>
      rw [hf] at hat
      cases r with
      | none =>
        simp only [bind, Except.bind, pure, Except.pure]
        simp only at hat
        unfold Shape.applyAtRec
        simp only [hi, Shape.bind_ok_eq, Int.toNat_natCast, hk, Bool.not_true, Bool.false_eq_true, if_false]
        rw [hat]; rfl
      | some hit =>
        cases hit with
        | done dn rest =>
          simp only [bind, Except.bind, pure, Except.pure]
          simp only at hat
          obtain ⟨s, hs, hm⟩ := firstHit_src _ gd pre cur post _ _ _ hf
          refine ⟨?_, matchSub_clean _ gd pre cur post _ s dn rest hcur hpost hm⟩
          unfold Shape.applyAtRec
          simp only [hi, Shape.bind_ok_eq, Int.toNat_natCast, hk, Bool.not_true, Bool.false_eq_true, if_false]
          rw [hat]
          simp only [Shape.bind_ok_eq]
          rw [Shape.nestedLoop_nil (B' + 1) ll gd _ _ 1 _ rfl]
          rfl
        | ctx m acts =>
          simp only at hat
          obtain ⟨s, hs, hm⟩ := firstHit_src _ gd pre cur post _ _ _ hf
          obtain ⟨_, hsorted, hbound, _, hw⟩ := ctx_hit_facts _ gd pre cur post _ s m acts hm
          simp only [bind, Except.bind, pure, Except.pure, Nat.add_sub_cancel]
          cases hr : Spec.Shape.runActions (Spec.Shape.applyAt ll gd B' (0 + 1)) ll gd 0 acts
              (pre.reverse ++ Spec.Shape.tagWindow 0 m cur post ++ post.drop m.wlen) B' with
          | error e => trivial
          | ok res =>
            obtain ⟨ts', n'⟩ := res
            simp only
            -- the initial invariant
            have hclean : ∀ t ∈ pre.reverse ++ cur :: post, Clean t := by
              intro t ht
              simp only [List.mem_append, List.mem_reverse, List.mem_cons] at ht
              rcases ht with ht | ht | ht
              · exact hpre t ht
              · subst ht; exact hcur
              · exact hpost t ht
            have hout0 : ∀ e, ∀ t ∈ pre.reverse ++ cur :: post, OutD e t := fun e t ht => outD_of_clean e t (hclean t ht)
            obtain ⟨hF0, hne0, hlen0⟩ := tagD_form 0 pre post cur m (hout0 0) hw
            have hflag0 : ∀ e, e ≠ 0 → flagsD e (pre.reverse ++ Spec.Shape.tagWindow 0 m cur post ++ post.drop m.wlen)
                = flagsD e (pre.reverse ++ cur :: post) := fun e he => tagD_other 0 pre post cur m e he
            have hInv0 : InvD 0 pre.length (pre.reverse ++ Spec.Shape.tagWindow 0 m cur post ++ post.drop m.wlen) [] :=
              ⟨⟨⟨_, _, _, hF0, hne0⟩, formD_inpWin hF0⟩, (fun f hf => absurd hf (List.not_mem_nil)),
                (fun e he => outD_congr (hflag0 e (by omega)) (hout0 e))⟩
            have hpush : Shape.pushMatch ⟨gl (pre.reverse ++ cur :: post), []⟩ (pre.length :: m.offs.map (· + (pre.length + 1))) acts
                (pre.length + 1 + m.wlen)
                = ⟨gl (pre.reverse ++ Spec.Shape.tagWindow 0 m cur post ++ post.drop m.wlen),
                   stackD 0 (pre.reverse ++ Spec.Shape.tagWindow 0 m cur post ++ post.drop m.wlen) acts []⟩ := by
              unfold Shape.pushMatch stackD stackOf entryD
              rw [tagD_gl, tagD_inputPositions 0 pre post cur m (hout0 0) hw hsorted hbound,
                formD_windowEnd hF0 hne0, hlen0, ← Nat.add_assoc]
              rfl
            obtain ⟨fe', hI', _, _, _, htk, hobs⟩ := loopAll (B' + 1) ll gd hokl B' 0 acts _ B' ts' n' pre.length [] hr hInv0 1
              (by omega) (Shape.nestedFuel (B' + 1)
                (Shape.pushMatch ⟨gl (pre.reverse ++ cur :: post), []⟩ (pre.length :: m.offs.map (· + (pre.length + 1))) acts
                  (pre.length + 1 + m.wlen))) (by unfold Shape.nestedFuel Shape.pushMatch; simp; omega)
              ((pre.length + 1 + m.wlen : Nat) : Int)
            simp only [stackOf, List.map_nil, List.isEmpty_nil, if_true] at hobs
            rw [Shape.nestedLoop_nil (B' + 1) ll gd fe' _ _ _ rfl] at hobs
            simp only [Obs, List.getLast?_nil] at hobs
            -- the window of the finished match
            obtain ⟨P, A, D, hF', hA'⟩ := hI'.cur.form
            obtain ⟨u1, u2, u3⟩ := untagD_split hF'
            have hP : P = pre.reverse := by
              rw [← u3, htk, List.append_assoc, List.take_left' (by simp)]
            have hwe' := formD_windowEnd hF' hA'
            rw [u1, u2]
            have hflag3 : ∀ e, e ≠ 0 → flagsD e (P ++ A.map (TG.untag 0) ++ D) = flagsD e ts' :=
              fun e he => untagD_other hF' e he
            have hall : ∀ t ∈ P ++ A.map (TG.untag 0) ++ D, Clean t := by
              intro t ht
              apply clean_of_outD
              intro e
              by_cases he : e = 0
              · subst he; exact untagD_out hF' t ht
              · exact outD_congr (hflag3 e he) (hI'.above e (by omega)) t ht
            refine ⟨?_, fun t ht => hall t (by simp only [List.mem_append]; exact Or.inl (Or.inr ht)),
              fun t ht => hall t (by simp only [List.mem_append]; exact Or.inr ht)⟩
            unfold Shape.applyAtRec
            simp only [hi, Shape.bind_ok_eq, Int.toNat_natCast, hk, Bool.not_true, Bool.false_eq_true, if_false]
            rw [hat]
            simp only [Shape.bind_ok_eq]
            rw [hpush] at hobs ⊢
            have hgl : gl (pre.reverse ++ A.map (TG.untag 0) ++ D) = gl ts' := by
              rw [← hP]; exact untagD_gl hF'
            have hdl : (A.map (TG.untag 0)).length = A.length := by simp
            rw [hgl, hdl]
            have := obs_ok hobs
            rw [hwe'] at this
            exact this

/-- **Engine = reference, every lookup list, every depth of nesting.** -/
theorem engine_eq_spec_full (B : Nat) (ll : LookupList) (gd : Gdef) (lookups : List Nat) (seq r : List Glyph)
    (h : Spec.Shape.shape B ll gd lookups seq = .ok r) :
    Shape.apply B ll gd lookups [] seq = .ok ⟨r, []⟩ :=
  shape_eq_of_step B ll gd lookups seq r (fun hok lk hlk => stepEq4 B ll gd hok lk hlk) h

end SfntV.C06
