/-
C10 — SubsetGsub step 2 reaches a fixed point: when the `needsRun` loop ends, every rule whose
input glyphs are all in the subset has its output glyphs in the subset.
-/
import SfntV.Proofs.Subset

namespace SfntV.Subset

/-- a rule is respected by a glyph set: inputs all present ⇒ outputs present -/
def Fires (s : St) (r : Rule) : Prop :=
  (∀ g ∈ r.ins, s.has g = true) → ∀ g ∈ r.outs, s.has g = true

theorem getNewGid_of_not_has {s : St} {g : Gid} (h : ¬ s.has g = true) :
    (s.getNewGid g).1 = s.push g := by
  unfold St.has at h
  unfold St.getNewGid
  cases hx : s.newGid.lookup g with
  | none => rfl
  | some n => rw [hx] at h; simp at h

theorem ext_mem {s s' : St} (e : Ext s s') {g : Gid} (h : g ∈ s.glyphs) : g ∈ s'.glyphs := by
  obtain ⟨x, hx⟩ := e; rw [hx]; exact List.mem_append_left _ h

theorem addOuts_spec : ∀ (outs : List Gid) (s : St) (added : List Gid), Inv s →
    (∀ g ∈ outs, (addOuts s added outs).1.has g = true) ∧
    (∀ g, g ∈ (addOuts s added outs).2 ↔
      g ∈ added ∨ (g ∈ (addOuts s added outs).1.glyphs ∧ g ∉ s.glyphs)) := by
  intro outs
  induction outs with
  | nil => intro s added _; simp [addOuts]
  | cons g gs ih =>
    intro s added h
    simp only [addOuts]
    split
    · rename_i hg
      have hi := ih s added h
      have hgood := addOuts_good gs s added h
      refine ⟨?_, hi.2⟩
      intro x hx
      rcases List.mem_cons.1 hx with rfl | hx
      · exact has_mono h hgood.1 hgood.2 hg
      · exact hi.1 x hx
    · rename_i hg
      have hn := getNewGid_good h g
      have hi := ih (s.getNewGid g).1 (g :: added) hn.1
      have hgood := addOuts_good gs (s.getNewGid g).1 (g :: added) hn.1
      have hpush := getNewGid_of_not_has hg
      have hgs : g ∉ s.glyphs := fun hm => hg ((h.has_iff g).2 hm)
      have hg1 : g ∈ (s.getNewGid g).1.glyphs := by rw [hpush]; simp [St.push]
      refine ⟨?_, ?_⟩
      · intro x hx
        rcases List.mem_cons.1 hx with rfl | hx
        · have : (s.getNewGid x).1.has x = true := by
            unfold St.has; rw [hn.2.2]; rfl
          exact has_mono hn.1 hgood.1 hgood.2 this
        · exact hi.1 x hx
      · intro x
        rw [hi.2 x]
        have hsub : x ∉ (s.getNewGid g).1.glyphs ↔ (x ∉ s.glyphs ∧ x ≠ g) := by
          rw [hpush]; simp [St.push, not_or]
        constructor
        · rintro (hx | ⟨h1, h2⟩)
          · rcases List.mem_cons.1 hx with rfl | hx
            · exact Or.inr ⟨ext_mem hgood.2 hg1, hgs⟩
            · exact Or.inl hx
          · exact Or.inr ⟨h1, (hsub.1 h2).1⟩
        · rintro (hx | ⟨h1, h2⟩)
          · exact Or.inl (List.mem_cons_of_mem _ hx)
          · by_cases hxg : x = g
            · exact Or.inl (by rw [hxg]; exact List.mem_cons_self)
            · exact Or.inr ⟨h1, hsub.2 ⟨h2, hxg⟩⟩

theorem sweep_spec : ∀ (work : List (Int × Rule)) (s : St) (added : List Gid), Inv s →
    (∀ w ∈ work, w ∈ (sweep s added work).2.2 ∨
      (∀ g ∈ w.2.outs, (sweep s added work).1.has g = true)) ∧
    (∀ w ∈ (sweep s added work).2.2, w ∈ work ∧ w.1 ≠ 0) ∧
    (∀ g, g ∈ (sweep s added work).2.1 ↔
      g ∈ added ∨ (g ∈ (sweep s added work).1.glyphs ∧ g ∉ s.glyphs)) := by
  intro work
  induction work with
  | nil => intro s added _; simp [sweep]
  | cons r rs ih =>
    intro s added h
    simp only [sweep]
    split
    · rename_i hr
      have ha := addOuts_spec r.2.outs s added h
      have hag := addOuts_good r.2.outs s added h
      have hi := ih (addOuts s added r.2.outs).1 (addOuts s added r.2.outs).2 hag.1
      have hsg := sweep_good rs (addOuts s added r.2.outs).1 (addOuts s added r.2.outs).2 hag.1
      refine ⟨?_, ?_, ?_⟩
      · intro w hw
        rcases List.mem_cons.1 hw with rfl | hw
        · right; intro g hg; exact has_mono hag.1 hsg.1 hsg.2 (ha.1 g hg)
        · exact hi.1 w hw
      · intro w hw; exact ⟨List.mem_cons_of_mem _ (hi.2.1 w hw).1, (hi.2.1 w hw).2⟩
      · intro g
        rw [hi.2.2 g, ha.2 g]
        constructor
        · rintro ((hx | ⟨h1, h2⟩) | ⟨h1, h2⟩)
          · exact Or.inl hx
          · exact Or.inr ⟨ext_mem hsg.2 h1, h2⟩
          · exact Or.inr ⟨h1, fun hm => h2 (ext_mem hag.2 hm)⟩
        · rintro (hx | ⟨h1, h2⟩)
          · exact Or.inl (Or.inl hx)
          · by_cases hm : g ∈ (addOuts s added r.2.outs).1.glyphs
            · exact Or.inl (Or.inr ⟨hm, h2⟩)
            · exact Or.inr ⟨h1, hm⟩
    · rename_i hr
      have hi := ih s added h
      refine ⟨?_, ?_, hi.2.2⟩
      · intro w hw
        rcases List.mem_cons.1 hw with rfl | hw
        · left; exact List.mem_cons_self
        · rcases hi.1 w hw with h1 | h1
          · left; exact List.mem_cons_of_mem _ h1
          · right; exact h1
      · intro w hw
        rcases List.mem_cons.1 hw with rfl | hw
        · exact ⟨List.mem_cons_self, hr⟩
        · exact ⟨List.mem_cons_of_mem _ (hi.2.1 w hw).1, (hi.2.1 w hw).2⟩

theorem missing_dec (m m' : GMap) (added : List Gid) (ins : List Gid)
    (h : ∀ g, (m'.lookup g).isNone = true ↔ ((m.lookup g).isNone = true ∧ g ∉ added))
    (h2 : ∀ g ∈ added, (m.lookup g).isNone = true) :
    missing m ins = missing m' ins + (ins.filter fun g => added.contains g).length := by
  induction ins with
  | nil => simp [missing]
  | cons g gs ih =>
    simp only [missing] at ih ⊢
    by_cases ha : g ∈ added
    · have h1 := h2 g ha
      have h3 : (m'.lookup g).isNone = false := by
        cases hx : (m'.lookup g).isNone
        · rfl
        · exact absurd ha ((h g).1 hx).2
      have hc : added.contains g = true := by simpa using ha
      simp only [List.filter_cons, h1, h3, hc, if_true, Bool.false_eq_true, if_false, List.length_cons]
      omega
    · have hc : added.contains g = false := by simpa using ha
      cases hx : (m.lookup g).isNone
      · have h3 : (m'.lookup g).isNone = false := by
          cases hy : (m'.lookup g).isNone
          · rfl
          · have := ((h g).1 hy).1; rw [hx] at this; cases this
        simp only [List.filter_cons, hx, h3, hc, Bool.false_eq_true, if_false]
        omega
      · have h3 : (m'.lookup g).isNone = true := (h g).2 ⟨hx, ha⟩
        simp only [List.filter_cons, hx, h3, hc, if_true, Bool.false_eq_true, if_false, List.length_cons]
        omega

theorem missing_pos {m : GMap} {ins : List Gid} (h : missing m ins ≠ 0) :
    ∃ g ∈ ins, m.lookup g = none := by
  unfold missing at h
  have : (ins.filter fun g => (m.lookup g).isNone) ≠ [] := by
    intro he; rw [he] at h; exact h rfl
  obtain ⟨g, hg⟩ := List.exists_mem_of_ne_nil _ this
  rw [List.mem_filter] at hg
  exact ⟨g, hg.1, by simpa using hg.2⟩

/-- loop invariant of step 2: the counters of the waiting rules are right, and every rule is either
waiting or has its outputs in the subset -/
def LI (s : St) (work : List (Int × Rule)) (all : List Rule) : Prop :=
  (∀ w ∈ work, w.1 = Int.ofNat (missing s.newGid w.2.ins)) ∧
  (∀ r ∈ all, (∃ n, (n, r) ∈ work) ∨ (∀ g ∈ r.outs, s.has g = true))

theorem gsubLoop_closed (all : List Rule) : ∀ (fuel : Nat) (s : St) (work : List (Int × Rule)) (s' : St),
    Inv s → LI s work all → gsubLoop fuel s work = some s' → ∀ r ∈ all, Fires s' r := by
  intro fuel
  induction fuel with
  | zero => intro s work s' _ _ h; simp [gsubLoop] at h
  | succ fuel ih =>
    intro s work s' h hli hr
    simp only [gsubLoop] at hr
    have hs := sweep_good work s [] h
    have hsp := sweep_spec work s [] h
    -- the counters after `dec` are right for the new state
    have hcount : ∀ w ∈ (sweep s [] work).2.2,
        (dec (sweep s [] work).2.1 w).1 = Int.ofNat (missing (sweep s [] work).1.newGid w.2.ins) := by
      intro w hw
      have hw0 := hli.1 w (hsp.2.1 w hw).1
      have hadd : ∀ g, g ∈ (sweep s [] work).2.1 ↔
          (g ∈ (sweep s [] work).1.glyphs ∧ g ∉ s.glyphs) := by
        intro g; rw [hsp.2.2 g]; simp
      have := missing_dec s.newGid (sweep s [] work).1.newGid (sweep s [] work).2.1 w.2.ins
        (by
          intro g
          have a := hs.1.lookup_none g
          have b := h.lookup_none g
          constructor
          · intro hn
            have hn' : (sweep s [] work).1.newGid.lookup g = none := by simpa using hn
            have hg1 := a.1 hn'
            have hg0 : g ∉ s.glyphs := fun hm => hg1 (ext_mem hs.2 hm)
            exact ⟨by simpa using b.2 hg0, fun hm => hg1 ((hadd g).1 hm).1⟩
          · rintro ⟨hn, hna⟩
            have hn' : s.newGid.lookup g = none := by simpa using hn
            have hg0 := b.1 hn'
            have : g ∉ (sweep s [] work).1.glyphs := fun hm => hna ((hadd g).2 ⟨hm, hg0⟩)
            simpa using a.2 this)
        (by
          intro g hg
          have := ((hadd g).1 hg).2
          simpa using (h.lookup_none g).2 this)
      simp only [dec, hw0]
      rw [this]
      simp only [Int.ofNat_eq_natCast]
      omega
    split at hr
    · -- another round
      refine ih _ _ s' hs.1 ⟨?_, ?_⟩ hr
      · intro w' hw'
        obtain ⟨w, hw, rfl⟩ := List.mem_map.1 hw'
        have := hcount w hw
        simpa [dec] using this
      · intro r hrm
        rcases hli.2 r hrm with ⟨n, hn⟩ | hout
        · rcases hsp.1 (n, r) hn with h1 | h1
          · left; exact ⟨_, List.mem_map.2 ⟨(n, r), h1, rfl⟩⟩
          · right; exact h1
        · right; intro g hg; exact has_mono h hs.1 hs.2 (hout g hg)
    · rename_i hany
      injection hr with hr; subst hr
      intro r hrm hins
      rcases hli.2 r hrm with ⟨n, hn⟩ | hout
      · rcases hsp.1 (n, r) hn with h1 | h1
        · exfalso
          have hz : (dec (sweep s [] work).2.1 (n, r)).1 ≠ 0 := by
            intro hz
            apply hany
            rw [List.any_eq_true]
            exact ⟨_, List.mem_map.2 ⟨(n, r), h1, rfl⟩, by simpa using hz⟩
          rw [hcount (n, r) h1] at hz
          have hm : missing (sweep s [] work).1.newGid r.ins ≠ 0 := by
            intro h0; apply hz; simp [h0]
          obtain ⟨g, hg, hnone⟩ := missing_pos hm
          have := hins g hg
          unfold St.has at this; rw [hnone] at this; cases this
        · exact h1
      · intro g hg; exact has_mono h hs.1 hs.2 (hout g hg)

/-- when `addGsubGlyphs` returns, the glyph set respects every GSUB rule -/
theorem gsubClose_closed {ro : List Rule → List Rule} {s t : St} {l : Layout GsubSub}
    (h : Inv s) (hp : ∀ x, (ro x).Perm x) (hr : gsubClose ro s l = some t) :
    ∀ r ∈ rulesOf l, Fires t r := by
  have hli : LI s ((ro (rulesOf l)).map fun r => (Int.ofNat (missing s.newGid r.ins), r))
      (ro (rulesOf l)) := by
    refine ⟨?_, ?_⟩
    · intro w hw
      obtain ⟨r, _, rfl⟩ := List.mem_map.1 hw
      rfl
    · intro r hrm
      left
      exact ⟨_, List.mem_map.2 ⟨r, hrm, rfl⟩⟩
  have := gsubLoop_closed (ro (rulesOf l)) _ _ _ t h hli hr
  intro r hrm
  exact this r ((hp (rulesOf l)).mem_iff.2 hrm)

end SfntV.Subset
