/-
Lemmas about the GSUB subtable models (C08).
-/
import SfntV.Model.OtlGsub
import SfntV.Proofs.OtlCoverage

namespace SfntV.Otl
open SfntV

namespace Cov

/-! ### `ReadSet` on encoder output -/

theorem readSet1_spec (tail : List Nat) : ∀ (gs : List Nat),
    readSet1 gs.length (gs ++ tail) = .ok gs
  | [] => rfl
  | g :: gs => by
    simp only [List.length_cons, List.cons_append, readSet1]
    rw [readSet1_spec tail gs]

theorem readSet2_rangesLoop (tail : List Nat) : ∀ (gs : List Nat) (s sidx prev i : Nat) (prevR : Int),
    s ≤ prev → i = sidx + (prev + 1 - s) → (prev :: gs).Pairwise (· < ·) →
    (∀ g ∈ gs, g < 65536) → prev < 65536 → i + gs.length ≤ 65536 → prevR ≤ (s : Int) →
    readSet2 (rangesLoop s sidx prev i gs).length ((rangesLoop s sidx prev i gs).flatMap recWords ++ tail)
      sidx prevR = .ok (List.range' s (prev + 1 - s) ++ gs)
  | [], s, sidx, prev, i, prevR, hsp, hi, _, _, hprev, hlen, hR => by
    simp only [rangesLoop, List.length_cons, List.length_nil, List.flatMap_cons, List.flatMap_nil,
      recWords, List.append_nil, List.cons_append, List.nil_append]
    rw [w16_of_lt (by omega : s < 65536), w16_of_lt hprev, w16_of_lt (by simp at hlen; omega : sidx < 65536)]
    simp only [readSet2]
    rw [if_neg (by omega)]
    simp
  | g :: gs, s, sidx, prev, i, prevR, hsp, hi, hs, hsm, hprev, hlen, hR => by
    have hs' := hs
    rw [List.pairwise_cons] at hs'
    have hpg : prev < g := hs'.1 g (by simp)
    have hg : g < 65536 := hsm g (by simp)
    have hsm' : ∀ x ∈ gs, x < 65536 := fun x hx => hsm x (by simp [hx])
    simp only [List.length_cons] at hlen
    simp only [rangesLoop]
    split
    · rename_i hc
      subst hc
      have ih := readSet2_rangesLoop tail gs s sidx (prev + 1) (i + 1) prevR (by omega) (by omega)
        hs'.2 hsm' hg (by omega) hR
      rw [ih]
      have e : prev + 1 + 1 - s = (prev + 1 - s) + 1 := by omega
      rw [e, List.range'_concat]
      have e2 : s + (prev + 1 - s) = prev + 1 := by omega
      simp [e2]
    · rename_i hc
      have ih := readSet2_rangesLoop tail gs g i g (i + 1) (prev : Int) (Nat.le_refl g) (by omega)
        hs'.2 hsm' hg (by omega) (by omega)
      simp only [List.length_cons, List.flatMap_cons, recWords, List.cons_append, List.nil_append]
      rw [w16_of_lt (by omega : s < 65536), w16_of_lt hprev, w16_of_lt (by omega : sidx < 65536)]
      simp only [readSet2]
      rw [if_neg (by omega)]
      have e3 : sidx + (prev + 1 - s) = i := by omega
      rw [e3, ih]
      have e4 : g + 1 - g = 1 := by omega
      simp [e4]

theorem readSetW_encodeW (gs : List Nat) (h : Valid gs) : readSetW (encodeW gs) = .ok gs := by
  have hb := total_bound gs h
  unfold encodeW
  split
  · rename_i hf
    simp only [fmt1Len, fmt2Len] at hf
    have hn : gs.length < 65536 := by omega
    rw [w16_of_lt hn]
    simp only [readSetW]
    have := readSet1_spec [] gs
    rwa [List.append_nil] at this
  · rename_i hf
    simp only [fmt1Len, fmt2Len, Nat.not_le] at hf
    have e : (4 + 6 * rangeCountFrom 65535 gs - 4) / 6 = rangeCountFrom 65535 gs := by omega
    simp only [fmt2Len, e]
    have hr : rangeCountFrom 65535 gs < 65536 := by omega
    rw [w16_of_lt hr]
    cases gs with
    | nil => simp [rangeCountFrom] at hf
    | cons g gs' =>
      have hg : g < 65536 := h.small g (by simp)
      have hlen : (ranges (g :: gs')).length = rangeCountFrom 65535 (g :: gs') :=
        ranges_length _ h.small
      have hd := rangeCount_first g gs' hg
      simp only [List.length_cons] at hb hf
      simp only [readSetW]
      rw [← hlen]
      simp only [ranges]
      have := readSet2_rangesLoop [] gs' g 0 g 1 (-1) (Nat.le_refl g) (by omega) h.sorted
        (fun x hx => h.small x (by simp [hx])) hg (by omega) (by omega)
      rw [List.append_nil] at this
      rw [this]
      have e4 : g + 1 - g = 1 := by omega
      simp [e4]

theorem encode_length (gs : List Nat) (h : Valid gs) (c : Bytes) (n : Nat)
    (hc : encode gs = .ok c) (hn : encodeLen gs = .ok n) : c.length = n := by
  rw [encode_eq gs h] at hc
  rw [encodeLen_eq gs h] at hn
  simp only [Outcome.ok.injEq] at hc hn
  subst hc hn
  rw [length_wordsToBytes]
  exact encodeW_length gs h

end Cov

namespace Gsub

/-! ### GSUB 1.1 -/

theorem roundtrip11 (gs : List Nat) (h : Cov.Valid gs) (delta : Nat) (hd : delta < 65536) :
    ∃ b, encode11 gs delta = .ok b ∧ readSubtable 1 b = .ok (.s11 gs delta) ∧
      encodeLen11 gs = .ok b.length := by
  refine ⟨wordsToBytes [1, 6, delta] ++ wordsToBytes (Cov.encodeW gs), ?_, ?_, ?_⟩
  · simp [encode11, Cov.encode_eq gs h]
  · have hw : bytesToWords (wordsToBytes [1, 6, delta] ++ wordsToBytes (Cov.encodeW gs)) =
        [1, 6, delta] ++ Cov.encodeW gs := by
      rw [bytesToWords_append _ (by intro w hw; simp at hw; rcases hw with rfl | rfl | rfl <;> omega),
        bytesToWords_wordsToBytes _ (Cov.encodeW_lt gs h)]
    have hdrop : (wordsToBytes [1, 6, delta] ++ wordsToBytes (Cov.encodeW gs)).drop 6 =
        wordsToBytes (Cov.encodeW gs) := drop_wordsToBytes_append [1, 6, delta] _
    have hrs : Cov.readSet (wordsToBytes (Cov.encodeW gs)) = .ok gs := by
      unfold Cov.readSet
      rw [bytesToWords_wordsToBytes _ (Cov.encodeW_lt gs h)]
      exact Cov.readSetW_encodeW gs h
    simp only [readSubtable, hw, List.cons_append, List.nil_append, read11, hdrop, hrs]
    simp
  · simp only [encodeLen11, Cov.encodeLen_eq gs h, List.length_append, length_wordsToBytes,
      ← Cov.encodeW_length gs h, List.length_cons, List.length_nil]

/-! ### GSUB 1.2 -/

theorem prune_same {α} (cov : List (Nat × Nat)) (xs : List α) (h : xs.length = cov.length) :
    prune cov xs = (cov, xs) := by
  unfold prune
  rw [if_neg (by omega), ← h, List.take_length]

theorem roundtrip12 (rev subs : List Nat) (h : Cov.Valid rev) (hl : subs.length = rev.length)
    (hs : ∀ x ∈ subs, x < 65536) (hfit : 6 + 2 * subs.length ≤ 0xFFFF) :
    ∃ b, encode12 rev subs = .ok b ∧ readSubtable 1 b = .ok (.s12 rev.zipIdx subs) ∧
      encodeLen12 rev subs = .ok b.length := by
  refine ⟨wordsToBytes (2 :: (6 + 2 * subs.length) :: subs.length :: subs) ++
    wordsToBytes (Cov.encodeW rev), ?_, ?_, ?_⟩
  · simp only [encode12]
    rw [if_neg (by omega), Cov.encode_eq rev h, w16_of_lt (by omega), w16_of_lt (by omega)]
    rfl
  · have hlt : ∀ w ∈ 2 :: (6 + 2 * subs.length) :: subs.length :: subs, w < 65536 := by
      intro w hw
      simp only [List.mem_cons] at hw
      rcases hw with rfl | rfl | rfl | hw
      · decide
      · omega
      · omega
      · exact hs w hw
    have hw : bytesToWords (wordsToBytes (2 :: (6 + 2 * subs.length) :: subs.length :: subs) ++
        wordsToBytes (Cov.encodeW rev)) =
        2 :: (6 + 2 * subs.length) :: subs.length :: (subs ++ Cov.encodeW rev) := by
      rw [bytesToWords_append _ hlt, bytesToWords_wordsToBytes _ (Cov.encodeW_lt rev h)]
      rfl
    have hdrop : (wordsToBytes (2 :: (6 + 2 * subs.length) :: subs.length :: subs) ++
        wordsToBytes (Cov.encodeW rev)).drop (6 + 2 * subs.length) = wordsToBytes (Cov.encodeW rev) := by
      have e : 6 + 2 * subs.length = 2 * (2 :: (6 + 2 * subs.length) :: subs.length :: subs).length := by
        simp only [List.length_cons]; omega
      rw [e]
      exact drop_wordsToBytes_append _ _
    have hrd : Cov.read (wordsToBytes (Cov.encodeW rev)) = .ok rev.zipIdx := by
      unfold Cov.read
      rw [bytesToWords_wordsToBytes _ (Cov.encodeW_lt rev h)]
      exact (Cov.readW_encodeW rev h).1
    have hlen : ¬ (subs ++ Cov.encodeW rev).length < subs.length := by simp
    simp only [readSubtable, hw, read12, hdrop, hrd, hlen, if_false, List.take_left]
    rw [prune_same _ _ (by simp [hl])]
    simp
  · simp only [encodeLen12, Cov.encodeLen_eq rev h, List.length_append, length_wordsToBytes,
      ← Cov.encodeW_length rev h, List.length_cons]
    congr 1
    omega

theorem refusal12 (rev subs : List Nat) (h : 6 + 2 * subs.length > 0xFFFF) :
    ∃ s, encode12 rev subs = .panic s := by
  simp only [encode12]
  rw [if_pos h]
  exact ⟨_, rfl⟩

/-! ### GSUB 2.1 / 3.1 -/

theorem seqOffsets_length : ∀ (seqs : List (List Nat)) (off : Nat), (seqOffsets seqs off).length = seqs.length
  | [], _ => rfl
  | _ :: rs, off => by simp [seqOffsets, seqOffsets_length rs]

theorem seqOffsets_lt : ∀ (seqs : List (List Nat)) (off : Nat), ∀ w ∈ seqOffsets seqs off, w < 65536
  | [], _, w, hw => by simp [seqOffsets] at hw
  | _ :: rs, off, w, hw => by
    simp only [seqOffsets, List.mem_cons] at hw
    rcases hw with rfl | hw
    · exact w16_lt _
    · exact seqOffsets_lt rs _ w hw

theorem seqWords_cons (r : List Nat) (rs : List (List Nat)) :
    seqWords (r :: rs) = w16 r.length :: (r ++ seqWords rs) := by
  simp [seqWords]

theorem seqWords_lt (seqs : List (List Nat)) (h : ∀ r ∈ seqs, ∀ x ∈ r, x < 65536) :
    ∀ w ∈ seqWords seqs, w < 65536 := by
  induction seqs with
  | nil => intro w hw; simp [seqWords] at hw
  | cons r rs ih =>
    intro w hw
    rw [seqWords_cons] at hw
    simp only [List.mem_cons, List.mem_append] at hw
    rcases hw with rfl | hw | hw
    · exact w16_lt _
    · exact h r (by simp) w hw
    · exact ih (fun r' hr' => h r' (by simp [hr'])) w hw

/-- the sequence reader finds every sequence at the offset the encoder wrote for it -/
theorem readSeqs_spec (c : Bytes) : ∀ (seqs : List (List Nat)) (P T : List Nat),
    (∀ w ∈ P, w < 65536) → (∀ w ∈ T, w < 65536) → (∀ r ∈ seqs, ∀ x ∈ r, x < 65536) →
    2 * P.length + 2 * (seqWords seqs).length < 65536 →
    readSeqs (wordsToBytes (P ++ (seqWords seqs ++ T)) ++ c) (seqOffsets seqs (2 * P.length)) = .ok seqs
  | [], _, _, _, _, _, _ => rfl
  | r :: rs, P, T, hP, hT, hS, hfit => by
    rw [seqWords_cons] at hfit
    simp only [List.length_cons, List.length_append] at hfit
    have hr : r.length < 65536 := by omega
    simp only [seqOffsets, readSeqs]
    rw [w16_of_lt (by omega)]
    -- the counted array at the offset
    have hrc : readCounted (wordsToBytes (P ++ (seqWords (r :: rs) ++ T)) ++ c) (2 * P.length) = .ok r := by
      unfold readCounted
      rw [drop_wordsToBytes_append']
      have hlt : ∀ w ∈ seqWords (r :: rs) ++ T, w < 65536 := by
        intro w hw
        rw [List.mem_append] at hw
        rcases hw with hw | hw
        · exact seqWords_lt _ hS w hw
        · exact hT w hw
      rw [bytesToWords_append _ hlt, seqWords_cons, w16_of_lt hr]
      simp only [List.cons_append, List.append_assoc]
      rw [if_neg (by simp), List.take_left]
    rw [hrc]
    -- the remaining sequences: the prefix grows by this one
    have ih := readSeqs_spec c rs (P ++ (r.length :: r)) T
      (by intro w hw
          simp only [List.mem_append, List.mem_cons] at hw
          rcases hw with hw | rfl | hw
          · exact hP w hw
          · exact hr
          · exact hS r (by simp) w hw)
      hT (fun r' hr' => hS r' (by simp [hr']))
      (by simp only [List.length_append, List.length_cons]; omega)
    have e1 : P ++ (seqWords (r :: rs) ++ T) = (P ++ (r.length :: r)) ++ (seqWords rs ++ T) := by
      rw [seqWords_cons, w16_of_lt hr]; simp
    have e2 : 2 * P.length + 2 + 2 * r.length = 2 * (P ++ (r.length :: r)).length := by
      simp only [List.length_append, List.length_cons]; omega
    rw [e1, e2, ih]

theorem seqTotal_eq (seqs : List (List Nat)) :
    seqTotal seqs = 2 * (1 :: seqTotal seqs :: seqs.length ::
      (seqOffsets seqs (6 + 2 * seqs.length) ++ seqWords seqs)).length := by
  simp only [seqTotal, List.length_cons, List.length_append, seqOffsets_length]
  omega

theorem roundtripSeq (tp : Nat) (htp : tp = 2 ∨ tp = 3) (rev : List Nat) (seqs : List (List Nat))
    (h : Cov.Valid rev) (hl : seqs.length = rev.length) (hs : ∀ r ∈ seqs, ∀ x ∈ r, x < 65536)
    (hfit : seqTotal seqs ≤ 0xFFFF) :
    ∃ b, encodeSeq rev seqs = .ok b ∧ readSubtable tp b = .ok (.seq tp rev.zipIdx seqs) ∧
      encodeLenSeq rev seqs = .ok b.length := by
  have hfit' := hfit
  simp only [seqTotal] at hfit'
  refine ⟨wordsToBytes (1 :: seqTotal seqs :: seqs.length ::
    (seqOffsets seqs (6 + 2 * seqs.length) ++ seqWords seqs)) ++ wordsToBytes (Cov.encodeW rev), ?_, ?_, ?_⟩
  · simp only [encodeSeq]
    rw [if_neg (by omega), Cov.encode_eq rev h, w16_of_lt (by omega), w16_of_lt (by omega)]
    rfl
  · have hlt : ∀ w ∈ 1 :: seqTotal seqs :: seqs.length ::
        (seqOffsets seqs (6 + 2 * seqs.length) ++ seqWords seqs), w < 65536 := by
      intro w hw
      simp only [List.mem_cons, List.mem_append] at hw
      rcases hw with rfl | rfl | rfl | hw | hw
      · decide
      · omega
      · omega
      · exact seqOffsets_lt _ _ w hw
      · exact seqWords_lt _ hs w hw
    have hw : bytesToWords (wordsToBytes (1 :: seqTotal seqs :: seqs.length ::
        (seqOffsets seqs (6 + 2 * seqs.length) ++ seqWords seqs)) ++ wordsToBytes (Cov.encodeW rev)) =
        1 :: seqTotal seqs :: seqs.length ::
          (seqOffsets seqs (6 + 2 * seqs.length) ++ seqWords seqs ++ Cov.encodeW rev) := by
      rw [bytesToWords_append _ hlt, bytesToWords_wordsToBytes _ (Cov.encodeW_lt rev h)]
      simp
    have hdrop : (wordsToBytes (1 :: seqTotal seqs :: seqs.length ::
        (seqOffsets seqs (6 + 2 * seqs.length) ++ seqWords seqs)) ++
        wordsToBytes (Cov.encodeW rev)).drop (seqTotal seqs) = wordsToBytes (Cov.encodeW rev) := by
      have e := seqTotal_eq seqs
      generalize seqTotal seqs = t at e ⊢
      rw [e]
      exact drop_wordsToBytes_append _ _
    have hrd : Cov.read (wordsToBytes (Cov.encodeW rev)) = .ok rev.zipIdx := by
      unfold Cov.read
      rw [bytesToWords_wordsToBytes _ (Cov.encodeW_lt rev h)]
      exact (Cov.readW_encodeW rev h).1
    have hlen : ¬ (seqOffsets seqs (6 + 2 * seqs.length) ++ seqWords seqs ++ Cov.encodeW rev).length
        < seqs.length := by simp [seqOffsets_length]
    have htake : (seqOffsets seqs (6 + 2 * seqs.length) ++ seqWords seqs ++ Cov.encodeW rev).take seqs.length
        = seqOffsets seqs (6 + 2 * seqs.length) := by
      rw [List.append_assoc]
      have := seqOffsets_length seqs (6 + 2 * seqs.length)
      generalize seqOffsets seqs (6 + 2 * seqs.length) = offs at this ⊢
      rw [← this]
      exact List.take_left
    have hseqs := readSeqs_spec (wordsToBytes (Cov.encodeW rev)) seqs
      (1 :: seqTotal seqs :: seqs.length :: seqOffsets seqs (6 + 2 * seqs.length)) []
      (by intro w hw
          simp only [List.mem_cons] at hw
          rcases hw with rfl | rfl | rfl | hw
          · decide
          · omega
          · omega
          · exact seqOffsets_lt _ _ w hw)
      (by simp) hs
      (by simp only [List.length_cons, seqOffsets_length]; omega)
    have e3 : 2 * (1 :: seqTotal seqs :: seqs.length :: seqOffsets seqs (6 + 2 * seqs.length)).length
        = 6 + 2 * seqs.length := by
      simp only [List.length_cons, seqOffsets_length]; omega
    rw [e3] at hseqs
    simp only [List.append_nil, List.cons_append] at hseqs
    have hfmt : ((tp == 1) && true) = false := by rcases htp with rfl | rfl <;> rfl
    have hfmt2 : ((tp == 2 || tp == 3) && true) = true := by rcases htp with rfl | rfl <;> rfl
    simp only [readSubtable, hw, readSeq, hdrop, hrd, hlen, if_false, htake]
    rw [prune_same _ _ (by simp [hl, seqOffsets_length])]
    simp only [hseqs]
    rcases htp with rfl | rfl <;> simp
  · simp only [encodeLenSeq, Cov.encodeLen_eq rev h, List.length_append, length_wordsToBytes,
      ← Cov.encodeW_length rev h]
    have := seqTotal_eq seqs
    congr 1
    omega

theorem refusalSeq (rev : List Nat) (seqs : List (List Nat)) (h : seqTotal seqs > 0xFFFF) :
    ∃ s, encodeSeq rev seqs = .panic s := by
  simp only [encodeSeq]
  rw [if_pos h]
  exact ⟨_, rfl⟩

end Gsub
end SfntV.Otl
