/-
Lemmas about the GSUB subtable models (C08).
-/
import SfntV.Model.OtlGsub
import SfntV.Proofs.OtlCoverage

namespace SfntV.Otl
open SfntV

namespace Cov

/-! ### `ReadSet` on encoder output -/

theorem readSet1_spec (tail : List Nat) : ∀ (gs : List Nat),
    readSet1 gs.length (gs ++ tail) = .ok gs
  | [] => rfl
  | g :: gs => by
    simp only [List.length_cons, List.cons_append, readSet1]
    rw [readSet1_spec tail gs]

theorem readSet2_rangesLoop (tail : List Nat) : ∀ (gs : List Nat) (s sidx prev i : Nat) (prevR : Int),
    s ≤ prev → i = sidx + (prev + 1 - s) → (prev :: gs).Pairwise (· < ·) →
    (∀ g ∈ gs, g < 65536) → prev < 65536 → i + gs.length ≤ 65536 → prevR ≤ (s : Int) →
    readSet2 (rangesLoop s sidx prev i gs).length ((rangesLoop s sidx prev i gs).flatMap recWords ++ tail)
      sidx prevR = .ok (List.range' s (prev + 1 - s) ++ gs)
  | [], s, sidx, prev, i, prevR, hsp, hi, _, _, hprev, hlen, hR => by
    simp only [rangesLoop, List.length_cons, List.length_nil, List.flatMap_cons, List.flatMap_nil,
      recWords, List.append_nil, List.cons_append, List.nil_append]
    rw [w16_of_lt (by omega : s < 65536), w16_of_lt hprev, w16_of_lt (by simp at hlen; omega : sidx < 65536)]
    simp only [readSet2]
    rw [if_neg (by omega)]
    simp
  | g :: gs, s, sidx, prev, i, prevR, hsp, hi, hs, hsm, hprev, hlen, hR => by
    have hs' := hs
    rw [List.pairwise_cons] at hs'
    have hpg : prev < g := hs'.1 g (by simp)
    have hg : g < 65536 := hsm g (by simp)
    have hsm' : ∀ x ∈ gs, x < 65536 := fun x hx => hsm x (by simp [hx])
    simp only [List.length_cons] at hlen
    simp only [rangesLoop]
    split
    · rename_i hc
      subst hc
      have ih := readSet2_rangesLoop tail gs s sidx (prev + 1) (i + 1) prevR (by omega) (by omega)
        hs'.2 hsm' hg (by omega) hR
      rw [ih]
      have e : prev + 1 + 1 - s = (prev + 1 - s) + 1 := by omega
      rw [e, List.range'_concat]
      have e2 : s + (prev + 1 - s) = prev + 1 := by omega
      simp [e2]
    · rename_i hc
      have ih := readSet2_rangesLoop tail gs g i g (i + 1) (prev : Int) (Nat.le_refl g) (by omega)
        hs'.2 hsm' hg (by omega) (by omega)
      simp only [List.length_cons, List.flatMap_cons, recWords, List.cons_append, List.nil_append]
      rw [w16_of_lt (by omega : s < 65536), w16_of_lt hprev, w16_of_lt (by omega : sidx < 65536)]
      simp only [readSet2]
      rw [if_neg (by omega)]
      have e3 : sidx + (prev + 1 - s) = i := by omega
      rw [e3, ih]
      have e4 : g + 1 - g = 1 := by omega
      simp [e4]

theorem readSetW_encodeW (gs : List Nat) (h : Valid gs) : readSetW (encodeW gs) = .ok gs := by
  have hb := total_bound gs h
  unfold encodeW
  split
  · rename_i hf
    simp only [fmt1Len, fmt2Len] at hf
    have hn : gs.length < 65536 := by omega
    rw [w16_of_lt hn]
    simp only [readSetW]
    have := readSet1_spec [] gs
    rwa [List.append_nil] at this
  · rename_i hf
    simp only [fmt1Len, fmt2Len, Nat.not_le] at hf
    have e : (4 + 6 * rangeCountFrom 65535 gs - 4) / 6 = rangeCountFrom 65535 gs := by omega
    simp only [fmt2Len, e]
    have hr : rangeCountFrom 65535 gs < 65536 := by omega
    rw [w16_of_lt hr]
    cases gs with
    | nil => simp [rangeCountFrom] at hf
    | cons g gs' =>
      have hg : g < 65536 := h.small g (by simp)
      have hlen : (ranges (g :: gs')).length = rangeCountFrom 65535 (g :: gs') :=
        ranges_length _ h.small
      have hd := rangeCount_first g gs' hg
      simp only [List.length_cons] at hb hf
      simp only [readSetW]
      rw [← hlen]
      simp only [ranges]
      have := readSet2_rangesLoop [] gs' g 0 g 1 (-1) (Nat.le_refl g) (by omega) h.sorted
        (fun x hx => h.small x (by simp [hx])) hg (by omega) (by omega)
      rw [List.append_nil] at this
      rw [this]
      have e4 : g + 1 - g = 1 := by omega
      simp [e4]

theorem encode_length (gs : List Nat) (h : Valid gs) (c : Bytes) (n : Nat)
    (hc : encode gs = .ok c) (hn : encodeLen gs = .ok n) : c.length = n := by
  rw [encode_eq gs h] at hc
  rw [encodeLen_eq gs h] at hn
  simp only [Outcome.ok.injEq] at hc hn
  subst hc hn
  rw [length_wordsToBytes]
  exact encodeW_length gs h

end Cov

namespace Gsub

/-! ### GSUB 1.1 -/

theorem roundtrip11 (gs : List Nat) (h : Cov.Valid gs) (delta : Nat) (hd : delta < 65536) :
    ∃ b, encode11 gs delta = .ok b ∧ readSubtable 1 b = .ok (.s11 gs delta) ∧
      encodeLen11 gs = .ok b.length := by
  refine ⟨wordsToBytes [1, 6, delta] ++ wordsToBytes (Cov.encodeW gs), ?_, ?_, ?_⟩
  · simp [encode11, Cov.encode_eq gs h]
  · have hw : bytesToWords (wordsToBytes [1, 6, delta] ++ wordsToBytes (Cov.encodeW gs)) =
        [1, 6, delta] ++ Cov.encodeW gs := by
      rw [bytesToWords_append _ (by intro w hw; simp at hw; rcases hw with rfl | rfl | rfl <;> omega),
        bytesToWords_wordsToBytes _ (Cov.encodeW_lt gs h)]
    have hdrop : (wordsToBytes [1, 6, delta] ++ wordsToBytes (Cov.encodeW gs)).drop 6 =
        wordsToBytes (Cov.encodeW gs) := drop_wordsToBytes_append [1, 6, delta] _
    have hrs : Cov.readSet (wordsToBytes (Cov.encodeW gs)) = .ok gs := by
      unfold Cov.readSet
      rw [bytesToWords_wordsToBytes _ (Cov.encodeW_lt gs h)]
      exact Cov.readSetW_encodeW gs h
    simp only [readSubtable, hw, List.cons_append, List.nil_append, read11, hdrop, hrs]
    simp
  · simp only [encodeLen11, Cov.encodeLen_eq gs h, List.length_append, length_wordsToBytes,
      ← Cov.encodeW_length gs h, List.length_cons, List.length_nil]

/-! ### GSUB 1.2 -/

theorem prune_same {α} (cov : List (Nat × Nat)) (xs : List α) (h : xs.length = cov.length) :
    prune cov xs = (cov, xs) := by
  unfold prune
  rw [if_neg (by omega), ← h, List.take_length]

theorem roundtrip12 (rev subs : List Nat) (h : Cov.Valid rev) (hl : subs.length = rev.length)
    (hs : ∀ x ∈ subs, x < 65536) (hfit : 6 + 2 * subs.length ≤ 0xFFFF) :
    ∃ b, encode12 rev subs = .ok b ∧ readSubtable 1 b = .ok (.s12 rev.zipIdx subs) ∧
      encodeLen12 rev subs = .ok b.length := by
  refine ⟨wordsToBytes (2 :: (6 + 2 * subs.length) :: subs.length :: subs) ++
    wordsToBytes (Cov.encodeW rev), ?_, ?_, ?_⟩
  · simp only [encode12]
    rw [if_neg (by omega), Cov.encode_eq rev h, w16_of_lt (by omega), w16_of_lt (by omega)]
    rfl
  · have hlt : ∀ w ∈ 2 :: (6 + 2 * subs.length) :: subs.length :: subs, w < 65536 := by
      intro w hw
      simp only [List.mem_cons] at hw
      rcases hw with rfl | rfl | rfl | hw
      · decide
      · omega
      · omega
      · exact hs w hw
    have hw : bytesToWords (wordsToBytes (2 :: (6 + 2 * subs.length) :: subs.length :: subs) ++
        wordsToBytes (Cov.encodeW rev)) =
        2 :: (6 + 2 * subs.length) :: subs.length :: (subs ++ Cov.encodeW rev) := by
      rw [bytesToWords_append _ hlt, bytesToWords_wordsToBytes _ (Cov.encodeW_lt rev h)]
      rfl
    have hdrop : (wordsToBytes (2 :: (6 + 2 * subs.length) :: subs.length :: subs) ++
        wordsToBytes (Cov.encodeW rev)).drop (6 + 2 * subs.length) = wordsToBytes (Cov.encodeW rev) := by
      have e : 6 + 2 * subs.length = 2 * (2 :: (6 + 2 * subs.length) :: subs.length :: subs).length := by
        simp only [List.length_cons]; omega
      rw [e]
      exact drop_wordsToBytes_append _ _
    have hrd : Cov.read (wordsToBytes (Cov.encodeW rev)) = .ok rev.zipIdx := by
      unfold Cov.read
      rw [bytesToWords_wordsToBytes _ (Cov.encodeW_lt rev h)]
      exact (Cov.readW_encodeW rev h).1
    have hlen : ¬ (subs ++ Cov.encodeW rev).length < subs.length := by simp
    simp only [readSubtable, hw, read12, hdrop, hrd, hlen, if_false, List.take_left]
    rw [prune_same _ _ (by simp [hl])]
    simp
  · simp only [encodeLen12, Cov.encodeLen_eq rev h, List.length_append, length_wordsToBytes,
      ← Cov.encodeW_length rev h, List.length_cons]
    congr 1
    omega

theorem refusal12 (rev subs : List Nat) (h : 6 + 2 * subs.length > 0xFFFF) :
    ∃ s, encode12 rev subs = .panic s := by
  simp only [encode12]
  rw [if_pos h]
  exact ⟨_, rfl⟩

/-! ### GSUB 2.1 / 3.1 -/

theorem seqOffsets_length : ∀ (seqs : List (List Nat)) (off : Nat), (seqOffsets seqs off).length = seqs.length
  | [], _ => rfl
  | _ :: rs, off => by simp [seqOffsets, seqOffsets_length rs]

theorem seqOffsets_lt : ∀ (seqs : List (List Nat)) (off : Nat), ∀ w ∈ seqOffsets seqs off, w < 65536
  | [], _, w, hw => by simp [seqOffsets] at hw
  | _ :: rs, off, w, hw => by
    simp only [seqOffsets, List.mem_cons] at hw
    rcases hw with rfl | hw
    · exact w16_lt _
    · exact seqOffsets_lt rs _ w hw

theorem seqWords_cons (r : List Nat) (rs : List (List Nat)) :
    seqWords (r :: rs) = w16 r.length :: (r ++ seqWords rs) := by
  simp [seqWords]

theorem seqWords_lt (seqs : List (List Nat)) (h : ∀ r ∈ seqs, ∀ x ∈ r, x < 65536) :
    ∀ w ∈ seqWords seqs, w < 65536 := by
  induction seqs with
  | nil => intro w hw; simp [seqWords] at hw
  | cons r rs ih =>
    intro w hw
    rw [seqWords_cons] at hw
    simp only [List.mem_cons, List.mem_append] at hw
    rcases hw with rfl | hw | hw
    · exact w16_lt _
    · exact h r (by simp) w hw
    · exact ih (fun r' hr' => h r' (by simp [hr'])) w hw

/-- the sequence reader finds every sequence at the offset the encoder wrote for it -/
theorem readSeqs_spec (c : Bytes) : ∀ (seqs : List (List Nat)) (P T : List Nat),
    (∀ w ∈ P, w < 65536) → (∀ w ∈ T, w < 65536) → (∀ r ∈ seqs, ∀ x ∈ r, x < 65536) →
    2 * P.length + 2 * (seqWords seqs).length < 65536 →
    readSeqs (wordsToBytes (P ++ (seqWords seqs ++ T)) ++ c) (seqOffsets seqs (2 * P.length)) = .ok seqs
  | [], _, _, _, _, _, _ => rfl
  | r :: rs, P, T, hP, hT, hS, hfit => by
    rw [seqWords_cons] at hfit
    simp only [List.length_cons, List.length_append] at hfit
    have hr : r.length < 65536 := by omega
    simp only [seqOffsets, readSeqs]
    rw [w16_of_lt (by omega)]
    -- the counted array at the offset
    have hrc : readCounted (wordsToBytes (P ++ (seqWords (r :: rs) ++ T)) ++ c) (2 * P.length) = .ok r := by
      unfold readCounted
      rw [drop_wordsToBytes_append']
      have hlt : ∀ w ∈ seqWords (r :: rs) ++ T, w < 65536 := by
        intro w hw
        rw [List.mem_append] at hw
        rcases hw with hw | hw
        · exact seqWords_lt _ hS w hw
        · exact hT w hw
      rw [bytesToWords_append _ hlt, seqWords_cons, w16_of_lt hr]
      simp only [List.cons_append, List.append_assoc]
      rw [if_neg (by simp), List.take_left]
    rw [hrc]
    -- the remaining sequences: the prefix grows by this one
    have ih := readSeqs_spec c rs (P ++ (r.length :: r)) T
      (by intro w hw
          simp only [List.mem_append, List.mem_cons] at hw
          rcases hw with hw | rfl | hw
          · exact hP w hw
          · exact hr
          · exact hS r (by simp) w hw)
      hT (fun r' hr' => hS r' (by simp [hr']))
      (by simp only [List.length_append, List.length_cons]; omega)
    have e1 : P ++ (seqWords (r :: rs) ++ T) = (P ++ (r.length :: r)) ++ (seqWords rs ++ T) := by
      rw [seqWords_cons, w16_of_lt hr]; simp
    have e2 : 2 * P.length + 2 + 2 * r.length = 2 * (P ++ (r.length :: r)).length := by
      simp only [List.length_append, List.length_cons]; omega
    rw [e1, e2, ih]

theorem seqTotal_eq (seqs : List (List Nat)) :
    seqTotal seqs = 2 * (1 :: seqTotal seqs :: seqs.length ::
      (seqOffsets seqs (6 + 2 * seqs.length) ++ seqWords seqs)).length := by
  simp only [seqTotal, List.length_cons, List.length_append, seqOffsets_length]
  omega

theorem roundtripSeq (tp : Nat) (htp : tp = 2 ∨ tp = 3) (rev : List Nat) (seqs : List (List Nat))
    (h : Cov.Valid rev) (hl : seqs.length = rev.length) (hs : ∀ r ∈ seqs, ∀ x ∈ r, x < 65536)
    (hfit : seqTotal seqs ≤ 0xFFFF) :
    ∃ b, encodeSeq rev seqs = .ok b ∧ readSubtable tp b = .ok (.seq tp rev.zipIdx seqs) ∧
      encodeLenSeq rev seqs = .ok b.length := by
  have hfit' := hfit
  simp only [seqTotal] at hfit'
  refine ⟨wordsToBytes (1 :: seqTotal seqs :: seqs.length ::
    (seqOffsets seqs (6 + 2 * seqs.length) ++ seqWords seqs)) ++ wordsToBytes (Cov.encodeW rev), ?_, ?_, ?_⟩
  · simp only [encodeSeq]
    rw [if_neg (by omega), Cov.encode_eq rev h, w16_of_lt (by omega), w16_of_lt (by omega)]
    rfl
  · have hlt : ∀ w ∈ 1 :: seqTotal seqs :: seqs.length ::
        (seqOffsets seqs (6 + 2 * seqs.length) ++ seqWords seqs), w < 65536 := by
      intro w hw
      simp only [List.mem_cons, List.mem_append] at hw
      rcases hw with rfl | rfl | rfl | hw | hw
      · decide
      · omega
      · omega
      · exact seqOffsets_lt _ _ w hw
      · exact seqWords_lt _ hs w hw
    have hw : bytesToWords (wordsToBytes (1 :: seqTotal seqs :: seqs.length ::
        (seqOffsets seqs (6 + 2 * seqs.length) ++ seqWords seqs)) ++ wordsToBytes (Cov.encodeW rev)) =
        1 :: seqTotal seqs :: seqs.length ::
          (seqOffsets seqs (6 + 2 * seqs.length) ++ seqWords seqs ++ Cov.encodeW rev) := by
      rw [bytesToWords_append _ hlt, bytesToWords_wordsToBytes _ (Cov.encodeW_lt rev h)]
      simp
    have hdrop : (wordsToBytes (1 :: seqTotal seqs :: seqs.length ::
        (seqOffsets seqs (6 + 2 * seqs.length) ++ seqWords seqs)) ++
        wordsToBytes (Cov.encodeW rev)).drop (seqTotal seqs) = wordsToBytes (Cov.encodeW rev) := by
      have e := seqTotal_eq seqs
      generalize seqTotal seqs = t at e ⊢
      rw [e]
      exact drop_wordsToBytes_append _ _
    have hrd : Cov.read (wordsToBytes (Cov.encodeW rev)) = .ok rev.zipIdx := by
      unfold Cov.read
      rw [bytesToWords_wordsToBytes _ (Cov.encodeW_lt rev h)]
      exact (Cov.readW_encodeW rev h).1
    have hlen : ¬ (seqOffsets seqs (6 + 2 * seqs.length) ++ seqWords seqs ++ Cov.encodeW rev).length
        < seqs.length := by simp [seqOffsets_length]
    have htake : (seqOffsets seqs (6 + 2 * seqs.length) ++ seqWords seqs ++ Cov.encodeW rev).take seqs.length
        = seqOffsets seqs (6 + 2 * seqs.length) := by
      rw [List.append_assoc]
      have := seqOffsets_length seqs (6 + 2 * seqs.length)
      generalize seqOffsets seqs (6 + 2 * seqs.length) = offs at this ⊢
      rw [← this]
      exact List.take_left
    have hseqs := readSeqs_spec (wordsToBytes (Cov.encodeW rev)) seqs
      (1 :: seqTotal seqs :: seqs.length :: seqOffsets seqs (6 + 2 * seqs.length)) []
      (by intro w hw
          simp only [List.mem_cons] at hw
          rcases hw with rfl | rfl | rfl | hw
          · decide
          · omega
          · omega
          · exact seqOffsets_lt _ _ w hw)
      (by simp) hs
      (by simp only [List.length_cons, seqOffsets_length]; omega)
    have e3 : 2 * (1 :: seqTotal seqs :: seqs.length :: seqOffsets seqs (6 + 2 * seqs.length)).length
        = 6 + 2 * seqs.length := by
      simp only [List.length_cons, seqOffsets_length]; omega
    rw [e3] at hseqs
    simp only [List.append_nil, List.cons_append] at hseqs
    have hfmt : ((tp == 1) && true) = false := by rcases htp with rfl | rfl <;> rfl
    have hfmt2 : ((tp == 2 || tp == 3) && true) = true := by rcases htp with rfl | rfl <;> rfl
    simp only [readSubtable, hw, readSeq, hdrop, hrd, hlen, if_false, htake]
    rw [prune_same _ _ (by simp [hl, seqOffsets_length])]
    simp only [hseqs]
    rcases htp with rfl | rfl <;> simp
  · simp only [encodeLenSeq, Cov.encodeLen_eq rev h, List.length_append, length_wordsToBytes,
      ← Cov.encodeW_length rev h]
    have := seqTotal_eq seqs
    congr 1
    omega

theorem refusalSeq (rev : List Nat) (seqs : List (List Nat)) (h : seqTotal seqs > 0xFFFF) :
    ∃ s, encodeSeq rev seqs = .panic s := by
  simp only [encodeSeq]
  rw [if_pos h]
  exact ⟨_, rfl⟩

/-! ### GSUB 4.1 -/

theorem ligOffsets_length : ∀ (ls : List Lig) (pos : Nat), (ligOffsets ls pos).length = ls.length
  | [], _ => rfl
  | _ :: ls, pos => by simp [ligOffsets, ligOffsets_length ls]

theorem ligOffsets_lt : ∀ (ls : List Lig) (pos : Nat), ∀ w ∈ ligOffsets ls pos, w < 65536
  | [], _, w, hw => by simp [ligOffsets] at hw
  | _ :: ls, pos, w, hw => by
    simp only [ligOffsets, List.mem_cons] at hw
    rcases hw with rfl | hw
    · exact w16_lt _
    · exact ligOffsets_lt ls _ w hw

theorem ligSetOffsets_length : ∀ (ss : List (List Lig)) (t : Nat), (ligSetOffsets ss t).length = ss.length
  | [], _ => rfl
  | _ :: ss, t => by simp [ligSetOffsets, ligSetOffsets_length ss]

theorem ligSetOffsets_lt : ∀ (ss : List (List Lig)) (t : Nat), ∀ w ∈ ligSetOffsets ss t, w < 65536
  | [], _, w, hw => by simp [ligSetOffsets] at hw
  | _ :: ss, t, w, hw => by
    simp only [ligSetOffsets, List.mem_cons] at hw
    rcases hw with rfl | hw
    · exact w16_lt _
    · exact ligSetOffsets_lt ss _ w hw

/-- glyph ids of a ligature are 16-bit values -/
def LigOk (l : Lig) : Prop := l.out < 65536 ∧ ∀ x ∈ l.inp, x < 65536

theorem ligWords_lt (l : Lig) (h : LigOk l) : ∀ w ∈ ligWords l, w < 65536 := by
  intro w hw
  simp only [ligWords, List.mem_cons] at hw
  rcases hw with rfl | rfl | hw
  · exact h.1
  · exact w16_lt _
  · exact h.2 w hw

theorem flatMap_ligWords_lt (ls : List Lig) (h : ∀ l ∈ ls, LigOk l) : ∀ w ∈ ls.flatMap ligWords, w < 65536 := by
  intro w hw
  rw [List.mem_flatMap] at hw
  obtain ⟨l, hl, hw⟩ := hw
  exact ligWords_lt l (h l hl) w hw

theorem ligSetWords_lt (s : List Lig) (h : ∀ l ∈ s, LigOk l) : ∀ w ∈ ligSetWords s, w < 65536 := by
  intro w hw
  simp only [ligSetWords, List.mem_cons, List.mem_append] at hw
  rcases hw with rfl | hw | hw
  · exact w16_lt _
  · exact ligOffsets_lt _ _ w hw
  · exact flatMap_ligWords_lt s h w hw

theorem flatMap_ligWords_length : ∀ (ls : List Lig),
    2 * (ls.flatMap ligWords).length = (ls.map fun l => 4 + 2 * l.inp.length).sum
  | [] => rfl
  | l :: ls => by
    simp only [List.flatMap_cons, List.length_append, ligWords, List.length_cons, List.map_cons, List.sum_cons]
    have := flatMap_ligWords_length ls
    omega

theorem ligSetWords_length (s : List Lig) : 2 * (ligSetWords s).length = ligSetLen s := by
  simp only [ligSetWords, List.length_cons, List.length_append, ligOffsets_length, ligSetLen]
  have := flatMap_ligWords_length s
  omega

/-- the ligatures of one set are found at their offsets from the start of the set -/
theorem readLigs_spec (c : Bytes) (setPos : Nat) : ∀ (ls : List Lig) (Q T : List Nat) (pos0 : Nat),
    (∀ w ∈ Q, w < 65536) → (∀ w ∈ T, w < 65536) → (∀ l ∈ ls, LigOk l) →
    setPos + pos0 = 2 * Q.length → pos0 + 2 * (ls.flatMap ligWords).length < 65536 →
    readLigs (wordsToBytes (Q ++ (ls.flatMap ligWords ++ T)) ++ c) setPos (ligOffsets ls pos0) = .ok ls
  | [], _, _, _, _, _, _, _, _ => rfl
  | l :: ls, Q, T, pos0, hQ, hT, hL, hpos, hfit => by
    simp only [List.flatMap_cons, List.length_append, ligWords, List.length_cons] at hfit
    simp only [ligOffsets, readLigs]
    rw [w16_of_lt (by omega)]
    have hrl : readLig (wordsToBytes (Q ++ ((l :: ls).flatMap ligWords ++ T)) ++ c) (setPos + pos0) = .ok l := by
      unfold readLig
      rw [hpos, drop_wordsToBytes_append']
      have hlt : ∀ w ∈ (l :: ls).flatMap ligWords ++ T, w < 65536 := by
        intro w hw
        rw [List.mem_append] at hw
        rcases hw with hw | hw
        · exact flatMap_ligWords_lt _ hL w hw
        · exact hT w hw
      rw [bytesToWords_append _ hlt]
      simp only [List.flatMap_cons, ligWords, List.cons_append, List.append_assoc]
      rw [w16_of_lt (by omega)]
      rw [if_neg (by simp)]
      have e : l.inp.length + 1 - 1 = l.inp.length := by omega
      rw [e, if_neg (by simp), List.take_left]
    rw [hrl]
    have ih := readLigs_spec c setPos ls (Q ++ ligWords l) T (pos0 + 4 + 2 * l.inp.length)
      (by intro w hw
          rw [List.mem_append] at hw
          rcases hw with hw | hw
          · exact hQ w hw
          · exact ligWords_lt l (hL l (by simp)) w hw)
      hT (fun l' hl' => hL l' (by simp [hl']))
      (by simp only [List.length_append, ligWords, List.length_cons]; omega)
      (by omega)
    have e1 : Q ++ ((l :: ls).flatMap ligWords ++ T) = (Q ++ ligWords l) ++ (ls.flatMap ligWords ++ T) := by
      simp
    rw [e1, ih]

/-- every ligature set is found at the offset the encoder wrote for it -/
theorem readLigSets_spec (c : Bytes) : ∀ (sets : List (List Lig)) (P T : List Nat),
    (∀ w ∈ P, w < 65536) → (∀ w ∈ T, w < 65536) → (∀ s ∈ sets, ∀ l ∈ s, LigOk l) →
    2 * P.length + (sets.map ligSetLen).sum < 65536 →
    readLigSets (wordsToBytes (P ++ (sets.flatMap ligSetWords ++ T)) ++ c)
      (ligSetOffsets sets (2 * P.length)) = .ok sets
  | [], _, _, _, _, _, _ => rfl
  | s :: ss, P, T, hP, hT, hS, hfit => by
    simp only [List.map_cons, List.sum_cons] at hfit
    have hlen := ligSetWords_length s
    have hsl : s.length < 65536 := by simp only [ligSetLen] at hfit hlen ⊢; omega
    have hlt : ∀ w ∈ (s :: ss).flatMap ligSetWords ++ T, w < 65536 := by
      intro w hw
      rw [List.mem_append, List.mem_flatMap] at hw
      rcases hw with ⟨s', hs', hw⟩ | hw
      · exact ligSetWords_lt s' (hS s' hs') w hw
      · exact hT w hw
    -- the words at the offset of this set
    have hwords : bytesToWords ((wordsToBytes (P ++ ((s :: ss).flatMap ligSetWords ++ T)) ++ c).drop
        (2 * P.length)) = s.length :: (ligOffsets s (2 + 2 * s.length) ++ (s.flatMap ligWords ++
          (ss.flatMap ligSetWords ++ (T ++ bytesToWords c)))) := by
      rw [drop_wordsToBytes_append', bytesToWords_append _ hlt]
      simp [ligSetWords, w16_of_lt hsl]
    have htake : (ligOffsets s (2 + 2 * s.length) ++ (s.flatMap ligWords ++
        (ss.flatMap ligSetWords ++ (T ++ bytesToWords c)))).take s.length =
        ligOffsets s (2 + 2 * s.length) := by
      have := ligOffsets_length s (2 + 2 * s.length)
      generalize ligOffsets s (2 + 2 * s.length) = lo at this ⊢
      rw [← this]; exact List.take_left
    -- the ligatures of this set
    have hls := readLigs_spec c (2 * P.length) s (P ++ (s.length :: ligOffsets s (2 + 2 * s.length)))
      (ss.flatMap ligSetWords ++ T) (2 + 2 * s.length)
      (by intro w hw
          simp only [List.mem_append, List.mem_cons] at hw
          rcases hw with hw | rfl | hw
          · exact hP w hw
          · exact hsl
          · exact ligOffsets_lt _ _ w hw)
      (by intro w hw
          rw [List.mem_append, List.mem_flatMap] at hw
          rcases hw with ⟨s', hs', hw⟩ | hw
          · exact ligSetWords_lt s' (hS s' (by simp [hs'])) w hw
          · exact hT w hw)
      (hS s (by simp))
      (by simp only [List.length_append, List.length_cons, ligOffsets_length]; omega)
      (by have := flatMap_ligWords_length s
          simp only [ligSetLen] at hfit
          omega)
    have e1 : (P ++ (s.length :: ligOffsets s (2 + 2 * s.length))) ++
          (s.flatMap ligWords ++ (ss.flatMap ligSetWords ++ T)) =
        P ++ ((s :: ss).flatMap ligSetWords ++ T) := by
      simp [ligSetWords, w16_of_lt hsl]
    rw [e1] at hls
    -- the remaining sets
    have ih := readLigSets_spec c ss (P ++ ligSetWords s) T
      (by intro w hw
          rw [List.mem_append] at hw
          rcases hw with hw | hw
          · exact hP w hw
          · exact ligSetWords_lt s (hS s (by simp)) w hw)
      hT (fun s' hs' => hS s' (by simp [hs']))
      (by simp only [List.length_append]; omega)
    have e2 : (P ++ ligSetWords s) ++ (ss.flatMap ligSetWords ++ T) =
        P ++ ((s :: ss).flatMap ligSetWords ++ T) := by
      simp
    have e3 : 2 * (P ++ ligSetWords s).length = 2 * P.length + ligSetLen s := by
      simp only [List.length_append]; omega
    rw [e2, e3] at ih
    generalize wordsToBytes (P ++ ((s :: ss).flatMap ligSetWords ++ T)) ++ c = b at hwords hls ih ⊢
    simp only [ligSetOffsets, readLigSets]
    rw [w16_of_lt (by omega), hwords]
    simp only
    rw [if_neg (by simp [ligOffsets_length]), htake, hls, ih]

theorem flatMap_ligSetWords_length : ∀ (ss : List (List Lig)),
    2 * (ss.flatMap ligSetWords).length = (ss.map ligSetLen).sum
  | [] => rfl
  | s :: ss => by
    simp only [List.flatMap_cons, List.length_append, List.map_cons, List.sum_cons]
    have := flatMap_ligSetWords_length ss
    have := ligSetWords_length s
    omega

theorem lig41Total_eq (repl : List (List Lig)) :
    lig41Total repl = 2 * (1 :: lig41Total repl :: repl.length ::
      (ligSetOffsets repl (6 + 2 * repl.length) ++ repl.flatMap ligSetWords)).length := by
  have := flatMap_ligSetWords_length repl
  simp only [lig41Total, List.length_cons, List.length_append, ligSetOffsets_length]
  omega

theorem roundtrip41 (rev : List Nat) (repl : List (List Lig)) (h : Cov.Valid rev)
    (hl : repl.length = rev.length) (hs : ∀ s ∈ repl, ∀ l ∈ s, LigOk l)
    (hfit : lig41Total repl ≤ 0xFFFF) :
    ∃ b, encode41 rev repl = .ok b ∧ readSubtable 4 b = .ok (.s41 rev.zipIdx repl) ∧
      encodeLen41 rev repl = .ok b.length := by
  have hfit' := hfit
  simp only [lig41Total] at hfit'
  have hS := flatMap_ligSetWords_length repl
  refine ⟨wordsToBytes (1 :: lig41Total repl :: repl.length ::
    (ligSetOffsets repl (6 + 2 * repl.length) ++ repl.flatMap ligSetWords)) ++
    wordsToBytes (Cov.encodeW rev), ?_, ?_, ?_⟩
  · simp only [encode41, Cov.encodeLen_eq rev h, Cov.encode_eq rev h]
    rw [if_neg (by omega), w16_of_lt (by omega), w16_of_lt (by omega)]
    rfl
  · have hlt : ∀ w ∈ 1 :: lig41Total repl :: repl.length ::
        (ligSetOffsets repl (6 + 2 * repl.length) ++ repl.flatMap ligSetWords), w < 65536 := by
      intro w hw
      simp only [List.mem_cons, List.mem_append, List.mem_flatMap] at hw
      rcases hw with rfl | rfl | rfl | hw | ⟨s, hs', hw⟩
      · decide
      · omega
      · omega
      · exact ligSetOffsets_lt _ _ w hw
      · exact ligSetWords_lt s (hs s hs') w hw
    have hw : bytesToWords (wordsToBytes (1 :: lig41Total repl :: repl.length ::
        (ligSetOffsets repl (6 + 2 * repl.length) ++ repl.flatMap ligSetWords)) ++
        wordsToBytes (Cov.encodeW rev)) =
        1 :: lig41Total repl :: repl.length ::
          (ligSetOffsets repl (6 + 2 * repl.length) ++ repl.flatMap ligSetWords ++ Cov.encodeW rev) := by
      rw [bytesToWords_append _ hlt, bytesToWords_wordsToBytes _ (Cov.encodeW_lt rev h)]
      simp
    have hdrop : (wordsToBytes (1 :: lig41Total repl :: repl.length ::
        (ligSetOffsets repl (6 + 2 * repl.length) ++ repl.flatMap ligSetWords)) ++
        wordsToBytes (Cov.encodeW rev)).drop (lig41Total repl) = wordsToBytes (Cov.encodeW rev) := by
      have e := lig41Total_eq repl
      generalize lig41Total repl = t at e ⊢
      rw [e]
      exact drop_wordsToBytes_append _ _
    have hrd : Cov.read (wordsToBytes (Cov.encodeW rev)) = .ok rev.zipIdx := by
      unfold Cov.read
      rw [bytesToWords_wordsToBytes _ (Cov.encodeW_lt rev h)]
      exact (Cov.readW_encodeW rev h).1
    have hlen : ¬ (ligSetOffsets repl (6 + 2 * repl.length) ++ repl.flatMap ligSetWords ++
        Cov.encodeW rev).length < repl.length := by simp [ligSetOffsets_length]
    have htake : (ligSetOffsets repl (6 + 2 * repl.length) ++ repl.flatMap ligSetWords ++
        Cov.encodeW rev).take repl.length = ligSetOffsets repl (6 + 2 * repl.length) := by
      rw [List.append_assoc]
      have := ligSetOffsets_length repl (6 + 2 * repl.length)
      generalize ligSetOffsets repl (6 + 2 * repl.length) = offs at this ⊢
      rw [← this]
      exact List.take_left
    have hsets := readLigSets_spec (wordsToBytes (Cov.encodeW rev)) repl
      (1 :: lig41Total repl :: repl.length :: ligSetOffsets repl (6 + 2 * repl.length)) []
      (by intro w hw
          simp only [List.mem_cons] at hw
          rcases hw with rfl | rfl | rfl | hw
          · decide
          · omega
          · omega
          · exact ligSetOffsets_lt _ _ w hw)
      (by simp) hs
      (by simp only [List.length_cons, ligSetOffsets_length]; omega)
    have e3 : 2 * (1 :: lig41Total repl :: repl.length :: ligSetOffsets repl (6 + 2 * repl.length)).length
        = 6 + 2 * repl.length := by
      simp only [List.length_cons, ligSetOffsets_length]; omega
    rw [e3] at hsets
    simp only [List.append_nil, List.cons_append] at hsets
    simp only [readSubtable, hw, read41, hdrop, hrd, hlen, if_false, htake]
    rw [prune_same _ _ (by simp [hl, ligSetOffsets_length])]
    have hnot : ¬ lig41Total repl > 65535 := by omega
    simp [hsets, hnot]
  · simp only [encodeLen41, Cov.encodeLen_eq rev h, List.length_append, length_wordsToBytes,
      ← Cov.encodeW_length rev h]
    have := lig41Total_eq repl
    congr 1
    omega

theorem refusal41 (rev : List Nat) (repl : List (List Lig)) (h : Cov.Valid rev)
    (hbig : lig41Total repl > 0xFFFF) : ∃ s, encode41 rev repl = .panic s := by
  simp only [encode41, Cov.encodeLen_eq rev h]
  rw [if_pos hbig]
  exact ⟨_, rfl⟩

end Gsub
end SfntV.Otl
