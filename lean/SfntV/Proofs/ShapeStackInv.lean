/-
The stack repair functions keep every entry of the stack of nested actions well-formed
(C07, full no-panic theorem): `fixStackInsert` and `fixStackMerge` (as repaired for §9 #33)
preserve  0 ≤ InputPos[i] < EndPos ≤ len(seq),  InputPos sorted.
-/
import SfntV.Proofs.ShapeSafeNested

namespace SfntV.Shape
open SfntV

/-- invariant of one stack entry for a sequence of length `n` -/
structure EntryInv (n : Nat) (e : Nested) : Prop where
  lo : ∀ p ∈ e.inputPos, 0 ≤ p
  hi : ∀ p ∈ e.inputPos, p < e.endPos
  sorted : e.inputPos.Pairwise (· ≤ ·)
  endLo : 0 ≤ e.endPos
  endHi : e.endPos ≤ (n : Int)

/-! ## fixStackInsert -/

theorem insAfterLast_none (pos : Int) (new : List Int) : ∀ l, insAfterLast pos new l = none → pos ∉ l := by
  intro l
  induction l with
  | nil => intro _ h; cases h
  | cons p ps ih =>
    intro h hmem
    simp only [insAfterLast] at h
    split at h
    · cases h
    · rename_i hnone
      split at h
      · cases h
      · rename_i hne
        rcases List.mem_cons.mp hmem with h1 | h1
        · subst h1; simp at hne
        · exact ih hnone h1

theorem insAfterLast_decomp (pos : Int) (new : List Int) : ∀ l r, insAfterLast pos new l = some r →
    ∃ pre post, l = pre ++ pos :: post ∧ pos ∉ post ∧ r = pre ++ pos :: (new ++ post) := by
  intro l
  induction l with
  | nil => intro r h; simp [insAfterLast] at h
  | cons p ps ih =>
    intro r h
    simp only [insAfterLast] at h
    split at h
    · rename_i r' hr'
      injection h with h; subst h
      obtain ⟨pre, post, h1, h2, h3⟩ := ih r' hr'
      exact ⟨p :: pre, post, by rw [h1]; rfl, h2, by rw [h3]; rfl⟩
    · rename_i hnone
      split at h
      · rename_i heq
        injection h with h; subst h
        have : p = pos := by simpa using heq
        subst this
        exact ⟨[], ps, rfl, insAfterLast_none _ _ _ hnone, rfl⟩
      · cases h

theorem newPositions_mem (a : Int) (k : Nat) : ∀ x ∈ newPositions a k, a < x ∧ x ≤ a + ((k - 1 : Nat) : Int) := by
  intro x hx
  unfold newPositions at hx
  obtain ⟨j, hj, rfl⟩ := List.mem_map.mp hx
  have := List.mem_range.mp hj
  constructor <;> omega

theorem newPositions_sorted (a : Int) (k : Nat) : (newPositions a k).Pairwise (· ≤ ·) := by
  unfold newPositions
  refine List.Pairwise.map _ ?_ (List.pairwise_lt_range)
  intro x y hxy
  omega

theorem fixInsertOne_inv (n k : Nat) (a : Int) (e : Nested) (h : EntryInv n e) (ha0 : 0 ≤ a) (ha : a < e.endPos) :
    EntryInv (n + (k - 1)) (fixInsertOne a k e) ∧ (fixInsertOne a k e).endPos = e.endPos + ((k - 1 : Nat) : Int) := by
  unfold fixInsertOne
  have hnot : ¬ e.endPos ≤ a := by omega
  simp only [hnot, if_false]
  refine ⟨?_, trivial⟩
  -- the shifted positions
  have hshift_sorted : (e.inputPos.map (fun p => if p > a then p + ((k - 1 : Nat) : Int) else p)).Pairwise (· ≤ ·) := by
    refine List.Pairwise.map _ ?_ h.sorted
    intro x y hxy
    split <;> split <;> omega
  have hshift_mem : ∀ y ∈ e.inputPos.map (fun p => if p > a then p + ((k - 1 : Nat) : Int) else p),
      0 ≤ y ∧ y < e.endPos + ((k - 1 : Nat) : Int) ∧ (a < y → a + ((k - 1 : Nat) : Int) < y) := by
    intro y hy
    obtain ⟨q, hq, rfl⟩ := List.mem_map.mp hy
    have h1 := h.lo q hq
    have h2 := h.hi q hq
    split <;> refine ⟨by omega, by omega, fun _ => by omega⟩
  cases hins : insAfterLast a (newPositions a k) (e.inputPos.map (fun p => if p > a then p + ((k - 1 : Nat) : Int) else p)) with
  | none =>
    simp only [Option.getD]
    exact ⟨fun p hp => (hshift_mem p hp).1, fun p hp => (hshift_mem p hp).2.1, hshift_sorted,
      by have := h.endLo; dsimp only; omega, by have := h.endHi; dsimp only; omega⟩
  | some r =>
    simp only [Option.getD]
    obtain ⟨pre, post, h1, h2, h3⟩ := insAfterLast_decomp _ _ _ _ hins
    rw [h1] at hshift_sorted hshift_mem
    subst h3
    have hs := List.pairwise_append.mp hshift_sorted
    have hs2 := List.pairwise_cons.mp hs.2.1
    have hpost_gt : ∀ y ∈ post, a + ((k - 1 : Nat) : Int) < y := by
      intro y hy
      have hge : a ≤ y := hs2.1 y hy
      have hne : y ≠ a := fun heq => h2 (heq ▸ hy)
      exact (hshift_mem y (List.mem_append_right _ (List.mem_cons_of_mem _ hy))).2.2 (by omega)
    refine ⟨?_, ?_, ?_, by have := h.endLo; dsimp only; omega, by have := h.endHi; dsimp only; omega⟩
    · intro p hp
      rcases List.mem_append.mp hp with hp | hp
      · exact (hshift_mem p (List.mem_append_left _ hp)).1
      · rcases List.mem_cons.mp hp with hp | hp
        · subst hp; exact ha0
        · rcases List.mem_append.mp hp with hp | hp
          · have := newPositions_mem a k p hp; omega
          · exact (hshift_mem p (List.mem_append_right _ (List.mem_cons_of_mem _ hp))).1
    · intro p hp
      dsimp only at hp ⊢
      rcases List.mem_append.mp hp with hp | hp
      · exact (hshift_mem p (List.mem_append_left _ hp)).2.1
      · rcases List.mem_cons.mp hp with hp | hp
        · subst hp; omega
        · rcases List.mem_append.mp hp with hp | hp
          · have := newPositions_mem a k p hp; omega
          · exact (hshift_mem p (List.mem_append_right _ (List.mem_cons_of_mem _ hp))).2.1
    · refine List.pairwise_append.mpr ⟨hs.1, ?_, ?_⟩
      · refine List.pairwise_cons.mpr ⟨?_, ?_⟩
        · intro y hy
          rcases List.mem_append.mp hy with hy | hy
          · have := newPositions_mem a k y hy; omega
          · have := hpost_gt y hy; omega
        · refine List.pairwise_append.mpr ⟨newPositions_sorted a k, hs2.2, ?_⟩
          intro x hx y hy
          have := newPositions_mem a k x hx
          have := hpost_gt y hy
          omega
      · intro x hx y hy
        have hxa : x ≤ a := hs.2.2 x hx a List.mem_cons_self
        rcases List.mem_cons.mp hy with hy | hy
        · subst hy; exact hxa
        · rcases List.mem_append.mp hy with hy | hy
          · have := newPositions_mem a k y hy; omega
          · have := hpost_gt y hy; omega

/-! ## the two-pointer walk of fixStackMerge -/

/-- merged positions that count towards `delta`: all but the first one -/
def nonFirst (first : Bool) (ps : List Int) : List Int := if first then ps.tail else ps

/-- a strictly increasing list of integers inside an open interval is short -/
theorem sinc_length (L : List Int) (lo hi : Int) (hs : L.Pairwise (· < ·)) (hb : ∀ x ∈ L, lo < x ∧ x < hi) :
    (L.length : Int) ≤ hi - lo - 1 ∨ L = [] := by
  induction L generalizing lo with
  | nil => exact Or.inr rfl
  | cons x xs ih =>
    left
    have hx := hb x List.mem_cons_self
    have hs' := List.pairwise_cons.mp hs
    rcases ih x hs'.2 (fun y hy => ⟨hs'.1 y hy, (hb y (List.mem_cons_of_mem _ hy)).2⟩) with h | h
    · simp only [List.length_cons]; omega
    · subst h; simp only [List.length_cons, List.length_nil]; omega

theorem sinc_length' (L : List Int) (lo hi : Int) (hs : L.Pairwise (· < ·)) (hb : ∀ x ∈ L, lo < x ∧ x < hi)
    (hlt : lo < hi) : lo + (L.length : Int) < hi := by
  rcases sinc_length L lo hi hs hb with h | h
  · omega
  · subst h; simpa using hlt

theorem split_while (p : Int) : ∀ (inp : List Int),
    inp = inp.takeWhile (· < p) ++ inp.dropWhile (· < p) ∧ (∀ x ∈ inp.takeWhile (· < p), x < p) ∧
    (∀ q qs, inp.dropWhile (· < p) = q :: qs → ¬ q < p) := by
  intro inp
  induction inp with
  | nil => exact ⟨rfl, fun x hx => (by cases hx), fun q qs h => (by cases h)⟩
  | cons x xs ih =>
    by_cases hx : x < p
    · simp only [List.takeWhile_cons, List.dropWhile_cons, hx, decide_true, if_true]
      refine ⟨by rw [List.cons_append, ← ih.1], ?_, ih.2.2⟩
      intro y hy
      rcases List.mem_cons.mp hy with hy | hy
      · subst hy; exact hx
      · exact ih.2.1 y hy
    · simp only [List.takeWhile_cons, List.dropWhile_cons, hx, decide_false]
      refine ⟨rfl, fun y hy => (by cases hy), ?_⟩
      intro q qs h
      injection h with h1 h2; subst h1; exact hx

theorem nonFirst_sub (first : Bool) (p : Int) (ps : List Int) : ∀ x ∈ nonFirst first (p :: ps), x ∈ p :: ps := by
  intro x hx
  unfold nonFirst at hx
  split at hx
  · exact List.mem_cons_of_mem _ hx
  · exact hx

theorem nonFirst_sinc (first : Bool) (L : List Int) (h : L.Pairwise (· < ·)) : (nonFirst first L).Pairwise (· < ·) := by
  unfold nonFirst
  split
  · cases L with
    | nil => exact List.Pairwise.nil
    | cons x xs => exact (List.pairwise_cons.mp h).2
  · exact h

theorem mergeWalk_spec : ∀ (ps : List Int) (first : Bool) (inp : List Int) (d : Int),
    ps.Pairwise (· < ·) → inp.Pairwise (· ≤ ·) → 0 ≤ d → (first = true → d = 0) →
    ((mergeWalk ps first inp d).1).Pairwise (· ≤ ·) ∧
    (∀ y ∈ (mergeWalk ps first inp d).1, ∀ z, (∀ q ∈ inp, z ≤ q) → (∀ x ∈ nonFirst first ps, z < x) → z - d ≤ y) ∧
    (∀ y ∈ (mergeWalk ps first inp d).1, ∀ E, (∀ q ∈ inp, q < E) → (∀ x ∈ ps, x < E) →
        y < E - d - ((nonFirst first ps).length : Int)) := by
  intro ps
  induction ps with
  | nil =>
    intro first inp d _ hinp hd _
    have hnf : nonFirst first ([] : List Int) = [] := by unfold nonFirst; split <;> rfl
    simp only [mergeWalk, hnf, List.length_nil]
    refine ⟨?_, ?_, ?_⟩
    · exact List.Pairwise.map _ (fun a b hab => by omega) hinp
    · intro y hy z hz _
      obtain ⟨q, hq, rfl⟩ := List.mem_map.mp hy
      have := hz q hq; omega
    · intro y hy E hE _
      obtain ⟨q, hq, rfl⟩ := List.mem_map.mp hy
      have := hE q hq; simp; omega
  | cons p ps ih =>
    intro first inp d hps hinp hd hfd
    obtain ⟨hsplit, hlo, hrest⟩ := split_while p inp
    have hps' := List.pairwise_cons.mp hps
    simp only [mergeWalk]
    generalize hlo_def : inp.takeWhile (fun x => decide (x < p)) = lo at *
    generalize hrest_def : inp.dropWhile (fun x => decide (x < p)) = rest at *
    subst hsplit
    have hs := List.pairwise_append.mp hinp
    have hlo_sorted : (lo.map (· - d)).Pairwise (· ≤ ·) := List.Pairwise.map _ (fun a b hab => by omega) hs.1
    -- upper bound for the elements emitted from `lo`
    have hlo_hi : ∀ q0 ∈ lo, ∀ E, (∀ x ∈ p :: ps, x < E) → q0 - d < E - d - ((nonFirst first (p :: ps)).length : Int) := by
      intro q0 hq0 E hE
      have hq0p := hlo q0 hq0
      have := sinc_length' (nonFirst first (p :: ps)) q0 E (nonFirst_sinc first _ hps)
        (fun x hx => by
          have hx' := nonFirst_sub first p ps x hx
          refine ⟨?_, hE x hx'⟩
          rcases List.mem_cons.mp hx' with h | h
          · subst h; exact hq0p
          · have := hps'.1 x h; omega)
        (by have := hE p List.mem_cons_self; omega)
      omega
    cases rest with
    | nil =>
      simp only []
      refine ⟨hlo_sorted, ?_, ?_⟩
      · intro y hy z hz _
        obtain ⟨q, hq, rfl⟩ := List.mem_map.mp hy
        have := hz q (List.mem_append_left _ hq); omega
      · intro y hy E _ hE
        obtain ⟨q, hq, rfl⟩ := List.mem_map.mp hy
        exact hlo_hi q hq E hE
    | cons q qs =>
      have hqp : ¬ q < p := hrest q qs rfl
      have hs2 := List.pairwise_cons.mp hs.2.1
      have hqs_ge : ∀ q' ∈ qs, q ≤ q' := hs2.1
      simp only []
      by_cases hpq : p < q
      · -- the merged position p is not in the input sequence
        simp only [hpq, if_true]
        have hd' : 0 ≤ (if first = true then d else d + 1) := by split <;> omega
        obtain ⟨ih1, ih2, ih3⟩ := ih false (q :: qs) (if first = true then d else d + 1) hps'.2 hs.2.1 hd' (by intro h; cases h)
        have hnf : nonFirst false ps = ps := rfl
        rw [hnf] at ih2 ih3
        have hR_lo : ∀ y ∈ (mergeWalk ps false (q :: qs) (if first = true then d else d + 1)).1, p - d - 1 ≤ y := by
          intro y hy
          have := ih2 y hy p (fun q' hq' => by
            rcases List.mem_cons.mp hq' with h | h
            · subst h; omega
            · have := hqs_ge q' h; omega) (fun x hx => hps'.1 x hx)
          split at this <;> omega
        refine ⟨?_, ?_, ?_⟩
        · refine List.pairwise_append.mpr ⟨hlo_sorted, ih1, ?_⟩
          intro x hx y hy
          obtain ⟨q0, hq0, rfl⟩ := List.mem_map.mp hx
          have := hlo q0 hq0
          have := hR_lo y hy
          omega
        · intro y hy z hz hzx
          rcases List.mem_append.mp hy with hy | hy
          · obtain ⟨q0, hq0, rfl⟩ := List.mem_map.mp hy
            have := hz q0 (List.mem_append_left _ hq0); omega
          · cases first with
            | true =>
              have hdz : d = 0 := hfd rfl
              have := ih2 y hy z (fun q' hq' => hz q' (List.mem_append_right _ hq')) (fun x hx => hzx x (by simpa [nonFirst] using hx))
              simpa using this
            | false =>
              have hzp : z < p := hzx p (by simp [nonFirst])
              have := ih2 y hy (z + 1) (fun q' hq' => by
                rcases List.mem_cons.mp hq' with h | h
                · subst h; omega
                · have := hqs_ge q' h; omega) (fun x hx => by have := hps'.1 x hx; omega)
              simp at this; omega
        · intro y hy E hE hEx
          rcases List.mem_append.mp hy with hy | hy
          · obtain ⟨q0, hq0, rfl⟩ := List.mem_map.mp hy
            exact hlo_hi q0 hq0 E hEx
          · have := ih3 y hy E (fun q' hq' => hE q' (List.mem_append_right _ hq')) (fun x hx => hEx x (List.mem_cons_of_mem _ hx))
            cases first with
            | true => simpa [nonFirst] using this
            | false => simp [nonFirst] at this ⊢; omega
      · -- p = q: the merged position is in the input sequence
        have hpq_eq : p = q := by omega
        subst hpq_eq
        simp only [hpq, if_false]
        cases first with
        | true =>
          have hdz : d = 0 := hfd rfl
          subst hdz
          simp only [if_true]
          obtain ⟨ih1, ih2, ih3⟩ := ih false qs 0 hps'.2 hs2.2 (Int.le_refl _) (by intro h; cases h)
          have hnf : nonFirst false ps = ps := rfl
          rw [hnf] at ih2 ih3
          have hR_lo : ∀ y ∈ (mergeWalk ps false qs 0).1, p ≤ y := by
            intro y hy
            have := ih2 y hy p hqs_ge (fun x hx => hps'.1 x hx)
            omega
          refine ⟨?_, ?_, ?_⟩
          · refine List.pairwise_append.mpr ⟨hlo_sorted, List.pairwise_cons.mpr ⟨hR_lo, ih1⟩, ?_⟩
            intro x hx y hy
            obtain ⟨q0, hq0, rfl⟩ := List.mem_map.mp hx
            have := hlo q0 hq0
            rcases List.mem_cons.mp hy with hy | hy
            · subst hy; omega
            · have := hR_lo y hy; omega
          · intro y hy z hz hzx
            rcases List.mem_append.mp hy with hy | hy
            · obtain ⟨q0, hq0, rfl⟩ := List.mem_map.mp hy
              have := hz q0 (List.mem_append_left _ hq0); omega
            · rcases List.mem_cons.mp hy with hy | hy
              · subst hy
                have := hz y (List.mem_append_right _ List.mem_cons_self); omega
              · exact ih2 y hy z (fun q' hq' => hz q' (List.mem_append_right _ (List.mem_cons_of_mem _ hq')))
                  (fun x hx => hzx x (by simpa [nonFirst] using hx))
          · intro y hy E hE hEx
            rcases List.mem_append.mp hy with hy | hy
            · obtain ⟨q0, hq0, rfl⟩ := List.mem_map.mp hy
              exact hlo_hi q0 hq0 E hEx
            · rcases List.mem_cons.mp hy with hy | hy
              · subst hy
                have := sinc_length' ps y E hps'.2
                  (fun x hx => ⟨hps'.1 x hx, hEx x (List.mem_cons_of_mem _ hx)⟩)
                  (hEx y List.mem_cons_self)
                simp [nonFirst]; omega
              · have := ih3 y hy E (fun q' hq' => hE q' (List.mem_append_right _ (List.mem_cons_of_mem _ hq')))
                  (fun x hx => hEx x (List.mem_cons_of_mem _ hx))
                simpa [nonFirst] using this
        | false =>
          simp only [Bool.false_eq_true, if_false]
          obtain ⟨ih1, ih2, ih3⟩ := ih false qs (d + 1) hps'.2 hs2.2 (by omega) (by intro h; cases h)
          have hnf : nonFirst false ps = ps := rfl
          rw [hnf] at ih2 ih3
          have hR_lo : ∀ y ∈ (mergeWalk ps false qs (d + 1)).1, p - d - 1 ≤ y := by
            intro y hy
            have := ih2 y hy p hqs_ge (fun x hx => hps'.1 x hx)
            omega
          refine ⟨?_, ?_, ?_⟩
          · refine List.pairwise_append.mpr ⟨hlo_sorted, ih1, ?_⟩
            intro x hx y hy
            obtain ⟨q0, hq0, rfl⟩ := List.mem_map.mp hx
            have := hlo q0 hq0
            have := hR_lo y hy
            omega
          · intro y hy z hz hzx
            rcases List.mem_append.mp hy with hy | hy
            · obtain ⟨q0, hq0, rfl⟩ := List.mem_map.mp hy
              have := hz q0 (List.mem_append_left _ hq0); omega
            · have hzp : z < p := hzx p (by simp [nonFirst])
              have := ih2 y hy (z + 1) (fun q' hq' => by have := hqs_ge q' hq'; omega)
                (fun x hx => by have := hps'.1 x hx; omega)
              omega
          · intro y hy E hE hEx
            rcases List.mem_append.mp hy with hy | hy
            · obtain ⟨q0, hq0, rfl⟩ := List.mem_map.mp hy
              exact hlo_hi q0 hq0 E hEx
            · have := ih3 y hy E (fun q' hq' => hE q' (List.mem_append_right _ (List.mem_cons_of_mem _ hq')))
                (fun x hx => hEx x (List.mem_cons_of_mem _ hx))
              simp [nonFirst] at this ⊢; omega

/-! ## slices.BinarySearch on a sorted list -/

theorem getD_eq_getElem' (x : List Int) (k : Nat) (h : k < x.length) : x.getD k 0 = x[k] := by
  simp [List.getD, List.getElem?_eq_getElem h]

theorem getD_mono (x : List Int) (hs : x.Pairwise (· ≤ ·)) (k1 k2 : Nat) (h12 : k1 ≤ k2) (h2 : k2 < x.length) :
    x.getD k1 0 ≤ x.getD k2 0 := by
  have h1 : k1 < x.length := by omega
  rw [getD_eq_getElem' _ _ h1, getD_eq_getElem' _ _ h2]
  rcases Nat.lt_or_ge k1 k2 with h | h
  · exact (List.pairwise_iff_getElem.mp hs) k1 k2 h1 h2 h
  · have : k1 = k2 := by omega
    subst this; exact Int.le_refl _

theorem bsearch_spec (x : List Int) (t : Int) (hs : x.Pairwise (· ≤ ·)) : ∀ (fuel i j : Nat),
    i ≤ j → j ≤ x.length → j - i ≤ fuel →
    (∀ k, k < i → x.getD k 0 < t) → (∀ k, j ≤ k → k < x.length → t ≤ x.getD k 0) →
    bsearch x t fuel i j ≤ x.length ∧ (∀ k, k < bsearch x t fuel i j → x.getD k 0 < t) ∧
      (∀ k, bsearch x t fuel i j ≤ k → k < x.length → t ≤ x.getD k 0) := by
  intro fuel
  induction fuel with
  | zero =>
    intro i j hij hj hf hlo hhi
    simp only [bsearch]
    have : i = j := by omega
    subst this
    exact ⟨hj, hlo, hhi⟩
  | succ f ih =>
    intro i j hij hj hf hlo hhi
    simp only [bsearch]
    split
    · rename_i hlt
      have hh : (i + j) / 2 < j := by omega
      have hh' : i ≤ (i + j) / 2 := by omega
      split
      · rename_i hless
        refine ih ((i + j) / 2 + 1) j (by omega) hj (by omega) ?_ hhi
        intro k hk
        have := getD_mono x hs k ((i + j) / 2) (by omega) (by omega)
        omega
      · rename_i hless
        refine ih i ((i + j) / 2) hh' (by omega) (by omega) hlo ?_
        intro k hk hkl
        have := getD_mono x hs ((i + j) / 2) k hk hkl
        omega
    · have : i = j := by omega
      subst this
      exact ⟨hj, hlo, hhi⟩

/-! ## fixStackMerge -/

theorem mem_take_lt (x : List Int) (i : Nat) (t : Int) (h : ∀ k, k < i → x.getD k 0 < t) :
    ∀ y ∈ x.take i, y < t := by
  intro y hy
  obtain ⟨k, hk, rfl⟩ := List.mem_iff_getElem.mp hy
  have hk' : k < i ∧ k < x.length := by
    have : k < min i x.length := by simpa [List.length_take] using hk
    omega
  rw [List.getElem_take]
  have := h k hk'.1
  rwa [getD_eq_getElem' _ _ hk'.2] at this

theorem mem_drop_ge (x : List Int) (i : Nat) (t : Int) (h : ∀ k, i ≤ k → k < x.length → t ≤ x.getD k 0) :
    ∀ y ∈ x.drop i, t ≤ y := by
  intro y hy
  obtain ⟨k, hk, rfl⟩ := List.mem_iff_getElem.mp hy
  have hk' : i + k < x.length := by simp [List.length_drop] at hk; omega
  rw [List.getElem_drop]
  have := h (i + k) (by omega) hk'
  rwa [getD_eq_getElem' _ _ hk'] at this

theorem fixMergeOne_inv (n : Nat) (a : Int) (ps : List Int) (e : Nested) (h : EntryInv n e)
    (ha0 : 0 ≤ a) (hM : (a :: ps).Pairwise (· < ·)) (hME : ∀ x ∈ a :: ps, x < e.endPos) :
    EntryInv (n - ps.length) (fixMergeOne (a :: ps) e) ∧
      (fixMergeOne (a :: ps) e).endPos = e.endPos - (ps.length : Int) := by
  have hM' := List.pairwise_cons.mp hM
  have haE : a < e.endPos := hME a List.mem_cons_self
  have hcount : a + (ps.length : Int) < e.endPos :=
    sinc_length' ps a e.endPos hM'.2 (fun x hx => ⟨hM'.1 x hx, hME x (List.mem_cons_of_mem _ hx)⟩) haE
  have hEn := h.endHi
  unfold fixMergeOne
  have hnot : ¬ e.endPos ≤ a := by omega
  simp only [hnot, if_false, List.length_cons, Nat.add_sub_cancel]
  refine ⟨?_, trivial⟩
  obtain ⟨w1, w2, w3⟩ := mergeWalk_spec (a :: ps) true e.inputPos 0 hM h.sorted (Int.le_refl _) (fun _ => rfl)
  have hnf : nonFirst true (a :: ps) = ps := rfl
  rw [hnf] at w2 w3
  generalize hout : (mergeWalk (a :: ps) true e.inputPos 0).1 = out at *
  generalize (mergeWalk (a :: ps) true e.inputPos 0).2 = needs
  have hout_lo : ∀ y ∈ out, 0 ≤ y := by
    intro y hy
    have := w2 y hy 0 (fun q hq => h.lo q hq) (fun x hx => by have := hM'.1 x hx; omega)
    omega
  have hout_hi : ∀ y ∈ out, y < e.endPos - (ps.length : Int) := by
    intro y hy
    have := w3 y hy e.endPos (fun q hq => h.hi q hq) hME
    omega
  obtain ⟨b1, b2, b3⟩ := bsearch_spec out a w1 (out.length + 1) 0 out.length (Nat.zero_le _) (Nat.le_refl _) (by omega)
    (fun k hk => by omega) (fun k hk hkl => by omega)
  generalize bsearch out a (out.length + 1) 0 out.length = i at *
  have htake := mem_take_lt out i a b2
  have hdrop := mem_drop_ge out i a b3
  have hsplit : out = out.take i ++ out.drop i := (List.take_append_drop i out).symm
  have hendLo : 0 ≤ e.endPos - (ps.length : Int) := by omega
  have hendHi : e.endPos - (ps.length : Int) ≤ ((n - ps.length : Nat) : Int) := by omega
  split
  · -- insert the merged position
    refine ⟨?_, ?_, ?_, hendLo, hendHi⟩
    · intro p hp
      rcases List.mem_append.mp hp with hp | hp
      · exact hout_lo p (List.mem_of_mem_take hp)
      · rcases List.mem_cons.mp hp with hp | hp
        · subst hp; exact ha0
        · exact hout_lo p (List.mem_of_mem_drop hp)
    · intro p hp
      dsimp only at hp ⊢
      rcases List.mem_append.mp hp with hp | hp
      · exact hout_hi p (List.mem_of_mem_take hp)
      · rcases List.mem_cons.mp hp with hp | hp
        · subst hp; omega
        · exact hout_hi p (List.mem_of_mem_drop hp)
    · have hs := w1
      rw [hsplit] at hs
      have hs' := List.pairwise_append.mp hs
      refine List.pairwise_append.mpr ⟨hs'.1, List.pairwise_cons.mpr ⟨fun y hy => hdrop y hy, hs'.2.1⟩, ?_⟩
      intro x hx y hy
      have := htake x hx
      rcases List.mem_cons.mp hy with hy | hy
      · subst hy; omega
      · have := hdrop y hy; omega
  · split
    · -- delete the merged position
      have hsub : (out.take i ++ out.drop (i + 1)).Sublist out := by
        rw [← List.eraseIdx_eq_take_drop_succ]
        exact List.eraseIdx_sublist _ _
      refine ⟨fun p hp => hout_lo p (hsub.subset hp), fun p hp => hout_hi p (hsub.subset hp),
        w1.sublist hsub, hendLo, hendHi⟩
    · exact ⟨hout_lo, hout_hi, w1, hendLo, hendHi⟩

end SfntV.Shape
