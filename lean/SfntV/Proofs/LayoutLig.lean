/-
Helper lemmas for C15 (standard ligatures, pipeline, kern application).
-/
import SfntV.Model.LayoutLig
import SfntV.Proofs.LayoutFind
import SfntV.Proofs.LayoutKern

namespace SfntV.Layout

/-! ### standardLigatures -/

theorem ligEntry_some (cmap : Nat → Nat) (lig : List Nat) (k : Nat) (l : Lig) :
    ligEntry cmap lig = some (k, l) ↔
      (∀ c ∈ lig, cmap c ≠ 0) ∧ lig.map cmap = l.out :: k :: l.rest := by
  unfold ligEntry
  simp only
  by_cases h0 : (lig.map cmap).any (· == 0) = true
  · rw [if_pos h0]
    constructor
    · intro h; cases h
    · rintro ⟨h, _⟩
      rw [List.any_eq_true] at h0
      obtain ⟨x, hx, hx0⟩ := h0
      obtain ⟨c, hc, rfl⟩ := List.mem_map.mp hx
      exact absurd (by simpa using hx0) (h c hc)
  · rw [if_neg h0]
    have hall : ∀ c ∈ lig, cmap c ≠ 0 := by
      intro c hc h
      apply h0
      rw [List.any_eq_true]
      exact ⟨cmap c, List.mem_map_of_mem hc, by simp [h]⟩
    cases hm : lig.map cmap with
    | nil => simp
    | cons o t =>
      cases t with
      | nil => simp
      | cons f rest =>
        simp only [Option.some.injEq, Prod.mk.injEq, List.cons.injEq]
        constructor
        · rintro ⟨rfl, rfl⟩; exact ⟨hall, rfl, rfl, rfl⟩
        · rintro ⟨_, rfl, rfl, hr⟩
          refine ⟨rfl, ?_⟩
          cases l; simp only at hr; subst hr; rfl

theorem mem_ligEntries (cmap : Nat → Nat) (k : Nat) (l : Lig) :
    (k, l) ∈ ligEntries cmap ↔
      ∃ lig ∈ Gen.stdLigatures, (∀ c ∈ lig, cmap c ≠ 0) ∧ lig.map cmap = l.out :: k :: l.rest := by
  unfold ligEntries
  rw [List.mem_filterMap]
  constructor
  · rintro ⟨lig, hl, he⟩; exact ⟨lig, hl, (ligEntry_some cmap lig k l).mp he⟩
  · rintro ⟨lig, hl, he⟩; exact ⟨lig, hl, (ligEntry_some cmap lig k l).mpr he⟩

theorem mem_ligTable (cmap : Nat → Nat) (k : Nat) (grp : List Lig) :
    (k, grp) ∈ ligTable cmap ↔
      k ∈ (ligEntries cmap).map (·.1) ∧ grp = ((ligEntries cmap).filter (·.1 == k)).map (·.2) := by
  unfold ligTable
  simp only [List.mem_map, mem_toSet]
  constructor
  · rintro ⟨k', hk', h⟩
    injection h with h1 h2
    subst h1
    exact ⟨hk', h2.symm⟩
  · rintro ⟨hk, rfl⟩
    exact ⟨k, hk, rfl⟩

theorem ligTable_keys (cmap : Nat → Nat) :
    (ligTable cmap).map (·.1) = toSet ((ligEntries cmap).map (·.1)) := by
  unfold ligTable
  simp only [List.map_map]
  conv => rhs; rw [← List.map_id (toSet _)]
  rfl

/-- membership in the table, flattened -/
theorem mem_ligTable_flat (cmap : Nat → Nat) (k : Nat) (l : Lig) :
    (∃ grp, (k, grp) ∈ ligTable cmap ∧ l ∈ grp) ↔ (k, l) ∈ ligEntries cmap := by
  constructor
  · rintro ⟨grp, hg, hl⟩
    obtain ⟨_, rfl⟩ := (mem_ligTable cmap k grp).mp hg
    obtain ⟨e, he, rfl⟩ := List.mem_map.mp hl
    rw [List.mem_filter] at he
    have : e.1 = k := by simpa using he.2
    rw [← this]; exact he.1
  · intro h
    refine ⟨_, (mem_ligTable cmap k _).mpr ⟨List.mem_map.mpr ⟨(k, l), h, rfl⟩, rfl⟩, ?_⟩
    exact List.mem_map.mpr ⟨(k, l), List.mem_filter.mpr ⟨h, by simp⟩, rfl⟩

theorem stdLigatures_longest_first :
    Gen.stdLigatures.Pairwise (fun a b => b.length ≤ a.length) := by decide

theorem ligEntries_longest_first (cmap : Nat → Nat) :
    (ligEntries cmap).Pairwise (fun a b => b.2.rest.length ≤ a.2.rest.length) := by
  unfold ligEntries
  refine List.Pairwise.filterMap _ ?_ stdLigatures_longest_first
  intro a a' hr b hb b' hb'
  obtain ⟨k, l⟩ := b
  obtain ⟨k', l'⟩ := b'
  have h1 := congrArg List.length ((ligEntry_some cmap a k l).mp hb).2
  have h2 := congrArg List.length ((ligEntry_some cmap a' k' l').mp hb').2
  simp only [List.length_map, List.length_cons] at h1 h2
  simp only
  omega

theorem ligTable_longest_first (cmap : Nat → Nat) (k : Nat) (grp : List Lig)
    (h : (k, grp) ∈ ligTable cmap) : grp.Pairwise (fun a b => b.rest.length ≤ a.rest.length) := by
  obtain ⟨_, rfl⟩ := (mem_ligTable cmap k grp).mp h
  exact List.Pairwise.map _ (fun a b h => h) ((ligEntries_longest_first cmap).filter _)

/-- in a group ordered longest-first, the first match is a longest match -/
theorem ligMatch_longest (grp : List Lig) (next : List Nat)
    (hs : grp.Pairwise (fun a b => b.rest.length ≤ a.rest.length)) (l : Lig)
    (hm : ligMatch grp next = some l) :
    l ∈ grp ∧ l.rest.isPrefixOf next = true ∧
      ∀ l' ∈ grp, l'.rest.isPrefixOf next = true → l'.rest.length ≤ l.rest.length := by
  unfold ligMatch at hm
  induction grp with
  | nil => cases hm
  | cons a r ih =>
    rw [List.pairwise_cons] at hs
    rw [List.find?_cons] at hm
    cases ha : a.rest.isPrefixOf next
    · rw [ha] at hm
      obtain ⟨h1, h2, h3⟩ := ih hs.2 hm
      refine ⟨List.mem_cons_of_mem _ h1, h2, ?_⟩
      intro l' hl' hp
      rcases List.mem_cons.mp hl' with rfl | hl'
      · rw [ha] at hp; cases hp
      · exact h3 l' hl' hp
    · rw [ha] at hm
      injection hm with hm
      subst hm
      refine ⟨List.mem_cons_self, ha, ?_⟩
      intro l' hl' _
      rcases List.mem_cons.mp hl' with rfl | hl'
      · exact Nat.le_refl _
      · exact hs.1 l' hl'

/-! ### pipeline -/

theorem assignWidths_map (isMark : Nat → Bool) (width : Nat → Int) (cmap : Nat → Nat) (s : List Nat) :
    assignWidths isMark width (s.map fun r => (⟨cmap r, [r], 0⟩ : Glyph)) =
      s.map fun r => ⟨cmap r, [r], if isMark (cmap r) then 0 else width (cmap r)⟩ := by
  unfold assignWidths
  rw [List.map_map]
  apply List.map_congr_left
  intro r _
  simp only [Function.comp]
  cases isMark (cmap r) <;> simp

/-! ### kern application -/

theorem mget_of_not_any (m : KMap) (k : Pair) (h : m.any (fun e => e.1 == k) = false) : mget m k = 0 := by
  unfold mget
  have : m.find? (fun e => e.1 == k) = none := by
    rw [List.find?_eq_none]
    intro x hx hxk
    have : m.any (fun e => e.1 == k) = true := List.any_eq_true.mpr ⟨x, hx, hxk⟩
    rw [h] at this; cases this
  rw [this]

theorem length_kernAdjust (m : KMap) : ∀ l : List Glyph, (kernAdjust m l).length = l.length
  | [] => rfl
  | [_] => rfl
  | a :: b :: r => by
    simp only [kernAdjust, List.length_cons]
    have := length_kernAdjust m (b :: r)
    simp only [List.length_cons] at this
    omega

/-- every glyph followed by another one has `kern(g, next)` added to its advance (16-bit), keeps its
identity and text; the last glyph is untouched -/
theorem kernAdjust_get (m : KMap) : ∀ (l : List Glyph) (i : Nat) (g : Glyph), l[i]? = some g →
    I16 g.adv →
    (kernAdjust m l)[i]? = some
      (match l[i + 1]? with
       | some g' => { g with adv := wrap16 (g.adv + mget m (g.gid, g'.gid)) }
       | none => g)
  | [], i, g, h, _ => by simp at h
  | [a], i, g, h, _ => by
    cases i with
    | zero => simp at h; subst h; simp [kernAdjust]
    | succ i => simp at h
  | a :: b :: r, i, g, h, hg => by
    cases i with
    | zero =>
      simp only [List.getElem?_cons_zero, Option.some.injEq] at h
      subst h
      simp only [kernAdjust, List.getElem?_cons_zero, Nat.zero_add, List.getElem?_cons_succ]
      cases hany : m.any (fun e => e.1 == (a.gid, b.gid))
      · simp only [Bool.false_eq_true, if_false]
        rw [mget_of_not_any m _ hany, Int.add_zero, wrap16_id _ hg.1 hg.2]
      · simp
    | succ i =>
      simp only [List.getElem?_cons_succ] at h
      have := kernAdjust_get m (b :: r) i g h hg
      simp only [kernAdjust, List.getElem?_cons_succ]
      exact this

end SfntV.Layout
