/-
C02, finding C02-gsub-context-alias (DESIGN §9 #27) as a theorem about the checked-index model of
`readSeqContext1`: the GSUB table built by `totalGsubContextAliased rules glyphs`
(harness/area_total.go: one type-5 format-1 subtable at position 26 whose single rule set has
`rules` offsets all pointing at ONE rule of `glyphs` glyphs; `44 + 2·rules + 2·glyphs` bytes) is
accepted, and decoding it allocates at least `rules·glyphs` elements in as many steps: quadratic in
the input length.  Hence no bound `alloc ≤ 4096·|b| + 2^24` holds for `readSeqContext1`.
-/
import SfntV.Proofs.TotalSeqCtx

namespace SfntV.Total.SeqCtx
open SfntV SfntV.Total SfntV.Total.Gdef SfntV.Total.Otl

/-- the subtable of `totalGsubContextAliased` behind its format word (position 28 of the table) -/
def aliasedTail (rules glyphs : Nat) : Bytes :=
  be16 (10 + 2 * rules) ++                                     -- coverageOffset
  (be16 1 ++ ((List.replicate 1 (be16 8)).flatten ++           -- one rule set at +8
  (be16 rules ++ ((List.replicate rules (be16 (8 + 2 * rules))).flatten ++   -- all the same rule
  (be16 1 ++ (be16 1 ++ (be16 5 ++                             -- coverage: format 1, glyph 5
  ((be16 glyphs ++ [0, 0]) ++                                  -- glyphCount, seqLookupCount = 0
  ((List.replicate (glyphs - 1) (be16 7)).flatten ++ [])))))))))

/-- `totalGsubContextAliased rules glyphs`: GSUB 1.0 header, empty script and feature lists, one
lookup of type 5 with one subtable at position 26 -/
def aliased (rules glyphs : Nat) : Bytes :=
  [0,1,0,0, 0,10, 0,12, 0,14,  0,0,  0,0,  0,1,0,4,  0,5,0,0,0,1,0,8,  0,1] ++
    aliasedTail rules glyphs

/-- the bytes the harness builds for `rules = 3`, `glyphs = 4` -/
example : aliased 3 4 = [0,1,0,0,0,10,0,12,0,14,0,0,0,0,0,1,0,4,0,5,0,0,0,1,0,8,0,1,0,16,0,1,0,8,
    0,3,0,14,0,14,0,14,0,1,0,1,0,5,0,4,0,0,0,7,0,7,0,7] := by decide

theorem flat16_length (k v : Nat) : (List.replicate k (be16 v)).flatten.length = 2 * k := by
  induction k with
  | zero => rfl
  | succ k ih =>
    rw [List.replicate_succ, List.flatten_cons, List.length_append, ih]
    simp only [be16, List.length_cons, List.length_nil]
    omega

theorem aliased_length (rules glyphs : Nat) (hg : 1 ≤ glyphs) :
    (aliased rules glyphs).length = 44 + 2 * rules + 2 * glyphs := by
  simp only [aliased, aliasedTail, List.length_append, flat16_length]
  simp only [be16, List.length_cons, List.length_nil]
  omega

/-! ## reading at a known position -/

theorem drop_step {b : Bytes} {q : Nat} {X T : Bytes} (n : Nat) (h : b.drop q = X ++ T)
    (hn : X.length = n) : b.drop (q + n) = T := by
  rw [← List.drop_drop, h, List.drop_left' hn]

theorem readU16_be16 (site : String) {b : Bytes} {q v : Nat} {T : Bytes}
    (h : b.drop q = be16 v ++ T) (hv : v < 65536) : readU16 site b q = .ok v := by
  rw [readU16_eq]
  unfold wordAt
  rw [h]
  simp only [be16, List.cons_append, List.nil_append, be, UInt8.toNat_ofNat']
  congr 1
  omega

theorem u16Loop_rep (site : String) (b : Bytes) (v : Nat) (hv : v < 65536) :
    ∀ (n q : Nat) (acc : List Nat) (c : Cost) (T : Bytes),
      b.drop q = (List.replicate n (be16 v)).flatten ++ T →
      ∃ r c', u16Loop site b n q acc c = .ok (r, q + 2 * n, c') ∧
        r.length = acc.length + n ∧ c'.steps = c.steps + n ∧ c'.alloc = c.alloc
  | 0, q, acc, c, _, _ => ⟨acc.reverse, c, rfl, by simp, rfl, rfl⟩
  | n+1, q, acc, c, T, h => by
    have h1 : b.drop q = be16 v ++ ((List.replicate n (be16 v)).flatten ++ T) := by
      rw [h, List.replicate_succ, List.flatten_cons, List.append_assoc]
    have h2 := drop_step 2 h1 rfl
    obtain ⟨r, c', hr, hl, hs, ha⟩ := u16Loop_rep site b v hv n (q + 2) (v :: acc) c.tick T h2
    refine ⟨r, c', ?_, ?_, ?_, ?_⟩
    · unfold u16Loop
      rw [readU16_be16 site h1 hv, ok_bind, hr]
      congr 3
      omega
    · simp only [List.length_cons] at hl; omega
    · simp only [Cost.tick] at hs; omega
    · exact ha

theorem readU16Slice_rep (b : Bytes) (q n v : Nat) (c : Cost) (T : Bytes)
    (h : b.drop q = be16 n ++ ((List.replicate n (be16 v)).flatten ++ T))
    (hn : n < 65536) (hv : v < 65536) :
    ∃ c', readU16Slice b q c = .ok (List.replicate n v, q + 2 + 2 * n, c') ∧
      c'.steps = c.steps + 1 + n ∧ c'.alloc = c.alloc + n := by
  have h2 := drop_step 2 h rfl
  -- the values read are `v` each
  have hvals : ∀ (k q : Nat) (acc : List Nat) (c : Cost) (T : Bytes),
      b.drop q = (List.replicate k (be16 v)).flatten ++ T →
      ∀ r q' c', u16Loop "parser.go:151#ReadUint16" b k q acc c = .ok (r, q', c') →
        r = acc.reverse ++ List.replicate k v := by
    intro k
    induction k with
    | zero =>
      intro q acc c T _ r q' c' hr
      unfold u16Loop at hr
      cases hr
      simp
    | succ k ih =>
      intro q acc c T hd r q' c' hr
      have h1 : b.drop q = be16 v ++ ((List.replicate k (be16 v)).flatten ++ T) := by
        rw [hd, List.replicate_succ, List.flatten_cons, List.append_assoc]
      have h2 := drop_step 2 h1 rfl
      unfold u16Loop at hr
      rw [readU16_be16 _ h1 hv, ok_bind] at hr
      rw [ih _ _ _ _ h2 _ _ _ hr, List.reverse_cons, List.append_assoc, List.replicate_succ]
      rfl
  obtain ⟨r, c', hr, _, hs, ha⟩ := u16Loop_rep "parser.go:151#ReadUint16" b v hv n (q + 2) []
    ((c.tick).mem n) T h2
  have hrv := hvals n (q + 2) [] _ T h2 _ _ _ hr
  simp only [List.reverse_nil, List.nil_append] at hrv
  subst hrv
  refine ⟨c', ?_, ?_, ?_⟩
  · unfold readU16Slice
    rw [readU16_be16 _ h hn, ok_bind, mkSlice_ok _ _ _ hn, ok_bind, hr]
  · simp only [Cost.tick, Cost.mem] at hs; omega
  · simp only [Cost.tick, Cost.mem] at ha; omega

/-- a coverage table of format 1 with the single glyph `g` -/
theorem coverageRead_one (b : Bytes) (p g : Nat) (T : Bytes) (hg : g < 65536)
    (h : b.drop p = be16 1 ++ (be16 1 ++ (be16 g ++ T))) :
    coverageRead b p = .ok ([(g, 0)], ⟨3, 2⟩) := by
  have h2 := drop_step 2 h rfl
  have h4 := drop_step 2 h2 rfl
  rw [Nat.add_assoc] at h4
  unfold coverageRead
  rw [readU16_be16 _ h (by omega), ok_bind]
  dsimp only
  rw [if_pos rfl, readU16_be16 _ h2 (by omega), ok_bind]
  unfold covLoop1
  rw [readU16_be16 _ h4 hg, ok_bind, if_neg (by omega)]
  unfold covLoop1
  rfl

/-! ## the aliased rule -/

theorem w16_be16_0 (site : String) (v : Nat) (T : Bytes) (hv : v < 65536) :
    w16 site (be16 v ++ T) 0 = .ok v := by
  simp only [w16, be16, idx, List.cons_append, List.getElem?_cons_zero, List.getElem?_cons_succ,
    ok_bind, be, UInt8.toNat_ofNat', Nat.zero_add]
  show Outcome.ok _ = Outcome.ok _
  congr 1
  omega

/-- one visit of the rule of `g` glyphs: `g` steps and `g` elements (`g − 1` glyphs + the rule) -/
theorem readRule_alias (f2 : Bool) (b : Bytes) (q g : Nat) (c : Cost) (T : Bytes) (h1 : 1 ≤ g) (h2 : g < 65536)
    (hd : b.drop q = (be16 g ++ [0, 0]) ++ ((List.replicate (g - 1) (be16 7)).flatten ++ T)) :
    ∃ r sz c', readRule f2 b q c = .ok (r, sz, c') ∧ c'.alloc = c.alloc + g ∧
      c'.steps = c.steps + g := by
  have hrb := readBytes_drop (st f2 "nested.go:107#ReadBytes(4)" "nested.go:344#ReadBytes(4)") b q 4
    _ _ hd rfl (by omega) (by omega)
  have hd4 := drop_step 4 hd rfl
  obtain ⟨input, c1, hu, hl, hs, ha⟩ := u16Loop_rep
    (st f2 "nested.go:121#ReadUint16" "nested.go:358#ReadUint16") b 7 (by omega)
    (g - 1) (q + 4) [] ((c.tick).mem (g - 1)) T hd4
  have hgc : ∀ site, w16 site (be16 g ++ [0, 0]) 0 = .ok g := fun site => w16_be16_0 site g _ h2
  have hlc : ∀ site, w16 site (be16 g ++ [0, 0]) 2 = .ok 0 := fun _ => rfl
  have htn : ((g : Int) - 1).toNat = g - 1 := by omega
  refine ⟨⟨input, []⟩, 4 + 2 * input.length + 4 * 0, (c1.mem 0).mem 1, ?_, ?_, ?_⟩
  · unfold readRule
    rw [hrb, ok_bind]
    rw [hgc, ok_bind, if_neg (by omega), hlc, ok_bind, mkSliceI_ok _ g _ h1 h2, ok_bind, htn, hu,
      ok_bind]
    rfl
  · simp only [Cost.tick, Cost.mem] at ha ⊢; omega
  · simp only [Cost.tick, Cost.mem] at hs ⊢; omega

/-- `k` offsets pointing at the one rule: `k` visits — in format 1 and in format 2 alike (there the
size cap is only tested after the loops) -/
theorem rulesLoop_alias (f2 : Bool) (b : Bytes) (base o g i nsets nrules : Nat) (T : Bytes) (hi : i < nsets)
    (h1 : 1 ≤ g) (h2 : g < 65536)
    (hd : b.drop (base + o) =
      (be16 g ++ [0, 0]) ++ ((List.replicate (g - 1) (be16 7)).flatten ++ T)) :
    ∀ (k j : Nat) (acc : List Rule) (total : Nat) (c : Cost), j + k ≤ nrules →
      ∃ rs t c', rulesLoop f2 b base i nsets nrules (List.replicate k o) j acc total c
          = .ok (rs, t, c') ∧ c'.alloc = c.alloc + k * g ∧ c'.steps = c.steps + k * (g + 1)
  | 0, _, acc, total, c, _ => ⟨acc.reverse, total, c, rfl, by simp, by simp⟩
  | k+1, j, acc, total, c, hj => by
    obtain ⟨r, sz, c1, hr, ha1, hs1⟩ := readRule_alias f2 b (base + o) g c.tick T h1 h2 hd
    obtain ⟨rs, t, c', hrec, ha, hs⟩ := rulesLoop_alias f2 b base o g i nsets nrules T hi h1 h2 hd
      k (j + 1) (r :: acc) (total + sz) c1 (by omega)
    refine ⟨rs, t, c', ?_, ?_, ?_⟩
    · rw [List.replicate_succ]
      unfold rulesLoop
      rw [hr, ok_bind]
      dsimp only
      rw [chk_ok _ hi, ok_bind, chk_ok _ (by omega : j < nrules), ok_bind, hrec]
    · rw [ha, ha1, Nat.succ_mul]; simp only [Cost.tick]; omega
    · rw [hs, hs1, Nat.succ_mul]; simp only [Cost.tick]; omega

/-! ## the finding -/

/-- FINDING C02-gsub-context-alias as a theorem.  `readSeqContext1` (as `readGsubSubtable` calls
it: subtable at 26, parser at 28) accepts the `44 + 2·rules + 2·glyphs` bytes of
`totalGsubContextAliased rules glyphs` and allocates at least `rules·glyphs ≥ rules·(glyphs − 1)`
elements in at least as many steps: every one of the `rules` aliased offsets is a full visit of the
one rule (`glyphs − 1` input glyphs read into a fresh slice + the rule object) -/
theorem seqContext1_alias_cost (rules glyphs : Nat) (hr : rules < 32760) (hg1 : 1 ≤ glyphs)
    (hg2 : glyphs < 65536) :
    ∃ r c, readSeqContext1 (aliased rules glyphs) 28 26 = .ok (r, c) ∧
      c.alloc ≥ rules * glyphs ∧ c.alloc ≥ rules * (glyphs - 1) ∧ c.steps ≥ rules * glyphs ∧
      (aliased rules glyphs).length = 44 + 2 * rules + 2 * glyphs := by
  -- the bytes at the positions the reader visits
  have d28 : (aliased rules glyphs).drop 28 = aliasedTail rules glyphs := rfl
  unfold aliasedTail at d28
  have d30 := drop_step 2 d28 rfl
  have d32 := drop_step 2 d30 rfl
  have d34 := drop_step 2 d32 rfl
  have d36 := drop_step 2 d34 rfl
  have dcov := drop_step (2 * rules) d36 (flat16_length rules (8 + 2 * rules))
  have drule := drop_step 2 (drop_step 2 (drop_step 2 dcov rfl) rfl) rfl
  have hlen := aliased_length rules glyphs hg1
  generalize aliased rules glyphs = b at *
  have e34 : 26 + 8 = 28 + 2 + 2 + 2 := rfl
  have ecov : 26 + (10 + 2 * rules) = 28 + 2 + 2 + 2 + 2 + 2 * rules := by omega
  have erule : 26 + 8 + (8 + 2 * rules) = 28 + 2 + 2 + 2 + 2 + 2 * rules + 2 + 2 + 2 := by omega
  -- the pieces
  obtain ⟨c1, hsl, hs1, ha1⟩ := readU16Slice_rep b (28 + 2) 1 8 Cost.zero.tick _ d30 (by omega)
    (by omega)
  have hcov := coverageRead_one b _ 5 _ (by omega) dcov
  rw [← erule] at drule
  -- the rule-set loop
  have hsets : ∀ c : Cost, ∃ ss t c', setsLoop false b 26 1 [8] 0 [] 0 c = .ok (ss, t, c') ∧
      c'.alloc ≥ c.alloc + rules * glyphs ∧ c'.steps ≥ c.steps + rules * glyphs := by
    intro c
    rw [← e34] at d34
    obtain ⟨c2, hsl2, hs2, ha2⟩ := readU16Slice_rep b (26 + 8) rules (8 + 2 * rules) c.tick _ d34
      (by omega) (by omega)
    obtain ⟨rs, t, c3, hrl, ha3, hs3⟩ := rulesLoop_alias false b (26 + 8) (8 + 2 * rules) glyphs 0 1 rules
      _ (by omega) hg1 hg2 drule rules 0 [] (0 + 2 + 2 * rules) (c2.mem rules) (by omega)
    refine ⟨[some rs], t, c3, ?_, ?_, ?_⟩
    · unfold setsLoop
      rw [if_neg (by omega)]
      dsimp only
      rw [hsl2, ok_bind]
      dsimp only
      rw [List.length_replicate, mkSlice_ok _ _ _ (by omega), ok_bind]
      simp only [st, Bool.false_eq_true, if_false]
      rw [chk_ok _ (by omega : 0 < 1), ok_bind, ok_bind, hrl, ok_bind]
      rfl
    · rw [ha3]; simp only [Cost.tick, Cost.mem] at ha2 ⊢; omega
    · rw [hs3, Nat.mul_add]; simp only [Cost.tick, Cost.mem] at hs2 ⊢; omega
  obtain ⟨ss, t, c4, hss, ha4, hs4⟩ := hsets (((plus c1 ⟨3, 2⟩).mem 1).mem 1)
  refine ⟨⟨[(5, 0)], ss⟩, c4, ?_, ?_, ?_, ?_, ?_⟩
  · unfold readSeqContext1
    rw [readU16_be16 _ d28 (by omega), ok_bind, hsl, ok_bind]
    dsimp only
    rw [ecov, hcov, ok_bind]
    dsimp only
    rw [if_neg (by simp), sliceTo_ok _ _ (by simp)]
    simp only [List.length_cons, List.length_nil, List.take, ok_bind, List.replicate]
    rw [mkSlice_ok _ _ _ (by omega), ok_bind]
    simp only [Nat.zero_add]
    rw [hss, ok_bind]
  · simp only [Cost.mem] at ha4; omega
  · have : rules * (glyphs - 1) ≤ rules * glyphs := Nat.mul_le_mul_left _ (by omega)
    simp only [Cost.mem] at ha4; omega
  · simp only [Cost.mem] at hs4; omega
  · exact hlen

/-- hence no bound `alloc ≤ 4096·|b| + 2^24` (and none on the steps) holds for `readSeqContext1`:
witness `rules = 32000`, `glyphs = 65535`: 195 114 bytes, more than 2.09·10⁹ elements -/
theorem readSeqContext1_alloc_not_linear :
    ¬ ∀ (b : Bytes) (q pos : Nat) (r : Ctx1) (c : Cost), readSeqContext1 b q pos = .ok (r, c) →
      c.alloc ≤ 4096 * b.length + 16777216 := by
  intro h
  obtain ⟨r, c, hr, ha, _, _, hl⟩ := seqContext1_alias_cost 32000 65535 (by omega) (by omega)
    (by omega)
  have := h _ _ _ r c hr
  rw [hl] at this
  omega

theorem readSeqContext1_steps_not_linear :
    ¬ ∀ (b : Bytes) (q pos : Nat) (r : Ctx1) (c : Cost), readSeqContext1 b q pos = .ok (r, c) →
      c.steps ≤ 4096 * b.length + 16777216 := by
  intro h
  obtain ⟨r, c, hr, _, _, hs, hl⟩ := seqContext1_alias_cost 32000 65535 (by omega) (by omega)
    (by omega)
  have := h _ _ _ r c hr
  rw [hl] at this
  omega

/-- the instance of the known-finding line `total.adv kind=gsub-context-alias rules=12000
glyphs=12000`: 48 044 bytes, at least 144 000 000 elements -/
example : ∃ r c, readSeqContext1 (aliased 12000 12000) 28 26 = .ok (r, c) ∧
    c.alloc ≥ 144000000 ∧ (aliased 12000 12000).length = 48044 := by
  obtain ⟨r, c, hr, ha, _, _, hl⟩ := seqContext1_alias_cost 12000 12000 (by omega) (by omega)
    (by omega)
  exact ⟨r, c, hr, by omega, by omega⟩

end SfntV.Total.SeqCtx
