/-
Contextual lookups (SeqContext / ChainedSeqContext formats 1-3): decode ∘ encode = id and the declared
size is the emitted size, for the models of the repaired encoders and of the readers in nested.go.
-/
import SfntV.Proofs.OtlGsub8
import SfntV.Proofs.OtlGpos22
import SfntV.Proofs.OtlGposMark4
import SfntV.Model.OtlContext

namespace SfntV.Otl.Ctx
open SfntV SfntV.Otl

/-! ### coverage lists (formats 3) -/

def covsB (cs : List (List Nat)) : Bytes := cs.flatMap fun c => wordsToBytes (Cov.encodeW c)

theorem covReadSet_at {B : Bytes} {p : Nat} (gs : List Nat) (h : Cov.Valid gs)
    (hb : LL.BytesAt B p (wordsToBytes (Cov.encodeW gs))) : Cov.readSet (B.drop p) = .ok gs := by
  obtain ⟨pre, post, rfl, rfl⟩ := hb
  rw [List.append_assoc, List.drop_left]
  unfold Cov.readSet
  rw [bytesToWords_append _ (Cov.encodeW_lt gs h)]
  exact Cov.readSetW_encodeW_append gs h _

theorem covsBytes_eq : ∀ (cs : List (List Nat)), (∀ c ∈ cs, Cov.Valid c) → covsBytes cs = .ok (covsB cs)
  | [], _ => rfl
  | c :: cs, h => by
    simp only [covsBytes, Cov.encode_eq c (h c (by simp)),
      covsBytes_eq cs (fun c' hc' => h c' (by simp [hc'])), covsB, List.flatMap_cons]

theorem covsLen_eq (cs : List (List Nat)) (h : ∀ c ∈ cs, Cov.Valid c) : covsLen cs = .ok (covsB cs).length := by
  have : ∀ (cs : List (List Nat)) (a : Nat), (∀ c ∈ cs, Cov.Valid c) →
      cs.foldl covsLenStep (Outcome.ok a) = .ok (a + (covsB cs).length) := by
    intro cs
    induction cs with
    | nil => intro a _; simp [covsB]
    | cons c cs ih =>
      intro a h
      have hc := h c (by simp)
      simp only [List.foldl_cons, covsLenStep, Cov.encodeLen_eq c hc, ← Cov.encodeW_length c hc]
      rw [ih _ (fun c' hc' => h c' (by simp [hc']))]
      simp only [covsB, List.flatMap_cons, List.length_append, length_wordsToBytes]
      congr 1
      omega
  have := this cs 0 h
  simpa [covsLen] using this

/-- the offsets `covOffsets3` assigns are where the coverage tables lie -/
theorem covOffsets3_spec {B : Bytes} (msg : String) : ∀ (cs : List (List Nat)) (total : Nat) (offs : List Nat) (t : Nat),
    (∀ c ∈ cs, Cov.Valid c) → covOffsets3 msg cs total = .ok (offs, t) → LL.BytesAt B total (covsB cs) →
    offs.length = cs.length ∧ (∀ o ∈ offs, o < 65536) ∧ t = total + (covsB cs).length ∧
    (cs ≠ [] → total ≤ 65535) ∧ readCovSets B offs = .ok cs
  | [], total, offs, t, _, h, _ => by
    simp only [covOffsets3, Outcome.ok.injEq, Prod.mk.injEq] at h
    obtain ⟨rfl, rfl⟩ := h
    simp [covsB, readCovSets]
  | c :: cs, total, offs, t, hv, h, hb => by
    have hc := hv c (by simp)
    simp only [covOffsets3, Cov.encodeLen_eq c hc, ← Cov.encodeW_length c hc] at h
    split at h
    · simp at h
    · rename_i hle
      cases h2 : covOffsets3 msg cs (total + 2 * (Cov.encodeW c).length) with
      | ok r =>
        obtain ⟨r, t'⟩ := r
        rw [h2] at h
        simp only [Outcome.ok.injEq, Prod.mk.injEq] at h
        obtain ⟨rfl, rfl⟩ := h
        have hb' : LL.BytesAt B total (wordsToBytes (Cov.encodeW c) ++ covsB cs) := by
          simpa [covsB] using hb
        have hb2 := SL.bytesAt_append_right hb'
        rw [length_wordsToBytes] at hb2
        obtain ⟨i1, i2, i3, _, i4⟩ := covOffsets3_spec msg cs _ r t' (fun c' hc' => hv c' (by simp [hc'])) h2 hb2
        have hw : w16 total = total := w16_of_lt (by omega)
        refine ⟨by simp [i1], ?_, ?_, fun _ => by omega, ?_⟩
        · intro o ho
          rw [List.mem_cons] at ho
          rcases ho with rfl | ho
          · exact w16_lt _
          · exact i2 o ho
        · rw [i3]
          simp only [covsB, List.flatMap_cons, List.length_append, length_wordsToBytes]
          omega
        · simp only [readCovSets, hw, covReadSet_at c hc (SL.bytesAt_append_left hb'), i4]
      | err e => rw [h2] at h; simp at h
      | panic s => rw [h2] at h; simp at h

theorem covOffsets3_length (msg : String) : ∀ (cs : List (List Nat)) (total : Nat) (offs : List Nat) (t : Nat),
    covOffsets3 msg cs total = .ok (offs, t) → offs.length = cs.length
  | [], _, offs, t, h => by simp [covOffsets3] at h; simp [← h.1]
  | c :: cs, total, offs, t, h => by
    simp only [covOffsets3] at h
    split at h
    · simp at h
    · split at h
      · cases h3 : covOffsets3 msg cs (total + _) with
        | ok r =>
          obtain ⟨r, t''⟩ := r
          rw [h3] at h
          simp only [Outcome.ok.injEq, Prod.mk.injEq] at h
          rw [← h.1]; simp [covOffsets3_length msg cs _ r t'' h3]
        | err e => rw [h3] at h; simp at h
        | panic s => rw [h3] at h; simp at h
      · simp at h
      · simp at h

/-! ### actions -/

def ActOk (a : Action) : Prop := a.1 < 65536 ∧ a.2 < 65536

theorem pairsOf_actionWords : ∀ (as : List Action), pairsOf (actionWords as) = as
  | [] => rfl
  | a :: as => by
    have := pairsOf_actionWords as
    simp only [actionWords] at this
    simp [actionWords, pairsOf, this]

theorem actionWords_length (as : List Action) : (actionWords as).length = 2 * as.length := by
  induction as with
  | nil => rfl
  | cons a as ih =>
    simp only [actionWords] at ih
    simp only [actionWords, List.flatMap_cons, List.length_append, List.length_cons, List.length_nil, ih]
    omega

theorem actionWords_lt (as : List Action) (h : ∀ a ∈ as, ActOk a) : ∀ w ∈ actionWords as, w < 65536 := by
  intro w hw
  simp only [actionWords, List.mem_flatMap, List.mem_cons, List.not_mem_nil, or_false] at hw
  obtain ⟨a, ha, rfl | rfl⟩ := hw
  · exact (h a ha).1
  · exact (h a ha).2

/-! ### SeqContext3 -/

/-- **SeqContext3 round trip** -/
theorem roundtrip3 (covs : List (List Nat)) (actions : List Action) (hv : ∀ c ∈ covs, Cov.Valid c)
    (hne : covs ≠ []) (ha : ∀ a ∈ actions, ActOk a) (b : Bytes) (henc : encode3 covs actions = .ok b) :
    read3 b = .ok (.c3 [] covs [] actions false) ∧ encodeLen3 covs actions = .ok b.length := by
  unfold encode3 at henc
  simp only [covsBytes_eq covs hv] at henc
  cases h1 : covOffsets3 "SeqContext3 too large" covs (6 + 2 * covs.length + 4 * actions.length) with
  | err e => rw [h1] at henc; simp at henc
  | panic s => rw [h1] at henc; simp at henc
  | ok r =>
    obtain ⟨offs, t⟩ := r
    rw [h1] at henc
    simp only [Outcome.ok.injEq] at henc
    have hol := covOffsets3_length _ _ _ _ _ h1
    have hal := actionWords_length actions
    have hB : LL.BytesAt b (6 + 2 * covs.length + 4 * actions.length) (covsB covs) :=
      ⟨wordsToBytes ([3, w16 covs.length, w16 actions.length] ++ offs ++ actionWords actions), [],
        by rw [← henc]; simp,
        by simp only [length_wordsToBytes, List.length_append, List.length_cons, List.length_nil, hol, hal]; omega⟩
    obtain ⟨_, i2, i3, i4, i5⟩ := covOffsets3_spec _ covs _ offs t hv h1 hB
    have hfit := i4 hne
    have w1 : w16 covs.length = offs.length := by rw [hol]; exact w16_of_lt (by omega)
    have w2 : w16 actions.length = actions.length := w16_of_lt (by omega)
    rw [w1, w2] at henc
    have hlt : ∀ w ∈ [3, offs.length, actions.length] ++ offs ++ actionWords actions, w < 65536 := by
      intro w hw
      simp only [List.mem_append, List.mem_cons, List.not_mem_nil, or_false] at hw
      rcases hw with ((rfl | rfl | rfl) | hw) | hw
      · decide
      · omega
      · omega
      · exact i2 w hw
      · exact actionWords_lt actions ha w hw
    have hw : bytesToWords b = 3 :: offs.length :: actions.length ::
        (offs ++ (actionWords actions ++ bytesToWords (covsB covs))) := by
      rw [← henc, bytesToWords_append _ hlt]
      simp [List.append_assoc]
    have hpos : 0 < offs.length := by
      rw [hol]; cases covs with
      | nil => exact absurd rfl hne
      | cons _ _ => simp
    refine ⟨?_, ?_⟩
    · simp only [read3, hw, takeN, List.length_append]
      rw [if_neg (by omega), if_neg (by omega)]
      simp only [List.take_left, List.drop_left]
      rw [if_neg (by simp only [List.length_append]; omega)]
      have : (actionWords actions ++ bytesToWords (covsB covs)).take (2 * actions.length) = actionWords actions := by
        rw [← hal]; exact List.take_left
      simp only [this, i5, pairsOf_actionWords]
    · simp only [encodeLen3, covsLen_eq covs hv]
      rw [← henc]
      simp only [List.length_append, length_wordsToBytes, List.length_cons, List.length_nil, hal, hol]
      congr 1
      omega

/-! ### ChainedSeqContext3 -/

theorem counted_left (l r : List Nat) : counted (l.length :: (l ++ r)) = .ok (l, r) := by
  simp [counted, takeN]

/-- **ChainedSeqContext3 round trip** -/
theorem roundtripC3 (back input look : List (List Nat)) (actions : List Action)
    (hvb : ∀ c ∈ back, Cov.Valid c) (hvi : ∀ c ∈ input, Cov.Valid c) (hvl : ∀ c ∈ look, Cov.Valid c)
    (hne : input ≠ []) (ha : ∀ a ∈ actions, ActOk a) (b : Bytes)
    (henc : encodeC3 back input look actions = .ok b) :
    readC3 b = .ok (.c3 back input look actions true) ∧
    encodeLenC3 back input look actions = .ok b.length := by
  unfold encodeC3 at henc
  simp only [covsBytes_eq back hvb, covsBytes_eq input hvi, covsBytes_eq look hvl] at henc
  generalize hst : 10 + 2 * back.length + 2 * input.length + 2 * look.length + 4 * actions.length = start at henc
  cases h1 : covOffsets3 "ChainedSeqContext3 too large" back start with
  | err e => rw [h1] at henc; simp at henc
  | panic s => rw [h1] at henc; simp at henc
  | ok r1 =>
    obtain ⟨bo, t1⟩ := r1
    rw [h1] at henc
    simp only at henc
    cases h2 : covOffsets3 "ChainedSeqContext3 too large" input t1 with
    | err e => rw [h2] at henc; simp at henc
    | panic s => rw [h2] at henc; simp at henc
    | ok r2 =>
      obtain ⟨io, t2⟩ := r2
      rw [h2] at henc
      simp only at henc
      cases h3 : covOffsets3 "ChainedSeqContext3 too large" look t2 with
      | err e => rw [h3] at henc; simp at henc
      | panic s => rw [h3] at henc; simp at henc
      | ok r3 =>
        obtain ⟨lo, t3⟩ := r3
        rw [h3] at henc
        simp only [Outcome.ok.injEq] at henc
        have hbl := covOffsets3_length _ _ _ _ _ h1
        have hil := covOffsets3_length _ _ _ _ _ h2
        have hll := covOffsets3_length _ _ _ _ _ h3
        have hal := actionWords_length actions
        generalize hW : [3, w16 back.length] ++ bo ++ [w16 input.length] ++ io ++ [w16 look.length] ++ lo ++
          [w16 actions.length] ++ actionWords actions = W at henc
        have hWl : 2 * W.length = start := by
          rw [← hW, ← hst]
          simp only [List.length_append, List.length_cons, List.length_nil, hbl, hil, hll, hal]; omega
        have hB1 : LL.BytesAt b start (covsB back) :=
          ⟨wordsToBytes W, covsB input ++ covsB look, by rw [← henc]; simp [List.append_assoc],
            by rw [length_wordsToBytes, hWl]⟩
        obtain ⟨_, b2, b3, _, b5⟩ := covOffsets3_spec _ back _ bo t1 hvb h1 hB1
        have hB2 : LL.BytesAt b t1 (covsB input) :=
          ⟨wordsToBytes W ++ covsB back, covsB look, by rw [← henc],
            by rw [List.length_append, length_wordsToBytes, hWl, b3]⟩
        obtain ⟨_, i2, i3, i4, i5⟩ := covOffsets3_spec _ input _ io t2 hvi h2 hB2
        have hB3 : LL.BytesAt b t2 (covsB look) :=
          ⟨wordsToBytes W ++ covsB back ++ covsB input, [], by rw [← henc]; simp,
            by rw [List.length_append, List.length_append, length_wordsToBytes, hWl, i3, b3]⟩
        obtain ⟨_, l2, l3, _, l5⟩ := covOffsets3_spec _ look _ lo t3 hvl h3 hB3
        have hfit := i4 hne
        have w1 : w16 back.length = bo.length := by rw [hbl]; exact w16_of_lt (by omega)
        have w2 : w16 input.length = io.length := by rw [hil]; exact w16_of_lt (by omega)
        have w3 : w16 look.length = lo.length := by rw [hll]; exact w16_of_lt (by omega)
        have w4 : w16 actions.length = actions.length := w16_of_lt (by omega)
        rw [w1, w2, w3, w4] at hW
        have hlt : ∀ w ∈ W, w < 65536 := by
          intro w hw
          rw [← hW] at hw
          simp only [List.mem_append, List.mem_cons, List.not_mem_nil, or_false] at hw
          rcases hw with (((((((rfl | rfl) | hw) | rfl) | hw) | rfl) | hw) | rfl) | hw
          · decide
          · omega
          · exact b2 w hw
          · omega
          · exact i2 w hw
          · omega
          · exact l2 w hw
          · omega
          · exact actionWords_lt actions ha w hw
        have hw : bytesToWords b = 3 :: bo.length :: (bo ++ io.length :: (io ++ lo.length :: (lo ++
            actions.length :: (actionWords actions ++ bytesToWords (covsB back ++ covsB input ++ covsB look))))) := by
          rw [← henc, List.append_assoc, List.append_assoc, bytesToWords_append _ hlt, ← hW]
          simp [List.append_assoc]
        have hpos : 0 < io.length := by
          rw [hil]; cases input with
          | nil => exact absurd rfl hne
          | cons _ _ => simp
        refine ⟨?_, ?_⟩
        · simp only [readC3, hw, counted_left]
          rw [if_neg (by omega)]
          simp only [takeN]
          rw [if_neg (by simp only [List.length_append]; omega)]
          have : (actionWords actions ++ bytesToWords (covsB back ++ covsB input ++ covsB look)).take
              (2 * actions.length) = actionWords actions := by
            rw [← hal]; exact List.take_left
          simp only [this, b5, i5, l5, pairsOf_actionWords]
        · simp only [encodeLenC3, covsLen_eq back hvb, covsLen_eq input hvi, covsLen_eq look hvl]
          rw [← henc]
          simp only [List.length_append, length_wordsToBytes]
          congr 1
          omega

/-! ### rules, rule sets, lists of rule sets (formats 1 and 2)

Generic in the rule codec: `rwords`/`rlen` are the words and the size of a rule, `rd` reads one, `ROk`
is its domain. -/

section generic
variable (rwords : Rule → List Nat) (rlen : Rule → Nat) (rd : Bytes → Nat → Outcome Rule) (ROk : Rule → Prop)
  (check : Bool)

theorem ruleOffsets_length : ∀ (rules : List Rule) (pos : Nat) (offs : List Nat),
    ruleOffsets rlen check rules pos = .ok offs → offs.length = rules.length
  | [], _, offs, h => by simp [ruleOffsets] at h; simp [← h]
  | r :: rs, pos, offs, h => by
    simp only [ruleOffsets] at h
    split at h
    · simp at h
    · cases h2 : ruleOffsets rlen check rs (pos + rlen r) with
      | ok o => rw [h2] at h; simp only [Outcome.ok.injEq] at h; rw [← h]; simp [ruleOffsets_length rs _ o h2]
      | err e => rw [h2] at h; simp at h
      | panic s => rw [h2] at h; simp at h

theorem flatMap_rwords_length (hlen : ∀ r, 2 * (rwords r).length = rlen r) : ∀ (rules : List Rule),
    2 * (rules.flatMap rwords).length = (rules.map rlen).sum
  | [] => rfl
  | r :: rs => by
    have := flatMap_rwords_length hlen rs
    have := hlen r
    simp only [List.flatMap_cons, List.length_append, List.map_cons, List.sum_cons]
    omega

theorem setWords_length (hlen : ∀ r, 2 * (rwords r).length = rlen r) (rules : List Rule) (sw : List Nat)
    (h : setWords rwords rlen check rules = .ok sw) : 2 * sw.length = setLen rlen rules := by
  unfold setWords at h
  cases h2 : ruleOffsets rlen check rules (2 + 2 * rules.length) with
  | ok offs =>
    rw [h2] at h
    simp only [Outcome.ok.injEq] at h
    have := ruleOffsets_length rlen check rules _ offs h2
    have := flatMap_rwords_length rwords rlen hlen rules
    rw [← h]
    simp only [List.length_cons, List.length_append, setLen]
    omega
  | err e => rw [h2] at h; simp at h
  | panic s => rw [h2] at h; simp at h

/-- the rules of a set are found through the offsets `ruleOffsets` assigns -/
theorem readRules_spec
    (hrd : ∀ (P T : List Nat) (c : Bytes) (r : Rule), ROk r →
      rd (wordsToBytes (P ++ (rwords r ++ T)) ++ c) (2 * P.length) = .ok r)
    (hlen : ∀ r, 2 * (rwords r).length = rlen r) (hpos : ∀ r, 0 < rlen r) (c : Bytes) (base : Nat) :
    ∀ (rules : List Rule) (Q T : List Nat) (pos0 : Nat) (offs : List Nat),
    (∀ r ∈ rules, ROk r) → ruleOffsets rlen check rules pos0 = .ok offs → base + pos0 = 2 * Q.length →
    pos0 + (rules.map rlen).sum ≤ 65536 →
    readRules rd (wordsToBytes (Q ++ (rules.flatMap rwords ++ T)) ++ c) base offs = .ok rules ∧
    ∀ o ∈ offs, o < 65536
  | [], _, _, _, offs, _, h, _, _ => by
    simp only [ruleOffsets, Outcome.ok.injEq] at h
    subst h
    simp [readRules]
  | r :: rs, Q, T, pos0, offs, hok, h, hb, hfit => by
    simp only [ruleOffsets] at h
    split at h
    · simp at h
    · cases h2 : ruleOffsets rlen check rs (pos0 + rlen r) with
      | ok o =>
        rw [h2] at h
        simp only [Outcome.ok.injEq] at h
        subst h
        simp only [List.map_cons, List.sum_cons] at hfit
        have hr := hpos r
        have hw : w16 pos0 = pos0 := w16_of_lt (by omega)
        have hshape : Q ++ ((r :: rs).flatMap rwords ++ T) = (Q ++ rwords r) ++ (rs.flatMap rwords ++ T) := by
          simp [List.append_assoc]
        obtain ⟨i1, i2⟩ := readRules_spec hrd hlen hpos c base rs (Q ++ rwords r) T (pos0 + rlen r) o
          (fun r' hr' => hok r' (by simp [hr'])) h2
          (by have := hlen r; rw [List.length_append]; omega) (by omega)
        rw [← hshape] at i1
        have hone : rd (wordsToBytes (Q ++ ((r :: rs).flatMap rwords ++ T)) ++ c) (base + pos0) = .ok r := by
          have : Q ++ ((r :: rs).flatMap rwords ++ T) = Q ++ (rwords r ++ (rs.flatMap rwords ++ T)) := by
            simp [List.append_assoc]
          rw [this, hb]
          exact hrd Q _ c r (hok r (by simp))
        refine ⟨?_, ?_⟩
        · simp only [readRules, hw, hone, i1]
        · intro o' ho
          rw [List.mem_cons] at ho
          rcases ho with rfl | ho
          · exact w16_lt _
          · exact i2 o' ho
      | err e => rw [h2] at h; simp at h
      | panic s => rw [h2] at h; simp at h

/-- a rule set written at word position `P.length` is read back -/
theorem readSet_spec
    (hrd : ∀ (P T : List Nat) (c : Bytes) (r : Rule), ROk r →
      rd (wordsToBytes (P ++ (rwords r ++ T)) ++ c) (2 * P.length) = .ok r)
    (hlen : ∀ r, 2 * (rwords r).length = rlen r) (hpos : ∀ r, 0 < rlen r) (c : Bytes)
    (rules : List Rule) (P T : List Nat) (sw : List Nat) (hok : ∀ r ∈ rules, ROk r)
    (hsw : setWords rwords rlen check rules = .ok sw) (hfit : setLen rlen rules ≤ 65536) :
    readSet rd (wordsToBytes (P ++ (sw ++ T)) ++ c) (2 * P.length) = .ok rules := by
  unfold setWords at hsw
  cases h2 : ruleOffsets rlen check rules (2 + 2 * rules.length) with
  | ok offs =>
    rw [h2] at hsw
    simp only [Outcome.ok.injEq] at hsw
    subst hsw
    have hol := ruleOffsets_length rlen check rules _ offs h2
    unfold setLen at hfit
    have hn : w16 rules.length = rules.length := w16_of_lt (by omega)
    obtain ⟨i1, i2⟩ := readRules_spec rwords rlen rd ROk check hrd hlen hpos c (2 * P.length) rules
      (P ++ rules.length :: offs) T (2 + 2 * rules.length) offs hok h2
      (by simp only [List.length_append, List.length_cons, hol]; omega) (by omega)
    have hshape : P ++ rules.length :: offs ++ (rules.flatMap rwords ++ T) =
        P ++ (w16 rules.length :: (offs ++ rules.flatMap rwords) ++ T) := by
      rw [hn]; simp [List.append_assoc]
    rw [hshape] at i1
    have hw : bytesToWords ((wordsToBytes (P ++ (w16 rules.length :: (offs ++ rules.flatMap rwords) ++ T)) ++ c).drop
        (2 * P.length)) = rules.length :: (offs ++ bytesToWords (wordsToBytes (rules.flatMap rwords ++ T) ++ c)) := by
      rw [drop_wordsToBytes_append', hn]
      have : wordsToBytes (rules.length :: (offs ++ rules.flatMap rwords) ++ T) ++ c =
          wordsToBytes (rules.length :: offs) ++ (wordsToBytes (rules.flatMap rwords ++ T) ++ c) := by
        simp [wordsToBytes_append, List.append_assoc, wordsToBytes_cons]
      rw [this, bytesToWords_append _ (by
        intro w hw
        rw [List.mem_cons] at hw
        rcases hw with rfl | hw
        · omega
        · exact i2 w hw)]
      rfl
    generalize wordsToBytes (P ++ (w16 rules.length :: (offs ++ rules.flatMap rwords) ++ T)) ++ c = b at i1 hw ⊢
    unfold readSet
    rw [hw, ← hol, counted_left]
    exact i1
  | err e => rw [h2] at hsw; simp at hsw
  | panic s => rw [h2] at hsw; simp at hsw

theorem setOffsets_mono : ∀ (sets : List (Option (List Rule))) (total : Nat) (offs : List Nat) (t : Nat),
    setOffsets rlen check sets total = .ok (offs, t) → total ≤ t ∧ offs.length = sets.length
  | [], total, offs, t, h => by
    simp only [setOffsets, Outcome.ok.injEq, Prod.mk.injEq] at h
    obtain ⟨rfl, rfl⟩ := h
    simp
  | none :: ss, total, offs, t, h => by
    simp only [setOffsets] at h
    cases h2 : setOffsets rlen check ss total with
    | ok r =>
      obtain ⟨o, t'⟩ := r
      rw [h2] at h
      simp only [Outcome.ok.injEq, Prod.mk.injEq] at h
      obtain ⟨rfl, rfl⟩ := h
      have := setOffsets_mono ss total o t' h2
      exact ⟨this.1, by simp [this.2]⟩
    | err e => rw [h2] at h; simp at h
    | panic s => rw [h2] at h; simp at h
  | some rules :: ss, total, offs, t, h => by
    simp only [setOffsets] at h
    split at h
    · simp at h
    · cases h2 : setOffsets rlen check ss (total + setLen rlen rules) with
      | ok r =>
        obtain ⟨o, t'⟩ := r
        rw [h2] at h
        simp only [Outcome.ok.injEq, Prod.mk.injEq] at h
        obtain ⟨rfl, rfl⟩ := h
        have := setOffsets_mono ss _ o t' h2
        exact ⟨by omega, by simp [this.2]⟩
      | err e => rw [h2] at h; simp at h
      | panic s => rw [h2] at h; simp at h

/-- the rule sets are found through the offsets `setOffsets` assigns -/
theorem readSets_spec
    (hrd : ∀ (P T : List Nat) (c : Bytes) (r : Rule), ROk r →
      rd (wordsToBytes (P ++ (rwords r ++ T)) ++ c) (2 * P.length) = .ok r)
    (hlen : ∀ r, 2 * (rwords r).length = rlen r) (hpos : ∀ r, 0 < rlen r) (c : Bytes) :
    ∀ (sets : List (Option (List Rule))) (P T : List Nat) (total0 : Nat) (offs : List Nat) (t : Nat) (aw : List Nat),
    (∀ s ∈ sets, ∀ rules, s = some rules → ∀ r ∈ rules, ROk r) →
    setOffsets rlen check sets total0 = .ok (offs, t) → allSets rwords rlen check sets = .ok aw →
    total0 = 2 * P.length → 0 < total0 → t ≤ 65536 →
    readSets rd (wordsToBytes (P ++ (aw ++ T)) ++ c) offs = .ok sets ∧ t = total0 + 2 * aw.length ∧
    (∀ o ∈ offs, o < 65536) ∧ t = total0 + setsLen rlen sets
  | [], P, T, total0, offs, t, aw, _, h, ha, _, _, _ => by
    simp only [setOffsets, Outcome.ok.injEq, Prod.mk.injEq] at h
    obtain ⟨rfl, rfl⟩ := h
    simp only [allSets, Outcome.ok.injEq] at ha
    subst ha
    simp [readSets, setsLen]
  | none :: ss, P, T, total0, offs, t, aw, hok, h, ha, hP, h0, hfit => by
    simp only [setOffsets] at h
    cases h2 : setOffsets rlen check ss total0 with
    | ok r =>
      obtain ⟨o, t'⟩ := r
      rw [h2] at h
      simp only [Outcome.ok.injEq, Prod.mk.injEq] at h
      obtain ⟨rfl, rfl⟩ := h
      simp only [allSets] at ha
      obtain ⟨i1, i2, i3, i4⟩ := readSets_spec hrd hlen hpos c ss P T total0 o t' aw
        (fun s hs => hok s (by simp [hs])) h2 ha hP h0 hfit
      refine ⟨?_, i2, ?_, ?_⟩
      · simp only [readSets, beq_self_eq_true, if_true, i1]
      · intro o' ho
        rw [List.mem_cons] at ho
        rcases ho with rfl | ho
        · decide
        · exact i3 o' ho
      · rw [i4]; simp [setsLen, optSetLen]
    | err e => rw [h2] at h; simp at h
    | panic s => rw [h2] at h; simp at h
  | some rules :: ss, P, T, total0, offs, t, aw, hok, h, ha, hP, h0, hfit => by
    simp only [setOffsets] at h
    split at h
    · simp at h
    · cases h2 : setOffsets rlen check ss (total0 + setLen rlen rules) with
      | ok r =>
        obtain ⟨o, t'⟩ := r
        rw [h2] at h
        simp only [Outcome.ok.injEq, Prod.mk.injEq] at h
        obtain ⟨rfl, rfl⟩ := h
        simp only [allSets] at ha
        cases hs : setWords rwords rlen check rules with
        | ok sw =>
          rw [hs] at ha
          cases hr : allSets rwords rlen check ss with
          | ok aw' =>
            rw [hr] at ha
            simp only [Outcome.ok.injEq] at ha
            subst ha
            have hmono := (setOffsets_mono rlen check ss _ o t' h2).1
            have hsl := setWords_length rwords rlen check hlen rules sw hs
            have hsl2 : 2 ≤ setLen rlen rules := by unfold setLen; omega
            obtain ⟨i1, i2, i3, i4⟩ := readSets_spec hrd hlen hpos c ss (P ++ sw) T (total0 + setLen rlen rules)
              o t' aw' (fun s hs' => hok s (by simp [hs'])) h2 hr
              (by rw [List.length_append]; omega) (by omega) hfit
            have hshape : P ++ sw ++ (aw' ++ T) = P ++ (sw ++ aw' ++ T) := by simp [List.append_assoc]
            rw [hshape] at i1
            have hw : w16 total0 = total0 := w16_of_lt (by omega)
            have hset : readSet rd (wordsToBytes (P ++ (sw ++ aw' ++ T)) ++ c) total0 = .ok rules := by
              have := readSet_spec rwords rlen rd ROk check hrd hlen hpos c rules P (aw' ++ T) sw
                (hok (some rules) (by simp) rules rfl) hs (by omega)
              rw [← hP] at this
              simpa [List.append_assoc] using this
            have hne : (total0 == 0) = false := by simp; omega
            refine ⟨?_, ?_, ?_, ?_⟩
            · simp only [readSets, hw, hne, Bool.false_eq_true, if_false, hset, i1]
            · rw [i2, List.length_append]; omega
            · intro o' ho
              rw [List.mem_cons] at ho
              rcases ho with rfl | ho
              · exact w16_lt _
              · exact i3 o' ho
            · rw [i4]; simp only [setsLen, List.map_cons, List.sum_cons, optSetLen]; omega
          | err e => rw [hr] at ha; simp at ha
          | panic s => rw [hr] at ha; simp at ha
        | err e => rw [hs] at ha; simp at ha
        | panic s => rw [hs] at ha; simp at ha
      | err e => rw [h2] at h; simp at h
      | panic s => rw [h2] at h; simp at h

end generic

/-! ### the two rule codecs -/

/-- domain of SeqRule / ClassSeqRule -/
structure ROk1 (r : Rule) : Prop where
  back : r.back = []
  look : r.look = []
  input : ∀ x ∈ r.input, x < 65536
  acts : ∀ a ∈ r.actions, ActOk a
  nin : r.input.length + 1 < 65536
  nact : r.actions.length < 65536

/-- domain of ChainedSeqRule / ChainedClassSeqRule -/
structure ROkC (r : Rule) : Prop where
  backs : ∀ x ∈ r.back, x < 65536
  input : ∀ x ∈ r.input, x < 65536
  looks : ∀ x ∈ r.look, x < 65536
  acts : ∀ a ∈ r.actions, ActOk a
  nback : r.back.length < 65536
  nin : r.input.length + 1 < 65536
  nlook : r.look.length < 65536
  nact : r.actions.length < 65536

theorem ruleLen_eq (r : Rule) : 2 * (ruleWords r).length = ruleLen r := by
  simp only [ruleWords, ruleLen, List.length_append, List.length_cons, List.length_nil, actionWords_length]
  omega

theorem cruleLen_eq (r : Rule) : 2 * (cruleWords r).length = cruleLen r := by
  simp only [cruleWords, cruleLen, List.length_append, List.length_cons, List.length_nil, actionWords_length]
  omega

theorem takeN_left (l r : List Nat) : takeN (l ++ r) l.length = .ok (l, r) := by
  simp [takeN]

theorem readRule_at (P T : List Nat) (c : Bytes) (r : Rule) (h : ROk1 r) :
    readRule (wordsToBytes (P ++ (ruleWords r ++ T)) ++ c) (2 * P.length) = .ok r := by
  have hlt : ∀ w ∈ ruleWords r, w < 65536 := by
    intro w hw
    simp only [ruleWords, List.mem_append, List.mem_cons, List.not_mem_nil, or_false] at hw
    rcases hw with ((rfl | rfl) | hw) | hw
    · exact w16_lt _
    · exact w16_lt _
    · exact h.input w hw
    · exact actionWords_lt _ h.acts w hw
  unfold readRule
  rw [drop_wordsToBytes_append', wordsToBytes_append, List.append_assoc, bytesToWords_append _ hlt]
  simp only [ruleWords, w16_of_lt h.nin, w16_of_lt h.nact, List.cons_append, List.nil_append, List.append_assoc]
  rw [if_neg (by simp)]
  have e1 : r.input.length + 1 - 1 = r.input.length := by omega
  rw [e1, takeN_left]
  simp only
  have hal := actionWords_length r.actions
  rw [← hal, takeN_left]
  simp only [pairsOf_actionWords]
  cases r with
  | mk bk inp lk acts =>
    have h1 := h.back
    have h2 := h.look
    simp only at h1 h2
    subst h1 h2
    rfl

theorem readCRule_at (P T : List Nat) (c : Bytes) (r : Rule) (h : ROkC r) :
    readCRule (wordsToBytes (P ++ (cruleWords r ++ T)) ++ c) (2 * P.length) = .ok r := by
  have hlt : ∀ w ∈ cruleWords r, w < 65536 := by
    intro w hw
    simp only [cruleWords, List.mem_append, List.mem_cons, List.not_mem_nil, or_false] at hw
    rcases hw with ((((((rfl | hw) | rfl) | hw) | rfl) | hw) | rfl) | hw
    · exact w16_lt _
    · exact h.backs w hw
    · exact w16_lt _
    · exact h.input w hw
    · exact w16_lt _
    · exact h.looks w hw
    · exact w16_lt _
    · exact actionWords_lt _ h.acts w hw
  unfold readCRule
  rw [drop_wordsToBytes_append', wordsToBytes_append, List.append_assoc, bytesToWords_append _ hlt]
  simp only [cruleWords, w16_of_lt h.nback, w16_of_lt h.nin, w16_of_lt h.nlook, w16_of_lt h.nact,
    List.cons_append, List.nil_append, List.append_assoc, counted_left]
  rw [if_neg (by simp)]
  have e : r.input.length + 1 - 1 = r.input.length := by omega
  rw [e]
  simp only [takeN_left, counted_left]
  have hal := actionWords_length r.actions
  rw [← hal, takeN_left]
  simp only [pairsOf_actionWords]

/-! ### SeqContext1 -/

theorem pruneC_same {α} (cov : List (Nat × Nat)) (xs : List α) (h : xs.length = cov.length) :
    pruneC cov xs = (cov, xs) := by
  unfold pruneC
  rw [if_neg (by omega), ← h, List.take_length]

/-- **SeqContext1 round trip** -/
theorem roundtrip1 (rev : List Nat) (sets : List (Option (List Rule))) (h : Cov.Valid rev)
    (hl : sets.length = rev.length)
    (hok : ∀ s ∈ sets, ∀ rules, s = some rules → ∀ r ∈ rules, ROk1 r) (b : Bytes)
    (henc : encode1 rev sets = .ok b) :
    read1 b = .ok (.c1 false rev.zipIdx sets) ∧ encodeLen1 rev sets = .ok b.length := by
  unfold encode1 at henc
  simp only [Cov.encodeLen_eq rev h, Cov.encode_eq rev h] at henc
  cases h1 : setOffsets ruleLen false sets (6 + 2 * sets.length) with
  | err e => rw [h1] at henc; simp at henc
  | panic s => rw [h1] at henc; simp at henc
  | ok r1 =>
    obtain ⟨offs, covOff⟩ := r1
    rw [h1] at henc
    simp only at henc
    split at henc
    · simp at henc
    rename_i hfit
    cases h2 : allSets ruleWords ruleLen false sets with
    | err e => rw [h2] at henc; simp at henc
    | panic s => rw [h2] at henc; simp at henc
    | ok w =>
      rw [h2] at henc
      simp only [Outcome.ok.injEq] at henc
      have hol := (setOffsets_mono ruleLen false sets _ offs covOff h1).2
      have hn : sets.length < 65536 := by
        have := (setOffsets_mono ruleLen false sets _ offs covOff h1).1; omega
      rw [w16_of_lt (show covOff < 65536 by omega), w16_of_lt hn] at henc
      obtain ⟨i1, i2, i3, i4⟩ := readSets_spec ruleWords ruleLen readRule ROk1 false readRule_at ruleLen_eq
        (fun r => by unfold ruleLen; omega) (wordsToBytes (Cov.encodeW rev)) sets
        ([1, covOff, sets.length] ++ offs) [] (6 + 2 * sets.length) offs covOff w hok h1 h2
        (by simp only [List.length_append, List.length_cons, List.length_nil, hol]; omega) (by omega) (by omega)
      rw [List.append_nil, henc] at i1
      have hPlt : ∀ x ∈ [1, covOff, sets.length] ++ offs, x < 65536 := by
        intro x hx
        simp only [List.mem_append, List.mem_cons, List.not_mem_nil, or_false] at hx
        rcases hx with (rfl | rfl | rfl) | hx
        · decide
        · omega
        · omega
        · exact i3 x hx
      have hw : bytesToWords b = 1 :: covOff :: offs.length :: (offs ++
          bytesToWords (wordsToBytes w ++ wordsToBytes (Cov.encodeW rev))) := by
        rw [← henc, wordsToBytes_append, List.append_assoc, bytesToWords_append _ hPlt, hol]
        rfl
      have hdrop : b.drop covOff = wordsToBytes (Cov.encodeW rev) := by
        have e : covOff = 2 * ([1, covOff, sets.length] ++ offs ++ w).length := by
          simp only [List.length_append, List.length_cons, List.length_nil, hol]; omega
        rw [← henc]
        conv => lhs; rw [e]
        exact drop_wordsToBytes_append _ _
      have hcov : Cov.read (wordsToBytes (Cov.encodeW rev)) = .ok rev.zipIdx := by
        unfold Cov.read
        rw [bytesToWords_wordsToBytes _ (Cov.encodeW_lt rev h)]
        exact (Cov.readW_encodeW rev h).1
      refine ⟨?_, ?_⟩
      · simp only [read1, hw, counted_left, hdrop, hcov]
        rw [pruneC_same _ _ (by simp [hol, hl])]
        simp only [i1]
      · simp only [encodeLen1, Cov.encodeLen_eq rev h, ← Cov.encodeW_length rev h]
        rw [← henc]
        simp only [List.length_append, length_wordsToBytes, List.length_cons, List.length_nil, hol]
        congr 1
        omega

/-! ### ChainedSeqContext1 (the reader checks the running sizes as the encoder does) -/

theorem goC1_spec (c : Bytes) (base : Nat) : ∀ (rules : List Rule) (Q T : List Nat) (pos0 : Nat) (offs : List Nat),
    (∀ r ∈ rules, ROkC r) → ruleOffsets cruleLen true rules pos0 = .ok offs → base + pos0 = 2 * Q.length →
    readSetsC1.go (wordsToBytes (Q ++ (rules.flatMap cruleWords ++ T)) ++ c) base offs pos0 =
      .ok (rules, pos0 + (rules.map cruleLen).sum) ∧ ∀ o ∈ offs, o < 65536
  | [], _, _, _, offs, _, h, _ => by
    simp only [ruleOffsets, Outcome.ok.injEq] at h
    subst h
    simp [readSetsC1.go]
  | r :: rs, Q, T, pos0, offs, hok, h, hb => by
    simp only [ruleOffsets, Bool.true_and, decide_eq_true_eq] at h
    split at h
    · simp at h
    · rename_i hle
      cases h2 : ruleOffsets cruleLen true rs (pos0 + cruleLen r) with
      | ok o =>
        rw [h2] at h
        simp only [Outcome.ok.injEq] at h
        subst h
        have hw : w16 pos0 = pos0 := w16_of_lt (by omega)
        have hshape : Q ++ ((r :: rs).flatMap cruleWords ++ T) = (Q ++ cruleWords r) ++ (rs.flatMap cruleWords ++ T) := by
          simp [List.append_assoc]
        obtain ⟨i1, i2⟩ := goC1_spec c base rs (Q ++ cruleWords r) T (pos0 + cruleLen r) o
          (fun r' hr' => hok r' (by simp [hr'])) h2
          (by have := cruleLen_eq r; rw [List.length_append]; omega)
        rw [← hshape] at i1
        have hone : readCRule (wordsToBytes (Q ++ ((r :: rs).flatMap cruleWords ++ T)) ++ c) (base + pos0) = .ok r := by
          have : Q ++ ((r :: rs).flatMap cruleWords ++ T) = Q ++ (cruleWords r ++ (rs.flatMap cruleWords ++ T)) := by
            simp [List.append_assoc]
          rw [this, hb]
          exact readCRule_at Q _ c r (hok r (by simp))
        refine ⟨?_, ?_⟩
        · simp only [readSetsC1.go, hw, hone]
          rw [if_neg hle, i1]
          simp only [List.map_cons, List.sum_cons, Nat.add_assoc]
        · intro o' ho
          rw [List.mem_cons] at ho
          rcases ho with rfl | ho
          · exact w16_lt _
          · exact i2 o' ho
      | err e => rw [h2] at h; simp at h
      | panic s => rw [h2] at h; simp at h

theorem readSetsC1_spec (c : Bytes) :
    ∀ (sets : List (Option (List Rule))) (P T : List Nat) (total0 : Nat) (offs : List Nat) (t : Nat) (aw : List Nat),
    (∀ s ∈ sets, ∀ rules, s = some rules → ∀ r ∈ rules, ROkC r) →
    setOffsets cruleLen true sets total0 = .ok (offs, t) → allSets cruleWords cruleLen true sets = .ok aw →
    total0 = 2 * P.length → 0 < total0 →
    readSetsC1 (wordsToBytes (P ++ (aw ++ T)) ++ c) offs total0 = .ok sets ∧ t = total0 + 2 * aw.length ∧
    (∀ o ∈ offs, o < 65536) ∧ t = total0 + setsLen cruleLen sets
  | [], P, T, total0, offs, t, aw, _, h, ha, _, _ => by
    simp only [setOffsets, Outcome.ok.injEq, Prod.mk.injEq] at h
    obtain ⟨rfl, rfl⟩ := h
    simp only [allSets, Outcome.ok.injEq] at ha
    subst ha
    simp [readSetsC1, setsLen]
  | none :: ss, P, T, total0, offs, t, aw, hok, h, ha, hP, h0 => by
    simp only [setOffsets] at h
    cases h2 : setOffsets cruleLen true ss total0 with
    | ok r =>
      obtain ⟨o, t'⟩ := r
      rw [h2] at h
      simp only [Outcome.ok.injEq, Prod.mk.injEq] at h
      obtain ⟨rfl, rfl⟩ := h
      simp only [allSets] at ha
      obtain ⟨i1, i2, i3, i4⟩ := readSetsC1_spec c ss P T total0 o t' aw
        (fun s hs => hok s (by simp [hs])) h2 ha hP h0
      refine ⟨?_, i2, ?_, ?_⟩
      · simp only [readSetsC1, beq_self_eq_true, if_true, i1]
      · intro o' ho
        rw [List.mem_cons] at ho
        rcases ho with rfl | ho
        · decide
        · exact i3 o' ho
      · rw [i4]; simp [setsLen, optSetLen]
    | err e => rw [h2] at h; simp at h
    | panic s => rw [h2] at h; simp at h
  | some rules :: ss, P, T, total0, offs, t, aw, hok, h, ha, hP, h0 => by
    simp only [setOffsets, Bool.true_and, decide_eq_true_eq] at h
    split at h
    · simp at h
    · rename_i hle
      cases h2 : setOffsets cruleLen true ss (total0 + setLen cruleLen rules) with
      | ok r =>
        obtain ⟨o, t'⟩ := r
        rw [h2] at h
        simp only [Outcome.ok.injEq, Prod.mk.injEq] at h
        obtain ⟨rfl, rfl⟩ := h
        simp only [allSets] at ha
        cases hs : setWords cruleWords cruleLen true rules with
        | ok sw =>
          rw [hs] at ha
          cases hr : allSets cruleWords cruleLen true ss with
          | ok aw' =>
            rw [hr] at ha
            simp only [Outcome.ok.injEq] at ha
            subst ha
            have hsl := setWords_length cruleWords cruleLen true cruleLen_eq rules sw hs
            have hsl2 : 2 ≤ setLen cruleLen rules := by unfold setLen; omega
            obtain ⟨i1, i2, i3, i4⟩ := readSetsC1_spec c ss (P ++ sw) T (total0 + setLen cruleLen rules)
              o t' aw' (fun s hs' => hok s (by simp [hs'])) h2 hr
              (by rw [List.length_append]; omega) (by omega)
            have hshape : P ++ sw ++ (aw' ++ T) = P ++ (sw ++ aw' ++ T) := by simp [List.append_assoc]
            rw [hshape] at i1
            have hw : w16 total0 = total0 := w16_of_lt (by omega)
            have hne : (total0 == 0) = false := by simp; omega
            -- inside the set
            unfold setWords at hs
            cases hro : ruleOffsets cruleLen true rules (2 + 2 * rules.length) with
            | ok ro =>
              rw [hro] at hs
              simp only [Outcome.ok.injEq] at hs
              subst hs
              have hrol := ruleOffsets_length cruleLen true rules _ ro hro
              have hn : rules.length < 65536 := by
                cases rules with
                | nil => simp
                | cons r0 rs0 =>
                  simp only [ruleOffsets, Bool.true_and, decide_eq_true_eq] at hro
                  split at hro
                  · simp at hro
                  · simp only [List.length_cons] at *; omega
              have hnw : w16 rules.length = rules.length := w16_of_lt hn
              obtain ⟨g1, g2⟩ := goC1_spec c total0 rules (P ++ rules.length :: ro) (aw' ++ T)
                (2 + 2 * rules.length) ro (hok (some rules) (by simp) rules rfl) hro
                (by simp only [List.length_append, List.length_cons, hrol]; omega)
              have hshape2 : P ++ rules.length :: ro ++ (rules.flatMap cruleWords ++ (aw' ++ T)) =
                  P ++ (w16 rules.length :: (ro ++ rules.flatMap cruleWords) ++ aw' ++ T) := by
                rw [hnw]; simp [List.append_assoc]
              rw [hshape2] at g1
              have hcw : bytesToWords ((wordsToBytes (P ++ (w16 rules.length :: (ro ++ rules.flatMap cruleWords) ++ aw' ++ T)) ++ c).drop
                  total0) = ro.length :: (ro ++ bytesToWords (wordsToBytes (rules.flatMap cruleWords ++ aw' ++ T) ++ c)) := by
                rw [hP, drop_wordsToBytes_append', hnw, hrol]
                have : wordsToBytes (rules.length :: (ro ++ rules.flatMap cruleWords) ++ aw' ++ T) ++ c =
                    wordsToBytes (rules.length :: ro) ++ (wordsToBytes (rules.flatMap cruleWords ++ aw' ++ T) ++ c) := by
                  simp [wordsToBytes_append, List.append_assoc, wordsToBytes_cons]
                rw [this, bytesToWords_append _ (by
                  intro w hw'
                  rw [List.mem_cons] at hw'
                  rcases hw' with rfl | hw'
                  · omega
                  · exact g2 w hw')]
                rfl
              generalize wordsToBytes (P ++ (w16 rules.length :: (ro ++ rules.flatMap cruleWords) ++ aw' ++ T)) ++ c = b
                at i1 g1 hcw ⊢
              have hsize : 2 + 2 * rules.length + (rules.map cruleLen).sum = setLen cruleLen rules := rfl
              refine ⟨?_, ?_, ?_, ?_⟩
              · simp only [readSetsC1, hw, hne, Bool.false_eq_true, if_false, hcw, counted_left]
                rw [if_neg (by omega), hrol, g1]
                simp only
                rw [hsize, i1]
              · rw [i2, List.length_append]; omega
              · intro o' ho
                rw [List.mem_cons] at ho
                rcases ho with rfl | ho
                · exact w16_lt _
                · exact i3 o' ho
              · rw [i4]; simp only [setsLen, List.map_cons, List.sum_cons, optSetLen]; omega
            | err e => rw [hro] at hs; simp at hs
            | panic s => rw [hro] at hs; simp at hs
          | err e => rw [hr] at ha; simp at ha
          | panic s => rw [hr] at ha; simp at ha
        | err e => rw [hs] at ha; simp at ha
        | panic s => rw [hs] at ha; simp at ha
      | err e => rw [h2] at h; simp at h
      | panic s => rw [h2] at h; simp at h

theorem map_fst_zipIdx : ∀ (l : List Nat) (k : Nat), (l.zipIdx k).map (·.1) = l
  | [], _ => rfl
  | x :: l, k => by simp [List.zipIdx_cons, map_fst_zipIdx l (k + 1)]

theorem covLenOf_zipIdx (rev : List Nat) (h : Cov.Valid rev) :
    covLenOf rev.zipIdx = 2 * (Cov.encodeW rev).length := by
  unfold covLenOf
  rw [map_fst_zipIdx, Cov.encodeLen_eq rev h, ← Cov.encodeW_length rev h]

/-- **ChainedSeqContext1 round trip** -/
theorem roundtripC1 (rev : List Nat) (sets : List (Option (List Rule))) (h : Cov.Valid rev)
    (hl : sets.length = rev.length) (hn : 6 + 2 * sets.length ≤ 65535)
    (hok : ∀ s ∈ sets, ∀ rules, s = some rules → ∀ r ∈ rules, ROkC r) (b : Bytes)
    (henc : encodeC1 rev sets = .ok b) :
    readC1 b = .ok (.c1 true rev.zipIdx sets) ∧ encodeLenC1 rev sets = .ok b.length := by
  unfold encodeC1 at henc
  simp only [Cov.encodeLen_eq rev h, ← Cov.encodeW_length rev h, Cov.encode_eq rev h] at henc
  cases h1 : setOffsets cruleLen true sets (6 + 2 * sets.length + 2 * (Cov.encodeW rev).length) with
  | err e => rw [h1] at henc; simp at henc
  | panic s => rw [h1] at henc; simp at henc
  | ok r1 =>
    obtain ⟨offs, t⟩ := r1
    rw [h1] at henc
    simp only at henc
    cases h2 : allSets cruleWords cruleLen true sets with
    | err e => rw [h2] at henc; simp at henc
    | panic s => rw [h2] at henc; simp at henc
    | ok w =>
      rw [h2] at henc
      simp only [Outcome.ok.injEq] at henc
      have hol := (setOffsets_mono cruleLen true sets _ offs t h1).2
      rw [w16_of_lt (show 6 + 2 * sets.length < 65536 by omega), w16_of_lt (show sets.length < 65536 by omega)] at henc
      obtain ⟨i1, i2, i3, i4⟩ := readSetsC1_spec [] sets
        ([1, 6 + 2 * sets.length, sets.length] ++ offs ++ Cov.encodeW rev) [] _ offs t w hok h1 h2
        (by simp only [List.length_append, List.length_cons, List.length_nil, hol]; omega) (by omega)
      have hb : b = wordsToBytes ([1, 6 + 2 * sets.length, sets.length] ++ offs ++ Cov.encodeW rev ++ (w ++ [])) ++ [] := by
        rw [← henc, List.append_nil, List.append_nil]
        simp only [wordsToBytes_append]
      rw [← hb] at i1
      have hPlt : ∀ x ∈ [1, 6 + 2 * sets.length, sets.length] ++ offs, x < 65536 := by
        intro x hx
        simp only [List.mem_append, List.mem_cons, List.not_mem_nil, or_false] at hx
        rcases hx with (rfl | rfl | rfl) | hx
        · decide
        · omega
        · omega
        · exact i3 x hx
      have hw : bytesToWords b = 1 :: (6 + 2 * sets.length) :: offs.length :: (offs ++
          bytesToWords (wordsToBytes (Cov.encodeW rev) ++ wordsToBytes w)) := by
        rw [← henc, List.append_assoc, bytesToWords_append _ hPlt, hol]
        rfl
      have hcov : Cov.read (b.drop (6 + 2 * sets.length)) = .ok rev.zipIdx := by
        have := GposMark.covRead_words rev h ([1, 6 + 2 * sets.length, sets.length] ++ offs) (w ++ []) []
        have e : 2 * ([1, 6 + 2 * sets.length, sets.length] ++ offs).length = 6 + 2 * sets.length := by
          simp only [List.length_append, List.length_cons, List.length_nil, hol]; omega
        rw [e] at this
        rw [hb]
        simpa [List.append_assoc] using this
      refine ⟨?_, ?_⟩
      · simp only [readC1, hw, counted_left, hcov]
        rw [pruneC_same _ _ (by simp [hol, hl])]
        simp only [covLenOf_zipIdx rev h, hol, i1]
      · simp only [encodeLenC1, Cov.encodeLen_eq rev h, ← Cov.encodeW_length rev h]
        rw [← henc]
        simp only [List.length_append, length_wordsToBytes, List.length_cons, List.length_nil, hol]
        congr 1
        omega

/-! ### chained rules read by the generic reader (ChainedSeqContext2) -/

theorem readRulesC_spec (c : Bytes) (base : Nat) : ∀ (rules : List Rule) (Q T : List Nat) (pos0 : Nat) (offs : List Nat),
    (∀ r ∈ rules, ROkC r) → ruleOffsets cruleLen true rules pos0 = .ok offs → base + pos0 = 2 * Q.length →
    readRules readCRule (wordsToBytes (Q ++ (rules.flatMap cruleWords ++ T)) ++ c) base offs = .ok rules ∧
      ∀ o ∈ offs, o < 65536
  | [], _, _, _, offs, _, h, _ => by
    simp only [ruleOffsets, Outcome.ok.injEq] at h
    subst h
    simp [readRules]
  | r :: rs, Q, T, pos0, offs, hok, h, hb => by
    simp only [ruleOffsets, Bool.true_and, decide_eq_true_eq] at h
    split at h
    · simp at h
    · rename_i hle
      cases h2 : ruleOffsets cruleLen true rs (pos0 + cruleLen r) with
      | ok o =>
        rw [h2] at h
        simp only [Outcome.ok.injEq] at h
        subst h
        have hw : w16 pos0 = pos0 := w16_of_lt (by omega)
        have hshape : Q ++ ((r :: rs).flatMap cruleWords ++ T) = (Q ++ cruleWords r) ++ (rs.flatMap cruleWords ++ T) := by
          simp [List.append_assoc]
        obtain ⟨i1, i2⟩ := readRulesC_spec c base rs (Q ++ cruleWords r) T (pos0 + cruleLen r) o
          (fun r' hr' => hok r' (by simp [hr'])) h2
          (by have := cruleLen_eq r; rw [List.length_append]; omega)
        rw [← hshape] at i1
        have hone : readCRule (wordsToBytes (Q ++ ((r :: rs).flatMap cruleWords ++ T)) ++ c) (base + pos0) = .ok r := by
          have : Q ++ ((r :: rs).flatMap cruleWords ++ T) = Q ++ (cruleWords r ++ (rs.flatMap cruleWords ++ T)) := by
            simp [List.append_assoc]
          rw [this, hb]
          exact readCRule_at Q _ c r (hok r (by simp))
        refine ⟨?_, ?_⟩
        · simp only [readRules, hw, hone, i1]
        · intro o' ho
          rw [List.mem_cons] at ho
          rcases ho with rfl | ho
          · exact w16_lt _
          · exact i2 o' ho
      | err e => rw [h2] at h; simp at h
      | panic s => rw [h2] at h; simp at h

theorem readSetsC_spec (c : Bytes) :
    ∀ (sets : List (Option (List Rule))) (P T : List Nat) (total0 : Nat) (offs : List Nat) (t : Nat) (aw : List Nat),
    (∀ s ∈ sets, ∀ rules, s = some rules → ∀ r ∈ rules, ROkC r) →
    setOffsets cruleLen true sets total0 = .ok (offs, t) → allSets cruleWords cruleLen true sets = .ok aw →
    total0 = 2 * P.length → 0 < total0 →
    readSets readCRule (wordsToBytes (P ++ (aw ++ T)) ++ c) offs = .ok sets ∧ t = total0 + 2 * aw.length ∧
    (∀ o ∈ offs, o < 65536) ∧ t = total0 + setsLen cruleLen sets
  | [], P, T, total0, offs, t, aw, _, h, ha, _, _ => by
    simp only [setOffsets, Outcome.ok.injEq, Prod.mk.injEq] at h
    obtain ⟨rfl, rfl⟩ := h
    simp only [allSets, Outcome.ok.injEq] at ha
    subst ha
    simp [readSets, setsLen]
  | none :: ss, P, T, total0, offs, t, aw, hok, h, ha, hP, h0 => by
    simp only [setOffsets] at h
    cases h2 : setOffsets cruleLen true ss total0 with
    | ok r =>
      obtain ⟨o, t'⟩ := r
      rw [h2] at h
      simp only [Outcome.ok.injEq, Prod.mk.injEq] at h
      obtain ⟨rfl, rfl⟩ := h
      simp only [allSets] at ha
      obtain ⟨i1, i2, i3, i4⟩ := readSetsC_spec c ss P T total0 o t' aw
        (fun s hs => hok s (by simp [hs])) h2 ha hP h0
      refine ⟨?_, i2, ?_, ?_⟩
      · simp only [readSets, beq_self_eq_true, if_true, i1]
      · intro o' ho
        rw [List.mem_cons] at ho
        rcases ho with rfl | ho
        · decide
        · exact i3 o' ho
      · rw [i4]; simp [setsLen, optSetLen]
    | err e => rw [h2] at h; simp at h
    | panic s => rw [h2] at h; simp at h
  | some rules :: ss, P, T, total0, offs, t, aw, hok, h, ha, hP, h0 => by
    simp only [setOffsets, Bool.true_and, decide_eq_true_eq] at h
    split at h
    · simp at h
    · rename_i hle
      cases h2 : setOffsets cruleLen true ss (total0 + setLen cruleLen rules) with
      | ok r =>
        obtain ⟨o, t'⟩ := r
        rw [h2] at h
        simp only [Outcome.ok.injEq, Prod.mk.injEq] at h
        obtain ⟨rfl, rfl⟩ := h
        simp only [allSets] at ha
        cases hs : setWords cruleWords cruleLen true rules with
        | ok sw =>
          rw [hs] at ha
          cases hr : allSets cruleWords cruleLen true ss with
          | ok aw' =>
            rw [hr] at ha
            simp only [Outcome.ok.injEq] at ha
            subst ha
            have hsl := setWords_length cruleWords cruleLen true cruleLen_eq rules sw hs
            have hsl2 : 2 ≤ setLen cruleLen rules := by unfold setLen; omega
            obtain ⟨i1, i2, i3, i4⟩ := readSetsC_spec c ss (P ++ sw) T (total0 + setLen cruleLen rules)
              o t' aw' (fun s hs' => hok s (by simp [hs'])) h2 hr
              (by rw [List.length_append]; omega) (by omega)
            have hshape : P ++ sw ++ (aw' ++ T) = P ++ (sw ++ aw' ++ T) := by simp [List.append_assoc]
            rw [hshape] at i1
            have hw : w16 total0 = total0 := w16_of_lt (by omega)
            have hne : (total0 == 0) = false := by simp; omega
            -- inside the set
            unfold setWords at hs
            cases hro : ruleOffsets cruleLen true rules (2 + 2 * rules.length) with
            | ok ro =>
              rw [hro] at hs
              simp only [Outcome.ok.injEq] at hs
              subst hs
              have hrol := ruleOffsets_length cruleLen true rules _ ro hro
              have hn : rules.length < 65536 := by
                cases rules with
                | nil => simp
                | cons r0 rs0 =>
                  simp only [ruleOffsets, Bool.true_and, decide_eq_true_eq] at hro
                  split at hro
                  · simp at hro
                  · simp only [List.length_cons] at *; omega
              have hnw : w16 rules.length = rules.length := w16_of_lt hn
              obtain ⟨g1, g2⟩ := readRulesC_spec c total0 rules (P ++ rules.length :: ro) (aw' ++ T)
                (2 + 2 * rules.length) ro (hok (some rules) (by simp) rules rfl) hro
                (by simp only [List.length_append, List.length_cons, hrol]; omega)
              have hshape2 : P ++ rules.length :: ro ++ (rules.flatMap cruleWords ++ (aw' ++ T)) =
                  P ++ (w16 rules.length :: (ro ++ rules.flatMap cruleWords) ++ aw' ++ T) := by
                rw [hnw]; simp [List.append_assoc]
              rw [hshape2] at g1
              have hcw : bytesToWords ((wordsToBytes (P ++ (w16 rules.length :: (ro ++ rules.flatMap cruleWords) ++ aw' ++ T)) ++ c).drop
                  total0) = ro.length :: (ro ++ bytesToWords (wordsToBytes (rules.flatMap cruleWords ++ aw' ++ T) ++ c)) := by
                rw [hP, drop_wordsToBytes_append', hnw, hrol]
                have : wordsToBytes (rules.length :: (ro ++ rules.flatMap cruleWords) ++ aw' ++ T) ++ c =
                    wordsToBytes (rules.length :: ro) ++ (wordsToBytes (rules.flatMap cruleWords ++ aw' ++ T) ++ c) := by
                  simp [wordsToBytes_append, List.append_assoc, wordsToBytes_cons]
                rw [this, bytesToWords_append _ (by
                  intro w hw'
                  rw [List.mem_cons] at hw'
                  rcases hw' with rfl | hw'
                  · omega
                  · exact g2 w hw')]
                rfl
              generalize wordsToBytes (P ++ (w16 rules.length :: (ro ++ rules.flatMap cruleWords) ++ aw' ++ T)) ++ c = b
                at i1 g1 hcw ⊢
              have hsize : 2 + 2 * rules.length + (rules.map cruleLen).sum = setLen cruleLen rules := rfl
              refine ⟨?_, ?_, ?_, ?_⟩
              · simp only [readSets, readSet, hw, hne, Bool.false_eq_true, if_false, hcw, counted_left, g1, i1]
              · rw [i2, List.length_append]; omega
              · intro o' ho
                rw [List.mem_cons] at ho
                rcases ho with rfl | ho
                · exact w16_lt _
                · exact i3 o' ho
              · rw [i4]; simp only [setsLen, List.map_cons, List.sum_cons, optSetLen]; omega
            | err e => rw [hro] at hs; simp at hs
            | panic s => rw [hro] at hs; simp at hs
          | err e => rw [hr] at ha; simp at ha
          | panic s => rw [hr] at ha; simp at ha
        | err e => rw [hs] at ha; simp at ha
        | panic s => rw [hs] at ha; simp at ha
      | err e => rw [h2] at h; simp at h
      | panic s => rw [h2] at h; simp at h

/-! ### SeqContext2 -/

/-- what a class definition table contributes: its bytes, their number, and what the reader makes of
them whatever follows -/
structure PartGood (c : ClassPart) (B : Bytes) (k : List (Nat × Nat)) : Prop where
  bytes : c.bytes = .ok B
  len : c.len = B.length
  read : ∀ tail, ClassDef.read (B ++ tail) = .ok k

theorem partGood_of_table (m : ClassDef.Tab) (hm : Gdef.ClassGood m) (B : Bytes)
    (hB : ClassDef.append m = .ok B) :
    ∃ k, PartGood ⟨ClassDef.append m, ClassDef.appendLen m⟩ B k ∧ ∀ g, ClassDef.classOf k g = ClassDef.get m g := by
  obtain ⟨hl, ws, es, rfl, hlt, hr, hc⟩ := Gdef.classPart_spec m hm B hB
  refine ⟨es, ⟨hB, hl.symm, ?_⟩, hc⟩
  intro tail
  unfold ClassDef.read
  rw [bytesToWords_append _ hlt]
  exact ClassDef.readW_append_of_ok _ _ _ hr

/-- **SeqContext2 round trip** (`hcls`: the class definition table has a class for every rule set -
the reader drops rule sets beyond the number of classes) -/
theorem roundtrip2 (rev : List Nat) (cd : ClassPart) (D : Bytes) (k : List (Nat × Nat)) (g : PartGood cd D k)
    (sets : List (Option (List Rule))) (h : Cov.Valid rev) (hcls : sets.length ≤ numClasses k)
    (hok : ∀ s ∈ sets, ∀ rules, s = some rules → ∀ r ∈ rules, ROk1 r) (b : Bytes)
    (henc : encode2 rev cd sets = .ok b) :
    read2 b = .ok (.c2 false rev.zipIdx [k] sets) ∧ encodeLen2 rev cd sets = .ok b.length := by
  unfold encode2 at henc
  simp only [Cov.encodeLen_eq rev h, ← Cov.encodeW_length rev h, Cov.encode_eq rev h, g.bytes] at henc
  cases h1 : setOffsets ruleLen false sets (8 + 2 * sets.length) with
  | err e => rw [h1] at henc; simp at henc
  | panic s => rw [h1] at henc; simp at henc
  | ok r1 =>
    obtain ⟨offs, covOff⟩ := r1
    rw [h1] at henc
    simp only at henc
    split at henc
    · simp at henc
    rename_i hfit
    cases h2 : allSets ruleWords ruleLen false sets with
    | err e => rw [h2] at henc; simp at henc
    | panic s => rw [h2] at henc; simp at henc
    | ok w =>
      rw [h2] at henc
      simp only [Outcome.ok.injEq] at henc
      have hmono := setOffsets_mono ruleLen false sets _ offs covOff h1
      have hol := hmono.2
      rw [w16_of_lt (show covOff < 65536 by omega),
        w16_of_lt (show covOff + 2 * (Cov.encodeW rev).length < 65536 by omega),
        w16_of_lt (show sets.length < 65536 by omega)] at henc
      obtain ⟨i1, i2, i3, i4⟩ := readSets_spec ruleWords ruleLen readRule ROk1 false readRule_at ruleLen_eq
        (fun r => by unfold ruleLen; omega) (wordsToBytes (Cov.encodeW rev) ++ D) sets
        ([2, covOff, covOff + 2 * (Cov.encodeW rev).length, sets.length] ++ offs) [] (8 + 2 * sets.length) offs
        covOff w hok h1 h2
        (by simp only [List.length_append, List.length_cons, List.length_nil, hol]; omega) (by omega) (by omega)
      have hb : b = wordsToBytes ([2, covOff, covOff + 2 * (Cov.encodeW rev).length, sets.length] ++ offs ++ (w ++ [])) ++
          (wordsToBytes (Cov.encodeW rev) ++ D) := by
        rw [← henc, List.append_nil, List.append_assoc]
      rw [← hb] at i1
      have hPlt : ∀ x ∈ [2, covOff, covOff + 2 * (Cov.encodeW rev).length, sets.length] ++ offs, x < 65536 := by
        intro x hx
        simp only [List.mem_append, List.mem_cons, List.not_mem_nil, or_false] at hx
        rcases hx with (rfl | rfl | rfl | rfl) | hx
        · decide
        · omega
        · omega
        · omega
        · exact i3 x hx
      have hw : bytesToWords b = 2 :: covOff :: (covOff + 2 * (Cov.encodeW rev).length) :: offs.length :: (offs ++
          bytesToWords (wordsToBytes w ++ wordsToBytes (Cov.encodeW rev) ++ D)) := by
        rw [← henc, wordsToBytes_append, List.append_assoc, List.append_assoc, bytesToWords_append _ hPlt, hol]
        simp [List.append_assoc]
      have hdrop : b.drop covOff = wordsToBytes (Cov.encodeW rev) ++ D := by
        have e : covOff = 2 * ([2, covOff, covOff + 2 * (Cov.encodeW rev).length, sets.length] ++ offs ++ w).length := by
          simp only [List.length_append, List.length_cons, List.length_nil, hol]; omega
        rw [← henc, List.append_assoc]
        conv => lhs; rw [e]
        exact drop_wordsToBytes_append _ _
      have hdrop2 : b.drop (covOff + 2 * (Cov.encodeW rev).length) = D ++ [] := by
        rw [← List.drop_drop, hdrop, ← length_wordsToBytes, List.append_nil]
        exact List.drop_left
      have hcov : Cov.read (wordsToBytes (Cov.encodeW rev) ++ D) = .ok rev.zipIdx := by
        unfold Cov.read
        rw [bytesToWords_append _ (Cov.encodeW_lt rev h)]
        exact Cov.readW_encodeW_append rev h _
      refine ⟨?_, ?_⟩
      · simp only [read2, hw, counted_left, hdrop, hdrop2, hcov, g.read]
        rw [List.take_of_length_le (by omega), i1]
        simp only
        rw [if_neg (by rw [covLenOf_zipIdx rev h, hol]; omega)]
      · simp only [encodeLen2, Cov.encodeLen_eq rev h, ← Cov.encodeW_length rev h, g.len]
        rw [← henc]
        simp only [List.length_append, length_wordsToBytes, List.length_cons, List.length_nil, hol]
        congr 1
        omega

/-! ### ChainedSeqContext2 -/

/-- a class definition table given by its words -/
structure PartGoodW (c : ClassPart) (ws : List Nat) (k : List (Nat × Nat)) : Prop where
  bytes : c.bytes = .ok (wordsToBytes ws)
  len : c.len = 2 * ws.length
  lt : ∀ w ∈ ws, w < 65536
  read : ∀ tail, ClassDef.readW (ws ++ tail) = .ok k

theorem partGoodW_of_table (m : ClassDef.Tab) (hm : Gdef.ClassGood m) (B : Bytes)
    (hB : ClassDef.append m = .ok B) :
    ∃ ws k, PartGoodW ⟨ClassDef.append m, ClassDef.appendLen m⟩ ws k ∧
      ∀ g, ClassDef.classOf k g = ClassDef.get m g := by
  obtain ⟨hl, ws, es, rfl, hlt, hr, hc⟩ := Gdef.classPart_spec m hm B hB
  refine ⟨ws, es, ⟨hB, ?_, hlt, ?_⟩, hc⟩
  · rw [← hl, length_wordsToBytes]
  · intro tail
    exact ClassDef.readW_append_of_ok _ _ _ hr

theorem classRead_words {c : ClassPart} {ws : List Nat} {k : List (Nat × Nat)} (g : PartGoodW c ws k)
    (P T : List Nat) (c' : Bytes) :
    ClassDef.read ((wordsToBytes (P ++ (ws ++ T)) ++ c').drop (2 * P.length)) = .ok k := by
  rw [drop_wordsToBytes_append', wordsToBytes_append, List.append_assoc]
  unfold ClassDef.read
  rw [bytesToWords_append _ g.lt]
  exact g.read _

theorem checkPos_spec : ∀ (rules : List Rule) (pos0 : Nat) (offs : List Nat),
    ruleOffsets cruleLen true rules pos0 = .ok offs →
    checkC2.pos rules pos0 = some (pos0 + (rules.map cruleLen).sum)
  | [], _, _, _ => by simp [checkC2.pos]
  | r :: rs, pos0, offs, h => by
    simp only [ruleOffsets, Bool.true_and, decide_eq_true_eq] at h
    split at h
    · simp at h
    · rename_i hle
      cases h2 : ruleOffsets cruleLen true rs (pos0 + cruleLen r) with
      | ok o =>
        simp only [checkC2.pos]
        rw [if_neg hle, checkPos_spec rs _ o h2]
        simp only [List.map_cons, List.sum_cons, Nat.add_assoc]
      | err e => rw [h2] at h; simp at h
      | panic s => rw [h2] at h; simp at h

theorem checkC2_spec : ∀ (sets : List (Option (List Rule))) (total0 : Nat) (offs : List Nat) (t : Nat)
    (aw : List Nat) (total' : Nat),
    setOffsets cruleLen true sets total0 = .ok (offs, t) → allSets cruleWords cruleLen true sets = .ok aw →
    total' ≤ total0 → checkC2 sets total' = true
  | [], _, _, _, _, _, _, _, _ => rfl
  | none :: ss, total0, offs, t, aw, total', h, ha, hle => by
    simp only [setOffsets] at h
    cases h2 : setOffsets cruleLen true ss total0 with
    | ok r =>
      obtain ⟨o, t'⟩ := r
      simp only [allSets] at ha
      simp only [checkC2]
      exact checkC2_spec ss total0 o t' aw total' h2 ha hle
    | err e => rw [h2] at h; simp at h
    | panic s => rw [h2] at h; simp at h
  | some rules :: ss, total0, offs, t, aw, total', h, ha, hle => by
    simp only [setOffsets, Bool.true_and, decide_eq_true_eq] at h
    split at h
    · simp at h
    · rename_i hfit
      cases h2 : setOffsets cruleLen true ss (total0 + setLen cruleLen rules) with
      | ok r =>
        obtain ⟨o, t'⟩ := r
        simp only [allSets] at ha
        cases hs : setWords cruleWords cruleLen true rules with
        | ok sw =>
          rw [hs] at ha
          cases hr : allSets cruleWords cruleLen true ss with
          | ok aw' =>
            unfold setWords at hs
            cases hro : ruleOffsets cruleLen true rules (2 + 2 * rules.length) with
            | ok ro =>
              simp only [checkC2]
              rw [if_neg (by omega), checkPos_spec rules _ ro hro]
              simp only
              have hsize : 2 + 2 * rules.length + (rules.map cruleLen).sum = setLen cruleLen rules := rfl
              rw [hsize]
              exact checkC2_spec ss _ o t' aw' _ h2 hr (by omega)
            | err e => rw [hro] at hs; simp at hs
            | panic s => rw [hro] at hs; simp at hs
          | err e => rw [hr] at ha; simp at ha
          | panic s => rw [hr] at ha; simp at ha
        | err e => rw [hs] at ha; simp at ha
        | panic s => rw [hs] at ha; simp at ha
      | err e => rw [h2] at h; simp at h
      | panic s => rw [h2] at h; simp at h

/-- **ChainedSeqContext2 round trip**.  `hcls`: the input class definition table has a class for every
rule set; `hal`: re-encoding the decoded class tables does not need more room than the tables written
(the reader recomputes the encoder's positions from the decoded tables); `hn`: the header offsets fit
16 bits (the encoder checks them only when it meets a non-nil rule set). -/
theorem roundtripC2 (rev : List Nat) (cb ci cl : ClassPart) (Wb Wi Wl : List Nat) (kb ki kl : List (Nat × Nat))
    (gb : PartGoodW cb Wb kb) (gi : PartGoodW ci Wi ki) (gl : PartGoodW cl Wl kl)
    (sets : List (Option (List Rule))) (h : Cov.Valid rev) (hcls : sets.length ≤ numClasses ki)
    (hal : appendLenOf kb + appendLenOf ki + appendLenOf kl ≤ cb.len + ci.len + cl.len)
    (hn : 12 + 2 * sets.length + 2 * (Cov.encodeW rev).length + cb.len + ci.len + cl.len ≤ 65535)
    (hok : ∀ s ∈ sets, ∀ rules, s = some rules → ∀ r ∈ rules, ROkC r) (b : Bytes)
    (henc : encodeC2 rev cb ci cl sets = .ok b) :
    readC2 b = .ok (.c2 true rev.zipIdx [kb, ki, kl] sets) ∧ encodeLenC2 rev cb ci cl sets = .ok b.length := by
  unfold encodeC2 at henc
  simp only [Cov.encodeLen_eq rev h, ← Cov.encodeW_length rev h, Cov.encode_eq rev h, gb.bytes, gi.bytes,
    gl.bytes, gb.len, gi.len, gl.len] at henc
  rw [gb.len, gi.len, gl.len] at hn hal
  generalize hC : Cov.encodeW rev = C at *
  cases h1 : setOffsets cruleLen true sets (12 + 2 * sets.length + 2 * C.length + 2 * Wb.length +
      2 * Wi.length + 2 * Wl.length) with
  | err e => rw [h1] at henc; simp at henc
  | panic s => rw [h1] at henc; simp at henc
  | ok r1 =>
    obtain ⟨offs, t⟩ := r1
    rw [h1] at henc
    simp only at henc
    cases h2 : allSets cruleWords cruleLen true sets with
    | err e => rw [h2] at henc; simp at henc
    | panic s => rw [h2] at henc; simp at henc
    | ok w =>
      rw [h2] at henc
      simp only [Outcome.ok.injEq] at henc
      have hol := (setOffsets_mono cruleLen true sets _ offs t h1).2
      rw [w16_of_lt (show 12 + 2 * sets.length < 65536 by omega),
        w16_of_lt (show 12 + 2 * sets.length + 2 * C.length < 65536 by omega),
        w16_of_lt (show 12 + 2 * sets.length + 2 * C.length + 2 * Wb.length < 65536 by omega),
        w16_of_lt (show 12 + 2 * sets.length + 2 * C.length + 2 * Wb.length + 2 * Wi.length < 65536 by omega),
        w16_of_lt (show sets.length < 65536 by omega)] at henc
      generalize hP0 : [2, 12 + 2 * sets.length, 12 + 2 * sets.length + 2 * C.length,
        12 + 2 * sets.length + 2 * C.length + 2 * Wb.length,
        12 + 2 * sets.length + 2 * C.length + 2 * Wb.length + 2 * Wi.length, sets.length] ++ offs = P0 at henc
      have hP0l : 2 * P0.length = 12 + 2 * sets.length := by
        rw [← hP0]; simp only [List.length_append, List.length_cons, List.length_nil, hol]; omega
      obtain ⟨i1, i2, i3, i4⟩ := readSetsC_spec [] sets (P0 ++ C ++ Wb ++ Wi ++ Wl) [] _ offs t w hok h1 h2
        (by simp only [List.length_append]; omega) (by omega)
      have hb : b = wordsToBytes (P0 ++ C ++ Wb ++ Wi ++ Wl ++ (w ++ [])) ++ [] := by
        rw [← henc, List.append_nil, List.append_nil]
        simp only [wordsToBytes_append]
      rw [← hb] at i1
      have hP0lt : ∀ x ∈ P0, x < 65536 := by
        intro x hx
        rw [← hP0] at hx
        simp only [List.mem_append, List.mem_cons, List.not_mem_nil, or_false] at hx
        rcases hx with (rfl | rfl | rfl | rfl | rfl | rfl) | hx
        · decide
        · omega
        · omega
        · omega
        · omega
        · omega
        · exact i3 x hx
      have hw : bytesToWords b = 2 :: (12 + 2 * sets.length) :: (12 + 2 * sets.length + 2 * C.length) ::
          (12 + 2 * sets.length + 2 * C.length + 2 * Wb.length) ::
          (12 + 2 * sets.length + 2 * C.length + 2 * Wb.length + 2 * Wi.length) :: offs.length :: (offs ++
          bytesToWords (wordsToBytes C ++ wordsToBytes Wb ++ wordsToBytes Wi ++ wordsToBytes Wl ++ wordsToBytes w)) := by
        rw [← henc]
        simp only [List.append_assoc]
        rw [bytesToWords_append _ hP0lt, ← hP0, hol]
        rfl
      have hcov : Cov.read (b.drop (12 + 2 * sets.length)) = .ok rev.zipIdx := by
        have := GposMark.covRead_words rev h P0 (Wb ++ Wi ++ Wl ++ (w ++ [])) []
        rw [hP0l, hC] at this
        rw [hb]
        simpa [List.append_assoc] using this
      have hrb : ClassDef.read (b.drop (12 + 2 * sets.length + 2 * C.length)) = .ok kb := by
        have := classRead_words gb (P0 ++ C) (Wi ++ Wl ++ (w ++ [])) []
        have e : 2 * (P0 ++ C).length = 12 + 2 * sets.length + 2 * C.length := by
          rw [List.length_append]; omega
        rw [e] at this
        rw [hb]
        simpa [List.append_assoc] using this
      have hri : ClassDef.read (b.drop (12 + 2 * sets.length + 2 * C.length + 2 * Wb.length)) = .ok ki := by
        have := classRead_words gi (P0 ++ C ++ Wb) (Wl ++ (w ++ [])) []
        have e : 2 * (P0 ++ C ++ Wb).length = 12 + 2 * sets.length + 2 * C.length + 2 * Wb.length := by
          simp only [List.length_append]; omega
        rw [e] at this
        rw [hb]
        simpa [List.append_assoc] using this
      have hrl : ClassDef.read (b.drop (12 + 2 * sets.length + 2 * C.length + 2 * Wb.length + 2 * Wi.length)) =
          .ok kl := by
        have := classRead_words gl (P0 ++ C ++ Wb ++ Wi) (w ++ []) []
        have e : 2 * (P0 ++ C ++ Wb ++ Wi).length =
            12 + 2 * sets.length + 2 * C.length + 2 * Wb.length + 2 * Wi.length := by
          simp only [List.length_append]; omega
        rw [e] at this
        rw [hb]
        simpa [List.append_assoc] using this
      have hchk := checkC2_spec sets _ offs t w
        (12 + 2 * sets.length + covLenOf rev.zipIdx + appendLenOf kb + appendLenOf ki + appendLenOf kl) h1 h2
        (by rw [covLenOf_zipIdx rev h, hC]; omega)
      refine ⟨?_, ?_⟩
      · simp only [readC2, hw, counted_left, hcov, hrb, hri, hrl]
        rw [List.take_of_length_le (by omega), i1]
        simp only [hchk, if_true]
      · simp only [encodeLenC2, Cov.encodeLen_eq rev h, ← Cov.encodeW_length rev h, hC, gb.len, gi.len, gl.len]
        rw [← henc]
        simp only [List.length_append, length_wordsToBytes]
        congr 1
        omega

end SfntV.Otl.Ctx
