/-
Whole-charstring soundness of the compiler with stem hints and masks (C04): `Spec.T2.interp` on the
bytes of `encodeCharString` returns the glyph — header (T2Header), masks (T2Masks), path section.
-/
import SfntV.Proofs.T2Masks
import SfntV.Proofs.T2Encode

set_option linter.unusedSimpArgs false
set_option linter.unusedVariables false

namespace SfntV.T2Enc
open SfntV SfntV.T2 SfntV.Spec.T2

/-! ### the path section with masks -/

/-- drawable command list: lines and curves only after a moveto; masks anywhere -/
def cmdsOKm : Bool → List EnCmd → Bool
  | _, [] => true
  | _, .move _ _ :: r => cmdsOKm true r
  | m, .seg _ :: r => m && cmdsOKm m r
  | m, .mask _ _ :: r => cmdsOKm m r

/-- every mask has ⌈n/8⌉ data bytes, and n ≥ 1 -/
def masksFitE (n : Nat) : List EnCmd → Bool
  | [] => true
  | .mask _ bs :: r => decide (1 ≤ n) && bs.length == (n + 7) / 8 && masksFitE n r
  | _ :: r => masksFitE n r

def hasMaskE : List EnCmd → Bool
  | [] => false
  | .mask _ _ :: _ => true
  | _ :: r => hasMaskE r

theorem cmdsOKm_segs (segs : List Seg) (l : List EnCmd) (m : Bool) (h : cmdsOKm m (segs.map EnCmd.seg ++ l) = true)
    (hne : segs ≠ []) : m = true ∧ cmdsOKm true l = true := by
  induction segs with
  | nil => exact absurd rfl hne
  | cons g t ih =>
    simp only [List.map_cons, List.cons_append, cmdsOKm, Bool.and_eq_true] at h
    obtain ⟨hm, ht⟩ := h
    subst hm
    cases t with
    | nil => exact ⟨rfl, by simpa using ht⟩
    | cons g2 t2 => exact ⟨rfl, (ih ht (by simp)).2⟩

theorem masksFitE_segs (n : Nat) (segs : List Seg) (l : List EnCmd) :
    masksFitE n (segs.map EnCmd.seg ++ l) = masksFitE n l := by
  induction segs with
  | nil => rfl
  | cons g t ih => simpa [masksFitE] using ih

theorem hasMaskE_segs (segs : List Seg) (l : List EnCmd) :
    hasMaskE (segs.map EnCmd.seg ++ l) = hasMaskE l := by
  induction segs with
  | nil => rfl
  | cons g t ih => simpa [hasMaskE] using ih

/-- the path section always ends with (at least) the endchar operator -/
theorem encodePathsFuel_pos (f : Nat) : ∀ (cmds : List EnCmd) (paths : List (List (Nat × Op))) (b : List Nat),
    encodePathsFuel f cmds paths = some b → 0 < b.length := by
  induction f with
  | zero => intro cmds paths b h; simp [encodePathsFuel] at h
  | succ f ih =>
    intro cmds paths b h
    cases cmds with
    | nil =>
      simp only [encodePathsFuel, Option.some.injEq] at h
      subst h; exact opBytes_pos _
    | cons c rest =>
      cases c with
      | move dx dy =>
        simp only [encodePathsFuel] at h
        cases hr : encodePathsFuel f rest paths with
        | none => rw [hr] at h; cases h
        | some b' =>
          rw [hr] at h
          simp only [Option.map_some, Option.some.injEq] at h
          have := ih _ _ _ hr
          rw [← h, List.length_append]; omega
      | mask cn bs =>
        simp only [encodePathsFuel] at h
        cases hr : encodePathsFuel f rest paths with
        | none => rw [hr] at h; cases h
        | some b' =>
          rw [hr] at h
          simp only [Option.map_some, Option.some.injEq] at h
          have := ih _ _ _ hr
          rw [← h]; simp only [List.length_append]; omega
      | seg g =>
        simp only [encodePathsFuel] at h
        cases paths with
        | nil => simp at h
        | cons p ps =>
          simp only at h
          cases ha : assembleSubPath (takeSegs (EnCmd.seg g :: rest)).1 0 p with
          | none => rw [ha] at h; cases h
          | some b1 =>
            rw [ha] at h
            simp only at h
            cases hr : encodePathsFuel f (takeSegs (EnCmd.seg g :: rest)).2 ps with
            | none => rw [hr] at h; cases h
            | some b' =>
              rw [hr] at h
              simp only [Option.map_some, Option.some.injEq] at h
              have := ih _ _ _ hr
              rw [← h, List.length_append]; omega

theorem nStems_widthDone (env : Env) (s : St) : nStems (widthDone env s) = nStems s := by
  obtain ⟨_, _, _, _, _, f6, f7, _⟩ := widthDone_fields env s
  simp only [nStems, f6, f7]

/-- The path section of any glyph — moves, sub-paths (any path of proposed edges), masks anywhere — is
executed by the specification interpreter as exactly the encoded commands, up to the final endchar. -/
theorem paths_reaches_full (env : Env) (nSt : Nat) (f : Nat) :
    ∀ (cmds : List EnCmd) (paths : List (List (Nat × Op))) (bytes : List Nat) (s : St),
      encodePathsFuel f cmds paths = some bytes → cmdsOKm s.hasMoved cmds = true →
      (∀ c ∈ cmds, CmdDecodes c) → PendOK s → (s.hasMoved = true → s.stack = []) → s.moveErr = false →
      nStems s = nSt → masksFitE nSt cmds = true → (hasMaskE cmds = true → 1 ≤ s.stage) →
      ∃ sEnd, Reaches strict env s bytes sEnd (opBytes .endchar) ∧ PendOK sEnd ∧ sEnd.moveErr = false ∧
        widthDone env sEnd = drawCmds strict (widthDone env s) cmds := by
  induction f with
  | zero => intro cmds paths bytes s h; simp [encodePathsFuel] at h
  | succ f ih =>
    intro cmds paths bytes s h hok hdec hp hms hme hns hfit hstg
    cases cmds with
    | nil =>
      simp only [encodePathsFuel, Option.some.injEq] at h
      subst h
      exact ⟨s, Reaches.refl _ _, hp, hme, rfl⟩
    | cons c rest =>
      cases c with
      | mask cn bs =>
        simp only [encodePathsFuel] at h
        cases hr : encodePathsFuel f rest paths with
        | none => rw [hr] at h; cases h
        | some b' =>
          rw [hr] at h
          simp only [Option.map_some, Option.some.injEq] at h
          simp only [masksFitE, Bool.and_eq_true, decide_eq_true_eq, beq_iff_eq] at hfit
          obtain ⟨⟨hn1, hbl⟩, hfit'⟩ := hfit
          have hst1 : 1 ≤ s.stage := hstg rfl
          have h1 := mask_reaches env s cn bs b' hp hme hst1 (by rw [hns]; exact hn1) (by rw [hns]; exact hbl)
            (encodePathsFuel_pos f _ _ _ hr)
          obtain ⟨f1, f2, f3, f4, f5, f6, f7, f8⟩ := widthDone_fields env s
          have hs1 : (drawCmd strict (widthDone env s) (.mask cn bs)).stack = [] := f1
          have hw1 : (drawCmd strict (widthDone env s) (.mask cn bs)).widthSet = true := f2
          have hm1 : (drawCmd strict (widthDone env s) (.mask cn bs)).moveErr = false := by
            simp only [drawCmd, f3, hme]
          have hmv1 : (drawCmd strict (widthDone env s) (.mask cn bs)).hasMoved = s.hasMoved := f4
          obtain ⟨sEnd, k1, k2, k3, k4⟩ := ih rest paths b' _ hr (by rw [hmv1]; simpa [cmdsOKm] using hok)
            (fun c hc => hdec c (List.mem_cons_of_mem _ hc)) (Or.inl hs1) (fun _ => hs1) hm1
            (by simp only [nStems, drawCmd, f6, f7]; exact hns) hfit'
            (fun _ => by simp only [drawCmd]; omega)
          refine ⟨sEnd, ?_, k2, k3, ?_⟩
          · rw [← h]; exact h1.trans k1
          · rw [k4, widthDone_id env _ hs1 hw1]; rfl
      | move dx dy =>
        simp only [encodePathsFuel] at h
        cases hr : encodePathsFuel f rest paths with
        | none => rw [hr] at h; cases h
        | some b' =>
          rw [hr] at h
          simp only [Option.map_some, Option.some.injEq] at h
          obtain ⟨hdx, hdy⟩ := hdec _ List.mem_cons_self
          have h1 := move_reaches env s dx dy b' hp hme hdx hdy
          obtain ⟨f1, f2, f3, f4, f5, f6, f7, f8⟩ := widthDone_fields env s
          have hs1 : (rMoveTo strict (widthDone env s) dx.val dy.val).stack = [] := f1
          have hw1 : (rMoveTo strict (widthDone env s) dx.val dy.val).widthSet = true := f2
          have hm1 : (rMoveTo strict (widthDone env s) dx.val dy.val).moveErr = false := by
            simp only [rMoveTo, f3, hme]
          obtain ⟨sEnd, k1, k2, k3, k4⟩ := ih rest paths b' _ hr (by simpa [cmdsOKm, rMoveTo] using hok)
            (fun c hc => hdec c (List.mem_cons_of_mem _ hc)) (Or.inl hs1) (fun _ => hs1) hm1
            (by simp only [nStems, rMoveTo, f6, f7]; exact hns) (by simpa [masksFitE] using hfit)
            (fun hm => by simp only [rMoveTo, f5]; exact hstg (by simpa [hasMaskE] using hm))
          refine ⟨sEnd, ?_, k2, k3, ?_⟩
          · rw [← h]; exact h1.trans k1
          · rw [k4, widthDone_id env _ hs1 hw1]; rfl
      | seg g =>
        simp only [encodePathsFuel] at h
        cases paths with
        | nil => simp at h
        | cons p ps =>
          simp only at h
          cases ha : assembleSubPath (takeSegs (EnCmd.seg g :: rest)).1 0 p with
          | none => rw [ha] at h; cases h
          | some b =>
            rw [ha] at h
            simp only at h
            cases hr : encodePathsFuel f (takeSegs (EnCmd.seg g :: rest)).2 ps with
            | none => rw [hr] at h; cases h
            | some b' =>
              rw [hr] at h
              simp only [Option.map_some, Option.some.injEq] at h
              have hspec := takeSegs_spec (EnCmd.seg g :: rest)
              generalize hr1 : (takeSegs (EnCmd.seg g :: rest)).1 = segs at *
              generalize hr2 : (takeSegs (EnCmd.seg g :: rest)).2 = tl at *
              have hne : segs ≠ [] := by
                rw [← hr1]; simp [takeSegs]
              rw [hspec] at hok hfit hstg
              obtain ⟨hmoved, hoktl⟩ := cmdsOKm_segs segs tl _ hok hne
              have hst := hms hmoved
              obtain ⟨path, hpath, hb⟩ := assemble_isPath segs p 0 b ha
              have hdseg : ∀ g ∈ segs, ∀ a ∈ g.args, Decodes a := by
                intro g' hg'
                have : EnCmd.seg g' ∈ EnCmd.seg g :: rest := by
                  rw [hspec]; exact List.mem_append_left _ (List.mem_map_of_mem hg')
                exact hdec _ this
              have hready : Ready s := ⟨hst, hmoved, hme⟩
              have h1 := path_reaches env segs 0 path hpath hdseg s hready b'
              simp only [List.drop_zero] at h1
              have hr1' := ready_drawSegs strict s segs hready
              obtain ⟨q1, q2, q3, q4, q5, q6, q7, q8⟩ := keeps_drawSegs strict s segs
              obtain ⟨sEnd, k1, k2, k3, k4⟩ := ih tl ps b' (drawSegs strict s segs) hr
                (by rw [hr1'.2.1]; exact hoktl)
                (fun c hc => hdec c (by rw [hspec]; exact List.mem_append_right _ hc))
                (Or.inl hr1'.1) (fun _ => hr1'.1) hr1'.2.2
                (by simp only [nStems, q6, q7]; exact hns)
                (by rw [masksFitE_segs] at hfit; exact hfit)
                (fun hm => by rw [q5]; exact hstg (by rw [hasMaskE_segs]; exact hm))
              refine ⟨sEnd, ?_, k2, k3, ?_⟩
              · rw [← h, hb]; exact h1.trans k1
              · rw [k4, hspec, drawCmds_segs, widthDone_drawSegs]

/-! ### well-formed glyph descriptions -/

/-- lines and curves only after a moveto; masks anywhere -/
def drawOK : Bool → List InCmd → Bool
  | _, [] => true
  | _, .moveTo _ _ :: r => drawOK true r
  | m, .lineTo _ _ :: r => m && drawOK m r
  | m, .curveTo _ _ _ _ _ _ :: r => m && drawOK m r
  | m, .mask _ _ :: r => drawOK m r

/-- every mask command has exactly ⌈n/8⌉ bytes, and there is at least one stem (n ≥ 1) -/
def masksFit (n : Nat) : List InCmd → Bool
  | [] => true
  | .mask _ bs :: r => decide (1 ≤ n) && bs.length == (n + 7) / 8 && masksFit n r
  | _ :: r => masksFit n r

/-- The glyph descriptions the decoder can represent (decidable): sub-paths start with a moveto, and
every hintmask/cntrmask has exactly ⌈nStems/8⌉ bytes, with at least one stem declared. -/
def GlyphWF (hs vs : List Int) (cmds : List InCmd) : Bool :=
  drawOK false cmds && masksFit ((hs.length + vs.length) / 2) cmds

theorem cmdsOKm_encodeArgs (K : Nat) (cmds : List InCmd) : ∀ (m : Bool) (px py : Int),
    cmdsOKm m (encodeArgsFrom K px py cmds) = drawOK m cmds := by
  induction cmds with
  | nil => intro m px py; rfl
  | cons c t ih =>
    intro m px py
    cases c <;> simp only [encodeArgsFrom, cmdsOKm, drawOK, ih]

theorem masksFitE_encodeArgs (K n : Nat) (cmds : List InCmd) : ∀ (px py : Int),
    masksFitE n (encodeArgsFrom K px py cmds) = masksFit n cmds := by
  induction cmds with
  | nil => intro px py; rfl
  | cons c t ih =>
    intro px py
    cases c <;> simp only [encodeArgsFrom, masksFitE, masksFit, ih]

theorem masksFitE_hasMask (n : Nat) (l : List EnCmd) (h : masksFitE n l = true) (hm : hasMaskE l = true) :
    1 ≤ n := by
  induction l with
  | nil => cases hm
  | cons c t ih =>
    cases c with
    | mask cn bs =>
      simp only [masksFitE, Bool.and_eq_true, decide_eq_true_eq] at h
      exact h.1.1
    | move dx dy => exact ih (by simpa [masksFitE] using h) (by simpa [hasMaskE] using hm)
    | seg g => exact ih (by simpa [masksFitE] using h) (by simpa [hasMaskE] using hm)

theorem Reaches.congr_first {q : Quirks} {env : Env} {s s' sE : St} {c cE : List Nat}
    (hstep : T2.step q env s c = T2.step q env s' c) (hlen : cE.length < c.length)
    (h : Reaches q env s' c sE cE) : Reaches q env s c sE cE := by
  cases h with
  | refl => omega
  | step hs hl ht => exact Reaches.step (by rw [hstep]; exact hs) hl ht

theorem maskFirst_shape (K : Nat) (cmds : List InCmd) (h : maskFirst cmds = true) :
    ∃ cn bs rest, encodeArgs K cmds = .mask cn bs :: rest := by
  cases cmds with
  | nil => cases h
  | cons c t =>
    cases c <;> simp only [maskFirst, isMask, Bool.false_eq_true] at h
    exact ⟨_, _, _, rfl⟩

/-- Whole charstring, any glyph: the specification interpreter, run on the bytes `encodeCharString` emits
for ANY choice of edge paths, ends normally (`endchar`) and returns the glyph obtained by drawing the
encoded commands from the header state (width, hstems, vstems declared). -/
theorem glyph_sound (env : Env) (K : Nat) (w : Int) (hs vs : List Int) (cmds : List InCmd)
    (paths : List (List (Nat × Op))) (bytes : List Nat)
    (h : encodeCharString K w hs vs cmds env.defaultWidth env.nominalWidth paths = some bytes)
    (hwf : GlyphWF hs vs cmds = true)
    (hdec : ∀ c ∈ encodeArgs K cmds, CmdDecodes c)
    (hw : w ≠ env.defaultWidth * 2 ^ (K - 16) → Decodes (encNum (w - env.nominalWidth * 2 ^ (K - 16)) K))
    (hdh : ∀ c ∈ hChunks env K w hs, ∀ a ∈ c, Decodes a)
    (hdv : ∀ c ∈ vChunks env K w hs vs, ∀ a ∈ c, Decodes a) :
    T2.interp strict env bytes =
      .ok (drawCmds strict (widthDone env (hdrState env K w hs vs)) (encodeArgs K cmds)).glyph := by
  obtain ⟨pb, sHdr, hp, hevh, hevv, hreach, hend⟩ := header_reaches env K w hs vs cmds paths bytes h hw hdh hdv
  simp only [GlyphWF, Bool.and_eq_true] at hwf
  obtain ⟨hdraw, hfit⟩ := hwf
  obtain ⟨x1, x2, x3, x4, x5, x6⟩ := hdrState_fields env K w hs vs
  obtain ⟨r0, rx0⟩ := startState_ready env K w
  have rH := (hintReady_declAll env false _ (hChunks env K w hs) r0).1
  have rX : HintReady (hdrState env K w hs vs) := (hintReady_declAll env true _ (vChunks env K w hs vs) rH).1
  have hex1 : widthExtra env K w ≤ 1 := by unfold widthExtra; split <;> omega
  have hnst : nStems (hdrState env K w hs vs) = (hs.length + vs.length) / 2 := by
    simp only [nStems, x3, x4, hChunks, vChunks]
    rw [decStems_length K _ _ hs (by omega) hevh hex1,
      decStems_length K _ _ vs (by omega) hevv (by split <;> omega)]
  obtain ⟨sEnd, k1, k2, k3, k4⟩ := paths_reaches_full env ((hs.length + vs.length) / 2) _ (encodeArgs K cmds) paths pb
    (hdrState env K w hs vs) hp (by rw [x1, encodeArgs, cmdsOKm_encodeArgs]; exact hdraw) hdec rX.1
    (by rw [x1]; intro hm; cases hm) rX.2.2 hnst (by rw [encodeArgs, masksFitE_encodeArgs]; exact hfit)
    (by
      intro hm
      have h1 := masksFitE_hasMask _ _ (by rw [encodeArgs, masksFitE_encodeArgs]; exact hfit) hm
      rw [x5 (by omega)]
      exact Nat.le_refl 1)
  obtain ⟨s', e1, e2⟩ := endchar_step env sEnd k2
  have hfin : Reaches strict env sHdr pb sEnd (opBytes .endchar) := by
    by_cases hc : maskFirst cmds = false ∨ vChunks env K w hs vs = []
    · rw [hend.1 hc]; exact k1
    · have hmf : maskFirst cmds = true := by
        cases hb : maskFirst cmds with
        | true => rfl
        | false => exact absurd (Or.inl hb) hc
      have hvc : vChunks env K w hs vs ≠ [] := fun hv => hc (Or.inr hv)
      obtain ⟨sL, c, a1, a2, a3, a4, a5, a6⟩ := hend.2 hmf hvc
      obtain ⟨cn, bs, rest, hshape⟩ := maskFirst_shape K cmds hmf
      -- the path section starts with the mask operator
      have hpb : ∃ b', pb = opBytes (maskOp cn) ++ (bs ++ b') := by
        unfold encodePaths at hp
        rw [hshape] at hp
        simp only [List.length_cons, encodePathsFuel] at hp
        cases hr : encodePathsFuel (rest.length + 1) rest paths with
        | none => rw [hr] at hp; cases hp
        | some b' =>
          rw [hr] at hp
          simp only [Option.map_some, Option.some.injEq] at hp
          exact ⟨b', by rw [← hp]; simp [maskOp]⟩
      obtain ⟨b', hpb⟩ := hpb
      have hX : hdrState env K w hs vs = stemDecl env true sL c := a6.symm
      rw [hX] at k1
      refine Reaches.congr_first ?_ ?_ k1
      · rw [hpb, a5, step_op env _ _ _ (by simpa using a4),
          step_op env _ _ _ (by rw [(hintReady_stemDecl env true sL c a1).2]; simp),
          exec_mask_implicit env sL c cn _ a1 a2 a3]
      · rw [hpb]
        have := opBytes_pos (maskOp cn)
        have h1 : (opBytes Op.endchar).length = 1 := rfl
        have hb' : 0 < b'.length := by
          unfold encodePaths at hp
          rw [hshape] at hp
          simp only [List.length_cons, encodePathsFuel] at hp
          cases hr : encodePathsFuel (rest.length + 1) rest paths with
          | none => rw [hr] at hp; cases hp
          | some b'' =>
            rw [hr] at hp
            simp only [Option.map_some, Option.some.injEq] at hp
            have hpos := encodePathsFuel_pos _ _ _ _ hr
            have : b'' = b' := by
              rw [hpb] at hp
              simpa [maskOp] using hp
            rw [← this]; exact hpos
        simp only [List.length_append]
        omega
  rw [interp_of_reaches strict env bytes sEnd s' _ (hreach.trans hfin) e1, e2, k4]

/-- the path section ends with the endchar operator -/
theorem encodePathsFuel_endchar (f : Nat) : ∀ (cmds : List EnCmd) (paths : List (List (Nat × Op))) (b : List Nat),
    encodePathsFuel f cmds paths = some b → ∃ pre, b = pre ++ opBytes .endchar := by
  induction f with
  | zero => intro cmds paths b h; simp [encodePathsFuel] at h
  | succ f ih =>
    intro cmds paths b h
    cases cmds with
    | nil =>
      simp only [encodePathsFuel, Option.some.injEq] at h
      exact ⟨[], by rw [← h]; rfl⟩
    | cons c rest =>
      cases c with
      | move dx dy =>
        simp only [encodePathsFuel] at h
        cases hr : encodePathsFuel f rest paths with
        | none => rw [hr] at h; cases h
        | some b' =>
          rw [hr] at h
          simp only [Option.map_some, Option.some.injEq] at h
          obtain ⟨pre, hpre⟩ := ih _ _ _ hr
          exact ⟨_, by rw [← h, hpre]; exact (List.append_assoc _ pre _).symm⟩
      | mask cn bs =>
        simp only [encodePathsFuel] at h
        cases hr : encodePathsFuel f rest paths with
        | none => rw [hr] at h; cases h
        | some b' =>
          rw [hr] at h
          simp only [Option.map_some, Option.some.injEq] at h
          obtain ⟨pre, hpre⟩ := ih _ _ _ hr
          exact ⟨_, by rw [← h, hpre]; exact (List.append_assoc _ pre _).symm⟩
      | seg g =>
        simp only [encodePathsFuel] at h
        cases paths with
        | nil => simp at h
        | cons p ps =>
          simp only at h
          cases ha : assembleSubPath (takeSegs (EnCmd.seg g :: rest)).1 0 p with
          | none => rw [ha] at h; cases h
          | some b1 =>
            rw [ha] at h
            simp only at h
            cases hr : encodePathsFuel f (takeSegs (EnCmd.seg g :: rest)).2 ps with
            | none => rw [hr] at h; cases h
            | some b' =>
              rw [hr] at h
              simp only [Option.map_some, Option.some.injEq] at h
              obtain ⟨pre, hpre⟩ := ih _ _ _ hr
              exact ⟨_, by rw [← h, hpre]; exact (List.append_assoc _ pre _).symm⟩

theorem encodePaths_endchar (cmds : List EnCmd) (paths : List (List (Nat × Op))) (b : List Nat)
    (h : encodePaths cmds paths = some b) : ∃ pre, b = pre ++ opBytes .endchar :=
  encodePathsFuel_endchar _ _ _ _ h

/-! ### numbers (the statements of C04_number_partial / C04_no_accumulation, for use in Proofs) -/

theorem encodeNumber_sound (n : Int) (k : Nat) (h : n.natAbs ≤ 32767 * 2 ^ k) :
    (∀ (q : Quirks) (env : Env) (s : St) (rest : List Nat), s.stack.length ≤ 48 →
      step q env s ((encodeNumber n k).2 ++ rest) =
        .ok (.cont { s with stack := s.stack ++ [(encodeNumber n k).1] } rest)) ∧
    2 * ((encodeNumber n k).1 * ((2 ^ k : Nat) : Int) - n * 65536).natAbs ≤ 2 ^ k := by
  have hd : 0 < 2 ^ k := Nat.two_pow_pos k
  unfold encodeNumber
  simp only
  generalize 2 ^ k = d at *
  split
  · rename_i hc
    constructor
    · intro q env s rest hs
      have := step_encodeInt q env s (wrap16 (n.tdiv d)) rest (wrap16_range _) hs
      simpa [one, encodeInt] using this
    · have e : wrap16 (n.tdiv ↑d) * 65536 * (d : Int) - n * 65536 = 65536 * (wrap16 (n.tdiv ↑d) * ↑d - n) := by
        rw [Int.mul_sub, Int.mul_right_comm, Int.mul_comm _ 65536, Int.mul_comm 65536 n]
      rw [e, Int.natAbs_mul]
      have h6 : (65536 : Int).natAbs = 65536 := rfl
      rw [h6]
      omega
  · have ha : (n * 65536).natAbs ≤ 32767 * 65536 * d := by
      rw [Int.natAbs_mul]
      have h6 : (65536 : Int).natAbs = 65536 := rfl
      rw [h6]
      omega
    have hb := roundDiv_bound (n * 65536) d hd ha
    have hw : wrap32 (roundDiv (n * 65536) d) = roundDiv (n * 65536) d := by
      unfold wrap32
      rw [if_pos hb]
    rw [hw]
    constructor
    · intro q env s rest hs
      exact step_encodeFixed q env s _ rest hb hs
    · exact roundDiv_close (n * 65536) d hd

theorem encNum_decodes (n : Int) (k : Nat) (h : n.natAbs ≤ 32767 * 2 ^ k) : Decodes (encNum n k) := by
  constructor
  · unfold encNum encodeNumber
    simp only
    split
    · unfold encodeInt Spec.T2.encodeInt
      split
      · simp
      · split
        · simp
        · split <;> simp
    · simp [Spec.T2.encodeFixed]
  · intro q env s rest hs
    exact (encodeNumber_sound n k h).1 q env s rest hs

/-- the decoder-side value `v` (2⁻¹⁶ units) is within 2⁻¹⁷ of the input coordinate `x` (scale 2^-K) -/
def Close (K : Nat) (v x : Int) : Prop := 2 * (v * ((2 ^ K : Nat) : Int) - x * 65536).natAbs ≤ 2 ^ K

instance (K : Nat) (v x : Int) : Decidable (Close K v x) := inferInstanceAs (Decidable (_ ≤ _))

/-- a step is small: the encoder can write it (|x − p| ≤ 32767) -/
def Small (K : Nat) (n : Int) : Prop := n.natAbs ≤ 32767 * 2 ^ K

instance (K : Nat) (n : Int) : Decidable (Small K n) := inferInstanceAs (Decidable (_ ≤ _))

theorem pow_split (K : Nat) (hK : 16 ≤ K) : ((2 ^ K : Nat) : Int) = 2 ^ (K - 16) * 65536 := by
  obtain ⟨j, rfl⟩ : ∃ j, K = j + 16 := ⟨K - 16, by omega⟩
  rw [Nat.add_sub_cancel, Nat.pow_add, Int.natCast_mul, Int.natCast_pow]
  rfl

theorem encNum_close (K : Nat) (hK : 16 ≤ K) (p x : Int) (h : Small K (x - p * 2 ^ (K - 16))) :
    Close K (p + (encNum (x - p * 2 ^ (K - 16)) K).val) x := by
  have h2 := (encodeNumber_sound (x - p * 2 ^ (K - 16)) K h).2
  have hpow := pow_split K hK
  have e : (p + (encNum (x - p * 2 ^ (K - 16)) K).val) * ((2 ^ K : Nat) : Int) - x * 65536 =
      (encodeNumber (x - p * 2 ^ (K - 16)) K).1 * ((2 ^ K : Nat) : Int) - (x - p * 2 ^ (K - 16)) * 65536 := by
    simp only [encNum]
    rw [Int.add_mul, Int.sub_mul, hpow]
    rw [Int.mul_assoc p]
    omega
  unfold Close
  rw [e]
  exact h2

/-! ### the whole command list: every coordinate within 2⁻¹⁷, wherever it is in the list -/

/-- every delta `encodeArgs` encodes is small (same recursion as `encodeArgsFrom`: `px py` is the decoder's
current point, the sum of the deltas encoded so far) -/
def stepsSmall (K : Nat) : Int → Int → List InCmd → Bool
  | _, _, [] => true
  | px, py, .moveTo x y :: rest =>
    let sh : Int := 2 ^ (K - 16)
    decide (Small K (x - px * sh)) && decide (Small K (y - py * sh)) &&
      stepsSmall K (px + (encNum (x - px * sh) K).val) (py + (encNum (y - py * sh) K).val) rest
  | px, py, .lineTo x y :: rest =>
    let sh : Int := 2 ^ (K - 16)
    decide (Small K (x - px * sh)) && decide (Small K (y - py * sh)) &&
      stepsSmall K (px + (encNum (x - px * sh) K).val) (py + (encNum (y - py * sh) K).val) rest
  | px, py, .curveTo xa ya xb yb xc yc :: rest =>
    let sh : Int := 2 ^ (K - 16)
    let dax := encNum (xa - px * sh) K
    let day := encNum (ya - py * sh) K
    let dbx := encNum (xb - dax.val * sh - px * sh) K
    let dby := encNum (yb - day.val * sh - py * sh) K
    let dcx := encNum (xc - dbx.val * sh - dax.val * sh - px * sh) K
    let dcy := encNum (yc - dby.val * sh - day.val * sh - py * sh) K
    decide (Small K (xa - px * sh)) && decide (Small K (ya - py * sh)) &&
    decide (Small K (xb - dax.val * sh - px * sh)) && decide (Small K (yb - day.val * sh - py * sh)) &&
    decide (Small K (xc - dbx.val * sh - dax.val * sh - px * sh)) &&
    decide (Small K (yc - dby.val * sh - day.val * sh - py * sh)) &&
      stepsSmall K (px + (dax.val + dbx.val + dcx.val)) (py + (day.val + dby.val + dcy.val)) rest
  | px, py, .mask _ _ :: rest => stepsSmall K px py rest

/-- a decoded command equals the input command: same kind, every coordinate within 2⁻¹⁷, masks byte
for byte -/
def CmdClose (K : Nat) : Cmd → InCmd → Prop
  | .moveTo a b, .moveTo x y => Close K a x ∧ Close K b y
  | .lineTo a b, .lineTo x y => Close K a x ∧ Close K b y
  | .curveTo a b c d e f, .curveTo xa ya xb yb xc yc =>
    Close K a xa ∧ Close K b ya ∧ Close K c xb ∧ Close K d yb ∧ Close K e xc ∧ Close K f yc
  | .hintMask bs, .mask false cs => bs = cs
  | .cntrMask bs, .mask true cs => bs = cs
  | _, _ => False

/-- command lists agree, command for command -/
def CmdsClose (K : Nat) : List Cmd → List InCmd → Prop
  | [], [] => True
  | a :: as, b :: bs => CmdClose K a b ∧ CmdsClose K as bs
  | _, _ => False

theorem encNum_close2 (K : Nat) (hK : 16 ≤ K) (p q x : Int) (h : Small K (x - q * 2 ^ (K - 16) - p * 2 ^ (K - 16))) :
    Close K (p + q + (encNum (x - q * 2 ^ (K - 16) - p * 2 ^ (K - 16)) K).val) x := by
  have e : x - q * 2 ^ (K - 16) - p * 2 ^ (K - 16) = x - (p + q) * 2 ^ (K - 16) := by
    rw [Int.add_mul]; omega
  rw [e] at h ⊢
  exact encNum_close K hK (p + q) x h

theorem encNum_close3 (K : Nat) (hK : 16 ≤ K) (p q r x : Int)
    (h : Small K (x - r * 2 ^ (K - 16) - q * 2 ^ (K - 16) - p * 2 ^ (K - 16))) :
    Close K (p + q + r + (encNum (x - r * 2 ^ (K - 16) - q * 2 ^ (K - 16) - p * 2 ^ (K - 16)) K).val) x := by
  have e : x - r * 2 ^ (K - 16) - q * 2 ^ (K - 16) - p * 2 ^ (K - 16) = x - (p + q + r) * 2 ^ (K - 16) := by
    rw [Int.add_mul, Int.add_mul]; omega
  rw [e] at h ⊢
  exact encNum_close K hK (p + q + r) x h

/-- List level no-accumulation: drawing the encoded commands from a state at the encoder's idea of the
current point appends, command for command, the input commands with every coordinate within 2⁻¹⁷ —
independent of the position in the list — and every encoded operand is read back. -/
theorem drawCmds_close (K : Nat) (hK : 16 ≤ K) : ∀ (cmds : List InCmd) (px py : Int) (s : St),
    s.x = px → s.y = py → stepsSmall K px py cmds = true →
    (∀ c ∈ encodeArgsFrom K px py cmds, CmdDecodes c) ∧
    ∃ out, (drawCmds strict s (encodeArgsFrom K px py cmds)).cmds = s.cmds ++ out ∧
      CmdsClose K out cmds := by
  intro cmds
  induction cmds with
  | nil => intro px py s _ _ _; exact ⟨by simp [encodeArgsFrom], [], by simp [encodeArgsFrom, drawCmds], trivial⟩
  | cons c t ih =>
    intro px py s hx hy hsm
    cases c with
    | mask cn bs =>
      simp only [stepsSmall] at hsm
      simp only [encodeArgsFrom, drawCmds_cons]
      obtain ⟨i1, out, i2, i3⟩ := ih px py (drawCmd strict s (.mask cn bs)) hx hy hsm
      refine ⟨?_, (if cn then Cmd.cntrMask bs else Cmd.hintMask bs) :: out, ?_, ?_⟩
      · intro c hc
        rcases List.mem_cons.mp hc with rfl | hc
        · trivial
        · exact i1 c hc
      · rw [i2]; simp [drawCmd]
      · exact ⟨by cases cn <;> simp [CmdClose], i3⟩
    | moveTo x y =>
      simp only [stepsSmall, Bool.and_eq_true, decide_eq_true_eq] at hsm
      obtain ⟨⟨h1, h2⟩, h3⟩ := hsm
      simp only [encodeArgsFrom, drawCmds_cons]
      obtain ⟨i1, out, i2, i3⟩ := ih _ _ (drawCmd strict s (.move (encNum (x - px * 2 ^ (K - 16)) K) (encNum (y - py * 2 ^ (K - 16)) K)))
        (by simp [drawCmd, rMoveTo, fixq, strict, hx]) (by simp [drawCmd, rMoveTo, fixq, strict, hy]) h3
      have one : ∃ cmd, (drawCmd strict s (.move (encNum (x - px * 2 ^ (K - 16)) K) (encNum (y - py * 2 ^ (K - 16)) K))).cmds
          = s.cmds ++ [cmd] ∧ CmdClose K cmd (.moveTo x y) := ⟨_, rfl, by
        simp only [fixq, strict, Bool.false_eq_true, if_false, hx, hy, CmdClose]
        exact ⟨encNum_close K hK px x h1, encNum_close K hK py y h2⟩⟩
      obtain ⟨cmd, e1, e2⟩ := one
      refine ⟨?_, cmd :: out, ?_, ⟨e2, i3⟩⟩
      · intro c hc
        rcases List.mem_cons.mp hc with rfl | hc
        · exact ⟨encNum_decodes _ _ h1, encNum_decodes _ _ h2⟩
        · exact i1 c hc
      · rw [i2, e1]; simp
    | lineTo x y =>
      simp only [stepsSmall, Bool.and_eq_true, decide_eq_true_eq] at hsm
      obtain ⟨⟨h1, h2⟩, h3⟩ := hsm
      simp only [encodeArgsFrom, drawCmds_cons]
      obtain ⟨i1, out, i2, i3⟩ := ih _ _ (drawCmd strict s (.seg (.line (encNum (x - px * 2 ^ (K - 16)) K) (encNum (y - py * 2 ^ (K - 16)) K))))
        (by simp [drawCmd, drawSeg, rLineTo, fixq, strict, hx]) (by simp [drawCmd, drawSeg, rLineTo, fixq, strict, hy]) h3
      have one : ∃ cmd, (drawCmd strict s (.seg (.line (encNum (x - px * 2 ^ (K - 16)) K) (encNum (y - py * 2 ^ (K - 16)) K)))).cmds
          = s.cmds ++ [cmd] ∧ CmdClose K cmd (.lineTo x y) := ⟨_, rfl, by
        simp only [fixq, strict, Bool.false_eq_true, if_false, hx, hy, CmdClose]
        exact ⟨encNum_close K hK px x h1, encNum_close K hK py y h2⟩⟩
      obtain ⟨cmd, e1, e2⟩ := one
      refine ⟨?_, cmd :: out, ?_, ⟨e2, i3⟩⟩
      · intro c hc
        rcases List.mem_cons.mp hc with rfl | hc
        · intro a ha
          simp only [Seg.args, List.mem_cons, List.not_mem_nil, or_false] at ha
          rcases ha with rfl | rfl
          · exact encNum_decodes _ _ h1
          · exact encNum_decodes _ _ h2
        · exact i1 c hc
      · rw [i2, e1]; simp
    | curveTo xa ya xb yb xc yc =>
      simp only [stepsSmall, Bool.and_eq_true, decide_eq_true_eq] at hsm
      obtain ⟨⟨⟨⟨⟨⟨h1, h2⟩, h3⟩, h4⟩, h5⟩, h6⟩, h7⟩ := hsm
      simp only [encodeArgsFrom, drawCmds_cons]
      obtain ⟨i1, out, i2, i3⟩ := ih _ _ (drawCmd strict s (.seg (.curve
          (encNum (xa - px * 2 ^ (K - 16)) K) (encNum (ya - py * 2 ^ (K - 16)) K)
          (encNum (xb - (encNum (xa - px * 2 ^ (K - 16)) K).val * 2 ^ (K - 16) - px * 2 ^ (K - 16)) K)
          (encNum (yb - (encNum (ya - py * 2 ^ (K - 16)) K).val * 2 ^ (K - 16) - py * 2 ^ (K - 16)) K)
          (encNum (xc - (encNum (xb - (encNum (xa - px * 2 ^ (K - 16)) K).val * 2 ^ (K - 16) - px * 2 ^ (K - 16)) K).val * 2 ^ (K - 16)
            - (encNum (xa - px * 2 ^ (K - 16)) K).val * 2 ^ (K - 16) - px * 2 ^ (K - 16)) K)
          (encNum (yc - (encNum (yb - (encNum (ya - py * 2 ^ (K - 16)) K).val * 2 ^ (K - 16) - py * 2 ^ (K - 16)) K).val * 2 ^ (K - 16)
            - (encNum (ya - py * 2 ^ (K - 16)) K).val * 2 ^ (K - 16) - py * 2 ^ (K - 16)) K))))
        (by simp only [drawCmd, drawSeg, rCurveTo, fixq, strict, Bool.false_eq_true, if_false, hx]; omega)
        (by simp only [drawCmd, drawSeg, rCurveTo, fixq, strict, Bool.false_eq_true, if_false, hy]; omega) h7
      have one : ∃ cmd, (drawCmd strict s (.seg (.curve
          (encNum (xa - px * 2 ^ (K - 16)) K) (encNum (ya - py * 2 ^ (K - 16)) K)
          (encNum (xb - (encNum (xa - px * 2 ^ (K - 16)) K).val * 2 ^ (K - 16) - px * 2 ^ (K - 16)) K)
          (encNum (yb - (encNum (ya - py * 2 ^ (K - 16)) K).val * 2 ^ (K - 16) - py * 2 ^ (K - 16)) K)
          (encNum (xc - (encNum (xb - (encNum (xa - px * 2 ^ (K - 16)) K).val * 2 ^ (K - 16) - px * 2 ^ (K - 16)) K).val * 2 ^ (K - 16)
            - (encNum (xa - px * 2 ^ (K - 16)) K).val * 2 ^ (K - 16) - px * 2 ^ (K - 16)) K)
          (encNum (yc - (encNum (yb - (encNum (ya - py * 2 ^ (K - 16)) K).val * 2 ^ (K - 16) - py * 2 ^ (K - 16)) K).val * 2 ^ (K - 16)
            - (encNum (ya - py * 2 ^ (K - 16)) K).val * 2 ^ (K - 16) - py * 2 ^ (K - 16)) K)))).cmds
          = s.cmds ++ [cmd] ∧ CmdClose K cmd (.curveTo xa ya xb yb xc yc) := ⟨_, rfl, by
        simp only [fixq, strict, Bool.false_eq_true, if_false, hx, hy, CmdClose]
        exact ⟨encNum_close K hK px xa h1, encNum_close K hK py ya h2,
          encNum_close2 K hK px _ xb h3, encNum_close2 K hK py _ yb h4,
          encNum_close3 K hK px _ _ xc h5, encNum_close3 K hK py _ _ yc h6⟩⟩
      obtain ⟨cmd, e1, e2⟩ := one
      refine ⟨?_, cmd :: out, ?_, ⟨e2, i3⟩⟩
      · intro c hc
        rcases List.mem_cons.mp hc with rfl | hc
        · intro a ha
          simp only [Seg.args, List.mem_cons, List.not_mem_nil, or_false] at ha
          rcases ha with rfl | rfl | rfl | rfl | rfl | rfl
          · exact encNum_decodes _ _ h1
          · exact encNum_decodes _ _ h2
          · exact encNum_decodes _ _ h3
          · exact encNum_decodes _ _ h4
          · exact encNum_decodes _ _ h5
          · exact encNum_decodes _ _ h6
        · exact i1 c hc
      · rw [i2, e1]; simp

/-! ### stems: every decoded edge within 2⁻¹⁷, no accumulation (after the repair of C04-stemaccum) -/

/-- every delta of one stem chunk is small (same recursion as `stemChunkCodes`: `prev` is the edge as the
decoder sees it, in 2⁻¹⁶ units) -/
def stemStepsSmall (K : Nat) : Int → List Int → Bool
  | _, [] => true
  | prev, x :: rest =>
    decide (Small K (x - prev * 2 ^ (K - 16))) &&
      stemStepsSmall K (prev + (encNum (x - prev * 2 ^ (K - 16)) K).val) rest

/-- every delta of every chunk of a stem list is small (same recursion as `stemListFuel`) -/
def stemChunksSmall (K : Nat) : Nat → Nat → List Int → Bool
  | 0, _, _ => true
  | f + 1, extra, stems =>
    if stems.length == 0 then true
    else
      let k := min ((maxStack - extra) / 2) (stems.length / 2)
      stemStepsSmall K 0 (stems.take (2 * k)) && stemChunksSmall K f 0 (stems.drop (2 * k))

/-- running sums -/
def runSum : Int → List Int → List Int
  | _, [] => []
  | p, d :: t => (p + d) :: runSum (p + d) t

theorem stemPairs_runSum (p : Int) (v : List Int) (h : v.length % 2 = 0) : stemPairs p v = runSum p v := by
  fun_induction stemPairs p v with
  | case1 prev a b t ih =>
    simp only [runSum]
    rw [ih (by simp only [List.length_cons] at h; omega)]
  | case2 l prev hl =>
    match l, hl, h with
    | [], _, _ => rfl
    | [a], _, h => simp at h
    | a :: b :: t, hl, _ => exact absurd rfl (hl a b t)

/-- decoded values agree with the input values, element for element, each within 2⁻¹⁷ -/
def CloseList (K : Nat) : List Int → List Int → Prop
  | [], [] => True
  | v :: vs, x :: xs => Close K v x ∧ CloseList K vs xs
  | _, _ => False

theorem CloseList_append (K : Nat) : ∀ (a b c d : List Int), CloseList K a b → CloseList K c d →
    CloseList K (a ++ c) (b ++ d) := by
  intro a
  induction a with
  | nil => intro b c d h1 h2; cases b with
    | nil => simpa using h2
    | cons x t => cases h1
  | cons v vs ih =>
    intro b c d h1 h2
    cases b with
    | nil => cases h1
    | cons x xs => exact ⟨h1.1, ih xs c d h1.2 h2⟩

/-- one chunk: every operand is read back, and the edge the decoder reaches after the j-th delta is within
2⁻¹⁷ of the j-th input edge — for every j: the next delta is taken from the DECODED previous edge -/
theorem chunk_close (K : Nat) (hK : 16 ≤ K) : ∀ (l : List Int) (prev : Int), stemStepsSmall K prev l = true →
    (∀ a ∈ stemChunkCodes K prev l, Decodes a) ∧
    CloseList K (runSum prev (vals (stemChunkCodes K prev l))) l := by
  intro l
  induction l with
  | nil => intro prev _; exact ⟨by simp [stemChunkCodes], trivial⟩
  | cons x t ih =>
    intro prev h
    simp only [stemStepsSmall, Bool.and_eq_true, decide_eq_true_eq] at h
    obtain ⟨i1, i2⟩ := ih _ h.2
    simp only [stemChunkCodes, vals, List.map_cons, runSum]
    refine ⟨?_, encNum_close K hK prev x h.1, i2⟩
    intro a ha
    rcases List.mem_cons.mp ha with rfl | ha
    · exact encNum_decodes _ _ h.1
    · exact i1 a ha

theorem stemChunks_decodes (K : Nat) (hK : 16 ≤ K) : ∀ (f extra : Nat) (stems : List Int),
    stemChunksSmall K f extra stems = true → ∀ c ∈ stemChunksFuel K f extra stems, ∀ a ∈ c, Decodes a := by
  intro f
  induction f with
  | zero => intro extra stems _ c hc; simp [stemChunksFuel] at hc
  | succ f ih =>
    intro extra stems hsm c hc
    simp only [stemChunksSmall] at hsm
    simp only [stemChunksFuel] at hc
    split at hc
    · cases hc
    · rename_i h0
      simp only [h0, Bool.false_eq_true, if_false, Bool.and_eq_true] at hsm
      rcases List.mem_cons.mp hc with rfl | hc
      · exact (chunk_close K hK _ 0 hsm.1).1
      · exact ih 0 _ hsm.2 c hc

/-- `C04_stems_no_accumulation`, list form: the stem edges the decoder declares are, edge for edge, within
2⁻¹⁷ of the glyph's stem edges — any resolution of the input, any chunking, any index. -/
theorem decStems_close (K : Nat) (hK : 16 ≤ K) : ∀ (f extra : Nat) (stems : List Int), stems.length < f →
    stems.length % 2 = 0 → extra ≤ 1 → stemChunksSmall K f extra stems = true →
    CloseList K (decStems (stemChunksFuel K f extra stems)) stems := by
  intro f
  induction f with
  | zero => intro extra stems h; omega
  | succ f ih =>
    intro extra stems hf hev hex hsm
    by_cases h0 : stems.length = 0
    · have : stems = [] := List.eq_nil_of_length_eq_zero h0
      subst this
      simp [stemChunksFuel, decStems, CloseList]
    · simp only [stemChunksSmall, h0, beq_iff_eq, if_false, Bool.and_eq_true] at hsm
      simp only [stemChunksFuel, h0, beq_iff_eq, if_false]
      obtain ⟨k, hk⟩ : ∃ k, k = min ((maxStack - extra) / 2) (stems.length / 2) := ⟨_, rfl⟩
      rw [← hk] at hsm ⊢
      rw [maxStack_48] at hk
      have hk1 : 1 ≤ k := by omega
      have hk2 : 2 * k ≤ stems.length := by omega
      have hrl : (stems.drop (2 * k)).length = stems.length - 2 * k := List.length_drop
      have hrest := ih 0 (stems.drop (2 * k)) (by omega) (by omega) (by omega) hsm.2
      have hchunk := (chunk_close K hK _ 0 hsm.1).2
      simp only [decStems, List.flatMap_cons] at hrest ⊢
      rw [stemPairs_runSum _ _ (by
        simp only [vals, List.length_map, stemChunkCodes_length, List.length_take]; omega)]
      have := CloseList_append K _ _ _ _ hchunk hrest
      rwa [List.take_append_drop] at this

/-! #### a chunk-independent sufficient condition -/

/-- consecutive stem edges differ by at most 32766 -/
def adjSmall (K : Nat) : List Int → Bool
  | x :: y :: t => decide ((y - x).natAbs ≤ 32766 * 2 ^ K) && adjSmall K (y :: t)
  | _ => true

/-- every stem edge and every difference of consecutive edges is within ±32766 (one unit of slack for the
rounding of the previous edge): then every delta the encoder writes — whatever the chunking — is within
±32767 -/
def stemsSmall (K : Nat) (l : List Int) : Bool :=
  l.all (fun x => decide (x.natAbs ≤ 32766 * 2 ^ K)) && adjSmall K l

theorem adjSmall_tail (K : Nat) (x : Int) (t : List Int) (h : adjSmall K (x :: t) = true) : adjSmall K t = true := by
  cases t with
  | nil => rfl
  | cons y t' => simp only [adjSmall, Bool.and_eq_true] at h; exact h.2

theorem adjSmall_drop (K : Nat) (n : Nat) : ∀ (l : List Int), adjSmall K l = true → adjSmall K (l.drop n) = true := by
  induction n with
  | zero => intro l h; simpa using h
  | succ n ih =>
    intro l h
    cases l with
    | nil => rfl
    | cons x t => simp only [List.drop_succ_cons]; exact ih t (adjSmall_tail K x t h)

theorem adjSmall_take (K : Nat) : ∀ (l : List Int) (n : Nat), adjSmall K l = true → adjSmall K (l.take n) = true := by
  intro l
  induction l with
  | nil => intro n h; simp [adjSmall]
  | cons x t ih =>
    intro n h
    cases n with
    | zero => rfl
    | succ n =>
      cases t with
      | nil => simp [adjSmall]
      | cons y t' =>
        cases n with
        | zero => simp [adjSmall]
        | succ m =>
          simp only [adjSmall, Bool.and_eq_true] at h
          have := ih (m + 1) h.2
          simp only [List.take_succ_cons] at this ⊢
          simp only [adjSmall, Bool.and_eq_true]
          exact ⟨h.1, this⟩

/-- the decoded previous edge `p` is within 2⁻¹⁷ of `xp`, the next edge within 32766 of `xp`: the next
delta is within 32767 -/
theorem small_of_close (K : Nat) (hK : 16 ≤ K) (p xp x : Int) (hc : Close K p xp)
    (hd : (x - xp).natAbs ≤ 32766 * 2 ^ K) : Small K (x - p * 2 ^ (K - 16)) := by
  have hpow := pow_split K hK
  unfold Close at hc
  unfold Small
  have hsh : (0 : Int) < 2 ^ (K - 16) := Int.pow_pos (by decide)
  have hnat : (2 ^ K : Nat) = 2 ^ (K - 16) * 65536 := by
    obtain ⟨j, rfl⟩ : ∃ j, K = j + 16 := ⟨K - 16, by omega⟩
    rw [Nat.add_sub_cancel, Nat.pow_add]
  rw [hpow, ← Int.mul_assoc] at hc
  rw [hnat] at hc hd ⊢
  have hcast : ((2 : Int) ^ (K - 16)) = ((2 ^ (K - 16) : Nat) : Int) := by simp
  rw [hcast] at hc hsh ⊢
  generalize (2 ^ (K - 16) : Nat) = sh at *
  generalize p * (sh : Int) = a at *
  omega

theorem stemSteps_of_adj (K : Nat) (hK : 16 ≤ K) : ∀ (l : List Int) (prev xp : Int), Close K prev xp →
    adjSmall K (xp :: l) = true → stemStepsSmall K prev l = true := by
  intro l
  induction l with
  | nil => intro prev xp _ _; rfl
  | cons x t ih =>
    intro prev xp hc hadj
    simp only [adjSmall, Bool.and_eq_true, decide_eq_true_eq] at hadj
    have hs := small_of_close K hK prev xp x hc hadj.1
    simp only [stemStepsSmall, Bool.and_eq_true, decide_eq_true_eq]
    exact ⟨hs, ih _ x (encNum_close K hK prev x hs) hadj.2⟩

theorem stemsSmall_chunksSmall (K : Nat) (hK : 16 ≤ K) : ∀ (f extra : Nat) (stems : List Int),
    stemsSmall K stems = true → stemChunksSmall K f extra stems = true := by
  intro f
  induction f with
  | zero => intro extra stems _; rfl
  | succ f ih =>
    intro extra stems hsm
    simp only [stemsSmall, Bool.and_eq_true, List.all_eq_true, decide_eq_true_eq] at hsm
    simp only [stemChunksSmall]
    split
    · rfl
    · simp only [Bool.and_eq_true]
      refine ⟨?_, ih 0 _ ?_⟩
      · have hadj := adjSmall_take K _ (2 * min ((maxStack - extra) / 2) (stems.length / 2)) hsm.2
        refine stemSteps_of_adj K hK _ 0 0 (by unfold Close; simp) ?_
        cases hms : stems.take (2 * min ((maxStack - extra) / 2) (stems.length / 2)) with
        | nil => simp [adjSmall]
        | cons m t =>
          rw [hms] at hadj
          simp only [adjSmall, Bool.and_eq_true, decide_eq_true_eq]
          refine ⟨?_, hadj⟩
          have hm : m ∈ stems := List.mem_of_mem_take (by rw [hms]; exact List.mem_cons_self)
          simpa using hsm.1 m hm
      · simp only [stemsSmall, Bool.and_eq_true, List.all_eq_true, decide_eq_true_eq]
        exact ⟨fun x hx => hsm.1 x (List.mem_of_mem_drop hx), adjSmall_drop K _ _ hsm.2⟩

/-! #### 16.16 stems are read back exactly -/

theorem close_exact (K : Nat) (hK : 16 ≤ K) (v m : Int) (h : Close K v (m * 2 ^ (K - 16))) : v = m := by
  have hpow := pow_split K hK
  unfold Close at h
  have e : v * ((2 ^ K : Nat) : Int) - m * 2 ^ (K - 16) * 65536 = (v - m) * ((2 ^ K : Nat) : Int) := by
    rw [Int.sub_mul, hpow, Int.mul_assoc m]
  rw [e, Int.natAbs_mul, Int.natAbs_natCast] at h
  have hp : 0 < 2 ^ K := Nat.two_pow_pos K
  have : (v - m).natAbs = 0 := by
    apply Nat.eq_zero_of_not_pos
    intro hpos
    have : 2 ^ K ≤ (v - m).natAbs * 2 ^ K := Nat.le_mul_of_pos_left _ hpos
    omega
  omega

theorem closeList_exact (K : Nat) (hK : 16 ≤ K) : ∀ (vs ms : List Int),
    CloseList K vs (ms.map (· * 2 ^ (K - 16))) → vs = ms := by
  intro vs
  induction vs with
  | nil => intro ms h; cases ms with
    | nil => rfl
    | cons m t => cases h
  | cons v t ih =>
    intro ms h
    cases ms with
    | nil => cases h
    | cons m t' =>
      simp only [List.map_cons, CloseList] at h
      rw [close_exact K hK v m h.1, ih t' h.2]

/-- Stems that are multiples of 2⁻¹⁶ (`ms` in 16.16 units) are read back exactly, whatever the chunking. -/
theorem decStems_exact (K : Nat) (hK : 16 ≤ K) (f extra : Nat) (ms : List Int) (hf : ms.length < f)
    (hev : ms.length % 2 = 0) (hex : extra ≤ 1)
    (hsm : stemChunksSmall K f extra (ms.map (· * 2 ^ (K - 16))) = true) :
    decStems (stemChunksFuel K f extra (ms.map (· * 2 ^ (K - 16)))) = ms :=
  closeList_exact K hK _ ms (decStems_close K hK f extra _ (by simpa using hf) (by simpa using hev) hex hsm)

/-! #### the formula before the repair (finding C04-stemaccum, fixed in b6e7b8c) -/

/-- `stemChunkCodes` as the Go code was BEFORE the repair: `encodeNumber(x - prev); prev = x`, the delta
taken from the unrounded previous edge -/
def stemChunkCodesOld (K : Nat) : Int → List Int → List EncNum
  | _, [] => []
  | prev, x :: rest => encNum (x - prev) K :: stemChunkCodesOld K x rest

/-! ### the round trip with numeric hypotheses -/

theorem widthDone_xy (env : Env) (s : St) : (widthDone env s).x = s.x ∧ (widthDone env s).y = s.y := by
  simp only [widthDone]
  split <;> (try split) <;> exact ⟨rfl, rfl⟩

theorem declAll_xy (env : Env) (isV : Bool) (s : St) (chunks : List (List EncNum)) :
    (declAll env isV s chunks).x = s.x ∧ (declAll env isV s chunks).y = s.y := by
  induction chunks generalizing s with
  | nil => exact ⟨rfl, rfl⟩
  | cons c t ih =>
    have hd : declAll env isV s (c :: t) = declAll env isV (stemDecl env isV s (vals c)) t := rfl
    rw [hd, (ih _).1, (ih _).2]
    cases isV <;> simp only [stemDecl, Bool.false_eq_true, if_false, if_true] <;> exact widthDone_xy env s

theorem hdrState_xy (env : Env) (K : Nat) (w : Int) (hs vs : List Int) :
    (widthDone env (hdrState env K w hs vs)).x = 0 ∧ (widthDone env (hdrState env K w hs vs)).y = 0 := by
  have s1 : (startState env K w).x = 0 ∧ (startState env K w).y = 0 := by
    unfold startState; split <;> exact ⟨rfl, rfl⟩
  obtain ⟨a1, a2⟩ := widthDone_xy env (hdrState env K w hs vs)
  obtain ⟨b1, b2⟩ := declAll_xy env true (hState env K w hs) (vChunks env K w hs vs)
  obtain ⟨c1, c2⟩ := declAll_xy env false (startState env K w) (hChunks env K w hs)
  unfold hdrState at *
  unfold hState at *
  exact ⟨by rw [a1, b1, c1, s1.1], by rw [a2, b2, c2, s1.2]⟩

/-- every delta of the hstem section is within ±32767 -/
def hStemsSmall (env : Env) (K : Nat) (w : Int) (hs : List Int) : Bool :=
  stemChunksSmall K (hs.length + 1) (widthExtra env K w) hs

/-- every delta of the vstem section is within ±32767 -/
def vStemsSmall (env : Env) (K : Nat) (w : Int) (hs vs : List Int) : Bool :=
  stemChunksSmall K (vs.length + 1) (if hs.length = 0 then widthExtra env K w else 0) vs

theorem stemsSmall_hv (env : Env) (K : Nat) (hK : 16 ≤ K) (w : Int) (hs vs : List Int)
    (hh : stemsSmall K hs = true) (hv : stemsSmall K vs = true) :
    hStemsSmall env K w hs = true ∧ vStemsSmall env K w hs vs = true :=
  ⟨stemsSmall_chunksSmall K hK _ _ hs hh, stemsSmall_chunksSmall K hK _ _ vs hv⟩

/-- Round trip, numeric hypotheses only (all decidable): a well-formed glyph (`GlyphWF`) all of whose
encoded steps are within ±32767 (`stepsSmall` along the path, `Small` for width − nominal width,
`hStemsSmall`/`vStemsSmall` for the stem deltas) is read back by the specification interpreter — for every
choice of edge paths — as a glyph with the same commands (every coordinate within 2⁻¹⁷, masks byte for
byte), the same stems (every edge within 2⁻¹⁷, at any index, any resolution of the input) and the width. -/
theorem glyph_roundtrip (env : Env) (K : Nat) (hK : 16 ≤ K) (w : Int) (hs vs : List Int) (cmds : List InCmd)
    (paths : List (List (Nat × Op))) (bytes : List Nat)
    (h : encodeCharString K w hs vs cmds env.defaultWidth env.nominalWidth paths = some bytes)
    (hwf : GlyphWF hs vs cmds = true) (hsteps : stepsSmall K 0 0 cmds = true)
    (hw : w ≠ env.defaultWidth * 2 ^ (K - 16) → Small K (w - env.nominalWidth * 2 ^ (K - 16)))
    (hhs : hStemsSmall env K w hs = true) (hvs : vStemsSmall env K w hs vs = true) :
    ∃ g, T2.interp strict env bytes = .ok g ∧ CmdsClose K g.cmds cmds ∧
      CloseList K g.hstem hs ∧ CloseList K g.vstem vs ∧
      g.hstem = decStems (hChunks env K w hs) ∧ g.vstem = decStems (vChunks env K w hs vs) ∧
      g.width = (if w = env.defaultWidth * 2 ^ (K - 16) then env.defaultWidth
        else (encNum (w - env.nominalWidth * 2 ^ (K - 16)) K).val + env.nominalWidth) ∧
      (w ≠ env.defaultWidth * 2 ^ (K - 16) → Close K g.width w) := by
  obtain ⟨x0, y0⟩ := hdrState_xy env K w hs vs
  obtain ⟨hdec, out, ho1, ho2⟩ := drawCmds_close K hK cmds 0 0 (widthDone env (hdrState env K w hs vs)) x0 y0 hsteps
  have hdh := stemChunks_decodes K hK _ _ hs hhs
  have hdv := stemChunks_decodes K hK _ _ vs hvs
  have hsound := glyph_sound env K w hs vs cmds paths bytes h hwf hdec
    (fun hne => encNum_decodes _ _ (hw hne)) hdh hdv
  obtain ⟨f1, f2, f3⟩ := drawCmds_frame strict (widthDone env (hdrState env K w hs vs)) (encodeArgs K cmds)
  obtain ⟨x1, x2, x3, x4, x5, x6⟩ := hdrState_fields env K w hs vs
  obtain ⟨g1, g2, g3, g4, g5, g6, g7, g8⟩ := widthDone_fields env (hdrState env K w hs vs)
  have hpar : hs.length % 2 = 0 ∧ vs.length % 2 = 0 := by
    obtain ⟨_, _, _, a, b, _⟩ := header_reaches env K w hs vs cmds paths bytes h
      (fun hne => encNum_decodes _ _ (hw hne)) hdh hdv
    exact ⟨a, b⟩
  have hex1 : widthExtra env K w ≤ 1 := by unfold widthExtra; split <;> omega
  refine ⟨_, hsound, ?_, ?_, ?_, ?_, ?_, ?_, ?_⟩
  · simp only [St.glyph]
    unfold encodeArgs
    rw [ho1, g8, x2]
    exact ho2
  · simp only [St.glyph, f2, g6, x3]
    exact decStems_close K hK _ _ hs (by omega) hpar.1 hex1 hhs
  · simp only [St.glyph, f3, g7, x4]
    exact decStems_close K hK _ _ vs (by omega) hpar.2 (by split <;> omega) hvs
  · simp only [St.glyph, f2, g6, x3]
  · simp only [St.glyph, f3, g7, x4]
  · simp only [St.glyph, f1, x6]
  · intro hne
    simp only [St.glyph, f1, x6, hne, if_false]
    have := encNum_close K hK env.nominalWidth w (hw hne)
    rw [Int.add_comm]
    exact this

end SfntV.T2Enc
