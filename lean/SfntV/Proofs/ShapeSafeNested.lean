/-
No panic (C07), second class: guarded lookup lists WITH contextual subtables none of whose
nested actions runs a ligature substitution (nested insertions by GSUB 2.1 are covered).  The invariant is the well-formedness of the stack
of nested actions: recorded positions inside the sequence, `EndPos` inside the sequence.
-/
import SfntV.Proofs.ShapeSafe

namespace SfntV.Shape
open SfntV

/-- well-formedness of one stack entry for a sequence of length `n` -/
structure EntryWF (ll : LookupList) (n : Nat) (e : Nested) : Prop where
  pos : ∀ p ∈ e.inputPos, 0 ≤ p ∧ p < (n : Int)
  endLo : 0 ≤ e.endPos
  endHi : e.endPos ≤ (n : Int)
  acts : ∀ act ∈ e.actions, actOK ll act = true

/-- well-formedness of the state -/
def WF (ll : LookupList) (st : St) : Prop := ∀ e ∈ st.stack, EntryWF ll st.seq.length e

theorem WF.nil {ll : LookupList} {st : St} (h : st.stack = []) : WF ll st := by
  intro e he; rw [h] at he; cases he

theorem WF.set {ll : LookupList} {st : St} (h : WF ll st) (a : Nat) (g : Glyph) :
    WF ll { st with seq := st.seq.set a g } := by
  intro e he
  have := h e he
  exact ⟨by simpa using this.pos, this.endLo, by simpa using this.endHi, this.acts⟩

/-! ## where the scanning helpers stop -/

theorem skipFwd_le (kp : Nat → Bool) : ∀ (rest : List Glyph) (p : Nat) (limit : Int) (needed q : Nat),
    skipFwd kp rest p limit needed = .ok q → p ≤ q ∧ q ≤ p + rest.length := by
  intro rest
  induction rest with
  | nil =>
    intro p limit needed q h
    simp only [skipFwd] at h
    split at h
    · cases h
    · injection h with h; subst h; exact ⟨Nat.le_refl _, Nat.le_add_right _ _⟩
  | cons g rest ih =>
    intro p limit needed q h
    simp only [skipFwd] at h
    split at h
    · split at h
      · injection h with h; subst h; exact ⟨Nat.le_refl _, Nat.le_add_right _ _⟩
      · have := ih _ _ _ _ h
        simp only [List.length_cons]; omega
    · injection h with h; subst h; exact ⟨Nat.le_refl _, Nat.le_add_right _ _⟩

theorem skipFwd_drop_le (kp : Nat → Bool) (seq : List Glyph) (p : Nat) (limit : Int) (needed q : Nat)
    (hp : p ≤ seq.length) (h : skipFwd kp (seq.drop p) p limit needed = .ok q) : p ≤ q ∧ q ≤ seq.length := by
  have := skipFwd_le kp _ _ _ _ _ h
  simp only [List.length_drop] at this
  omega

theorem idx_lt {site : String} {xs : List α} {i : Nat} {v : α} (h : idx site xs i = .ok v) : i < xs.length := by
  have := idx_ok h
  rcases Nat.lt_or_ge i xs.length with h' | h'
  · exact h'
  · rw [List.getElem?_eq_none h'] at this; cases this

theorem matchFwd_pos (kp : Nat → Bool) (seq : List Glyph) : ∀ (prs : List (Nat → Bool)) (p : Nat) (limit : Int) ps last,
    p < seq.length → matchFwd kp seq prs p limit = .ok (some (ps, last)) →
    (∀ x ∈ ps, x < seq.length) ∧ last < seq.length := by
  intro prs
  induction prs with
  | nil =>
    intro p limit ps last hp h
    simp only [matchFwd] at h
    injection h with h; injection h with h; injection h with h1 h2; subst h1 h2
    exact ⟨fun x hx => (by cases hx), hp⟩
  | cons pr prs ih =>
    intro p limit ps last hp h
    simp only [matchFwd] at h
    obtain ⟨q, hq, h⟩ := bind_ok h
    split at h
    · cases h
    · obtain ⟨g, hg, h⟩ := bind_ok h
      split at h
      · obtain ⟨r, hr, h⟩ := bind_ok h
        split at h
        · rename_i ps' last'
          injection h with h; injection h with h; injection h with h1 h2; subst h1 h2
          have hq' := idx_lt hg
          obtain ⟨h1, h2⟩ := ih q limit ps' _ hq' hr
          refine ⟨?_, h2⟩
          intro x hx
          rcases List.mem_cons.mp hx with hx | hx
          · subst hx; exact hq'
          · exact h1 x hx
        · cases h
      · cases h

theorem matchRule_pos (kp : Nat → Bool) (seq : List Glyph) (a : Nat) (b : Int) (back input look : List (Nat → Bool))
    (ps : List Nat) (next : Nat) (ha : a < seq.length)
    (h : matchRule kp seq a b back input look = .ok (some (ps, next))) :
    (∀ x ∈ ps, x < seq.length) ∧ next ≤ seq.length := by
  unfold matchRule at h
  split at h
  · cases h
  · obtain ⟨x, hx, h⟩ := bind_ok h
    split at h
    · cases h
    · rename_i ps' p
      obtain ⟨y, hy, h⟩ := bind_ok h
      split at h
      · cases h
      · obtain ⟨nx, hnx, h⟩ := bind_ok h
        injection h with h; injection h with h; injection h with h1 h2; subst h1 h2
        obtain ⟨hps, hp⟩ := matchFwd_pos kp seq _ _ _ _ _ ha hx
        have := skipFwd_drop_le kp seq (p + 1) b 0 nx (by omega) hnx
        refine ⟨?_, this.2⟩
        intro x hx
        rcases List.mem_cons.mp hx with hx | hx
        · subst hx; exact ha
        · exact hps x hx

theorem chain3Input_pos (kp : Nat → Bool) (seq : List Glyph) : ∀ (cs : List GSet) (p : Nat) (limit : Int) ps last,
    p ≤ seq.length → chain3Input kp seq cs p limit = .ok (some (ps, last)) →
    (∀ x ∈ ps, x < seq.length) ∧ last ≤ seq.length := by
  intro cs
  induction cs with
  | nil =>
    intro p limit ps last hp h
    simp only [chain3Input] at h
    injection h with h; injection h with h; injection h with h1 h2; subst h1 h2
    exact ⟨fun x hx => (by cases hx), hp⟩
  | cons c cs ih =>
    intro p limit ps last hp h
    simp only [chain3Input] at h
    split at h
    · cases h
    · obtain ⟨g, hg, h⟩ := bind_ok h
      split at h
      · cases h
      · obtain ⟨q, hq, h⟩ := bind_ok h
        obtain ⟨r, hr, h⟩ := bind_ok h
        split at h
        · rename_i ps' last'
          injection h with h; injection h with h; injection h with h1 h2; subst h1 h2
          have hp' := idx_lt hg
          have hq' := skipFwd_drop_le kp seq (p + 1) limit 0 q (by omega) hq
          obtain ⟨h1, h2⟩ := ih q limit ps' _ hq'.2 hr
          refine ⟨?_, h2⟩
          intro x hx
          rcases List.mem_cons.mp hx with hx | hx
          · subst hx; exact hp'
          · exact h1 x hx
        · cases h

/-! ## pushing a match keeps the stack well-formed -/

theorem WF.push {ll : LookupList} {st : St} (h : WF ll st) (ps : List Nat) (acts : List Action) (e : Nat)
    (hps : ∀ x ∈ ps, x < st.seq.length) (he : e ≤ st.seq.length) (hacts : ∀ act ∈ acts, actOK ll act = true) :
    WF ll (pushMatch st ps acts e) := by
  intro en hen
  simp only [pushMatch] at hen
  rcases List.mem_cons.mp hen with hen | hen
  · subst hen
    have hlen : (pushMatch st ps acts e).seq.length = st.seq.length := rfl
    rw [hlen]
    refine ⟨?_, by simp, by simpa using he, hacts⟩
    intro p hp
    simp only [List.mem_map] at hp
    obtain ⟨x, hx, rfl⟩ := hp
    have := hps x hx
    constructor
    · exact Int.natCast_nonneg x
    · exact Int.ofNat_lt.mpr this
  · exact h en hen

/-- postcondition of a subtable application: the resulting state (if any) is well-formed -/
def StepWF (ll : LookupList) (_st : St) : Option (St × Nat) → Prop
  | none => True
  | some r => WF ll r.1

theorem firstRule_safeWF (ll : LookupList) (kp : Nat → Bool) (st : St) (a : Nat) (b : Int) (mb mi ml : Nat → Nat → Bool)
    (ha : a < st.seq.length) (hb : b ≤ (st.seq.length : Int)) (hwf : WF ll st) :
    ∀ (rs : List Rule), (∀ r ∈ rs, ∀ act ∈ r.actions, actOK ll act = true) →
    Safe (StepWF ll st) (firstRule kp st a b mb mi ml rs) := by
  intro rs
  induction rs with
  | nil => intro _; simp only [firstRule]; trivial
  | cons r rs ih =>
    intro hacts
    simp only [firstRule]
    have hmr : Safe (fun x => ∀ ps next, x = some (ps, next) → (∀ y ∈ ps, y < st.seq.length) ∧ next ≤ st.seq.length)
        (matchRule kp st.seq a b (r.back.map mb) (r.input.map mi) (r.look.map ml)) := by
      have hsafe : Safe (fun _ => True) (matchRule kp st.seq a b (r.back.map mb) (r.input.map mi) (r.look.map ml)) := by
        unfold matchRule
        split
        · trivial
        · refine Safe.bind (matchFwd_safe kp st.seq _ a b hb) ?_
          intro x _ _
          split
          · trivial
          · refine Safe.bind (matchFwd_safe kp st.seq _ _ _ (Int.le_refl _)) ?_
            intro y _ _
            split
            · trivial
            · refine Safe.bind (skipFwd_drop_safe kp st.seq _ b 0 hb) ?_
              intro _ _ _; trivial
      cases hm : matchRule kp st.seq a b (r.back.map mb) (r.input.map mi) (r.look.map ml) with
      | ok x =>
        intro ps next hx; subst hx
        exact matchRule_pos kp st.seq a b _ _ _ ps next ha hm
      | err e => trivial
      | panic s => rw [hm] at hsafe; exact hsafe.elim
    refine Safe.bind hmr ?_
    intro x _ hx
    cases x with
    | none => exact ih (fun r' hr' => hacts r' (List.mem_cons_of_mem _ hr'))
    | some pn =>
      obtain ⟨ps, next⟩ := pn
      obtain ⟨h1, h2⟩ := hx ps next rfl
      exact hwf.push ps r.actions next h1 h2 (hacts r List.mem_cons_self)

/-! ## length-preserving, non-contextual subtables: stack and length untouched -/

/-- the result (if any) has the same stack and the same sequence length -/
def SameShape (st : St) : Option (St × Nat) → Prop
  | none => True
  | some r => r.1.stack = st.stack ∧ r.1.seq.length = st.seq.length

theorem sameShape_set (st : St) (a : Nat) (g : Glyph) (n : Nat) :
    SameShape st (some ({ st with seq := st.seq.set a g }, n)) := ⟨rfl, by simp⟩

theorem applyPair_shape (st : St) (a p : Nat) (g1 g2 : Glyph) (pa : PairAdj)
    (hok : pairOk (some pa) = true) : Safe (SameShape st) (applyPair st a p g1 g2 pa) := by
  simp only [pairOk, Bool.and_eq_true] at hok
  unfold applyPair
  refine Safe.bind (applyValue_safe hok.1 g1) ?_
  intro g1' _ _
  split
  · exact sameShape_set _ _ _ _
  · rename_i v hv
    refine Safe.bind (applyValue_safe (by rw [← hv]; exact hok.2) g2) ?_
    intro g2' _ _
    exact ⟨rfl, by simp⟩

theorem applyMark_shape (add : Nat → Bool) (st : St) (a : Nat) (markCov baseCov : Cov) (marks : List MarkRec)
    (bases : List (List Anchor)) (hm : covBelow markCov marks.length = true)
    (hb : covBelow baseCov bases.length = true) (ha : a < st.seq.length) :
    Safe (SameShape st) (applyMark add st a markCov baseCov marks bases) := by
  unfold applyMark
  refine Safe.bind (idx_safe ha) ?_
  intro g _ _
  split
  · trivial
  · rename_i mi hmi
    refine Safe.bind (idx_safe (covBelow_lt hm hmi)) ?_
    intro mr _ _
    split
    · trivial
    · split
      · trivial
      · split
        · trivial
        · rename_i bi hbi
          refine Safe.bind (idx_safe (covBelow_lt hb hbi)) ?_
          intro row _ _
          split
          · trivial
          · split
            · trivial
            · exact sameShape_set _ _ _ _

theorem applySub_shape (kp : Nat → Bool) (st : St) (a : Nat) (b : Int) (s : Subtable)
    (hg : s.guarded = true) (hs : s.contextual = false) (hf : s.fixedLen = true)
    (ha : a < st.seq.length) (hb : b ≤ (st.seq.length : Int)) :
    Safe (SameShape st) (applySub kp st a b s) := by
  have hlim : ((st.seq.length : Nat) : Int) ≤ (st.seq.length : Int) := Int.le_refl _
  cases s with
  | gsub11 cov delta =>
    simp only [applySub]
    refine Safe.bind (idx_safe ha) ?_
    intro g _ _
    split
    · trivial
    · exact sameShape_set _ _ _ _
  | gsub12 cov subst =>
    simp only [applySub]
    refine Safe.bind (idx_safe ha) ?_
    intro g _ _
    split
    · trivial
    · rename_i i hi
      refine Safe.bind (idx_safe (covBelow_lt hg hi)) ?_
      intro n _ _
      exact sameShape_set _ _ _ _
  | gsub21 cov repl => simp [Subtable.fixedLen] at hf
  | gsub31 cov alts =>
    simp only [applySub]
    refine Safe.bind (idx_safe ha) ?_
    intro g _ _
    split
    · trivial
    · rename_i i hi
      refine Safe.bind (idx_safe (covBelow_lt hg hi)) ?_
      intro alt _ _
      split
      · trivial
      · exact sameShape_set _ _ _ _
  | gsub41 cov ligs => simp [Subtable.fixedLen] at hf
  | gsub81 input back look subst =>
    simp only [applySub]
    refine Safe.bind (idx_safe ha) ?_
    intro g _ _
    split
    · trivial
    · rename_i i hi
      split
      · trivial
      · refine Safe.bind (matchFwd_safe kp st.seq _ a _ hlim) ?_
        intro r _ _
        split
        · trivial
        · refine Safe.bind (idx_safe (covBelow_lt hg hi)) ?_
          intro n _ _
          exact sameShape_set _ _ _ _
  | ctx1 cov rules => simp [Subtable.contextual] at hs
  | ctx2 cov cls rules => simp [Subtable.contextual] at hs
  | ctx3 input actions => simp [Subtable.contextual] at hs
  | chain1 cov rules => simp [Subtable.contextual] at hs
  | chain2 cov bcls icls lcls rules => simp [Subtable.contextual] at hs
  | chain3 back input look actions => simp [Subtable.contextual] at hs
  | gpos11 cov adj =>
    simp only [applySub]
    refine Safe.bind (idx_safe ha) ?_
    intro g _ _
    split
    · trivial
    · refine Safe.bind (applyValue_safe hg g) ?_
      intro g' _ _
      exact sameShape_set _ _ _ _
  | gpos12 cov adj =>
    simp only [Subtable.guarded, Bool.and_eq_true] at hg
    simp only [applySub]
    refine Safe.bind (idx_safe ha) ?_
    intro g _ _
    split
    · trivial
    · rename_i i hi
      refine Safe.bind (idx_safe (covBelow_lt hg.1 hi)) ?_
      intro v hv _
      have hvok : valueOk v = true := List.all_eq_true.mp hg.2 v (List.mem_of_getElem? (idx_ok hv))
      refine Safe.bind (applyValue_safe hvok g) ?_
      intro g' _ _
      exact sameShape_set _ _ _ _
  | gpos21 pairs =>
    simp only [Subtable.guarded] at hg
    simp only [applySub]
    refine Safe.bind (idx_safe ha) ?_
    intro g1 _ _
    refine Safe.bind (skipFwd_drop_safe kp st.seq (a + 1) _ 0 hb) ?_
    intro p _ _
    split
    · trivial
    · rename_i hp
      refine Safe.bind (idx_safe (by omega)) ?_
      intro g2 _ _
      split
      · trivial
      · rename_i hl
        obtain ⟨k', hk'⟩ := lookup_mem _ _ _ hl
        have := List.all_eq_true.mp hg _ hk'
        simp [pairOk] at this
      · rename_i pa hl
        obtain ⟨k', hk'⟩ := lookup_mem _ _ _ hl
        exact applyPair_shape st a p g1 g2 pa (List.all_eq_true.mp hg _ hk')
  | gpos22 cov cls1 cls2 adj =>
    simp only [Subtable.guarded] at hg
    simp only [applySub]
    refine Safe.bind (idx_safe ha) ?_
    intro g1 _ _
    split
    · trivial
    · refine Safe.bind (skipFwd_drop_safe kp st.seq (a + 1) _ 0 hb) ?_
      intro p _ _
      split
      · trivial
      · rename_i hp
        refine Safe.bind (idx_safe (by omega)) ?_
        intro g2 _ _
        split
        · trivial
        · rename_i row hrow
          have hrowok := List.all_eq_true.mp hg row (List.mem_of_getElem? hrow)
          split
          · trivial
          · rename_i hx
            have := List.all_eq_true.mp hrowok _ (List.mem_of_getElem? hx)
            simp [pairOk] at this
          · rename_i pa hx
            exact applyPair_shape st a p g1 g2 pa (List.all_eq_true.mp hrowok _ (List.mem_of_getElem? hx))
  | gpos31 cov recs =>
    simp only [Subtable.guarded] at hg
    simp only [applySub]
    refine Safe.bind (idx_safe ha) ?_
    intro g _ _
    split
    · trivial
    · rename_i i hi
      refine Safe.bind (idx_safe (covBelow_lt hg hi)) ?_
      intro r _ _
      refine Safe.bind (Q := fun _ => True) ?_ ?_
      · split
        · refine Safe.bind (idx_safe (by omega)) ?_
          intro prev _ _
          split
          · trivial
          · rename_i pi hpi
            refine Safe.bind (idx_safe (covBelow_lt hg hpi)) ?_
            intro pr _ _
            trivial
        · trivial
      · intro yo _ _
        refine Safe.bind (Q := fun _ => True) ?_ ?_
        · split
          · refine Safe.bind (idx_safe (by omega)) ?_
            intro nx _ _
            split
            · trivial
            · rename_i ni hni
              refine Safe.bind (idx_safe (covBelow_lt hg hni)) ?_
              intro nr _ _
              trivial
          · trivial
        · intro ad _ _
          exact sameShape_set _ _ _ _
  | gpos41 markCov baseCov marks bases gclass =>
    simp only [Subtable.guarded, Bool.and_eq_true] at hg
    simp only [applySub]
    exact applyMark_shape _ st a _ _ _ _ hg.1 hg.2 ha
  | gpos61 markCov baseCov marks bases =>
    simp only [Subtable.guarded, Bool.and_eq_true] at hg
    simp only [applySub]
    exact applyMark_shape _ st a _ _ _ _ hg.1 hg.2 ha

theorem SameShape.stepWF {ll : LookupList} {st : St} (hwf : WF ll st) {r : Option (St × Nat)} (h : SameShape st r) :
    StepWF ll st r := by
  cases r with
  | none => trivial
  | some r =>
    intro e he
    have he' : e ∈ st.stack := by rw [← h.1]; exact he
    have := hwf e he'
    exact ⟨by rw [h.2]; exact this.pos, this.endLo, by rw [h.2]; exact this.endHi, this.acts⟩

/-! ## contextual subtables: a well-formed entry is pushed -/

theorem matchRule_safePos (kp : Nat → Bool) (seq : List Glyph) (a : Nat) (b : Int) (back input look : List (Nat → Bool))
    (ha : a < seq.length) (hb : b ≤ (seq.length : Int)) :
    Safe (fun x => ∀ ps next, x = some (ps, next) → (∀ y ∈ ps, y < seq.length) ∧ next ≤ seq.length)
      (matchRule kp seq a b back input look) := by
  have hsafe : Safe (fun _ => True) (matchRule kp seq a b back input look) := by
    unfold matchRule
    split
    · trivial
    · refine Safe.bind (matchFwd_safe kp seq _ a b hb) ?_
      intro x _ _
      split
      · trivial
      · refine Safe.bind (matchFwd_safe kp seq _ _ _ (Int.le_refl _)) ?_
        intro y _ _
        split
        · trivial
        · refine Safe.bind (skipFwd_drop_safe kp seq _ b 0 hb) ?_
          intro _ _ _; trivial
  cases hm : matchRule kp seq a b back input look with
  | ok x =>
    intro ps next hx; subst hx
    exact matchRule_pos kp seq a b _ _ _ ps next ha hm
  | err e => trivial
  | panic s => rw [hm] at hsafe; exact hsafe.elim

theorem chain3Input_safe (kp : Nat → Bool) (seq : List Glyph) : ∀ (cs : List GSet) (p : Nat) (limit : Int),
    limit ≤ (seq.length : Int) → Safe (fun _ => True) (chain3Input kp seq cs p limit) := by
  intro cs
  induction cs with
  | nil => intro p limit _; simp only [chain3Input]; trivial
  | cons c cs ih =>
    intro p limit h
    simp only [chain3Input]
    split
    · trivial
    · refine Safe.bind (idx_safe (by omega)) ?_
      intro g _ _
      split
      · trivial
      · refine Safe.bind (skipFwd_drop_safe kp seq (p + 1) limit 0 h) ?_
        intro q _ _
        refine Safe.bind (ih q limit h) ?_
        intro r _ _
        split <;> trivial

theorem chain3Input_safePos (kp : Nat → Bool) (seq : List Glyph) (cs : List GSet) (p : Nat) (limit : Int)
    (hp : p ≤ seq.length) (h : limit ≤ (seq.length : Int)) :
    Safe (fun x => ∀ ps last, x = some (ps, last) → (∀ y ∈ ps, y < seq.length) ∧ last ≤ seq.length)
      (chain3Input kp seq cs p limit) := by
  have hsafe := chain3Input_safe kp seq cs p limit h
  cases hm : chain3Input kp seq cs p limit with
  | ok x =>
    intro ps last hx; subst hx
    exact chain3Input_pos kp seq cs p limit ps last hp hm
  | err e => trivial
  | panic s => rw [hm] at hsafe; exact hsafe.elim

theorem mem_actions_rules {rules : List (List Rule)} {rs : List Rule} {r : Rule} {act : Action}
    (h1 : rs ∈ rules) (h2 : r ∈ rs) (h3 : act ∈ r.actions) :
    act ∈ rules.flatMap (fun rs => rs.flatMap fun r => r.actions) :=
  List.mem_flatMap.mpr ⟨rs, h1, List.mem_flatMap.mpr ⟨r, h2, h3⟩⟩

theorem applySub_ctxWF (ll : LookupList) (kp : Nat → Bool) (st : St) (a : Nat) (b : Int) (s : Subtable)
    (hg : s.guarded = true) (hs : s.contextual = true) (hacts : ∀ act ∈ s.actions, actOK ll act = true)
    (ha : a < st.seq.length) (hb : b ≤ (st.seq.length : Int)) (hwf : WF ll st) :
    Safe (StepWF ll st) (applySub kp st a b s) := by
  cases s with
  | ctx1 cov rules =>
    simp only [applySub]
    refine Safe.bind (idx_safe ha) ?_
    intro g _ _
    split
    · trivial
    · rename_i i hi
      refine Safe.bind (idx_safe (covBelow_lt hg hi)) ?_
      intro rs hrs _
      have hmem : rs ∈ rules := List.mem_of_getElem? (idx_ok hrs)
      exact firstRule_safeWF ll kp st a b _ _ _ ha hb hwf rs
        (fun r hr act hact => hacts act (mem_actions_rules hmem hr hact))
  | ctx2 cov cls rules =>
    simp only [applySub]
    refine Safe.bind (idx_safe ha) ?_
    intro g _ _
    split
    · trivial
    · split
      · trivial
      · rename_i rs hrs
        have hmem : rs ∈ rules := List.mem_of_getElem? hrs
        exact firstRule_safeWF ll kp st a b _ _ _ ha hb hwf rs
          (fun r hr act hact => hacts act (mem_actions_rules hmem hr hact))
  | ctx3 input actions =>
    simp only [applySub]
    refine Safe.bind (idx_safe ha) ?_
    intro g _ _
    split
    · simp [Subtable.guarded] at hg
    · split
      · trivial
      · refine Safe.bind (matchRule_safePos kp st.seq a b _ _ _ ha hb) ?_
        intro x _ hx
        cases x with
        | none => trivial
        | some pn =>
          obtain ⟨ps, next⟩ := pn
          obtain ⟨h1, h2⟩ := hx ps next rfl
          exact hwf.push ps actions next h1 h2 hacts
  | chain1 cov rules =>
    simp only [applySub]
    refine Safe.bind (idx_safe ha) ?_
    intro g _ _
    split
    · trivial
    · rename_i i hi
      refine Safe.bind (idx_safe (covBelow_lt hg hi)) ?_
      intro rs hrs _
      have hmem : rs ∈ rules := List.mem_of_getElem? (idx_ok hrs)
      exact firstRule_safeWF ll kp st a b _ _ _ ha hb hwf rs
        (fun r hr act hact => hacts act (mem_actions_rules hmem hr hact))
  | chain2 cov bcls icls lcls rules =>
    simp only [applySub]
    refine Safe.bind (idx_safe ha) ?_
    intro g _ _
    split
    · trivial
    · split
      · trivial
      · rename_i rs hrs
        have hmem : rs ∈ rules := List.mem_of_getElem? hrs
        exact firstRule_safeWF ll kp st a b _ _ _ ha hb hwf rs
          (fun r hr act hact => hacts act (mem_actions_rules hmem hr hact))
  | chain3 back input look actions =>
    simp only [applySub]
    split
    · trivial
    · refine Safe.bind (chain3Input_safePos kp st.seq input a b (Nat.le_of_lt ha) hb) ?_
      intro x _ hx
      cases x with
      | none => trivial
      | some pn =>
        obtain ⟨ps, next⟩ := pn
        obtain ⟨h1, h2⟩ := hx ps next rfl
        have hp0 : Safe (fun _ => True) (if look.isEmpty then (pure next : Outcome Nat)
            else skipFwd kp (st.seq.drop next) next st.seq.length 0) := by
          split
          · trivial
          · exact skipFwd_drop_safe kp st.seq next _ 0 (Int.le_refl _)
        refine Safe.bind hp0 ?_
        intro p0 _ _
        refine Safe.bind (chain3Input_safe kp st.seq look p0 _ (Int.le_refl _)) ?_
        intro y _ _
        cases y with
        | none => trivial
        | some _ =>
          refine hwf.push ps actions next ?_ h2 hacts
          intro z hz
          exact h1 z hz
  | gsub11 _ _ => simp [Subtable.contextual] at hs
  | gsub12 _ _ => simp [Subtable.contextual] at hs
  | gsub21 _ _ => simp [Subtable.contextual] at hs
  | gsub31 _ _ => simp [Subtable.contextual] at hs
  | gsub41 _ _ => simp [Subtable.contextual] at hs
  | gsub81 _ _ _ _ => simp [Subtable.contextual] at hs
  | gpos11 _ _ => simp [Subtable.contextual] at hs
  | gpos12 _ _ => simp [Subtable.contextual] at hs
  | gpos21 _ => simp [Subtable.contextual] at hs
  | gpos22 _ _ _ _ => simp [Subtable.contextual] at hs
  | gpos31 _ _ => simp [Subtable.contextual] at hs
  | gpos41 _ _ _ _ _ => simp [Subtable.contextual] at hs
  | gpos61 _ _ _ _ => simp [Subtable.contextual] at hs

/-! ## a nested multiple substitution: `fixStackInsert` keeps the entries inside the longer sequence -/

theorem insAfterLast_mem (pos : Int) (new : List Int) : ∀ (l r : List Int), insAfterLast pos new l = some r →
    ∀ x ∈ r, x ∈ l ∨ x ∈ new := by
  intro l
  induction l with
  | nil => intro r h; simp [insAfterLast] at h
  | cons p ps ih =>
    intro r h x hx
    simp only [insAfterLast] at h
    split at h
    · rename_i r' hr'
      injection h with h; subst h
      rcases List.mem_cons.mp hx with hx | hx
      · exact Or.inl (by rw [hx]; exact List.mem_cons_self)
      · rcases ih r' hr' x hx with h1 | h1
        · exact Or.inl (List.mem_cons_of_mem _ h1)
        · exact Or.inr h1
    · split at h
      · injection h with h; subst h
        rcases List.mem_cons.mp hx with hx | hx
        · exact Or.inl (by rw [hx]; exact List.mem_cons_self)
        · rcases List.mem_append.mp hx with h1 | h1
          · exact Or.inr h1
          · exact Or.inl (List.mem_cons_of_mem _ h1)
      · cases h

theorem fixInsertOne_wf (ll : LookupList) (n a k : Nat) (e : Nested) (hwf : EntryWF ll n e) (ha : a < n) :
    EntryWF ll (n + (k - 1)) (fixInsertOne (a : Int) k e) := by
  unfold fixInsertOne
  split
  · exact ⟨fun p hp => by have := hwf.pos p hp; constructor <;> omega, hwf.endLo,
      by have := hwf.endHi; omega, hwf.acts⟩
  · refine ⟨?_, by have := hwf.endLo; simp only; omega, by have := hwf.endHi; simp only; omega, hwf.acts⟩
    intro p hp
    simp only at hp
    have hshift : ∀ x ∈ e.inputPos.map (fun p => if p > (a : Int) then p + ((k - 1 : Nat) : Int) else p),
        0 ≤ x ∧ x < ((n + (k - 1) : Nat) : Int) := by
      intro x hx
      obtain ⟨q, hq, rfl⟩ := List.mem_map.mp hx
      have := hwf.pos q hq
      split <;> constructor <;> omega
    have hnew : ∀ x ∈ newPositions (a : Int) k, 0 ≤ x ∧ x < ((n + (k - 1) : Nat) : Int) := by
      intro x hx
      unfold newPositions at hx
      obtain ⟨j, hj, rfl⟩ := List.mem_map.mp hx
      have := List.mem_range.mp hj
      constructor <;> omega
    cases hins : insAfterLast (a : Int) (newPositions (a : Int) k)
        (e.inputPos.map (fun p => if p > (a : Int) then p + ((k - 1 : Nat) : Int) else p)) with
    | none => rw [hins] at hp; exact hshift p hp
    | some r =>
      rw [hins] at hp
      rcases insAfterLast_mem _ _ _ _ hins p hp with h1 | h1
      · exact hshift p h1
      · exact hnew p h1

theorem applySub_gsub21_WF (ll : LookupList) (kp : Nat → Bool) (st : St) (a : Nat) (b : Int) (cov : Cov)
    (repl : List (List Nat)) (hg : (Subtable.gsub21 cov repl).guarded = true)
    (ha : a < st.seq.length) (hwf : WF ll st) :
    Safe (StepWF ll st) (applySub kp st a b (.gsub21 cov repl)) := by
  simp only [applySub]
  refine Safe.bind (idx_safe ha) ?_
  intro g hg' _
  split
  · trivial
  · rename_i i hi
    refine Safe.bind (idx_safe (covBelow_lt hg hi)) ?_
    intro rp _ _
    cases rp with
    | nil => trivial
    | cons r0 rs =>
      have hsplit := split_at (idx_ok hg')
      have hlen : (st.seq.take a ++ ({ g with gid := r0 } :: rs.map fun r => (⟨r, [], 0, 0, 0⟩ : Glyph))
          ++ st.seq.drop (a + 1)).length = st.seq.length + (rs.length + 1 - 1) := by
        have h1 : st.seq.length = (List.take a st.seq).length + 1 + (List.drop (a + 1) st.seq).length := by
          conv => lhs; rw [hsplit]
          simp; omega
        simp only [List.length_append, List.length_cons, List.length_map]
        omega
      show WF ll ⟨_, _⟩
      intro e he
      simp only at he
      show EntryWF ll (List.length _) e
      rw [hlen]
      split at he
      · obtain ⟨e0, he0, rfl⟩ := List.mem_map.mp he
        exact fixInsertOne_wf ll _ a _ e0 (hwf e0 he0) ha
      · rename_i hk
        have hrs : rs.length = 0 := by omega
        rw [hrs]
        exact hwf e he

/-- a guarded subtable without merges whose actions are fine keeps the state well-formed -/
theorem applySub_safeWF (ll : LookupList) (kp : Nat → Bool) (st : St) (a : Nat) (b : Int) (s : Subtable)
    (hg : s.guarded = true) (hf : s.mergeFree = true) (hacts : ∀ act ∈ s.actions, actOK ll act = true)
    (ha : a < st.seq.length) (hb : b ≤ (st.seq.length : Int)) (hwf : WF ll st) :
    Safe (StepWF ll st) (applySub kp st a b s) := by
  cases hs : s.contextual with
  | true => exact applySub_ctxWF ll kp st a b s hg hs hacts ha hb hwf
  | false =>
    cases hfl : s.fixedLen with
    | true => exact (applySub_shape kp st a b s hg hs hfl ha hb).mono fun r hr => hr.stepWF hwf
    | false =>
      cases s <;> simp [Subtable.fixedLen] at hfl
      · exact applySub_gsub21_WF ll kp st a b _ _ hg ha hwf
      · simp [Subtable.mergeFree] at hf

theorem applyAt_safeWF (ll : LookupList) (kp : Nat → Bool) (st : St) (a : Nat) (b : Int)
    (ha : a < st.seq.length) (hb : b ≤ (st.seq.length : Int)) (hwf : WF ll st) :
    ∀ (ss : List Subtable), (∀ s ∈ ss, s.guarded = true ∧ s.mergeFree = true ∧ ∀ act ∈ s.actions, actOK ll act = true) →
    Safe (StepWF ll st) (applyAt kp st a b ss) := by
  intro ss
  induction ss with
  | nil => intro _; simp only [applyAt]; trivial
  | cons s ss ih =>
    intro h
    simp only [applyAt]
    obtain ⟨h1, h2, h3⟩ := h s List.mem_cons_self
    refine Safe.bind (applySub_safeWF ll kp st a b s h1 h2 h3 ha hb hwf) ?_
    intro r _ hr
    cases r with
    | none => exact ih (fun s' hs' => h s' (List.mem_cons_of_mem _ hs'))
    | some r => exact hr

/-! ## the loops -/

theorem idxI_safe {site : String} {xs : List α} {i : Int} (h0 : 0 ≤ i) (h1 : i < (xs.length : Int)) :
    Safe (fun _ => True) (idxI site xs i) := by
  unfold idxI
  split
  · omega
  · exact (idx_safe (by omega)).mono (fun _ _ => trivial)

/-- what `guardedLL` and `nestedMergeFreeLL` say about one lookup of the list -/
theorem lookup_facts {ll : LookupList} {lk : Lookup} (hg : guardedLL ll = true) (hn : nestedMergeFreeLL ll = true)
    (hmem : lk ∈ ll) : ∀ s ∈ lk.subtables, s.guarded = true ∧ ∀ act ∈ s.actions, actOK ll act = true := by
  intro s hs
  have h1 : lk.guarded = true := List.all_eq_true.mp hg lk hmem
  have h2 := List.all_eq_true.mp hn lk hmem
  refine ⟨List.all_eq_true.mp h1 s hs, ?_⟩
  intro act hact
  exact List.all_eq_true.mp (List.all_eq_true.mp h2 s hs) act hact

theorem nestedLoop_safeWF (B : Nat) (ll : LookupList) (gd : Gdef)
    (hg : guardedLL ll = true) (hn : nestedMergeFreeLL ll = true) :
    ∀ (fuel : Nat) (st : St) (n : Nat) (next : Int), WF ll st → 0 ≤ next →
    Safe (fun r => WF ll r.1 ∧ 0 ≤ r.2) (nestedLoop B ll gd fuel st n next) := by
  intro fuel
  induction fuel with
  | zero =>
    intro st n next hwf h0
    simp only [nestedLoop]
    split
    · exact ⟨hwf, h0⟩
    · trivial
  | succ fuel ih =>
    intro st n next hwf h0
    simp only [nestedLoop]
    split
    · exact ⟨hwf, h0⟩
    · rename_i top below hstack
      have htop : EntryWF ll st.seq.length top := hwf top (by rw [hstack]; exact List.mem_cons_self)
      have hbelow : ∀ e ∈ below, EntryWF ll st.seq.length e :=
        fun e he => hwf e (by rw [hstack]; exact List.mem_cons_of_mem _ he)
      split
      · exact ⟨hwf, h0⟩
      · split
        · -- pop
          refine ih { st with stack := below } n _ hbelow ?_
          split
          · exact htop.endLo
          · exact h0
        · rename_i act acts hacts
          have hwf1 : WF ll { st with stack := { top with actions := acts } :: below } := by
            intro e he
            rcases List.mem_cons.mp he with he | he
            · subst he
              exact ⟨htop.pos, htop.endLo, htop.endHi,
                fun a' ha' => htop.acts a' (by rw [hacts]; exact List.mem_cons_of_mem _ ha')⟩
            · exact hbelow e he
          split
          · exact ih _ (n + 1) next hwf1 h0
          · rename_i pos hpos
            have hp := htop.pos pos (List.mem_of_getElem? hpos)
            split
            · exact ih _ (n + 1) next hwf1 h0
            · rename_i lk hlk
              have hmem : lk ∈ ll := List.mem_of_getElem? hlk
              have hfix : lk.mergeFree = true := by
                have := htop.acts act (by rw [hacts]; exact List.mem_cons_self)
                unfold actOK at this
                rw [hlk] at this
                exact this
              refine Safe.bind (idxI_safe hp.1 hp.2) ?_
              intro g _ _
              split
              · have hsub : ∀ s ∈ lk.subtables, s.guarded = true ∧ s.mergeFree = true ∧
                    ∀ act ∈ s.actions, actOK ll act = true := by
                  intro s hs
                  obtain ⟨h1, h2⟩ := lookup_facts hg hn hmem s hs
                  exact ⟨h1, List.all_eq_true.mp hfix s hs, h2⟩
                refine Safe.bind (applyAt_safeWF ll _ { st with stack := { top with actions := acts } :: below }
                  pos.toNat top.endPos
                  (by show pos.toNat < st.seq.length; omega) htop.endHi hwf1 lk.subtables hsub) ?_
                intro r _ hr
                cases r with
                | none => exact ih _ (n + 1) next hwf1 h0
                | some r =>
                  obtain ⟨st2, nx⟩ := r
                  exact ih st2 (n + 1) next hr h0
              · exact ih _ (n + 1) next hwf1 h0

theorem applyAt_top_safe (ll : LookupList) (kp : Nat → Bool) (st : St) (a : Nat)
    (ha : a < st.seq.length) (hst : st.stack = []) :
    ∀ (ss : List Subtable), (∀ s ∈ ss, s.guarded = true ∧ ∀ act ∈ s.actions, actOK ll act = true) →
    Safe (fun r => match r with
      | none => True
      | some r => WF ll r.1) (applyAt kp st a st.seq.length ss) := by
  intro ss
  induction ss with
  | nil => intro _; simp only [applyAt]; trivial
  | cons s ss ih =>
    intro h
    simp only [applyAt]
    obtain ⟨h1, h3⟩ := h s List.mem_cons_self
    have hsub : Safe (fun r => match r with
        | none => True
        | some r => WF ll r.1) (applySub kp st a st.seq.length s) := by
      cases hf : s.mergeFree with
      | true =>
        refine (applySub_safeWF ll kp st a _ s h1 hf h3 ha (Int.le_refl _) (WF.nil hst)).mono ?_
        intro r hr
        cases r with
        | none => trivial
        | some r => exact hr
      | false =>
        have hs : s.contextual = false := by
          cases s <;> simp [Subtable.mergeFree] at hf <;> rfl
        refine (applySub_safe kp st a s h1 hs ha hst).mono ?_
        intro r hr
        cases r with
        | none => trivial
        | some r => exact WF.nil hr
    refine Safe.bind hsub ?_
    intro r _ hr
    cases r with
    | none => exact ih (fun s' hs' => h s' (List.mem_cons_of_mem _ hs'))
    | some r => exact hr

theorem applyAtRec_safeN (B : Nat) (ll : LookupList) (gd : Gdef)
    (hg : guardedLL ll = true) (hn : nestedMergeFreeLL ll = true) (lk : Lookup) (hmem : lk ∈ ll) (st : St) (pos : Int)
    (h0 : 0 ≤ pos) (hlt : pos < st.seq.length) (hst : st.stack = []) :
    Safe (fun r => r.1.stack = [] ∧ 0 ≤ r.2) (applyAtRec B ll gd lk st pos) := by
  unfold applyAtRec
  refine Safe.bind (idxI_safe h0 hlt) ?_
  intro g _ _
  split
  · exact ⟨hst, by omega⟩
  · refine Safe.bind (applyAt_top_safe ll _ st pos.toNat (by omega) hst lk.subtables (lookup_facts hg hn hmem)) ?_
    intro r _ hr
    cases r with
    | none => exact ⟨hst, by omega⟩
    | some r =>
      obtain ⟨st1, next⟩ := r
      have hwf1 : WF ll st1 := hr
      refine Safe.bind (nestedLoop_safeWF B ll gd hg hn (nestedFuel B st1) st1 1 next hwf1 (Int.natCast_nonneg _)) ?_
      intro r2 _ hr2
      obtain ⟨st2, next2⟩ := r2
      show Safe _ (match st2.stack.getLast? with
        | none => Outcome.ok (st2, next2)
        | some bottom => Outcome.ok ({ st2 with stack := [] }, bottom.endPos))
      split
      · rename_i hlast
        exact ⟨List.getLast?_eq_none_iff.mp hlast, hr2.2⟩
      · rename_i bottom hlast
        exact ⟨rfl, (hr2.1 bottom (List.mem_of_getLast? hlast)).endLo⟩

/-- the outer loops, for any lookup whose `applyAtRec` is safe on an empty stack -/
theorem lookupLoop_safe' (B : Nat) (ll : LookupList) (gd : Gdef) (lk : Lookup)
    (hrec : ∀ (st : St) (pos : Int), 0 ≤ pos → pos < st.seq.length → st.stack = [] →
      Safe (fun r => r.1.stack = [] ∧ 0 ≤ r.2) (applyAtRec B ll gd lk st pos)) :
    ∀ (fuel : Nat) (st : St) (pos : Int), 0 ≤ pos → st.stack = [] →
    Safe (fun st' => st'.stack = []) (lookupLoop B ll gd lk fuel st pos) := by
  intro fuel
  induction fuel with
  | zero =>
    intro st pos _ hst
    simp only [lookupLoop]
    split
    · trivial
    · exact hst
  | succ fuel ih =>
    intro st pos h0 hst
    simp only [lookupLoop]
    split
    · rename_i hpos
      refine Safe.bind (hrec st pos h0 hpos hst) ?_
      intro r _ hr
      obtain ⟨st1, p1⟩ := r
      simp only at hr
      refine ih st1 _ ?_ hr.1
      have := hr.2
      split <;> omega
    · exact hst

theorem applyLookups_safeN (B : Nat) (ll : LookupList) (gd : Gdef)
    (hg : guardedLL ll = true) (hn : nestedMergeFreeLL ll = true) :
    ∀ (lookups : List Nat) (st : St), st.stack = [] → Safe (fun st' => st'.stack = []) (applyLookups B ll gd lookups st) := by
  intro lookups
  induction lookups with
  | nil => intro st hst; simp only [applyLookups]; exact hst
  | cons i is ih =>
    intro st hst
    simp only [applyLookups]
    split
    · exact ih st hst
    · rename_i lk hlk
      have hmem : lk ∈ ll := List.mem_of_getElem? hlk
      have hone : Safe (fun st' => st'.stack = []) (applyLookup B ll gd lk st) := by
        unfold applyLookup
        split
        · rename_i hrev
          exact revLoop_safe gd lk (List.all_eq_true.mp hg lk hmem) hrev _ st (Nat.le_refl _) hst
        · exact lookupLoop_safe' B ll gd lk
            (fun st pos h0 hlt hs => applyAtRec_safeN B ll gd hg hn lk hmem st pos h0 hlt hs)
            st.seq.length st 0 (Int.le_refl _) hst
      refine Safe.bind hone ?_
      intro st1 _ h1
      exact ih st1 h1

end SfntV.Shape
