/-
C10 — the subset meets preconditions of the writer: coverage tables of the rebuilt GSUB subtables
can be built with indices increasing in the new glyph id (the repaired `sortedByNewGid`), and the
CFF encoding is contiguous whenever the retained encoded glyphs come first.
-/
import SfntV.Proofs.SubsetGsubRules
import SfntV.Proofs.SubsetMain

namespace SfntV.Subset

/-- subset.go `sortedByNewGid`: the retained ones among the given old glyph ids, sorted by their
new glyph id; the i-th of them receives coverage index i -/
def sortedByNewGid (s : St) (olds : List Gid) : List Gid :=
  (olds.filter s.has).mergeSort fun a b => decide (look s a ≤ look s b)

theorem look_inj {s : St} (h : Inv s) {a b : Gid} (ha : s.has a = true) (hb : s.has b = true)
    (he : look s a = look s b) : a = b := by
  have ma := (h.has_iff a).1 ha
  have mb := (h.has_iff b).1 hb
  obtain ⟨i, hi⟩ := List.mem_iff_getElem?.1 ma
  obtain ⟨j, hj⟩ := List.mem_iff_getElem?.1 mb
  have la := (h a i).2 hi
  have lb := (h b j).2 hj
  unfold look at he
  rw [la, lb] at he
  simp only [Option.getD_some] at he
  subst he
  rw [hi] at hj; injection hj

/-- the covered glyphs of a rebuilt subtable, in coverage-index order, have strictly increasing new
glyph ids (a valid coverage table), and they are exactly the retained covered glyphs -/
theorem sortedByNewGid_spec {s : St} (h : Inv s) {olds : List Gid} (hnd : olds.Nodup) :
    ((sortedByNewGid s olds).map (look s)).Pairwise (· < ·) ∧
    (sortedByNewGid s olds).Perm (olds.filter s.has) := by
  have hperm := List.mergeSort_perm (olds.filter s.has) fun a b => decide (look s a ≤ look s b)
  refine ⟨?_, hperm⟩
  rw [List.pairwise_map]
  have hsorted := List.pairwise_mergeSort (le := fun a b => decide (look s a ≤ look s b))
    (by intro a b c h1 h2; simp only [decide_eq_true_eq] at *; omega)
    (by intro a b; simp only [Bool.or_eq_true, decide_eq_true_eq]; omega)
    (olds.filter s.has)
  have hnodup : (sortedByNewGid s olds).Nodup :=
    (hperm.nodup_iff).2 (List.Nodup.sublist List.filter_sublist hnd)
  have := hsorted.and hnodup
  refine List.Pairwise.imp_of_mem ?_ this
  intro a b ha hb hab
  have ha' : s.has a = true := (List.mem_filter.1 (hperm.mem_iff.1 ha)).2
  have hb' : s.has b = true := (List.mem_filter.1 (hperm.mem_iff.1 hb)).2
  have hle : look s a ≤ look s b := by simpa using hab.1
  have hne : look s a ≠ look s b := fun he => hab.2 (look_inj h ha' hb' he)
  omega

/-! ### CFF encoding contiguity -/

theorem foldl_max_mem : ∀ (l : List Nat) (a : Nat), l.foldl max a = a ∨ l.foldl max a ∈ l := by
  intro l
  induction l with
  | nil => intro a; left; rfl
  | cons x xs ih =>
    intro a
    simp only [List.foldl_cons]
    rcases ih (max a x) with h | h
    · rw [h]
      rcases Nat.le_total a x with hax | hax
      · right; rw [Nat.max_eq_right hax]; exact List.mem_cons_self
      · left; exact Nat.max_eq_left hax
    · right; exact List.mem_cons_of_mem _ h

theorem contiguous_aux (used : List Nat)
    (h : ∀ (n m : Nat), 1 ≤ n → n ≤ m → m ∈ used → n ∈ used) :
    (List.range' 1 (used.foldl max 0)).all (fun g => used.contains g) = true := by
  rw [List.all_eq_true]
  intro n hn
  rw [List.mem_range'_1] at hn
  rcases foldl_max_mem used 0 with h0 | hm
  · rw [h0] at hn; omega
  · have := h n _ hn.1 (by omega) hm
    simpa using this

/-- the writer's condition holds as soon as the codes' glyphs occupy an initial segment `1 … k` of
the glyph ids: every glyph id between 1 and an encoded glyph id is encoded itself -/
theorem encodingContiguous_of_downward (enc : List Gid)
    (h : ∀ (n m : Nat), 1 ≤ n → n ≤ m → m ∈ enc → m ≠ 0 → n ∈ enc) :
    encodingContiguous enc = true := by
  unfold encodingContiguous
  simp only
  apply contiguous_aux
  intro n m h1 h2 hm
  rw [List.mem_filter] at hm ⊢
  have hm0 : m ≠ 0 := by simpa using hm.2
  exact ⟨h n m h1 h2 hm.1 hm0, by simp; exact Nat.ne_of_gt h1⟩

theorem nodup_getElem?_inj {l : List Gid} (h : l.Nodup) {i j : Nat} {x : Gid}
    (hi : l[i]? = some x) (hj : l[j]? = some x) : i = j := by
  have li : i < l.length := by
    rcases Nat.lt_or_ge i l.length with h | h
    · exact h
    · rw [List.getElem?_eq_none h] at hi; cases hi
  have lj : j < l.length := by
    rcases Nat.lt_or_ge j l.length with h | h
    · exact h
    · rw [List.getElem?_eq_none h] at hj; cases hj
  rw [List.getElem?_eq_getElem li] at hi
  rw [List.getElem?_eq_getElem lj] at hj
  injection hi with hi; injection hj with hj
  unfold List.Nodup at h
  rw [List.pairwise_iff_getElem] at h
  rcases Nat.lt_trichotomy i j with hlt | heq | hgt
  · exact absurd (hi.trans hj.symm) (h i j li lj hlt)
  · exact heq
  · exact absurd (hj.trans hi.symm) (h j i lj li hgt)

end SfntV.Subset
