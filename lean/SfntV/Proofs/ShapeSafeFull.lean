/-
No panic (C07), full statement: for every lookup list in the shape the reader delivers
(`readerShapedLL`) the engine never panics on a context whose stack is empty — nested
insertions and nested ligature merges included.  The invariant: every stack entry satisfies
`EntryInv` (0 ≤ InputPos[i] < EndPos ≤ len, InputPos sorted) and `EndPos` does not decrease
from the top of the stack to the bottom.
-/
import SfntV.Proofs.ShapeStackInv

namespace SfntV.Shape
open SfntV

/-! ## where the matchers put their positions -/

theorem skipFwd_stop (kp : Nat → Bool) : ∀ (rest : List Glyph) (p : Nat) (limit : Int) (needed q : Nat),
    skipFwd kp rest p limit needed = .ok q → p ≤ q ∧ (q = p ∨ (q : Int) + needed ≤ limit) := by
  intro rest
  induction rest with
  | nil =>
    intro p limit needed q h
    simp only [skipFwd] at h
    split at h
    · cases h
    · injection h with h; subst h; exact ⟨Nat.le_refl _, Or.inl rfl⟩
  | cons g rest ih =>
    intro p limit needed q h
    simp only [skipFwd] at h
    split at h
    · split at h
      · injection h with h; subst h; exact ⟨Nat.le_refl _, Or.inl rfl⟩
      · have := ih _ _ _ _ h
        refine ⟨by omega, Or.inr ?_⟩
        rcases this.2 with h1 | h1
        · subst h1; push_cast; omega
        · exact h1
    · injection h with h; subst h; exact ⟨Nat.le_refl _, Or.inl rfl⟩

theorem matchFwd_inc (kp : Nat → Bool) (seq : List Glyph) : ∀ (prs : List (Nat → Bool)) (p : Nat) (limit : Int) ps last,
    matchFwd kp seq prs p limit = .ok (some (ps, last)) →
    ps.Pairwise (· < ·) ∧ (∀ x ∈ ps, p < x ∧ x ≤ last) ∧ p ≤ last ∧ (last = p ∨ (last : Int) < limit) := by
  intro prs
  induction prs with
  | nil =>
    intro p limit ps last h
    simp only [matchFwd] at h
    injection h with h; injection h with h; injection h with h1 h2; subst h1 h2
    exact ⟨List.Pairwise.nil, fun x hx => (by cases hx), Nat.le_refl _, Or.inl rfl⟩
  | cons pr prs ih =>
    intro p limit ps last h
    simp only [matchFwd] at h
    obtain ⟨q, hq, h⟩ := bind_ok h
    split at h
    · cases h
    · rename_i hlim
      obtain ⟨g, hg, h⟩ := bind_ok h
      split at h
      · obtain ⟨r, hr, h⟩ := bind_ok h
        split at h
        · rename_i ps' last'
          injection h with h; injection h with h; injection h with h1 h2; subst h1 h2
          obtain ⟨i1, i2, i3, i4⟩ := ih q limit ps' _ hr
          have hq' := (skipFwd_stop kp _ _ _ _ _ hq).1
          refine ⟨List.pairwise_cons.mpr ⟨fun x hx => (i2 x hx).1, i1⟩, ?_, by omega, Or.inr ?_⟩
          · intro x hx
            rcases List.mem_cons.mp hx with hx | hx
            · subst hx; exact ⟨by omega, i3⟩
            · have := i2 x hx; exact ⟨by omega, this.2⟩
          · rcases i4 with h4 | h4
            · subst h4; omega
            · exact h4
        · cases h
      · cases h

theorem matchRule_inc (kp : Nat → Bool) (seq : List Glyph) (a : Nat) (b : Int) (back input look : List (Nat → Bool))
    (pos : List Nat) (next : Nat) (hab : (a : Int) < b)
    (h : matchRule kp seq a b back input look = .ok (some (pos, next))) :
    pos.Pairwise (· < ·) ∧ (∀ x ∈ pos, x < next) ∧ (next : Int) ≤ b := by
  unfold matchRule at h
  split at h
  · cases h
  · obtain ⟨x, hx, h⟩ := bind_ok h
    split at h
    · cases h
    · rename_i ps p
      obtain ⟨y, hy, h⟩ := bind_ok h
      split at h
      · cases h
      · obtain ⟨nx, hnx, h⟩ := bind_ok h
        injection h with h; injection h with h; injection h with h1 h2; subst h1 h2
        obtain ⟨i1, i2, i3, i4⟩ := matchFwd_inc kp seq _ _ _ _ _ hx
        have hs := skipFwd_stop kp _ _ _ _ _ hnx
        have hpb : (p : Int) < b := by
          rcases i4 with h4 | h4
          · subst h4; exact hab
          · exact h4
        refine ⟨List.pairwise_cons.mpr ⟨fun z hz => (i2 z hz).1, i1⟩, ?_, ?_⟩
        · intro z hz
          rcases List.mem_cons.mp hz with hz | hz
          · subst hz; omega
          · have := (i2 z hz).2; omega
        · rcases hs.2 with h5 | h5
          · subst h5; push_cast; omega
          · simpa using h5

theorem chain3Input_inc (kp : Nat → Bool) (seq : List Glyph) : ∀ (cs : List GSet) (p : Nat) (limit : Int) ps last,
    (p : Int) ≤ limit → chain3Input kp seq cs p limit = .ok (some (ps, last)) →
    ps.Pairwise (· < ·) ∧ (∀ x ∈ ps, p ≤ x ∧ x < last) ∧ p ≤ last ∧ (last : Int) ≤ limit ∧ (cs ≠ [] → p < last) := by
  intro cs
  induction cs with
  | nil =>
    intro p limit ps last hp h
    simp only [chain3Input] at h
    injection h with h; injection h with h; injection h with h1 h2; subst h1 h2
    exact ⟨List.Pairwise.nil, fun x hx => (by cases hx), Nat.le_refl _, hp, fun h => absurd rfl h⟩
  | cons c cs ih =>
    intro p limit ps last hp h
    simp only [chain3Input] at h
    split at h
    · cases h
    · rename_i hlim
      obtain ⟨g, hg, h⟩ := bind_ok h
      split at h
      · cases h
      · obtain ⟨q, hq, h⟩ := bind_ok h
        obtain ⟨r, hr, h⟩ := bind_ok h
        split at h
        · rename_i ps' last'
          injection h with h; injection h with h; injection h with h1 h2; subst h1 h2
          have hs := skipFwd_stop kp _ _ _ _ _ hq
          have hql : (q : Int) ≤ limit := by
            rcases hs.2 with h5 | h5
            · subst h5; push_cast; omega
            · omega
          obtain ⟨i1, i2, i3, i4, _⟩ := ih q limit ps' _ hql hr
          refine ⟨List.pairwise_cons.mpr ⟨fun x hx => by have := (i2 x hx).1; omega, i1⟩, ?_, by omega, i4, fun _ => by omega⟩
          intro x hx
          rcases List.mem_cons.mp hx with hx | hx
          · subst hx; exact ⟨Nat.le_refl _, by omega⟩
          · have := i2 x hx; exact ⟨by omega, this.2⟩
        · cases h

theorem matchComps_inc (kp : Nat → Bool) : ∀ (rest : List Glyph) (cs : List Nat) (p : Nat) (b : Int) ps t sk r,
    matchComps kp cs rest p b = .ok (some (ps, t, sk, r)) →
    ps.Pairwise (· < ·) ∧ (∀ x ∈ ps, p ≤ x ∧ (x : Int) < b) ∧ rest.length = ps.length + sk.length + r.length := by
  intro rest
  induction rest with
  | nil =>
    intro cs p b ps t sk r h
    cases cs with
    | nil => simp only [matchComps] at h; injection h with h; injection h with h; injection h with h1 h2
             injection h2 with h2 h3; injection h3 with h3 h4; subst h1 h2 h3 h4
             exact ⟨List.Pairwise.nil, fun x hx => (by cases hx), rfl⟩
    | cons c cs => simp only [matchComps] at h; split at h <;> cases h
  | cons g rest ih =>
    intro cs p b ps t sk r h
    cases cs with
    | nil => simp only [matchComps] at h; injection h with h; injection h with h; injection h with h1 h2
             injection h2 with h2 h3; injection h3 with h3 h4; subst h1 h2 h3 h4
             exact ⟨List.Pairwise.nil, fun x hx => (by cases hx), by simp⟩
    | cons c cs =>
      simp only [matchComps] at h
      split at h
      · cases h
      · rename_i hpb
        split at h
        · split at h
          · obtain ⟨x, hx, h⟩ := bind_ok h
            split at h
            · rename_i ps' t' sk' r'
              injection h with h; injection h with h; injection h with h1 h2
              injection h2 with h2 h3; injection h3 with h3 h4; subst h1 h2 h3 h4
              obtain ⟨i1, i2, i3⟩ := ih cs _ _ _ _ _ _ hx
              refine ⟨List.pairwise_cons.mpr ⟨fun y hy => by have := (i2 y hy).1; omega, i1⟩, ?_, by simp; omega⟩
              intro y hy
              rcases List.mem_cons.mp hy with hy | hy
              · subst hy; exact ⟨Nat.le_refl _, by omega⟩
              · have := i2 y hy; exact ⟨by omega, this.2⟩
            · cases h
          · cases h
        · obtain ⟨x, hx, h⟩ := bind_ok h
          split at h
          · rename_i ps' t' sk' r'
            injection h with h; injection h with h; injection h with h1 h2
            injection h2 with h2 h3; injection h3 with h3 h4; subst h1 h2 h3 h4
            obtain ⟨i1, i2, i3⟩ := ih (c :: cs) _ _ _ _ _ _ hx
            refine ⟨i1, fun y hy => by have := i2 y hy; exact ⟨by omega, this.2⟩, by simp; omega⟩
          · cases h

theorem firstLig_inc (kp : Nat → Bool) (rest : List Glyph) (a : Nat) (b : Int) :
    ∀ (ligs : List Lig) l ps t sk r, firstLig kp rest a b ligs = .ok (some (l, ps, t, sk, r)) →
    ps.Pairwise (· < ·) ∧ (∀ x ∈ ps, a + 1 ≤ x ∧ (x : Int) < b) ∧ rest.length = ps.length + sk.length + r.length := by
  intro ligs
  induction ligs with
  | nil => intro l ps t sk r h; simp only [firstLig] at h; cases h
  | cons l0 ls ih =>
    intro l ps t sk r h
    simp only [firstLig] at h
    obtain ⟨x, hx, h⟩ := bind_ok h
    split at h
    · rename_i ps' t' sk' r'
      injection h with h; injection h with h; injection h with h0 h
      injection h with h1 h2; injection h2 with h2 h3; injection h3 with h3 h4
      subst h0 h1 h2 h3 h4
      exact matchComps_inc kp _ _ _ _ _ _ _ _ hx
    · exact ih _ _ _ _ _ h

/-! ## the invariant of the state -/

structure WF2 (st : St) : Prop where
  entries : ∀ e ∈ st.stack, EntryInv st.seq.length e
  nest : st.stack.Pairwise (fun u l => u.endPos ≤ l.endPos)

def StepWF2 : Option (St × Nat) → Prop
  | none => True
  | some r => WF2 r.1

theorem WF2.nil {st : St} (h : st.stack = []) : WF2 st :=
  ⟨fun e he => (by rw [h] at he; cases he), (by rw [h]; exact List.Pairwise.nil)⟩

theorem SameShape.stepWF2 {st : St} (hwf : WF2 st) {r : Option (St × Nat)} (h : SameShape st r) : StepWF2 r := by
  cases r with
  | none => trivial
  | some r =>
    refine ⟨?_, ?_⟩
    · intro e he
      have he' : e ∈ st.stack := by rw [← h.1]; exact he
      have := hwf.entries e he'
      rw [h.2]; exact this
    · rw [h.1]; exact hwf.nest

theorem WF2.push {st : St} (h : WF2 st) (ps : List Nat) (acts : List Action) (e : Nat)
    (hs : ps.Pairwise (· ≤ ·)) (hhi : ∀ x ∈ ps, x < e) (he : e ≤ st.seq.length)
    (hnest : ∀ en ∈ st.stack, (e : Int) ≤ en.endPos) : WF2 (pushMatch st ps acts e) := by
  refine ⟨?_, ?_⟩
  · intro en hen
    simp only [pushMatch] at hen
    have hlen : (pushMatch st ps acts e).seq.length = st.seq.length := rfl
    rw [hlen]
    rcases List.mem_cons.mp hen with hen | hen
    · subst hen
      refine ⟨?_, ?_, ?_, by simp, by simpa using he⟩
      · intro p hp
        obtain ⟨x, _, rfl⟩ := List.mem_map.mp hp
        exact Int.natCast_nonneg x
      · intro p hp
        obtain ⟨x, hx, rfl⟩ := List.mem_map.mp hp
        exact Int.ofNat_lt.mpr (hhi x hx)
      · exact List.Pairwise.map _ (fun x y hxy => Int.ofNat_le.mpr hxy) hs
    · exact h.entries en hen
  · simp only [pushMatch]
    exact List.pairwise_cons.mpr ⟨fun en hen => hnest en hen, h.nest⟩

/-! ## a multiple substitution below a stack -/

theorem applySub_gsub21_full (kp : Nat → Bool) (st : St) (a : Nat) (b : Int) (cov : Cov)
    (repl : List (List Nat)) (hg : (Subtable.gsub21 cov repl).guarded = true)
    (ha : a < st.seq.length) (hae : ∀ e ∈ st.stack, (a : Int) < e.endPos) (hwf : WF2 st) :
    Safe StepWF2 (applySub kp st a b (.gsub21 cov repl)) := by
  simp only [applySub]
  refine Safe.bind (idx_safe ha) ?_
  intro g hg' _
  split
  · trivial
  · rename_i i hi
    refine Safe.bind (idx_safe (covBelow_lt hg hi)) ?_
    intro rp _ _
    cases rp with
    | nil => trivial
    | cons r0 rs =>
      have hsplit := split_at (idx_ok hg')
      have hlen : (st.seq.take a ++ ({ g with gid := r0 } :: rs.map fun r => (⟨r, [], 0, 0, 0⟩ : Glyph))
          ++ st.seq.drop (a + 1)).length = st.seq.length + (rs.length + 1 - 1) := by
        have h1 : st.seq.length = (List.take a st.seq).length + 1 + (List.drop (a + 1) st.seq).length := by
          conv => lhs; rw [hsplit]
          simp; omega
        simp only [List.length_append, List.length_cons, List.length_map]
        omega
      show WF2 ⟨_, _⟩
      by_cases hk : rs.length + 1 > 1
      · simp only [hk, if_true]
        refine ⟨?_, ?_⟩
        · intro e he
          show EntryInv (List.length _) e
          rw [hlen]
          obtain ⟨e0, he0, rfl⟩ := List.mem_map.mp he
          exact (fixInsertOne_inv _ _ _ e0 (hwf.entries e0 he0) (Int.natCast_nonneg a) (hae e0 he0)).1
        · show List.Pairwise _ (List.map _ st.stack)
          rw [List.pairwise_map]
          refine List.Pairwise.imp_of_mem ?_ hwf.nest
          intro u l hu hl hul
          rw [(fixInsertOne_inv _ _ _ u (hwf.entries u hu) (Int.natCast_nonneg a) (hae u hu)).2,
            (fixInsertOne_inv _ _ _ l (hwf.entries l hl) (Int.natCast_nonneg a) (hae l hl)).2]
          omega
      · simp only [hk, if_false]
        have hrs : rs.length = 0 := by omega
        refine ⟨?_, hwf.nest⟩
        intro e he
        show EntryInv (List.length _) e
        rw [hlen, hrs]
        exact hwf.entries e he

/-! ## a ligature substitution below a stack -/

theorem applySub_gsub41_full (kp : Nat → Bool) (st : St) (a : Nat) (b : Int) (cov : Cov)
    (ligs : List (List Lig)) (hg : (Subtable.gsub41 cov ligs).guarded = true)
    (ha : a < st.seq.length) (hab : (a : Int) < b) (hbn : b ≤ (st.seq.length : Int))
    (hbe : ∀ e ∈ st.stack, b ≤ e.endPos) (hwf : WF2 st) :
    Safe StepWF2 (applySub kp st a b (.gsub41 cov ligs)) := by
  simp only [applySub]
  refine Safe.bind (idx_safe ha) ?_
  intro g hg' _
  split
  · trivial
  · rename_i i hi
    refine Safe.bind (idx_safe (covBelow_lt hg hi)) ?_
    intro ligSet _ _
    have hfl : Safe (fun x => ∀ l ps t sk r, x = some (l, ps, t, sk, r) →
        ps.Pairwise (· < ·) ∧ (∀ y ∈ ps, a + 1 ≤ y ∧ (y : Int) < b) ∧
          (st.seq.drop (a + 1)).length = ps.length + sk.length + r.length)
        (firstLig kp (st.seq.drop (a + 1)) a b ligSet) := by
      have hsafe := firstLig_safe kp (st.seq.drop (a + 1)) a b (by simp only [List.length_drop]; omega) ligSet
      cases hm : firstLig kp (st.seq.drop (a + 1)) a b ligSet with
      | ok x =>
        intro l ps t sk r hx; subst hx
        exact firstLig_inc kp _ a b ligSet l ps t sk r hm
      | err e => trivial
      | panic s => rw [hm] at hsafe; exact hsafe.elim
    refine Safe.bind hfl ?_
    intro x _ hx
    cases x with
    | none => trivial
    | some x =>
      obtain ⟨l, ps, t, sk, r⟩ := x
      obtain ⟨h1, h2, h3⟩ := hx l ps t sk r rfl
      have hsplit := split_at (idx_ok hg')
      have hn : st.seq.length = a + 1 + (st.seq.drop (a + 1)).length := by simp only [List.length_drop]; omega
      have hlen : (st.seq.take a ++ ((⟨l.out, g.text ++ t, 0, 0, 0⟩ : Glyph) :: sk) ++ r).length
          = st.seq.length - (ps.map Int.ofNat).length := by
        have : (List.take a st.seq).length = a := by simp [List.length_take]; omega
        simp only [List.length_append, List.length_cons, List.length_map, this]
        omega
      have hM : (((a : Nat) : Int) :: ps.map Int.ofNat).Pairwise (· < ·) := by
        refine List.pairwise_cons.mpr ⟨?_, List.Pairwise.map _ (fun x y hxy => Int.ofNat_lt.mpr hxy) h1⟩
        intro y hy
        obtain ⟨z, hz, rfl⟩ := List.mem_map.mp hy
        have := (h2 z hz).1
        show (a : Int) < (z : Int)
        omega
      have hME : ∀ e ∈ st.stack, ∀ x ∈ ((a : Nat) : Int) :: ps.map Int.ofNat, x < e.endPos := by
        intro e he x hx
        have := hbe e he
        rcases List.mem_cons.mp hx with hx | hx
        · subst hx; omega
        · obtain ⟨z, hz, rfl⟩ := List.mem_map.mp hx
          have := (h2 z hz).2
          show (z : Int) < e.endPos
          omega
      show WF2 ⟨_, _⟩
      have hmerged : ((a :: ps).map Int.ofNat) = ((a : Nat) : Int) :: ps.map Int.ofNat := rfl
      refine ⟨?_, ?_⟩
      · intro e he
        show EntryInv (List.length _) e
        rw [hlen]
        obtain ⟨e0, he0, rfl⟩ := List.mem_map.mp he
        rw [hmerged]
        exact (fixMergeOne_inv _ _ _ e0 (hwf.entries e0 he0) (Int.natCast_nonneg a) hM (hME e0 he0)).1
      · show List.Pairwise _ (List.map _ st.stack)
        rw [List.pairwise_map, hmerged]
        refine List.Pairwise.imp_of_mem ?_ hwf.nest
        intro u l' hu hl hul
        rw [(fixMergeOne_inv _ _ _ u (hwf.entries u hu) (Int.natCast_nonneg a) hM (hME u hu)).2,
          (fixMergeOne_inv _ _ _ l' (hwf.entries l' hl) (Int.natCast_nonneg a) hM (hME l' hl)).2]
        omega

/-! ## contextual subtables -/

theorem lt_le_pairwise {l : List Nat} (h : l.Pairwise (· < ·)) : l.Pairwise (· ≤ ·) :=
  h.imp (fun hab => Nat.le_of_lt hab)

theorem matchRule_safeFull (kp : Nat → Bool) (seq : List Glyph) (a : Nat) (b : Int) (back input look : List (Nat → Bool))
    (ha : a < seq.length) (hb : b ≤ (seq.length : Int)) (hab : (a : Int) < b) :
    Safe (fun x => ∀ (pos : List Nat) (next : Nat), x = some (pos, next) →
        pos.Pairwise (· < ·) ∧ (∀ z ∈ pos, z < next) ∧ (next : Int) ≤ b)
      (matchRule kp seq a b back input look) := by
  have hsafe := matchRule_safePos kp seq a b back input look ha hb
  cases hm : matchRule kp seq a b back input look with
  | ok x =>
    intro pos next hx; subst hx
    exact matchRule_inc kp seq a b _ _ _ pos next hab hm
  | err e => trivial
  | panic s => rw [hm] at hsafe; exact hsafe.elim

theorem firstRule_full (kp : Nat → Bool) (st : St) (a : Nat) (b : Int) (mb mi ml : Nat → Nat → Bool)
    (ha : a < st.seq.length) (hb : b ≤ (st.seq.length : Int)) (hab : (a : Int) < b)
    (hbe : ∀ e ∈ st.stack, b ≤ e.endPos) (hwf : WF2 st) :
    ∀ (rs : List Rule), Safe StepWF2 (firstRule kp st a b mb mi ml rs) := by
  intro rs
  induction rs with
  | nil => simp only [firstRule]; trivial
  | cons r rs ih =>
    simp only [firstRule]
    refine Safe.bind (matchRule_safeFull kp st.seq a b _ _ _ ha hb hab) ?_
    intro x _ hx
    cases x with
    | none => exact ih
    | some pn =>
      obtain ⟨ps, next⟩ := pn
      obtain ⟨h1, h2, h3⟩ := hx ps next rfl
      exact hwf.push ps r.actions next (lt_le_pairwise h1) h2 (by omega)
        (fun en hen => by have := hbe en hen; omega)

theorem applySub_ctx_full (kp : Nat → Bool) (st : St) (a : Nat) (b : Int) (s : Subtable)
    (hg : s.guarded = true) (hc3 : s.chain3Ok = true) (hs : s.contextual = true)
    (ha : a < st.seq.length) (hb : b ≤ (st.seq.length : Int)) (hab : (a : Int) < b)
    (hbe : ∀ e ∈ st.stack, b ≤ e.endPos) (hwf : WF2 st) :
    Safe StepWF2 (applySub kp st a b s) := by
  cases s with
  | ctx1 cov rules =>
    simp only [applySub]
    refine Safe.bind (idx_safe ha) ?_
    intro g _ _
    split
    · trivial
    · rename_i i hi
      refine Safe.bind (idx_safe (covBelow_lt hg hi)) ?_
      intro rs _ _
      exact firstRule_full kp st a b _ _ _ ha hb hab hbe hwf rs
  | ctx2 cov cls rules =>
    simp only [applySub]
    refine Safe.bind (idx_safe ha) ?_
    intro g _ _
    split
    · trivial
    · split
      · trivial
      · exact firstRule_full kp st a b _ _ _ ha hb hab hbe hwf _
  | ctx3 input actions =>
    simp only [applySub]
    refine Safe.bind (idx_safe ha) ?_
    intro g _ _
    split
    · simp [Subtable.guarded] at hg
    · split
      · trivial
      · refine Safe.bind (matchRule_safeFull kp st.seq a b _ _ _ ha hb hab) ?_
        intro x _ hx
        cases x with
        | none => trivial
        | some pn =>
          obtain ⟨ps, next⟩ := pn
          obtain ⟨h1, h2, h3⟩ := hx ps next rfl
          exact hwf.push ps actions next (lt_le_pairwise h1) h2 (by omega)
            (fun en hen => by have := hbe en hen; omega)
  | chain1 cov rules =>
    simp only [applySub]
    refine Safe.bind (idx_safe ha) ?_
    intro g _ _
    split
    · trivial
    · rename_i i hi
      refine Safe.bind (idx_safe (covBelow_lt hg hi)) ?_
      intro rs _ _
      exact firstRule_full kp st a b _ _ _ ha hb hab hbe hwf rs
  | chain2 cov bcls icls lcls rules =>
    simp only [applySub]
    refine Safe.bind (idx_safe ha) ?_
    intro g _ _
    split
    · trivial
    · split
      · trivial
      · exact firstRule_full kp st a b _ _ _ ha hb hab hbe hwf _
  | chain3 back input look actions =>
    have hne : input ≠ [] := by
      intro h; subst h; simp [Subtable.chain3Ok] at hc3
    simp only [applySub]
    split
    · trivial
    · have hci : Safe (fun x => ∀ (ps : List Nat) (last : Nat), x = some (ps, last) →
          ps.Pairwise (· < ·) ∧ (∀ z ∈ ps, a ≤ z ∧ z < last) ∧ (last : Int) ≤ b ∧ a < last)
          (chain3Input kp st.seq input a b) := by
        have hsafe := chain3Input_safe kp st.seq input a b hb
        cases hm : chain3Input kp st.seq input a b with
        | ok x =>
          intro ps last hx; subst hx
          obtain ⟨i1, i2, i3, i4, i5⟩ := chain3Input_inc kp st.seq input a b ps last (by omega) hm
          exact ⟨i1, i2, i4, i5 hne⟩
        | err e => trivial
        | panic s => rw [hm] at hsafe; exact hsafe.elim
      refine Safe.bind hci ?_
      intro x _ hx
      cases x with
      | none => trivial
      | some pn =>
        obtain ⟨ps, next⟩ := pn
        obtain ⟨h1, h2, h3, h4⟩ := hx ps next rfl
        have hp0 : Safe (fun _ => True) (if look.isEmpty then (pure next : Outcome Nat)
            else skipFwd kp (st.seq.drop next) next st.seq.length 0) := by
          split
          · trivial
          · exact skipFwd_drop_safe kp st.seq next _ 0 (Int.le_refl _)
        refine Safe.bind hp0 ?_
        intro p0 _ _
        refine Safe.bind (chain3Input_safe kp st.seq look p0 _ (Int.le_refl _)) ?_
        intro y _ _
        cases y with
        | none => trivial
        | some _ =>
          refine hwf.push ps actions next ?_ ?_ (by omega) (fun en hen => by have := hbe en hen; omega)
          · exact lt_le_pairwise h1
          · intro z hz
            exact (h2 z hz).2
  | gsub11 _ _ => simp [Subtable.contextual] at hs
  | gsub12 _ _ => simp [Subtable.contextual] at hs
  | gsub21 _ _ => simp [Subtable.contextual] at hs
  | gsub31 _ _ => simp [Subtable.contextual] at hs
  | gsub41 _ _ => simp [Subtable.contextual] at hs
  | gsub81 _ _ _ _ => simp [Subtable.contextual] at hs
  | gpos11 _ _ => simp [Subtable.contextual] at hs
  | gpos12 _ _ => simp [Subtable.contextual] at hs
  | gpos21 _ => simp [Subtable.contextual] at hs
  | gpos22 _ _ _ _ => simp [Subtable.contextual] at hs
  | gpos31 _ _ => simp [Subtable.contextual] at hs
  | gpos41 _ _ _ _ _ => simp [Subtable.contextual] at hs
  | gpos61 _ _ _ _ => simp [Subtable.contextual] at hs

/-- every subtable in the shape the reader delivers keeps the invariant and does not panic -/
theorem applySub_full (kp : Nat → Bool) (st : St) (a : Nat) (b : Int) (s : Subtable)
    (hg : s.guarded = true) (hc3 : s.chain3Ok = true)
    (ha : a < st.seq.length) (hb : b ≤ (st.seq.length : Int)) (hab : (a : Int) < b)
    (hbe : ∀ e ∈ st.stack, b ≤ e.endPos) (hwf : WF2 st) :
    Safe StepWF2 (applySub kp st a b s) := by
  cases hs : s.contextual with
  | true => exact applySub_ctx_full kp st a b s hg hc3 hs ha hb hab hbe hwf
  | false =>
    cases hfl : s.fixedLen with
    | true => exact (applySub_shape kp st a b s hg hs hfl ha hb).mono fun r hr => hr.stepWF2 hwf
    | false =>
      cases s <;> simp [Subtable.fixedLen] at hfl
      · exact applySub_gsub21_full kp st a b _ _ hg ha (fun e he => by have := hbe e he; omega) hwf
      · exact applySub_gsub41_full kp st a b _ _ hg ha hab hb hbe hwf

theorem applyAt_full (kp : Nat → Bool) (st : St) (a : Nat) (b : Int)
    (ha : a < st.seq.length) (hb : b ≤ (st.seq.length : Int)) (hab : (a : Int) < b)
    (hbe : ∀ e ∈ st.stack, b ≤ e.endPos) (hwf : WF2 st) :
    ∀ (ss : List Subtable), (∀ s ∈ ss, s.guarded = true ∧ s.chain3Ok = true) →
    Safe StepWF2 (applyAt kp st a b ss) := by
  intro ss
  induction ss with
  | nil => intro _; simp only [applyAt]; trivial
  | cons s ss ih =>
    intro h
    simp only [applyAt]
    obtain ⟨h1, h2⟩ := h s List.mem_cons_self
    refine Safe.bind (applySub_full kp st a b s h1 h2 ha hb hab hbe hwf) ?_
    intro r _ hr
    cases r with
    | none => exact ih (fun s' hs' => h s' (List.mem_cons_of_mem _ hs'))
    | some r => exact hr

/-! ## the loops -/

theorem shaped_facts {ll : LookupList} {lk : Lookup} (h : readerShapedLL ll = true) (hmem : lk ∈ ll) :
    ∀ s ∈ lk.subtables, s.guarded = true ∧ s.chain3Ok = true := by
  intro s hs
  unfold readerShapedLL at h
  simp only [Bool.and_eq_true] at h
  have h1 : lk.guarded = true := List.all_eq_true.mp h.1 lk hmem
  have h2 := List.all_eq_true.mp h.2 lk hmem
  exact ⟨List.all_eq_true.mp h1 s hs, List.all_eq_true.mp h2 s hs⟩

theorem nestedLoop_full (B : Nat) (ll : LookupList) (gd : Gdef) (hsh : readerShapedLL ll = true) :
    ∀ (fuel : Nat) (st : St) (n : Nat) (next : Int), WF2 st → 0 ≤ next →
    Safe (fun r => WF2 r.1 ∧ 0 ≤ r.2) (nestedLoop B ll gd fuel st n next) := by
  intro fuel
  induction fuel with
  | zero =>
    intro st n next hwf h0
    simp only [nestedLoop]
    split
    · exact ⟨hwf, h0⟩
    · trivial
  | succ fuel ih =>
    intro st n next hwf h0
    simp only [nestedLoop]
    split
    · exact ⟨hwf, h0⟩
    · rename_i top below hstack
      have htop : EntryInv st.seq.length top := hwf.entries top (by rw [hstack]; exact List.mem_cons_self)
      have hbelow : ∀ e ∈ below, EntryInv st.seq.length e :=
        fun e he => hwf.entries e (by rw [hstack]; exact List.mem_cons_of_mem _ he)
      have hnest := hwf.nest
      rw [hstack] at hnest
      have hnest' := List.pairwise_cons.mp hnest
      split
      · exact ⟨hwf, h0⟩
      · split
        · -- pop
          refine ih { st with stack := below } n _ ⟨hbelow, hnest'.2⟩ ?_
          split
          · exact htop.endLo
          · exact h0
        · rename_i act acts hacts
          have hwf1 : WF2 { st with stack := { top with actions := acts } :: below } := by
            refine ⟨?_, ?_⟩
            · intro e he
              rcases List.mem_cons.mp he with he | he
              · subst he
                exact ⟨htop.lo, htop.hi, htop.sorted, htop.endLo, htop.endHi⟩
              · exact hbelow e he
            · exact List.pairwise_cons.mpr ⟨hnest'.1, hnest'.2⟩
          split
          · exact ih _ (n + 1) next hwf1 h0
          · rename_i pos hpos
            have hmempos : pos ∈ top.inputPos := List.mem_of_getElem? hpos
            have hp0 := htop.lo pos hmempos
            have hp1 := htop.hi pos hmempos
            have hE := htop.endHi
            split
            · exact ih _ (n + 1) next hwf1 h0
            · rename_i lk hlk
              have hmem : lk ∈ ll := List.mem_of_getElem? hlk
              refine Safe.bind (idxI_safe hp0 (by omega)) ?_
              intro g _ _
              split
              · have hbe : ∀ e ∈ ({ top with actions := acts } :: below : List Nested), top.endPos ≤ e.endPos := by
                  intro e he
                  rcases List.mem_cons.mp he with he | he
                  · subst he; exact Int.le_refl _
                  · exact hnest'.1 e he
                refine Safe.bind (applyAt_full _ { st with stack := { top with actions := acts } :: below }
                  pos.toNat top.endPos (by show pos.toNat < st.seq.length; omega) hE
                  (by omega) hbe hwf1 lk.subtables (shaped_facts hsh hmem)) ?_
                intro r _ hr
                cases r with
                | none => exact ih _ (n + 1) next hwf1 h0
                | some r =>
                  obtain ⟨st2, nx⟩ := r
                  exact ih st2 (n + 1) next hr h0
              · exact ih _ (n + 1) next hwf1 h0

theorem applyAtRec_full (B : Nat) (ll : LookupList) (gd : Gdef) (hsh : readerShapedLL ll = true)
    (lk : Lookup) (hmem : lk ∈ ll) (st : St) (pos : Int)
    (h0 : 0 ≤ pos) (hlt : pos < st.seq.length) (hst : st.stack = []) :
    Safe (fun r => r.1.stack = [] ∧ 0 ≤ r.2) (applyAtRec B ll gd lk st pos) := by
  unfold applyAtRec
  refine Safe.bind (idxI_safe h0 hlt) ?_
  intro g _ _
  split
  · exact ⟨hst, by omega⟩
  · refine Safe.bind (applyAt_full _ st pos.toNat st.seq.length (by omega) (Int.le_refl _) (by omega)
      (fun e he => by rw [hst] at he; cases he) (WF2.nil hst) lk.subtables (shaped_facts hsh hmem)) ?_
    intro r _ hr
    cases r with
    | none => exact ⟨hst, by omega⟩
    | some r =>
      obtain ⟨st1, next⟩ := r
      have hwf1 : WF2 st1 := hr
      refine Safe.bind (nestedLoop_full B ll gd hsh (nestedFuel B st1) st1 1 next hwf1 (Int.natCast_nonneg _)) ?_
      intro r2 _ hr2
      obtain ⟨st2, next2⟩ := r2
      show Safe _ (match st2.stack.getLast? with
        | none => Outcome.ok (st2, next2)
        | some bottom => Outcome.ok ({ st2 with stack := [] }, bottom.endPos))
      split
      · rename_i hlast
        exact ⟨List.getLast?_eq_none_iff.mp hlast, hr2.2⟩
      · rename_i bottom hlast
        exact ⟨rfl, (hr2.1.entries bottom (List.mem_of_getLast? hlast)).endLo⟩

theorem applyLookups_full (B : Nat) (ll : LookupList) (gd : Gdef) (hsh : readerShapedLL ll = true) :
    ∀ (lookups : List Nat) (st : St), st.stack = [] → Safe (fun st' => st'.stack = []) (applyLookups B ll gd lookups st) := by
  intro lookups
  induction lookups with
  | nil => intro st hst; simp only [applyLookups]; exact hst
  | cons i is ih =>
    intro st hst
    simp only [applyLookups]
    split
    · exact ih st hst
    · rename_i lk hlk
      have hmem : lk ∈ ll := List.mem_of_getElem? hlk
      have hgl : guardedLL ll = true := by
        unfold readerShapedLL at hsh; simp only [Bool.and_eq_true] at hsh; exact hsh.1
      have hone : Safe (fun st' => st'.stack = []) (applyLookup B ll gd lk st) := by
        unfold applyLookup
        split
        · rename_i hrev
          exact revLoop_safe gd lk (List.all_eq_true.mp hgl lk hmem) hrev _ st (Nat.le_refl _) hst
        · exact lookupLoop_safe' B ll gd lk
            (fun st pos h0 hlt hs => applyAtRec_full B ll gd hsh lk hmem st pos h0 hlt hs)
            st.seq.length st 0 (Int.le_refl _) hst
      refine Safe.bind hone ?_
      intro st1 _ h1
      exact ih st1 h1

end SfntV.Shape
