import SfntV.Proofs.DslGpos22
set_option linter.unusedSimpArgs false
set_option linter.unusedVariables false
namespace SfntV.Dsl

def isOr (t : Tok) : Prop := t.typ = tOr

/-- `frag_subtablesLoop` with a stop condition per position: only the last subtable has to cope
with what follows the lookup -/
theorem frag_subtablesLoop' (one : PM Subtable) (P Plast : Tok → Prop) (N : Option Nat → Prop)
    (hP : ∀ t, P t → [tOr].contains t.typ = false ∧ Plast t) :
    ∀ (items : List (List Piece × Subtable)) (p0 : List Piece) (r0 : Subtable) (n : Nat) (acc : List Subtable),
      items.length < n →
      (∀ pre q post, (p0, r0) :: items = pre ++ q :: post →
        Frag one q.1 q.2 (fun t => (post = [] ∧ Plast t) ∨ (post ≠ [] ∧ isOr t))
          (fun nx => (post = [] ∧ N nx) ∨ (post ≠ [] ∧ nx = some 32))) →
      Frag (subtablesLoop one n acc) (p0 ++ items.flatMap (fun q => orSep ++ q.1))
        (acc ++ r0 :: items.map (·.2)) P N := by
  intro items
  induction items with
  | nil =>
    intro p0 r0 n acc hn hall
    cases n with
    | zero => omega
    | succ m =>
      have h0 := hall [] (p0, r0) [] rfl
      unfold subtablesLoop
      simp only [List.flatMap_nil, List.map_nil]
      refine frag_bind h0 ?_ (fun nx hnx => Or.inl ⟨rfl, by simpa [nextRune, render] using hnx⟩)
        (fun line t ht => by
          simp only [mkToks, List.head?_nil, Option.getD_none]
          exact Or.inl ⟨trivial, (hP t ht).2⟩)
      show Frag _ ([] ++ []) _ _ _
      refine frag_weaken (N := anyNext) ?_ (fun _ h => h) (fun _ _ => trivial)
      refine frag_bind (frag_optional_no [tOr]) ?_ (fun _ _ => trivial)
        (fun line t ht => by simpa [mkToks] using (hP t ht).1)
      simp only [Bool.not_false, if_true]
      exact frag_pure _ _
  | cons q rest ih =>
    intro p0 r0 n acc hn hall
    cases n with
    | zero => omega
    | succ m =>
      have h0 := hall [] (p0, r0) (q :: rest) rfl
      have hih := ih q.1 q.2 m (acc ++ [r0]) (by simp at hn; omega) (by
        intro pre x post e
        exact hall ((p0, r0) :: pre) x post (by simp [e]))
      unfold subtablesLoop
      have hp : p0 ++ (q :: rest).flatMap (fun q => orSep ++ q.1) =
          p0 ++ (.ws [a1 32] :: ([.tok tOr (ascii [124, 124])] ++ ([.tok tEOL (ascii [10])] ++
            (.ws [a1 9] :: (q.1 ++ rest.flatMap (fun q => orSep ++ q.1)))))) := by
        simp [orSep, sp, tab, eolP, tk]
      have hr : acc ++ r0 :: (q :: rest).map (·.2) = (acc ++ [r0]) ++ q.2 :: rest.map (·.2) := by simp
      rw [hp, hr]
      refine frag_bind h0 ?_ (fun nx _ => Or.inr ⟨by simp, by simp [nextRune, render, Piece.rbs, a1]⟩)
        (fun line t _ => by simp [mkToks, isOr])
      apply frag_ws [a1 32] ws_sp
      have hy := frag_optional_yes [tOr] tOr (ascii [124, 124]) anyNext (by decide)
        (fun nx _ => or_tokOk nx) (tk_canon tOr _ (by decide))
      refine frag_bind hy ?_ (fun _ _ => trivial) (fun _ _ _ => trivial)
      simp only [Bool.not_true, Bool.false_eq_true, if_false]
      have hy2 := (frag_optional_yes [tEOL] tEOL (ascii [10]) anyNext (by decide)
        (fun nx _ => eol_tokOk nx) (tk_canon tEOL _ (by decide))).toU
      refine frag_then hy2 ?_ (fun _ _ => trivial) (fun _ _ _ => trivial)
      exact frag_ws [a1 9] ws_tab hih

/-- `":" flags EOL` read by `header` (the first subtable starts on a new line) -/
theorem flags_head_tok' (flags : Nat) (tbl : List (Nat × List Nat)) (line : Nat) :
    tbl.flatMap (flagPieces flags) = [] ∨
    ∃ t, (mkToks line (tbl.flatMap (flagPieces flags))).head? = some t ∧ t.typ = tHyphen := by
  induction tbl with
  | nil => left; rfl
  | cons e tbl ih =>
    simp only [List.flatMap_cons]
    by_cases hsel : flags &&& e.1 = 0
    · have : flagPieces flags e = [] := by simp [flagPieces, hsel]
      rw [this]; simpa using ih
    · have : flagPieces flags e = [sp, hyphenP, tk tIdentifier (e.2.drop 2)] := by simp [flagPieces, hsel]
      rw [this]; right; simp [mkToks, sp, hyphenP, tk]

theorem frag_header_eol (flags : Nat) (hfl : flags < 16) (fuel : Nat) (hfuel : Gen.dslExplainFlagsC.length < fuel) :
    Frag (header fuel) ([tk tColon [58]] ++ (explainFlags flags ++ [eolP])) flags
      (fun t => [tHyphen].contains t.typ = false ∧ [tEOL].contains t.typ = false) anyNext := by
  have hflags := frag_flagsLoop flags Gen.dslExplainFlagsC flagEntries_ok fuel 0 hfuel
  rw [flags_value ⟨flags, hfl⟩] at hflags
  have hexp : explainFlags flags = Gen.dslExplainFlagsC.flatMap (flagPieces flags) := rfl
  rw [hexp]
  have hc := (frag_optional_yes [tColon] tColon (ascii [58]) anyNext (by decide)
    (fun nx _ => colon_tokOk nx) (tk_canon tColon _ (by decide))).toU
  have hyE := frag_optional_yes [tEOL] tEOL (ascii [10]) anyNext (by decide)
    (fun nx _ => eol_tokOk nx) (tk_canon tEOL _ (by decide))
  have heol : [eolP] = [.tok tEOL (ascii [10])] := by simp [eolP, tk]
  unfold header
  refine frag_then hc ?_ (fun _ _ => trivial) (fun _ _ _ => trivial)
  cases hfp : Gen.dslExplainFlagsC.flatMap (flagPieces flags) with
  | nil =>
    rw [hfp] at hflags
    -- no flags: the line break is taken before the flags loop
    rw [heol]
    simp only [List.nil_append]
    have hpp : [Piece.tok tEOL (ascii [10])] = [Piece.tok tEOL (ascii [10])] ++ ([] ++ ([] ++ [])) := by simp
    rw [hpp]
    refine frag_then hyE.toU ?_ (fun _ _ => trivial) (fun _ _ _ => trivial)
    unfold readLookupFlags
    have hflags' : Frag (readLookupFlagsLoop fuel 0) [] flags (fun t => [tHyphen].contains t.typ = false) anyNext :=
      ⟨fun _ _ => trivial, hflags.canon, hflags.runs⟩
    refine frag_bind hflags' ?_ (fun _ _ => trivial)
      (fun line t ht => by simpa [mkToks] using ht.1)
    refine frag_then (frag_optional_no [tEOL]).toU (frag_pure _ _) (fun _ _ => trivial)
      (fun line t ht => by simpa [mkToks] using ht.2)
  | cons x xs =>
    rw [hfp] at hflags
    have hpp : x :: xs ++ [eolP] = [] ++ ((x :: xs) ++ ([.tok tEOL (ascii [10])] ++ [])) := by simp [heol]
    rw [hpp]
    refine frag_then (frag_optional_no [tEOL]).toU ?_ (fun _ _ => trivial) ?_
    · unfold readLookupFlags
      refine frag_bind hflags ?_ (fun nx _ => by
          simpa [nextRune, render, ascii, Piece.rbs] using safe_eol)
        (fun line t _ => by simp [mkToks, tEOL, tHyphen])
      refine frag_then hyE.toU (frag_pure _ _) (fun _ _ => trivial) (fun _ _ _ => trivial)
    · intro line t _
      rcases flags_head_tok' flags Gen.dslExplainFlagsC line with h | ⟨t', h, htyp⟩
      · rw [hfp] at h; cases h
      · rw [hfp] at h
        rw [mkToks_append]
        cases hm : mkToks line (x :: xs) with
        | nil => rw [hm] at h; cases h
        | cons a as =>
          rw [hm] at h
          simp at h
          subst h
          simp [htyp, tHyphen, tEOL]

/-- a lookup body `header subtables` with an arbitrary header fragment and per-position stops -/
theorem frag_lookupBody' (one : PM Subtable) (typ flags fuel : Nat) (hdr : List Piece)
    (Nh : Option Nat → Prop)
    (hh : Frag (header fuel) hdr flags (fun t => [tHyphen].contains t.typ = false ∧ [tEOL].contains t.typ = false) Nh)
    (P Plast : Tok → Prop) (N : Option Nat → Prop)
    (hP : ∀ t, P t → [tOr].contains t.typ = false ∧ Plast t)
    (p0 : List Piece) (r0 : Subtable) (items : List (List Piece × Subtable))
    (hall : ∀ pre q post, (p0, r0) :: items = pre ++ q :: post →
      Frag one q.1 q.2 (fun t => (post = [] ∧ Plast t) ∨ (post ≠ [] ∧ isOr t))
        (fun nx => (post = [] ∧ N nx) ∨ (post ≠ [] ∧ nx = some 32)))
    (hNh : ∀ nx, Nh (nextRune ((p0 ++ items.flatMap (fun q => orSep ++ q.1)) ++ []) nx))
    (hhead : ∀ line, ∃ t, (mkToks line p0).head? = some t ∧ [tHyphen].contains t.typ = false ∧
      [tEOL].contains t.typ = false)
    (hfuel : items.length < fuel) :
    Frag (header fuel >>= fun flags => subtablesLoop one fuel [] >>= fun subs =>
        pure ({ typ := typ, flags := flags, subtables := subs } : Lookup))
      (hdr ++ ((p0 ++ items.flatMap (fun q => orSep ++ q.1)) ++ []))
      { typ := typ, flags := flags, subtables := r0 :: items.map (·.2) } P N := by
  refine frag_bind hh ?_ (fun nx _ => hNh nx) ?_
  · refine frag_bind (frag_subtablesLoop' one P Plast N hP items p0 r0 fuel [] hfuel hall) ?_
      (fun nx h => by simpa [nextRune, render] using h) (fun line t ht => by simpa [mkToks] using ht)
    simp only [List.nil_append]
    exact frag_weaken (frag_pure _ P) (fun _ h => h) (fun _ _ => trivial)
  · intro line t _
    obtain ⟨th, h1, h2, h3⟩ := hhead line
    have : (mkToks line ((p0 ++ items.flatMap (fun q => orSep ++ q.1)) ++ [])).head? = some th := by
      rw [List.append_nil, mkToks_append]
      cases hm : mkToks line p0 with
      | nil => rw [hm] at h1; cases h1
      | cons a as => rw [hm] at h1; simpa using h1
    rw [this]
    exact ⟨h2, h3⟩

def Gpos22Sub (f : Font) (st : Subtable) : Prop :=
  ∃ cov c1 c2 adjust, st = .gpos2_2 cov c1 c2 adjust ∧ Gpos22Ok f cov c1 c2 adjust

def Gpos2Sub (f : Font) (st : Subtable) : Prop := Gpos21Sub f st ∨ Gpos22Sub f st

/-- the pieces of a GPOS 2 subtable without the line break that starts a first class-pair
subtable -/
def sub2P (f : Font) (st : Subtable) : List Piece := (newExplainer f).subtable false st

theorem sub2_true (f : Font) (st : Subtable) (h : Gpos2Sub f st) :
    (newExplainer f).subtable true st = (match st with | .gpos2_2 .. => [eolP, tab] | _ => []) ++ sub2P f st := by
  rcases h with ⟨pairs, rfl, _⟩ | ⟨cov, c1, c2, adjust, rfl, _⟩
  · rfl
  · simp [sub2P, Explainer.subtable]

/-- a GPOS 2 subtable in the middle of a lookup (a `||` follows) -/
theorem sub2_mid (f : Font) (hf : FontOk f) (st : Subtable) (h : Gpos2Sub f st) (fuel : Nat)
    (hfuel : tokCount (sub2P f st) + 4 < fuel) :
    Frag (gpos2Sub f fuel) (sub2P f st) (normSub st) isOr Safe := by
  rcases h with ⟨pairs, rfl, hok⟩ | ⟨cov, c1, c2, adjust, rfl, hok⟩
  · exact frag_weaken (frag_gpos21 f hf false pairs hok fuel hfuel) (fun t ht => Or.inl ht) (fun _ h => h)
  · have := frag_gpos22 f hf cov c1 c2 adjust hok false fuel hfuel
    simp only [Bool.false_eq_true, if_false, List.append_nil] at this
    exact frag_weaken this (fun t ht => Or.inr (by simp [show t.typ = tOr from ht, tOr, tEOL])) (fun _ _ => trivial)

theorem sub2_head (f : Font) (st : Subtable) (h : Gpos2Sub f st) (line : Nat) :
    ∃ t, (mkToks line (sub2P f st)).head? = some t ∧ [tHyphen].contains t.typ = false ∧ [tEOL].contains t.typ = false := by
  rcases h with ⟨pairs, rfl, hok⟩ | ⟨cov, c1, c2, adjust, rfl, hok⟩
  · cases pairs with
    | nil => exact absurd rfl hok.ne
    | cons p0 rest =>
      obtain ⟨typ, val, ps, hw, hty⟩ := writeGlyphList_head (newExplainer f) [p0.1.1, p0.1.2] (by simp)
      refine ⟨{ typ := typ, val := val, line := line }, by simp [sub2P, Explainer.subtable, entries, sp, hw, mkToks], ?_⟩
      rcases hty with h | h | h <;> simp [h, tIdentifier, tInteger, tString, tHyphen, tEOL]
  · refine ⟨{ typ := tSlash, val := ascii [47], line := line }, by simp [sub2P, Explainer.subtable, tk, mkToks],
      by simp [tSlash, tHyphen], by simp [tSlash, tEOL]⟩

theorem split_last {α : Type} (x : α) : ∀ (xs pre : List α) (q : α) (post : List α),
    xs ++ [x] = pre ++ q :: post → (post = [] ∧ q = x) ∨ (post ≠ [] ∧ q ∈ xs) := by
  intro xs
  induction xs with
  | nil =>
    intro pre q post h
    cases pre with
    | nil =>
      have h1 : [x] = q :: post := h
      injection h1 with a b
      exact Or.inl ⟨b.symm, a.symm⟩
    | cons p pre' =>
      have h1 : [x] = p :: (pre' ++ q :: post) := h
      injection h1 with a b
      simp at b
  | cons y ys ih =>
    intro pre q post h
    cases pre with
    | nil =>
      have h1 : y :: (ys ++ [x]) = q :: post := h
      injection h1 with a b
      subst a
      refine Or.inr ⟨?_, by simp⟩
      rw [← b]; simp
    | cons p pre' =>
      have h1 : y :: (ys ++ [x]) = p :: (pre' ++ q :: post) := h
      injection h1 with a b
      rcases ih pre' q post b with h' | h'
      · exact Or.inl h'
      · exact Or.inr ⟨h'.1, by simp [h'.2]⟩

theorem frag_ws_end {α : Type} {m : PM α} {ps : List Piece} {r : α} {P : Tok → Prop}
    (w : List RB) (hw : ∀ c ∈ w, wsChar c = true ∧ Canon c) (h : Frag m ps r P anyNext) :
    Frag m (ps ++ [.ws w]) r P anyNext := by
  refine ⟨fun nx _ => chain_append _ _ _ (h.chain _ trivial) ⟨fun c hc => (hw c hc).1, trivial⟩, ?_, ?_⟩
  · intro rb hrb
    rw [render_append, List.mem_append] at hrb
    rcases hrb with hrb | hrb
    · exact h.canon rb hrb
    · simp [render, Piece.rbs] at hrb; exact (hw rb hrb).2
  · intro line
    have : mkToks line (ps ++ [.ws w]) = mkToks line ps := by simp [mkToks_append, mkToks]
    rw [this]; exact h.runs line

theorem mkToks_head_append (line : Nat) (a b : List Piece) (t : Tok) (h : (mkToks line a).head? = some t) :
    (mkToks line (a ++ b)).head? = some t := by
  rw [mkToks_append]
  cases hm : mkToks line a with
  | nil => rw [hm] at h; cases h
  | cons x xs => rw [hm] at h; simpa using h

theorem hdr2 (f : Font) (hf : FontOk f) (flags : Nat) (hfl : flags < 16) (st0 : Subtable) (h0 : Gpos2Sub f st0)
    (F0 : Nat) (hF : 4 < F0) :
    ∃ (hdr : List Piece) (Nh : Option Nat → Prop),
      Frag (header F0) hdr flags (fun t => [tHyphen].contains t.typ = false ∧ [tEOL].contains t.typ = false) Nh ∧
      (∃ ps, hdr = tk tColon [58] :: ps) ∧
      (∀ X, ([tk tColon [58]] ++ explainFlags flags) ++ (((newExplainer f).subtable true st0 ++ X) ++ []) =
        hdr ++ ((sub2P f st0 ++ X) ++ [])) ∧
      (∀ Y nx, Nh (nextRune (sub2P f st0 ++ Y) nx)) := by
  have h4 : Gen.dslExplainFlagsC.length = 4 := by decide
  rcases h0 with ⟨pairs, rfl, hok⟩ | ⟨cov, c1, c2, adjust, rfl, hok⟩
  · refine ⟨[tk tColon [58]] ++ explainFlags flags, Safe, frag_header flags hfl F0 (by omega), ⟨_, rfl⟩,
      fun X => rfl, ?_⟩
    intro Y nx
    obtain ⟨ps, hps⟩ := (gpos21_form f hf).start _ ⟨pairs, rfl, hok⟩ false
    have : nextRune (sub2P f (.gpos2_1 pairs) ++ Y) nx = some 32 := by
      simp [sub2P, hps, nextRune, render, Piece.rbs, a1]
    rw [this]; exact safe_space
  · refine ⟨([tk tColon [58]] ++ (explainFlags flags ++ [eolP])) ++ [.ws [a1 9]], anyNext,
      frag_ws_end [a1 9] ws_tab (frag_header_eol flags hfl F0 (by omega)), ⟨_, rfl⟩, ?_, fun _ _ => trivial⟩
    intro X
    rw [sub2_true f _ (Or.inr ⟨cov, c1, c2, adjust, rfl, hok⟩)]
    simp [tab]

/-- a GPOS 2 lookup body whose last subtable is followed by `tail` -/
theorem body2_gen (f : Font) (hf : FontOk f) (l : Lookup) (h1 : l.typ = 2) (h2 : l.flags < 16)
    (init : List Subtable) (stL : Subtable) (hs : l.subtables = init ++ [stL])
    (hsub : ∀ st ∈ l.subtables, Gpos2Sub f st) (F0 : Nat)
    (hsubF : ∀ st ∈ l.subtables, tokCount (sub2P f st) + 4 < F0) (hlenF : l.subtables.length + 3 < F0)
    (tail : List Piece) (P : Tok → Prop) (N : Option Nat → Prop)
    (hP : ∀ t, P t → [tOr].contains t.typ = false)
    (hlast : Frag (gpos2Sub f F0) (sub2P f stL ++ tail) (normSub stL) P N) :
    Frag (readGpos2 f F0) (bodyP f l ++ tail) (normLookup l) P N := by
  have hrd : readGpos2 f F0 = (header F0 >>= fun flags => subtablesLoop (gpos2Sub f F0) F0 [] >>= fun subs =>
      pure ({ typ := 2, flags := flags, subtables := subs } : Lookup)) := rfl
  have hall : ∀ pre q post,
      init.map (fun st => (sub2P f st, normSub st)) ++ [(sub2P f stL ++ tail, normSub stL)] = pre ++ q :: post →
      Frag (gpos2Sub f F0) q.1 q.2 (fun t => (post = [] ∧ P t) ∨ (post ≠ [] ∧ isOr t))
        (fun nx => (post = [] ∧ N nx) ∨ (post ≠ [] ∧ nx = some 32)) := by
    intro pre q post e
    rcases split_last _ _ pre q post e with ⟨hp, hq⟩ | ⟨hp, hq⟩
    · subst hp; subst hq
      refine frag_weaken hlast ?_ ?_
      · intro t ht; rcases ht with ⟨_, h⟩ | ⟨h, _⟩
        · exact h
        · exact absurd rfl h
      · intro nx hn; rcases hn with ⟨_, h⟩ | ⟨h, _⟩
        · exact h
        · exact absurd rfl h
    · simp only [List.mem_map] at hq
      obtain ⟨st, hst, rfl⟩ := hq
      have hmem : st ∈ l.subtables := by rw [hs]; simp [hst]
      refine frag_weaken (sub2_mid f hf st (hsub st hmem) F0 (hsubF st hmem)) ?_ ?_
      · intro t ht; rcases ht with ⟨h, _⟩ | ⟨_, h⟩
        · exact absurd h hp
        · exact h
      · intro nx hn; rcases hn with ⟨h, _⟩ | ⟨_, h⟩
        · exact absurd h hp
        · rw [h]; exact safe_space
  have h4F : 4 < F0 := by rw [hs] at hlenF; simp at hlenF; omega
  rw [hrd]
  cases init with
  | nil =>
    have hst : Gpos2Sub f stL := hsub stL (by rw [hs]; simp)
    obtain ⟨hdr, Nh, hh, _, heq, hNh⟩ := hdr2 f hf l.flags h2 stL hst F0 (by omega)
    have hb : bodyP f l ++ tail = hdr ++ (((sub2P f stL ++ tail) ++
        ([] : List (List Piece × Subtable)).flatMap (fun q => orSep ++ q.1)) ++ []) := by
      have : bodyP f l ++ tail = ([tk tColon [58]] ++ explainFlags l.flags) ++
          (((newExplainer f).subtable true stL ++ tail) ++ []) := by simp [bodyP, hs]
      rw [this, heq tail]; simp
    rw [hb]
    have := frag_lookupBody' (gpos2Sub f F0) 2 l.flags F0 hdr Nh hh P P N (fun t h => ⟨hP t h, h⟩)
      (sub2P f stL ++ tail) (normSub stL) [] (by simpa using hall)
      (by intro nx; have := hNh tail nx; simpa using this)
      (by
        intro line
        obtain ⟨t, ht, h3⟩ := sub2_head f stL hst line
        exact ⟨t, mkToks_head_append line _ _ t ht, h3⟩)
      (by simp; omega)
    simpa [h1, normLookup, hs] using this
  | cons i0 init' =>
    have hst : Gpos2Sub f i0 := hsub i0 (by rw [hs]; simp)
    obtain ⟨hdr, Nh, hh, _, heq, hNh⟩ := hdr2 f hf l.flags h2 i0 hst F0 (by omega)
    have hb : bodyP f l ++ tail = hdr ++ ((sub2P f i0 ++
        (init'.map (fun st => (sub2P f st, normSub st)) ++ [(sub2P f stL ++ tail, normSub stL)]).flatMap
          (fun q => orSep ++ q.1)) ++ []) := by
      have : bodyP f l ++ tail = ([tk tColon [58]] ++ explainFlags l.flags) ++
          (((newExplainer f).subtable true i0 ++
            ((init'.map (fun st => (sub2P f st, normSub st)) ++ [(sub2P f stL ++ tail, normSub stL)]).flatMap
              (fun q => orSep ++ q.1))) ++ []) := by
        simp [bodyP, hs, sub2P, List.flatMap_append]
      rw [this, heq]
    rw [hb]
    have := frag_lookupBody' (gpos2Sub f F0) 2 l.flags F0 hdr Nh hh P P N (fun t h => ⟨hP t h, h⟩)
      (sub2P f i0) (normSub i0) (init'.map (fun st => (sub2P f st, normSub st)) ++ [(sub2P f stL ++ tail, normSub stL)])
      (by simpa using hall)
      (by intro nx; have := hNh ((init'.map (fun st => (sub2P f st, normSub st)) ++ [(sub2P f stL ++ tail, normSub stL)]).flatMap
              (fun q => orSep ++ q.1)) nx; simpa using this)
      (sub2_head f i0 hst)
      (by rw [hs] at hlenF; simp at hlenF ⊢; omega)
    simpa [h1, normLookup, hs, List.map_map, Function.comp_def] using this

theorem body2_counts (f : Font) (l : Lookup) (hsub : ∀ st ∈ l.subtables, Gpos2Sub f st) :
    (∀ st ∈ l.subtables, tokCount (sub2P f st) + 1 ≤ tokCount (bodyP f l)) ∧
    l.subtables.length ≤ tokCount (bodyP f l) := by
  cases hs : l.subtables with
  | nil => simp
  | cons st0 more =>
    have hb : bodyP f l = ([tk tColon [58]] ++ explainFlags l.flags) ++
        (((newExplainer f).subtable true st0 ++
          (more.map fun st' => (sub2P f st', normSub st')).flatMap (fun q => orSep ++ q.1)) ++ []) := by
      simp [bodyP, hs, sub2P]
    have h0 : tokCount (sub2P f st0) ≤ tokCount ((newExplainer f).subtable true st0) := by
      rw [sub2_true f st0 (hsub st0 (by rw [hs]; simp)), tokCount_append]; omega
    have hflat : ∀ st' ∈ more, tokCount (sub2P f st') ≤
        tokCount ((more.map fun st' => (sub2P f st', normSub st')).flatMap (fun q => orSep ++ q.1)) := by
      intro st' h'
      have := tokCount_flatMap_mem (fun q : List Piece × Subtable => orSep ++ q.1)
        (more.map fun st' => (sub2P f st', normSub st')) (sub2P f st', normSub st')
        (List.mem_map.mpr ⟨st', h', rfl⟩)
      simp only [tokCount_append] at this
      omega
    have hlenm : more.length ≤ tokCount ((more.map fun st' => (sub2P f st', normSub st')).flatMap (fun q => orSep ++ q.1)) := by
      have := length_le_tokCount_flatMap (fun q : List Piece × Subtable => orSep ++ q.1)
        (more.map fun st' => (sub2P f st', normSub st')) (by
          intro x _; simp [tokCount_append, orSep, sp, tab, eolP, tk, tokCount])
      simpa using this
    rw [hb]
    simp only [tokCount_append, tokCount, tk, List.length_cons]
    refine ⟨?_, by omega⟩
    intro st hst
    simp only [List.mem_cons] at hst
    rcases hst with rfl | hst
    · omega
    · have := hflat st hst; omega

theorem exists_init_last {α : Type} : ∀ (xs : List α), xs ≠ [] → ∃ init x, xs = init ++ [x] := by
  intro xs
  induction xs with
  | nil => intro h; exact absurd rfl h
  | cons y ys ih =>
    intro _
    cases ys with
    | nil => exact ⟨[], y, rfl⟩
    | cons z zs =>
      obtain ⟨init, x, e⟩ := ih (by simp)
      exact ⟨y :: init, x, by rw [e]; rfl⟩

/-- GPOS 2 lookups with glyph-pair and class-pair subtables in any order -/
structure LookupP2Ok (f : Font) (l : Lookup) : Prop where
  typ : l.typ = 2
  flags : l.flags < 16
  ne : l.subtables ≠ []
  subs : ∀ st ∈ l.subtables, Gpos2Sub f st

/-- the item that follows a swallowed line break: the keyword of the next GPOS lookup -/
def isPosKw (t : Tok) : Prop := t.typ = tIdentifier ∧ t.bytes.take 4 = kwPOS

/-- a GPOS lookup whose keyword, dispatch and body round-trip at fuel `F0`; the body either stops
at the line break after it, or (class-pair subtable at the end) takes that line break itself -/
def PosItem2 (f : Font) (F0 : Nat) (l : Lookup) : Prop :=
  ∃ (rd : PM Lookup),
    (TokOk tIdentifier (ascii (kwPOS ++ decimal l.typ)) (some 58) ∧ ∀ rb ∈ ascii (kwPOS ++ decimal l.typ), Canon rb) ∧
    (∀ (t : Tok) (n : Nat) (acc : List Lookup) (s s1 : PS), readItem s = .ok (t, s1) →
      t.typ = tIdentifier → t.bytes = kwPOS ++ decimal l.typ →
      parseLoop f F0 (n + 1) acc s = (rd >>= fun l' => parseLoop f F0 n (acc ++ [l'])) s1) ∧
    (∃ ps, bodyP f l = tk tColon [58] :: ps) ∧
    (Frag rd (bodyP f l) (normLookup l) LookStop Safe ∨
      (Frag rd (bodyP f l) (normLookup l) (fun t => t.typ = tEOF) Safe ∧
        Frag rd (bodyP f l ++ [eolP]) (normLookup l) isPosKw anyNext))

theorem posText_head (f : Font) (l : Lookup) (ls : List Lookup) :
    ∃ X, posText f (l :: ls) = tk tIdentifier (kwPOS ++ decimal l.typ) :: X := by
  cases ls with
  | nil => exact ⟨_, rfl⟩
  | cons l' ls' => exact ⟨_, rfl⟩

theorem item2_of_p2 (f : Font) (hf : FontOk f) (l : Lookup) (h : LookupP2Ok f l) (F0 : Nat)
    (hF : tokCount (bodyP f l) + 4 ≤ F0) : PosItem2 f F0 l := by
  obtain ⟨init, stL, hs⟩ := exists_init_last l.subtables h.ne
  obtain ⟨hc1, hc2⟩ := body2_counts f l h.subs
  have hsubF : ∀ st ∈ l.subtables, tokCount (sub2P f st) + 4 < F0 := fun st hst => by
    have := hc1 st hst; omega
  have hlenF : l.subtables.length + 3 < F0 := by omega
  have hcolon : ∃ ps, bodyP f l = tk tColon [58] :: ps := by
    cases hs' : l.subtables with
    | nil => exact absurd hs' h.ne
    | cons st0 more =>
      refine ⟨explainFlags l.flags ++ (((newExplainer f).subtable true st0 ++
        (more.map fun st' => ((newExplainer f).subtable false st', normSub st')).flatMap (fun q => orSep ++ q.1)) ++ []), ?_⟩
      simp [bodyP, hs']
  have hstL : stL ∈ l.subtables := by rw [hs]; simp
  refine ⟨readGpos2 f F0, by rw [h.typ]; exact pos_kw_ok 2 (by decide), by rw [h.typ]; exact gpos2_dispatch f _, hcolon, ?_⟩
  rcases h.subs stL hstL with ⟨pairs, rfl, hok⟩ | ⟨cov, c1, c2, adjust, rfl, hok⟩
  · left
    have hl := frag_weaken (frag_gpos21 f hf false pairs hok F0 (hsubF _ hstL))
      (Q := LookStop) (M := Safe) (fun t ht => Or.inr ht) (fun _ h => h)
    have := body2_gen f hf l h.typ h.flags init _ hs h.subs F0 hsubF hlenF [] LookStop Safe
      (by
        intro t ht
        rcases ht with ht | ht <;> simp [ht, tOr, tEOL, tEOF])
      (by rw [List.append_nil]; exact hl)
    simpa using this
  · right
    have hl0 := frag_gpos22 f hf cov c1 c2 adjust hok false F0 (hsubF _ hstL)
    have hl1 := frag_gpos22 f hf cov c1 c2 adjust hok true F0 (hsubF _ hstL)
    simp only [Bool.false_eq_true, if_false, List.append_nil] at hl0
    simp only [if_true] at hl1
    refine ⟨?_, ?_⟩
    · have hl := frag_weaken hl0 (Q := fun t => t.typ = tEOF) (M := Safe)
        (fun t ht => Or.inr (by simp [show t.typ = tEOF from ht, tEOF, tEOL])) (fun _ _ => trivial)
      have := body2_gen f hf l h.typ h.flags init _ hs h.subs F0 hsubF hlenF [] (fun t => t.typ = tEOF) Safe
        (by intro t ht; simp [show t.typ = tEOF from ht, tOr, tEOF])
        (by rw [List.append_nil]; exact hl)
      simpa using this
    · have hl := frag_weaken hl1 (Q := isPosKw) (M := anyNext)
        (fun t _ => Or.inl trivial) (fun _ _ => trivial)
      exact body2_gen f hf l h.typ h.flags init _ hs h.subs F0 hsubF hlenF [eolP]
        isPosKw anyNext (fun t ht => by simp [ht.1, tOr, tIdentifier]) hl

theorem parse_text_pos2 (f : Font) (F0 : Nat) : ∀ (ls : List Lookup), (∀ l ∈ ls, PosItem2 f F0 l) →
    ChainOk (posText f ls) none ∧ (∀ rb ∈ render (posText f ls), Canon rb) ∧
    (∀ (line n : Nat) (acc : List Lookup) (s : PS) (e : Tok) (rest : List Tok), 2 * ls.length < n →
      s.stream = mkToks line (posText f ls) ++ e :: rest → e.typ = tEOF →
      ∃ s', parseLoop f F0 n acc s = .ok (acc ++ ls.map normLookup, s')) := by
  intro ls
  induction ls with
  | nil =>
    intro _
    refine ⟨trivial, by simp [render, posText], ?_⟩
    intro line n acc s e rest hn hs he
    cases n with
    | zero => omega
    | succ m =>
      obtain ⟨s1, e1, _⟩ := readItem_stream s e rest (by simpa [mkToks, posText] using hs)
      exact ⟨s1, by rw [parseLoop_eof f F0 m acc s s1 e e1 he]; simp⟩
  | cons l ls ih =>
    intro hall
    obtain ⟨rd, hkw, hdisp, ⟨ps, hq⟩, hcase⟩ := hall l (by simp)
    obtain ⟨ih1, ih2, ih3⟩ := ih (fun x hx => hall x (by simp [hx]))
    have hl : ∀ (line : Nat) (s' : List Nat), endLine line [tk tIdentifier s'] = line := by
      intro line s'; simp [endLine, tk, nextLine, tIdentifier, tEOL]
    have hfragE : Frag rd (bodyP f l) (normLookup l) (fun t => t.typ = tEOF) Safe := by
      rcases hcase with h | h
      · exact frag_weaken h (fun t ht => Or.inr ht) (fun _ h => h)
      · exact h.1
    cases ls with
    | nil =>
      have htext : posText f [l] = [tk tIdentifier (kwPOS ++ decimal l.typ)] ++ (bodyP f l ++ []) := by simp [posText]
      rw [htext]
      refine ⟨?_, ?_, ?_⟩
      · have hnx : nextRune (bodyP f l ++ []) none = some 58 := by
          rw [hq]; simp [nextRune, render, tk, ascii, Piece.rbs]
        show ChainOk (Piece.tok tIdentifier (ascii (kwPOS ++ decimal l.typ)) :: (bodyP f l ++ [])) none
        refine ⟨by rw [hnx]; exact hkw.1, ?_⟩
        rw [List.append_nil]
        exact hfragE.chain _ safe_none
      · intro rb hrb
        simp only [render_append, List.mem_append] at hrb
        rcases hrb with hrb | hrb | hrb
        · apply hkw.2; simpa [render, tk, Piece.rbs] using hrb
        · exact hfragE.canon rb hrb
        · simp [render] at hrb
      · intro line n acc s e rest hn hs he
        cases n with
        | zero => simp at hn
        | succ m =>
          cases m with
          | zero => simp at hn
          | succ m' =>
            simp only [mkToks_append, List.append_assoc] at hs
            have hk : mkToks line [tk tIdentifier (kwPOS ++ decimal l.typ)] =
                [{ typ := tIdentifier, val := ascii (kwPOS ++ decimal l.typ), line := line }] := by
              simp [mkToks, tk]
            rw [hk] at hs
            obtain ⟨s1, e1, hs1⟩ := readItem_stream s _ _ (by simpa using hs)
            rw [hdisp _ (m' + 1) acc s s1 e1 rfl (by simp [Tok.bytes, ascii_bytes])]
            simp only [hl, mkToks, List.nil_append] at hs1
            obtain ⟨s2, e2, hs2⟩ := hfragE.runs line s1 _ _ (by simpa using hs1) he
            rw [bind_run, e2]
            simp only []
            obtain ⟨s3, e3, _⟩ := readItem_stream s2 _ _ hs2
            exact ⟨s3, by rw [parseLoop_eof f F0 m' _ s2 s3 e e3 he]; simp⟩
    | cons l' ls' =>
      have hnx : ∀ Y, nextRune (bodyP f l ++ Y) none = some 58 := by
        intro Y; rw [hq]; simp [nextRune, render, tk, ascii, Piece.rbs]
      rcases hcase with hfrag | ⟨_, hsw⟩
      · have htext : posText f (l :: l' :: ls') =
            [tk tIdentifier (kwPOS ++ decimal l.typ)] ++ (bodyP f l ++ ([eolP] ++ posText f (l' :: ls'))) := by
          simp [posText]
        rw [htext]
        refine ⟨?_, ?_, ?_⟩
        · show ChainOk (Piece.tok tIdentifier (ascii (kwPOS ++ decimal l.typ)) :: (bodyP f l ++ ([eolP] ++ posText f (l' :: ls')))) none
          refine ⟨by rw [hnx]; exact hkw.1, ?_⟩
          apply chain_append
          · have : nextRune ([eolP] ++ posText f (l' :: ls')) none = some 10 := by
              simp [nextRune, render, eolP, tk, ascii, Piece.rbs]
            rw [this]
            exact hfrag.chain _ safe_eol
          · exact ⟨eol_tokOk _, ih1⟩
        · intro rb hrb
          simp only [render_append, List.mem_append] at hrb
          rcases hrb with hrb | hrb | hrb | hrb
          · apply hkw.2; simpa [render, tk, Piece.rbs] using hrb
          · exact hfrag.canon rb hrb
          · simp [render, eolP, tk, ascii, Piece.rbs] at hrb; subst hrb; exact canon_ascii 10 (by decide)
          · exact ih2 rb hrb
        · intro line n acc s e rest hn hs he
          cases n with
          | zero => simp at hn
          | succ m =>
            cases m with
            | zero => simp at hn
            | succ m' =>
              simp only [mkToks_append, List.append_assoc] at hs
              have hk : mkToks line [tk tIdentifier (kwPOS ++ decimal l.typ)] =
                  [{ typ := tIdentifier, val := ascii (kwPOS ++ decimal l.typ), line := line }] := by
                simp [mkToks, tk]
              rw [hk] at hs
              obtain ⟨s1, e1, hs1⟩ := readItem_stream s _ _ (by simpa using hs)
              rw [hdisp _ (m' + 1) acc s s1 e1 rfl (by simp [Tok.bytes, ascii_bytes])]
              simp only [hl] at hs1
              have hm : mkToks (endLine line (bodyP f l)) [eolP] =
                  [{ typ := tEOL, val := [a1 10], line := endLine line (bodyP f l) }] := by
                simp [mkToks, eolP, tk, ascii, a1]
              rw [hm] at hs1
              obtain ⟨s2, e2, hs2⟩ := hfrag.runs line s1 _ _ (by simpa using hs1) (Or.inl rfl)
              rw [bind_run, e2]
              simp only []
              obtain ⟨s3, e3, hs3⟩ := readItem_stream s2 _ _ hs2
              rw [parseLoop_eol f F0 m' _ s2 s3 _ e3 rfl]
              obtain ⟨s4, e4⟩ := ih3 _ m' (acc ++ [normLookup l]) s3 e rest (by simp at hn ⊢; omega) (by simpa using hs3) he
              exact ⟨s4, by rw [e4]; simp⟩
      · -- the class-pair subtable at the end of `l` takes the line break before the next lookup
        have htext : posText f (l :: l' :: ls') =
            [tk tIdentifier (kwPOS ++ decimal l.typ)] ++ ((bodyP f l ++ [eolP]) ++ posText f (l' :: ls')) := by
          simp [posText]
        rw [htext]
        refine ⟨?_, ?_, ?_⟩
        · show ChainOk (Piece.tok tIdentifier (ascii (kwPOS ++ decimal l.typ)) :: ((bodyP f l ++ [eolP]) ++ posText f (l' :: ls'))) none
          refine ⟨by rw [List.append_assoc, hnx]; exact hkw.1, ?_⟩
          exact chain_append _ _ _ (hsw.chain _ trivial) ih1
        · intro rb hrb
          simp only [render_append, List.mem_append] at hrb
          rcases hrb with hrb | (hrb | hrb) | hrb
          · apply hkw.2; simpa [render, tk, Piece.rbs] using hrb
          · exact hfragE.canon rb hrb
          · simp [render, eolP, tk, ascii, Piece.rbs] at hrb; subst hrb; exact canon_ascii 10 (by decide)
          · exact ih2 rb hrb
        · intro line n acc s e rest hn hs he
          cases n with
          | zero => simp at hn
          | succ m =>
            cases m with
            | zero => simp at hn
            | succ m' =>
              obtain ⟨X, hX⟩ := posText_head f l' ls'
              rw [mkToks_append, mkToks_append] at hs
              have hk : mkToks line [tk tIdentifier (kwPOS ++ decimal l.typ)] =
                  [{ typ := tIdentifier, val := ascii (kwPOS ++ decimal l.typ), line := line }] := by
                simp [mkToks, tk]
              rw [hk] at hs
              obtain ⟨s1, e1, hs1⟩ := readItem_stream s _ _ (by simpa using hs)
              rw [hdisp _ (m' + 1) acc s s1 e1 rfl (by simp [Tok.bytes, ascii_bytes])]
              simp only [hl] at hs1
              have hhead : ∃ t tl, mkToks (endLine line (bodyP f l ++ [eolP])) (posText f (l' :: ls')) = t :: tl ∧
                  isPosKw t := by
                rw [hX]
                exact ⟨_, _, by simp [mkToks, tk]; exact ⟨rfl, rfl⟩, rfl, by simp [Tok.bytes, ascii_bytes, kwPOS]⟩
              obtain ⟨t, tl, htl, htyp⟩ := hhead
              have hs1' : s1.stream = mkToks line (bodyP f l ++ [eolP]) ++ t :: (tl ++ e :: rest) := by
                rw [hs1, htl]; simp
              obtain ⟨s2, e2, hs2⟩ := hsw.runs line s1 _ _ hs1' htyp
              rw [bind_run, e2]
              simp only []
              obtain ⟨s4, e4⟩ := ih3 _ (m' + 1) (acc ++ [normLookup l]) s2 e rest (by simp at hn ⊢; omega)
                (by rw [hs2, htl]; simp) he
              exact ⟨s4, by rw [e4]; simp⟩

theorem roundtrip_pos2_of_items (f : Font) (ls : List Lookup) (hne : ∀ l ∈ ls, l.subtables ≠ [])
    (hitems : ∀ l ∈ ls, PosItem2 f (tokCount (posText f ls) + 3) l) :
    parseBytes f (explainGpos f ls) = .ok (normalize ls) := by
  obtain ⟨hchain, hcanon, hparse⟩ := parse_text_pos2 f _ ls hitems
  have htext := explainGposP_text f ls hne
  obtain ⟨e, he, hlex⟩ := lex_render _ hchain hcanon
  unfold parseBytes parseRunes parseToks explainGpos
  rw [htext]
  have hlex' : lexRunes (decodeUtf8 (renderBytes (posText f ls))) = mkToks 1 (posText f ls) ++ [e] := hlex
  rw [hlex']
  have hlen : (mkToks 1 (posText f ls) ++ [e]).length + 2 = tokCount (posText f ls) + 3 := by
    simp [mkToks_length]
  simp only [hlen]
  obtain ⟨s', hs'⟩ := hparse 1 (tokCount (posText f ls) + 3) []
    { toks := mkToks 1 (posText f ls) ++ [e], backlog := [], last := zeroTok } e []
    (by have := posText_count f ls; omega) (by simp [PS.stream]) he
  simp only [StateT.run]
  rw [hs']
  simp [normalize, normLookup]

/-- GPOS lookups of type 1, and of type 2 with glyph-pair (2.1) and class-pair (2.2) subtables -/
def GposLook2Ok (f : Font) (l : Lookup) : Prop := LookupP1Ok f l ∨ LookupP2Ok f l

/-- descriptions of GPOS 1 and GPOS 2 lookups (both subtable formats), any order and number:
parsing the printed text gives back the lookups (all-zero value records as none) -/
theorem roundtrip_gpos12 (f : Font) (hf : FontOk f) (ls : List Lookup) (h : ∀ l ∈ ls, GposLook2Ok f l) :
    parseBytes f (explainGpos f ls) = .ok (normalize ls) := by
  refine roundtrip_pos2_of_items f ls (fun l hl => by
    rcases h l hl with h1 | h2
    · exact h1.ne
    · exact h2.ne) ?_
  intro l hl
  have hb := body_le_posText f ls l hl
  rcases h l hl with h1 | h2
  · obtain ⟨hc, hfr⟩ := body_of_form4 f 1 (readGpos1 f) (gpos1Sub f) (Gpos1Sub f) (gpos1_form f hf)
      (fun _ => rfl) l h1.typ h1.flags h1.ne h1.subs (tokCount (posText f ls) + 3) (by omega)
    exact ⟨readGpos1 f _, by rw [h1.typ]; exact pos_kw_ok 1 (by decide), by rw [h1.typ]; exact gpos1_dispatch f _, hc, Or.inl hfr⟩
  · exact item2_of_p2 f hf l h2 _ (by omega)

theorem roundtrip_gpos2 (f : Font) (hf : FontOk f) (ls : List Lookup) (h : ∀ l ∈ ls, LookupP2Ok f l) :
    parseBytes f (explainGpos f ls) = .ok (normalize ls) :=
  roundtrip_gpos12 f hf ls (fun l hl => Or.inr (h l hl))

end SfntV.Dsl
