/-
The main loop of the Type 2 interpreter: every step consumes code, so the fuel `code.length + 1`
always suffices (`loop_fuel`); small-step reachability `Reaches` and its connection with `loop`.
-/
import SfntV.Model.T2Interp

set_option linter.unusedSimpArgs false
set_option linter.unusedVariables false

namespace SfntV.T2
open SfntV

/-- the code a step result continues with -/
def Res.code : Res → List Nat
  | .cont _ c => c
  | .call _ rest _ _ => rest
  | .ret _ => []
  | .done _ => []

theorem countCheck_cases (q : Quirks) (sh : Bool) (n m : Nat) (b : Bool) :
    (countCheck q sh n m b = .ok ()) ∨ (∃ e, countCheck q sh n m b = .err e) := by
  unfold countCheck
  split
  · split
    · exact Or.inl rfl
    · exact Or.inr ⟨_, rfl⟩
  · split
    · exact Or.inl rfl
    · exact Or.inr ⟨_, rfl⟩

theorem pathOp_code (q : Quirks) (s : St) (code : List Nat) (m : Nat) (b : Bool) (f : St → St) (r : Res)
    (h : pathOp q s code m b f = .ok r) : r.code = code := by
  unfold pathOp at h
  rcases countCheck_cases q q.shortPathOpIgnored s.stack.length m b with hc | ⟨e, hc⟩
  · rw [hc] at h
    simp only [Outcome.ok.injEq] at h
    subst h
    rfl
  · rw [hc] at h
    cases h


theorem exec_code (q : Quirks) (env : Env) (s : St) (op : Op) (code : List Nat) (r : Res)
    (h : exec q env s op code = .ok r) : r.code.length ≤ code.length := by
  cases op
  case rlineto | hlineto | vlineto | rrcurveto | rcurveline | rlinecurve | hhcurveto | vvcurveto | hvcurveto
     | vhcurveto | flex | flex1 | hflex | hflex1 =>
    simp only [exec] at h
    rw [pathOp_code _ _ _ _ _ _ _ h]
    exact Nat.le_refl _
  all_goals
    simp only [exec] at h
    repeat' split at h
    all_goals first
      | (cases h; done)
      | (simp only [Outcome.ok.injEq] at h; subst h; simp [Res.code])
      | (simp only [Outcome.ok.injEq] at h; subst h; simp only [Res.code, List.length_drop]; omega)


theorem checkMove_ok (x : Outcome Res) (r : Res) (h : checkMove x = .ok r) : x = .ok r := by
  cases x with
  | err e => cases h
  | panic p => cases h
  | ok v =>
    cases v <;> simp only [checkMove] at h
    · split at h
      · cases h
      · exact h
    · split at h
      · cases h
      · exact h
    · exact h
    · exact h

theorem step_code (q : Quirks) (env : Env) (s : St) (b : Nat) (rest : List Nat) (r : Res)
    (h : step q env s (b :: rest) = .ok r) : r.code.length < (b :: rest).length := by
  simp only [step, pushNum] at h
  repeat' split at h
  all_goals first
    | (cases h; done)
    | (simp only [Outcome.ok.injEq] at h; subst h; simp only [Res.code, List.length_cons]; omega)
    | (have h' := exec_code _ _ _ _ _ _ (checkMove_ok _ _ h); simp only [List.length_cons] at h' ⊢; omega)

/-- Fuel justification: the result of the main loop does not depend on the fuel as soon as the fuel
exceeds the length of the code (every iteration consumes at least one byte; after a call the loop
continues with the shorter rest).  `runAt` uses `code.length + 1`. -/
theorem loop_fuel (q : Quirks) (env : Env) (call : St → Bool → Int → Outcome Fin) (n : Nat) :
    ∀ (code : List Nat) (s : St) (f1 f2 : Nat), code.length ≤ n → code.length < f1 → code.length < f2 →
      loop q env call f1 s code = loop q env call f2 s code := by
  induction n with
  | zero =>
    intro code s f1 f2 hn h1 h2
    have : code = [] := List.eq_nil_of_length_eq_zero (by omega)
    subst this
    cases f1 <;> cases f2 <;> simp at h1 h2 <;> simp [loop]
  | succ n ih =>
    intro code s f1 f2 hn h1 h2
    cases f1 with
    | zero => omega
    | succ f1 =>
      cases f2 with
      | zero => omega
      | succ f2 =>
        cases code with
        | nil => simp [loop]
        | cons b rest =>
          simp only [loop]
          cases hst : step q env s (b :: rest) with
          | err e => rfl
          | panic p => rfl
          | ok r =>
            have hlt := step_code q env s b rest r hst
            simp only [List.length_cons] at hlt hn h1 h2
            cases r with
            | cont s' c' =>
              simp only [Res.code] at hlt
              exact ih c' s' f1 f2 (by omega) (by omega) (by omega)
            | call s' rest' g bi =>
              simp only [Res.code] at hlt
              simp only
              cases call s' g bi with
              | err e => rfl
              | panic p => rfl
              | ok fin =>
                cases fin with
                | ret s'' => exact ih rest' s'' f1 f2 (by omega) (by omega) (by omega)
                | done s'' => rfl
            | ret s' => rfl
            | done s' => rfl

/-- finitely many successful interpreter steps lead from (s, c) to (s', c') -/
inductive Reaches (q : Quirks) (env : Env) : St → List Nat → St → List Nat → Prop
  | refl (s : St) (c : List Nat) : Reaches q env s c s c
  | step {s s1 s2 : St} {c c1 c2 : List Nat} : step q env s c = .ok (.cont s1 c1) → c1.length < c.length →
      Reaches q env s1 c1 s2 c2 → Reaches q env s c s2 c2

theorem Reaches.trans {q : Quirks} {env : Env} {s1 s2 s3 : St} {c1 c2 c3 : List Nat}
    (h1 : Reaches q env s1 c1 s2 c2) (h2 : Reaches q env s2 c2 s3 c3) : Reaches q env s1 c1 s3 c3 := by
  induction h1 with
  | refl s c => exact h2
  | step hs hl _ ih => exact Reaches.step hs hl (ih h2)

theorem Reaches.single {q : Quirks} {env : Env} {s s1 : St} {c c1 : List Nat}
    (h : T2.step q env s c = .ok (.cont s1 c1)) (hl : c1.length < c.length) : Reaches q env s c s1 c1 :=
  Reaches.step h hl (Reaches.refl _ _)

/-- the main loop follows a chain of successful steps -/
theorem loop_of_reaches (q : Quirks) (env : Env) (call : St → Bool → Int → Outcome Fin)
    {s s' : St} {c c' : List Nat} (h : Reaches q env s c s' c') :
    ∀ f, c.length < f → ∃ f', c'.length < f' ∧ loop q env call f s c = loop q env call f' s' c' := by
  induction h with
  | refl s c => intro f hf; exact ⟨f, hf, rfl⟩
  | @step s s1 s2 c c1 c2 hs hl _ ih =>
    intro f hf
    cases f with
    | zero => omega
    | succ f =>
      obtain ⟨f', hf', heq⟩ := ih f (by omega)
      refine ⟨f', hf', ?_⟩
      cases c with
      | nil => simp at hl
      | cons b rest =>
        simp only [loop, hs]
        exact heq

/-- if a chain of successful steps leads to `endchar`, the interpreter returns the glyph of the state
`endchar` produces -/
theorem interp_of_reaches (q : Quirks) (env : Env) (code : List Nat) (s' s'' : St) (c' : List Nat)
    (h : Reaches q env (St.init env) code s' c') (hend : step q env s' c' = .ok (.done s'')) :
    interp q env code = .ok s''.glyph := by
  unfold interp interpSt
  have hr : ∀ d, runAt q env d (St.init env) code = .ok (.done s'') := by
    intro d
    have key : ∀ call, loop q env call (code.length + 1) (St.init env) code = .ok (.done s'') := by
      intro call
      obtain ⟨f', hf', heq⟩ := loop_of_reaches q env call h (code.length + 1) (by omega)
      rw [heq]
      cases f' with
      | zero => omega
      | succ f' =>
        cases c' with
        | nil => simp [step] at hend
        | cons b rest => simp [loop, hend]
    cases d with
    | zero => exact key _
    | succ d => exact key _
  rw [hr]

end SfntV.T2
