/-
Helper lemmas for C15 (kern tables).  Property theorems are in Props/C15.lean.
-/
import SfntV.Model.LayoutKern

namespace SfntV.Layout

/-! ### the Go map -/

theorem mget_mset_same (m : KMap) (k : Pair) (v : Int) : mget (mset m k v) k = v := by
  simp [mget, mset]

theorem find_filter_ne (m : KMap) (k k' : Pair) (h : k' ≠ k) :
    (m.filter (fun e => !(e.1 == k))).find? (fun e => e.1 == k') = m.find? (fun e => e.1 == k') := by
  induction m with
  | nil => rfl
  | cons e r ih =>
    by_cases hk : e.1 = k
    · have h1 : (e.1 == k) = true := by simpa using hk
      have h2 : (e.1 == k') = false := by
        have : e.1 ≠ k' := by rw [hk]; exact fun h' => h h'.symm
        simpa using this
      rw [List.filter_cons, List.find?_cons]
      simp only [h1, h2, Bool.not_true, Bool.false_eq_true, if_false]
      exact ih
    · have h1 : (e.1 == k) = false := by simpa using hk
      rw [List.filter_cons]
      simp only [h1, Bool.not_false, if_true, List.find?_cons]
      rw [ih]

theorem mget_mset_other (m : KMap) (k k' : Pair) (v : Int) (h : k' ≠ k) :
    mget (mset m k v) k' = mget m k' := by
  have h2 : (k == k') = false := by simpa using fun h' : k = k' => h h'.symm
  unfold mget mset
  rw [List.find?_cons]
  simp only [h2]
  rw [find_filter_ne m k k' h]

/-- the value written by one pair record -/
def stepVal (isMin isOver : Bool) (a v : Int) : Int :=
  if isMin then (if a < v then v else a) else if isOver then v else wrap16 (a + v)

theorem mget_pairStep (mn ov : Bool) (m : KMap) (k k' : Pair) (v : Int) :
    mget (pairStep mn ov m k v) k' = if k' = k then stepVal mn ov (mget m k) v else mget m k' := by
  unfold pairStep stepVal
  by_cases hk : k' = k
  · subst hk
    simp only [if_true]
    cases mn
    · cases ov <;> simp [mget_mset_same]
    · simp only [if_true]
      split
      · exact mget_mset_same _ _ _
      · rfl
  · simp only [hk, if_false]
    cases mn
    · cases ov <;> simp [mget_mset_other _ _ _ _ hk]
    · simp only [if_true]
      split
      · exact mget_mset_other _ _ _ _ hk
      · rfl

theorem mget_foldPairs (mn ov : Bool) (ps : List (Pair × Int)) (hnd : (ps.map (·.1)).Nodup) :
    ∀ (m : KMap) (k : Pair), mget (foldPairs mn ov m ps) k =
      match ps.find? (fun e => e.1 == k) with
      | none => mget m k
      | some e => stepVal mn ov (mget m k) e.2 := by
  induction ps with
  | nil => intro m k; rfl
  | cons e r ih =>
    intro m k
    rw [List.map_cons, List.nodup_cons] at hnd
    have hfold : foldPairs mn ov m (e :: r) = foldPairs mn ov (pairStep mn ov m e.1 e.2) r := rfl
    rw [hfold, ih hnd.2, List.find?_cons]
    by_cases hk : e.1 = k
    · have h1 : (e.1 == k) = true := by simpa using hk
      have hnone : r.find? (fun e => e.1 == k) = none := by
        rw [List.find?_eq_none]
        intro x hx hxk
        have : x.1 = k := by simpa using hxk
        exact hnd.1 (by rw [hk, ← this]; exact List.mem_map_of_mem hx)
      simp only [h1, hnone]
      rw [mget_pairStep, hk]; simp
    · have h1 : (e.1 == k) = false := by simpa using hk
      simp only [h1]
      have hne : k ≠ e.1 := fun h => hk h.symm
      have : mget (pairStep mn ov m e.1 e.2) k = mget m k := by
        rw [mget_pairStep, if_neg hne]
      rw [this]

/-! ### structured reader = specification -/

theorem wrap16_id (x : Int) (h1 : -32768 ≤ x) (h2 : x ≤ 32767) : wrap16 x = x := by
  unfold wrap16; omega

def I16 (x : Int) : Prop := -32768 ≤ x ∧ x ≤ 32767

theorem mget_subStep (m : KMap) (s : KSub) (k : Pair) (hnd : (s.pairs.map (·.1)).Nodup)
    (hno : I16 (specStep k (mget m k) s)) : mget (subStep m s) k = specStep k (mget m k) s := by
  unfold subStep specStep at *
  cases ha : s.applies
  · simp
  · simp only [if_true] at *
    simp only [ha, if_true] at hno
    rw [mget_foldPairs _ _ _ hnd]
    unfold KSub.value at *
    cases hf : s.pairs.find? (fun e => e.1 == k) with
    | none => simp
    | some e =>
      simp only [hf, Option.map_some] at hno ⊢
      unfold stepVal
      cases hm : s.minimum
      · cases ho : s.override
        · simp only [hm, ho, Bool.false_eq_true, if_false] at hno ⊢
          exact wrap16_id _ hno.1 hno.2
        · simp
      · simp

theorem mget_foldSubs (subs : List KSub) (k : Pair) :
    ∀ (m : KMap), (∀ s ∈ subs, (s.pairs.map (·.1)).Nodup) →
      (∀ i, i ≤ subs.length → I16 ((subs.take i).foldl (specStep k) (mget m k))) →
      mget (foldSubs m subs) k = subs.foldl (specStep k) (mget m k) := by
  induction subs with
  | nil => intro m _ _; rfl
  | cons s r ih =>
    intro m hnd hno
    have h1 : mget (subStep m s) k = specStep k (mget m k) s :=
      mget_subStep m s k (hnd s (List.mem_cons_self)) (by
        have := hno 1 (by simp)
        simpa using this)
    have hfold : foldSubs m (s :: r) = foldSubs (subStep m s) r := rfl
    rw [hfold, ih (subStep m s) (fun x hx => hnd x (List.mem_cons_of_mem _ hx)), h1]
    · rfl
    · intro i hi
      have := hno (i + 1) (by simp; omega)
      rw [h1]
      simpa using this

/-! ### bytes -/

theorem byteAt_append_right (pre X : Bytes) (i : Nat) : byteAt (pre ++ X) (pre.length + i) = byteAt X i := by
  unfold byteAt
  rw [List.getElem?_append_right (by omega)]
  congr 3; omega

theorem byteAt_append_left (X Y : Bytes) (i : Nat) (h : i < X.length) : byteAt (X ++ Y) i = byteAt X i := by
  unfold byteAt
  rw [List.getElem?_append_left h]

theorem u16At_append_right (pre X : Bytes) (i : Nat) : u16At (pre ++ X) (pre.length + i) = u16At X i := by
  unfold u16At
  rw [byteAt_append_right, Nat.add_assoc, byteAt_append_right]

theorem u16At_append_left (X Y : Bytes) (i : Nat) (h : i + 1 < X.length) : u16At (X ++ Y) i = u16At X i := by
  unfold u16At
  rw [byteAt_append_left _ _ _ (by omega), byteAt_append_left _ _ _ h]

theorem u16At_be16 (n : Nat) (h : n < 65536) (T : Bytes) : u16At (be16 n ++ T) 0 = n := by
  simp only [u16At, byteAt, be16, List.cons_append, List.nil_append, List.getElem?_cons_zero,
    List.getElem?_cons_succ, Option.getD_some, UInt8.toNat_ofNat']
  omega

theorem length_encPair (e : Pair × Int) : (encPair e).length = 6 := rfl

theorem length_flatMap_encPair (ps : List (Pair × Int)) : (ps.flatMap encPair).length = 6 * ps.length := by
  induction ps with
  | nil => rfl
  | cons e r ih => simp only [List.flatMap_cons, List.length_append, ih, length_encPair, List.length_cons]; omega

theorem toI16_enc (v : Int) (h1 : -32768 ≤ v) (h2 : v ≤ 32767) : toI16 (v % 65536).toNat = v := by
  unfold toI16
  have : (0 : Int) ≤ v % 65536 := Int.emod_nonneg _ (by decide)
  have h3 : v % 65536 < 65536 := Int.emod_lt_of_pos _ (by decide)
  have hc : (((v % 65536).toNat : Nat) : Int) = v % 65536 := Int.toNat_of_nonneg this
  split
  · rename_i h; omega
  · rename_i h; omega

theorem encPair_fields (e : Pair × Int) (T : Bytes) (hl : e.1.1 < 65536) (hr : e.1.2 < 65536)
    (h1 : -32768 ≤ e.2) (h2 : e.2 ≤ 32767) :
    u16At (encPair e ++ T) 0 = e.1.1 ∧ u16At (encPair e ++ T) 2 = e.1.2 ∧
    toI16 (u16At (encPair e ++ T) 4) = e.2 := by
  have hv : (e.2 % 65536).toNat < 65536 := by
    have : (0 : Int) ≤ e.2 % 65536 := Int.emod_nonneg _ (by decide)
    have h3 : e.2 % 65536 < 65536 := Int.emod_lt_of_pos _ (by decide)
    omega
  refine ⟨?_, ?_, ?_⟩
  · unfold encPair; rw [List.append_assoc, List.append_assoc]; exact u16At_be16 _ hl _
  · have : encPair e ++ T = be16 e.1.1 ++ (be16 e.1.2 ++ (be16 (e.2 % 65536).toNat ++ T)) := by
      unfold encPair; simp only [List.append_assoc]
    rw [this]
    have := u16At_append_right (be16 e.1.1) (be16 e.1.2 ++ (be16 (e.2 % 65536).toNat ++ T)) 0
    simp only [length_be16', Nat.add_zero] at this
    rw [this]; exact u16At_be16 _ hr _
  · have : encPair e ++ T = (be16 e.1.1 ++ be16 e.1.2) ++ (be16 (e.2 % 65536).toNat ++ T) := by
      unfold encPair; simp only [List.append_assoc]
    rw [this]
    have := u16At_append_right (be16 e.1.1 ++ be16 e.1.2) (be16 (e.2 % 65536).toNat ++ T) 0
    simp only [List.length_append, length_be16', Nat.add_zero] at this
    rw [this, u16At_be16 _ hv]; exact toI16_enc _ h1 h2
where length_be16' (n : Nat) : (be16 n).length = 2 := rfl

theorem readPairs_enc (mn ov : Bool) (ps : List (Pair × Int))
    (hg : ∀ e ∈ ps, e.1.1 < 65536 ∧ e.1.2 < 65536) (hv : ∀ e ∈ ps, -32768 ≤ e.2 ∧ e.2 ≤ 32767) :
    ∀ (pre post : Bytes) (m : KMap),
      readPairs (pre ++ (ps.flatMap encPair ++ post)) mn ov ps.length pre.length m =
        .ok (foldPairs mn ov m ps) := by
  induction ps with
  | nil => intro pre post m; rfl
  | cons e r ih =>
    intro pre post m
    have hb : pre ++ ((e :: r).flatMap encPair ++ post) = pre ++ (encPair e ++ (r.flatMap encPair ++ post)) := by
      simp only [List.flatMap_cons, List.append_assoc]
    have hlen : pre.length + 6 ≤ (pre ++ (encPair e ++ (r.flatMap encPair ++ post))).length := by
      simp only [List.length_append, length_encPair]; omega
    obtain ⟨f1, f2, f3⟩ := encPair_fields e (r.flatMap encPair ++ post) (hg e List.mem_cons_self).1
      (hg e List.mem_cons_self).2 (hv e List.mem_cons_self).1 (hv e List.mem_cons_self).2
    rw [hb]
    unfold readPairs
    simp only [List.length_cons]
    rw [if_pos hlen]
    have g1 := u16At_append_right pre (encPair e ++ (r.flatMap encPair ++ post)) 0
    have g2 := u16At_append_right pre (encPair e ++ (r.flatMap encPair ++ post)) 2
    have g3 := u16At_append_right pre (encPair e ++ (r.flatMap encPair ++ post)) 4
    rw [Nat.add_zero] at g1
    simp only [g1, g2, g3, f1, f2, f3]
    have := ih (fun x hx => hg x (List.mem_cons_of_mem _ hx)) (fun x hx => hv x (List.mem_cons_of_mem _ hx))
      (pre ++ encPair e) post (pairStep mn ov m e.1 e.2)
    simp only [List.length_append, length_encPair, List.append_assoc] at this
    exact this

/-! ### subtable headers -/

def flagsNat (h mn cs ov : Bool) (r : Nat) : Nat :=
  (if h then 1 else 0) + (if mn then 2 else 0) + (if cs then 4 else 0) + (if ov then 8 else 0) + 16 * r

theorem flags_dec : ∀ (r : Fin 16) (h mn cs ov : Bool),
    flagsNat h mn cs ov r.val < 256 ∧
    ((flagsNat h mn cs ov r.val &&& Gen.kernMaskApplicable ≠ 1) ↔ ¬(h = true ∧ cs = false ∧ r.val = 0)) ∧
    decide (flagsNat h mn cs ov r.val &&& Gen.kernMaskMinimum ≠ 0) = mn ∧
    decide (flagsNat h mn cs ov r.val &&& Gen.kernMaskOverride ≠ 0) = ov := by decide

theorem flags_facts (s : KSub) (hr : s.reserved < 16) :
    s.flags < 256 ∧
    ((s.flags &&& Gen.kernMaskApplicable ≠ 1) ↔ ¬(s.horizontal = true ∧ s.crossStream = false ∧ s.reserved = 0)) ∧
    decide (s.flags &&& Gen.kernMaskMinimum ≠ 0) = s.minimum ∧
    decide (s.flags &&& Gen.kernMaskOverride ≠ 0) = s.override :=
  flags_dec ⟨s.reserved, hr⟩ s.horizontal s.minimum s.crossStream s.override

theorem applies_iff (s : KSub) (hr : s.reserved < 16) :
    (s.version ≠ 0 ∨ s.format ≠ 0 ∨ s.flags &&& Gen.kernMaskApplicable ≠ 1) ↔ s.applies = false := by
  rw [(flags_facts s hr).2.1]
  unfold KSub.applies
  cases s.horizontal <;> cases s.crossStream <;> simp <;> omega

def subHdr (s : KSub) : Bytes :=
  be16 s.version ++ be16 (14 + 6 * s.pairs.length) ++ [UInt8.ofNat s.format, UInt8.ofNat s.flags] ++
  be16 s.pairs.length ++ be16 s.search.1 ++ be16 s.search.2.1 ++ be16 s.search.2.2

theorem encSub_eq (s : KSub) : encSub s = subHdr s ++ s.pairs.flatMap encPair := rfl

theorem length_subHdr (s : KSub) : (subHdr s).length = 14 := rfl

theorem length_encSub (s : KSub) : (encSub s).length = 14 + 6 * s.pairs.length := by
  rw [encSub_eq, List.length_append, length_subHdr, length_flatMap_encPair]

theorem u16At_at (A : Bytes) (n : Nat) (hn : n < 65536) (T : Bytes) (i : Nat) (hi : i = A.length) :
    u16At (A ++ (be16 n ++ T)) i = n := by
  subst hi
  have := u16At_append_right A (be16 n ++ T) 0
  rw [Nat.add_zero] at this
  rw [this]; exact u16At_be16 n hn T

theorem byteAt_at (A : Bytes) (x : UInt8) (T : Bytes) (i : Nat) (hi : i = A.length) :
    byteAt (A ++ (x :: T)) i = x.toNat := by
  subst hi
  have := byteAt_append_right A (x :: T) 0
  rw [Nat.add_zero] at this
  rw [this]; simp [byteAt]

theorem subHdr_fields (s : KSub) (h : s.WF) (T : Bytes) :
    u16At (subHdr s ++ T) 0 = s.version ∧ u16At (subHdr s ++ T) 2 = 14 + 6 * s.pairs.length ∧
    byteAt (subHdr s ++ T) 4 = s.format ∧ byteAt (subHdr s ++ T) 5 = s.flags ∧
    u16At (subHdr s ++ T) 6 = s.pairs.length := by
  have hf := (flags_facts s h.reserved_lt).1
  have hlen := h.length_lt
  refine ⟨?_, ?_, ?_, ?_, ?_⟩
  · unfold subHdr; simp only [List.append_assoc]; exact u16At_be16 _ h.version_lt _
  · unfold subHdr; simp only [List.append_assoc]
    exact u16At_at (be16 s.version) _ hlen _ 2 rfl
  · have : subHdr s ++ T = (be16 s.version ++ be16 (14 + 6 * s.pairs.length)) ++
        (UInt8.ofNat s.format :: (UInt8.ofNat s.flags :: (be16 s.pairs.length ++ be16 s.search.1 ++
          be16 s.search.2.1 ++ be16 s.search.2.2 ++ T))) := by
      unfold subHdr; simp only [List.append_assoc, List.cons_append, List.nil_append]
    rw [this, byteAt_at _ _ _ 4 rfl, UInt8.toNat_ofNat']
    have := h.format_lt; omega
  · have : subHdr s ++ T = (be16 s.version ++ be16 (14 + 6 * s.pairs.length) ++ [UInt8.ofNat s.format]) ++
        (UInt8.ofNat s.flags :: (be16 s.pairs.length ++ be16 s.search.1 ++
          be16 s.search.2.1 ++ be16 s.search.2.2 ++ T)) := by
      unfold subHdr; simp only [List.append_assoc, List.cons_append, List.nil_append]
    rw [this, byteAt_at _ _ _ 5 rfl, UInt8.toNat_ofNat']
    omega
  · have : subHdr s ++ T = (be16 s.version ++ be16 (14 + 6 * s.pairs.length) ++
        [UInt8.ofNat s.format, UInt8.ofNat s.flags]) ++
        (be16 s.pairs.length ++ (be16 s.search.1 ++ be16 s.search.2.1 ++ be16 s.search.2.2 ++ T)) := by
      unfold subHdr; simp only [List.append_assoc, List.cons_append, List.nil_append]
    rw [this]
    exact u16At_at _ _ (by omega) _ 6 rfl

theorem readSubs_enc : ∀ (rest : List KSub) (pre : Bytes) (tp : Nat) (m : KMap),
    (∀ s ∈ rest, s.WF) → 6 * tp ≤ pre.length →
    readSubs (pre ++ rest.flatMap encSub) rest.length pre.length tp m = .ok (foldSubs m rest) := by
  intro rest
  induction rest with
  | nil => intro pre tp m _ _; rfl
  | cons s r ih =>
    intro pre tp m hwf htp
    have hs := hwf s List.mem_cons_self
    have hr : ∀ x ∈ r, x.WF := fun x hx => hwf x (List.mem_cons_of_mem _ hx)
    let Y := r.flatMap encSub
    let P := s.pairs.flatMap encPair
    have hb : pre ++ (s :: r).flatMap encSub = pre ++ (subHdr s ++ (P ++ Y)) := by
      simp only [List.flatMap_cons, encSub_eq, List.append_assoc, P, Y]
    have hblen : (pre ++ (subHdr s ++ (P ++ Y))).length = pre.length + 14 + 6 * s.pairs.length + Y.length := by
      simp only [List.length_append, length_subHdr, length_flatMap_encPair, P]; omega
    obtain ⟨f0, f2, f4, f5, f6⟩ := subHdr_fields s hs (P ++ Y)
    have g0 := u16At_append_right pre (subHdr s ++ (P ++ Y)) 0
    have g2 := u16At_append_right pre (subHdr s ++ (P ++ Y)) 2
    have g4 := byteAt_append_right pre (subHdr s ++ (P ++ Y)) 4
    have g5 := byteAt_append_right pre (subHdr s ++ (P ++ Y)) 5
    have g6 := u16At_append_right pre (subHdr s ++ (P ++ Y)) 6
    rw [Nat.add_zero, f0] at g0
    rw [f2] at g2; rw [f4] at g4; rw [f5] at g5; rw [f6] at g6
    have hmin : Gen.kernMinLength = 14 := rfl
    have hfold : foldSubs m (s :: r) = foldSubs (subStep m s) r := rfl
    rw [hb, hfold]
    unfold readSubs
    simp only [List.length_cons]
    rw [if_pos (by rw [hblen]; omega)]
    simp only [g0, g2, g4, g5, g6, hmin]
    rw [if_neg (by omega)]
    have hnext : pre ++ (subHdr s ++ (P ++ Y)) = (pre ++ encSub s) ++ r.flatMap encSub := by
      simp only [encSub_eq, List.append_assoc, P, Y]
    have hnlen : (pre ++ encSub s).length = pre.length + (14 + 6 * s.pairs.length) := by
      rw [List.length_append, length_encSub]
    by_cases ha : s.applies = false
    · rw [if_pos ((applies_iff s hs.reserved_lt).mpr ha)]
      have := ih (pre ++ encSub s) tp m hr (by rw [hnlen]; omega)
      rw [hnlen, ← hnext] at this
      rw [this]
      unfold subStep; simp [ha]
    · rw [if_neg (fun h => ha ((applies_iff s hs.reserved_lt).mp h))]
      rw [if_pos (by rw [hblen]; omega)]
      rw [if_neg (by rw [hblen]; omega)]
      obtain ⟨_, _, hmn, hov⟩ := flags_facts s hs.reserved_lt
      rw [hmn, hov]
      have hp := readPairs_enc s.minimum s.override s.pairs hs.glyphs_lt hs.values_i16 (pre ++ subHdr s) Y m
      have hpl : (pre ++ subHdr s).length = pre.length + 14 := by rw [List.length_append, length_subHdr]
      rw [hpl] at hp
      have hpb : pre ++ subHdr s ++ (List.flatMap encPair s.pairs ++ Y) = pre ++ (subHdr s ++ (P ++ Y)) := by
        simp only [List.append_assoc, P]
      rw [hpb] at hp
      rw [hp]
      simp only
      have := ih (pre ++ encSub s) (tp + s.pairs.length) (foldPairs s.minimum s.override m s.pairs) hr
        (by rw [hnlen]; omega)
      rw [hnlen, ← hnext] at this
      rw [this]
      have ha' : s.applies = true := by cases h : s.applies; exact absurd h ha; rfl
      unfold subStep; simp [ha']

theorem kernRead_enc (subs : List KSub) (hwf : ∀ s ∈ subs, s.WF) (hn : subs.length < 65536) :
    kernRead (encKern subs) = .ok (foldSubs [] subs) := by
  have hb : encKern subs = (be16 0 ++ be16 subs.length) ++ subs.flatMap encSub := rfl
  have hl : (encKern subs).length = 4 + (subs.flatMap encSub).length := by
    rw [hb, List.length_append]; rfl
  have h0 : u16At (encKern subs) 0 = 0 := by
    rw [hb, List.append_assoc]; exact u16At_be16 0 (by decide) _
  have h2 : u16At (encKern subs) 2 = subs.length := by
    rw [hb, List.append_assoc]; exact u16At_at (be16 0) _ hn _ 2 rfl
  unfold kernRead
  rw [if_pos (by omega), h0, if_neg (by simp), if_pos (by omega), h2]
  have := readSubs_enc subs (be16 0 ++ be16 subs.length) 0 [] hwf (by simp)
  rw [← hb] at this
  exact this

end SfntV.Layout
