/-
Soundness of the hhcurveto edges (C04).
-/
import SfntV.Proofs.T2Edges

set_option linter.unusedSimpArgs false
set_option linter.unusedVariables false

namespace SfntV.T2Enc
open SfntV SfntV.T2 SfntV.Spec.T2

/-- curves after the first one of an hhcurveto: start and end tangent horizontal -/
inductive HHTail : List Seg → List EncNum → Prop
  | nil : HHTail [] []
  | cons (a0 a1 a2 a3 a4 a5 : EncNum) (t : List Seg) (as : List EncNum) : a1.val = 0 → a5.val = 0 →
      HHTail t as → HHTail (.curve a0 a1 a2 a3 a4 a5 :: t) (a0 :: a2 :: a3 :: a4 :: as)

theorem hhLoop_tail (q : Quirks) (s : St) (segs : List Seg) (as : List EncNum) (h : HHTail segs as) :
    hhLoop q s 0 (vals as) = drawSegs q s segs := by
  induction h generalizing s with
  | nil => simp [vals, hhLoop, drawSegs]
  | cons a0 a1 a2 a3 a4 a5 t as h1 h5 _ ih =>
    simp only [vals, List.map_cons, hhLoop, drawSegs_cons, drawSeg, h1, h5]
    exact ih _

theorem HHTail.snoc {t : List Seg} {as : List EncNum} (h : HHTail t as) (a0 a1 a2 a3 a4 a5 : EncNum)
    (h1 : a1.val = 0) (h5 : a5.val = 0) :
    HHTail (t ++ [.curve a0 a1 a2 a3 a4 a5]) (as ++ [a0, a2, a3, a4]) := by
  induction h with
  | nil => exact HHTail.cons _ _ _ _ _ _ _ _ h1 h5 HHTail.nil
  | cons b0 b1 b2 b3 b4 b5 t as g1 g5 _ ih => exact HHTail.cons _ _ _ _ _ _ _ _ g1 g5 ih

theorem HHTail.len {t : List Seg} {as : List EncNum} (h : HHTail t as) : as.length = 4 * t.length := by
  induction h with
  | nil => rfl
  | cons => simp [*]; omega

theorem HHTail.argsFrom {t : List Seg} {as : List EncNum} (h : HHTail t as) :
    ∀ a ∈ as, ∃ g ∈ t, a ∈ g.args := by
  induction h with
  | nil => simp
  | cons b0 b1 b2 b3 b4 b5 t as g1 g5 _ ih =>
    intro a ha
    simp only [List.mem_cons] at ha
    rcases ha with h | h | h | h | h
    · exact ⟨_, List.mem_cons_self, by simp [Seg.args, h]⟩
    · exact ⟨_, List.mem_cons_self, by simp [Seg.args, h]⟩
    · exact ⟨_, List.mem_cons_self, by simp [Seg.args, h]⟩
    · exact ⟨_, List.mem_cons_self, by simp [Seg.args, h]⟩
    · obtain ⟨g, hg, hag⟩ := ih a h
      exact ⟨g, List.mem_cons_of_mem _ hg, hag⟩

/-- operands of an hhcurveto covering `segs` -/
def HHRel (segs : List Seg) (args : List EncNum) : Prop :=
  ∃ a0 a1 a2 a3 a4 a5 t lead as, segs = .curve a0 a1 a2 a3 a4 a5 :: t ∧ args = lead ++ [a0, a2, a3, a4] ++ as ∧
    HHTail t as ∧ a5.val = 0 ∧ (lead = [a1] ∨ (lead = [] ∧ a1.val = 0))

theorem sound_hh (frm : Nat) (cmds : List Seg) (n : Nat) (args : List EncNum) (hn0 : 0 < n) (hn : n ≤ cmds.length)
    (hr : HHRel (cmds.take n) args) (h48 : args.length ≤ 48) :
    EdgeSound frm cmds ⟨args, .hhcurveto, frm + n⟩ := by
  obtain ⟨a0, a1, a2, a3, a4, a5, t, lead, as, hsegs, hargs, htail, h5, hlead⟩ := hr
  have hlen := htail.len
  have htl : (cmds.take n).length = n := by simp; omega
  have ht : t.length + 1 = n := by rw [← htl, hsegs]; simp
  refine ⟨by simp; omega, by simp; omega, h48, ?_, rfl, ?_, ?_⟩
  · rcases hlead with rfl | ⟨rfl, _⟩ <;> simp [legalCount, hargs, hlen] <;> omega
  · intro a ha
    rw [hargs] at ha
    have hc0 : Seg.curve a0 a1 a2 a3 a4 a5 ∈ cmds := by
      have : Seg.curve a0 a1 a2 a3 a4 a5 ∈ cmds.take n := by rw [hsegs]; exact List.mem_cons_self
      exact List.mem_of_mem_take this
    rcases List.mem_append.mp ha with h | h
    · rcases List.mem_append.mp h with h | h
      · rcases hlead with rfl | ⟨rfl, _⟩
        · exact ⟨_, hc0, by simp at h; simp [Seg.args, h]⟩
        · simp at h
      · simp only [List.mem_cons, List.not_mem_nil, or_false] at h
        exact ⟨_, hc0, by rcases h with h | h | h | h <;> simp [Seg.args, h]⟩
    · obtain ⟨g, hg, hag⟩ := htail.argsFrom a h
      have : g ∈ cmds.take n := by rw [hsegs]; exact List.mem_cons_of_mem _ hg
      exact ⟨g, List.mem_of_mem_take this, hag⟩
  · intro env s code hs
    simp only at hs
    have e : frm + n - frm = n := by omega
    simp only [T2.exec]
    rcases hlead with rfl | ⟨rfl, h1⟩
    · have hsl : s.stack.length = 4 * t.length + 5 := by rw [hs, vals_length, hargs]; simp [hlen]
      rw [pathOp_ok s code _ _ _ (by omega) (by simp; omega)]
      have hne : (s.stack.length % 4 != 0) = true := by simp; omega
      simp only [hne, if_true]
      rw [hs, hargs, e, hsegs]
      simp only [vals, List.cons_append, List.nil_append, List.map_cons, List.map_append, hhLoop, drawSegs_cons, drawSeg, h5]
      have := hhLoop_tail strict (rCurveTo strict s a0.val a1.val a2.val a3.val a4.val 0) t as htail
      simp only [vals] at this
      rw [this]
    · have hsl : s.stack.length = 4 * t.length + 4 := by rw [hs, vals_length, hargs]; simp [hlen]
      rw [pathOp_ok s code _ _ _ (by omega) (by simp; omega)]
      have hne : (s.stack.length % 4 != 0) = false := by simp; omega
      simp only [hne, Bool.false_eq_true, if_false]
      rw [hs, hargs, e, hsegs]
      simp only [vals, List.cons_append, List.nil_append, List.map_cons, List.map_append, hhLoop, drawSegs_cons, drawSeg, h5, h1]
      have := hhLoop_tail strict (rCurveTo strict s a0.val 0 a2.val a3.val a4.val 0) t as htail
      simp only [vals] at this
      rw [this]


theorem hhEdges_spec (frm : Nat) (rest pre : List Seg) (code : List EncNum)
    (hinv : (pre = [] ∧ code = []) ∨ HHRel pre code) :
    ∀ e ∈ hhvvEdges frm 1 .hhcurveto rest code pre.length,
      ∃ n, 0 < n ∧ n ≤ (pre ++ rest).length ∧ e = ⟨e.args, .hhcurveto, frm + n⟩ ∧
        HHRel ((pre ++ rest).take n) e.args ∧ e.args.length ≤ 48 := by
  induction rest generalizing pre code with
  | nil => simp [hhvvEdges]
  | cons g t ih =>
    cases g with
    | line dx dy => simp [hhvvEdges]
    | curve a0 a1 a2 a3 a4 a5 =>
      simp only [hhvvEdges, Seg.arg, Seg.args, List.getD_cons_succ, List.getD_cons_zero]
      split
      · rename_i hlen4
        rw [maxStack_48] at hlen4
        split
        · simp
        · rename_i hz5
          have h5 : a5.val = 0 := isZero_val (by simpa using hz5)
          -- the lead operand
          have key : ∀ (lead : List EncNum), (lead = [a1] ∧ pre = [] ∧ code.length + 5 ≤ 48) ∨ (lead = [] ∧ a1.val = 0) →
              ∀ e ∈ (⟨code ++ lead ++ [a0, a2, a3, a4], .hhcurveto, frm + pre.length + 1⟩ : Edge) ::
                  hhvvEdges frm 1 .hhcurveto t (code ++ lead ++ [a0, a2, a3, a4]) (pre.length + 1),
                ∃ n, 0 < n ∧ n ≤ (pre ++ Seg.curve a0 a1 a2 a3 a4 a5 :: t).length ∧ e = ⟨e.args, .hhcurveto, frm + n⟩ ∧
                  HHRel ((pre ++ Seg.curve a0 a1 a2 a3 a4 a5 :: t).take n) e.args ∧ e.args.length ≤ 48 := by
            intro lead hl e he
            have hc : pre ++ Seg.curve a0 a1 a2 a3 a4 a5 :: t = (pre ++ [Seg.curve a0 a1 a2 a3 a4 a5]) ++ t := by simp
            have hpos : pre.length + 1 = (pre ++ [Seg.curve a0 a1 a2 a3 a4 a5]).length := by simp
            have hrel : HHRel (pre ++ [Seg.curve a0 a1 a2 a3 a4 a5]) (code ++ lead ++ [a0, a2, a3, a4]) := by
              rcases hinv with ⟨rfl, rfl⟩ | ⟨b0, b1, b2, b3, b4, b5, t0, lead0, as0, hsegs, hargs, htail, g5, hlead0⟩
              · refine ⟨a0, a1, a2, a3, a4, a5, [], lead, [], by simp, by simp, HHTail.nil, h5, ?_⟩
                rcases hl with ⟨rfl, _, _⟩ | ⟨rfl, h1⟩
                · exact Or.inl rfl
                · exact Or.inr ⟨rfl, h1⟩
              · rcases hl with ⟨_, hpre, _⟩ | ⟨rfl, h1⟩
                · rw [hpre] at hsegs; cases hsegs
                · refine ⟨b0, b1, b2, b3, b4, b5, t0 ++ [Seg.curve a0 a1 a2 a3 a4 a5], lead0, as0 ++ [a0, a2, a3, a4],
                    by rw [hsegs]; simp, by rw [hargs]; simp, htail.snoc _ _ _ _ _ _ h1 h5, g5, hlead0⟩
            rcases List.mem_cons.mp he with rfl | h
            · refine ⟨pre.length + 1, by omega, by simp, rfl, ?_, ?_⟩
              · simp only
                rw [hc, hpos, take_append_len]
                exact hrel
              · rcases hl with ⟨rfl, _, h5'⟩ | ⟨rfl, _⟩ <;> simp <;> omega
            · rw [hpos] at h
              obtain ⟨n, h1, h2, h3, h4, h6⟩ := ih (pre ++ [Seg.curve a0 a1 a2 a3 a4 a5]) _ (Or.inr hrel) e h
              exact ⟨n, h1, by rw [hc]; exact h2, h3, by rw [hc]; exact h4, h6⟩
          by_cases hz1 : (!a1.isZero) = true
          · by_cases hpos0 : (pre.length == 0 && decide (code.length + 5 ≤ maxStack)) = true
            · simp only [hz1, hpos0, if_true]
              simp only [Bool.and_eq_true, beq_iff_eq, decide_eq_true_eq] at hpos0
              have hpre : pre = [] := List.eq_nil_of_length_eq_zero hpos0.1
              exact key [a1] (Or.inl ⟨rfl, hpre, by rw [maxStack_48] at hpos0; exact hpos0.2⟩)
            · simp only [hz1, hpos0, if_true, if_false]
              simp
          · simp only [hz1, if_false]
            have h1 : a1.val = 0 := isZero_val (by simpa using hz1)
            exact key [] (Or.inr ⟨rfl, h1⟩)
      · simp

/-- every hhcurveto edge proposed by `appendEdges` is sound -/
theorem hhEdges_sound (frm : Nat) (cmds : List Seg) :
    ∀ e ∈ hhvvEdges frm 1 .hhcurveto cmds [] 0, EdgeSound frm cmds e := by
  intro e he
  obtain ⟨n, h1, h2, h3, h4, h5⟩ := hhEdges_spec frm cmds [] [] (Or.inl ⟨rfl, rfl⟩) e he
  rw [h3]
  exact sound_hh frm cmds n e.args h1 (by simpa using h2) (by simpa using h4) h5

end SfntV.T2Enc
