/-
C01, byte level, OpenType/CFF: the WIDTH part of `CffSem.glyphs` instantiated with the Type 2
charstring interpreter of C04/C05 (`T2.interp`, Model/T2Interp.lean).

`glyphsT2 q ext o` runs `T2.interp q` on every charstring of the `FontOut` that C13's `readFont`
delivers, in the environment of the glyph's private DICT (local subrs, global subrs, default and
nominal width), and returns the advance width of every glyph (16.16 fixed point → `Dy` in lowest
terms, the exact float64 value) and `ext g` for the extent.  With `q = T2.goQuirks` this is what
`cff.Read` does (`decodeCharString` per glyph, C05 stream `t2.dec`).

Consequences proved here:
* `file_roundtrip_cff_t2`: for a font in `InDomainFileCffC13 T (semT2 …)`, the advance widths that
  `sfnt.Read` returns for the written file are `int16(trunc(width g))` of the glyphs `g` the
  interpreter returns on the charstrings C13's `writeFont` stored — no width is a free parameter;
* `t2_width_encoded`: for a charstring produced by C04's `encodeCharString` for a well-formed glyph
  with steps ≤ 32767 and path deltas within ±32000 (`glyph_roundtrip_go`, the bridge between C04's
  encoder and the model of the Go decoder), that width is the default width or nominal width +
  encoded difference (C04's formula).

Still explicit: `ext` (the extent of a decoded glyph: floor/ceil of the extreme coordinates),
`real`, `matrix`, `token`.
Model limit: default/nominal widths that are not multiples of 2⁻¹⁶ are rejected by `envOf`
(the Go decoder computes with float64); such fonts are outside the domain.
-/
import SfntV.Proofs.FontFileCffC13
import SfntV.Proofs.T2Bridge2

namespace SfntV.FontFile
open SfntV SfntV.Font SfntV.Otl

/-- `value · 65536` of a DICT decimal `(neg, m, e)` = ±m·10^e, when that is an integer -/
def fixedOfRl (r : Cff.Rl) : Option Int :=
  let s : Int := if r.1 then -1 else 1
  if 0 ≤ r.2.2 then some (s * ((r.2.1 * 10 ^ r.2.2.toNat * 65536 : Nat) : Int))
  else if (r.2.1 * 65536) % 10 ^ (-r.2.2).toNat = 0 then
    some (s * ((r.2.1 * 65536 / 10 ^ (-r.2.2).toNat : Nat) : Int))
  else none

/-- `n / 2^e` in lowest terms -/
def dyReduce : Int → Nat → Dy
  | n, 0 => ⟨n, 0⟩
  | n, e + 1 => if n % 2 = 0 then dyReduce (n / 2) e else ⟨n, e + 1⟩

/-- a 16.16 fixed-point number as the float64 it is -/
def dyOfFixed (k : Int) : Dy := dyReduce k 16

/-- `decodeInfo` of the glyphs of font DICT `fd` -/
def envOf (o : Cff.FontOut) (fd : Nat) : Outcome T2.Env :=
  match o.privs[fd]? with
  | none => .err "no private dict"
  | some p =>
    match fixedOfRl p.defaultWidth, fixedOfRl p.nominalWidth with
    | some d, some n => .ok ⟨p.subrs.map bytesToNats, o.gsubrs.map bytesToNats, d, n⟩
    | _, _ => .err "width not 16.16"

/-- `decodeCharString` of glyph `i` -/
def glyphT2 (q : T2.Quirks) (o : Cff.FontOut) (ci : Bytes × Nat) : Outcome T2.Glyph :=
  match envOf o (o.fds.getD ci.2 0) with
  | .ok env => T2.interp q env (bytesToNats ci.1)
  | .err e => .err e
  | .panic s => .panic s

def glyphsT2 (q : T2.Quirks) (ext : T2.Glyph → Metrics.Rect) (o : Cff.FontOut) :
    Outcome (List Dy × List Metrics.Rect) :=
  match Cff.mapOutcomeL (glyphT2 q o) o.charStrings.zipIdx with
  | .ok gs => .ok (gs.map (fun g => dyOfFixed g.width), gs.map ext)
  | .err e => .err e
  | .panic s => .panic s

/-- the `CffSem` whose glyph part is the interpreter -/
def semT2 (q : T2.Quirks) (ext : T2.Glyph → Metrics.Rect) (real : Cff.Rl → Dy) (matrix : List Cff.Rl → FM)
    (token : Cff.FontOut → Str) : CffSem :=
  { real := real, matrix := matrix, glyphs := glyphsT2 q ext, token := token }

/-- `Pointwise R l r`: `l` and `r` have the same length and `R l[i] r[i]` for every `i` -/
inductive Pointwise {α β : Type} (R : α → β → Prop) : List α → List β → Prop
  | nil : Pointwise R [] []
  | cons {a b l r} : R a b → Pointwise R l r → Pointwise R (a :: l) (b :: r)

theorem mapOutcomeL_ok {α β : Type} (f : α → Outcome β) :
    ∀ (l : List α) (r : List β), Cff.mapOutcomeL f l = .ok r → Pointwise (fun x y => f x = .ok y) l r := by
  intro l
  induction l with
  | nil => intro r h; simp [Cff.mapOutcomeL] at h; subst h; exact .nil
  | cons x xs ih =>
    intro r h
    unfold Cff.mapOutcomeL at h
    cases hx : f x with
    | err e => rw [hx] at h; cases h
    | panic s => rw [hx] at h; cases h
    | ok v =>
      rw [hx] at h
      simp only at h
      cases hr : Cff.mapOutcomeL f xs with
      | err e => rw [hr] at h; cases h
      | panic s => rw [hr] at h; cases h
      | ok l' =>
        rw [hr] at h
        simp only at h
        injection h with h
        subst h
        exact .cons hx (ih l' hr)

/-- what a successful `glyphsT2` says: one interpreted glyph per charstring -/
theorem glyphsT2_ok (q : T2.Quirks) (ext : T2.Glyph → Metrics.Rect) (o : Cff.FontOut)
    (ws : List Dy) (es : List Metrics.Rect) (h : glyphsT2 q ext o = .ok (ws, es)) :
    ∃ gs : List T2.Glyph,
      Pointwise (fun ci g => glyphT2 q o ci = .ok g) o.charStrings.zipIdx gs ∧
      ws = gs.map (fun g => dyOfFixed g.width) ∧ es = gs.map ext := by
  unfold glyphsT2 at h
  cases hm : Cff.mapOutcomeL (glyphT2 q o) o.charStrings.zipIdx with
  | err e => rw [hm] at h; cases h
  | panic s => rw [hm] at h; cases h
  | ok gs =>
    rw [hm] at h
    simp only at h
    injection h with h
    injection h with h1 h2
    exact ⟨gs, mapOutcomeL_ok _ _ _ hm, h1.symm, h2.symm⟩

/-- the view of a decoded CFF font under `semT2`: widths and extents are those of the interpreted
charstrings -/
theorem viewOf_semT2 (q : T2.Quirks) (ext : T2.Glyph → Metrics.Rect) (real : Cff.Rl → Dy)
    (matrix : List Cff.Rl → FM) (token : Cff.FontOut → Str) (o : Cff.FontOut) (p : CffPayload)
    (h : viewOf (semT2 q ext real matrix token) o = .ok p) :
    ∃ gs : List T2.Glyph,
      Pointwise (fun ci g => glyphT2 q o ci = .ok g) o.charStrings.zipIdx gs ∧
      p.widths = gs.map (fun g => dyOfFixed g.width) ∧ p.extents = gs.map ext := by
  unfold viewOf at h
  cases hg : (semT2 q ext real matrix token).glyphs o with
  | err e => rw [hg] at h; cases h
  | panic s => rw [hg] at h; cases h
  | ok we =>
    obtain ⟨w, e⟩ := we
    rw [hg] at h
    simp only at h
    injection h with h
    subst h
    exact glyphsT2_ok q ext o w e hg

/-- the decoded CFF font of a table in C13's domain: C13's normal form of some `FontIn` -/
theorem cffTableOk_out (T : Cff.Tables) (S : CffSem) (b : Bytes) (p : CffPayload) (h : CffTableOk T S b p) :
    ∃ o, Cff.readFont T b = .ok o ∧ viewOf S o = .ok p := by
  obtain ⟨f, passes, hw, hs, hd⟩ := h
  rcases hd with ⟨q, hd, hv⟩ | ⟨r, o, sup, hd, hv⟩
  · exact ⟨_, Cff.readFont_writeFont_simple T f q hd b passes hw hs, hv⟩
  · exact ⟨_, Cff.readFont_writeFont_cid T f r o sup hd b passes hw hs, hv⟩

/-- **OpenType/CFF with interpreted widths.**  For a font in `InDomainFileCffC13 T (semT2 …)`:
the file is written and read back to `nfFileCff F`, C13's reader decodes the `CFF ` table to some
`o`, the interpreter returns a glyph `g` for every charstring of `o`, and the advance widths of the
font that `Read` returns are `int16(trunc(g.width))`, glyph by glyph. -/
theorem file_roundtrip_cff_t2 (T : Cff.Tables) (q : T2.Quirks) (ext : T2.Glyph → Metrics.Rect)
    (real : Cff.Rl → Dy) (matrix : List Cff.Rl → FM) (token : Cff.FontOut → Str)
    (ef : EnvF) (caretOf : Int → Int → Int) (F : CffFileFont)
    (h : InDomainFileCffC13 T (semT2 q ext real matrix token) ef F) :
    ∃ b r o gs, writeFileCff ef F = .ok b ∧
      readFileCff layoutDec (decCffC13 T (semT2 q ext real matrix token)) caretOf b = .ok r ∧
      r = nfFileCff F ∧
      Cff.readFont T F.cffBytes = .ok o ∧
      Pointwise (fun ci g => glyphT2 q o ci = .ok g) o.charStrings.zipIdx gs ∧
      r.font.outline.widths = some (gs.map fun g => Dy.ofInt (toInt16 (dyOfFixed g.width).trunc)) := by
  obtain ⟨b, hw, hr⟩ := file_roundtrip_cff_c13 T _ ef caretOf F h
  obtain ⟨o, ho, hv⟩ := cffTableOk_out T _ _ _ h.table
  obtain ⟨gs, hgs, hws, _⟩ := viewOf_semT2 q ext real matrix token o F.payload hv
  refine ⟨b, _, o, gs, hw, hr, rfl, ho, hgs, ?_⟩
  have hc := h.core.core.count.1
  have hlen : 0 < (F.payload.widths.map fun w => toInt16 w.trunc).length := by
    rw [List.length_map]; omega
  show (nfOutline (outlineOfCff F.payload F.cmap)).widths = _
  unfold nfOutline
  have hwl : (outlineOfCff F.payload F.cmap).widthList = F.payload.widths := by
    simp [outlineOfCff, Outline.widthList]
  simp only [hwl, gt_iff_lt, hlen, if_true]
  rw [hws]
  simp [List.map_map, Function.comp_def]

/-- **C04's width formula for encoder output, for the model of the Go decoder.**  A charstring
that C04's `encodeCharString` produces for a well-formed glyph with steps ≤ 32767 (C04-bigstep) and
every path delta within ±32000 (`CmdBnd`; beyond it the Go decoder clamps: C05-clamp) is
interpreted by the model of `decodeCharString` to a glyph whose width is the default width when
the glyph's width equals it, else nominal width + the encoded difference (within 2⁻¹⁷ of the
glyph's width).  (`T2Enc.glyph_roundtrip_go`, Proofs/T2Bridge2.lean: no hypothesis about the
quirks is left.) -/
theorem t2_width_encoded (env : T2.Env) (K : Nat) (hK : 16 ≤ K) (w : Int) (hs vs : List Int)
    (cmds : List T2Enc.InCmd) (paths : List (List (Nat × T2.Op))) (bytes : List Nat)
    (h : T2Enc.encodeCharString K w hs vs cmds env.defaultWidth env.nominalWidth paths = some bytes)
    (hwf : T2Enc.GlyphWF hs vs cmds = true) (hsteps : T2Enc.stepsSmall K 0 0 cmds = true)
    (hbnd : ∀ c ∈ T2Enc.encodeArgs K cmds, T2Enc.CmdBnd c)
    (hw : w ≠ env.defaultWidth * 2 ^ (K - 16) → T2Enc.Small K (w - env.nominalWidth * 2 ^ (K - 16)))
    (hhs : T2Enc.hStemsSmall env K w hs = true) (hvs : T2Enc.vStemsSmall env K w hs vs = true) :
    ∃ g, T2.interp T2.goQuirks env bytes = .ok g ∧
      g.width = (if w = env.defaultWidth * 2 ^ (K - 16) then env.defaultWidth
        else (T2Enc.encNum (w - env.nominalWidth * 2 ^ (K - 16)) K).val + env.nominalWidth) ∧
      (w ≠ env.defaultWidth * 2 ^ (K - 16) → T2Enc.Close K g.width w) := by
  obtain ⟨g, hg, _, _, _, _, _, hwd, hcl⟩ :=
    T2Enc.glyph_roundtrip_go env K hK w hs vs cmds paths bytes h hwf hsteps hbnd hw hhs hvs
  exact ⟨g, hg, hwd, hcl⟩

end SfntV.FontFile
