/-
Operator-level progress for the path operators (C05): with a legal operand count, after the first
moveto, the strict interpreter performs the operator, clears the stack and keeps the path state sane.
-/
import SfntV.Proofs.T2

namespace SfntV.T2
open SfntV SfntV.Spec.T2

/-- what every drawing helper preserves -/
def Keeps (s s' : St) : Prop :=
  s'.hasMoved = s.hasMoved ∧ (s.hasMoved = true → s'.moveErr = s.moveErr) ∧
  s'.widthSet = s.widthSet ∧ s'.width = s.width ∧ s'.stage = s.stage ∧ s'.hstem = s.hstem ∧
  s'.vstem = s.vstem ∧ s'.stack = s.stack

theorem Keeps.refl (s : St) : Keeps s s := ⟨rfl, fun _ => rfl, rfl, rfl, rfl, rfl, rfl, rfl⟩

theorem Keeps.trans {a b c : St} (h1 : Keeps a b) (h2 : Keeps b c) : Keeps a c := by
  obtain ⟨a1, a2, a3, a4, a5, a6, a7, a8⟩ := h1
  obtain ⟨b1, b2, b3, b4, b5, b6, b7, b8⟩ := h2
  refine ⟨by rw [b1, a1], fun h => ?_, by rw [b3, a3], by rw [b4, a4], by rw [b5, a5], by rw [b6, a6],
    by rw [b7, a7], by rw [b8, a8]⟩
  rw [b2 (by rw [a1]; exact h), a2 h]

theorem keeps_rLineTo (q : Quirks) (s : St) (dx dy : Int) : Keeps s (rLineTo q s dx dy) := by
  refine ⟨rfl, fun h => ?_, rfl, rfl, rfl, rfl, rfl, rfl⟩
  simp [rLineTo, h]

theorem keeps_rCurveTo (q : Quirks) (s : St) (a b c d e f : Int) : Keeps s (rCurveTo q s a b c d e f) := by
  refine ⟨rfl, fun h => ?_, rfl, rfl, rfl, rfl, rfl, rfl⟩
  simp [rCurveTo, h]

theorem keeps_rlineLoop (q : Quirks) (s : St) (l : List Int) : Keeps s (rlineLoop q s l) := by
  fun_induction rlineLoop q s l with
  | case1 s dx dy t ih => exact (keeps_rLineTo q s dx dy).trans ih
  | case2 s l hl => exact Keeps.refl _

theorem keeps_altLineLoop (q : Quirks) (h : Bool) (s : St) (l : List Int) : Keeps s (altLineLoop q h s l) := by
  fun_induction altLineLoop q h s l with
  | case1 h s => exact Keeps.refl _
  | case2 h s z t ih =>
    refine Keeps.trans ?_ ih
    split
    · exact keeps_rLineTo q s z 0
    · exact keeps_rLineTo q s 0 z

theorem keeps_curveLoop (q : Quirks) (s : St) (l : List Int) : Keeps s (curveLoop q s l).1 := by
  fun_induction curveLoop q s l with
  | case1 s a b c d e f t ih => exact (keeps_rCurveTo q s a b c d e f).trans ih
  | case2 s l hl => exact Keeps.refl _

theorem keeps_hhLoop (q : Quirks) (s : St) (d : Int) (l : List Int) : Keeps s (hhLoop q s d l) := by
  fun_induction hhLoop q s d l with
  | case1 s dy1 a b c d t ih => exact (keeps_rCurveTo q s _ _ _ _ _ _).trans ih
  | case2 s d l hl => exact Keeps.refl _

theorem keeps_vvLoop (q : Quirks) (s : St) (d : Int) (l : List Int) : Keeps s (vvLoop q s d l) := by
  fun_induction vvLoop q s d l with
  | case1 s dx1 a b c d t ih => exact (keeps_rCurveTo q s _ _ _ _ _ _).trans ih
  | case2 s d l hl => exact Keeps.refl _

theorem keeps_hvLoop (q : Quirks) (h : Bool) (s : St) (l : List Int) : Keeps s (hvLoop q h s l) := by
  fun_induction hvLoop q h s l with
  | case1 h s a b c d t extra ih =>
    refine Keeps.trans ?_ ih
    split
    · exact keeps_rCurveTo q s _ _ _ _ _ _
    · exact keeps_rCurveTo q s _ _ _ _ _ _
  | case2 h s l hl => exact Keeps.refl _


theorem pathOp_ok (s : St) (code : List Nat) (min : Nat) (shape : Bool) (f : St → St)
    (h1 : ¬ s.stack.length < min) (h2 : shape = true) :
    pathOp strict s code min shape f = .ok (.cont (clear (f s)) code) := by
  simp [pathOp, countCheck, h1, h2]

theorem keeps_flexMatch13 (q : Quirks) (s : St) : Keeps s
    (match s.stack with
      | a0 :: a1 :: a2 :: a3 :: a4 :: a5 :: a6 :: a7 :: a8 :: a9 :: a10 :: a11 :: _ :: _ =>
        rCurveTo q (rCurveTo q s a0 a1 a2 a3 a4 a5) a6 a7 a8 a9 a10 a11
      | _ => s) := by
  split
  · exact (keeps_rCurveTo q s _ _ _ _ _ _).trans (keeps_rCurveTo q _ _ _ _ _ _ _)
  · exact Keeps.refl _

/-- a path operator with a legal operand count is executed by the strict interpreter: the stack is
cleared and nothing but the path changes -/
theorem exec_pathop_progress (env : Env) (s : St) (op : Op) (code : List Nat)
    (hp : isPathOp op = true) (hl : legalCount op s.stack.length = true) :
    ∃ s', exec strict env s op code = .ok (.cont (clear s') code) ∧ Keeps s s' := by
  cases op <;> simp only [isPathOp, Bool.false_eq_true] at hp <;>
    simp only [legalCount, Bool.and_eq_true, decide_eq_true_eq, beq_iff_eq] at hl <;>
    simp only [exec]
  case rlineto =>
    exact ⟨_, pathOp_ok s code _ _ _ (by omega) (by simp; omega), keeps_rlineLoop _ _ _⟩
  case hlineto =>
    exact ⟨_, pathOp_ok s code _ _ _ (by omega) rfl, keeps_altLineLoop _ _ _ _⟩
  case vlineto =>
    exact ⟨_, pathOp_ok s code _ _ _ (by omega) rfl, keeps_altLineLoop _ _ _ _⟩
  case rrcurveto =>
    exact ⟨_, pathOp_ok s code _ _ _ (by omega) (by simp; omega), keeps_curveLoop _ _ _⟩
  case rcurveline =>
    refine ⟨_, pathOp_ok s code _ _ _ (by omega) (by simp; omega), ?_⟩
    have hk := keeps_curveLoop strict s s.stack
    split
    · rename_i s1 dx dy t heq
      rw [heq] at hk
      exact hk.trans (keeps_rLineTo _ _ _ _)
    · rename_i s1 t hne heq
      rw [heq] at hk
      exact hk
  case rlinecurve =>
    refine ⟨_, pathOp_ok s code _ _ _ (by omega) (by simp; omega), ?_⟩
    have h1 := keeps_rlineLoop strict s (s.stack.take (2 * ((s.stack.length - 6) / 2)))
    exact h1.trans (keeps_curveLoop _ _ _)
  case hhcurveto =>
    refine ⟨_, pathOp_ok s code _ _ _ (by omega) (by simp; omega), ?_⟩
    split
    · split
      · exact keeps_hhLoop _ _ _ _
      · exact Keeps.refl _
    · exact keeps_hhLoop _ _ _ _
  case vvcurveto =>
    refine ⟨_, pathOp_ok s code _ _ _ (by omega) (by simp; omega), ?_⟩
    split
    · split
      · exact keeps_vvLoop _ _ _ _
      · exact Keeps.refl _
    · exact keeps_vvLoop _ _ _ _
  case hvcurveto =>
    exact ⟨_, pathOp_ok s code _ _ _ (by omega) (by simp; omega), keeps_hvLoop _ _ _ _⟩
  case vhcurveto =>
    exact ⟨_, pathOp_ok s code _ _ _ (by omega) (by simp; omega), keeps_hvLoop _ _ _ _⟩
  case flex =>
    refine ⟨_, pathOp_ok s code _ _ _ (by omega) (by simp; omega), ?_⟩
    split
    · exact (keeps_rCurveTo _ s _ _ _ _ _ _).trans (keeps_rCurveTo _ _ _ _ _ _ _ _)
    · exact Keeps.refl _
  case flex1 =>
    refine ⟨_, pathOp_ok s code _ _ _ (by omega) (by simp; omega), ?_⟩
    split
    · split
      · exact (keeps_rCurveTo _ s _ _ _ _ _ _).trans (keeps_rCurveTo _ _ _ _ _ _ _ _)
      · exact (keeps_rCurveTo _ s _ _ _ _ _ _).trans (keeps_rCurveTo _ _ _ _ _ _ _ _)
    · exact Keeps.refl _
  case hflex =>
    refine ⟨_, pathOp_ok s code _ _ _ (by omega) (by simp; omega), ?_⟩
    split
    · exact (keeps_rCurveTo _ s _ _ _ _ _ _).trans (keeps_rCurveTo _ _ _ _ _ _ _ _)
    · exact Keeps.refl _
  case hflex1 =>
    refine ⟨_, pathOp_ok s code _ _ _ (by omega) (by simp; omega), ?_⟩
    split
    · exact (keeps_rCurveTo _ s _ _ _ _ _ _).trans (keeps_rCurveTo _ _ _ _ _ _ _ _)
    · exact Keeps.refl _

end SfntV.T2
