/-
Whole-program progress of the specification interpreter on well-formed hint-free programs (C05).
-/
import SfntV.Proofs.T2Progress
import SfntV.Proofs.T2Loop
import SfntV.Proofs.T2Store

set_option linter.unusedSimpArgs false
set_option linter.unusedVariables false

namespace SfntV.T2
open SfntV SfntV.Spec.T2

theorem Reaches.of_step {q : Quirks} {env : Env} {s s1 : St} {c c1 : List Nat}
    (h : T2.step q env s c = .ok (.cont s1 c1)) : Reaches q env s c s1 c1 := by
  cases c with
  | nil => simp [T2.step] at h
  | cons b rest =>
    have := step_code q env s b rest _ h
    exact Reaches.single h (by simpa [Res.code] using this)

/-- the concrete state is described by the abstract state of the grammar -/
structure Sim (a : Abs) (s : St) : Prop where
  depth : a.depth = s.stack.length
  width : a.widthDone = s.widthSet
  moved : a.moved = s.hasMoved
  noErr : s.moveErr = false
  notEnded : a.ended = false
  stage : a.stage = s.stage
  stems : s.hstem.length + s.vstem.length = 2 * a.nStems
  le48 : s.stack.length ≤ 48
  store : (a.written = [] ∧ s.storage = none) ∨ (∃ arr, s.storage = some arr ∧ arr.length = 32)

def hintFree : Tok → Bool
  | .op o => !isStem o
  | .mask _ _ => false
  | _ => true

theorem opBytes_all' (op : Op) :
    (∃ b, opBytes op = [b] ∧ b < 32 ∧ b ≠ 12 ∧ b ≠ 28 ∧ opOfCode b = some op) ∨
    (∃ b, opBytes op = [12, b] ∧ opOfCode (12 * 256 + b) = some op) := by
  cases op <;>
    first
    | exact Or.inl ⟨_, rfl, by decide, by decide, by decide, rfl⟩
    | exact Or.inr ⟨_, rfl, rfl⟩

theorem step_op' (q : Quirks) (env : Env) (s : St) (op : Op) (rest : List Nat) (hs : s.stack.length ≤ 48) :
    T2.step q env s (opBytes op ++ rest) = checkMove (exec q env s op rest) := by
  have hov : ¬ s.stack.length > Gen.t2maxStack := by rw [maxStack_eq]; omega
  rcases opBytes_all' op with ⟨b, hb, h32, h12, h28, hop⟩ | ⟨b, hb, hop⟩
  · rw [hb]
    simp only [List.cons_append, List.nil_append, T2.step, hov, if_false]
    simp only [show ¬ (32 ≤ b ∧ b ≤ 246) by omega, show ¬ (247 ≤ b ∧ b ≤ 250) by omega,
      show ¬ (251 ≤ b ∧ b ≤ 254) by omega, h28, show ¬ (b = 255) by omega, h12, if_false, hop]
  · rw [hb]
    simp only [List.cons_append, List.nil_append, T2.step, hov, if_false]
    simp only [show ¬ (32 ≤ 12 ∧ 12 ≤ 246) by omega, show ¬ (247 ≤ 12 ∧ 12 ≤ 250) by omega,
      show ¬ (251 ≤ 12 ∧ 12 ≤ 254) by omega, show ¬ (12 = 28) by omega, show ¬ (12 = 255) by omega,
      if_false, if_true, hop]

/-- moveto with exactly its operands, or with one extra first operand while the width is not set -/
theorem exec_moveto_progress (env : Env) (s : St) (o : Op) (code : List Nat) (hm : isMoveto o = true)
    (hme : s.moveErr = false)
    (hc : legalCount o s.stack.length = true ∨
      (s.widthSet = false ∧ 1 ≤ s.stack.length ∧ legalCount o (s.stack.length - 1) = true)) :
    ∃ s', checkMove (exec strict env s o code) = .ok (.cont s' code) ∧ s'.stack = [] ∧ s'.hasMoved = true ∧
      s'.widthSet = true ∧ s'.moveErr = false ∧ s'.stage = s.stage ∧ s'.hstem = s.hstem ∧ s'.vstem = s.vstem ∧
      s'.storage = s.storage := by
  cases o <;> simp only [isMoveto, Bool.false_eq_true] at hm
  all_goals
    simp only [legalCount, beq_iff_eq] at hc
    rcases hst : s.stack with _ | ⟨a, _ | ⟨b, _ | ⟨c, _ | ⟨d, t⟩⟩⟩⟩ <;> rw [hst] at hc <;>
      simp only [List.length_cons, List.length_nil] at hc <;>
      first
        | (exfalso; omega)
        | (by_cases hw : s.widthSet = true <;>
            first
              | (exfalso; simp [hw] at hc; done)
              | (exfalso; simp [hw] at hc; omega)
              | (refine ⟨_, by simp [exec, hst, hw, setWidth, countCheck, strict, rMoveTo, clear, checkMove, hme, fixq]; rfl, ?_, ?_, ?_, ?_, ?_, ?_, ?_, ?_⟩ <;>
                  simp [rMoveTo, hme]))


theorem afterWidth_some (a : Abs) (o : Op) (n : Nat) (h : afterWidth a o = some n) :
    legalCount o a.depth = true ∨ (a.widthDone = false ∧ 1 ≤ a.depth ∧ legalCount o (a.depth - 1) = true) := by
  unfold afterWidth at h
  split at h
  · rename_i h1; exact Or.inl h1
  · split at h
    · rename_i h2
      simp only [Bool.and_eq_true, Bool.not_eq_true', decide_eq_true_eq] at h2
      exact Or.inr ⟨h2.1.1, h2.1.2, h2.2⟩
    · cases h

/-! ### agreement of the Go quirks with the specification on bounded operands -/

/-- within the range in which `fix` does not clamp -/
def Bnd (v : Int) : Prop := -(32000 * one) ≤ v ∧ v ≤ 32000 * one

theorem fixq_bnd (q : Quirks) (d : Int) (h : Bnd d) : fixq q d = d := by
  unfold fixq
  obtain ⟨h1, h2⟩ := h
  split
  · rw [if_neg (by omega), if_neg (by omega)]
  · rfl

theorem bnd_zero : Bnd 0 := by simp [Bnd, one]
theorem bnd_neg {v : Int} (h : Bnd v) : Bnd (-v) := by unfold Bnd at *; omega

theorem rMoveTo_bnd (q : Quirks) (s : St) (a b : Int) (ha : Bnd a) (hb : Bnd b) :
    rMoveTo q s a b = rMoveTo strict s a b := by
  simp only [rMoveTo, fixq_bnd _ _ ha, fixq_bnd _ _ hb]

theorem rLineTo_bnd (q : Quirks) (s : St) (a b : Int) (ha : Bnd a) (hb : Bnd b) :
    rLineTo q s a b = rLineTo strict s a b := by
  simp only [rLineTo, fixq_bnd _ _ ha, fixq_bnd _ _ hb]

theorem rCurveTo_bnd (q : Quirks) (s : St) (a b c d e f : Int) (ha : Bnd a) (hb : Bnd b) (hc : Bnd c)
    (hd : Bnd d) (he : Bnd e) (hf : Bnd f) :
    rCurveTo q s a b c d e f = rCurveTo strict s a b c d e f := by
  simp only [rCurveTo, fixq_bnd _ _ ha, fixq_bnd _ _ hb, fixq_bnd _ _ hc, fixq_bnd _ _ hd, fixq_bnd _ _ he,
    fixq_bnd _ _ hf]

def BndL (l : List Int) : Prop := ∀ v ∈ l, Bnd v

theorem BndL.tail {a : Int} {l : List Int} (h : BndL (a :: l)) : BndL l := fun v hv => h v (List.mem_cons_of_mem _ hv)
theorem BndL.head {a : Int} {l : List Int} (h : BndL (a :: l)) : Bnd a := h a List.mem_cons_self
theorem BndL.take {l : List Int} (h : BndL l) (n : Nat) : BndL (l.take n) := fun v hv => h v (List.mem_of_mem_take hv)
theorem BndL.drop {l : List Int} (h : BndL l) (n : Nat) : BndL (l.drop n) := fun v hv => h v (List.mem_of_mem_drop hv)

theorem rlineLoop_bnd (q : Quirks) (s : St) (l : List Int) (h : BndL l) :
    rlineLoop q s l = rlineLoop strict s l := by
  fun_induction rlineLoop q s l with
  | case1 s dx dy t ih =>
    rw [ih h.tail.tail]
    simp only [rlineLoop]
    rw [rLineTo_bnd q s dx dy h.head h.tail.head]
  | case2 s l hl => first | rfl | rw [rlineLoop.eq_2 _ _ _ hl]

theorem altLineLoop_bnd (q : Quirks) (hz : Bool) (s : St) (l : List Int) (h : BndL l) :
    altLineLoop q hz s l = altLineLoop strict hz s l := by
  fun_induction altLineLoop q hz s l with
  | case1 hz s => simp [altLineLoop]
  | case2 hz s z t ih =>
    rw [ih h.tail]
    simp only [altLineLoop]
    rw [rLineTo_bnd q s z 0 h.head bnd_zero, rLineTo_bnd q s 0 z bnd_zero h.head]

theorem curveLoop_bnd (q : Quirks) (s : St) (l : List Int) (h : BndL l) :
    curveLoop q s l = curveLoop strict s l := by
  fun_induction curveLoop q s l with
  | case1 s a b c d e f t ih =>
    rw [ih h.tail.tail.tail.tail.tail.tail]
    simp only [curveLoop]
    rw [rCurveTo_bnd q s a b c d e f h.head h.tail.head h.tail.tail.head h.tail.tail.tail.head
      h.tail.tail.tail.tail.head h.tail.tail.tail.tail.tail.head]
  | case2 s l hl => first | rfl | rw [curveLoop.eq_2 _ _ _ hl]

theorem hhLoop_bnd (q : Quirks) (s : St) (d0 : Int) (l : List Int) (hd : Bnd d0) (h : BndL l) :
    hhLoop q s d0 l = hhLoop strict s d0 l := by
  fun_induction hhLoop q s d0 l with
  | case1 s dy1 a b c d t ih =>
    rw [ih bnd_zero h.tail.tail.tail.tail]
    simp only [hhLoop]
    rw [rCurveTo_bnd q s a dy1 b c d 0 h.head hd h.tail.head h.tail.tail.head h.tail.tail.tail.head bnd_zero]
  | case2 s d0 l hl => first | rfl | rw [hhLoop.eq_2 _ _ _ _ hl]

theorem vvLoop_bnd (q : Quirks) (s : St) (d0 : Int) (l : List Int) (hd : Bnd d0) (h : BndL l) :
    vvLoop q s d0 l = vvLoop strict s d0 l := by
  fun_induction vvLoop q s d0 l with
  | case1 s dx1 a b c d t ih =>
    rw [ih bnd_zero h.tail.tail.tail.tail]
    simp only [vvLoop]
    rw [rCurveTo_bnd q s dx1 a b c 0 d hd h.head h.tail.head h.tail.tail.head bnd_zero h.tail.tail.tail.head]
  | case2 s d0 l hl => first | rfl | rw [vvLoop.eq_2 _ _ _ _ hl]

theorem hvLoop_bnd (q : Quirks) : ∀ (l : List Int) (hz : Bool) (s : St), BndL l →
    hvLoop q hz s l = hvLoop strict hz s l
  | a :: b :: c :: d :: t, hz, s, h => by
    have ih := fun hz' s' => hvLoop_bnd q t hz' s' h.tail.tail.tail.tail
    have hb : ∀ v, v = 0 ∨ v ∈ a :: b :: c :: d :: t → Bnd v := by
      intro v hv
      rcases hv with rfl | hv
      · exact bnd_zero
      · exact h v hv
    rcases t with _ | ⟨e, _ | ⟨f, r⟩⟩ <;> simp only [hvLoop] <;> cases hz <;>
      simp only [Bool.false_eq_true, if_false, if_true] <;>
      rw [rCurveTo_bnd q s _ _ _ _ _ _ (hb _ (by simp)) (hb _ (by simp)) (hb _ (by simp)) (hb _ (by simp))
        (hb _ (by simp)) (hb _ (by simp))] <;>
      exact ih _ _
  | [], hz, s, _ => by simp [hvLoop]
  | [_], hz, s, _ => by simp [hvLoop]
  | [_, _], hz, s, _ => by simp [hvLoop]
  | [_, _, _], hz, s, _ => by simp [hvLoop]


theorem gq1 : goQuirks.shortMovetoIgnored = false := rfl
theorem gq2 : goQuirks.shortPathOpIgnored = false := rfl
theorem gq3 : goQuirks.extraOperandsIgnored = true := rfl
theorem sq1 : strict.shortMovetoIgnored = false := rfl
theorem sq2 : strict.shortPathOpIgnored = false := rfl
theorem sq3 : strict.extraOperandsIgnored = false := rfl

theorem exec_moveto_agree (env : Env) (s : St) (o : Op) (code : List Nat) (hm : isMoveto o = true)
    (hc : legalCount o s.stack.length = true ∨
      (s.widthSet = false ∧ 1 ≤ s.stack.length ∧ legalCount o (s.stack.length - 1) = true))
    (hb : BndL s.stack) :
    exec goQuirks env s o code = exec strict env s o code := by
  cases o <;> simp only [isMoveto, Bool.false_eq_true] at hm
  all_goals
    simp only [legalCount, beq_iff_eq] at hc
    rcases hst : s.stack with _ | ⟨a, _ | ⟨b, _ | ⟨c, _ | ⟨d, t⟩⟩⟩⟩ <;> rw [hst] at hc hb <;>
      simp only [List.length_cons, List.length_nil] at hc <;>
      first
        | (exfalso; omega)
        | (by_cases hw : s.widthSet = true <;>
            first
              | (exfalso; simp [hw] at hc; done)
              | (exfalso; simp [hw] at hc; omega)
              | (simp only [exec, hst, hw, setWidth, countCheck, gq1, gq3, sq1, sq3, List.length_cons, List.length_nil]
                 have hb2 := hb
                 simp only [BndL, List.mem_cons, List.not_mem_nil, or_false, forall_eq_or_imp, forall_eq, and_true] at hb2
                 simp [rMoveTo_bnd, bnd_zero, hb2, hst]))

theorem pathOp_agree (s : St) (code : List Nat) (m : Nat) (sh : Bool) (f g : St → St)
    (h1 : ¬ s.stack.length < m) (h2 : sh = true) (hfg : f s = g s) :
    pathOp goQuirks s code m sh f = pathOp strict s code m sh g := by
  simp [pathOp, countCheck, h1, h2, hfg]

theorem curveLoop_left (q : Quirks) (s : St) (l : List Int) (h : BndL l) : BndL (curveLoop q s l).2 := by
  fun_induction curveLoop q s l with
  | case1 s a b c d e f t ih => exact ih h.tail.tail.tail.tail.tail.tail
  | case2 s l hl => exact h

/-- path operators other than flex1/hflex1 with a legal operand count and operands within ±32000: the
Go configuration does exactly what the specification does -/
theorem exec_pathop_agree (env : Env) (s : St) (op : Op) (code : List Nat)
    (hp : isPathOp op = true) (hl : legalCount op s.stack.length = true) (hb : BndL s.stack)
    (hne : op ≠ .flex1 ∧ op ≠ .hflex1) :
    exec goQuirks env s op code = exec strict env s op code := by
  cases op <;> simp only [isPathOp, Bool.false_eq_true] at hp <;>
    simp only [legalCount, Bool.and_eq_true, decide_eq_true_eq, beq_iff_eq] at hl <;>
    simp only [exec]
  case rlineto => exact pathOp_agree s code _ _ _ _ (by omega) (by simp; omega) (rlineLoop_bnd _ _ _ hb)
  case hlineto => exact pathOp_agree s code _ _ _ _ (by omega) rfl (altLineLoop_bnd _ _ _ _ hb)
  case vlineto => exact pathOp_agree s code _ _ _ _ (by omega) rfl (altLineLoop_bnd _ _ _ _ hb)
  case rrcurveto =>
    exact pathOp_agree s code _ _ _ _ (by omega) (by simp; omega) (by simp only [curveLoop_bnd _ _ _ hb])
  case rcurveline =>
    refine pathOp_agree s code _ _ _ _ (by omega) (by simp; omega) ?_
    have hleft := curveLoop_left strict s s.stack hb
    simp only [curveLoop_bnd _ _ _ hb]
    split
    · rename_i s1 dx dy t heq
      rw [heq] at hleft
      exact rLineTo_bnd _ _ _ _ hleft.head hleft.tail.head
    · rfl
  case rlinecurve =>
    refine pathOp_agree s code _ _ _ _ (by omega) (by simp; omega) ?_
    simp only [rlineLoop_bnd _ _ _ (hb.take _), curveLoop_bnd _ _ _ (hb.drop _)]
  case hhcurveto =>
    refine pathOp_agree s code _ _ _ _ (by omega) (by simp; omega) ?_
    split
    · split
      · rename_i d t heq
        rw [heq] at hb
        exact hhLoop_bnd _ _ _ _ hb.head hb.tail
      · rfl
    · exact hhLoop_bnd _ _ _ _ bnd_zero hb
  case vvcurveto =>
    refine pathOp_agree s code _ _ _ _ (by omega) (by simp; omega) ?_
    split
    · split
      · rename_i d t heq
        rw [heq] at hb
        exact vvLoop_bnd _ _ _ _ hb.head hb.tail
      · rfl
    · exact vvLoop_bnd _ _ _ _ bnd_zero hb
  case hvcurveto => exact pathOp_agree s code _ _ _ _ (by omega) (by simp; omega) (hvLoop_bnd _ _ _ _ hb)
  case vhcurveto => exact pathOp_agree s code _ _ _ _ (by omega) (by simp; omega) (hvLoop_bnd _ _ _ _ hb)
  case flex =>
    refine pathOp_agree s code _ _ _ _ (by omega) (by simp; omega) ?_
    split
    · rename_i a0 a1 a2 a3 a4 a5 a6 a7 a8 a9 a10 a11 a12 t heq
      rw [heq] at hb
      have hb2 := hb
      simp only [BndL, List.mem_cons, forall_eq_or_imp] at hb2
      simp [rCurveTo_bnd, hb2]
    · rfl
  case hflex =>
    refine pathOp_agree s code _ _ _ _ (by omega) (by simp; omega) ?_
    split
    · rename_i a0 a1 a2 a3 a4 a5 a6 t heq
      rw [heq] at hb
      have hb2 := hb
      simp only [BndL, List.mem_cons, forall_eq_or_imp] at hb2
      have hn := bnd_neg hb2.2.2.1
      simp [rCurveTo_bnd, hb2, bnd_zero, hn]
    · rfl
  case flex1 => exact absurd rfl hne.1
  case hflex1 => exact absurd rfl hne.2

/-! ### the width operand and the hint operators -/

theorem afterWidth_cases (a : Abs) (o : Op) (n : Nat) (h : afterWidth a o = some n) :
    (n = a.depth ∧ legalCount o n = true) ∨
    (a.widthDone = false ∧ a.depth = n + 1 ∧ legalCount o n = true) := by
  unfold afterWidth at h
  split at h
  · rename_i h1
    simp only [Option.some.injEq] at h
    subst h
    exact Or.inl ⟨rfl, h1⟩
  · split at h
    · rename_i h2
      simp only [Bool.and_eq_true, Bool.not_eq_true', decide_eq_true_eq] at h2
      simp only [Option.some.injEq] at h
      subst h
      exact Or.inr ⟨h2.1.1, by omega, h2.2⟩
    · cases h

theorem setWidth_frame (env : Env) (s : St) (p : Bool) :
    (setWidth env s p).hstem = s.hstem ∧ (setWidth env s p).vstem = s.vstem ∧
    (setWidth env s p).hasMoved = s.hasMoved ∧ (setWidth env s p).moveErr = s.moveErr ∧
    (setWidth env s p).stage = s.stage ∧ (setWidth env s p).cmds = s.cmds ∧ (setWidth env s p).x = s.x ∧
    (setWidth env s p).y = s.y := by
  unfold setWidth
  split
  · exact ⟨rfl, rfl, rfl, rfl, rfl, rfl, rfl, rfl⟩
  · split
    · split <;> exact ⟨rfl, rfl, rfl, rfl, rfl, rfl, rfl, rfl⟩
    · exact ⟨rfl, rfl, rfl, rfl, rfl, rfl, rfl, rfl⟩

theorem setWidth_storage (env : Env) (s : St) (p : Bool) : (setWidth env s p).storage = s.storage := by
  unfold setWidth
  split
  · rfl
  · split
    · split <;> rfl
    · rfl

/-- after `setGlyphWidth`: exactly the legal operands remain, and the width is set -/
theorem setWidth_after (env : Env) (s : St) (n : Nat) (p : Bool)
    (h : (p = false ∧ s.stack.length = n) ∨ (p = true ∧ s.widthSet = false ∧ s.stack.length = n + 1)) :
    (setWidth env s p).stack.length = n ∧ (setWidth env s p).widthSet = true ∧
    (∀ v ∈ (setWidth env s p).stack, v ∈ s.stack) := by
  unfold setWidth
  rcases h with ⟨rfl, hl⟩ | ⟨rfl, hw, hl⟩
  · by_cases hws : s.widthSet = true
    · simp [hws, hl]
    · simp [hws, hl]
  · simp only [hw, Bool.false_eq_true, if_false, if_true]
    rcases hst : s.stack with _ | ⟨w, t⟩
    · rw [hst] at hl; simp at hl
    · rw [hst] at hl
      simp only [List.length_cons] at hl
      exact ⟨by simp; omega, rfl, fun v hv => List.mem_cons_of_mem _ hv⟩

theorem stemPairs_length : ∀ (p : Int) (l : List Int), (stemPairs p l).length = 2 * (l.length / 2)
  | p, a :: b :: t => by
    simp only [stemPairs, List.length_cons, stemPairs_length _ t]
    omega
  | _, [] => by simp [stemPairs]
  | _, [_] => by simp [stemPairs]

/-- stem operators: the same result for every quirk setting -/
theorem stem_tok (env : Env) (a : Abs) (s : St) (o : Op) (code : List Nat) (n : Nat)
    (hst : isStem o = true) (hstage : a.stage ≤ 1) (haw : afterWidth a o = some n) (hsim : Sim a s) :
    ∃ s', (∀ q, exec q env s o code = .ok (.cont s' code)) ∧ s'.stack = [] ∧
      Sim { a with depth := 0, widthDone := true, stage := 1, nStems := a.nStems + n / 2 } s' := by
  have hc := afterWidth_cases a o n haw
  have hleg : 2 ≤ n ∧ n % 2 = 0 := by
    rcases hc with ⟨_, h⟩ | ⟨_, _, h⟩ <;>
      (cases o <;> simp only [isStem, Bool.false_eq_true] at hst <;>
        simp only [legalCount, Bool.and_eq_true, decide_eq_true_eq, beq_iff_eq] at h <;> exact h)
  have hpres : ((s.stack.length % 2 == 1) = false ∧ s.stack.length = n) ∨
      ((s.stack.length % 2 == 1) = true ∧ s.widthSet = false ∧ s.stack.length = n + 1) := by
    rcases hc with ⟨h1, _⟩ | ⟨h1, h2, _⟩
    · left; rw [← hsim.depth, ← h1]; exact ⟨by simp; omega, rfl⟩
    · right; rw [← hsim.depth, ← hsim.width]; exact ⟨by simp; omega, h1, h2⟩
  have hs0 : ({ s with stage := 1 } : St).stack = s.stack := rfl
  obtain ⟨k1, k2, k3⟩ := setWidth_after env { s with stage := 1 } n (s.stack.length % 2 == 1) hpres
  obtain ⟨f1, f2, f3, f4, f5, f6, f7, f8⟩ := setWidth_frame env { s with stage := 1 } (s.stack.length % 2 == 1)
  have hstg : ¬ s.stage > 1 := by rw [← hsim.stage]; omega
  have hn2 : ¬ s.stack.length < 2 := by rcases hpres with ⟨_, h⟩ | ⟨_, _, h⟩ <;> omega
  have hpar : ((setWidth env { s with stage := 1 } (s.stack.length % 2 == 1)).stack.length % 2 != 0) = false := by
    rw [k1]; simp; omega
  have hlen := stemPairs_length 0 (setWidth env { s with stage := 1 } (s.stack.length % 2 == 1)).stack
  rw [k1] at hlen
  have hst2 := hsim.stems
  generalize hs1 : setWidth env { s with stage := 1 } (s.stack.length % 2 == 1) = s1 at *
  cases o <;> simp only [isStem, Bool.false_eq_true] at hst
  case hstem | hstemhm =>
    refine ⟨{ s1 with hstem := s1.hstem ++ stemPairs 0 s1.stack, stack := [] }, fun q => ?_, rfl, ?_⟩
    · simp only [exec, hstg, hn2, if_false, hs1, hpar, Bool.false_and, Bool.false_eq_true]
    · exact ⟨rfl, by simp [k2], by simp [f3, hsim.moved], by simp [f4, hsim.noErr], hsim.notEnded, by simp [f5],
        by simp only [List.length_append, f1, f2, hlen]; omega, by simp,
        by have := setWidth_storage env { s with stage := 1 } (s.stack.length % 2 == 1); rw [hs1] at this; simpa [this] using hsim.store⟩
  case vstem | vstemhm =>
    refine ⟨{ s1 with vstem := s1.vstem ++ stemPairs 0 s1.stack, stack := [] }, fun q => ?_, rfl, ?_⟩
    · simp only [exec, hstg, hn2, if_false, hs1, hpar, Bool.false_and, Bool.false_eq_true]
    · exact ⟨rfl, by simp [k2], by simp [f3, hsim.moved], by simp [f4, hsim.noErr], hsim.notEnded, by simp [f5],
        by simp only [List.length_append, f1, f2, hlen]; omega, by simp,
        by have := setWidth_storage env { s with stage := 1 } (s.stack.length % 2 == 1); rw [hs1] at this; simpa [this] using hsim.store⟩

/-- hintmask / cntrmask with the implicit vstem operands and ⌈nStems/8⌉ mask bytes: the same result
for every quirk setting -/
theorem mask_tok (env : Env) (a : Abs) (s : St) (c : Bool) (bs rest : List Nat) (n : Nat)
    (haw : afterWidth a .hintmask = some n)
    (hcond : ((n == 0 || a.stage == 1) && decide (a.stage ≥ 1) && decide (a.nStems + n / 2 ≥ 1) &&
      (bs.length == (a.nStems + n / 2 + 7) / 8)) = true)
    (hsim : Sim a s) (hrest : rest ≠ []) :
    ∃ s', (∀ q, exec q env s (if c then .cntrmask else .hintmask) (bs ++ rest) = .ok (.cont s' rest)) ∧
      s'.stack = [] ∧
      Sim { a with depth := 0, widthDone := true, stage := 2, nStems := a.nStems + n / 2 } s' := by
  simp only [Bool.and_eq_true, Bool.or_eq_true, beq_iff_eq, decide_eq_true_eq] at hcond
  obtain ⟨⟨⟨hc1, hc2⟩, hc3⟩, hc4⟩ := hcond
  have hc := afterWidth_cases a .hintmask n haw
  have hleg : n % 2 = 0 := by
    rcases hc with ⟨_, h⟩ | ⟨_, _, h⟩ <;> simpa [legalCount] using h
  have hpres : ((s.stack.length % 2 == 1) = false ∧ s.stack.length = n) ∨
      ((s.stack.length % 2 == 1) = true ∧ s.widthSet = false ∧ s.stack.length = n + 1) := by
    rcases hc with ⟨h1, _⟩ | ⟨h1, h2, _⟩
    · left; rw [← hsim.depth, ← h1]; exact ⟨by simp; omega, rfl⟩
    · right; rw [← hsim.depth, ← hsim.width]; exact ⟨by simp; omega, h1, h2⟩
  have hstage1 : s.stack.length ≥ 2 → s.stage = 1 := by
    intro h2
    rw [← hsim.stage]
    rcases hc1 with h0 | h1
    · rcases hpres with ⟨_, h⟩ | ⟨_, _, h⟩ <;> omega
    · exact h1
  have hlate : (decide (s.stack.length ≥ 2) && decide (s.stage > 1)) = false := by
    by_cases h2 : s.stack.length ≥ 2
    · simp [hstage1 h2]
    · simp [h2]
  have hs0 : (if s.stack.length ≥ 2 then { s with stage := 1 } else s) = s := by
    by_cases h2 : s.stack.length ≥ 2
    · have := hstage1 h2
      simp only [h2, if_true]
      cases s
      simp only at this
      subst this
      rfl
    · simp [h2]
  obtain ⟨k1, k2, k3⟩ := setWidth_after env s n (s.stack.length % 2 == 1) hpres
  obtain ⟨f1, f2, f3, f4, f5, f6, f7, f8⟩ := setWidth_frame env s (s.stack.length % 2 == 1)
  have hlen := stemPairs_length 0 (setWidth env s (s.stack.length % 2 == 1)).stack
  rw [k1] at hlen
  have hpar : ((setWidth env s (s.stack.length % 2 == 1)).stack.length % 2 != 0) = false := by
    rw [k1]; simp; omega
  have hst2 := hsim.stems
  have hstg := hsim.stage
  generalize hs1 : setWidth env s (s.stack.length % 2 == 1) = s1 at *
  have hnst : (s1.hstem.length + (s1.vstem ++ stemPairs 0 s1.stack).length) / 2 = a.nStems + n / 2 := by
    simp only [List.length_append, f1, f2, hlen]; omega
  refine ⟨{ s1 with vstem := s1.vstem ++ stemPairs 0 s1.stack, stage := 2, cmds := s1.cmds ++ [if c then Cmd.cntrMask bs else Cmd.hintMask bs], stack := [] }, fun q => ?_, rfl, ?_⟩
  · have hk : (a.nStems + n / 2 + 7) / 8 = bs.length := hc4.symm
    have hne0 : (a.nStems + n / 2 == 0) = false := by simp; omega
    have hearly : ¬ s1.stage < 1 := by rw [f5, ← hstg]; omega
    have hkl : ¬ bs.length ≥ (bs ++ rest).length := by
      have : 0 < rest.length := List.length_pos_iff.mpr hrest
      simp only [List.length_append]; omega
    cases c <;>
      simp only [exec, hlate, Bool.false_eq_true, if_false, hs0, hs1, hpar, Bool.false_and, hearly, hnst, hne0, hk,
        hkl, List.take_left, List.drop_left, if_true] <;> rfl
  · exact ⟨rfl, by simp [k2], by simp [f3, hsim.moved], by simp [f4, hsim.noErr], hsim.notEnded, rfl,
      by simp only [List.length_append, f1, f2, hlen]; omega, by simp,
      by have := setWidth_storage env s (s.stack.length % 2 == 1); rw [hs1] at this; simpa [this] using hsim.store⟩

/-- endchar with no operand, or with the width only -/
theorem endchar_tok (env : Env) (a : Abs) (s : St) (code : List Nat) (n : Nat)
    (haw : afterWidth a .endchar = some n) (hsim : Sim a s) :
    ∃ s', ∀ q, exec q env s .endchar code = .ok (.done s') := by
  have hc := afterWidth_cases a .endchar n haw
  have hn : n = 0 := by
    rcases hc with ⟨_, h⟩ | ⟨_, _, h⟩ <;> simpa [legalCount] using h
  subst hn
  have hpres : ((s.stack.length == 1 || decide (s.stack.length > 4)) = false ∧ s.stack.length = 0) ∨
      ((s.stack.length == 1 || decide (s.stack.length > 4)) = true ∧ s.widthSet = false ∧ s.stack.length = 0 + 1) := by
    rcases hc with ⟨h1, _⟩ | ⟨h1, h2, _⟩
    · left; rw [← hsim.depth, ← h1]; exact ⟨rfl, rfl⟩
    · right; rw [← hsim.depth, ← hsim.width, h2]; exact ⟨rfl, h1, rfl⟩
  obtain ⟨k1, _, _⟩ := setWidth_after env s 0 _ hpres
  refine ⟨setWidth env s (s.stack.length == 1 || decide (s.stack.length > 4)), fun q => ?_⟩
  simp only [exec, k1, beq_self_eq_true, Bool.true_or, Bool.not_true, Bool.false_and, Bool.false_eq_true, if_false]

theorem pop1_snoc (r : List Int) (a : Int) : pop1 (r ++ [a]) = some (r, a) := by simp [pop1]
theorem pop2_snoc (r : List Int) (a b : Int) : pop2 (r ++ [a, b]) = some (r, a, b) := by simp [pop2]

theorem split_last (l : List Int) (k : Nat) (h : k ≤ l.length) :
    ∃ r t, l = r ++ t ∧ t.length = k ∧ r.length = l.length - k :=
  ⟨l.take (l.length - k), l.drop (l.length - k), (List.take_append_drop _ _).symm, by simp; omega, by simp⟩

theorem bnd_b2i (b : Bool) : Bnd (b2i b) := by cases b <;> simp [b2i, Bnd, one]

theorem BndL.append {a b : List Int} (ha : BndL a) (hb : BndL b) : BndL (a ++ b) := by
  intro v hv
  rcases List.mem_append.mp hv with h | h
  · exact ha v h
  · exact hb v h

theorem BndL.left {a b : List Int} (h : BndL (a ++ b)) : BndL a := fun v hv => h v (List.mem_append_left _ hv)
theorem BndL.right {a b : List Int} (h : BndL (a ++ b)) : BndL b := fun v hv => h v (List.mem_append_right _ hv)

theorem len1 (t : List Int) (h : t.length = 1) : ∃ a, t = [a] := by
  match t, h with
  | [a], _ => exact ⟨a, rfl⟩
theorem len2 (t : List Int) (h : t.length = 2) : ∃ a b, t = [a, b] := by
  match t, h with
  | [a, b], _ => exact ⟨a, b, rfl⟩
theorem len4 (t : List Int) (h : t.length = 4) : ∃ a b c d, t = [a, b, c, d] := by
  match t, h with
  | [a, b, c, d], _ => exact ⟨a, b, c, d, rfl⟩

theorem bndL_single {v : Int} (h : Bnd v) : BndL [v] := by
  intro x hx
  simp only [List.mem_cons, List.not_mem_nil, or_false] at hx
  subst hx
  exact h

theorem bnd_abs {a : Int} (h : Bnd a) : Bnd (if a < 0 then -a else a) := by
  unfold Bnd at *; split <;> omega

/-- the arithmetic and conditional operators of the static grammar: stack effect, nothing else
changes; the Go configuration agrees except for `mul`; results stay within ±32000 except for
`add`, `sub`, `mul` -/
theorem arith_tok (env : Env) (s : St) (o : Op) (code : List Nat) (pops pushes : Nat)
    (he : arithEffect o = some (pops, pushes)) (hd : pops ≤ s.stack.length) :
    ∃ st, exec strict env s o code = .ok (.cont { s with stack := st } code) ∧
      st.length = s.stack.length - pops + pushes ∧
      (o ≠ .mul → exec goQuirks env s o code = exec strict env s o code) ∧
      (BndL s.stack → o ≠ .mul → o ≠ .add → o ≠ .sub → BndL st) := by
  obtain ⟨r, t, hrt, htl, hrl⟩ := split_last s.stack pops hd
  cases o <;> simp only [arithEffect, Option.some.injEq, Prod.mk.injEq] at he <;>
    obtain ⟨rfl, rfl⟩ := he
  case abs =>
    obtain ⟨a, rfl⟩ := len1 t htl
    refine ⟨r ++ [if a < 0 then -a else a], by simp only [exec, hrt, pop1_snoc], by simp [hrl] <;> omega,
      fun _ => by simp only [exec], fun hb _ _ _ => ?_⟩
    rw [hrt] at hb
    exact hb.left.append (bndL_single (bnd_abs hb.right.head))
  case neg =>
    obtain ⟨a, rfl⟩ := len1 t htl
    refine ⟨r ++ [-a], by simp only [exec, hrt, pop1_snoc], by simp [hrl] <;> omega,
      fun _ => by simp only [exec], fun hb _ _ _ => ?_⟩
    rw [hrt] at hb
    exact hb.left.append (bndL_single (bnd_neg hb.right.head))
  case not =>
    obtain ⟨a, rfl⟩ := len1 t htl
    refine ⟨r ++ [b2i (a == 0)], by simp only [exec, hrt, pop1_snoc], by simp [hrl] <;> omega,
      fun _ => by simp only [exec], fun hb _ _ _ => ?_⟩
    rw [hrt] at hb
    exact hb.left.append (bndL_single (bnd_b2i _))
  case drop =>
    obtain ⟨a, rfl⟩ := len1 t htl
    refine ⟨r, by simp only [exec, hrt, pop1_snoc], by simp [hrl],
      fun _ => by simp only [exec], fun hb _ _ _ => ?_⟩
    rw [hrt] at hb
    exact hb.left
  case dup =>
    obtain ⟨a, rfl⟩ := len1 t htl
    refine ⟨s.stack ++ [a], by simp only [exec, hrt, pop1_snoc], by simp [hrl] <;> omega,
      fun _ => by simp only [exec], fun hb _ _ _ => ?_⟩
    have hb' := hb
    rw [hrt] at hb'
    exact hb.append (bndL_single hb'.right.head)
  case random =>
    refine ⟨s.stack ++ [40501], by simp only [exec], by simp,
      fun _ => by simp only [exec], fun hb _ _ _ => ?_⟩
    exact hb.append (bndL_single (by simp [Bnd, one]))
  case add =>
    obtain ⟨a, b, rfl⟩ := len2 t htl
    exact ⟨r ++ [a + b], by simp only [exec, hrt, pop2_snoc], by simp [hrl] <;> omega,
      fun _ => by simp only [exec], fun _ _ h _ => absurd rfl h⟩
  case sub =>
    obtain ⟨a, b, rfl⟩ := len2 t htl
    exact ⟨r ++ [a - b], by simp only [exec, hrt, pop2_snoc], by simp [hrl] <;> omega,
      fun _ => by simp only [exec], fun _ _ _ h => absurd rfl h⟩
  case mul =>
    obtain ⟨a, b, rfl⟩ := len2 t htl
    exact ⟨r ++ [fxMul a b], by simp [exec, hrt, pop2_snoc, strict], by simp [hrl] <;> omega,
      fun h => absurd rfl h, fun _ h _ _ => absurd rfl h⟩
  case eq =>
    obtain ⟨a, b, rfl⟩ := len2 t htl
    refine ⟨r ++ [b2i (a == b)], by simp only [exec, hrt, pop2_snoc], by simp [hrl] <;> omega,
      fun _ => by simp only [exec], fun hb _ _ _ => ?_⟩
    rw [hrt] at hb
    exact hb.left.append (bndL_single (bnd_b2i _))
  case and =>
    obtain ⟨a, b, rfl⟩ := len2 t htl
    refine ⟨r ++ [b2i (a != 0 && b != 0)], by simp only [exec, hrt, pop2_snoc], by simp [hrl] <;> omega,
      fun _ => by simp only [exec], fun hb _ _ _ => ?_⟩
    rw [hrt] at hb
    exact hb.left.append (bndL_single (bnd_b2i _))
  case or =>
    obtain ⟨a, b, rfl⟩ := len2 t htl
    refine ⟨r ++ [b2i (a != 0 || b != 0)], by simp only [exec, hrt, pop2_snoc], by simp [hrl] <;> omega,
      fun _ => by simp only [exec], fun hb _ _ _ => ?_⟩
    rw [hrt] at hb
    exact hb.left.append (bndL_single (bnd_b2i _))
  case exch =>
    obtain ⟨a, b, rfl⟩ := len2 t htl
    refine ⟨r ++ [b, a], by simp only [exec, hrt, pop2_snoc], by simp [hrl] <;> omega,
      fun _ => by simp only [exec], fun hb _ _ _ => ?_⟩
    rw [hrt] at hb
    refine hb.left.append ?_
    intro v hv
    simp only [List.mem_cons, List.not_mem_nil, or_false] at hv
    rcases hv with rfl | rfl
    · exact hb.right.tail.head
    · exact hb.right.head
  case ifelse =>
    obtain ⟨a, b, c, d, rfl⟩ := len4 t htl
    refine ⟨r ++ [if c ≤ d then a else b], by simp [exec, hrt], by simp [hrl] <;> omega,
      fun _ => by simp only [exec], fun hb _ _ _ => ?_⟩
    rw [hrt] at hb
    refine hb.left.append (bndL_single ?_)
    split
    · exact hb.right.head
    · exact hb.right.tail.head

/-! ### value-dependent operators with literal operands -/

theorem trunc_mul_one' (v : Int) : trunc (v * one) = v := by
  unfold trunc one
  exact Int.mul_tdiv_cancel v (by decide)

theorem lit1_reaches (q : Quirks) (env : Env) (s s' : St) (v : Int) (op : Op) (rest : List Nat)
    (hv : -32768 ≤ v ∧ v ≤ 32767) (hs : s.stack.length + 1 ≤ 48)
    (hex : checkMove (exec q env { s with stack := s.stack ++ [v * one] } op rest) = .ok (.cont s' rest)) :
    Reaches q env s (encodeInt v ++ opBytes op ++ rest) s' rest := by
  have h1 := step_encodeInt q env s v (opBytes op ++ rest) hv (by omega)
  rw [List.append_assoc]
  refine (Reaches.of_step h1).trans (Reaches.of_step ?_)
  rw [step_op' q env _ op rest (by simp; omega)]
  exact hex

theorem lit2_reaches (q : Quirks) (env : Env) (s s' : St) (v w : Int) (op : Op) (rest : List Nat)
    (hv : -32768 ≤ v ∧ v ≤ 32767) (hw : -32768 ≤ w ∧ w ≤ 32767) (hs : s.stack.length + 2 ≤ 48)
    (hex : checkMove (exec q env { s with stack := s.stack ++ [v * one, w * one] } op rest) = .ok (.cont s' rest)) :
    Reaches q env s (encodeInt v ++ encodeInt w ++ opBytes op ++ rest) s' rest := by
  have h1 := step_encodeInt q env s v (encodeInt w ++ (opBytes op ++ rest)) hv (by omega)
  have h2 := step_encodeInt q env { s with stack := s.stack ++ [v * one] } w (opBytes op ++ rest) hw (by simp; omega)
  simp only [List.append_assoc]
  refine (Reaches.of_step h1).trans ((Reaches.of_step h2).trans (Reaches.of_step ?_))
  rw [step_op' q env _ op rest (by simp; omega)]
  simpa [List.append_assoc] using hex

theorem bndL_getD (l : List Int) (h : BndL l) (i : Nat) : Bnd (l.getD i 0) := by
  rw [List.getD_eq_getElem?_getD]
  cases hg : l[i]? with
  | none => exact bnd_zero
  | some v => exact h v (List.mem_of_getElem? hg)

theorem bndL_rollList (l : List Int) (j : Int) (h : BndL l) : BndL (rollList l j) := by
  unfold rollList
  exact (h.drop _).append (h.take _)

theorem int_toNat_small (i : Int) : (if i < 0 then 0 else i.toNat) = i.toNat := by
  split
  · omega
  · rfl

theorem fxDiv_bnd (x b : Int) (hx : Bnd x) (hb : b ≠ 0) : Bnd (fxDiv x (b * one)).1 := by
  unfold fxDiv
  simp only
  have hA : (x * one).natAbs = x.natAbs * 65536 := by rw [Int.natAbs_mul]; rfl
  have hB : (b * one).natAbs = b.natAbs * 65536 := by rw [Int.natAbs_mul]; rfl
  have hb1 : 1 ≤ b.natAbs := by omega
  rw [hA, hB]
  have hxa : x.natAbs ≤ 32000 * 65536 := by unfold Bnd one at hx; omega
  have hq : (2 * (x.natAbs * 65536) + b.natAbs * 65536) / (2 * (b.natAbs * 65536)) ≤ x.natAbs := by
    apply Nat.le_of_lt_succ
    rw [Nat.div_lt_iff_lt_mul (by omega)]
    have h1 : x.natAbs * 65536 ≤ x.natAbs * (b.natAbs * 65536) := by
      apply Nat.mul_le_mul_left
      omega
    have e : (x.natAbs + 1) * (2 * (b.natAbs * 65536)) = 2 * (x.natAbs * (b.natAbs * 65536)) + 2 * (b.natAbs * 65536) := by
      rw [Nat.add_mul, Nat.one_mul, Nat.mul_left_comm]
    rw [e]
    generalize x.natAbs * (b.natAbs * 65536) = P at *
    omega
  generalize (2 * (x.natAbs * 65536) + b.natAbs * 65536) / (2 * (b.natAbs * 65536)) = qn at *
  unfold Bnd one
  split <;> constructor <;> omega

/-- a value-dependent operator with literal deciding operands: progress of every configuration that
matters, the simulation invariant, and agreement + boundedness for the agreeing forms -/
theorem lit_tok (env : Env) (a a' : Abs) (s : St) (k : LitOp) (rest : List Nat)
    (hwf : wfTok a (.lit k) = some a') (hsim : Sim a s) :
    ∃ s', Reaches strict env s (encodeTok (.lit k) ++ rest) s' rest ∧ Sim a' s' ∧
      (agreesTok (.lit k) = true → BndL s.stack →
        Reaches goQuirks env s (encodeTok (.lit k) ++ rest) s' rest ∧ BndL s'.stack) := by
  have hend := hsim.notEnded
  have hend' : (a.ended = true) = False := by simp [hend]
  have hd := hsim.depth
  have hme := hsim.noErr
  simp only [wfTok, hend', if_false] at hwf
  cases k with
  | div b =>
    simp only at hwf
    split at hwf
    · rename_i hc
      simp only [Bool.and_eq_true, maxStack_eq, bne_iff_ne, ne_eq] at hc
      have hb1 := of_decide_eq_true hc.1.1.1.1
      have hb2 := of_decide_eq_true hc.1.1.1.2
      have hb0 := hc.1.1.2
      have hdep := of_decide_eq_true hc.1.2
      have h48 := of_decide_eq_true hc.2
      simp only [Option.some.injEq] at hwf
      subst hwf
      obtain ⟨r, t, hrt, htl, hrl⟩ := split_last s.stack 1 (by omega)
      obtain ⟨x, rfl⟩ := len1 t htl
      have hne : ¬ (b * one = 0) := by unfold one; omega
      have hex : ∀ q, checkMove (exec q env { s with stack := s.stack ++ [b * one] } .div rest) =
          .ok (.cont { s with stack := r ++ [(fxDiv x (b * one)).1],
                              inexact := s.inexact || !(fxDiv x (b * one)).2 } rest) := by
        intro q
        have : s.stack ++ [b * one] = r ++ [x, b * one] := by rw [hrt]; simp
        simp [exec, this, pop2_snoc, hne, checkMove, hme]
      refine ⟨{ s with stack := r ++ [(fxDiv x (b * one)).1], inexact := s.inexact || !(fxDiv x (b * one)).2 },
        by simpa [encodeTok] using lit1_reaches strict env s _ b .div rest (by constructor <;> omega) (by omega) (hex strict),
        ⟨by simp [hd, hrt], hsim.width, hsim.moved, hme, hend, hsim.stage, hsim.stems, by simp; rw [hrt] at hd; simp at hd; omega, hsim.store⟩,
        fun _ hb => ⟨by simpa [encodeTok] using lit1_reaches goQuirks env s _ b .div rest (by constructor <;> omega) (by omega) (hex goQuirks), ?_⟩⟩
      rw [hrt] at hb
      exact hb.left.append (bndL_single (fxDiv_bnd x b hb.right.head hb0))
    · cases hwf
  | sqrt v =>
    simp only at hwf
    split at hwf
    · rename_i hc
      simp only [Bool.and_eq_true, maxStack_eq] at hc
      have hv0 := of_decide_eq_true hc.1.1
      have hv1 := of_decide_eq_true hc.1.2
      have h48 := of_decide_eq_true hc.2
      simp only [Option.some.injEq] at hwf
      subst hwf
      by_cases hpos : v * one > 0
      · have hex : ∀ q, checkMove (exec q env { s with stack := s.stack ++ [v * one] } .sqrt rest) =
            .ok (.cont { s with stack := s.stack ++ [(isqrt (v * one * one).toNat : Int)], inexact := s.inexact || isqrt (v * one * one).toNat * isqrt (v * one * one).toNat != (v * one * one).toNat } rest) := by
          intro q
          simp [exec, pop1_snoc, hpos, checkMove, hme]
        refine ⟨{ s with stack := s.stack ++ [(isqrt (v * one * one).toNat : Int)], inexact := s.inexact || isqrt (v * one * one).toNat * isqrt (v * one * one).toNat != (v * one * one).toNat },
          by simpa [encodeTok] using lit1_reaches strict env s _ v .sqrt rest (by constructor <;> omega) (by omega) (hex strict),
          ⟨by simp [hd], hsim.width, hsim.moved, hme, hend, hsim.stage, hsim.stems, by simp; omega, hsim.store⟩,
          fun hag hb => ⟨by simpa [encodeTok] using lit1_reaches goQuirks env s _ v .sqrt rest (by constructor <;> omega) (by omega) (hex goQuirks), ?_⟩⟩
        have hle : isqrt (v * one * one).toNat ≤ 32000 * 65536 := by simpa [agreesTok] using hag
        have h1 : (32000 : Int) * one = 2097152000 := rfl
        exact hb.append (bndL_single (by simp only [Bnd, h1]; constructor <;> omega))
      · have hz : v * one = 0 := by unfold one at *; omega
        have hex : ∀ q, checkMove (exec q env { s with stack := s.stack ++ [v * one] } .sqrt rest) =
            .ok (.cont { s with stack := s.stack ++ [0] } rest) := by
          intro q
          simp [exec, pop1_snoc, hz, checkMove, hme]
        refine ⟨{ s with stack := s.stack ++ [0] },
          by simpa [encodeTok] using lit1_reaches strict env s _ v .sqrt rest (by constructor <;> omega) (by omega) (hex strict),
          ⟨by simp [hd], hsim.width, hsim.moved, hme, hend, hsim.stage, hsim.stems, by simp; omega, hsim.store⟩,
          fun _ hb => ⟨by simpa [encodeTok] using lit1_reaches goQuirks env s _ v .sqrt rest (by constructor <;> omega) (by omega) (hex goQuirks),
            hb.append (bndL_single bnd_zero)⟩⟩
    · cases hwf
  | index i =>
    simp only at hwf
    split at hwf
    · rename_i hc
      simp only [Bool.and_eq_true, maxStack_eq] at hc
      have hi1 := of_decide_eq_true hc.1.1.1
      have hi2 := of_decide_eq_true hc.1.1.2
      have h48 := of_decide_eq_true hc.1.2
      have hdep := of_decide_eq_true hc.2
      simp only [Option.some.injEq] at hwf
      subst hwf
      have hlen : ¬ s.stack.length < i.toNat + 1 := by omega
      have hex : ∀ q, checkMove (exec q env { s with stack := s.stack ++ [i * one] } .index rest) =
          .ok (.cont { s with stack := s.stack ++ [s.stack.getD (s.stack.length - i.toNat - 1) 0] } rest) := by
        intro q
        simp [exec, pop1_snoc, trunc_mul_one', int_toNat_small, hlen, checkMove, hme]
      refine ⟨{ s with stack := s.stack ++ [s.stack.getD (s.stack.length - i.toNat - 1) 0] },
        by simpa [encodeTok] using lit1_reaches strict env s _ i .index rest (by constructor <;> omega) (by omega) (hex strict),
        ⟨by simp [hd], hsim.width, hsim.moved, hme, hend, hsim.stage, hsim.stems, by simp; omega, hsim.store⟩,
        fun _ hb => ⟨by simpa [encodeTok] using lit1_reaches goQuirks env s _ i .index rest (by constructor <;> omega) (by omega) (hex goQuirks),
          hb.append (bndL_single (bndL_getD _ hb _))⟩⟩
    · cases hwf
  | roll n j =>
    simp only at hwf
    split at hwf
    · rename_i hc
      simp only [Bool.and_eq_true, maxStack_eq] at hc
      have hn1 := of_decide_eq_true hc.1.1.1.1.1
      have hn2 := of_decide_eq_true hc.1.1.1.1.2
      have hj1 := of_decide_eq_true hc.1.1.1.2.1
      have hj2 := of_decide_eq_true hc.1.1.1.2.2
      have hn0 := of_decide_eq_true hc.1.1.2
      have hdep := of_decide_eq_true hc.1.2
      have h48 := of_decide_eq_true hc.2
      simp only [Option.some.injEq] at hwf
      subst hwf
      have hcnt : ¬ (n < 0 ∨ n > (s.stack.length : Int)) := by omega
      have hz : ¬ n = 0 := by omega
      have hex : ∀ q, checkMove (exec q env { s with stack := s.stack ++ [n * one, j * one] } .roll rest) =
          .ok (.cont { s with stack := s.stack.take (s.stack.length - n.toNat) ++
                                      rollList (s.stack.drop (s.stack.length - n.toNat)) j } rest) := by
        intro q
        simp [exec, pop2_snoc, trunc_mul_one', hcnt, hz, checkMove, hme]
      have hlenR : (s.stack.take (s.stack.length - n.toNat) ++
          rollList (s.stack.drop (s.stack.length - n.toNat)) j).length = s.stack.length := by
        simp [rollList]; omega
      have hR := fun q => lit2_reaches q env s _ n j .roll rest (by constructor <;> omega) (by constructor <;> omega) (by omega) (hex q)
      refine ⟨{ s with stack := s.stack.take (s.stack.length - n.toNat) ++ rollList (s.stack.drop (s.stack.length - n.toNat)) j },
        by simpa [encodeTok] using hR strict,
        ⟨by rw [hd]; exact hlenR.symm, hsim.width, hsim.moved, hme, hend, hsim.stage, hsim.stems, by rw [hlenR]; omega, hsim.store⟩,
        fun _ hb => ⟨by simpa [encodeTok] using hR goQuirks, (hb.take _).append (bndL_rollList _ _ (hb.drop _))⟩⟩
    · cases hwf
  | put i =>
    simp only at hwf
    split at hwf
    · rename_i hc
      simp only [Bool.and_eq_true, maxStack_eq] at hc
      have hi0 := of_decide_eq_true hc.1.1.1
      have hi1 := of_decide_eq_true hc.1.1.2
      have hdep := of_decide_eq_true hc.1.2
      have h48 := of_decide_eq_true hc.2
      simp only [Option.some.injEq] at hwf
      subst hwf
      obtain ⟨r, t, hrt, htl, hrl⟩ := split_last s.stack 1 (by omega)
      obtain ⟨x, rfl⟩ := len1 t htl
      have hm : ¬ (i < 0 ∨ i ≥ (Gen.t2storagePutLimit : Int)) := by
        simp only [Gen.t2storagePutLimit]; omega
      have hex : ∀ q, checkMove (exec q env { s with stack := s.stack ++ [i * one] } .put rest) =
          .ok (.cont { { s with stack := r } with storage := some ((s.storage.getD (List.replicate Gen.t2storageSize 0)).set i.toNat x) } rest) := by
        intro q
        have : s.stack ++ [i * one] = r ++ [x, i * one] := by rw [hrt]; simp
        simp [exec, this, pop2_snoc, trunc_mul_one', hm, checkMove, hme]
      refine ⟨{ { s with stack := r } with storage := some ((s.storage.getD (List.replicate Gen.t2storageSize 0)).set i.toNat x) },
        by simpa [encodeTok] using lit1_reaches strict env s _ i .put rest (by constructor <;> omega) (by omega) (hex strict),
        ⟨by simp only [hd, hrt]; simp, hsim.width, hsim.moved, hme, hend, hsim.stage, hsim.stems,
          by simp only; rw [hrt] at hd; simp at hd; omega,
          Or.inr ⟨_, rfl, by
            rcases hsim.store with ⟨_, hn⟩ | ⟨arr, ha, hl⟩
            · simp [hn, Gen.t2storageSize]
            · simp [ha, hl]⟩⟩,
        fun _ hb => ⟨by simpa [encodeTok] using lit1_reaches goQuirks env s _ i .put rest (by constructor <;> omega) (by omega) (hex goQuirks),
          by rw [hrt] at hb; exact hb.left⟩⟩
    · cases hwf
  | get i =>
    simp only at hwf
    split at hwf
    · rename_i hc
      simp only [Bool.and_eq_true, maxStack_eq] at hc
      have hi0 := of_decide_eq_true hc.1.1.1
      have hi1 := of_decide_eq_true hc.1.1.2
      have hw : a.written.contains i.toNat = true := hc.1.2
      have h48 := of_decide_eq_true hc.2
      simp only [Option.some.injEq] at hwf
      subst hwf
      have hwne : a.written ≠ [] := by
        intro h0; rw [h0] at hw; simp at hw
      obtain ⟨arr, ha, hl⟩ : ∃ arr, s.storage = some arr ∧ arr.length = 32 := by
        rcases hsim.store with ⟨h0, _⟩ | h
        · exact absurd h0 hwne
        · exact h
      have hm : ¬ (i < 0 ∨ i ≥ (arr.length : Int)) := by rw [hl]; omega
      have hex : checkMove (exec strict env { s with stack := s.stack ++ [i * one] } .get rest) =
          .ok (.cont { s with stack := s.stack ++ [arr.getD i.toNat 0] } rest) := by
        simp [exec, pop1_snoc, trunc_mul_one', ha, hm, checkMove, hme]
      exact ⟨{ s with stack := s.stack ++ [arr.getD i.toNat 0] },
        by simpa [encodeTok] using lit1_reaches strict env s _ i .get rest (by constructor <;> omega) (by omega) hex,
        ⟨by simp [hd], hsim.width, hsim.moved, hme, hend, hsim.stage, hsim.stems, by simp; omega, hsim.store⟩,
        fun hag => by simp [agreesTok] at hag⟩
    · cases hwf

/-! ### one token, whole programs -/

theorem checkMove_cont' (s : St) (c : List Nat) (h : s.moveErr = false) :
    checkMove (.ok (.cont s c)) = .ok (.cont s c) := by simp [checkMove, h]

theorem tok_progress (env : Env) (a a' : Abs) (s : St) (t : Tok) (rest : List Nat)
    (hwf : wfTok a t = some a') (hsim : Sim a s) (hne : t ≠ .op .endchar) (hrest : rest ≠ []) :
    ∃ s', Reaches strict env s (encodeTok t ++ rest) s' rest ∧ Sim a' s' ∧
      (agreesTok t = true → BndL s.stack →
        Reaches goQuirks env s (encodeTok t ++ rest) s' rest ∧ BndL s'.stack) := by
  have hend := hsim.notEnded
  have hend' : (a.ended = true) = False := by simp [hend]
  have h48 := hsim.le48
  cases t with
  | int v =>
    simp only [wfTok] at hwf
    split at hwf
    · rename_i hc
      simp only [Bool.and_eq_true, Bool.not_eq_true', maxStack_eq] at hc
      have hu1 := of_decide_eq_true hc.1.2
      have hu2 := of_decide_eq_true hc.2
      have hu0 := of_decide_eq_true hc.1.1.2
      simp only [Option.some.injEq] at hwf
      subst hwf
      have hd := hsim.depth
      refine ⟨_, Reaches.of_step (step_encodeInt strict env s v rest (by constructor <;> omega) h48),
        ⟨by simp [hd], hsim.width, hsim.moved, hsim.noErr, hend, hsim.stage, hsim.stems, by simp; omega, hsim.store⟩,
        fun _ hb => ⟨Reaches.of_step (step_encodeInt goQuirks env s v rest (by constructor <;> omega) h48), ?_⟩⟩
      exact hb.append (bndL_single (by simp only [Bnd, one]; constructor <;> omega))
    · cases hwf
  | fixed u =>
    simp only [wfTok] at hwf
    split at hwf
    · rename_i hc
      simp only [Bool.and_eq_true, Bool.not_eq_true', maxStack_eq, one] at hc
      have hu1 := of_decide_eq_true hc.1.2
      have hu2 := of_decide_eq_true hc.2
      have hu0 := of_decide_eq_true hc.1.1.2
      simp only [Option.some.injEq] at hwf
      subst hwf
      have hd := hsim.depth
      refine ⟨_, Reaches.of_step (step_encodeFixed strict env s u rest (by constructor <;> omega) h48),
        ⟨by simp [hd], hsim.width, hsim.moved, hsim.noErr, hend, hsim.stage, hsim.stems, by simp; omega, hsim.store⟩,
        fun _ hb => ⟨Reaches.of_step (step_encodeFixed goQuirks env s u rest (by constructor <;> omega) h48), ?_⟩⟩
      exact hb.append (bndL_single (by simp only [Bnd, one]; constructor <;> omega))
    · cases hwf
  | lit k => exact lit_tok env a a' s k rest hwf hsim
  | mask c bs =>
    simp only [wfTok, hend', if_false] at hwf
    cases haw : afterWidth a .hintmask with
    | none => rw [haw] at hwf; cases hwf
    | some n =>
      rw [haw] at hwf
      simp only at hwf
      split at hwf
      · rename_i hcond
        simp only [Option.some.injEq] at hwf
        subst hwf
        obtain ⟨s', hex, hst, hsim'⟩ := mask_tok env a s c bs rest n haw hcond hsim hrest
        have hstep : ∀ q, T2.step q env s (encodeTok (.mask c bs) ++ rest) = .ok (.cont s' rest) := by
          intro q
          simp only [encodeTok, List.append_assoc]
          rw [step_op' q env s _ (bs ++ rest) h48, hex q]
          exact checkMove_cont' _ _ hsim'.noErr
        exact ⟨s', Reaches.of_step (hstep strict), hsim',
          fun _ _ => ⟨Reaches.of_step (hstep goQuirks), by rw [hst]; intro v hv; cases hv⟩⟩
      · cases hwf
  | op o =>
    simp only [wfTok, hend', if_false] at hwf
    simp only [encodeTok]
    by_cases hmv : isMoveto o = true
    · simp only [hmv, if_true] at hwf
      cases haw : afterWidth a o with
      | none => rw [haw] at hwf; cases hwf
      | some n =>
        rw [haw] at hwf
        simp only [Option.map_some, Option.some.injEq] at hwf
        subst hwf
        have hc := afterWidth_cases a o n haw
        have hc' : legalCount o s.stack.length = true ∨
            (s.widthSet = false ∧ 1 ≤ s.stack.length ∧ legalCount o (s.stack.length - 1) = true) := by
          rw [← hsim.depth, ← hsim.width]
          rcases hc with ⟨h1, h2⟩ | ⟨h1, h2, h3⟩
          · left; rw [← h1]; exact h2
          · right; exact ⟨h1, by omega, by rw [h2]; simpa using h3⟩
        obtain ⟨s', hex, k1, k2, k3, k4, k5, k6, k7, k8⟩ := exec_moveto_progress env s o rest hmv hsim.noErr hc'
        refine ⟨s', Reaches.of_step (by rw [step_op' strict env s o rest h48]; exact hex),
          ⟨by simp [k1], by simp [k3], by simp [k2], k4, hend, by simp [k5, hsim.stage],
            by rw [k6, k7]; exact hsim.stems, by simp [k1], by rw [k8]; exact hsim.store⟩, fun _ hb => ⟨?_, by rw [k1]; intro v hv; cases hv⟩⟩
        exact Reaches.of_step (by rw [step_op' goQuirks env s o rest h48, exec_moveto_agree env s o rest hmv hc' hb]; exact hex)
    · simp only [hmv, Bool.false_eq_true, if_false] at hwf
      by_cases hpo : isPathOp o = true
      · simp only [hpo, if_true] at hwf
        split at hwf
        · rename_i hcond
          simp only [Bool.and_eq_true] at hcond
          simp only [Option.some.injEq] at hwf
          subst hwf
          have hl : legalCount o s.stack.length = true := by rw [← hsim.depth]; exact hcond.2
          have hmoved : s.hasMoved = true := by rw [← hsim.moved]; exact hcond.1
          obtain ⟨s1, hex, hk⟩ := exec_pathop_progress env s o rest hpo hl
          obtain ⟨k1, k2, k3, k4, k5, k6, k7, k8⟩ := hk
          have hme : (clear s1).moveErr = false := by simp [clear, k2 hmoved, hsim.noErr]
          have hsto : (clear s1).storage = s.storage := by
            obtain ⟨s1', hex', hst'⟩ := exec_pathop_sto env s o rest hpo hl
            rw [hex] at hex'
            simp only [Outcome.ok.injEq, Res.cont.injEq, and_true] at hex'
            rw [hex']
            exact hst'
          have hstep : T2.step strict env s (opBytes o ++ rest) = .ok (.cont (clear s1) rest) := by
            rw [step_op' strict env s o rest h48, hex]; exact checkMove_cont' _ _ hme
          refine ⟨clear s1, Reaches.of_step hstep,
            ⟨rfl, by simp [clear, k3, hsim.width], by simp [clear, k1, hsim.moved], hme, hend,
              by simp [clear, k5, hsim.stage], by simp only [clear, k6, k7]; exact hsim.stems, by simp [clear],
              by rw [hsto]; exact hsim.store⟩,
            fun hag hb => ⟨?_, by simp only [clear]; intro v hv; cases hv⟩⟩
          have hne2 : o ≠ .flex1 ∧ o ≠ .hflex1 := by
            simp only [agreesTok, Bool.not_eq_true', Bool.or_eq_false_iff, beq_eq_false_iff_ne, ne_eq] at hag
            exact ⟨hag.1.2, hag.2⟩
          exact Reaches.of_step (by
            rw [step_op' goQuirks env s o rest h48, exec_pathop_agree env s o rest hpo hl hb hne2, hex]
            exact checkMove_cont' _ _ hme)
        · cases hwf
      · simp only [hpo, Bool.false_eq_true, if_false] at hwf
        by_cases hst : isStem o = true
        · simp only [hst, if_true] at hwf
          split at hwf
          · rename_i hcond
            simp only [Bool.and_eq_true, decide_eq_true_eq] at hcond
            cases haw : afterWidth a o with
            | none => rw [haw] at hwf; cases hwf
            | some n =>
              rw [haw] at hwf
              simp only [Option.map_some, Option.some.injEq] at hwf
              subst hwf
              obtain ⟨s', hex, hst', hsim'⟩ := stem_tok env a s o rest n hst hcond.1 haw hsim
              have hstep : ∀ q, T2.step q env s (opBytes o ++ rest) = .ok (.cont s' rest) := by
                intro q
                rw [step_op' q env s o rest h48, hex q]
                exact checkMove_cont' _ _ hsim'.noErr
              exact ⟨s', Reaches.of_step (hstep strict), hsim',
                fun _ _ => ⟨Reaches.of_step (hstep goQuirks), by rw [hst']; intro v hv; cases hv⟩⟩
          · cases hwf
        · simp only [hst, Bool.false_eq_true, if_false] at hwf
          by_cases hec : (o == .endchar) = true
          · exact absurd (by rw [beq_iff_eq] at hec; rw [hec]) hne
          · simp only [hec, Bool.false_eq_true, if_false] at hwf
            cases hae : arithEffect o with
            | none => rw [hae] at hwf; cases hwf
            | some pp =>
              obtain ⟨pops, pushes⟩ := pp
              rw [hae] at hwf
              simp only at hwf
              split at hwf
              · rename_i hcond
                simp only [Bool.and_eq_true, maxStack_eq] at hcond
                have hq1 := of_decide_eq_true hcond.1
                have hq2 := of_decide_eq_true hcond.2
                simp only [Option.some.injEq] at hwf
                subst hwf
                have hd := hsim.depth
                obtain ⟨st, hex, hlen, hag1, hbn⟩ := arith_tok env s o rest pops pushes hae (by omega)
                have hstep : T2.step strict env s (opBytes o ++ rest) = .ok (.cont { s with stack := st } rest) := by
                  rw [step_op' strict env s o rest h48, hex]; exact checkMove_cont' _ _ hsim.noErr
                refine ⟨{ s with stack := st }, Reaches.of_step hstep,
                  ⟨by simp [hlen, hd], hsim.width, hsim.moved, hsim.noErr, hend, hsim.stage, hsim.stems,
                    by simp only [hlen]; rw [← hd]; omega, hsim.store⟩, fun hag hb => ?_⟩
                simp only [agreesTok, Bool.not_eq_true', Bool.or_eq_false_iff, beq_eq_false_iff_ne, ne_eq] at hag
                refine ⟨Reaches.of_step ?_, hbn hb hag.1.1.1.1 hag.1.1.1.2 hag.1.1.2⟩
                rw [step_op' goQuirks env s o rest h48, hag1 hag.1.1.1.1, hex]
                exact checkMove_cont' _ _ hsim.noErr
              · cases hwf

theorem encodeTok_ne_nil (t : Tok) : encodeTok t ≠ [] := by
  cases t with
  | int v =>
    simp only [encodeTok, encodeInt]
    split
    · simp
    · split
      · simp
      · split <;> simp
  | fixed u => simp [encodeTok, encodeFixed]
  | op o =>
    simp only [encodeTok]
    rcases opBytes_all' o with ⟨b, hb, _⟩ | ⟨b, hb, _⟩ <;> rw [hb] <;> simp
  | lit k =>
    have hi : ∀ v, encodeInt v ≠ [] := by
      intro v
      simp only [encodeInt]
      split
      · simp
      · split
        · simp
        · split <;> simp
    cases k <;> simp [encodeTok, hi]
  | mask c bs =>
    simp only [encodeTok]
    rcases opBytes_all' (if c then Op.cntrmask else Op.hintmask) with ⟨b, hb, _⟩ | ⟨b, hb, _⟩ <;> rw [hb] <;> simp

theorem encode_cons (t : Tok) (ts : Program) : encode (t :: ts) = encodeTok t ++ encode ts := by
  simp [encode]

theorem encode_ne_nil (ts : Program) (h : ts ≠ []) : encode ts ≠ [] := by
  cases ts with
  | nil => exact absurd rfl h
  | cons t r =>
    rw [encode_cons]
    intro hc
    exact encodeTok_ne_nil t (List.append_eq_nil_iff.mp hc).1

theorem prog_progress (env : Env) : ∀ (p : Program) (a a' : Abs) (s : St),
    wfRun a p = some a' → a'.ended = true → Sim a s →
    ∃ s1 c1 s2, Reaches strict env s (encode p) s1 c1 ∧ (∀ q, T2.step q env s1 c1 = .ok (.done s2)) ∧
      (agreesCheck p = true → BndL s.stack → Reaches goQuirks env s (encode p) s1 c1) := by
  intro p
  induction p with
  | nil =>
    intro a a' s h he hsim
    simp only [wfRun, Option.some.injEq] at h
    subst h
    rw [hsim.notEnded] at he
    cases he
  | cons t ts ih =>
    intro a a' s h he hsim
    simp only [wfRun] at h
    cases h1 : wfTok a t with
    | none => rw [h1] at h; cases h
    | some a1 =>
      rw [h1] at h
      simp only [Option.bind_some] at h
      by_cases hte : t = .op .endchar
      · subst hte
        have hend' : (a.ended = true) = False := by simp [hsim.notEnded]
        simp only [wfTok, hend', if_false, isMoveto, isPathOp, isStem, Bool.false_eq_true, beq_self_eq_true, if_true] at h1
        cases haw : afterWidth a .endchar with
        | none => rw [haw] at h1; cases h1
        | some n =>
          obtain ⟨s2, hex⟩ := endchar_tok env a s (encode ts) n haw hsim
          refine ⟨s, encode (Tok.op Op.endchar :: ts), s2, Reaches.refl _ _, fun q => ?_, fun _ _ => Reaches.refl _ _⟩
          rw [encode_cons]
          simp only [encodeTok]
          rw [step_op' q env s .endchar (encode ts) hsim.le48, hex q]
          rfl
      · have hts : ts ≠ [] := by
          intro hnil
          subst hnil
          simp only [wfRun, Option.some.injEq] at h
          subst h
          -- a token other than endchar never sets `ended`
          obtain ⟨s', _, hsim', _⟩ := tok_progress env a a1 s t [0] h1 hsim hte (by simp)
          rw [hsim'.notEnded] at he
          cases he
        obtain ⟨s', hr, hsim', hag⟩ := tok_progress env a a1 s t (encode ts) h1 hsim hte (encode_ne_nil ts hts)
        obtain ⟨s1, c1, s2, k1, k2, k3⟩ := ih a1 a' s' h he hsim'
        refine ⟨s1, c1, s2, by rw [encode_cons]; exact hr.trans k1, k2, fun hag2 hb => ?_⟩
        simp only [agreesCheck, List.all_cons, Bool.and_eq_true] at hag2
        obtain ⟨g1, g2⟩ := hag hag2.1 hb
        rw [encode_cons]
        exact g1.trans (k3 hag2.2 g2)

theorem sim_init (env : Env) : Sim {} (St.init env) :=
  ⟨rfl, rfl, rfl, rfl, rfl, rfl, rfl, by simp [St.init], Or.inl ⟨rfl, rfl⟩⟩

/-- whole-program progress and agreement for well-formed programs without subroutine calls -/
theorem wf_progress (env : Env) (p : Program) (h : WF p) :
    ∃ g, interp strict env (encode p) = .ok g ∧ (Agrees p → interp goQuirks env (encode p) = .ok g) := by
  unfold WF wfCheck at h
  cases hr : wfRun {} p with
  | none => rw [hr] at h; cases h
  | some a' =>
    rw [hr] at h
    obtain ⟨s1, c1, s2, k1, k2, k3⟩ := prog_progress env p {} a' (St.init env) hr h (sim_init env)
    refine ⟨s2.glyph, interp_of_reaches strict env _ s1 s2 c1 k1 (k2 strict), fun hag => ?_⟩
    exact interp_of_reaches goQuirks env _ s1 s2 c1 (k3 hag (by intro v hv; cases hv)) (k2 goQuirks)

end SfntV.T2
