/-
Whole-program progress of the specification interpreter on well-formed hint-free programs (C05).
-/
import SfntV.Proofs.T2Progress
import SfntV.Proofs.T2Loop

set_option linter.unusedSimpArgs false
set_option linter.unusedVariables false

namespace SfntV.T2
open SfntV SfntV.Spec.T2

theorem Reaches.of_step {q : Quirks} {env : Env} {s s1 : St} {c c1 : List Nat}
    (h : T2.step q env s c = .ok (.cont s1 c1)) : Reaches q env s c s1 c1 := by
  cases c with
  | nil => simp [T2.step] at h
  | cons b rest =>
    have := step_code q env s b rest _ h
    exact Reaches.single h (by simpa [Res.code] using this)

/-- the concrete state is described by the abstract state of the grammar -/
def Sim (a : Abs) (s : St) : Prop :=
  a.depth = s.stack.length ∧ a.widthDone = s.widthSet ∧ a.moved = s.hasMoved ∧ s.moveErr = false ∧
    a.ended = false

def hintFree : Tok → Bool
  | .op o => !isStem o
  | .mask _ _ => false
  | _ => true

theorem opBytes_all' (op : Op) :
    (∃ b, opBytes op = [b] ∧ b < 32 ∧ b ≠ 12 ∧ b ≠ 28 ∧ opOfCode b = some op) ∨
    (∃ b, opBytes op = [12, b] ∧ opOfCode (12 * 256 + b) = some op) := by
  cases op <;>
    first
    | exact Or.inl ⟨_, rfl, by decide, by decide, by decide, rfl⟩
    | exact Or.inr ⟨_, rfl, rfl⟩

theorem step_op' (env : Env) (s : St) (op : Op) (rest : List Nat) (hs : s.stack.length ≤ 48) :
    T2.step strict env s (opBytes op ++ rest) = checkMove (exec strict env s op rest) := by
  have hov : ¬ s.stack.length > Gen.t2maxStack := by rw [maxStack_eq]; omega
  rcases opBytes_all' op with ⟨b, hb, h32, h12, h28, hop⟩ | ⟨b, hb, hop⟩
  · rw [hb]
    simp only [List.cons_append, List.nil_append, T2.step, hov, if_false]
    simp only [show ¬ (32 ≤ b ∧ b ≤ 246) by omega, show ¬ (247 ≤ b ∧ b ≤ 250) by omega,
      show ¬ (251 ≤ b ∧ b ≤ 254) by omega, h28, show ¬ (b = 255) by omega, h12, if_false, hop]
  · rw [hb]
    simp only [List.cons_append, List.nil_append, T2.step, hov, if_false]
    simp only [show ¬ (32 ≤ 12 ∧ 12 ≤ 246) by omega, show ¬ (247 ≤ 12 ∧ 12 ≤ 250) by omega,
      show ¬ (251 ≤ 12 ∧ 12 ≤ 254) by omega, show ¬ (12 = 28) by omega, show ¬ (12 = 255) by omega,
      if_false, if_true, hop]

/-- moveto with exactly its operands, or with one extra first operand while the width is not set -/
theorem exec_moveto_progress (env : Env) (s : St) (o : Op) (code : List Nat) (hm : isMoveto o = true)
    (hme : s.moveErr = false)
    (hc : legalCount o s.stack.length = true ∨
      (s.widthSet = false ∧ 1 ≤ s.stack.length ∧ legalCount o (s.stack.length - 1) = true)) :
    ∃ s', checkMove (exec strict env s o code) = .ok (.cont s' code) ∧ s'.stack = [] ∧ s'.hasMoved = true ∧
      s'.widthSet = true ∧ s'.moveErr = false := by
  cases o <;> simp only [isMoveto, Bool.false_eq_true] at hm
  all_goals
    simp only [legalCount, beq_iff_eq] at hc
    rcases hst : s.stack with _ | ⟨a, _ | ⟨b, _ | ⟨c, _ | ⟨d, t⟩⟩⟩⟩ <;> rw [hst] at hc <;>
      simp only [List.length_cons, List.length_nil] at hc <;>
      first
        | (exfalso; omega)
        | (by_cases hw : s.widthSet = true <;>
            first
              | (exfalso; simp [hw] at hc; done)
              | (exfalso; simp [hw] at hc; omega)
              | (refine ⟨_, by simp [exec, hst, hw, setWidth, countCheck, strict, rMoveTo, clear, checkMove, hme, fixq]; rfl, ?_, ?_, ?_, ?_⟩ <;>
                  simp [rMoveTo, hme]))


theorem afterWidth_some (a : Abs) (o : Op) (n : Nat) (h : afterWidth a o = some n) :
    legalCount o a.depth = true ∨ (a.widthDone = false ∧ 1 ≤ a.depth ∧ legalCount o (a.depth - 1) = true) := by
  unfold afterWidth at h
  split at h
  · rename_i h1; exact Or.inl h1
  · split at h
    · rename_i h2
      simp only [Bool.and_eq_true, Bool.not_eq_true', decide_eq_true_eq] at h2
      exact Or.inr ⟨h2.1.1, h2.1.2, h2.2⟩
    · cases h

/- `tok_progress` (one grammar token = a chain of successful steps preserving `Sim`) and the induction
   over `wfRun` are the remaining work for `C05_progress_full`; the per-token ingredients are above and in
   T2.lean (`step_encodeInt`, `step_encodeFixed`) and T2Progress.lean (`exec_pathop_progress`). -/

end SfntV.T2
