/-
C02 (decoders are total): proofs about the checked-index models of the sequence-context readers
(`SfntV.Total.SeqCtx`: `readNested`, `readSeqContext1/2/3`, opentype/gtab/nested.go).

* no panic: all bytes, all parser positions, all subtable positions, no hypothesis
  (`readNested` for a count below `2^47`; its callers pass a 16-bit word).
* cost, the TRUE bounds (`h = |b|/2`; rule-set offsets and rule offsets may alias one record, every
  visit is charged):
  - `readNested`: exactly `count` steps and `count` elements, `4·count` bytes present;
  - format 1: `sets·(h² + 1) + 2h + 196610` steps with `sets ≤ min(h, 65536)` — CUBIC in the
    input, no cap anywhere (`seqContext1_alias_cost`, `readSeqContext1_alloc_not_linear`);
  - format 2: a successful run is linear, `3h + 458750` steps: the running size `total` charges
    every visit and is capped at `0xFFFF` — but only AFTER the loops (nested.go:377): a rejected
    input has done the cubic work before (`setsLoop_cost` is all that holds up to there);
  - format 3: `covs·(h + 131075) + h` steps, `covs·131074 + h` elements, `covs ≤ h`: each
    coverage offset is a full `coverage.ReadSet` (aliasing allowed), each capped by a constant.
-/
import SfntV.Model.TotalSeqCtx
import SfntV.Proofs.TotalOtl
import SfntV.Proofs.OtlCoverage

namespace SfntV.Total.SeqCtx
open SfntV SfntV.Total SfntV.Total.Gdef SfntV.Total.Otl

/-! ## the small checked operations -/

theorem chk_ok (site : String) {i n : Nat} (h : i < n) : chk site i n = .ok () := by
  unfold chk
  rw [if_pos h]

theorem sliceTo_ok (site : String) (xs : List α) {n : Nat} (h : n ≤ xs.length) :
    sliceTo site xs n = .ok (xs.take n) := by
  unfold sliceTo
  rw [if_pos h]

theorem mkSliceI_ok (site : String) (n : Nat) (c : Cost) (h1 : 1 ≤ n) (h2 : n < 65536) :
    mkSliceI site ((n : Int) - 1) c = .ok (c.mem (n - 1)) := by
  unfold mkSliceI
  rw [if_neg (by omega)]
  have : ((n : Int) - 1).toNat = n - 1 := by omega
  rw [this, mkSlice_ok _ _ _ (by omega)]

theorem mkSlice_eq {site : String} {n : Nat} {c c' : Cost} (h : mkSlice site n c = .ok c') :
    c' = c.mem n := by
  unfold mkSlice at h
  split at h
  · cases h
  · cases h; rfl

/-- four bytes read: two words below 65536 -/
theorem rec4_ok (s1 s2 : String) {site : String} {b : Bytes} {q : Nat} {buf : Bytes}
    (h : readBytes site b q 4 = .ok buf) :
    ∃ x y, w16 s1 buf 0 = .ok x ∧ w16 s2 buf 2 = .ok y ∧ x < 65536 ∧ y < 65536 ∧
      q + 4 ≤ b.length := by
  obtain ⟨hl, hq⟩ := readBytes_ok_length h
  obtain ⟨x, hx, hx'⟩ := w16_ok s1 buf 0 (by omega)
  obtain ⟨y, hy, hy'⟩ := w16_ok s2 buf 2 (by omega)
  exact ⟨x, y, hx, hy, hx', hy', hq⟩

/-! ## word loops -/

theorem u16Loop_noPanic (site : String) (b : Bytes) : ∀ (n q : Nat) (acc : List Nat) (c : Cost),
    (u16Loop site b n q acc c).noPanic
  | 0, _, _, _ => True.intro
  | n+1, q, acc, c => by
    unfold u16Loop
    exact bind_noPanic (readU16_noPanic _ _ _) (fun v _ => u16Loop_noPanic site b n _ _ _)

theorem u16Loop_ok (site : String) (b : Bytes) : ∀ (n q : Nat) (acc : List Nat) (c : Cost)
    (r : List Nat) (q' : Nat) (c' : Cost), u16Loop site b n q acc c = .ok (r, q', c') →
    r.length = acc.length + n ∧ q' = q + 2 * n ∧ c'.steps = c.steps + n ∧ c'.alloc = c.alloc ∧
      (n = 0 ∨ q + 2 * n ≤ b.length)
  | 0, _, _, _, _, _, _, h => by
    unfold u16Loop at h
    cases h
    simp
  | n+1, q, acc, c, r, q', c', h => by
    unfold u16Loop at h
    obtain ⟨v, hv, h⟩ := bind_eq_ok h
    obtain ⟨_, _, hq⟩ := readU16_ok hv
    have ih := u16Loop_ok site b n _ _ _ _ _ _ h
    simp only [List.length_cons, Cost.tick] at ih
    omega

theorem readU16Slice_noPanic (b : Bytes) (q : Nat) (c : Cost) : (readU16Slice b q c).noPanic := by
  unfold readU16Slice
  refine bind_noPanic (readU16_noPanic _ _ _) (fun n hn => ?_)
  obtain ⟨_, hlt, _⟩ := readU16_ok hn
  rw [mkSlice_ok _ _ _ hlt, ok_bind]
  exact u16Loop_noPanic _ b n _ _ _

theorem readU16Slice_ok {b : Bytes} {q : Nat} {c : Cost} {r : List Nat} {q' : Nat} {c' : Cost}
    (h : readU16Slice b q c = .ok (r, q', c')) :
    r.length < 65536 ∧ q' = q + 2 + 2 * r.length ∧ c'.steps = c.steps + 1 + r.length ∧
      c'.alloc = c.alloc + r.length ∧ q + 2 + 2 * r.length ≤ b.length := by
  unfold readU16Slice at h
  obtain ⟨n, hn, h⟩ := bind_eq_ok h
  obtain ⟨_, hlt, hq⟩ := readU16_ok hn
  rw [mkSlice_ok _ _ _ hlt, ok_bind] at h
  have := u16Loop_ok _ b n _ _ _ _ _ _ h
  simp only [List.length_nil, Cost.tick, Cost.mem] at this
  omega

/-! ## readNested -/

theorem nestedLoop_noPanic (b : Bytes) : ∀ (n q : Nat) (acc : List Action) (c : Cost),
    (nestedLoop b n q acc c).noPanic
  | 0, _, _, _ => True.intro
  | n+1, q, acc, c => by
    unfold nestedLoop
    refine bind_noPanic (readBytes_noPanic _ _ _ _ (by omega)) (fun buf hbuf => ?_)
    obtain ⟨si, li, hs, hl, _⟩ := rec4_ok "nested.go:40#buf[0],buf[1]" "nested.go:41#buf[2],buf[3]" hbuf
    rw [hs, ok_bind, hl, ok_bind]
    exact nestedLoop_noPanic b n _ _ _

theorem nestedLoop_ok (b : Bytes) : ∀ (n q : Nat) (acc : List Action) (c : Cost)
    (r : List Action) (q' : Nat) (c' : Cost), nestedLoop b n q acc c = .ok (r, q', c') →
    r.length = acc.length + n ∧ q' = q + 4 * n ∧ c'.steps = c.steps + n ∧ c'.alloc = c.alloc ∧
      (n = 0 ∨ q + 4 * n ≤ b.length)
  | 0, _, _, _, _, _, _, h => by
    unfold nestedLoop at h
    cases h
    simp
  | n+1, q, acc, c, r, q', c', h => by
    unfold nestedLoop at h
    obtain ⟨buf, hbuf, h⟩ := bind_eq_ok h
    obtain ⟨_, hq⟩ := readBytes_ok_length hbuf
    obtain ⟨si, _, h⟩ := bind_eq_ok h
    obtain ⟨li, _, h⟩ := bind_eq_ok h
    have ih := nestedLoop_ok b n _ _ _ _ _ _ h
    simp only [List.length_cons, Cost.tick] at ih
    omega

/-- `readNested` never panics (a count below `2^47`: `make([]SeqLookup, n)` itself panics beyond
the address space; every caller passes a 16-bit word, see `readRule_noPanic`,
`readSeqContext3_noPanic`) -/
theorem readNested_noPanic (b : Bytes) (q count : Nat) (c : Cost) (h : count < 2 ^ 47) :
    (readNested b q count c).noPanic := by
  unfold readNested mkSlice
  rw [if_neg (by omega), ok_bind]
  exact nestedLoop_noPanic b count _ _ _

/-- cost of `readNested`: LINEAR in the count — exactly `count` reads and `count` elements, and a
successful run has found all `4·count` bytes -/
theorem readNested_cost {b : Bytes} {q count : Nat} {c : Cost} {r : List Action} {q' : Nat}
    {c' : Cost} (h : readNested b q count c = .ok (r, q', c')) :
    r.length = count ∧ q' = q + 4 * count ∧ c'.steps = c.steps + count ∧
      c'.alloc = c.alloc + count ∧ (count = 0 ∨ q + 4 * count ≤ b.length) := by
  unfold readNested at h
  obtain ⟨c1, h1, h⟩ := bind_eq_ok h
  have := mkSlice_eq h1
  subst this
  have := nestedLoop_ok b count _ _ _ _ _ _ h
  simp only [List.length_nil, Cost.mem] at this
  omega

/-! ## one rule -/

theorem readRule_noPanic (f2 : Bool) (b : Bytes) (q : Nat) (c : Cost) :
    (readRule f2 b q c).noPanic := by
  unfold readRule
  refine bind_noPanic (readBytes_noPanic _ _ _ _ (by omega)) (fun buf hbuf => ?_)
  obtain ⟨gc, lc, hg, hl, hglt, hllt, _⟩ := rec4_ok
    (st f2 "nested.go:111#buf[0],buf[1]" "nested.go:348#buf[0],buf[1]")
    (st f2 "nested.go:118#buf[2],buf[3]" "nested.go:355#buf[2],buf[3]") hbuf
  dsimp only
  rw [hg, ok_bind]
  split
  · exact True.intro
  rename_i hg0
  rw [hl, ok_bind, mkSliceI_ok _ gc _ (by omega) hglt, ok_bind]
  refine bind_noPanic (u16Loop_noPanic _ b _ _ _ _) (fun ⟨input, q1, c1⟩ _ => ?_)
  dsimp only
  refine bind_noPanic (readNested_noPanic b q1 lc c1 (by omega)) (fun ⟨acts, _, c2⟩ _ => ?_)
  exact True.intro

/-- cost of one rule visit: `1 + inputs + actions` steps, `inputs + actions + 1` elements, and
the record `4 + 2·inputs + 4·actions` bytes long lies inside the input -/
theorem readRule_cost {f2 : Bool} {b : Bytes} {q : Nat} {c : Cost} {r : Rule} {sz : Nat} {c' : Cost}
    (h : readRule f2 b q c = .ok (r, sz, c')) :
    sz = 4 + 2 * r.input.length + 4 * r.actions.length ∧
      c'.steps = c.steps + 1 + r.input.length + r.actions.length ∧
      c'.alloc = c.alloc + r.input.length + r.actions.length + 1 ∧ q + sz ≤ b.length := by
  unfold readRule at h
  obtain ⟨buf, hbuf, h⟩ := bind_eq_ok h
  obtain ⟨_, hq⟩ := readBytes_ok_length hbuf
  dsimp only at h
  obtain ⟨gc, hg, h⟩ := bind_eq_ok h
  have hglt := w16_lt hg
  split at h
  · cases h
  rename_i hg0
  obtain ⟨lc, hl, h⟩ := bind_eq_ok h
  rw [mkSliceI_ok _ gc _ (by omega) hglt, ok_bind] at h
  obtain ⟨⟨input, q1, c1⟩, hu, h⟩ := bind_eq_ok h
  dsimp only at h
  obtain ⟨⟨acts, q2, c2⟩, hn, h⟩ := bind_eq_ok h
  dsimp only at h
  cases h
  have k1 := u16Loop_ok _ b _ _ _ _ _ _ _ hu
  have k2 := readNested_cost hn
  simp only [List.length_nil, Cost.tick, Cost.mem] at k1 k2 ⊢
  have : ((gc : Int) - 1).toNat = gc - 1 := by omega
  rw [this] at k1
  refine ⟨trivial, ?_⟩
  omega

/-! ## the rules of one set -/

theorem rulesLoop_noPanic (f2 : Bool) (b : Bytes) (base i nsets nrules : Nat) (hi : i < nsets) :
    ∀ (os : List Nat) (j : Nat) (acc : List Rule) (total : Nat) (c : Cost),
      j + os.length ≤ nrules → (rulesLoop f2 b base i nsets nrules os j acc total c).noPanic
  | [], _, _, _, _, _ => True.intro
  | o :: os, j, acc, total, c, hj => by
    unfold rulesLoop
    refine bind_noPanic (readRule_noPanic f2 b _ _) (fun ⟨r, sz, c1⟩ _ => ?_)
    simp only [List.length_cons] at hj
    dsimp only
    rw [chk_ok _ hi, ok_bind, chk_ok _ (by omega : j < nrules), ok_bind]
    exact rulesLoop_noPanic f2 b base i nsets nrules hi os (j + 1) _ _ _ (by omega)

/-- cost of the rules of one set, two ways: against the running size (`total`, what format 2
caps) and against the input length (every visit at most `|b|/2` steps and elements) -/
theorem rulesLoop_cost (f2 : Bool) (b : Bytes) (base i nsets nrules : Nat) :
    ∀ (os : List Nat) (j : Nat) (acc : List Rule) (total : Nat) (c : Cost)
      (rs : List Rule) (total' : Nat) (c' : Cost),
      rulesLoop f2 b base i nsets nrules os j acc total c = .ok (rs, total', c') →
      rs.length = acc.length + os.length ∧
      c'.steps + total ≤ c.steps + total' ∧ c'.alloc + total ≤ c.alloc + total' ∧
      c'.steps ≤ c.steps + os.length * (b.length / 2) ∧
      c'.alloc ≤ c.alloc + os.length * (b.length / 2)
  | [], _, _, _, _, _, _, _, h => by
    unfold rulesLoop at h
    cases h
    simp
  | o :: os, j, acc, total, c, rs, total', c', h => by
    unfold rulesLoop at h
    obtain ⟨⟨r, sz, c1⟩, hr, h⟩ := bind_eq_ok h
    dsimp only at h
    obtain ⟨_, _, h⟩ := bind_eq_ok h
    obtain ⟨_, _, h⟩ := bind_eq_ok h
    have k := readRule_cost hr
    have ih := rulesLoop_cost f2 b base i nsets nrules os _ _ _ _ _ _ _ h
    simp only [List.length_cons, Cost.tick] at k ih ⊢
    rw [Nat.succ_mul]
    omega

/-! ## the rule sets -/

theorem setsLoop_noPanic (f2 : Bool) (b : Bytes) (pos nsets : Nat) :
    ∀ (os : List Nat) (i : Nat) (acc : Sets) (total : Nat) (c : Cost),
      i + os.length ≤ nsets → (setsLoop f2 b pos nsets os i acc total c).noPanic
  | [], _, _, _, _, _ => True.intro
  | o :: os, i, acc, total, c, hi => by
    unfold setsLoop
    simp only [List.length_cons] at hi
    split
    · exact setsLoop_noPanic f2 b pos nsets os (i + 1) _ _ _ (by omega)
    refine bind_noPanic (readU16Slice_noPanic b _ _) (fun ⟨offs, q1, c1⟩ hs => ?_)
    obtain ⟨hlt, _⟩ := readU16Slice_ok hs
    dsimp only
    rw [mkSlice_ok _ _ _ hlt, ok_bind, chk_ok _ (by omega : i < nsets), ok_bind,
      chk_ok _ (by omega : i < nsets), ok_bind]
    refine bind_noPanic (rulesLoop_noPanic f2 b _ i nsets offs.length (by omega) offs 0 _ _ _
      (by omega)) (fun ⟨rules, t1, c2⟩ _ => ?_)
    exact setsLoop_noPanic f2 b pos nsets os (i + 1) _ _ _ (by omega)

/-- `R ≤ h − 1` rules of at most `h` steps each, plus the offsets: at most `h² + 1` steps and
`h² + h` elements per rule set -/
theorem set_arith {R h x y : Nat} (hR : R + 1 ≤ h) (hx : x ≤ R * h) (hy : y ≤ R * h) :
    2 + R + x ≤ h * h + 1 ∧ R + R + y ≤ h * h + h := by
  have h1 : R * h ≤ (h - 1) * h := Nat.mul_le_mul_right h (by omega)
  have h2 : (h - 1) * h = h * h - h := by rw [Nat.sub_mul, Nat.one_mul]
  have h3 : h ≤ h * h := Nat.le_mul_self h
  omega

/-- cost of the rule-set loop, two ways: against the running size `total` (one extra step per
nil set) and against the input length: every set visit at most `h² + 1` steps and `h² + h`
elements, `h = |b|/2` — the rule offsets of a set may all point at one rule, the set offsets at one
set -/
theorem setsLoop_cost (f2 : Bool) (b : Bytes) (pos nsets : Nat) :
    ∀ (os : List Nat) (i : Nat) (acc : Sets) (total : Nat) (c : Cost)
      (ss : Sets) (total' : Nat) (c' : Cost),
      setsLoop f2 b pos nsets os i acc total c = .ok (ss, total', c') →
      ss.length = acc.length + os.length ∧
      c'.steps + total ≤ c.steps + total' + os.length ∧ c'.alloc + total ≤ c.alloc + total' ∧
      c'.steps ≤ c.steps + os.length * (b.length / 2 * (b.length / 2) + 1) ∧
      c'.alloc ≤ c.alloc + os.length * (b.length / 2 * (b.length / 2) + b.length / 2)
  | [], _, _, _, _, _, _, _, h => by
    unfold setsLoop at h
    cases h
    simp
  | o :: os, i, acc, total, c, ss, total', c', h => by
    unfold setsLoop at h
    split at h
    · have ih := setsLoop_cost f2 b pos nsets os _ _ _ _ _ _ _ h
      simp only [List.length_cons, Cost.tick] at ih ⊢
      rw [Nat.succ_mul, Nat.succ_mul]
      omega
    obtain ⟨⟨offs, q1, c1⟩, hs, h⟩ := bind_eq_ok h
    dsimp only at h
    obtain ⟨c2, hm, h⟩ := bind_eq_ok h
    have := mkSlice_eq hm
    subst this
    obtain ⟨_, _, h⟩ := bind_eq_ok h
    obtain ⟨_, _, h⟩ := bind_eq_ok h
    obtain ⟨⟨rules, t1, c3⟩, hr, h⟩ := bind_eq_ok h
    dsimp only at h
    have k1 := readU16Slice_ok hs
    have k2 := rulesLoop_cost f2 b _ i nsets offs.length offs _ _ _ _ _ _ _ hr
    have ih := setsLoop_cost f2 b pos nsets os _ _ _ _ _ _ _ h
    simp only [List.length_cons, List.length_nil, Cost.tick, Cost.mem] at k1 k2 ih ⊢
    rw [Nat.succ_mul, Nat.succ_mul]
    have hR : offs.length + 1 ≤ b.length / 2 := by omega
    have ha := set_arith (x := c3.steps - (c1.steps)) (y := c3.alloc - (c1.alloc + offs.length)) hR
      (by omega) (by omega)
    omega


/-! ## what `coverage.Read` and `classdef.Read` return -/

/-- the entries `(g_k, k)` of a strictly increasing glyph list: a valid `coverage.Table` -/
def CovOk (es : List (Nat × Nat)) : Prop :=
  ∃ gs : List Nat, es = gs.zipIdx ∧ gs.Pairwise (· < ·)

theorem covLoop1_inv (b : Bytes) : ∀ (n q i : Nat) (prev : Int) (acc : List (Nat × Nat))
    (c : Cost) (r : List (Nat × Nat)) (c' : Cost), covLoop1 b n q i prev acc c = .ok (r, c') →
    ∀ gs0 : List Nat, acc.reverse = gs0.zipIdx → gs0.length = i → gs0.Pairwise (· < ·) →
      (∀ g ∈ gs0, (g : Int) ≤ prev) → CovOk r ∧ r.length + c.alloc = acc.length + c'.alloc
  | 0, _, _, _, acc, c, r, c', h, gs0, ha, _, hp, _ => by
    unfold covLoop1 at h
    cases h
    exact ⟨⟨gs0, ha, hp⟩, by rw [List.length_reverse]⟩
  | n+1, q, i, prev, acc, c, r, c', h, gs0, ha, hl, hp, hb => by
    unfold covLoop1 at h
    obtain ⟨gid, hg, h⟩ := bind_eq_ok h
    split at h
    · cases h
    rename_i hgt
    have ih := covLoop1_inv b n _ _ _ _ _ _ _ h (gs0 ++ [gid])
      (by rw [List.reverse_cons, ha, List.zipIdx_append]; simp [hl])
      (by simp [hl])
      (by
        rw [List.pairwise_append]
        refine ⟨hp, List.pairwise_singleton _ _, ?_⟩
        intro a ha' x hx
        simp only [List.mem_singleton] at hx
        subst hx
        have := hb a ha'
        omega)
      (by
        intro g hg'
        rw [List.mem_append] at hg'
        rcases hg' with h1 | h1
        · have := hb g h1; omega
        · simp only [List.mem_singleton] at h1
          subst h1
          omega)
    simp only [List.length_cons, Cost.tick, Cost.mem] at ih ⊢
    exact ⟨ih.1, by omega⟩

theorem covLoop2_inv (b : Bytes) : ∀ (n q pos : Nat) (prev : Int) (acc : List (Nat × Nat))
    (c : Cost) (r : List (Nat × Nat)) (c' : Cost), covLoop2 b n q pos prev acc c = .ok (r, c') →
    ∀ gs0 : List Nat, acc.reverse = gs0.zipIdx → gs0.length = pos → gs0.Pairwise (· < ·) →
      (∀ g ∈ gs0, (g : Int) ≤ prev) → CovOk r ∧ r.length + c.alloc = acc.length + c'.alloc
  | 0, _, _, _, acc, c, r, c', h, gs0, ha, _, hp, _ => by
    unfold covLoop2 at h
    cases h
    exact ⟨⟨gs0, ha, hp⟩, by rw [List.length_reverse]⟩
  | n+1, q, pos, prev, acc, c, r, c', h, gs0, ha, hl, hp, hb => by
    unfold covLoop2 at h
    obtain ⟨buf, hbuf, h⟩ := bind_eq_ok h
    obtain ⟨s, _, h⟩ := bind_eq_ok h
    obtain ⟨e, _, h⟩ := bind_eq_ok h
    obtain ⟨sci, _, h⟩ := bind_eq_ok h
    split at h
    · cases h
    rename_i hcond
    dsimp only at h
    have ih := covLoop2_inv b n _ _ _ _ _ _ _ h (gs0 ++ List.range' s (e + 1 - s))
      (by
        rw [List.reverse_append, List.reverse_reverse, ha, List.zipIdx_append, hl, Nat.zero_add])
      (by rw [List.length_append, List.length_range', hl])
      (by
        rw [List.pairwise_append]
        refine ⟨hp, List.pairwise_lt_range', ?_⟩
        intro a ha' x hx
        rw [List.mem_range'_1] at hx
        have := hb a ha'
        omega)
      (by
        intro g hg'
        rw [List.mem_append] at hg'
        rcases hg' with h1 | h1
        · have := hb g h1; omega
        · rw [List.mem_range'_1] at h1
          omega)
    simp only [List.length_append, List.length_reverse, List.length_zipIdx, List.length_range',
      Cost.tick, Cost.mem] at ih ⊢
    exact ⟨ih.1, by omega⟩

/-- `coverage.Read` returns a valid table (`len(cov)` entries, one element allocated per entry) -/
theorem coverageRead_inv {b : Bytes} {pos : Nat} {es : List (Nat × Nat)} {c : Cost}
    (h : coverageRead b pos = .ok (es, c)) : CovOk es ∧ es.length + 1 = c.alloc := by
  unfold coverageRead at h
  obtain ⟨format, _, h⟩ := bind_eq_ok h
  dsimp only at h
  split at h
  · obtain ⟨n, _, h⟩ := bind_eq_ok h
    have := covLoop1_inv b n _ _ _ _ _ _ _ h [] rfl rfl List.Pairwise.nil (fun _ hg => nomatch hg)
    simp only [List.length_nil, Cost.tick, Cost.mem, Cost.zero] at this
    exact ⟨this.1, by omega⟩
  split at h
  · obtain ⟨n, _, h⟩ := bind_eq_ok h
    have := covLoop2_inv b n _ _ _ _ _ _ _ h [] rfl rfl List.Pairwise.nil (fun _ hg => nomatch hg)
    simp only [List.length_nil, Cost.tick, Cost.mem, Cost.zero] at this
    exact ⟨this.1, by omega⟩
  · cases h

theorem coverageRead_len {b : Bytes} {pos : Nat} {es : List (Nat × Nat)} {c : Cost}
    (h : coverageRead b pos = .ok (es, c)) : es.length ≤ 65536 := by
  have := (coverageRead_inv h).2
  have := (coverageRead_cost b pos es c h).2
  omega

/-- `cov.EncodeLen()` of a table returned by `coverage.Read` never panics -/
theorem covEncodeLen_ok {es : List (Nat × Nat)} (h : CovOk es) (c : Cost) :
    ∃ n, covEncodeLen es c = .ok (n, (c.mem es.length).tick (3 * es.length)) := by
  obtain ⟨gs, rfl, hp⟩ := h
  unfold covEncodeLen
  have h1 : SfntV.Otl.Cov.revOf (gs.zipIdx.map fun p => (p.1, (p.2 : Int))) = .ok gs :=
    SfntV.Otl.Cov.revOf_table gs _ (List.Perm.refl _)
  rw [h1]
  have hi := SfntV.Otl.Cov.increasing_of_pairwise gs hp
  simp only [SfntV.Otl.Cov.encodeLen, hi, Bool.not_true, Bool.false_eq_true, if_false]
  exact ⟨_, rfl⟩

theorem cdLoop1_len (b : Bytes) (start : Nat) : ∀ (n q i : Nat) (acc : List (Nat × Nat))
    (c : Cost) (r : List (Nat × Nat)) (c' : Cost), cdLoop1 b start n q i acc c = .ok (r, c') →
    r.length ≤ acc.length + n
  | 0, _, _, _, _, _, _, h => by
    unfold cdLoop1 at h
    cases h
    simp
  | n+1, q, i, acc, c, r, c', h => by
    unfold cdLoop1 at h
    obtain ⟨cv, _, h⟩ := bind_eq_ok h
    have ih := cdLoop1_len b start n _ _ _ _ _ _ h
    split at ih
    · simp only [List.length_cons] at ih
      omega
    · omega

theorem cdLoop2_len (fixed : Bool) (b : Bytes) : ∀ (n q i prevEnd : Nat)
    (acc : List (Nat × Nat)) (c : Cost) (r : List (Nat × Nat)) (c' : Cost),
    cdLoop2 fixed b n q i prevEnd acc c = .ok (r, c') →
    r.length + c.alloc = acc.length + c'.alloc
  | 0, _, _, _, _, _, _, _, h => by
    unfold cdLoop2 at h
    cases h
    rfl
  | n+1, q, i, prevEnd, acc, c, r, c', h => by
    unfold cdLoop2 at h
    obtain ⟨buf, _, h⟩ := bind_eq_ok h
    obtain ⟨s, _, h⟩ := bind_eq_ok h
    obtain ⟨e, _, h⟩ := bind_eq_ok h
    obtain ⟨cv, _, h⟩ := bind_eq_ok h
    split at h
    · cases h
    split at h
    · cases h
    dsimp only at h
    have ih := cdLoop2_len fixed b n _ _ _ _ _ _ _ h
    simp only [List.length_append, List.length_map, List.length_range', Cost.tick, Cost.mem] at ih
    omega

/-- `classdef.Read` returns at most 65537 entries (at most one per allocated element) -/
theorem classdefRead_len {b : Bytes} {pos : Nat} {es : List (Nat × Nat)} {c : Cost}
    (h : classdefRead b pos = .ok (es, c)) : es.length ≤ 65537 := by
  have hc := (classdefRead_cost b pos es c h).2
  unfold classdefRead classdefReadG at h
  obtain ⟨version, _, h⟩ := bind_eq_ok h
  dsimp only at h
  split at h
  · obtain ⟨data, _, h⟩ := bind_eq_ok h
    obtain ⟨start, _, h⟩ := bind_eq_ok h
    obtain ⟨count, hcount, h⟩ := bind_eq_ok h
    have hclt := w16_lt hcount
    split at h
    · cases h
    rw [mkSlice_ok _ _ _ hclt, ok_bind] at h
    have := cdLoop1_len b start count _ _ _ _ _ _ h
    simp only [List.length_nil] at this
    omega
  split at h
  · obtain ⟨n, _, h⟩ := bind_eq_ok h
    have := cdLoop2_len true b n _ _ _ _ _ _ _ h
    simp only [List.length_nil, Cost.tick, Cost.mem, Cost.zero] at this
    omega
  · cases h

/-! ## readSeqContext1 -/

theorem prune_cost (cov : List (Nat × Nat)) (n : Nat) (c : Cost) :
    (prune cov n c).1.length ≤ cov.length ∧ (prune cov n c).2.steps ≤ c.steps + 2 * cov.length ∧
      (prune cov n c).2.alloc ≤ c.alloc + cov.length := by
  have := List.length_filter_le (fun p : Nat × Nat => decide (p.2 < n)) cov
  simp only [prune, Cost.tick, Cost.mem]
  omega

/-- `readSeqContext1` never panics: all bytes, all parser positions, all subtable positions -/
theorem readSeqContext1_noPanic (b : Bytes) (q pos : Nat) : (readSeqContext1 b q pos).noPanic := by
  unfold readSeqContext1
  refine bind_noPanic (readU16_noPanic _ _ _) (fun covOff _ => ?_)
  refine bind_noPanic (readU16Slice_noPanic _ _ _) (fun ⟨offs, q1, c1⟩ hs => ?_)
  obtain ⟨hlt, _⟩ := readU16Slice_ok hs
  dsimp only
  refine bind_noPanic (coverageRead_noPanic _ _) (fun ⟨cov, cc⟩ _ => ?_)
  dsimp only
  refine bind_noPanic ?_ (fun ⟨cov', offs', c2⟩ h2 => ?_)
  · split
    · exact True.intro
    · rw [sliceTo_ok _ _ (by omega)]
      exact True.intro
  · have hl : offs'.length ≤ offs.length := by
      split at h2
      · cases h2
        exact Nat.le_refl _
      · rw [sliceTo_ok _ _ (by omega)] at h2
        cases h2
        rw [List.length_take]
        omega
    dsimp only
    rw [mkSlice_ok _ _ _ (by omega), ok_bind]
    exact bind_noPanic (setsLoop_noPanic false b pos _ offs' 0 _ _ _ (by omega))
      (fun ⟨sets, t, c3⟩ _ => True.intro)

/-- cost of `readSeqContext1`, the TRUE bound (`h = |b|/2`): `sets·(h² + 1) + 2h + 196610` steps
and `sets·(h² + h) + 2h + 131074` elements, where `sets = min(seqRuleSetCount, len(cov))` is at most
`h` and at most 65536: CUBIC in the input length — the set offsets may all point at one rule set,
its rule offsets at one rule of `h` glyphs; there is no size cap in this reader -/
theorem readSeqContext1_cost (b : Bytes) (q pos : Nat) (r : Ctx1) (c : Cost)
    (h : readSeqContext1 b q pos = .ok (r, c)) :
    c.steps ≤ r.sets.length * (b.length / 2 * (b.length / 2) + 1) + 2 * (b.length / 2) + 196610 ∧
    c.alloc ≤ r.sets.length * (b.length / 2 * (b.length / 2) + b.length / 2) + 2 * (b.length / 2)
      + 131074 ∧
    r.sets.length ≤ b.length / 2 ∧ r.sets.length ≤ 65536 := by
  unfold readSeqContext1 at h
  obtain ⟨covOff, hco, h⟩ := bind_eq_ok h
  obtain ⟨_, _, hq⟩ := readU16_ok hco
  obtain ⟨⟨offs, q1, c1⟩, hs, h⟩ := bind_eq_ok h
  have k1 := readU16Slice_ok hs
  dsimp only at h
  obtain ⟨⟨cov, cc⟩, hcov, h⟩ := bind_eq_ok h
  have k2 := coverageRead_cost b _ cov cc hcov
  have k2' := coverageRead_len hcov
  dsimp only at h
  obtain ⟨⟨cov', offs', c2⟩, h2, h⟩ := bind_eq_ok h
  have k3 : offs'.length ≤ offs.length ∧ c2.steps ≤ (plus c1 cc).steps + 2 * cov.length ∧
      c2.alloc ≤ (plus c1 cc).alloc + cov.length := by
    split at h2
    · cases h2
      have := prune_cost cov offs.length (plus c1 cc)
      exact ⟨Nat.le_refl _, this.2.1, this.2.2⟩
    · obtain ⟨o2, ho2, h2⟩ := bind_eq_ok h2
      rename_i hle
      rw [sliceTo_ok _ _ (by omega)] at ho2
      cases ho2
      cases h2
      rw [List.length_take]
      omega
  dsimp only at h
  obtain ⟨c3, hm, h⟩ := bind_eq_ok h
  have := mkSlice_eq hm
  subst this
  obtain ⟨⟨sets, t, c4⟩, hsets, h⟩ := bind_eq_ok h
  have k4 := setsLoop_cost false b pos _ offs' 0 _ _ _ _ _ _ hsets
  dsimp only at h
  cases h
  simp only [List.length_nil, Cost.tick, Cost.mem, Cost.zero, plus] at k1 k2 k3 k4 ⊢
  rw [k4.1, Nat.zero_add]
  omega

/-! ## readSeqContext2 -/

/-- `readSeqContext2` never panics: all bytes, all parser positions, all subtable positions -/
theorem readSeqContext2_noPanic (b : Bytes) (q pos : Nat) : (readSeqContext2 b q pos).noPanic := by
  unfold readSeqContext2
  refine bind_noPanic (readBytes_noPanic _ _ _ _ (by omega)) (fun buf hbuf => ?_)
  obtain ⟨covOff, cdOff, h1, h2, _⟩ := rec4_ok "nested.go:294#buf[0],buf[1]"
    "nested.go:295#buf[2],buf[3]" hbuf
  rw [h1, ok_bind, h2, ok_bind]
  refine bind_noPanic (readU16Slice_noPanic _ _ _) (fun ⟨offs, q1, c1⟩ hs => ?_)
  obtain ⟨hlt, _⟩ := readU16Slice_ok hs
  dsimp only
  refine bind_noPanic (coverageRead_noPanic _ _) (fun ⟨cov, cc⟩ hcov => ?_)
  dsimp only
  refine bind_noPanic (classdefRead_noPanic _ _) (fun ⟨cd, cc2⟩ _ => ?_)
  dsimp only
  refine bind_noPanic ?_ (fun offs' h2 => ?_)
  · split
    · rw [sliceTo_ok _ _ (by omega)]
      exact True.intro
    · exact True.intro
  · have hl : offs'.length ≤ offs.length := by
      split at h2
      · rw [sliceTo_ok _ _ (by omega)] at h2
        cases h2
        rw [List.length_take]
        omega
      · cases h2
        exact Nat.le_refl _
    rw [mkSlice_ok _ _ _ (by omega), ok_bind]
    refine bind_noPanic (setsLoop_noPanic true b pos _ offs' 0 _ _ _ (by omega))
      (fun ⟨sets, t, c3⟩ _ => ?_)
    dsimp only
    obtain ⟨n, hn⟩ := covEncodeLen_ok (coverageRead_inv hcov).1 c3
    rw [hn, ok_bind]
    dsimp only
    split <;> exact True.intro

/-- cost of `readSeqContext2`: a SUCCESSFUL run is linear, `3·(|b|/2) + 458750` steps and
`2·(|b|/2) + 262138` elements: the running size `total` grows with every rule-set and rule visit
(aliased or not) and is capped at `0xFFFF` — but the cap is tested only AFTER the loops
(nested.go:377), so a REJECTED input has done (and allocated) everything that `setsLoop_cost` allows
(cubic) before it is refused -/
theorem readSeqContext2_cost (b : Bytes) (q pos : Nat) (r : Ctx2) (c : Cost)
    (h : readSeqContext2 b q pos = .ok (r, c)) :
    c.steps ≤ 3 * (b.length / 2) + 458750 ∧ c.alloc ≤ 2 * (b.length / 2) + 262138 ∧
      r.sets.length ≤ b.length / 2 := by
  unfold readSeqContext2 at h
  obtain ⟨buf, hbuf, h⟩ := bind_eq_ok h
  obtain ⟨_, hq⟩ := readBytes_ok_length hbuf
  obtain ⟨covOff, _, h⟩ := bind_eq_ok h
  obtain ⟨cdOff, _, h⟩ := bind_eq_ok h
  obtain ⟨⟨offs, q1, c1⟩, hs, h⟩ := bind_eq_ok h
  have k1 := readU16Slice_ok hs
  dsimp only at h
  obtain ⟨⟨cov, cc⟩, hcov, h⟩ := bind_eq_ok h
  have k2 := coverageRead_cost b _ cov cc hcov
  have k2' := coverageRead_len hcov
  dsimp only at h
  obtain ⟨⟨cd, cc2⟩, hcd, h⟩ := bind_eq_ok h
  have k3 := classdefRead_cost b _ cd cc2 hcd
  have k3' := classdefRead_len hcd
  dsimp only at h
  obtain ⟨offs', h2, h⟩ := bind_eq_ok h
  have k4 : offs'.length ≤ offs.length := by
    split at h2
    · rename_i hgt
      rw [sliceTo_ok _ _ (by omega)] at h2
      cases h2
      rw [List.length_take]
      omega
    · cases h2
      exact Nat.le_refl _
  obtain ⟨c3, hm, h⟩ := bind_eq_ok h
  have := mkSlice_eq hm
  subst this
  obtain ⟨⟨sets, t, c4⟩, hsets, h⟩ := bind_eq_ok h
  have k5 := setsLoop_cost true b pos _ offs' 0 _ _ _ _ _ _ hsets
  dsimp only at h
  obtain ⟨n, hn⟩ := covEncodeLen_ok (coverageRead_inv hcov).1 c4
  rw [hn, ok_bind] at h
  dsimp only at h
  split at h
  · cases h
  rename_i hcap
  cases h
  simp only [List.length_nil, Cost.tick, Cost.mem, Cost.zero, plus] at k1 k2 k3 k5 ⊢
  rw [k5.1, Nat.zero_add]
  omega

/-! ## readSeqContext3 -/

theorem covsLoop_noPanic (b : Bytes) (pos gc : Nat) :
    ∀ (os : List Nat) (i : Nat) (acc : List (List Nat)) (c : Cost),
      i + os.length ≤ gc → (covsLoop b pos gc os i acc c).noPanic
  | [], _, _, _, _ => True.intro
  | o :: os, i, acc, c, hi => by
    unfold covsLoop
    simp only [List.length_cons] at hi
    refine bind_noPanic (readSet_noPanic _ _) (fun ⟨s, cc⟩ _ => ?_)
    dsimp only
    rw [chk_ok _ (by omega : i < gc), ok_bind]
    exact covsLoop_noPanic b pos gc os (i + 1) _ _ (by omega)

/-- every coverage offset is one full `coverage.ReadSet`: at most `|b|/2 + 131073` steps and
131072 elements each (the caps of `readSet_cost`), plus the loop iteration -/
theorem covsLoop_cost (b : Bytes) (pos gc : Nat) :
    ∀ (os : List Nat) (i : Nat) (acc : List (List Nat)) (c : Cost) (r : List (List Nat))
      (c' : Cost), covsLoop b pos gc os i acc c = .ok (r, c') →
      r.length = acc.length + os.length ∧
      c'.steps ≤ c.steps + os.length * (b.length / 2 + 131074) ∧
      c'.alloc ≤ c.alloc + os.length * 131072
  | [], _, _, _, _, _, h => by
    unfold covsLoop at h
    cases h
    simp
  | o :: os, i, acc, c, r, c', h => by
    unfold covsLoop at h
    obtain ⟨⟨s, cc⟩, hs, h⟩ := bind_eq_ok h
    dsimp only at h
    obtain ⟨_, _, h⟩ := bind_eq_ok h
    have k := readSet_cost b _ s cc hs
    have ih := covsLoop_cost b pos gc os _ _ _ _ _ h
    simp only [List.length_cons, Cost.tick, plus] at ih ⊢
    rw [Nat.succ_mul]
    omega

/-- `readSeqContext3` never panics: all bytes, all parser positions, all subtable positions -/
theorem readSeqContext3_noPanic (b : Bytes) (q pos : Nat) : (readSeqContext3 b q pos).noPanic := by
  unfold readSeqContext3
  refine bind_noPanic (readBytes_noPanic _ _ _ _ (by omega)) (fun buf hbuf => ?_)
  obtain ⟨gc, lc, h1, h2, hglt, hllt, _⟩ := rec4_ok "nested.go:541#buf[0],buf[1]"
    "nested.go:548#buf[2],buf[3]" hbuf
  rw [h1, ok_bind]
  split
  · exact True.intro
  rw [h2, ok_bind, mkSlice_ok _ _ _ hglt, ok_bind]
  refine bind_noPanic (u16Loop_noPanic _ b _ _ _ _) (fun ⟨offs, q1, c1⟩ hu => ?_)
  obtain ⟨hlen, _⟩ := u16Loop_ok _ b _ _ _ _ _ _ _ hu
  dsimp only
  refine bind_noPanic (readNested_noPanic b q1 lc c1 (by omega)) (fun ⟨acts, q2, c2⟩ _ => ?_)
  dsimp only
  rw [mkSlice_ok _ _ _ hglt, ok_bind]
  simp only [List.length_nil] at hlen
  exact bind_noPanic (covsLoop_noPanic b pos gc offs 0 _ _ (by omega))
    (fun ⟨covs, c3⟩ _ => True.intro)

/-- cost of `readSeqContext3`, the TRUE bound (`h = |b|/2`, `covs = glyphCount ≤ h`): linear in
the header and the actions, plus `glyphCount` coverage-set reads, each capped by a constant
(131072 elements) but each up to `h` steps (the offsets may all point at one long format-1 table):
`covs·(h + 131075) + h` steps, `covs·131074 + h` elements -/
theorem readSeqContext3_cost (b : Bytes) (q pos : Nat) (r : Ctx3) (c : Cost)
    (h : readSeqContext3 b q pos = .ok (r, c)) :
    c.steps ≤ r.covs.length * (b.length / 2 + 131075) + b.length / 2 ∧
    c.alloc ≤ r.covs.length * 131074 + b.length / 2 ∧
    1 ≤ r.covs.length ∧ r.covs.length ≤ b.length / 2 ∧
    r.covs.length + 2 * r.actions.length + 2 ≤ b.length / 2 := by
  unfold readSeqContext3 at h
  obtain ⟨buf, hbuf, h⟩ := bind_eq_ok h
  obtain ⟨_, hq⟩ := readBytes_ok_length hbuf
  obtain ⟨gc, hg, h⟩ := bind_eq_ok h
  have hglt := w16_lt hg
  split at h
  · cases h
  rename_i hg1
  obtain ⟨lc, hl, h⟩ := bind_eq_ok h
  rw [mkSlice_ok _ _ _ hglt, ok_bind] at h
  obtain ⟨⟨offs, q1, c1⟩, hu, h⟩ := bind_eq_ok h
  have k1 := u16Loop_ok _ b _ _ _ _ _ _ _ hu
  dsimp only at h
  obtain ⟨⟨acts, q2, c2⟩, hn, h⟩ := bind_eq_ok h
  have k2 := readNested_cost hn
  dsimp only at h
  rw [mkSlice_ok _ _ _ hglt, ok_bind] at h
  obtain ⟨⟨covs, c3⟩, hc, h⟩ := bind_eq_ok h
  have k3 := covsLoop_cost b pos gc offs 0 _ _ _ _ hc
  dsimp only at h
  cases h
  simp only [List.length_nil, Cost.tick, Cost.mem, Cost.zero] at k1 k2 k3 ⊢
  have e1 : covs.length = gc := by omega
  rw [k3.1, Nat.zero_add, k1.1, Nat.zero_add] at *
  have hmul : gc * (b.length / 2 + 131075) = gc * (b.length / 2 + 131074) + gc := by
    rw [Nat.mul_add, Nat.mul_add]; omega
  omega

/-! ## the dispatch -/

theorem gsub5G_noPanic (old : Bool) (b : Bytes) (pos : Nat) : (gsub5G old b pos).noPanic := by
  unfold gsub5G
  refine bind_noPanic (readU16_noPanic _ _ _) (fun format _ => ?_)
  split
  · exact True.intro
  split
  · exact bind_noPanic (readSeqContext1_noPanic _ _ _) (fun ⟨_, _⟩ _ => True.intro)
  split
  · exact bind_noPanic (readSeqContext2_noPanic _ _ _) (fun ⟨_, _⟩ _ => True.intro)
  split
  · exact bind_noPanic (readSeqContext3_noPanic _ _ _) (fun ⟨_, _⟩ _ => True.intro)
  split <;> exact True.intro

/-- `readGsubSubtable` with lookup type 5 (as repaired) never panics -/
theorem gsub5_noPanic (b : Bytes) (pos : Nat) : (gsub5 b pos).noPanic := gsub5G_noPanic false b pos

/-- FINDING (repaired in /repo 8867078): before the range check the format word 11 under lookup
type 5 hit the key 6_1 and ran `readChainedSeqContext1`, 65497 wrapped to 1_1 (`readGsub1_1`);
now both are invalid -/
example : gsub5Old [0,11, 0,6, 0,0, 0,1, 0,0] 0 = .err "other-reader" ∧
    gsub5Old [0xff,0xd9, 0,6, 0,0, 0,1, 0,0] 0 = .err "other-reader" ∧
    gsub5 [0,11, 0,6, 0,0, 0,1, 0,0] 0 = .err "invalid" ∧
    gsub5 [0xff,0xd9, 0,6, 0,0, 0,1, 0,0] 0 = .err "invalid" := by decide +kernel

/-! ## non-vacuity -/

/-- two lookup records -/
example : readNested [9, 0,1,0,2, 0,3,0,4] 1 2 Cost.zero = .ok ([(1,2), (3,4)], 9, ⟨2, 2⟩) := by
  decide +kernel

/-- format 1 (as `readGsubSubtable` calls it: parser behind the format word): coverage {5, 6},
first set one rule `7 > 0:1`, second set nil -/
example : readSeqContext1
    [0,1, 0,24, 0,2, 0,10, 0,0,   0,1, 0,4,  0,2, 0,1, 0,7, 0,0, 0,1,   0,1, 0,2, 0,5, 0,6] 2 0
    = .ok (⟨[(5,0), (6,1)], [some [⟨[7], [(0,1)]⟩], none]⟩, ⟨16, 13⟩) := by decide +kernel

/-- format 2: coverage {5}, classes {5 ↦ 1}, set 0 nil, set 1 one rule `1 >` (no actions);
total = 8 + 4 + (2 + 2) + (4 + 2) + 6 = 28 -/
example : readSeqContext2
    [0,2, 0,22, 0,28, 0,2, 0,0, 0,12,   0,1, 0,4,  0,2, 0,0, 0,1,   0,1, 0,1, 0,5,
     0,1, 0,5, 0,1, 0,1] 2 0
    = .ok (⟨[(5,0)], [(5,1)], [none, some [⟨[1], []⟩]]⟩, ⟨21, 13⟩) := by decide +kernel

/-- format 3: two input positions sharing one coverage table {5, 6}, one action -/
example : readSeqContext3 [0,3, 0,2, 0,1, 0,14, 0,14, 0,1, 0,9,   0,1, 0,2, 0,5, 0,6] 2 0
    = .ok (⟨[[5, 6], [5, 6]], [(1,9)]⟩, ⟨14, 12⟩) := by decide +kernel

/-- a glyph count of 0 is refused before `make([]glyph.ID, glyphCount-1)` -/
example : readSeqContext1
    [0,1, 0,16, 0,1, 0,8,   0,1, 0,4,  0,0, 0,0,   0,1, 0,1, 0,5] 2 0
    = .err "invalid" := by decide +kernel

end SfntV.Total.SeqCtx
