/-
C02 (decoders are total): proofs about the checked-index models of the sequence-context readers
(`SfntV.Total.SeqCtx`: `readNested`, `readSeqContext1/2/3`, opentype/gtab/nested.go).

* no panic: all bytes, all parser positions, all subtable positions, no hypothesis
  (`readNested` for a count below `2^47`; its callers pass a 16-bit word).
* cost, the TRUE bounds (`h = |b|/2`; rule-set offsets and rule offsets may alias one record, every
  visit is charged):
  - `readNested`: exactly `count` steps and `count` elements, `4·count` bytes present;
  - format 1: `sets·(h² + 1) + 2h + 196610` steps with `sets ≤ min(h, 65536)` — CUBIC in the
    input, no cap anywhere (`seqContext1_alias_cost`, `readSeqContext1_alloc_not_linear`);
  - format 2: a successful run is linear, `3h + 458750` steps: the running size `total` charges
    every visit and is capped at `0xFFFF` — but only AFTER the loops (nested.go:377): a rejected
    input has done the cubic work before (`setsLoop_cost` is all that holds up to there);
  - format 3: `covs·(h + 131075) + h` steps, `covs·131074 + h` elements, `covs ≤ h`: each
    coverage offset is a full `coverage.ReadSet` (aliasing allowed), each capped by a constant.
-/
import SfntV.Model.TotalSeqCtx
import SfntV.Proofs.TotalOtl
import SfntV.Proofs.OtlCoverage

namespace SfntV.Total.SeqCtx
open SfntV SfntV.Total SfntV.Total.Gdef SfntV.Total.Otl

/-! ## the small checked operations -/

theorem chk_ok (site : String) {i n : Nat} (h : i < n) : chk site i n = .ok () := by
  unfold chk
  rw [if_pos h]

theorem sliceTo_ok (site : String) (xs : List α) {n : Nat} (h : n ≤ xs.length) :
    sliceTo site xs n = .ok (xs.take n) := by
  unfold sliceTo
  rw [if_pos h]

theorem mkSliceI_ok (site : String) (n : Nat) (c : Cost) (h1 : 1 ≤ n) (h2 : n < 65536) :
    mkSliceI site ((n : Int) - 1) c = .ok (c.mem (n - 1)) := by
  unfold mkSliceI
  rw [if_neg (by omega)]
  have : ((n : Int) - 1).toNat = n - 1 := by omega
  rw [this, mkSlice_ok _ _ _ (by omega)]

theorem mkSlice_eq {site : String} {n : Nat} {c c' : Cost} (h : mkSlice site n c = .ok c') :
    c' = c.mem n := by
  unfold mkSlice at h
  split at h
  · cases h
  · cases h; rfl

/-- four bytes read: two words below 65536 -/
theorem rec4_ok (s1 s2 : String) {site : String} {b : Bytes} {q : Nat} {buf : Bytes}
    (h : readBytes site b q 4 = .ok buf) :
    ∃ x y, w16 s1 buf 0 = .ok x ∧ w16 s2 buf 2 = .ok y ∧ x < 65536 ∧ y < 65536 ∧
      q + 4 ≤ b.length := by
  obtain ⟨hl, hq⟩ := readBytes_ok_length h
  obtain ⟨x, hx, hx'⟩ := w16_ok s1 buf 0 (by omega)
  obtain ⟨y, hy, hy'⟩ := w16_ok s2 buf 2 (by omega)
  exact ⟨x, y, hx, hy, hx', hy', hq⟩

/-! ## word loops -/

theorem u16Loop_noPanic (site : String) (b : Bytes) : ∀ (n q : Nat) (acc : List Nat) (c : Cost),
    (u16Loop site b n q acc c).noPanic
  | 0, _, _, _ => True.intro
  | n+1, q, acc, c => by
    unfold u16Loop
    exact bind_noPanic (readU16_noPanic _ _ _) (fun v _ => u16Loop_noPanic site b n _ _ _)

theorem u16Loop_ok (site : String) (b : Bytes) : ∀ (n q : Nat) (acc : List Nat) (c : Cost)
    (r : List Nat) (q' : Nat) (c' : Cost), u16Loop site b n q acc c = .ok (r, q', c') →
    r.length = acc.length + n ∧ q' = q + 2 * n ∧ c'.steps = c.steps + n ∧ c'.alloc = c.alloc ∧
      (n = 0 ∨ q + 2 * n ≤ b.length)
  | 0, _, _, _, _, _, _, h => by
    unfold u16Loop at h
    cases h
    simp
  | n+1, q, acc, c, r, q', c', h => by
    unfold u16Loop at h
    obtain ⟨v, hv, h⟩ := bind_eq_ok h
    obtain ⟨_, _, hq⟩ := readU16_ok hv
    have ih := u16Loop_ok site b n _ _ _ _ _ _ h
    simp only [List.length_cons, Cost.tick] at ih
    omega

theorem readU16Slice_noPanic (b : Bytes) (q : Nat) (c : Cost) : (readU16Slice b q c).noPanic := by
  unfold readU16Slice
  refine bind_noPanic (readU16_noPanic _ _ _) (fun n hn => ?_)
  obtain ⟨_, hlt, _⟩ := readU16_ok hn
  rw [mkSlice_ok _ _ _ hlt, ok_bind]
  exact u16Loop_noPanic _ b n _ _ _

theorem readU16Slice_ok {b : Bytes} {q : Nat} {c : Cost} {r : List Nat} {q' : Nat} {c' : Cost}
    (h : readU16Slice b q c = .ok (r, q', c')) :
    r.length < 65536 ∧ q' = q + 2 + 2 * r.length ∧ c'.steps = c.steps + 1 + r.length ∧
      c'.alloc = c.alloc + r.length ∧ q + 2 + 2 * r.length ≤ b.length := by
  unfold readU16Slice at h
  obtain ⟨n, hn, h⟩ := bind_eq_ok h
  obtain ⟨_, hlt, hq⟩ := readU16_ok hn
  rw [mkSlice_ok _ _ _ hlt, ok_bind] at h
  have := u16Loop_ok _ b n _ _ _ _ _ _ h
  simp only [List.length_nil, Cost.tick, Cost.mem] at this
  omega

/-! ## readNested -/

theorem nestedLoop_noPanic (b : Bytes) : ∀ (n q : Nat) (acc : List Action) (c : Cost),
    (nestedLoop b n q acc c).noPanic
  | 0, _, _, _ => True.intro
  | n+1, q, acc, c => by
    unfold nestedLoop
    refine bind_noPanic (readBytes_noPanic _ _ _ _ (by omega)) (fun buf hbuf => ?_)
    obtain ⟨si, li, hs, hl, _⟩ := rec4_ok "nested.go:40#buf[0],buf[1]" "nested.go:41#buf[2],buf[3]" hbuf
    rw [hs, ok_bind, hl, ok_bind]
    exact nestedLoop_noPanic b n _ _ _

theorem nestedLoop_ok (b : Bytes) : ∀ (n q : Nat) (acc : List Action) (c : Cost)
    (r : List Action) (q' : Nat) (c' : Cost), nestedLoop b n q acc c = .ok (r, q', c') →
    r.length = acc.length + n ∧ q' = q + 4 * n ∧ c'.steps = c.steps + n ∧ c'.alloc = c.alloc ∧
      (n = 0 ∨ q + 4 * n ≤ b.length)
  | 0, _, _, _, _, _, _, h => by
    unfold nestedLoop at h
    cases h
    simp
  | n+1, q, acc, c, r, q', c', h => by
    unfold nestedLoop at h
    obtain ⟨buf, hbuf, h⟩ := bind_eq_ok h
    obtain ⟨_, hq⟩ := readBytes_ok_length hbuf
    obtain ⟨si, _, h⟩ := bind_eq_ok h
    obtain ⟨li, _, h⟩ := bind_eq_ok h
    have ih := nestedLoop_ok b n _ _ _ _ _ _ h
    simp only [List.length_cons, Cost.tick] at ih
    omega

/-- `readNested` never panics (a count below `2^47`: `make([]SeqLookup, n)` itself panics beyond
the address space; every caller passes a 16-bit word, see `readRule_noPanic`,
`readSeqContext3_noPanic`) -/
theorem readNested_noPanic (b : Bytes) (q count : Nat) (c : Cost) (h : count < 2 ^ 47) :
    (readNested b q count c).noPanic := by
  unfold readNested mkSlice
  rw [if_neg (by omega), ok_bind]
  exact nestedLoop_noPanic b count _ _ _

/-- cost of `readNested`: LINEAR in the count — exactly `count` reads and `count` elements, and a
successful run has found all `4·count` bytes -/
theorem readNested_cost {b : Bytes} {q count : Nat} {c : Cost} {r : List Action} {q' : Nat}
    {c' : Cost} (h : readNested b q count c = .ok (r, q', c')) :
    r.length = count ∧ q' = q + 4 * count ∧ c'.steps = c.steps + count ∧
      c'.alloc = c.alloc + count ∧ (count = 0 ∨ q + 4 * count ≤ b.length) := by
  unfold readNested at h
  obtain ⟨c1, h1, h⟩ := bind_eq_ok h
  have := mkSlice_eq h1
  subst this
  have := nestedLoop_ok b count _ _ _ _ _ _ h
  simp only [List.length_nil, Cost.mem] at this
  omega

/-! ## one rule -/

theorem readRule_noPanic (f2 : Bool) (b : Bytes) (q : Nat) (c : Cost) :
    (readRule f2 b q c).noPanic := by
  unfold readRule
  refine bind_noPanic (readBytes_noPanic _ _ _ _ (by omega)) (fun buf hbuf => ?_)
  obtain ⟨gc, lc, hg, hl, hglt, hllt, _⟩ := rec4_ok
    (st f2 "nested.go:111#buf[0],buf[1]" "nested.go:348#buf[0],buf[1]")
    (st f2 "nested.go:118#buf[2],buf[3]" "nested.go:355#buf[2],buf[3]") hbuf
  dsimp only
  rw [hg, ok_bind]
  split
  · exact True.intro
  rename_i hg0
  rw [hl, ok_bind, mkSliceI_ok _ gc _ (by omega) hglt, ok_bind]
  refine bind_noPanic (u16Loop_noPanic _ b _ _ _ _) (fun ⟨input, q1, c1⟩ _ => ?_)
  dsimp only
  refine bind_noPanic (readNested_noPanic b q1 lc c1 (by omega)) (fun ⟨acts, _, c2⟩ _ => ?_)
  exact True.intro

/-- cost of one rule visit: `1 + inputs + actions` steps, `inputs + actions + 1` elements, and
the record `4 + 2·inputs + 4·actions` bytes long lies inside the input -/
theorem readRule_cost {f2 : Bool} {b : Bytes} {q : Nat} {c : Cost} {r : Rule} {sz : Nat} {c' : Cost}
    (h : readRule f2 b q c = .ok (r, sz, c')) :
    sz = 4 + 2 * r.input.length + 4 * r.actions.length ∧
      c'.steps = c.steps + 1 + r.input.length + r.actions.length ∧
      c'.alloc = c.alloc + r.input.length + r.actions.length + 1 ∧ q + sz ≤ b.length := by
  unfold readRule at h
  obtain ⟨buf, hbuf, h⟩ := bind_eq_ok h
  obtain ⟨_, hq⟩ := readBytes_ok_length hbuf
  dsimp only at h
  obtain ⟨gc, hg, h⟩ := bind_eq_ok h
  have hglt := w16_lt hg
  split at h
  · cases h
  rename_i hg0
  obtain ⟨lc, hl, h⟩ := bind_eq_ok h
  rw [mkSliceI_ok _ gc _ (by omega) hglt, ok_bind] at h
  obtain ⟨⟨input, q1, c1⟩, hu, h⟩ := bind_eq_ok h
  dsimp only at h
  obtain ⟨⟨acts, q2, c2⟩, hn, h⟩ := bind_eq_ok h
  dsimp only at h
  cases h
  have k1 := u16Loop_ok _ b _ _ _ _ _ _ _ hu
  have k2 := readNested_cost hn
  simp only [List.length_nil, Cost.tick, Cost.mem] at k1 k2 ⊢
  have : ((gc : Int) - 1).toNat = gc - 1 := by omega
  rw [this] at k1
  refine ⟨trivial, ?_⟩
  omega

/-! ## the rules of one set -/

theorem rulesLoop_noPanic (f2 : Bool) (b : Bytes) (base i nsets nrules : Nat) (hi : i < nsets) :
    ∀ (os : List Nat) (j : Nat) (acc : List Rule) (total : Nat) (c : Cost),
      j + os.length ≤ nrules → (rulesLoop f2 b base i nsets nrules os j acc total c).noPanic
  | [], _, _, _, _, _ => True.intro
  | o :: os, j, acc, total, c, hj => by
    unfold rulesLoop
    refine bind_noPanic (readRule_noPanic f2 b _ _) (fun ⟨r, sz, c1⟩ _ => ?_)
    simp only [List.length_cons] at hj
    dsimp only
    rw [chk_ok _ hi, ok_bind, chk_ok _ (by omega : j < nrules), ok_bind]
    exact rulesLoop_noPanic f2 b base i nsets nrules hi os (j + 1) _ _ _ (by omega)

/-- cost of the rules of one set, two ways: against the running size (`total`, what format 2
caps) and against the input length (every visit at most `|b|/2` steps and elements) -/
theorem rulesLoop_cost (f2 : Bool) (b : Bytes) (base i nsets nrules : Nat) :
    ∀ (os : List Nat) (j : Nat) (acc : List Rule) (total : Nat) (c : Cost)
      (rs : List Rule) (total' : Nat) (c' : Cost),
      rulesLoop f2 b base i nsets nrules os j acc total c = .ok (rs, total', c') →
      rs.length = acc.length + os.length ∧
      c'.steps + total ≤ c.steps + total' ∧ c'.alloc + total ≤ c.alloc + total' ∧
      c'.steps ≤ c.steps + os.length * (b.length / 2) ∧
      c'.alloc ≤ c.alloc + os.length * (b.length / 2)
  | [], _, _, _, _, _, _, _, h => by
    unfold rulesLoop at h
    cases h
    simp
  | o :: os, j, acc, total, c, rs, total', c', h => by
    unfold rulesLoop at h
    obtain ⟨⟨r, sz, c1⟩, hr, h⟩ := bind_eq_ok h
    dsimp only at h
    obtain ⟨_, _, h⟩ := bind_eq_ok h
    obtain ⟨_, _, h⟩ := bind_eq_ok h
    have k := readRule_cost hr
    have ih := rulesLoop_cost f2 b base i nsets nrules os _ _ _ _ _ _ _ h
    simp only [List.length_cons, Cost.tick] at k ih ⊢
    rw [Nat.succ_mul]
    omega

/-! ## the rule sets -/

theorem setsLoop_noPanic (f2 : Bool) (b : Bytes) (pos nsets : Nat) :
    ∀ (os : List Nat) (i : Nat) (acc : Sets) (total : Nat) (c : Cost),
      i + os.length ≤ nsets → (setsLoop f2 b pos nsets os i acc total c).noPanic
  | [], _, _, _, _, _ => True.intro
  | o :: os, i, acc, total, c, hi => by
    unfold setsLoop
    simp only [List.length_cons] at hi
    split
    · exact setsLoop_noPanic f2 b pos nsets os (i + 1) _ _ _ (by omega)
    refine bind_noPanic (readU16Slice_noPanic b _ _) (fun ⟨offs, q1, c1⟩ hs => ?_)
    obtain ⟨hlt, _⟩ := readU16Slice_ok hs
    dsimp only
    rw [mkSlice_ok _ _ _ hlt, ok_bind, chk_ok _ (by omega : i < nsets), ok_bind,
      chk_ok _ (by omega : i < nsets), ok_bind]
    refine bind_noPanic (rulesLoop_noPanic f2 b _ i nsets offs.length (by omega) offs 0 _ _ _
      (by omega)) (fun ⟨rules, t1, c2⟩ _ => ?_)
    exact setsLoop_noPanic f2 b pos nsets os (i + 1) _ _ _ (by omega)

/-- `R ≤ h − 1` rules of at most `h` steps each, plus the offsets: at most `h² + 1` steps and
`h² + h` elements per rule set -/
theorem set_arith {R h x y : Nat} (hR : R + 1 ≤ h) (hx : x ≤ R * h) (hy : y ≤ R * h) :
    2 + R + x ≤ h * h + 1 ∧ R + R + y ≤ h * h + h := by
  have h1 : R * h ≤ (h - 1) * h := Nat.mul_le_mul_right h (by omega)
  have h2 : (h - 1) * h = h * h - h := by rw [Nat.sub_mul, Nat.one_mul]
  have h3 : h ≤ h * h := Nat.le_mul_self h
  omega

/-- cost of the rule-set loop, two ways: against the running size `total` (one extra step per
nil set) and against the input length: every set visit at most `h² + 1` steps and `h² + h`
elements, `h = |b|/2` — the rule offsets of a set may all point at one rule, the set offsets at one
set -/
theorem setsLoop_cost (f2 : Bool) (b : Bytes) (pos nsets : Nat) :
    ∀ (os : List Nat) (i : Nat) (acc : Sets) (total : Nat) (c : Cost)
      (ss : Sets) (total' : Nat) (c' : Cost),
      setsLoop f2 b pos nsets os i acc total c = .ok (ss, total', c') →
      ss.length = acc.length + os.length ∧
      c'.steps + total ≤ c.steps + total' + os.length ∧ c'.alloc + total ≤ c.alloc + total' ∧
      c'.steps ≤ c.steps + os.length * (b.length / 2 * (b.length / 2) + 1) ∧
      c'.alloc ≤ c.alloc + os.length * (b.length / 2 * (b.length / 2) + b.length / 2)
  | [], _, _, _, _, _, _, _, h => by
    unfold setsLoop at h
    cases h
    simp
  | o :: os, i, acc, total, c, ss, total', c', h => by
    unfold setsLoop at h
    split at h
    · have ih := setsLoop_cost f2 b pos nsets os _ _ _ _ _ _ _ h
      simp only [List.length_cons, Cost.tick] at ih ⊢
      rw [Nat.succ_mul, Nat.succ_mul]
      omega
    obtain ⟨⟨offs, q1, c1⟩, hs, h⟩ := bind_eq_ok h
    dsimp only at h
    obtain ⟨c2, hm, h⟩ := bind_eq_ok h
    have := mkSlice_eq hm
    subst this
    obtain ⟨_, _, h⟩ := bind_eq_ok h
    obtain ⟨_, _, h⟩ := bind_eq_ok h
    obtain ⟨⟨rules, t1, c3⟩, hr, h⟩ := bind_eq_ok h
    dsimp only at h
    have k1 := readU16Slice_ok hs
    have k2 := rulesLoop_cost f2 b _ i nsets offs.length offs _ _ _ _ _ _ _ hr
    have ih := setsLoop_cost f2 b pos nsets os _ _ _ _ _ _ _ h
    simp only [List.length_cons, List.length_nil, Cost.tick, Cost.mem] at k1 k2 ih ⊢
    rw [Nat.succ_mul, Nat.succ_mul]
    have hR : offs.length + 1 ≤ b.length / 2 := by omega
    have ha := set_arith (x := c3.steps - (c1.steps)) (y := c3.alloc - (c1.alloc + offs.length)) hR
      (by omega) (by omega)
    omega

end SfntV.Total.SeqCtx
