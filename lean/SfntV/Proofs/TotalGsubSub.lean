/-
C02 (decoders are total): proofs about the checked-index models of the GSUB subtable readers
`readGsub1_1/1_2/2_1/3_1/4_1/8_1` (`SfntV.Total.GsubSub`, Model/TotalGsubSub.lean):
no panic on ALL bytes at ALL positions (no hypothesis), the TRUE cost bounds, the bridge to the
value-level models of C08 (`SfntV.Otl.Gsub`, Model/OtlGsub.lean), non-vacuity examples, and the
aliasing witness family for GSUB 2.1.

Cost summary (proved below).
* 1.1, 1.2: linear plus the coverage cap (a constant).
* 2.1, 3.1: `|b| + K + 2·count + Σ |seq_i|`, i.e. linear in input PLUS OUTPUT; the offsets may
  alias one record, so the output is only bounded by `count · 65535` with `count ≤ |b|/2`:
  NOT linear, no size cap in the code (`alias21_cost`: `2n + 2L + 20` bytes allocate `≥ n·L`).
* 4.1: the same shape before the cap (`read41Pre_cost`, three nested levels of aliasing); the cap
  `total > 0xFFFF` (gsub.go:573) makes every SUCCESSFUL run linear (`read41_cost`), but it is
  tested AFTER all reads and allocations: a rejected input has already done the work.
* 8.1: `(1 + nb + nl)` coverage reads, each capped by a constant (`|b|/2 + 65538` steps, 65537
  map entries): `count × constant`, no size cap.
-/
import SfntV.Model.TotalGsubSub
import SfntV.Proofs.TotalOtlBridge

namespace SfntV.Total.GsubSub
open SfntV SfntV.Total SfntV.Total.Gdef SfntV.Total.Otl
open SfntV.Otl (bytesToWords eIO eInvalid)
open SfntV.Otl.Gsub (Lig Rev81 Sub lig41Total ligSetLen)

/-! ## small facts -/

theorem chkIdx_ok (site : String) {len i : Nat} (h : i < len) : chkIdx site len i = .ok () := by
  unfold chkIdx
  rw [if_pos h]

theorem sum_map_le {α : Type} (f g : α → Nat) : ∀ l : List α, (∀ x ∈ l, f x ≤ g x) →
    (l.map f).sum ≤ (l.map g).sum
  | [], _ => Nat.le_refl _
  | a :: l, h => by
    have h1 := h a (List.mem_cons_self)
    have h2 := sum_map_le f g l (fun x hx => h x (List.mem_cons_of_mem _ hx))
    simp only [List.map_cons, List.sum_cons]
    omega

theorem sum_map_le_const {α : Type} (f : α → Nat) (K : Nat) : ∀ l : List α, (∀ x ∈ l, f x ≤ K) →
    (l.map f).sum ≤ l.length * K
  | [], _ => by simp
  | a :: l, h => by
    have h1 := h a (List.mem_cons_self)
    have h2 := sum_map_le_const f K l (fun x hx => h x (List.mem_cons_of_mem _ hx))
    simp only [List.map_cons, List.sum_cons, List.length_cons, Nat.add_mul, Nat.one_mul]
    omega

theorem sum_map_const {α : Type} (K : Nat) : ∀ l : List α, (l.map (fun _ => K)).sum = l.length * K
  | [] => by simp
  | a :: l => by
    simp only [List.map_cons, List.sum_cons, List.length_cons, Nat.add_mul, Nat.one_mul,
      sum_map_const K l]
    omega

/-! ## the element loop and the counted arrays -/

theorem wordsLoop_noPanic (site : String) (chk : Nat → Outcome Unit) (b : Bytes) :
    ∀ (n q j : Nat) (acc : List Nat) (c : Cost), (∀ k, j ≤ k → k < j + n → chk k = .ok ()) →
      (wordsLoop site chk b n q j acc c).noPanic
  | 0, _, _, _, _, _ => True.intro
  | n+1, q, j, acc, c, h => by
    unfold wordsLoop
    refine bind_noPanic (readU16_noPanic _ _ _) (fun v _ => ?_)
    rw [h j (Nat.le_refl _) (by omega), ok_bind]
    exact wordsLoop_noPanic site chk b n _ _ _ _ (fun k h1 h2 => h k (by omega) (by omega))

theorem wordsLoop_ok (site : String) (chk : Nat → Outcome Unit) (b : Bytes) :
    ∀ (n q j : Nat) (acc : List Nat) (c : Cost) (r : List Nat) (c' : Cost),
      wordsLoop site chk b n q j acc c = .ok (r, c') →
      r.length = acc.length + n ∧ c'.steps = c.steps + n ∧ c'.alloc = c.alloc ∧
        (n = 0 ∨ q + 2 * n ≤ b.length)
  | 0, _, _, _, _, _, _, h => by
    unfold wordsLoop at h
    cases h
    simp
  | n+1, q, j, acc, c, r, c', h => by
    unfold wordsLoop at h
    obtain ⟨v, hv, h⟩ := bind_eq_ok h
    obtain ⟨_, _, h⟩ := bind_eq_ok h
    obtain ⟨_, _, hq⟩ := readU16_ok hv
    have ih := wordsLoop_ok site chk b n _ _ _ _ _ _ h
    simp only [List.length_cons, Cost.tick] at ih
    omega

theorem wordsLoop_erase (site : String) (chk : Nat → Outcome Unit) (b : Bytes) :
    ∀ (n q j : Nat) (acc : List Nat) (c : Cost), (∀ k, j ≤ k → k < j + n → chk k = .ok ()) →
      erase (wordsLoop site chk b n q j acc c)
        = if n ≤ (bytesToWords (b.drop q)).length
          then .ok (acc.reverse ++ (bytesToWords (b.drop q)).take n) else .err eIO
  | 0, _, _, acc, _, _ => by simp [wordsLoop, erase]
  | n+1, q, j, acc, c, h => by
    unfold wordsLoop
    rcases word_cases site b q with ⟨w, hw, hws⟩ | ⟨hw, hws⟩
    · rw [hw, hws, ok_bind, h j (Nat.le_refl _) (by omega), ok_bind,
        wordsLoop_erase site chk b n (q + 2) (j + 1) _ _
          (fun k h1 h2 => h k (by omega) (by omega))]
      simp only [List.length_cons, Nat.add_le_add_iff_right, List.take_succ_cons,
        List.reverse_cons, List.append_assoc, List.singleton_append]
    · rw [hw, hws]
      rfl

theorem noChk_ok (j n : Nat) : ∀ k, j ≤ k → k < j + n → noChk k = .ok () := fun _ _ _ => rfl

theorem readCounted_noPanic (sN sMk sV : String) (b : Bytes) (q : Nat) (c : Cost) :
    (readCounted sN sMk sV b q c).noPanic := by
  unfold readCounted
  refine bind_noPanic (readU16_noPanic _ _ _) (fun n hn => ?_)
  obtain ⟨_, hlt, _⟩ := readU16_ok hn
  rw [mkSlice_ok _ _ _ hlt, ok_bind]
  exact wordsLoop_noPanic _ _ b n _ _ _ _ (noChk_ok 0 n)

/-- a counted array that was read: fewer than 65536 elements, all of them inside the input;
`1 + len` reads, `len` elements -/
theorem readCounted_ok {sN sMk sV : String} {b : Bytes} {q : Nat} {c : Cost} {r : List Nat}
    {c' : Cost} (h : readCounted sN sMk sV b q c = .ok (r, c')) :
    r.length < 65536 ∧ c'.steps = c.steps + 1 + r.length ∧ c'.alloc = c.alloc + r.length ∧
      q + 2 + 2 * r.length ≤ b.length := by
  unfold readCounted at h
  obtain ⟨n, hn, h⟩ := bind_eq_ok h
  obtain ⟨_, hlt, hq⟩ := readU16_ok hn
  rw [mkSlice_ok _ _ _ hlt, ok_bind] at h
  have := wordsLoop_ok _ _ b n _ _ _ _ _ _ h
  simp only [List.length_nil, Cost.tick, Cost.mem] at this
  omega

/-- the word view of a counted array -/
def countedW : List Nat → Outcome (List Nat)
  | n :: rest => if rest.length < n then .err eIO else .ok (rest.take n)
  | [] => .err eIO

theorem countedW_cons (n : Nat) (rest : List Nat) :
    countedW (n :: rest) = if rest.length < n then .err eIO else .ok (rest.take n) := rfl

theorem readCounted_erase (sN sMk sV : String) (b : Bytes) (q : Nat) (c : Cost) :
    erase (readCounted sN sMk sV b q c) = countedW (bytesToWords (b.drop q)) := by
  unfold readCounted
  rcases word_cases sN b q with ⟨n, hn, hws⟩ | ⟨hn, hws⟩
  · obtain ⟨_, hlt, _⟩ := readU16_ok hn
    rw [hn, hws, ok_bind, mkSlice_ok _ _ _ hlt, ok_bind,
      wordsLoop_erase _ _ b n _ _ _ _ (noChk_ok 0 n)]
    rw [countedW_cons]
    by_cases hle : n ≤ (bytesToWords (b.drop (q + 2))).length
    · rw [if_pos hle, if_neg (by omega)]
      rfl
    · rw [if_neg hle, if_pos (by omega)]
  · rw [hn, hws]
    rfl

theorem gsub_readCounted_eq (b : Bytes) (off : Nat) :
    SfntV.Otl.Gsub.readCounted b off = countedW (bytesToWords (b.drop off)) := by
  unfold SfntV.Otl.Gsub.readCounted countedW
  generalize bytesToWords (b.drop off) = ws
  cases ws <;> rfl

/-! ## prune / truncate -/

/-- `pruneStep` always succeeds (the slice bound is the branch condition), gives the value of
the C08 model, and costs at most two steps and one element per coverage entry -/
theorem pruneStep_spec {α : Type} (site : String) (cov : List (Nat × Nat)) (xs : List α)
    (c : Cost) : ∃ c', pruneStep site cov xs c = .ok (SfntV.Otl.Gsub.prune cov xs, c') ∧
      c.steps ≤ c'.steps ∧ c'.steps ≤ c.steps + 2 * cov.length ∧
      c.alloc ≤ c'.alloc ∧ c'.alloc ≤ c.alloc + cov.length ∧
      (SfntV.Otl.Gsub.prune cov xs).2.length ≤ xs.length ∧
      (SfntV.Otl.Gsub.prune cov xs).1.length ≤ cov.length := by
  unfold pruneStep SfntV.Otl.Gsub.prune
  by_cases h : cov.length > xs.length
  · rw [if_pos h, if_pos h]
    refine ⟨_, rfl, ?_, ?_, ?_, ?_, Nat.le_refl _, List.length_filter_le _ _⟩ <;>
    · have := List.length_filter_le (fun p : Nat × Nat => !(decide (p.2 < xs.length))) cov
      simp only [pruneCov, Cost.tick, Cost.mem]
      omega
  · rw [if_neg h, if_neg h]
    unfold sliceTo
    rw [if_pos (by omega)]
    refine ⟨c, rfl, Nat.le_refl _, by omega, Nat.le_refl _, by omega, ?_, Nat.le_refl _⟩
    simp only [List.length_take]
    omega

/-! ## the record loops -/

theorem rangeLoop_noPanic {β : Type} (rd : Nat → Nat → Cost → Outcome (β × Cost)) (base N : Nat)
    (hrd : ∀ i q c, i < N → (rd i q c).noPanic) :
    ∀ (offs : List Nat) (i : Nat) (acc : List β) (c : Cost), i + offs.length ≤ N →
      (rangeLoop rd base offs i acc c).noPanic
  | [], _, _, _, _ => True.intro
  | off :: offs, i, acc, c, h => by
    unfold rangeLoop
    simp only [List.length_cons] at h
    refine bind_noPanic (hrd _ _ _ (by omega)) (fun r _ => ?_)
    exact rangeLoop_noPanic rd base N hrd offs (i + 1) _ _ (by omega)

/-- generic cost of a record loop: one step per offset plus the weight of every record read —
every VISIT is charged, aliased or not -/
theorem rangeLoop_ok {β : Type} (rd : Nat → Nat → Cost → Outcome (β × Cost)) (base : Nat)
    (P : β → Prop) (ws wa : β → Nat)
    (hrd : ∀ i q c r c', rd i q c = .ok (r, c') →
      P r ∧ c'.steps ≤ c.steps + ws r ∧ c'.alloc ≤ c.alloc + wa r) :
    ∀ (offs : List Nat) (i : Nat) (acc : List β) (c : Cost) (rs : List β) (c' : Cost),
      rangeLoop rd base offs i acc c = .ok (rs, c') →
      ∃ new, rs = acc.reverse ++ new ∧ new.length = offs.length ∧ (∀ x ∈ new, P x) ∧
        c'.steps ≤ c.steps + offs.length + (new.map ws).sum ∧
        c'.alloc ≤ c.alloc + (new.map wa).sum
  | [], _, acc, c, rs, c', h => by
    unfold rangeLoop at h
    cases h
    exact ⟨[], by simp, rfl, by simp, by simp, by simp⟩
  | off :: offs, i, acc, c, rs, c', h => by
    unfold rangeLoop at h
    obtain ⟨⟨r1, r2⟩, hr, h⟩ := bind_eq_ok h
    obtain ⟨hP, hs, ha⟩ := hrd _ _ _ _ _ hr
    obtain ⟨new, hrs, hlen, hall, hs', ha'⟩ := rangeLoop_ok rd base P ws wa hrd offs _ _ _ _ _ h
    refine ⟨r1 :: new, ?_, by simp [hlen], ?_, ?_, ?_⟩
    · rw [hrs]; simp
    · intro x hx
      rcases List.mem_cons.mp hx with rfl | hx
      · exact hP
      · exact hall x hx
    · simp only [Cost.tick, List.length_cons, List.map_cons, List.sum_cons] at hs hs' ⊢
      omega
    · simp only [Cost.tick, List.map_cons, List.sum_cons] at ha ha' ⊢
      omega

/-- the value-level shape of a record loop (`readSeqs`, `readLigs`, `readLigSets`, `readCovs`
of Model/OtlGsub.lean) -/
def vloop {β : Type} (V : Nat → Outcome β) : List Nat → Outcome (List β)
  | [] => .ok []
  | off :: offs =>
    match V off with
    | .ok r =>
      match vloop V offs with
      | .ok rs => .ok (r :: rs)
      | .err e => .err e
      | .panic s => .panic s
    | .err e => .err e
    | .panic s => .panic s

theorem rangeLoop_erase {β : Type} (rd : Nat → Nat → Cost → Outcome (β × Cost)) (base N : Nat)
    (V : Nat → Outcome β) (hrd : ∀ i q c, i < N → erase (rd i q c) = V q) :
    ∀ (offs : List Nat) (i : Nat) (acc : List β) (c : Cost), i + offs.length ≤ N →
      erase (rangeLoop rd base offs i acc c)
        = mapOk (fun r => acc.reverse ++ r) (vloop V (offs.map (fun o => base + o)))
  | [], _, acc, _, _ => by simp [rangeLoop, erase, mapOk, vloop]
  | off :: offs, i, acc, c, h => by
    simp only [List.length_cons] at h
    have h1 := hrd i (base + off) c.tick (by omega)
    unfold rangeLoop
    simp only [List.map_cons, vloop]
    rw [← h1]
    cases hr : rd i (base + off) c.tick with
    | ok r =>
      obtain ⟨r1, r2⟩ := r
      rw [ok_bind]
      have ih := rangeLoop_erase rd base N V hrd offs (i + 1) (r1 :: acc) r2 (by omega)
      simp only [erase] at ih ⊢
      rw [ih]
      cases vloop V (offs.map (fun o => base + o)) <;> simp [mapOk]
    | err e => rfl
    | panic s => rfl

theorem idxLoop_eq {β : Type} (site : String) (rd : Nat → Nat → Cost → Outcome (β × Cost))
    (base : Nat) (offs : List Nat) : ∀ (n i : Nat) (acc : List β) (c : Cost),
      i + n = offs.length →
      idxLoop site rd base offs n i acc c = rangeLoop rd base (offs.drop i) i acc c
  | 0, i, acc, c, h => by
    rw [List.drop_eq_nil_of_le (by omega)]
    rfl
  | n+1, i, acc, c, h => by
    have hi : i < offs.length := by omega
    rw [List.drop_eq_getElem_cons hi]
    unfold idxLoop rangeLoop
    rw [idx_ok site offs i hi, ok_bind]
    cases hr : rd i (base + offs[i]) c.tick with
    | ok r => rw [ok_bind, ok_bind, idxLoop_eq site rd base offs n (i + 1) _ _ (by omega)]
    | err e => rfl
    | panic s => rfl

/-! ## the size of a coverage table that was read -/

theorem covLoop1_len (b : Bytes) : ∀ (n q i : Nat) (prev : Int) (acc : List (Nat × Nat))
    (c : Cost) (r : List (Nat × Nat)) (c' : Cost), covLoop1 b n q i prev acc c = .ok (r, c') →
    r.length + c.alloc = acc.length + c'.alloc
  | 0, _, _, _, _, _, _, _, h => by
    unfold covLoop1 at h
    cases h
    simp
  | n+1, q, i, prev, acc, c, r, c', h => by
    unfold covLoop1 at h
    obtain ⟨gid, _, h⟩ := bind_eq_ok h
    split at h
    · cases h
    have ih := covLoop1_len b n _ _ _ _ _ _ _ h
    simp only [Cost.tick, Cost.mem, List.length_cons] at ih
    omega

theorem covLoop2_len (b : Bytes) : ∀ (n q pos : Nat) (prev : Int) (acc : List (Nat × Nat))
    (c : Cost) (r : List (Nat × Nat)) (c' : Cost), covLoop2 b n q pos prev acc c = .ok (r, c') →
    r.length + c.alloc = acc.length + c'.alloc
  | 0, _, _, _, _, _, _, _, h => by
    unfold covLoop2 at h
    cases h
    simp
  | n+1, q, pos, prev, acc, c, r, c', h => by
    unfold covLoop2 at h
    obtain ⟨buf, _, h⟩ := bind_eq_ok h
    obtain ⟨s, _, h⟩ := bind_eq_ok h
    obtain ⟨e, _, h⟩ := bind_eq_ok h
    obtain ⟨sci, _, h⟩ := bind_eq_ok h
    split at h
    · cases h
    dsimp only at h
    have ih := covLoop2_len b n _ _ _ _ _ _ _ h
    simp only [Cost.tick, Cost.mem, List.length_append, List.length_reverse, List.length_zipIdx,
      List.length_range'] at ih
    omega

/-- `len(cov)` after `coverage.Read`: one map entry per element of the list, at most 65536 -/
theorem coverageRead_len {b : Bytes} {pos : Nat} {r : List (Nat × Nat)} {c : Cost}
    (h : coverageRead b pos = .ok (r, c)) :
    r.length ≤ 65536 ∧ c.steps ≤ b.length / 2 + 65538 ∧ c.alloc ≤ 65537 := by
  have hc := coverageRead_cost b pos r c h
  refine ⟨?_, hc.1, hc.2⟩
  unfold coverageRead at h
  obtain ⟨format, _, h⟩ := bind_eq_ok h
  dsimp only at h
  split at h
  · obtain ⟨n, _, h⟩ := bind_eq_ok h
    have := covLoop1_len b n _ _ _ _ _ _ _ h
    simp only [Cost.tick, Cost.mem, Cost.zero, List.length_nil] at this
    omega
  split at h
  · obtain ⟨n, _, h⟩ := bind_eq_ok h
    have := covLoop2_len b n _ _ _ _ _ _ _ h
    simp only [Cost.tick, Cost.mem, Cost.zero, List.length_nil] at this
    omega
  · cases h

/-! ## no panic: all bytes, all positions, no hypothesis -/

theorem readU16Slice_noPanic (b : Bytes) (q : Nat) (c : Cost) : (readU16Slice b q c).noPanic :=
  readCounted_noPanic _ _ _ b q c

theorem readGIDSlice_noPanic (b : Bytes) (q : Nat) (c : Cost) : (readGIDSlice b q c).noPanic :=
  readCounted_noPanic _ _ _ b q c

theorem readU16Slice_ok {b : Bytes} {q : Nat} {c : Cost} {r : List Nat × Cost}
    (h : readU16Slice b q c = .ok r) :
    r.1.length < 65536 ∧ r.2.steps = c.steps + 1 + r.1.length ∧
      r.2.alloc = c.alloc + r.1.length ∧ q + 2 + 2 * r.1.length ≤ b.length :=
  readCounted_ok (r := r.1) (c' := r.2) h

theorem readGIDSlice_ok {b : Bytes} {q : Nat} {c : Cost} {r : List Nat × Cost}
    (h : readGIDSlice b q c = .ok r) :
    r.1.length < 65536 ∧ r.2.steps = c.steps + 1 + r.1.length ∧
      r.2.alloc = c.alloc + r.1.length ∧ q + 2 + 2 * r.1.length ≤ b.length :=
  readCounted_ok (r := r.1) (c' := r.2) h

/-- `readGsub1_1` never panics -/
theorem read11_noPanic (b : Bytes) (pos : Nat) : (read11 b pos).noPanic := by
  unfold read11
  refine bind_noPanic (readBytes_noPanic _ _ _ _ (by omega)) (fun buf hbuf => ?_)
  obtain ⟨hl, _⟩ := readBytes_ok_length hbuf
  obtain ⟨co, hco, _⟩ := w16_ok "gsub.go:84#buf[0],buf[1]" buf 0 (by omega)
  obtain ⟨d, hd, _⟩ := w16_ok "gsub.go:85#buf[2],buf[3]" buf 2 (by omega)
  rw [hco, ok_bind, hd, ok_bind]
  exact bind_noPanic (readSet_noPanic _ _) (fun s _ => True.intro)

/-- `readGsub1_2` never panics -/
theorem read12_noPanic (b : Bytes) (pos : Nat) : (read12 b pos).noPanic := by
  unfold read12
  refine bind_noPanic (readU16_noPanic _ _ _) (fun covOff _ => ?_)
  refine bind_noPanic (readGIDSlice_noPanic _ _ _) (fun subs _ => ?_)
  refine bind_noPanic (coverageRead_noPanic _ _) (fun cov _ => ?_)
  obtain ⟨c', hp, _⟩ := pruneStep_spec "gsub.go:158#substituteGlyphIDs[:len(cov)]" cov.1 subs.1
    (cadd subs.2 cov.2)
  rw [hp, ok_bind]
  exact True.intro

theorem seqRead21_noPanic (b : Bytes) (count i q : Nat) (c : Cost) (hi : i < count) :
    (seqRead21 b count i q c).noPanic := by
  unfold seqRead21
  refine bind_noPanic (readGIDSlice_noPanic _ _ _) (fun r _ => ?_)
  rw [chkIdx_ok _ hi, ok_bind]
  exact True.intro

theorem chk31_ok (count i n : Nat) (hi : i < count) : ∀ k, 0 ≤ k → k < 0 + n →
    (do chkIdx "gsub.go:393#alt[i]" count i
        chkIdx "gsub.go:393#alt[i][j]" n k : Outcome Unit) = .ok () := by
  intro k _ hk
  rw [chkIdx_ok _ hi, ok_bind]
  exact chkIdx_ok _ (by omega)

theorem seqRead31_noPanic (b : Bytes) (count i q : Nat) (c : Cost) (hi : i < count) :
    (seqRead31 b count i q c).noPanic := by
  unfold seqRead31
  refine bind_noPanic (readU16_noPanic _ _ _) (fun n hn => ?_)
  obtain ⟨_, hlt, _⟩ := readU16_ok hn
  rw [mkSlice_ok _ _ _ hlt, ok_bind, chkIdx_ok _ hi, ok_bind]
  exact wordsLoop_noPanic _ _ b n _ _ _ _ (chk31_ok count i n hi)

theorem readSeqG_noPanic (sU16 sSlice sMake sIdx : String)
    (rd : Nat → Nat → Nat → Cost → Outcome (List Nat × Cost))
    (hrd : ∀ count i q c, i < count → (rd count i q c).noPanic) (b : Bytes) (pos : Nat) :
    (readSeqG sU16 sSlice sMake sIdx rd b pos).noPanic := by
  unfold readSeqG
  refine bind_noPanic (readU16_noPanic _ _ _) (fun covOff _ => ?_)
  refine bind_noPanic (readU16Slice_noPanic _ _ _) (fun offs hoffs => ?_)
  refine bind_noPanic (coverageRead_noPanic _ _) (fun cov _ => ?_)
  obtain ⟨c', hp, _, _, _, _, hlen, _⟩ := pruneStep_spec sSlice cov.1 offs.1 (cadd offs.2 cov.2)
  obtain ⟨hlt, _⟩ := readU16Slice_ok hoffs
  rw [hp, ok_bind]
  dsimp only
  rw [mkSlice_ok _ _ _ (by omega), ok_bind, idxLoop_eq _ _ _ _ _ _ _ _ (by omega),
    List.drop_zero]
  exact bind_noPanic (rangeLoop_noPanic _ _ _ (hrd _) _ _ _ _ (by omega)) (fun _ _ => True.intro)

/-- `readGsub2_1` never panics -/
theorem read21_noPanic (b : Bytes) (pos : Nat) : (read21 b pos).noPanic :=
  readSeqG_noPanic _ _ _ _ _ (seqRead21_noPanic b) b pos

/-- `readGsub3_1` never panics -/
theorem read31_noPanic (b : Bytes) (pos : Nat) : (read31 b pos).noPanic :=
  readSeqG_noPanic _ _ _ _ _ (seqRead31_noPanic b) b pos

theorem ligRead_noPanic (fixed : Bool) (b : Bytes) (nsets nligs i j q : Nat) (c : Cost)
    (hi : i < nsets) (hj : j < nligs) : (ligReadG fixed b nsets nligs i j q c).noPanic := by
  unfold ligReadG
  refine bind_noPanic (readU16_noPanic _ _ _) (fun out _ => ?_)
  refine bind_noPanic (readU16_noPanic _ _ _) (fun cc _ => ?_)
  split
  · exact True.intro
  dsimp only
  have hlt : (cc + 65535) % 65536 < 65536 := Nat.mod_lt _ (by omega)
  generalize (cc + 65535) % 65536 = n at hlt ⊢
  rw [mkSlice_ok _ _ _ hlt, ok_bind]
  refine bind_noPanic (wordsLoop_noPanic _ _ b n _ _ _ _
    (fun k _ hk => chkIdx_ok _ (by omega))) (fun r _ => ?_)
  rw [chkIdx_ok _ hi, ok_bind, chkIdx_ok _ hj, ok_bind, chkIdx_ok _ hi, ok_bind,
    chkIdx_ok _ hj, ok_bind]
  exact True.intro

theorem ligSetRead_noPanic (fixed : Bool) (b : Bytes) (nsets i q : Nat) (c : Cost)
    (hi : i < nsets) : (ligSetReadG fixed b nsets i q c).noPanic := by
  unfold ligSetReadG
  refine bind_noPanic (readU16Slice_noPanic _ _ _) (fun offs hoffs => ?_)
  obtain ⟨hlt, _⟩ := readU16Slice_ok hoffs
  rw [mkSlice_ok _ _ _ hlt, ok_bind, chkIdx_ok _ hi, ok_bind]
  exact rangeLoop_noPanic _ _ offs.1.length
    (fun j q c hj => ligRead_noPanic fixed b nsets offs.1.length i j q c hi hj) _ _ _ _ (by omega)

theorem read41PreG_noPanic (fixed : Bool) (b : Bytes) (pos : Nat) :
    (read41PreG fixed b pos).noPanic := by
  unfold read41PreG
  refine bind_noPanic (readU16_noPanic _ _ _) (fun covOff _ => ?_)
  refine bind_noPanic (readU16Slice_noPanic _ _ _) (fun offs hoffs => ?_)
  refine bind_noPanic (coverageRead_noPanic _ _) (fun cov _ => ?_)
  obtain ⟨c', hp, _, _, _, _, hlen, _⟩ := pruneStep_spec
    "gsub.go:515#ligatureSetOffsets[:len(cov)]" cov.1 offs.1 (cadd offs.2 cov.2)
  obtain ⟨hlt, _⟩ := readU16Slice_ok hoffs
  rw [hp, ok_bind]
  dsimp only
  rw [mkSlice_ok _ _ _ (by omega), ok_bind]
  exact bind_noPanic (rangeLoop_noPanic _ _ _ (fun i q c hi => ligSetRead_noPanic fixed b _ i q c hi)
    _ _ _ _ (by omega)) (fun _ _ => True.intro)

theorem read41G_noPanic (fixed : Bool) (b : Bytes) (pos : Nat) :
    (read41G fixed b pos).noPanic := by
  unfold read41G
  refine bind_noPanic (read41PreG_noPanic fixed b pos) (fun r _ => ?_)
  split <;> exact True.intro

theorem read41Pre_noPanic (b : Bytes) (pos : Nat) : (read41Pre b pos).noPanic :=
  read41PreG_noPanic true b pos

/-- `readGsub4_1` never panics (`componentCount = 0` is an InvalidFontError) -/
theorem read41_noPanic (b : Bytes) (pos : Nat) : (read41 b pos).noPanic :=
  read41G_noPanic true b pos

/-- the code before the zero-count repair did not panic either (`componentCount = 0` gave a
65535-element `make`, not a negative size) -/
theorem read41Old_noPanic (b : Bytes) (pos : Nat) : (read41Old b pos).noPanic :=
  read41G_noPanic false b pos

theorem covRead81_noPanic (site : String) (b : Bytes) (count i q : Nat) (c : Cost)
    (hi : i < count) : (covRead81 site b count i q c).noPanic := by
  unfold covRead81
  refine bind_noPanic (coverageRead_noPanic _ _) (fun r _ => ?_)
  rw [chkIdx_ok _ hi, ok_bind]
  exact True.intro

/-- `readGsub8_1` never panics -/
theorem read81_noPanic (b : Bytes) (pos : Nat) : (read81 b pos).noPanic := by
  unfold read81
  refine bind_noPanic (readU16_noPanic _ _ _) (fun covOff _ => ?_)
  refine bind_noPanic (readU16Slice_noPanic _ _ _) (fun bo hbo => ?_)
  dsimp only
  refine bind_noPanic (readU16Slice_noPanic _ _ _) (fun lo hlo => ?_)
  refine bind_noPanic (readGIDSlice_noPanic _ _ _) (fun subs _ => ?_)
  refine bind_noPanic (coverageRead_noPanic _ _) (fun input _ => ?_)
  obtain ⟨hbl, _⟩ := readU16Slice_ok hbo
  obtain ⟨hll, _⟩ := readU16Slice_ok hlo
  rw [mkSlice_ok _ _ _ hbl, ok_bind]
  refine bind_noPanic (rangeLoop_noPanic _ _ _ (fun i q c hi => covRead81_noPanic _ b _ i q c hi)
    _ _ _ _ (by omega)) (fun back _ => ?_)
  rw [mkSlice_ok _ _ _ hll, ok_bind]
  refine bind_noPanic (rangeLoop_noPanic _ _ _ (fun i q c hi => covRead81_noPanic _ b _ i q c hi)
    _ _ _ _ (by omega)) (fun look _ => ?_)
  obtain ⟨c', hp, _⟩ := pruneStep_spec "gsub.go:764#substituteGlyphIDs[:len(input)]" input.1
    subs.1 look.2
  rw [hp, ok_bind]
  exact True.intro

theorem withSub_noPanic {α : Type} (f : α → SfntV.Otl.Gsub.Sub) {x : Outcome (α × Cost)} (h : x.noPanic) :
    (withSub f x).noPanic := by
  cases x with
  | ok r => exact True.intro
  | err e => exact True.intro
  | panic s => exact h

theorem dispatchKey_noPanic (key : Nat) (b : Bytes) (pos : Nat) :
    (dispatchKey key b pos).noPanic := by
  unfold dispatchKey
  split
  · exact withSub_noPanic _ (read11_noPanic b pos)
  split
  · exact withSub_noPanic _ (read12_noPanic b pos)
  split
  · exact withSub_noPanic _ (read21_noPanic b pos)
  split
  · exact withSub_noPanic _ (read31_noPanic b pos)
  split
  · exact withSub_noPanic _ (read41_noPanic b pos)
  split
  · exact withSub_noPanic _ (read81_noPanic b pos)
  split <;> exact True.intro

/-- `readGsubSubtable` (as it is now) on the keys of this group never panics -/
theorem readSubtable_noPanic (tp : Nat) (b : Bytes) (pos : Nat) :
    (readSubtable tp b pos).noPanic := by
  unfold readSubtable
  refine bind_noPanic (readU16_noPanic _ _ _) (fun format _ => ?_)
  dsimp only
  split
  · exact True.intro
  · exact dispatchKey_noPanic _ b pos

/-- the dispatcher before the repair did not panic either (it decoded through colliding keys) -/
theorem readSubtableOld_noPanic (tp : Nat) (b : Bytes) (pos : Nat) :
    (readSubtableOld tp b pos).noPanic := by
  unfold readSubtableOld
  exact bind_noPanic (readU16_noPanic _ _ _) (fun format _ => dispatchKey_noPanic _ b pos)

/-! ## cost -/

theorem sum_map_succ {α : Type} (f : α → Nat) : ∀ l : List α,
    (l.map (fun x => 1 + f x)).sum = l.length + (l.map f).sum
  | [] => by simp
  | a :: l => by
    simp only [List.map_cons, List.sum_cons, List.length_cons, sum_map_succ f l]
    omega

/-- `readGsub1_1`: LINEAR plus the cap of `coverage.ReadSet` (131072 map writes) -/
theorem read11_cost (b : Bytes) (pos : Nat) (r : List Nat × Nat) (c : Cost)
    (h : read11 b pos = .ok (r, c)) :
    c.steps ≤ b.length / 2 + 131074 ∧ c.alloc ≤ 131073 := by
  unfold read11 at h
  obtain ⟨buf, _, h⟩ := bind_eq_ok h
  obtain ⟨co, _, h⟩ := bind_eq_ok h
  obtain ⟨d, _, h⟩ := bind_eq_ok h
  obtain ⟨s, hs, h⟩ := bind_eq_ok h
  cases h
  have := readSet_cost b _ s.1 s.2 hs
  simp only [cadd, Cost.tick, Cost.mem, Cost.zero]
  omega

/-- `readGsub1_2`: LINEAR plus the coverage cap: `steps ≤ |b| + 196612`
(`2 + n + |b|/2 + 65538` for the reads, `2·65536` for `Prune`), `alloc ≤ |b|/2 + 131074` -/
theorem read12_cost (b : Bytes) (pos : Nat) (r : List (Nat × Nat) × List Nat) (c : Cost)
    (h : read12 b pos = .ok (r, c)) :
    c.steps ≤ b.length + 196612 ∧ c.alloc ≤ b.length / 2 + 131074 := by
  unfold read12 at h
  obtain ⟨covOff, _, h⟩ := bind_eq_ok h
  obtain ⟨subs, hsubs, h⟩ := bind_eq_ok h
  obtain ⟨cov, hcov, h⟩ := bind_eq_ok h
  obtain ⟨c', hp, _, hs, _, ha, _, _⟩ := pruneStep_spec
    "gsub.go:158#substituteGlyphIDs[:len(cov)]" cov.1 subs.1 (cadd subs.2 cov.2)
  rw [hp, ok_bind] at h
  cases h
  have h1 := readGIDSlice_ok hsubs
  have h2 := coverageRead_len (r := cov.1) (c := cov.2) hcov
  simp only [cadd, Cost.tick, Cost.mem, Cost.zero] at h1 hs ha ⊢
  omega

theorem seqRead21_cost (b : Bytes) (count i q : Nat) (c : Cost) (r : List Nat) (c' : Cost)
    (h : seqRead21 b count i q c = .ok (r, c')) :
    r.length ≤ 65535 ∧ c'.steps ≤ c.steps + (1 + r.length) ∧ c'.alloc ≤ c.alloc + r.length := by
  unfold seqRead21 at h
  obtain ⟨r', hr, h⟩ := bind_eq_ok h
  obtain ⟨_, _, h⟩ := bind_eq_ok h
  cases h
  have := readGIDSlice_ok hr
  dsimp only at this
  omega

theorem seqRead31_cost (b : Bytes) (count i q : Nat) (c : Cost) (r : List Nat) (c' : Cost)
    (h : seqRead31 b count i q c = .ok (r, c')) :
    r.length ≤ 65535 ∧ c'.steps ≤ c.steps + (1 + r.length) ∧ c'.alloc ≤ c.alloc + r.length := by
  unfold seqRead31 at h
  obtain ⟨n, hn, h⟩ := bind_eq_ok h
  obtain ⟨_, hlt, _⟩ := readU16_ok hn
  rw [mkSlice_ok _ _ _ hlt, ok_bind] at h
  obtain ⟨_, _, h⟩ := bind_eq_ok h
  have := wordsLoop_ok _ _ b n _ _ _ _ r c' h
  simp only [List.length_nil, Cost.tick, Cost.mem] at this
  omega

/-- the common frame of 2.1 / 3.1: cost = linear in the input PLUS the size of the output
(`2·count + Σ |seq_i|`); the output is not bounded by the input because offsets may alias -/
theorem readSeqG_cost (sU16 sSlice sMake sIdx : String)
    (rd : Nat → Nat → Nat → Cost → Outcome (List Nat × Cost))
    (hrd : ∀ count i q c r c', rd count i q c = .ok (r, c') →
      r.length ≤ 65535 ∧ c'.steps ≤ c.steps + (1 + r.length) ∧ c'.alloc ≤ c.alloc + r.length)
    (b : Bytes) (pos : Nat) (cov : List (Nat × Nat)) (seqs : List (List Nat)) (c : Cost)
    (h : readSeqG sU16 sSlice sMake sIdx rd b pos = .ok ((cov, seqs), c)) :
    c.steps ≤ b.length + 196612 + 2 * seqs.length + (seqs.map List.length).sum ∧
    c.alloc ≤ b.length / 2 + 131074 + seqs.length + (seqs.map List.length).sum ∧
    (∀ s ∈ seqs, s.length ≤ 65535) ∧ seqs.length ≤ 65535 ∧ pos + 6 + 2 * seqs.length ≤ b.length := by
  unfold readSeqG at h
  obtain ⟨covOff, _, h⟩ := bind_eq_ok h
  obtain ⟨offs, hoffs, h⟩ := bind_eq_ok h
  obtain ⟨cv, hcov, h⟩ := bind_eq_ok h
  obtain ⟨c', hp, _, hs, _, ha, hlen, _⟩ := pruneStep_spec sSlice cv.1 offs.1 (cadd offs.2 cv.2)
  have h1 := readU16Slice_ok hoffs
  have h2 := coverageRead_len (r := cv.1) (c := cv.2) hcov
  rw [hp, ok_bind] at h
  dsimp only at h
  rw [mkSlice_ok _ _ _ (by omega), ok_bind, idxLoop_eq _ _ _ _ _ _ _ _ (by omega),
    List.drop_zero] at h
  obtain ⟨sq, hsq, h⟩ := bind_eq_ok h
  obtain ⟨new, hnew, hnl, hall, hs', ha'⟩ := rangeLoop_ok _ _ (fun r => r.length ≤ 65535)
    (fun r => 1 + r.length) List.length (hrd _) _ _ _ _ sq.1 sq.2 hsq
  cases h
  rw [hnew, List.reverse_nil, List.nil_append]
  rw [sum_map_succ] at hs'
  refine ⟨?_, ?_, hall, by omega, by omega⟩
  · simp only [cadd, Cost.tick, Cost.mem, Cost.zero] at h1 hs hs' ⊢
    omega
  · simp only [cadd, Cost.tick, Cost.mem, Cost.zero] at h1 ha ha' ⊢
    omega

/-- `readGsub2_1`: the TRUE bound.  `steps ≤ |b| + 196612 + 2·count + Σ|seq_i|`,
`alloc ≤ |b|/2 + 131074 + count + Σ|seq_i|`, each sequence up to 65535 glyphs, `count ≤ 65535`
offsets that may all point at ONE sequence: not linear, and the code has no size cap
(witness: `alias21_cost`) -/
theorem read21_cost (b : Bytes) (pos : Nat) (cov : List (Nat × Nat)) (seqs : List (List Nat))
    (c : Cost) (h : read21 b pos = .ok ((cov, seqs), c)) :
    c.steps ≤ b.length + 196612 + 2 * seqs.length + (seqs.map List.length).sum ∧
    c.alloc ≤ b.length / 2 + 131074 + seqs.length + (seqs.map List.length).sum ∧
    (∀ s ∈ seqs, s.length ≤ 65535) ∧ seqs.length ≤ 65535 ∧ pos + 6 + 2 * seqs.length ≤ b.length :=
  readSeqG_cost _ _ _ _ _ (seqRead21_cost b) b pos cov seqs c h

/-- `readGsub3_1`: the same TRUE bound as 2.1 (no size cap either) -/
theorem read31_cost (b : Bytes) (pos : Nat) (cov : List (Nat × Nat)) (seqs : List (List Nat))
    (c : Cost) (h : read31 b pos = .ok ((cov, seqs), c)) :
    c.steps ≤ b.length + 196612 + 2 * seqs.length + (seqs.map List.length).sum ∧
    c.alloc ≤ b.length / 2 + 131074 + seqs.length + (seqs.map List.length).sum ∧
    (∀ s ∈ seqs, s.length ≤ 65535) ∧ seqs.length ≤ 65535 ∧ pos + 6 + 2 * seqs.length ≤ b.length :=
  readSeqG_cost _ _ _ _ _ (seqRead31_cost b) b pos cov seqs c h

/-- 2.1 in the shape (number of offsets) × (per-record cost ≤ 65535 glyphs) -/
theorem read21_cost_count (b : Bytes) (pos : Nat) (cov : List (Nat × Nat))
    (seqs : List (List Nat)) (c : Cost) (h : read21 b pos = .ok ((cov, seqs), c)) :
    c.steps ≤ b.length + 196612 + seqs.length * 65537 ∧
    c.alloc ≤ b.length / 2 + 131074 + seqs.length * 65536 ∧
    2 * seqs.length + 6 ≤ b.length := by
  obtain ⟨hs, ha, hall, _, hl⟩ := read21_cost b pos cov seqs c h
  have := sum_map_le_const List.length 65535 seqs hall
  omega

/-- 3.1 in the shape (number of offsets) × (per-record cost ≤ 65535 glyphs) -/
theorem read31_cost_count (b : Bytes) (pos : Nat) (cov : List (Nat × Nat))
    (seqs : List (List Nat)) (c : Cost) (h : read31 b pos = .ok ((cov, seqs), c)) :
    c.steps ≤ b.length + 196612 + seqs.length * 65537 ∧
    c.alloc ≤ b.length / 2 + 131074 + seqs.length * 65536 ∧
    2 * seqs.length + 6 ≤ b.length := by
  obtain ⟨hs, ha, hall, _, hl⟩ := read31_cost b pos cov seqs c h
  have := sum_map_le_const List.length 65535 seqs hall
  omega

/-! ### 4.1 -/

theorem ligRead_cost (fixed : Bool) (b : Bytes) (nsets nligs i j q : Nat) (c : Cost) (l : Lig)
    (c' : Cost) (h : ligReadG fixed b nsets nligs i j q c = .ok (l, c')) :
    l.inp.length ≤ 65535 ∧ c'.steps ≤ c.steps + (2 + l.inp.length) ∧
      c'.alloc ≤ c.alloc + l.inp.length := by
  unfold ligReadG at h
  obtain ⟨out, _, h⟩ := bind_eq_ok h
  obtain ⟨cc, _, h⟩ := bind_eq_ok h
  split at h
  · cases h
  dsimp only at h
  have hlt : (cc + 65535) % 65536 < 65536 := Nat.mod_lt _ (by omega)
  generalize (cc + 65535) % 65536 = n at hlt h
  rw [mkSlice_ok _ _ _ hlt, ok_bind] at h
  obtain ⟨r, hr, h⟩ := bind_eq_ok h
  obtain ⟨_, _, h⟩ := bind_eq_ok h
  obtain ⟨_, _, h⟩ := bind_eq_ok h
  obtain ⟨_, _, h⟩ := bind_eq_ok h
  obtain ⟨_, _, h⟩ := bind_eq_ok h
  cases h
  have := wordsLoop_ok _ _ b n _ _ _ _ r.1 r.2 hr
  simp only [List.length_nil, Cost.tick, Cost.mem] at this
  dsimp only
  omega

theorem len_le_ligSetLen (set : List Lig) : set.length ≤ ligSetLen set := by
  unfold ligSetLen
  omega

/-- one ligature set costs at most its un-aliased encoded size -/
theorem ligSetRead_cost (fixed : Bool) (b : Bytes) (nsets i q : Nat) (c : Cost) (set : List Lig)
    (c' : Cost) (h : ligSetReadG fixed b nsets i q c = .ok (set, c')) :
    (set.length ≤ 65535 ∧ ∀ l ∈ set, l.inp.length ≤ 65535) ∧
      c'.steps ≤ c.steps + ligSetLen set ∧ c'.alloc ≤ c.alloc + ligSetLen set := by
  unfold ligSetReadG at h
  obtain ⟨offs, hoffs, h⟩ := bind_eq_ok h
  have h1 := readU16Slice_ok hoffs
  rw [mkSlice_ok _ _ _ h1.1, ok_bind] at h
  obtain ⟨_, _, h⟩ := bind_eq_ok h
  obtain ⟨new, hnew, hnl, hall, hs, ha⟩ := rangeLoop_ok _ _ (fun l : Lig => l.inp.length ≤ 65535)
    (fun l => 2 + l.inp.length) (fun l => l.inp.length)
    (fun j q c l c' hl => ligRead_cost fixed b nsets offs.1.length i j q c l c' hl) _ _ _ _ set c' h
  rw [List.reverse_nil, List.nil_append] at hnew
  subst hnew
  have e1 := sum_map_le (fun l : Lig => 2 + l.inp.length) (fun l => 4 + 2 * l.inp.length) set
    (fun l _ => by omega)
  have e2 := sum_map_le (fun l : Lig => l.inp.length) (fun l => 4 + 2 * l.inp.length) set
    (fun l _ => by omega)
  refine ⟨⟨by omega, hall⟩, ?_, ?_⟩
  · unfold ligSetLen
    simp only [Cost.mem] at hs ⊢
    omega
  · unfold ligSetLen
    simp only [Cost.mem] at ha ⊢
    omega

/-- `readGsub4_1` BEFORE the cap is tested: cost = linear in the input plus (twice) the
un-aliased size `lig41Total` of what was decoded — three nested levels of offsets that may
alias (sets, ligatures; `componentCount = 0` gives 65535 components) -/
theorem read41PreG_cost (fixed : Bool) (b : Bytes) (pos : Nat) (cov : List (Nat × Nat))
    (repl : List (List Lig)) (c : Cost) (h : read41PreG fixed b pos = .ok ((cov, repl), c)) :
    c.steps ≤ b.length + 196612 + 2 * lig41Total repl ∧
    c.alloc ≤ b.length / 2 + 131074 + lig41Total repl ∧
    (∀ set ∈ repl, set.length ≤ 65535 ∧ ∀ l ∈ set, l.inp.length ≤ 65535) ∧
    repl.length ≤ 65535 ∧ pos + 6 + 2 * repl.length ≤ b.length := by
  unfold read41PreG at h
  obtain ⟨covOff, _, h⟩ := bind_eq_ok h
  obtain ⟨offs, hoffs, h⟩ := bind_eq_ok h
  obtain ⟨cv, hcov, h⟩ := bind_eq_ok h
  obtain ⟨c', hp, _, hs, _, ha, hlen, _⟩ := pruneStep_spec
    "gsub.go:515#ligatureSetOffsets[:len(cov)]" cv.1 offs.1 (cadd offs.2 cv.2)
  have h1 := readU16Slice_ok hoffs
  have h2 := coverageRead_len (r := cv.1) (c := cv.2) hcov
  rw [hp, ok_bind] at h
  dsimp only at h
  rw [mkSlice_ok _ _ _ (by omega), ok_bind] at h
  obtain ⟨sq, hsq, h⟩ := bind_eq_ok h
  obtain ⟨new, hnew, hnl, hall, hs', ha'⟩ := rangeLoop_ok _ _
    (fun set : List Lig => set.length ≤ 65535 ∧ ∀ l ∈ set, l.inp.length ≤ 65535)
    ligSetLen ligSetLen (fun i q c r c' hr => ligSetRead_cost fixed b _ i q c r c' hr)
    _ _ _ _ sq.1 sq.2 hsq
  cases h
  rw [hnew, List.reverse_nil, List.nil_append]
  have e1 := sum_map_le List.length ligSetLen new (fun s _ => len_le_ligSetLen s)
  refine ⟨?_, ?_, hall, by omega, by omega⟩
  · unfold lig41Total
    simp only [cadd, Cost.tick, Cost.mem, Cost.zero] at h1 hs hs' ⊢
    omega
  · unfold lig41Total
    simp only [cadd, Cost.tick, Cost.mem, Cost.zero] at h1 ha ha' ⊢
    omega

/-- `readGsub4_1`, SUCCESSFUL runs: the cap `total > 0xFFFF` (gsub.go:573) rescues linearity —
`steps ≤ |b| + 327682`, `alloc ≤ |b|/2 + 196610`.  The cap is tested after the loops, so this
says nothing about the work done for an input that is then REJECTED (see `read41Pre_cost`). -/
theorem read41G_cost (fixed : Bool) (b : Bytes) (pos : Nat) (cov : List (Nat × Nat))
    (repl : List (List Lig)) (c : Cost) (h : read41G fixed b pos = .ok ((cov, repl), c)) :
    lig41Total repl ≤ 65535 ∧ c.steps ≤ b.length + 327682 ∧ c.alloc ≤ b.length / 2 + 196610 := by
  unfold read41G at h
  obtain ⟨⟨⟨cv, rp⟩, c0⟩, hr, h⟩ := bind_eq_ok h
  dsimp only at h
  split at h
  · cases h
  rename_i hcap
  cases h
  obtain ⟨hs, ha, _⟩ := read41PreG_cost fixed b pos _ _ _ hr
  simp only [Cost.mem]
  omega

theorem ligSetLen_le (set : List Lig)
    (h : set.length ≤ 65535 ∧ ∀ l ∈ set, l.inp.length ≤ 65535) :
    ligSetLen set ≤ 8590065662 := by
  unfold ligSetLen
  have := sum_map_le_const (fun l : Lig => 4 + 2 * l.inp.length) 131074 set
    (fun l hl => by have := h.2 l hl; omega)
  omega

/-- 4.1 before the cap in the shape (number of set offsets) × (per-set cost): one set is up to
65535 ligature offsets × (4 + 2·65535) bytes of un-aliased size -/
theorem read41PreG_cost_count (fixed : Bool) (b : Bytes) (pos : Nat) (cov : List (Nat × Nat))
    (repl : List (List Lig)) (c : Cost) (h : read41PreG fixed b pos = .ok ((cov, repl), c)) :
    c.steps ≤ b.length + 196624 + repl.length * 17180131328 ∧
    c.alloc ≤ b.length / 2 + 131080 + repl.length * 8590065664 ∧
    2 * repl.length + 6 ≤ b.length := by
  obtain ⟨hs, ha, hall, _, hl⟩ := read41PreG_cost fixed b pos cov repl c h
  have := sum_map_le_const ligSetLen 8590065662 repl (fun s hs => ligSetLen_le s (hall s hs))
  unfold lig41Total at hs ha
  omega

/-- `readGsub4_1` (as it is now) BEFORE the cap is tested: see `read41PreG_cost` -/
theorem read41Pre_cost (b : Bytes) (pos : Nat) (cov : List (Nat × Nat)) (repl : List (List Lig))
    (c : Cost) (h : read41Pre b pos = .ok ((cov, repl), c)) :
    c.steps ≤ b.length + 196612 + 2 * lig41Total repl ∧
    c.alloc ≤ b.length / 2 + 131074 + lig41Total repl ∧
    (∀ set ∈ repl, set.length ≤ 65535 ∧ ∀ l ∈ set, l.inp.length ≤ 65535) ∧
    repl.length ≤ 65535 ∧ pos + 6 + 2 * repl.length ≤ b.length :=
  read41PreG_cost true b pos cov repl c h

theorem read41Pre_cost_count (b : Bytes) (pos : Nat) (cov : List (Nat × Nat))
    (repl : List (List Lig)) (c : Cost) (h : read41Pre b pos = .ok ((cov, repl), c)) :
    c.steps ≤ b.length + 196624 + repl.length * 17180131328 ∧
    c.alloc ≤ b.length / 2 + 131080 + repl.length * 8590065664 ∧
    2 * repl.length + 6 ≤ b.length :=
  read41PreG_cost_count true b pos cov repl c h

/-- `readGsub4_1` (as it is now), SUCCESSFUL runs: the cap `total > 0xFFFF` (gsub.go:573) rescues
linearity — `steps ≤ |b| + 327682`, `alloc ≤ |b|/2 + 196610`.  The cap is tested after the loops,
so this says nothing about the work done for an input that is then REJECTED (`read41Pre_cost`). -/
theorem read41_cost (b : Bytes) (pos : Nat) (cov : List (Nat × Nat)) (repl : List (List Lig))
    (c : Cost) (h : read41 b pos = .ok ((cov, repl), c)) :
    lig41Total repl ≤ 65535 ∧ c.steps ≤ b.length + 327682 ∧ c.alloc ≤ b.length / 2 + 196610 :=
  read41G_cost true b pos cov repl c h

/-- the same bound held before the zero-count repair -/
theorem read41Old_cost (b : Bytes) (pos : Nat) (cov : List (Nat × Nat)) (repl : List (List Lig))
    (c : Cost) (h : read41Old b pos = .ok ((cov, repl), c)) :
    lig41Total repl ≤ 65535 ∧ c.steps ≤ b.length + 327682 ∧ c.alloc ≤ b.length / 2 + 196610 :=
  read41G_cost false b pos cov repl c h

/-! ### 8.1 -/

theorem covRead81_cost (site : String) (b : Bytes) (count i q : Nat) (c : Cost)
    (r : List (Nat × Nat)) (c' : Cost) (h : covRead81 site b count i q c = .ok (r, c')) :
    True ∧ c'.steps ≤ c.steps + (b.length / 2 + 65538) ∧ c'.alloc ≤ c.alloc + 65537 := by
  unfold covRead81 at h
  obtain ⟨cv, hcv, h⟩ := bind_eq_ok h
  obtain ⟨_, _, h⟩ := bind_eq_ok h
  cases h
  have := coverageRead_len (r := cv.1) (c := cv.2) hcv
  simp only [cadd]
  refine ⟨True.intro, ?_, ?_⟩ <;> omega

/-- `readGsub8_1`: the TRUE bound — `1 + nb + nl` coverage tables are read, each capped by a
CONSTANT (`|b|/2 + 65538` steps, 65537 map entries) that a 10-byte table reaches
(`coverage2_full`); the `nb + nl ≤ |b|/2` offsets may alias: (number of offsets) × constant,
no size cap in the code -/
theorem read81_cost (b : Bytes) (pos : Nat) (r : Rev81) (c : Cost)
    (h : read81 b pos = .ok (r, c)) :
    c.steps ≤ 2 * b.length + 196614 + r.back.length * (b.length / 2 + 65538)
      + r.look.length * (b.length / 2 + 65538) ∧
    c.alloc ≤ b.length + 131074 + (r.back.length + r.look.length) * 65537 ∧
    pos + 10 + 2 * r.back.length + 2 * r.look.length ≤ b.length := by
  unfold read81 at h
  obtain ⟨covOff, _, h⟩ := bind_eq_ok h
  obtain ⟨bo, hbo, h⟩ := bind_eq_ok h
  dsimp only at h
  obtain ⟨lo, hlo, h⟩ := bind_eq_ok h
  obtain ⟨subs, hsubs, h⟩ := bind_eq_ok h
  obtain ⟨input, hin, h⟩ := bind_eq_ok h
  have h1 := readU16Slice_ok hbo
  have h2 := readU16Slice_ok hlo
  have h3 := readGIDSlice_ok hsubs
  have h4 := coverageRead_len (r := input.1) (c := input.2) hin
  rw [mkSlice_ok _ _ _ h1.1, ok_bind] at h
  obtain ⟨back, hback, h⟩ := bind_eq_ok h
  rw [mkSlice_ok _ _ _ h2.1, ok_bind] at h
  obtain ⟨look, hlook, h⟩ := bind_eq_ok h
  obtain ⟨c', hp, _, hs, _, ha, _, _⟩ := pruneStep_spec
    "gsub.go:764#substituteGlyphIDs[:len(input)]" input.1 subs.1 look.2
  rw [hp, ok_bind] at h
  obtain ⟨nb, hnb, hnbl, _, hsb, hab⟩ := rangeLoop_ok _ _ (fun _ => True)
    (fun _ => b.length / 2 + 65538) (fun _ => 65537)
    (fun i q c r c' hr => covRead81_cost _ b _ i q c r c' hr) _ _ _ _ back.1 back.2 hback
  obtain ⟨nl, hnl, hnll, _, hsl, hal⟩ := rangeLoop_ok _ _ (fun _ => True)
    (fun _ => b.length / 2 + 65538) (fun _ => 65537)
    (fun i q c r c' hr => covRead81_cost _ b _ i q c r c' hr) _ _ _ _ look.1 look.2 hlook
  cases h
  dsimp only
  rw [hnb, hnl, List.reverse_nil, List.nil_append, List.nil_append]
  rw [sum_map_const] at hsb hab hsl hal
  refine ⟨?_, ?_, by omega⟩
  · simp only [cadd, Cost.tick, Cost.mem, Cost.zero] at h1 h2 h3 hs hsb hsl ⊢
    omega
  · simp only [cadd, Cost.tick, Cost.mem, Cost.zero] at h1 h2 h3 ha hab hal ⊢
    omega

/-! ## bridge to the value-level models of C08 (Model/OtlGsub.lean) -/

theorem erase_bind_pure {α β : Type} (x : Outcome (α × Cost)) (f : α → β)
    (g : α × Cost → Cost) :
    erase (x >>= fun r => pure (f r.1, g r)) = mapOk f (erase x) := by
  cases x with
  | ok r => obtain ⟨a, c⟩ := r; rfl
  | err e => rfl
  | panic s => rfl

/-- the format word and the coverage offset against the word view -/
theorem hdr_cases (b : Bytes) (pos : Nat) :
    (∃ fmt covOff, bytesToWords (b.drop pos)
          = fmt :: covOff :: bytesToWords (b.drop (pos + 4)) ∧
        ∀ site, readU16 site b (pos + 2) = .ok covOff) ∨
    ((bytesToWords (b.drop pos)).length < 2 ∧ ∀ site, readU16 site b (pos + 2) = .err "io") := by
  have hlen := List.length_drop (i := pos) (l := b)
  by_cases h : pos + 4 ≤ b.length
  · obtain ⟨a0, a1, a2, a3, r, hd⟩ := four_split (b.drop pos) (by omega)
    refine Or.inl ⟨be a0 a1, be a2 a3, ?_, fun site => ?_⟩
    · rw [← List.drop_drop, hd]
      rfl
    · rw [readU16_eq]
      unfold wordAt
      rw [← List.drop_drop, hd]
      rfl
  · refine Or.inr ⟨by rw [bytesToWords_length]; omega, fun site => ?_⟩
    rw [readU16_eq]
    unfold wordAt
    have hlen2 := List.length_drop (i := pos + 2) (l := b)
    match hd : b.drop (pos + 2) with
    | [] => rfl
    | [x] => rfl
    | x :: y :: r =>
      rw [hd] at hlen2
      simp only [List.length_cons] at hlen2
      omega

/-- a counted array against the word view -/
theorem counted_cases (sN sMk sV : String) (b : Bytes) (q : Nat) (c : Cost) :
    (∃ r n rest, readCounted sN sMk sV b q c = .ok r ∧ bytesToWords (b.drop q) = n :: rest ∧
        ¬ rest.length < n ∧ r.1 = rest.take n) ∨
    (readCounted sN sMk sV b q c = .err eIO ∧
      (bytesToWords (b.drop q) = [] ∨
        ∃ n rest, bytesToWords (b.drop q) = n :: rest ∧ rest.length < n)) := by
  have he := readCounted_erase sN sMk sV b q c
  cases hw : bytesToWords (b.drop q) with
  | nil =>
    rw [hw] at he
    cases hr : readCounted sN sMk sV b q c with
    | ok r => rw [hr] at he; obtain ⟨a, c'⟩ := r; cases he
    | err e => rw [hr] at he; cases he; exact Or.inr ⟨rfl, Or.inl rfl⟩
    | panic s => rw [hr] at he; cases he
  | cons n rest =>
    rw [hw, countedW_cons] at he
    by_cases hlt : rest.length < n
    · rw [if_pos hlt] at he
      cases hr : readCounted sN sMk sV b q c with
      | ok r => rw [hr] at he; obtain ⟨a, c'⟩ := r; cases he
      | err e => rw [hr] at he; cases he; exact Or.inr ⟨rfl, Or.inr ⟨n, rest, rfl, hlt⟩⟩
      | panic s => rw [hr] at he; cases he
    · rw [if_neg hlt] at he
      cases hr : readCounted sN sMk sV b q c with
      | ok r =>
        rw [hr] at he
        obtain ⟨a, c'⟩ := r
        cases he
        exact Or.inl ⟨_, n, rest, rfl, rfl, hlt, rfl⟩
      | err e => rw [hr] at he; cases he
      | panic s => rw [hr] at he; cases he

/-- the common prefix of 1.2 / 2.1 / 3.1 / 4.1: coverage offset, counted array, coverage table,
prune or truncate; `k` continues with the pruned pair -/
def frameM {γ : Type} (sU16 sN sMk sV sSlice : String) (b : Bytes) (pos : Nat)
    (k : (List (Nat × Nat) × List Nat) → Cost → Outcome (γ × Cost)) : Outcome (γ × Cost) := do
  let covOff ← readU16 sU16 b (pos + 2)
  let offs ← readCounted sN sMk sV b (pos + 4) Cost.zero.tick
  let cov ← coverageRead b (pos + covOff)
  let pr ← pruneStep sSlice cov.1 offs.1 (cadd offs.2 cov.2)
  k pr.1 pr.2

/-- the same prefix in the value-level models -/
def frameV {γ : Type} (b' : Bytes) (kv : (List (Nat × Nat) × List Nat) → Outcome γ) : Outcome γ :=
  match bytesToWords b' with
  | _ :: covOff :: n :: rest =>
    if rest.length < n then .err eIO
    else match SfntV.Otl.Cov.read (b'.drop covOff) with
      | .ok cov => kv (SfntV.Otl.Gsub.prune cov (rest.take n))
      | .err e => .err e
      | .panic s => .panic s
  | _ => .err eIO

theorem frameV_cons {γ : Type} (b' : Bytes) (kv : (List (Nat × Nat) × List Nat) → Outcome γ)
    (fmt covOff n : Nat) (rest : List Nat) (h : bytesToWords b' = fmt :: covOff :: n :: rest) :
    frameV b' kv = if rest.length < n then .err eIO
      else match SfntV.Otl.Cov.read (b'.drop covOff) with
        | .ok cov => kv (SfntV.Otl.Gsub.prune cov (rest.take n))
        | .err e => .err e
        | .panic s => .panic s := by
  unfold frameV
  rw [h]

theorem frameV_short {γ : Type} (b' : Bytes) (kv : (List (Nat × Nat) × List Nat) → Outcome γ)
    (h : (bytesToWords b').length < 3) : frameV b' kv = .err eIO := by
  unfold frameV
  rcases short3 h with h | ⟨a, h⟩ | ⟨a, a', h⟩ <;> rw [h]

theorem frame_erase {γ : Type} (sU16 sN sMk sV sSlice : String) (b : Bytes) (pos : Nat)
    (k : (List (Nat × Nat) × List Nat) → Cost → Outcome (γ × Cost))
    (kv : (List (Nat × Nat) × List Nat) → Outcome γ)
    (hk : ∀ pr c, pr.2.length < 65536 → erase (k pr c) = kv pr) :
    erase (frameM sU16 sN sMk sV sSlice b pos k) = frameV (b.drop pos) kv := by
  unfold frameM
  rcases hdr_cases b pos with ⟨fmt, covOff, hws, hco⟩ | ⟨hlen, hco⟩
  · rw [hco, ok_bind]
    rcases counted_cases sN sMk sV b (pos + 4) Cost.zero.tick with
      ⟨r, n, rest, hr, hw4, hnl, hrt⟩ | ⟨hr, hw4⟩
    · rw [hw4] at hws
      rw [hr, ok_bind, frameV_cons _ _ _ _ _ _ hws, if_neg hnl, List.drop_drop,
        ← coverageRead_erase]
      have hrl := (readCounted_ok (r := r.1) (c' := r.2) hr).1
      cases hcv : coverageRead b (pos + covOff) with
      | ok cov =>
        obtain ⟨cv, cc⟩ := cov
        obtain ⟨c', hp, _, _, _, _, hlen2, _⟩ := pruneStep_spec sSlice cv r.1 (cadd r.2 cc)
        rw [ok_bind]
        dsimp only [erase]
        rw [hp, ok_bind, ← hrt]
        exact hk _ _ (Nat.lt_of_le_of_lt hlen2 hrl)
      | err e => rfl
      | panic s => rfl
    · rw [hr]
      rcases hw4 with h0 | ⟨n, rest, h1, h2⟩
      · rw [h0] at hws
        rw [frameV_short _ _ (by rw [hws]; simp)]
        rfl
      · rw [h1] at hws
        rw [frameV_cons _ _ _ _ _ _ hws, if_pos h2]
        rfl
  · rw [hco, frameV_short _ _ (by omega)]
    rfl

theorem long3 {ws : List Nat} (h : 3 ≤ ws.length) : ∃ a b c r, ws = a :: b :: c :: r := by
  match ws, h with
  | a :: b :: c :: r, _ => exact ⟨a, b, c, r, rfl⟩
  | [], h | [_], h | [_, _], h => simp only [List.length_cons, List.length_nil] at h; omega

/-! ### 1.1 -/

/-- BRIDGE `readGsub1_1`: all bytes, all positions -/
theorem read11_erase (b : Bytes) (pos : Nat) :
    erase (read11 b pos) = SfntV.Otl.Gsub.read11 (b.drop pos) := by
  have hlen := List.length_drop (i := pos) (l := b)
  unfold read11 SfntV.Otl.Gsub.read11
  by_cases h : pos + 6 ≤ b.length
  · obtain ⟨a0, a1, a2, a3, a4, a5, r, hd⟩ := six_split (b.drop pos) (by omega)
    have hd2 : b.drop (pos + 2) = a2 :: a3 :: a4 :: a5 :: r := by
      rw [← List.drop_drop, hd]; rfl
    have hrb : readBytes "gsub.go:80#ReadBytes(4)" b (pos + 2) 4 = .ok [a2, a3, a4, a5] := by
      unfold readBytes
      rw [if_neg (by omega), if_pos (by omega), hd2]
      rfl
    have hw : bytesToWords (b.drop pos) = be a0 a1 :: be a2 a3 :: be a4 a5 :: bytesToWords r := by
      rw [hd]; rfl
    rw [hrb, ok_bind, hw]
    show erase (readSet b (pos + be a2 a3) >>= fun s =>
        pure ((s.1, be a4 a5), (cadd Cost.zero.tick s.2).mem 1)) = _
    rw [erase_bind_pure (readSet b (pos + be a2 a3)) (fun gs => (gs, be a4 a5))
      (fun s => (cadd Cost.zero.tick s.2).mem 1), readSet_erase]
    dsimp only
    rw [List.drop_drop]
    cases SfntV.Otl.Cov.readSet (b.drop (pos + be a2 a3)) <;> rfl
  · have hrb : readBytes "gsub.go:80#ReadBytes(4)" b (pos + 2) 4 = .err "io" := by
      unfold readBytes
      rw [if_neg (by omega), if_neg (by omega)]
    have hl : (bytesToWords (b.drop pos)).length < 3 := by
      rw [bytesToWords_length]; omega
    rw [hrb]
    rcases short3 hl with h | ⟨a, h⟩ | ⟨a, a', h⟩ <;> rw [h] <;> rfl

/-! ### 1.2 -/

theorem gsub_read12_eq (b' : Bytes) :
    SfntV.Otl.Gsub.read12 b' = frameV b' (fun pr => .ok pr) := by
  rcases Nat.lt_or_ge (bytesToWords b').length 3 with hl | hl
  · rw [frameV_short _ _ hl]
    unfold SfntV.Otl.Gsub.read12
    rcases short3 hl with h | ⟨a, h⟩ | ⟨a, a', h⟩ <;> rw [h]
  · obtain ⟨f, co, n, rest, h⟩ := long3 hl
    rw [frameV_cons _ _ _ _ _ _ h]
    unfold SfntV.Otl.Gsub.read12
    rw [h]
    dsimp only
    split
    · rfl
    · cases SfntV.Otl.Cov.read (b'.drop co) <;> rfl

/-- BRIDGE `readGsub1_2`: all bytes, all positions -/
theorem read12_erase (b : Bytes) (pos : Nat) :
    erase (read12 b pos) = SfntV.Otl.Gsub.read12 (b.drop pos) := by
  rw [gsub_read12_eq]
  exact frame_erase "gsub.go:141#ReadUint16" "gidslice.go:26#ReadUint16"
    "gidslice.go:30#make([]glyph.ID, n)" "gidslice.go:32#ReadUint16"
    "gsub.go:158#substituteGlyphIDs[:len(cov)]" b pos (fun pr c => pure (pr, c.mem 1))
    (fun pr => .ok pr) (fun _ _ _ => rfl)

/-! ### 2.1 / 3.1 -/

/-- what a record position holds in the value-level model -/
def seqV (b : Bytes) (q : Nat) : Outcome (List Nat) := countedW (bytesToWords (b.drop q))

theorem readSeqs_eq (b : Bytes) (pos : Nat) : ∀ offs : List Nat,
    SfntV.Otl.Gsub.readSeqs (b.drop pos) offs = vloop (seqV b) (offs.map (fun o => pos + o))
  | [] => rfl
  | off :: offs => by
    unfold SfntV.Otl.Gsub.readSeqs
    simp only [List.map_cons, vloop]
    rw [gsub_readCounted_eq, List.drop_drop, readSeqs_eq b pos offs,
      ← show seqV b (pos + off) = countedW (bytesToWords (b.drop (pos + off))) from rfl]
    cases seqV b (pos + off) with
    | ok r => cases vloop (seqV b) (offs.map (fun o => pos + o)) <;> rfl
    | err e => rfl
    | panic s => rfl

def kvSeq (b' : Bytes) (pr : List (Nat × Nat) × List Nat) :
    Outcome (List (Nat × Nat) × List (List Nat)) :=
  match SfntV.Otl.Gsub.readSeqs b' pr.2 with
  | .ok seqs => .ok (pr.1, seqs)
  | .err e => .err e
  | .panic s => .panic s

theorem gsub_readSeq_eq (b' : Bytes) :
    SfntV.Otl.Gsub.readSeq b' = frameV b' (kvSeq b') := by
  rcases Nat.lt_or_ge (bytesToWords b').length 3 with hl | hl
  · rw [frameV_short _ _ hl]
    unfold SfntV.Otl.Gsub.readSeq
    rcases short3 hl with h | ⟨a, h⟩ | ⟨a, a', h⟩ <;> rw [h]
  · obtain ⟨f, co, n, rest, h⟩ := long3 hl
    rw [frameV_cons _ _ _ _ _ _ h]
    unfold SfntV.Otl.Gsub.readSeq
    rw [h]
    dsimp only
    split
    · rfl
    · cases SfntV.Otl.Cov.read (b'.drop co) with
      | ok cov =>
        dsimp only [kvSeq]
        cases SfntV.Otl.Gsub.readSeqs b' (SfntV.Otl.Gsub.prune cov (rest.take n)).2 <;> rfl
      | err e => rfl
      | panic s => rfl

def kSeq (sMake sIdx : String) (rd : Nat → Nat → Nat → Cost → Outcome (List Nat × Cost))
    (pos : Nat) (pr : List (Nat × Nat) × List Nat) (c : Cost) :
    Outcome ((List (Nat × Nat) × List (List Nat)) × Cost) := do
  let count := pr.2.length
  let c ← mkSlice sMake count c
  let seqs ← idxLoop sIdx (rd count) pos pr.2 count 0 [] c
  pure ((pr.1, seqs.1), seqs.2.mem 1)

theorem kSeq_erase (sMake sIdx : String) (rd : Nat → Nat → Nat → Cost → Outcome (List Nat × Cost))
    (b : Bytes) (pos : Nat)
    (hrd : ∀ count i q c, i < count → erase (rd count i q c) = seqV b q)
    (pr : List (Nat × Nat) × List Nat) (c : Cost) (hlt : pr.2.length < 65536) :
    erase (kSeq sMake sIdx rd pos pr c) = kvSeq (b.drop pos) pr := by
  unfold kSeq kvSeq
  dsimp only
  rw [mkSlice_ok _ _ _ hlt, ok_bind, idxLoop_eq _ _ _ _ _ _ _ _ (by omega), List.drop_zero,
    erase_bind_pure _ (fun seqs => (pr.1, seqs)) (fun r => r.2.mem 1),
    rangeLoop_erase _ _ pr.2.length (seqV b) (hrd _) _ _ _ _ (by omega), mapOk_id, readSeqs_eq]
  cases vloop (seqV b) (pr.2.map (fun o => pos + o)) <;> rfl

theorem readSeqG_erase (sU16 sSlice sMake sIdx : String)
    (rd : Nat → Nat → Nat → Cost → Outcome (List Nat × Cost)) (b : Bytes) (pos : Nat)
    (hrd : ∀ count i q c, i < count → erase (rd count i q c) = seqV b q) :
    erase (readSeqG sU16 sSlice sMake sIdx rd b pos) = SfntV.Otl.Gsub.readSeq (b.drop pos) := by
  rw [gsub_readSeq_eq]
  exact frame_erase sU16 "parser.go:145#ReadUint16" "parser.go:149#make([]uint16, n)"
    "parser.go:151#ReadUint16" sSlice b pos (kSeq sMake sIdx rd pos) (kvSeq (b.drop pos))
    (fun pr c h => kSeq_erase sMake sIdx rd b pos hrd pr c h)

theorem seqRead21_erase (b : Bytes) (count i q : Nat) (c : Cost) (hi : i < count) :
    erase (seqRead21 b count i q c) = seqV b q := by
  unfold seqRead21 seqV readGIDSlice
  rw [← readCounted_erase "gidslice.go:26#ReadUint16" "gidslice.go:30#make([]glyph.ID, n)"
    "gidslice.go:32#ReadUint16" b q c]
  cases readCounted "gidslice.go:26#ReadUint16" "gidslice.go:30#make([]glyph.ID, n)"
    "gidslice.go:32#ReadUint16" b q c with
  | ok r => rw [ok_bind, chkIdx_ok _ hi, ok_bind]; rfl
  | err e => rfl
  | panic s => rfl

theorem seqRead31_erase (b : Bytes) (count i q : Nat) (c : Cost) (hi : i < count) :
    erase (seqRead31 b count i q c) = seqV b q := by
  unfold seqRead31 seqV
  rcases word_cases "gsub.go:383#ReadUint16" b q with ⟨n, hn, hws⟩ | ⟨hn, hws⟩
  · obtain ⟨_, hlt, _⟩ := readU16_ok hn
    rw [hn, hws, ok_bind, mkSlice_ok _ _ _ hlt, ok_bind, chkIdx_ok _ hi, ok_bind,
      wordsLoop_erase _ _ b n _ _ _ _ (chk31_ok count i n hi), countedW_cons]
    by_cases hle : n ≤ (bytesToWords (b.drop (q + 2))).length
    · rw [if_pos hle, if_neg (by omega)]
      rfl
    · rw [if_neg hle, if_pos (by omega)]
  · rw [hn, hws]
    rfl

/-- BRIDGE `readGsub2_1`: all bytes, all positions -/
theorem read21_erase (b : Bytes) (pos : Nat) :
    erase (read21 b pos) = SfntV.Otl.Gsub.readSeq (b.drop pos) :=
  readSeqG_erase _ _ _ _ _ b pos (seqRead21_erase b)

/-- BRIDGE `readGsub3_1`: all bytes, all positions -/
theorem read31_erase (b : Bytes) (pos : Nat) :
    erase (read31 b pos) = SfntV.Otl.Gsub.readSeq (b.drop pos) :=
  readSeqG_erase _ _ _ _ _ b pos (seqRead31_erase b)

/-! ### 4.1 -/

/-- the element loop against the word view, as a case split -/
theorem wordsLoop_cases (site : String) (chk : Nat → Outcome Unit) (b : Bytes) (n q j : Nat)
    (acc : List Nat) (c : Cost) (hchk : ∀ k, j ≤ k → k < j + n → chk k = .ok ()) :
    (∃ r, wordsLoop site chk b n q j acc c = .ok r ∧ n ≤ (bytesToWords (b.drop q)).length ∧
        r.1 = acc.reverse ++ (bytesToWords (b.drop q)).take n) ∨
    (wordsLoop site chk b n q j acc c = .err eIO ∧ ¬ n ≤ (bytesToWords (b.drop q)).length) := by
  have he := wordsLoop_erase site chk b n q j acc c hchk
  by_cases hle : n ≤ (bytesToWords (b.drop q)).length
  · rw [if_pos hle] at he
    cases hr : wordsLoop site chk b n q j acc c with
    | ok r =>
      rw [hr] at he
      obtain ⟨a, c'⟩ := r
      cases he
      exact Or.inl ⟨_, rfl, hle, rfl⟩
    | err e => rw [hr] at he; cases he
    | panic s => rw [hr] at he; cases he
  · rw [if_neg hle] at he
    cases hr : wordsLoop site chk b n q j acc c with
    | ok r => rw [hr] at he; obtain ⟨a, c'⟩ := r; cases he
    | err e => rw [hr] at he; cases he; exact Or.inr ⟨rfl, hle⟩
    | panic s => rw [hr] at he; cases he

theorem ligRead_erase (b : Bytes) (nsets nligs i j q : Nat) (c : Cost) (hi : i < nsets)
    (hj : j < nligs) :
    erase (ligReadG true b nsets nligs i j q c) = SfntV.Otl.Gsub.readLig b q := by
  unfold ligReadG SfntV.Otl.Gsub.readLig
  rcases word_cases "gsub.go:536#ReadUint16" b q with ⟨out, hout, hws⟩ | ⟨hout, hws⟩
  · rcases word_cases "gsub.go:540#ReadUint16" b (q + 2) with ⟨cc, hcc, hws2⟩ | ⟨hcc, hws2⟩
    · obtain ⟨_, hcclt, _⟩ := readU16_ok hcc
      rw [hout, ok_bind, hcc, ok_bind, hws, hws2]
      dsimp only
      by_cases hz : cc = 0
      · subst hz
        rw [if_pos ⟨rfl, rfl⟩]
        rfl
      rw [if_neg (fun h => hz h.2), if_neg (by simpa using hz)]
      have hn : (cc + 65535) % 65536 = cc - 1 := by omega
      rw [hn]
      have hlt : cc - 1 < 65536 := by omega
      generalize cc - 1 = n at hlt ⊢
      rw [mkSlice_ok _ _ _ hlt, ok_bind, show q + 2 + 2 = q + 4 by omega]
      rcases wordsLoop_cases "gsub.go:552#ReadUint16"
        (fun k => chkIdx "gsub.go:556#componentGlyphIDs[k]" n k) b n (q + 4) 0 []
        ((c.tick 2).mem n) (fun k _ hk => chkIdx_ok _ (by omega)) with ⟨r, hr, hle, hr1⟩ | ⟨hr, hle⟩
      · rw [hr, ok_bind, chkIdx_ok _ hi, ok_bind, chkIdx_ok _ hj, ok_bind, chkIdx_ok _ hi,
          ok_bind, chkIdx_ok _ hj, ok_bind, if_neg (by omega)]
        simp only [List.reverse_nil, List.nil_append] at hr1
        rw [← hr1]
        rfl
      · rw [hr, if_pos (by omega)]
        rfl
    · rw [hout, ok_bind, hcc, hws, hws2]
      rfl
  · rw [hout, hws]
    rfl

theorem readLig_shift (b : Bytes) (pos off : Nat) :
    SfntV.Otl.Gsub.readLig (b.drop pos) off = SfntV.Otl.Gsub.readLig b (pos + off) := by
  unfold SfntV.Otl.Gsub.readLig
  rw [List.drop_drop]

theorem readLigs_eq (b : Bytes) (setPos : Nat) : ∀ offs : List Nat,
    SfntV.Otl.Gsub.readLigs b setPos offs
      = vloop (SfntV.Otl.Gsub.readLig b) (offs.map (fun o => setPos + o))
  | [] => rfl
  | off :: offs => by
    unfold SfntV.Otl.Gsub.readLigs
    simp only [List.map_cons, vloop]
    rw [readLigs_eq b setPos offs]
    cases SfntV.Otl.Gsub.readLig b (setPos + off) with
    | ok r => cases vloop (SfntV.Otl.Gsub.readLig b) (offs.map (fun o => setPos + o)) <;> rfl
    | err e => rfl
    | panic s => rfl

theorem readLigs_shift (b : Bytes) (pos setPos : Nat) (offs : List Nat) :
    SfntV.Otl.Gsub.readLigs (b.drop pos) setPos offs
      = SfntV.Otl.Gsub.readLigs b (pos + setPos) offs := by
  rw [readLigs_eq, readLigs_eq]
  have : ∀ l : List Nat, vloop (SfntV.Otl.Gsub.readLig (b.drop pos)) (l.map (fun o => setPos + o))
      = vloop (SfntV.Otl.Gsub.readLig b) (l.map (fun o => pos + setPos + o)) := by
    intro l
    induction l with
    | nil => rfl
    | cons o l ih =>
      simp only [List.map_cons, vloop]
      rw [ih, readLig_shift, Nat.add_assoc]
  exact this offs

/-- what a ligature-set position holds in the value-level model (the body of `readLigSets`) -/
def ligSetV (b : Bytes) (q : Nat) : Outcome (List Lig) :=
  match bytesToWords (b.drop q) with
  | n :: rest =>
    if rest.length < n then .err eIO else SfntV.Otl.Gsub.readLigs b q (rest.take n)
  | [] => .err eIO

theorem ligSetV_nil {b : Bytes} {q : Nat} (h : bytesToWords (b.drop q) = []) :
    ligSetV b q = .err eIO := by
  unfold ligSetV
  rw [h]

theorem ligSetV_cons {b : Bytes} {q n : Nat} {rest : List Nat}
    (h : bytesToWords (b.drop q) = n :: rest) :
    ligSetV b q = if rest.length < n then .err eIO
      else SfntV.Otl.Gsub.readLigs b q (rest.take n) := by
  unfold ligSetV
  rw [h]

theorem ligSetRead_erase (b : Bytes) (nsets i q : Nat) (c : Cost) (hi : i < nsets) :
    erase (ligSetReadG true b nsets i q c) = ligSetV b q := by
  unfold ligSetReadG ligSetV readU16Slice
  rcases counted_cases "parser.go:145#ReadUint16" "parser.go:149#make([]uint16, n)"
    "parser.go:151#ReadUint16" b q c with ⟨r, n, rest, hr, hw, hnl, hrt⟩ | ⟨hr, hw⟩
  · have hrl := (readCounted_ok (r := r.1) (c' := r.2) hr).1
    rw [hr, ok_bind, mkSlice_ok _ _ _ hrl, ok_bind, chkIdx_ok _ hi, ok_bind,
      rangeLoop_erase _ _ r.1.length (SfntV.Otl.Gsub.readLig b)
        (fun j q c hj => ligRead_erase b nsets r.1.length i j q c hi hj) _ _ _ _ (by omega),
      mapOk_id, hw]
    dsimp only
    rw [if_neg hnl, readLigs_eq, hrt]
  · rw [hr]
    rcases hw with h0 | ⟨n, rest, h1, h2⟩
    · rw [h0]; rfl
    · rw [h1]
      dsimp only
      rw [if_pos h2]
      rfl

theorem readLigSets_eq (b : Bytes) (pos : Nat) : ∀ offs : List Nat,
    SfntV.Otl.Gsub.readLigSets (b.drop pos) offs
      = vloop (ligSetV b) (offs.map (fun o => pos + o))
  | [] => rfl
  | off :: offs => by
    unfold SfntV.Otl.Gsub.readLigSets
    simp only [List.map_cons, vloop]
    rw [List.drop_drop, readLigSets_eq b pos offs]
    cases hw : bytesToWords (b.drop (pos + off)) with
    | nil => rw [ligSetV_nil hw]
    | cons n rest =>
      rw [ligSetV_cons hw]
      dsimp only
      by_cases hlt : rest.length < n
      · rw [if_pos hlt, if_pos hlt]
      · rw [if_neg hlt, if_neg hlt, readLigs_shift]
        cases SfntV.Otl.Gsub.readLigs b (pos + off) (rest.take n) with
        | ok r => cases vloop (ligSetV b) (offs.map (fun o => pos + o)) <;> rfl
        | err e => rfl
        | panic s => rfl

def kv41Pre (b' : Bytes) (pr : List (Nat × Nat) × List Nat) :
    Outcome (List (Nat × Nat) × List (List Lig)) :=
  match SfntV.Otl.Gsub.readLigSets b' pr.2 with
  | .ok repl => .ok (pr.1, repl)
  | .err e => .err e
  | .panic s => .panic s

/-- the cap of gsub.go:573 on values -/
def capV : Outcome (List (Nat × Nat) × List (List Lig)) →
    Outcome (List (Nat × Nat) × List (List Lig))
  | .ok r => if lig41Total r.2 > 0xFFFF then .err eInvalid else .ok r
  | .err e => .err e
  | .panic s => .panic s

def k41 (b : Bytes) (pos : Nat) (pr : List (Nat × Nat) × List Nat) (c : Cost) :
    Outcome ((List (Nat × Nat) × List (List Lig)) × Cost) := do
  let nsets := pr.2.length
  let c ← mkSlice "gsub.go:518#make([][]Ligature, len(ligatureSetOffsets))" nsets c
  let repl ← rangeLoop (ligSetReadG true b nsets) pos pr.2 0 [] c
  pure ((pr.1, repl.1), repl.2.tick (repl.1.length + (repl.1.map List.length).sum))

theorem k41_erase (b : Bytes) (pos : Nat) (pr : List (Nat × Nat) × List Nat) (c : Cost)
    (hlt : pr.2.length < 65536) : erase (k41 b pos pr c) = kv41Pre (b.drop pos) pr := by
  unfold k41 kv41Pre
  dsimp only
  rw [mkSlice_ok _ _ _ hlt, ok_bind,
    erase_bind_pure _ (fun repl => (pr.1, repl))
      (fun r : List (List Lig) × Cost => r.2.tick (r.1.length + (r.1.map List.length).sum)),
    rangeLoop_erase _ _ pr.2.length (ligSetV b)
      (fun i q c hi => ligSetRead_erase b pr.2.length i q c hi) _ _ _ _ (by omega),
    mapOk_id, readLigSets_eq]
  cases vloop (ligSetV b) (pr.2.map (fun o => pos + o)) <;> rfl

/-- BRIDGE `readGsub4_1` before the cap -/
theorem read41Pre_erase (b : Bytes) (pos : Nat) :
    erase (read41Pre b pos) = frameV (b.drop pos) (kv41Pre (b.drop pos)) :=
  frame_erase "gsub.go:498#ReadUint16" "parser.go:145#ReadUint16"
    "parser.go:149#make([]uint16, n)" "parser.go:151#ReadUint16"
    "gsub.go:515#ligatureSetOffsets[:len(cov)]" b pos (k41 b pos) (kv41Pre (b.drop pos))
    (fun pr c h => k41_erase b pos pr c h)

theorem gsub_read41_eq (b' : Bytes) :
    SfntV.Otl.Gsub.read41 b' = capV (frameV b' (kv41Pre b')) := by
  rcases Nat.lt_or_ge (bytesToWords b').length 3 with hl | hl
  · rw [frameV_short _ _ hl]
    unfold SfntV.Otl.Gsub.read41
    rcases short3 hl with h | ⟨a, h⟩ | ⟨a, a', h⟩ <;> rw [h] <;> rfl
  · obtain ⟨f, co, n, rest, h⟩ := long3 hl
    rw [frameV_cons _ _ _ _ _ _ h]
    unfold SfntV.Otl.Gsub.read41
    rw [h]
    dsimp only
    split
    · rfl
    · cases SfntV.Otl.Cov.read (b'.drop co) with
      | ok cov =>
        dsimp only [kv41Pre]
        cases SfntV.Otl.Gsub.readLigSets b' (SfntV.Otl.Gsub.prune cov (rest.take n)).2 <;> rfl
      | err e => rfl
      | panic s => rfl

/-- BRIDGE `readGsub4_1`: all bytes, all positions -/
theorem read41_erase (b : Bytes) (pos : Nat) :
    erase (read41 b pos) = SfntV.Otl.Gsub.read41 (b.drop pos) := by
  rw [gsub_read41_eq, ← read41Pre_erase]
  unfold read41 read41G read41Pre
  cases read41PreG true b pos with
  | ok r =>
    obtain ⟨v, c⟩ := r
    rw [ok_bind]
    dsimp only
    by_cases hc : lig41Total v.2 > 0xFFFF
    · rw [if_pos hc]
      dsimp only [erase, capV]
      rw [if_pos hc]
      rfl
    · rw [if_neg hc]
      dsimp only [erase, capV]
      rw [if_neg hc]
      rfl
  | err e => rfl
  | panic s => rfl

/-! ## witnesses: the allocation is not proportional to the input -/

/-- GSUB 2.1 / 3.1 with `n` sequence offsets that all point at ONE sequence of `L` glyphs (all 0);
coverage format 2 with the single range `0..n-1` in front of the sequence: `2n + 2L + 18` bytes
(`n ≤ 32759` keeps the offsets in 16 bits, `L ≤ 65535`) -/
def alias21 (n L : Nat) : Bytes :=
  be16 1 ++ be16 (6 + 2 * n) ++ be16 n ++ (List.replicate n (be16 (16 + 2 * n))).flatten ++
    [0,2, 0,1, 0,0] ++ be16 (n - 1) ++ [0,0] ++ be16 L ++ (List.replicate L [0,0]).flatten

/-- 418 bytes (100 offsets aliasing one sequence of 100 glyphs) are accepted by `readGsub2_1` and
by `readGsub3_1` and cost 10405 steps and 10302 elements: every visit of the ONE record is paid -/
theorem alias21_cost :
    (alias21 100 100).length = 418 ∧
    costOf (read21 (alias21 100 100) 0) = some ⟨10405, 10302⟩ ∧
    costOf (read31 (alias21 100 100) 0) = some ⟨10405, 10302⟩ := by
  decide +kernel

/-- the family scales like `n·L + 3n + 2` elements on `2n + 2L + 18` bytes: doubling both
parameters doubles the input and quadruples the allocation -/
theorem alias21_scaling :
    ((alias21 50 50).length = 218 ∧ costOf (read21 (alias21 50 50) 0) = some ⟨2705, 2652⟩) ∧
    ((alias21 200 200).length = 818 ∧
      costOf (read21 (alias21 200 200) 0) = some ⟨40805, 40602⟩) := by
  decide +kernel

/-- hence no bound `alloc ≤ 20·|b| + 1000` holds for `readGsub2_1`: the general shape is
`n·L` elements from `2n + 2L + 18` bytes (measured on the real code: 139 088 bytes allocate
524 626 120 bytes, `n = 4000`, `L = 65535`) -/
theorem read21_alloc_not_proportional :
    ¬ ∀ (b : Bytes) (pos : Nat) (r : List (Nat × Nat) × List (List Nat)) (c : Cost),
      read21 b pos = .ok (r, c) → c.alloc ≤ 20 * b.length + 1000 := by
  intro h
  obtain ⟨hl, hc, _⟩ := alias21_cost
  cases hr : read21 (alias21 100 100) 0 with
  | ok r =>
    obtain ⟨v, c⟩ := r
    rw [hr] at hc
    have := h _ _ v c hr
    cases hc
    rw [hl] at this
    dsimp only at this
    omega
  | err e => rw [hr] at hc; cases hc
  | panic s => rw [hr] at hc; cases hc

/-- GSUB 8.1 with `n` backtrack and `n` lookahead coverage offsets that all point at the input
coverage table, format 2 with the single range `0..65535` (10 bytes): `4n + 20` bytes -/
def alias81 (n : Nat) : Bytes :=
  be16 1 ++ be16 (10 + 4 * n) ++ be16 n ++ (List.replicate n (be16 (10 + 4 * n))).flatten ++
    be16 n ++ (List.replicate n (be16 (10 + 4 * n))).flatten ++ [0,0] ++
    [0,2, 0,1, 0,0, 0xff,0xff, 0,0]

/-- 28 bytes cost 458779 steps and 393230 elements in `readGsub8_1`: five visits of one 10-byte
coverage table, 65536 map entries each (measured on the real code: 420 bytes, `n = 100`, allocate
737 426 472 bytes) -/
theorem alias81_cost :
    (alias81 2).length = 28 ∧ costOf (read81 (alias81 2) 0) = some ⟨458779, 393230⟩ := by
  decide +kernel

/-! ## non-vacuity -/

/-- 1.1: coverage {5}, delta 1; at position 1 with a format-2 set {65535} and delta 0xFFFF -/
example : read11 [0,1, 0,6, 0,1, 0,1, 0,1, 0,5] 0 = .ok (([5], 1), ⟨4, 3⟩) := by decide +kernel
example : read11 [9, 0,1, 0,6, 0xff,0xff, 0,2, 0,1, 0xff,0xff, 0xff,0xff, 0,0] 1
    = .ok (([65535], 65535), ⟨5, 3⟩) := by decide +kernel
/-- 1.2: equal sizes; coverage larger than the array (pruned); smaller (array truncated) -/
example : read12 [0,2, 0,10, 0,2, 0,30, 0,31, 0,1, 0,2, 0,5, 0,6] 0
    = .ok (([(5,0), (6,1)], [30, 31]), ⟨8, 6⟩) := by decide +kernel
example : read12 [0,2, 0,8, 0,1, 0,30, 0,1, 0,3, 0,5, 0,6, 0,7] 0
    = .ok (([(5,0)], [30]), ⟨13, 8⟩) := by decide +kernel
example : read12 [0,2, 0,12, 0,3, 0,30, 0,31, 0,32, 0,1, 0,1, 0,5] 0
    = .ok (([(5,0)], [30]), ⟨8, 6⟩) := by decide +kernel
/-- 2.1 / 3.1: two offsets aliasing the one sequence [7, 8] -/
example : read21 [0,1, 0,16, 0,2, 0,10, 0,10, 0,2, 0,7, 0,8, 0,1, 0,2, 0,5, 0,6] 0
    = .ok (([(5,0), (6,1)], [[7, 8], [7, 8]]), ⟨16, 12⟩) := by decide +kernel
example : read31 [0,1, 0,16, 0,2, 0,10, 0,10, 0,2, 0,7, 0,8, 0,1, 0,2, 0,5, 0,6] 0
    = .ok (([(5,0), (6,1)], [[7, 8], [7, 8]]), ⟨16, 12⟩) := by decide +kernel
/-- 4.1: one set, two ligature offsets aliasing the ligature 30 ← (cov) 7; `componentCount = 0`
is rejected as invalid; before the repair it asked for 65535 components (an I/O error here) -/
example : read41 [0,1, 0,20, 0,1, 0,8, 0,2, 0,6, 0,6, 0,30, 0,2, 0,7, 0,1, 0,1, 0,5] 0
    = .ok (([(5,0)], [[⟨[7], 30⟩, ⟨[7], 30⟩]]), ⟨21, 11⟩) := by decide +kernel
example : read41 [0,1, 0,18, 0,1, 0,8, 0,1, 0,4, 0,30, 0,0, 0,7, 0,1, 0,1, 0,5] 0
    = .err "invalid" := by decide +kernel
example : read41Old [0,1, 0,18, 0,1, 0,8, 0,1, 0,4, 0,30, 0,0, 0,7, 0,1, 0,1, 0,5] 0
    = .err "io" := by decide +kernel

/-- `[input] ++ back ++ look`, substitutes, steps, alloc -/
def view81 : Outcome (Rev81 × Cost) → Option (List (List (Nat × Nat)) × List Nat × Nat × Nat)
  | .ok (r, c) => some (r.input :: (r.back ++ r.look), r.subs, c.steps, c.alloc)
  | _ => none

def errOf {α : Type} : Outcome α → Option String
  | .err e => some e
  | _ => none

/-- 8.1: one backtrack and one lookahead offset, both aliasing the input coverage {5} -/
example : view81 (read81 [0,1, 0,16, 0,1, 0,16, 0,1, 0,16, 0,1, 0,40, 0,1, 0,1, 0,5] 0)
    = some ([[(5,0)], [(5,0)], [(5,0)]], [40], 18, 12) := by decide +kernel
/-- beyond the end: an I/O error -/
example : errOf (read81 [0,1] 7) = some "io" := by decide +kernel
/-- the dispatcher key is uint16 arithmetic.  BEFORE the repair lookup type 1 with format word 11
was read by `readGsub2_1` (key 21) and lookup type 4 with format 11 belonged to `readSeqContext1`
(key 51), lookup type 6560 with format 7 to the extension reader (key 65607 mod 65536 = 71) -/
theorem readSubtableOld_key_collision :
    (readSubtableOld 1 [0,11, 0,6, 0,0, 0,1, 0,0] 0).isOk = true ∧
    errOf (readSubtableOld 4 [0,11] 0) = some "foreign" ∧
    errOf (readSubtableOld 6560 [0,7] 0) = some "foreign" := by decide +kernel
/-- the code as it is now rejects all of them -/
example : errOf (readSubtable 1 [0,11, 0,6, 0,0, 0,1, 0,0] 0) = some "invalid" := by decide +kernel
example : errOf (readSubtable 4 [0,11] 0) = some "invalid" := by decide +kernel
example : errOf (readSubtable 6560 [0,7] 0) = some "invalid" := by decide +kernel
example : errOf (readSubtable 32769 [0,1, 0,6, 0,1, 0,1, 0,1, 0,5] 0) = some "invalid" := by
  decide +kernel
example : errOf (readSubtable 2 [0,2] 0) = some "invalid" := by decide +kernel
/-- valid keys: type 1 format 1 decodes; type 5 format 1 belongs to another group's reader -/
example : (readSubtable 1 [0,1, 0,6, 0,1, 0,1, 0,1, 0,5] 0).isOk = true := by decide +kernel
example : errOf (readSubtable 5 [0,1] 0) = some "foreign" := by decide +kernel

/-! ### 8.1 -/

theorem words_drop : ∀ (k : Nat) (l : Bytes), bytesToWords (l.drop (2 * k)) = (bytesToWords l).drop k
  | 0, l => by simp
  | k+1, [] => by simp [bytesToWords]
  | k+1, [a] => by
    rw [show 2 * (k + 1) = 2 * k + 1 + 1 by omega]
    simp [bytesToWords]
  | k+1, a :: a' :: r => by
    rw [show 2 * (k + 1) = 2 * k + 1 + 1 by omega]
    simp only [List.drop_succ_cons, bytesToWords]
    exact words_drop k r

theorem words_drop_at (b : Bytes) (q k : Nat) :
    bytesToWords (b.drop (q + 2 * k)) = (bytesToWords (b.drop q)).drop k := by
  rw [← List.drop_drop, words_drop]

/-- the part of the value-level `read81` after the three counted arrays -/
def tail81 (b' : Bytes) (covOff : Nat) (bo lo subs : List Nat) : Outcome Rev81 :=
  match SfntV.Otl.Cov.read (b'.drop covOff) with
  | .ok input =>
    match SfntV.Otl.Gsub.readCovs b' bo with
    | .ok back =>
      match SfntV.Otl.Gsub.readCovs b' lo with
      | .ok look =>
        .ok ⟨(SfntV.Otl.Gsub.prune input subs).1, back, look, (SfntV.Otl.Gsub.prune input subs).2⟩
      | .err e => .err e
      | .panic s => .panic s
    | .err e => .err e
    | .panic s => .panic s
  | .err e => .err e
  | .panic s => .panic s

theorem gsub_read81_ok (b' : Bytes) {fmt covOff nb nl n : Nat} {r1 r2 r3 : List Nat}
    (h0 : bytesToWords b' = fmt :: covOff :: nb :: r1) (h1 : ¬ r1.length < nb)
    (h2 : r1.drop nb = nl :: r2) (h3 : ¬ r2.length < nl) (h4 : r2.drop nl = n :: r3)
    (h5 : ¬ r3.length < n) :
    SfntV.Otl.Gsub.read81 b' = tail81 b' covOff (r1.take nb) (r2.take nl) (r3.take n) := by
  unfold SfntV.Otl.Gsub.read81 tail81
  rw [h0]
  dsimp only
  rw [if_neg h1, h2]
  dsimp only
  rw [if_neg h3, h4]
  dsimp only
  rw [if_neg h5]
  cases SfntV.Otl.Cov.read (b'.drop covOff) with
  | ok input =>
    dsimp only
    cases SfntV.Otl.Gsub.readCovs b' (r1.take nb) with
    | ok back =>
      dsimp only
      cases SfntV.Otl.Gsub.readCovs b' (r2.take nl) <;> rfl
    | err e => rfl
    | panic s => rfl
  | err e => rfl
  | panic s => rfl

theorem gsub_read81_err1 (b' : Bytes) {fmt covOff : Nat} {w4 : List Nat}
    (h0 : bytesToWords b' = fmt :: covOff :: w4)
    (h : w4 = [] ∨ ∃ nb r1, w4 = nb :: r1 ∧ r1.length < nb) :
    SfntV.Otl.Gsub.read81 b' = .err eIO := by
  unfold SfntV.Otl.Gsub.read81
  rcases h with h | ⟨nb, r1, h, hlt⟩
  · rw [h0, h]
  · rw [h0, h]
    dsimp only
    rw [if_pos hlt]

theorem gsub_read81_err2 (b' : Bytes) {fmt covOff nb : Nat} {r1 : List Nat}
    (h0 : bytesToWords b' = fmt :: covOff :: nb :: r1) (h1 : ¬ r1.length < nb)
    (h : r1.drop nb = [] ∨ ∃ nl r2, r1.drop nb = nl :: r2 ∧ r2.length < nl) :
    SfntV.Otl.Gsub.read81 b' = .err eIO := by
  unfold SfntV.Otl.Gsub.read81
  rw [h0]
  dsimp only
  rw [if_neg h1]
  rcases h with h | ⟨nl, r2, h, hlt⟩
  · rw [h]
  · rw [h]
    dsimp only
    rw [if_pos hlt]

theorem gsub_read81_err3 (b' : Bytes) {fmt covOff nb nl : Nat} {r1 r2 : List Nat}
    (h0 : bytesToWords b' = fmt :: covOff :: nb :: r1) (h1 : ¬ r1.length < nb)
    (h2 : r1.drop nb = nl :: r2) (h3 : ¬ r2.length < nl)
    (h : r2.drop nl = [] ∨ ∃ n r3, r2.drop nl = n :: r3 ∧ r3.length < n) :
    SfntV.Otl.Gsub.read81 b' = .err eIO := by
  unfold SfntV.Otl.Gsub.read81
  rw [h0]
  dsimp only
  rw [if_neg h1, h2]
  dsimp only
  rw [if_neg h3]
  rcases h with h | ⟨n, r3, h, hlt⟩
  · rw [h]
  · rw [h]
    dsimp only
    rw [if_pos hlt]

/-- what a coverage position holds in the value-level model -/
def covV (b : Bytes) (q : Nat) : Outcome (List (Nat × Nat)) := SfntV.Otl.Cov.read (b.drop q)

theorem readCovs_eq (b : Bytes) (pos : Nat) : ∀ offs : List Nat,
    SfntV.Otl.Gsub.readCovs (b.drop pos) offs = vloop (covV b) (offs.map (fun o => pos + o))
  | [] => rfl
  | off :: offs => by
    unfold SfntV.Otl.Gsub.readCovs
    simp only [List.map_cons, vloop]
    rw [List.drop_drop, readCovs_eq b pos offs,
      ← show covV b (pos + off) = SfntV.Otl.Cov.read (b.drop (pos + off)) from rfl]
    cases covV b (pos + off) with
    | ok r => cases vloop (covV b) (offs.map (fun o => pos + o)) <;> rfl
    | err e => rfl
    | panic s => rfl

theorem covRead81_erase (site : String) (b : Bytes) (count i q : Nat) (c : Cost)
    (hi : i < count) : erase (covRead81 site b count i q c) = covV b q := by
  unfold covRead81 covV
  rw [← coverageRead_erase]
  cases coverageRead b q with
  | ok r => obtain ⟨v, cc⟩ := r; rw [ok_bind, chkIdx_ok _ hi, ok_bind]; rfl
  | err e => rfl
  | panic s => rfl

theorem covLoop81_erase (site : String) (b : Bytes) (pos : Nat) (offs : List Nat) (c : Cost) :
    erase (rangeLoop (covRead81 site b offs.length) pos offs 0 [] c)
      = SfntV.Otl.Gsub.readCovs (b.drop pos) offs := by
  rw [rangeLoop_erase _ _ offs.length (covV b)
    (fun i q c hi => covRead81_erase site b offs.length i q c hi) _ _ _ _ (by omega),
    mapOk_id, readCovs_eq]

/-- BRIDGE `readGsub8_1`: all bytes, all positions -/
theorem read81_erase (b : Bytes) (pos : Nat) :
    erase (read81 b pos) = SfntV.Otl.Gsub.read81 (b.drop pos) := by
  unfold read81 readU16Slice readGIDSlice
  rcases hdr_cases b pos with ⟨fmt, covOff, hws, hco⟩ | ⟨hlen, hco⟩
  · rw [hco, ok_bind]
    rcases counted_cases "parser.go:145#ReadUint16" "parser.go:149#make([]uint16, n)"
      "parser.go:151#ReadUint16" b (pos + 4) Cost.zero.tick with
      ⟨bo, nb, r1, hbo, hw4, hnb, hbo1⟩ | ⟨hbo, hw4⟩
    · rw [hw4] at hws
      have hbl : bo.1.length = nb := by rw [hbo1, List.length_take]; omega
      have hbl' := (readCounted_ok (r := bo.1) (c' := bo.2) hbo).1
      rw [hbo, ok_bind]
      dsimp only
      have hq1 : bytesToWords (b.drop (pos + 4 + 2 + 2 * bo.1.length)) = r1.drop nb := by
        rw [show pos + 4 + 2 + 2 * bo.1.length = pos + 4 + 2 * (1 + nb) by omega, words_drop_at,
          hw4, Nat.add_comm 1 nb]
        rfl
      rcases counted_cases "parser.go:145#ReadUint16" "parser.go:149#make([]uint16, n)"
        "parser.go:151#ReadUint16" b (pos + 4 + 2 + 2 * bo.1.length) bo.2 with
        ⟨lo, nl, r2, hlo, hwq1, hnl, hlo1⟩ | ⟨hlo, hwq1⟩
      · rw [hq1] at hwq1
        have hll : lo.1.length = nl := by rw [hlo1, List.length_take]; omega
        have hll' := (readCounted_ok (r := lo.1) (c' := lo.2) hlo).1
        rw [hlo, ok_bind]
        have hq2 : bytesToWords (b.drop (pos + 4 + 2 + 2 * bo.1.length + 2 + 2 * lo.1.length))
            = r2.drop nl := by
          rw [show pos + 4 + 2 + 2 * bo.1.length + 2 + 2 * lo.1.length
              = pos + 4 + 2 + 2 * bo.1.length + 2 * (1 + nl) by omega, words_drop_at, hq1, hwq1,
            Nat.add_comm 1 nl]
          rfl
        rcases counted_cases "gidslice.go:26#ReadUint16" "gidslice.go:30#make([]glyph.ID, n)"
          "gidslice.go:32#ReadUint16" b
          (pos + 4 + 2 + 2 * bo.1.length + 2 + 2 * lo.1.length) lo.2 with
          ⟨subs, n, r3, hsubs, hwq2, hn, hsubs1⟩ | ⟨hsubs, hwq2⟩
        · rw [hq2] at hwq2
          rw [hsubs, ok_bind, gsub_read81_ok _ hws hnb hwq1 hnl hwq2 hn, ← hbo1, ← hlo1, ← hsubs1]
          unfold tail81
          rw [List.drop_drop, ← coverageRead_erase]
          cases coverageRead b (pos + covOff) with
          | ok input =>
            obtain ⟨iv, ic⟩ := input
            rw [ok_bind, mkSlice_ok _ _ _ hbl', ok_bind]
            dsimp only [erase]
            rw [← covLoop81_erase "gsub.go:748#backtrack[i]" b pos bo.1 ((cadd subs.2 ic).mem bo.1.length)]
            cases rangeLoop (covRead81 "gsub.go:748#backtrack[i]" b bo.1.length) pos bo.1 0 []
              ((cadd subs.2 ic).mem bo.1.length) with
            | ok back =>
              obtain ⟨bv, bc⟩ := back
              rw [ok_bind, mkSlice_ok _ _ _ hll', ok_bind]
              dsimp only [erase]
              rw [← covLoop81_erase "gsub.go:755#lookahead[i]" b pos lo.1 (bc.mem lo.1.length)]
              cases rangeLoop (covRead81 "gsub.go:755#lookahead[i]" b lo.1.length) pos lo.1 0 []
                (bc.mem lo.1.length) with
              | ok look =>
                obtain ⟨lv, lc⟩ := look
                obtain ⟨c', hp, _⟩ := pruneStep_spec
                  "gsub.go:764#substituteGlyphIDs[:len(input)]" iv subs.1 lc
                rw [ok_bind, hp, ok_bind]
                rfl
              | err e => rfl
              | panic s => rfl
            | err e => rfl
            | panic s => rfl
          | err e => rfl
          | panic s => rfl
        · rw [hq2] at hwq2
          rw [hsubs, gsub_read81_err3 _ hws hnb hwq1 hnl hwq2]
          rfl
      · rw [hq1] at hwq1
        rw [hlo, gsub_read81_err2 _ hws hnb hwq1]
        rfl
    · rw [hbo, gsub_read81_err1 _ hws hw4]
      rfl
  · rw [hco]
    unfold SfntV.Otl.Gsub.read81
    rcases short2 hlen with h | ⟨a, h⟩ <;> rw [h] <;> rfl

/-! ## bridge of the dispatcher -/

theorem erase_withSub {α : Type} (f : α → SfntV.Otl.Gsub.Sub) (x : Outcome (α × Cost)) :
    erase (withSub f x) = mapOk f (erase x) := by
  cases x with
  | ok r => obtain ⟨a, c⟩ := r; rfl
  | err e => rfl
  | panic s => rfl

/-- BRIDGE of the dispatcher `readGsubSubtable` (as repaired: lookup types and formats above 9
are rejected): for every lookup type that is not one of the other groups' (5, 6, 7 — contextual,
chained contextual, extension, where this model answers `err "foreign"` for the valid formats and
the C08 model `invalid`), every byte string and every position, and WITHOUT any condition on the
format word, the checked model without its cost is the C08 model `Otl.Gsub.readSubtable`.
Before the repair this was false (`readSubtableOld_key_collision`: type 1, format word 11). -/
theorem readSubtable_erase (tp : Nat) (b : Bytes) (pos : Nat) (h5 : tp ≠ 5) (h6 : tp ≠ 6)
    (h7 : tp ≠ 7) :
    erase (readSubtable tp b pos) = SfntV.Otl.Gsub.readSubtable tp (b.drop pos) := by
  unfold readSubtable SfntV.Otl.Gsub.readSubtable
  rcases word_cases "gsub.go:36#ReadUint16" b pos with ⟨f, hf, hws⟩ | ⟨hf, hws⟩
  · rw [hf, ok_bind, hws]
    dsimp only
    simp only [Bool.and_eq_true, Bool.or_eq_true, beq_iff_eq]
    by_cases hg : tp > 9 ∨ f > 9
    · rw [if_pos hg, if_neg (by omega : ¬ (tp = 1 ∧ f = 1)), if_neg (by omega : ¬ (tp = 1 ∧ f = 2)),
        if_neg (by omega : ¬ ((tp = 2 ∨ tp = 3) ∧ f = 1)), if_neg (by omega : ¬ (tp = 4 ∧ f = 1)),
        if_neg (by omega : ¬ (tp = 8 ∧ f = 1))]
      rfl
    · rw [if_neg hg, Nat.mod_eq_of_lt (by omega : 10 * tp + f < 65536)]
      unfold dispatchKey
      by_cases h11 : tp = 1 ∧ f = 1
      · rw [if_pos (by omega : 10 * tp + f = 11), if_pos h11, erase_withSub, read11_erase]
        cases SfntV.Otl.Gsub.read11 (b.drop pos) <;> rfl
      rw [if_neg (by omega : ¬ 10 * tp + f = 11), if_neg h11]
      by_cases h12 : tp = 1 ∧ f = 2
      · rw [if_pos (by omega : 10 * tp + f = 12), if_pos h12, erase_withSub, read12_erase]
        cases SfntV.Otl.Gsub.read12 (b.drop pos) <;> rfl
      rw [if_neg (by omega : ¬ 10 * tp + f = 12), if_neg h12]
      by_cases h21 : tp = 2 ∧ f = 1
      · rw [if_pos (by omega : 10 * tp + f = 21), if_pos (by omega : (tp = 2 ∨ tp = 3) ∧ f = 1),
          erase_withSub, read21_erase, h21.1]
        cases SfntV.Otl.Gsub.readSeq (b.drop pos) <;> rfl
      rw [if_neg (by omega : ¬ 10 * tp + f = 21)]
      by_cases h31 : tp = 3 ∧ f = 1
      · rw [if_pos (by omega : 10 * tp + f = 31), if_pos (by omega : (tp = 2 ∨ tp = 3) ∧ f = 1),
          erase_withSub, read31_erase, h31.1]
        cases SfntV.Otl.Gsub.readSeq (b.drop pos) <;> rfl
      rw [if_neg (by omega : ¬ 10 * tp + f = 31), if_neg (by omega : ¬ ((tp = 2 ∨ tp = 3) ∧ f = 1))]
      by_cases h41 : tp = 4 ∧ f = 1
      · rw [if_pos (by omega : 10 * tp + f = 41), if_pos h41, erase_withSub, read41_erase]
        cases SfntV.Otl.Gsub.read41 (b.drop pos) <;> rfl
      rw [if_neg (by omega : ¬ 10 * tp + f = 41), if_neg h41]
      by_cases h81 : tp = 8 ∧ f = 1
      · rw [if_pos (by omega : 10 * tp + f = 81), if_pos h81, erase_withSub, read81_erase]
        cases SfntV.Otl.Gsub.read81 (b.drop pos) <;> rfl
      rw [if_neg (by omega : ¬ 10 * tp + f = 81), if_neg h81]
      have hfk : foreignKeys.contains (10 * tp + f) = false := by
        simp only [foreignKeys, List.contains_cons, List.contains_nil, Bool.or_false,
          Bool.or_eq_false_iff, beq_eq_false_iff_ne, ne_eq]
        omega
      rw [hfk]
      rfl
  · rw [hf, hws]
    rfl
end SfntV.Total.GsubSub
