/-
Lemmas about GPOS value records and the GPOS 1.1 / 1.2 subtable models (C08).
-/
import SfntV.Model.OtlGpos
import SfntV.Proofs.OtlGsub

namespace SfntV.Otl.Gpos
open SfntV SfntV.Otl

/-- the binary digits of a sum of distinct powers of two below 2^8 -/
theorem bit_sum8 (c : Nat → Bool) (k : Nat) (hk : k < 8) :
    bit ((List.range 8).map (fun j => if c j then 2 ^ j else 0)).sum k = c k := by
  have e : (List.range 8).map (fun j => if c j then 2 ^ j else 0) =
      [if c 0 then 1 else 0, if c 1 then 2 else 0, if c 2 then 4 else 0, if c 3 then 8 else 0,
       if c 4 then 16 else 0, if c 5 then 32 else 0, if c 6 then 64 else 0, if c 7 then 128 else 0] := by
    rfl
  rw [e]
  have hk' : k = 0 ∨ k = 1 ∨ k = 2 ∨ k = 3 ∨ k = 4 ∨ k = 5 ∨ k = 6 ∨ k = 7 := by omega
  rcases hk' with rfl | rfl | rfl | rfl | rfl | rfl | rfl | rfl <;>
    (generalize c 0 = b0, c 1 = b1, c 2 = b2, c 3 = b3, c 4 = b4, c 5 = b5, c 6 = b6, c 7 = b7
     cases b0 <;> cases b1 <;> cases b2 <;> cases b3 <;> cases b4 <;> cases b5 <;> cases b6 <;> cases b7 <;> rfl)

theorem sum8_lt (c : Nat → Bool) : ((List.range 8).map (fun j => if c j then 2 ^ j else 0)).sum < 256 := by
  have e : (List.range 8).map (fun j => if c j then 2 ^ j else 0) =
      [if c 0 then 1 else 0, if c 1 then 2 else 0, if c 2 then 4 else 0, if c 3 then 8 else 0,
       if c 4 then 16 else 0, if c 5 then 32 else 0, if c 6 then 64 else 0, if c 7 then 128 else 0] := by
    rfl
  rw [e]
  simp only [List.sum_cons, List.sum_nil]
  repeat' split
  all_goals omega

/-- a well-typed value record: nil, or eight 16-bit fields -/
def VROk : VR → Prop
  | none => True
  | some fs => fs.length = 8 ∧ ∀ x ∈ fs, x < 65536

/-- a record is written in full by every format that includes its own -/
def Covers (fmt : Nat) (vr : VR) : Prop := ∀ k, k < 8 → field vr k ≠ 0 → bit fmt k = true

theorem getFormat_lt (vr : VR) : getFormat vr < 256 := by
  unfold getFormat
  cases vr with
  | none => simp
  | some fs =>
    dsimp only
    split
    · omega
    · have := sum8_lt (fun k => field (some fs) k != 0)
      simpa using this

theorem getFormat_covers (vr : VR) : Covers (getFormat vr) vr := by
  intro k hk hne
  unfold getFormat
  cases vr with
  | none => simp [field] at hne
  | some fs =>
    dsimp only
    have hb := bit_sum8 (fun j => field (some fs) j != 0) k hk
    split
    · rename_i hz
      -- the sum is zero although field k is not: impossible
      simp only [beq_iff_eq] at hz
      rw [hz] at hb
      have : bit 0 k = false := by simp [bit]
      rw [this] at hb
      simp at hb
      exact absurd hb hne
    · rw [hb]; simpa using hne

theorem getFormat_eq_zero (vr : VR) : getFormat vr = 0 ↔ vr = none := by
  unfold getFormat
  cases vr with
  | none => simp
  | some fs =>
    dsimp only
    split
    · simp
    · rename_i h; simp at h ⊢; exact h

/-! ### reading back a written record -/

theorem vrReadFields_spec (vr : VR) (fmt : Nat) (tail : List Nat) : ∀ (fuel k : Nat),
    vrReadFields fmt k fuel
      ((List.range' k fuel).filterMap (fun j => if bit fmt j then some (field vr j) else none) ++ tail) =
    .ok ((List.range' k fuel).map (fun j => if bit fmt j then field vr j else 0), tail)
  | 0, _ => rfl
  | fuel + 1, k => by
    rw [List.range'_succ]
    simp only [List.filterMap_cons, List.map_cons, vrReadFields]
    by_cases hb : bit fmt k = true
    · simp only [hb, if_true, List.cons_append]
      rw [vrReadFields_spec vr fmt tail fuel (k + 1)]
    · have hb' : bit fmt k = false := by simpa using hb
      simp only [hb', Bool.false_eq_true, if_false]
      rw [vrReadFields_spec vr fmt tail fuel (k + 1)]

/-- what a record reads back as under format `fmt` -/
def masked (vr : VR) (fmt : Nat) : VR :=
  if fmt == 0 then none else some ((List.range 8).map fun j => if bit fmt j then field vr j else 0)

theorem vrRead_spec (vr : VR) (fmt : Nat) (tail : List Nat) :
    vrRead fmt (vrWords vr fmt ++ tail) = .ok (masked vr fmt, tail) := by
  unfold vrRead masked
  by_cases h0 : (fmt == 0) = true
  · have : fmt = 0 := by simpa using h0
    subst this
    simp [vrWords, bit]
  · have h0' : (fmt == 0) = false := by simpa using h0
    simp only [h0', Bool.false_eq_true, if_false, vrWords, List.range_eq_range']
    rw [vrReadFields_spec vr fmt tail 8 0]

theorem masked_of_covers (vr : VR) (hvr : VROk vr) (fmt : Nat) (hf : fmt = 0 ↔ vr = none)
    (hc : Covers fmt vr) : masked vr fmt = vr := by
  unfold masked
  cases vr with
  | none => simp [hf.mpr rfl]
  | some fs =>
    have hne : fmt ≠ 0 := fun h => by simpa using hf.mp h
    have hne' : (fmt == 0) = false := by simpa using hne
    simp only [hne', Bool.false_eq_true, if_false, Option.some.injEq]
    obtain ⟨hlen, _⟩ := hvr
    apply List.ext_getElem?
    intro j
    by_cases hj : j < 8
    · rw [List.getElem?_map, List.getElem?_range hj]
      simp only [Option.map_some]
      have hfj : field (some fs) j = fs[j]'(by omega) := by
        simp [field, List.getD_eq_getElem?_getD, List.getElem?_eq_getElem (by omega : j < fs.length)]
      rw [List.getElem?_eq_getElem (by omega : j < fs.length)]
      congr 1
      by_cases hz : field (some fs) j = 0
      · rw [← hfj, hz]; split <;> rfl
      · rw [hc j hj hz, if_pos rfl, hfj]
    · rw [List.getElem?_eq_none (by simp; omega), List.getElem?_eq_none (by omega)]

theorem vrWords_lt (vr : VR) (hvr : VROk vr) (fmt : Nat) : ∀ w ∈ vrWords vr fmt, w < 65536 := by
  intro w hw
  simp only [vrWords, List.mem_filterMap] at hw
  obtain ⟨k, _, hk⟩ := hw
  split at hk
  · simp only [Option.some.injEq] at hk
    subst hk
    cases vr with
    | none => simp [field]
    | some fs =>
      simp only [field, List.getD_eq_getElem?_getD]
      cases h : fs[k]? with
      | none => simp
      | some x => simpa using hvr.2 x (List.mem_of_getElem? h)
  · simp at hk

/-! ### GPOS 1.1 -/

theorem roundtrip11 (rev : List Nat) (h : Cov.Valid rev) (vr : VR) (hvr : VROk vr) :
    ∃ b, encode11 rev vr = .ok b ∧ readSubtable 1 b = .ok (.s11 rev.zipIdx vr) := by
  have hflt := getFormat_lt vr
  have hpc : popcount16 (getFormat vr) ≤ 16 := by
    unfold popcount16
    exact Nat.le_trans (List.length_filter_le _ _) (by simp)
  refine ⟨wordsToBytes (1 :: (6 + vrLen (getFormat vr)) :: getFormat vr :: vrWords vr (getFormat vr)) ++
    wordsToBytes (Cov.encodeW rev), ?_, ?_⟩
  · simp only [encode11, Cov.encode_eq rev h]
    rw [w16_of_lt (by unfold vrLen; omega)]
    rfl
  · have hlt : ∀ w ∈ 1 :: (6 + vrLen (getFormat vr)) :: getFormat vr :: vrWords vr (getFormat vr),
        w < 65536 := by
      intro w hw
      simp only [List.mem_cons] at hw
      rcases hw with rfl | rfl | rfl | hw
      · decide
      · unfold vrLen; omega
      · omega
      · exact vrWords_lt vr hvr _ w hw
    have hw : bytesToWords (wordsToBytes (1 :: (6 + vrLen (getFormat vr)) :: getFormat vr ::
        vrWords vr (getFormat vr)) ++ wordsToBytes (Cov.encodeW rev)) =
        1 :: (6 + vrLen (getFormat vr)) :: getFormat vr ::
          (vrWords vr (getFormat vr) ++ Cov.encodeW rev) := by
      rw [bytesToWords_append _ hlt, bytesToWords_wordsToBytes _ (Cov.encodeW_lt rev h)]
      rfl
    -- the number of words written for the record is the number of bits of its format
    have hcount : (vrWords vr (getFormat vr)).length = popcount16 (getFormat vr) := by
      unfold vrWords popcount16
      have e16 : List.range 16 = List.range 8 ++ List.range' 8 8 := by decide
      rw [e16, List.filter_append]
      have hhigh : (List.range' 8 8).filter (bit (getFormat vr)) = [] := by
        rw [List.filter_eq_nil_iff]
        intro k hk
        rw [List.mem_range'] at hk
        obtain ⟨i, hi, rfl⟩ := hk
        have e : 8 + 1 * i = 8 + i := by omega
        rw [e]
        have : getFormat vr / 2 ^ (8 + i) = 0 := by
          apply Nat.div_eq_of_lt
          calc getFormat vr < 256 := hflt
            _ = 2 ^ 8 := by decide
            _ ≤ 2 ^ (8 + i) := Nat.pow_le_pow_right (by decide) (by omega)
        simp [bit, this]
      rw [hhigh, List.append_nil]
      induction (List.range 8) with
      | nil => rfl
      | cons a l ih =>
        simp only [List.filterMap_cons, List.filter_cons]
        by_cases hb : bit (getFormat vr) a = true
        · simp [hb, ih]
        · simp [hb, ih]
    have hdrop : (wordsToBytes (1 :: (6 + vrLen (getFormat vr)) :: getFormat vr ::
        vrWords vr (getFormat vr)) ++ wordsToBytes (Cov.encodeW rev)).drop (6 + vrLen (getFormat vr)) =
        wordsToBytes (Cov.encodeW rev) := by
      have e : 6 + vrLen (getFormat vr) = 2 * (1 :: (6 + vrLen (getFormat vr)) :: getFormat vr ::
          vrWords vr (getFormat vr)).length := by
        simp only [List.length_cons, hcount, vrLen]; omega
      rw [e]
      exact drop_wordsToBytes_append _ _
    have hrd : Cov.read (wordsToBytes (Cov.encodeW rev)) = .ok rev.zipIdx := by
      unfold Cov.read
      rw [bytesToWords_wordsToBytes _ (Cov.encodeW_lt rev h)]
      exact (Cov.readW_encodeW rev h).1
    simp only [readSubtable, hw, read11, vrRead_spec, hdrop, hrd,
      masked_of_covers vr hvr _ (getFormat_eq_zero vr) (getFormat_covers vr)]
    simp

end SfntV.Otl.Gpos
