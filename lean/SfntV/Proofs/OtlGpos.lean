/-
Lemmas about GPOS value records and the GPOS 1.1 / 1.2 subtable models (C08).
-/
import SfntV.Model.OtlGpos
import SfntV.Proofs.OtlGsub

namespace SfntV.Otl.Gpos
open SfntV SfntV.Otl

/-- the binary digits of a sum of distinct powers of two below 2^8 -/
theorem bit_sum8 (c : Nat → Bool) (k : Nat) (hk : k < 8) :
    bit ((List.range 8).map (fun j => if c j then 2 ^ j else 0)).sum k = c k := by
  have e : (List.range 8).map (fun j => if c j then 2 ^ j else 0) =
      [if c 0 then 1 else 0, if c 1 then 2 else 0, if c 2 then 4 else 0, if c 3 then 8 else 0,
       if c 4 then 16 else 0, if c 5 then 32 else 0, if c 6 then 64 else 0, if c 7 then 128 else 0] := by
    rfl
  rw [e]
  have hk' : k = 0 ∨ k = 1 ∨ k = 2 ∨ k = 3 ∨ k = 4 ∨ k = 5 ∨ k = 6 ∨ k = 7 := by omega
  rcases hk' with rfl | rfl | rfl | rfl | rfl | rfl | rfl | rfl <;>
    (generalize c 0 = b0, c 1 = b1, c 2 = b2, c 3 = b3, c 4 = b4, c 5 = b5, c 6 = b6, c 7 = b7
     cases b0 <;> cases b1 <;> cases b2 <;> cases b3 <;> cases b4 <;> cases b5 <;> cases b6 <;> cases b7 <;> rfl)

theorem sum8_lt (c : Nat → Bool) : ((List.range 8).map (fun j => if c j then 2 ^ j else 0)).sum < 256 := by
  have e : (List.range 8).map (fun j => if c j then 2 ^ j else 0) =
      [if c 0 then 1 else 0, if c 1 then 2 else 0, if c 2 then 4 else 0, if c 3 then 8 else 0,
       if c 4 then 16 else 0, if c 5 then 32 else 0, if c 6 then 64 else 0, if c 7 then 128 else 0] := by
    rfl
  rw [e]
  simp only [List.sum_cons, List.sum_nil]
  repeat' split
  all_goals omega

/-- a well-typed value record: nil, or eight 16-bit fields -/
def VROk : VR → Prop
  | none => True
  | some fs => fs.length = 8 ∧ ∀ x ∈ fs, x < 65536

/-- a record is written in full by every format that includes its own -/
def Covers (fmt : Nat) (vr : VR) : Prop := ∀ k, k < 8 → field vr k ≠ 0 → bit fmt k = true

theorem getFormat_lt (vr : VR) : getFormat vr < 256 := by
  unfold getFormat
  cases vr with
  | none => simp
  | some fs =>
    dsimp only
    split
    · omega
    · have := sum8_lt (fun k => field (some fs) k != 0)
      simpa using this

theorem getFormat_covers (vr : VR) : Covers (getFormat vr) vr := by
  intro k hk hne
  unfold getFormat
  cases vr with
  | none => simp [field] at hne
  | some fs =>
    dsimp only
    have hb := bit_sum8 (fun j => field (some fs) j != 0) k hk
    split
    · rename_i hz
      -- the sum is zero although field k is not: impossible
      simp only [beq_iff_eq] at hz
      rw [hz] at hb
      have : bit 0 k = false := by simp [bit]
      rw [this] at hb
      simp at hb
      exact absurd hb hne
    · rw [hb]; simpa using hne

theorem getFormat_eq_zero (vr : VR) : getFormat vr = 0 ↔ vr = none := by
  unfold getFormat
  cases vr with
  | none => simp
  | some fs =>
    dsimp only
    split
    · simp
    · rename_i h; simp at h ⊢; exact h

/-! ### reading back a written record -/

theorem vrReadFields_spec (vr : VR) (fmt : Nat) (tail : List Nat) : ∀ (fuel k : Nat),
    vrReadFields fmt k fuel
      ((List.range' k fuel).filterMap (fun j => if bit fmt j then some (field vr j) else none) ++ tail) =
    .ok ((List.range' k fuel).map (fun j => if bit fmt j then field vr j else 0), tail)
  | 0, _ => rfl
  | fuel + 1, k => by
    rw [List.range'_succ]
    simp only [List.filterMap_cons, List.map_cons, vrReadFields]
    by_cases hb : bit fmt k = true
    · simp only [hb, if_true, List.cons_append]
      rw [vrReadFields_spec vr fmt tail fuel (k + 1)]
    · have hb' : bit fmt k = false := by simpa using hb
      simp only [hb', Bool.false_eq_true, if_false]
      rw [vrReadFields_spec vr fmt tail fuel (k + 1)]

/-- what a record reads back as under format `fmt` -/
def masked (vr : VR) (fmt : Nat) : VR :=
  if fmt == 0 then none else some ((List.range 8).map fun j => if bit fmt j then field vr j else 0)

theorem vrRead_spec (vr : VR) (fmt : Nat) (tail : List Nat) :
    vrRead fmt (vrWords vr fmt ++ tail) = .ok (masked vr fmt, tail) := by
  unfold vrRead masked
  by_cases h0 : (fmt == 0) = true
  · have : fmt = 0 := by simpa using h0
    subst this
    simp [vrWords, bit]
  · have h0' : (fmt == 0) = false := by simpa using h0
    simp only [h0', Bool.false_eq_true, if_false, vrWords, List.range_eq_range']
    rw [vrReadFields_spec vr fmt tail 8 0]

theorem masked_of_covers (vr : VR) (hvr : VROk vr) (fmt : Nat) (hf : fmt = 0 ↔ vr = none)
    (hc : Covers fmt vr) : masked vr fmt = vr := by
  unfold masked
  cases vr with
  | none => simp [hf.mpr rfl]
  | some fs =>
    have hne : fmt ≠ 0 := fun h => by simpa using hf.mp h
    have hne' : (fmt == 0) = false := by simpa using hne
    simp only [hne', Bool.false_eq_true, if_false, Option.some.injEq]
    obtain ⟨hlen, _⟩ := hvr
    apply List.ext_getElem?
    intro j
    by_cases hj : j < 8
    · rw [List.getElem?_map, List.getElem?_range hj]
      simp only [Option.map_some]
      have hfj : field (some fs) j = fs[j]'(by omega) := by
        simp [field, List.getD_eq_getElem?_getD, List.getElem?_eq_getElem (by omega : j < fs.length)]
      rw [List.getElem?_eq_getElem (by omega : j < fs.length)]
      congr 1
      by_cases hz : field (some fs) j = 0
      · rw [← hfj, hz]; split <;> rfl
      · rw [hc j hj hz, if_pos rfl, hfj]
    · rw [List.getElem?_eq_none (by simp; omega), List.getElem?_eq_none (by omega)]

theorem vrWords_lt (vr : VR) (hvr : VROk vr) (fmt : Nat) : ∀ w ∈ vrWords vr fmt, w < 65536 := by
  intro w hw
  simp only [vrWords, List.mem_filterMap] at hw
  obtain ⟨k, _, hk⟩ := hw
  split at hk
  · simp only [Option.some.injEq] at hk
    subst hk
    cases vr with
    | none => simp [field]
    | some fs =>
      simp only [field, List.getD_eq_getElem?_getD]
      cases h : fs[k]? with
      | none => simp
      | some x => simpa using hvr.2 x (List.mem_of_getElem? h)
  · simp at hk

/-- the number of words written for a record is the number of bits of the format -/
theorem vrWords_length (vr : VR) (fmt : Nat) (hflt : fmt < 256) :
    (vrWords vr fmt).length = popcount16 fmt := by
  unfold vrWords popcount16
  have e16 : List.range 16 = List.range 8 ++ List.range' 8 8 := by decide
  rw [e16, List.filter_append]
  have hhigh : (List.range' 8 8).filter (bit fmt) = [] := by
    rw [List.filter_eq_nil_iff]
    intro k hk
    rw [List.mem_range'] at hk
    obtain ⟨i, hi, rfl⟩ := hk
    have e : 8 + 1 * i = 8 + i := by omega
    rw [e]
    have : fmt / 2 ^ (8 + i) = 0 := by
      apply Nat.div_eq_of_lt
      calc fmt < 256 := hflt
        _ = 2 ^ 8 := by decide
        _ ≤ 2 ^ (8 + i) := Nat.pow_le_pow_right (by decide) (by omega)
    simp [bit, this]
  rw [hhigh, List.append_nil]
  induction (List.range 8) with
  | nil => rfl
  | cons a l ih =>
    simp only [List.filterMap_cons, List.filter_cons]
    by_cases hb : bit fmt a = true
    · simp [hb, ih]
    · simp [hb, ih]

/-! ### GPOS 1.1 -/

theorem roundtrip11 (rev : List Nat) (h : Cov.Valid rev) (vr : VR) (hvr : VROk vr) :
    ∃ b, encode11 rev vr = .ok b ∧ readSubtable 1 b = .ok (.s11 rev.zipIdx vr) ∧
      encodeLen11 rev vr = .ok b.length := by
  have hflt := getFormat_lt vr
  have hpc : popcount16 (getFormat vr) ≤ 16 := by
    unfold popcount16
    exact Nat.le_trans (List.length_filter_le _ _) (by simp)
  refine ⟨wordsToBytes (1 :: (6 + vrLen (getFormat vr)) :: getFormat vr :: vrWords vr (getFormat vr)) ++
    wordsToBytes (Cov.encodeW rev), ?_, ?_, ?_⟩
  · simp only [encode11, Cov.encode_eq rev h]
    rw [w16_of_lt (by unfold vrLen; omega)]
    rfl
  rotate_left
  · have hcount := vrWords_length vr (getFormat vr) hflt
    simp only [encodeLen11, Cov.encodeLen_eq rev h, List.length_append, length_wordsToBytes,
      ← Cov.encodeW_length rev h, List.length_cons, hcount, vrLen]
    congr 1
    omega
  · have hlt : ∀ w ∈ 1 :: (6 + vrLen (getFormat vr)) :: getFormat vr :: vrWords vr (getFormat vr),
        w < 65536 := by
      intro w hw
      simp only [List.mem_cons] at hw
      rcases hw with rfl | rfl | rfl | hw
      · decide
      · unfold vrLen; omega
      · omega
      · exact vrWords_lt vr hvr _ w hw
    have hw : bytesToWords (wordsToBytes (1 :: (6 + vrLen (getFormat vr)) :: getFormat vr ::
        vrWords vr (getFormat vr)) ++ wordsToBytes (Cov.encodeW rev)) =
        1 :: (6 + vrLen (getFormat vr)) :: getFormat vr ::
          (vrWords vr (getFormat vr) ++ Cov.encodeW rev) := by
      rw [bytesToWords_append _ hlt, bytesToWords_wordsToBytes _ (Cov.encodeW_lt rev h)]
      rfl
    have hcount := vrWords_length vr (getFormat vr) hflt
    have hdrop : (wordsToBytes (1 :: (6 + vrLen (getFormat vr)) :: getFormat vr ::
        vrWords vr (getFormat vr)) ++ wordsToBytes (Cov.encodeW rev)).drop (6 + vrLen (getFormat vr)) =
        wordsToBytes (Cov.encodeW rev) := by
      have e : 6 + vrLen (getFormat vr) = 2 * (1 :: (6 + vrLen (getFormat vr)) :: getFormat vr ::
          vrWords vr (getFormat vr)).length := by
        simp only [List.length_cons, hcount, vrLen]; omega
      rw [e]
      exact drop_wordsToBytes_append _ _
    have hrd : Cov.read (wordsToBytes (Cov.encodeW rev)) = .ok rev.zipIdx := by
      unfold Cov.read
      rw [bytesToWords_wordsToBytes _ (Cov.encodeW_lt rev h)]
      exact (Cov.readW_encodeW rev h).1
    simp only [readSubtable, hw, read11, vrRead_spec, hdrop, hrd,
      masked_of_covers vr hvr _ (getFormat_eq_zero vr) (getFormat_covers vr)]
    simp

theorem getFormat_some_bit (vr : VR) (hne : vr ≠ none) : ∃ k, k < 8 ∧ bit (getFormat vr) k = true := by
  cases vr with
  | none => exact absurd rfl hne
  | some fs =>
    unfold getFormat
    dsimp only
    split
    · exact ⟨2, by decide, by decide⟩
    · rename_i hnz
      -- some field is non-zero, otherwise the sum would be zero
      have hex : ∃ k, k < 8 ∧ (field (some fs) k != 0) = true := by
        apply Classical.byContradiction
        intro hno
        have hall : ∀ k, k < 8 → (field (some fs) k != 0) = false := by
          intro k hk
          cases hb : (field (some fs) k != 0) with
          | false => rfl
          | true => exact absurd ⟨k, hk, hb⟩ hno
        apply hnz
        have e : (List.range 8).map (fun k => if (field (some fs) k != 0) = true then 2 ^ k else 0) =
            [if (field (some fs) 0 != 0) = true then 1 else 0, if (field (some fs) 1 != 0) = true then 2 else 0,
             if (field (some fs) 2 != 0) = true then 4 else 0, if (field (some fs) 3 != 0) = true then 8 else 0,
             if (field (some fs) 4 != 0) = true then 16 else 0, if (field (some fs) 5 != 0) = true then 32 else 0,
             if (field (some fs) 6 != 0) = true then 64 else 0, if (field (some fs) 7 != 0) = true then 128 else 0] := by
          rfl
        rw [e, hall 0 (by decide), hall 1 (by decide), hall 2 (by decide), hall 3 (by decide),
          hall 4 (by decide), hall 5 (by decide), hall 6 (by decide), hall 7 (by decide)]
        rfl
      obtain ⟨k, hk, hc⟩ := hex
      refine ⟨k, hk, ?_⟩
      rw [bit_sum8 (fun j => field (some fs) j != 0) k hk]
      exact hc

/-! ### GPOS 1.2 -/

theorem orFormat_lt (vrs : List VR) : orFormat vrs < 256 :=
  sum8_lt (fun k => vrs.any (fun vr => bit (getFormat vr) k))

theorem orFormat_covers (vrs : List VR) (vr : VR) (h : vr ∈ vrs) : Covers (orFormat vrs) vr := by
  intro k hk hne
  unfold orFormat
  rw [bit_sum8 (fun k => vrs.any (fun vr => bit (getFormat vr) k)) k hk]
  simp only [List.any_eq_true]
  exact ⟨vr, h, getFormat_covers vr k hk hne⟩

theorem vrReadN_spec (fmt : Nat) (tail : List Nat) : ∀ (vrs : List VR),
    vrReadN fmt vrs.length (vrs.flatMap (fun vr => vrWords vr fmt) ++ tail) =
      .ok (vrs.map (fun vr => masked vr fmt), tail)
  | [] => rfl
  | vr :: vrs => by
    simp only [List.length_cons, List.flatMap_cons, List.append_assoc, vrReadN, vrRead_spec,
      vrReadN_spec fmt tail vrs, List.map_cons]

theorem flatMap_vrWords_length (fmt : Nat) (hf : fmt < 256) : ∀ (vrs : List VR),
    (vrs.flatMap (fun vr => vrWords vr fmt)).length = popcount16 fmt * vrs.length
  | [] => by simp
  | vr :: vrs => by
    simp only [List.flatMap_cons, List.length_append, vrWords_length vr fmt hf,
      flatMap_vrWords_length fmt hf vrs, List.length_cons]
    rw [Nat.mul_succ]; omega

theorem roundtrip12 (rev : List Nat) (h : Cov.Valid rev) (vrs : List VR) (hl : vrs.length = rev.length)
    (hvr : ∀ vr ∈ vrs, VROk vr) (hn : vrs.length < 65536)
    (hfit : 8 + vrLen (orFormat vrs) * vrs.length ≤ 0xFFFF) :
    ∃ b, encode12 rev vrs = .ok b ∧
      readSubtable 1 b = .ok (.s12 rev.zipIdx (vrs.map fun vr => masked vr (orFormat vrs))) ∧
      encodeLen12 rev vrs = .ok b.length := by
  have hflt := orFormat_lt vrs
  have hcount := flatMap_vrWords_length (orFormat vrs) hflt vrs
  have hmul : vrLen (orFormat vrs) * vrs.length = 2 * (popcount16 (orFormat vrs) * vrs.length) := by
    unfold vrLen; rw [Nat.mul_assoc]
  refine ⟨wordsToBytes (2 :: (8 + vrLen (orFormat vrs) * vrs.length) :: orFormat vrs :: vrs.length ::
    vrs.flatMap (fun vr => vrWords vr (orFormat vrs))) ++ wordsToBytes (Cov.encodeW rev), ?_, ?_, ?_⟩
  · simp only [encode12, Cov.encodeLen_eq rev h, Cov.encode_eq rev h]
    rw [if_neg (by omega), w16_of_lt (by omega), w16_of_lt hn]
    rfl
  rotate_left
  · simp only [encodeLen12, Cov.encodeLen_eq rev h, List.length_append, length_wordsToBytes,
      ← Cov.encodeW_length rev h, List.length_cons, hcount, hmul]
    congr 1
    omega
  · have hlt : ∀ w ∈ 2 :: (8 + vrLen (orFormat vrs) * vrs.length) :: orFormat vrs :: vrs.length ::
        vrs.flatMap (fun vr => vrWords vr (orFormat vrs)), w < 65536 := by
      intro w hw
      simp only [List.mem_cons, List.mem_flatMap] at hw
      rcases hw with rfl | rfl | rfl | rfl | ⟨vr, hv, hw⟩
      · decide
      · omega
      · omega
      · exact hn
      · exact vrWords_lt vr (hvr vr hv) _ w hw
    have hw : bytesToWords (wordsToBytes (2 :: (8 + vrLen (orFormat vrs) * vrs.length) :: orFormat vrs ::
        vrs.length :: vrs.flatMap (fun vr => vrWords vr (orFormat vrs))) ++
        wordsToBytes (Cov.encodeW rev)) =
        2 :: (8 + vrLen (orFormat vrs) * vrs.length) :: orFormat vrs :: vrs.length ::
          (vrs.flatMap (fun vr => vrWords vr (orFormat vrs)) ++ Cov.encodeW rev) := by
      rw [bytesToWords_append _ hlt, bytesToWords_wordsToBytes _ (Cov.encodeW_lt rev h)]
      rfl
    have hdrop : (wordsToBytes (2 :: (8 + vrLen (orFormat vrs) * vrs.length) :: orFormat vrs ::
        vrs.length :: vrs.flatMap (fun vr => vrWords vr (orFormat vrs))) ++
        wordsToBytes (Cov.encodeW rev)).drop (8 + vrLen (orFormat vrs) * vrs.length) =
        wordsToBytes (Cov.encodeW rev) := by
      have e : 8 + vrLen (orFormat vrs) * vrs.length = 2 * (2 :: (8 + vrLen (orFormat vrs) * vrs.length) ::
          orFormat vrs :: vrs.length :: vrs.flatMap (fun vr => vrWords vr (orFormat vrs))).length := by
        simp only [List.length_cons, hcount, hmul]
        omega
      generalize hG : 8 + vrLen (orFormat vrs) * vrs.length = off at e ⊢
      rw [e]
      exact drop_wordsToBytes_append _ _
    have hrd : Cov.read (wordsToBytes (Cov.encodeW rev)) = .ok rev.zipIdx := by
      unfold Cov.read
      rw [bytesToWords_wordsToBytes _ (Cov.encodeW_lt rev h)]
      exact (Cov.readW_encodeW rev h).1
    simp only [readSubtable, hw, read12, vrReadN_spec, hdrop, hrd]
    have hp : prune rev.zipIdx (vrs.map fun vr => masked vr (orFormat vrs)) =
        (rev.zipIdx, vrs.map fun vr => masked vr (orFormat vrs)) := by
      unfold prune
      have : (vrs.map fun vr => masked vr (orFormat vrs)).length = rev.zipIdx.length := by simp [hl]
      rw [if_neg (by omega), if_neg (by omega)]
    rw [hp]
    simp

/-- every record of the subtable comes back unchanged if all of them are non-nil (or all nil) -/
theorem masked_id_of_uniform (vrs : List VR) (hvr : ∀ vr ∈ vrs, VROk vr)
    (hu : (∀ vr ∈ vrs, vr = none) ∨ (∀ vr ∈ vrs, vr ≠ none)) :
    vrs.map (fun vr => masked vr (orFormat vrs)) = vrs := by
  have hz : orFormat vrs = 0 ↔ ∀ vr ∈ vrs, vr = none := by
    constructor
    · intro h0 vr hv
      apply Classical.byContradiction
      intro hne
      have := getFormat_some_bit vr hne
      obtain ⟨k, hk, hb⟩ := this
      have : bit (orFormat vrs) k = true := by
        unfold orFormat
        rw [bit_sum8 (fun k => vrs.any (fun vr => bit (getFormat vr) k)) k hk]
        simp only [List.any_eq_true]
        exact ⟨vr, hv, hb⟩
      rw [h0] at this
      simp [bit] at this
    · intro hall
      unfold orFormat
      have : ∀ k, (vrs.any fun vr => bit (getFormat vr) k) = false := by
        intro k
        rw [List.any_eq_false]
        intro vr hv
        rw [hall vr hv]
        simp [getFormat, bit]
      simp only [this, Bool.false_eq_true, if_false]
      decide
  have hmap : vrs.map (fun vr => masked vr (orFormat vrs)) = vrs.map id := by
    apply List.map_congr_left
    intro vr hv
    apply masked_of_covers vr (hvr vr hv) _ _ (orFormat_covers vrs vr hv)
    constructor
    · intro h0; exact hz.mp h0 vr hv
    · intro hn
      rcases hu with hu | hu
      · exact hz.mpr hu
      · exact absurd hn (hu vr hv)
  simpa using hmap

/-! ### GPOS 2.1 -/

/-- what a pair set reads back as under the common value formats -/
def normSet (f1 f2 : Nat) (s : PairSet) : PairSet := s.map fun p => (p.1, masked p.2.1 f1, masked p.2.2 f2)

/-- all glyph ids and value records of a pair set are well-typed -/
def PairSetOk (s : PairSet) : Prop := ∀ p ∈ s, p.1 < 65536 ∧ VROk p.2.1 ∧ VROk p.2.2

theorem readPairs_spec (f1 f2 : Nat) (tail : List Nat) : ∀ (s : PairSet),
    readPairs f1 f2 s.length
      (s.flatMap (fun p => p.1 :: (vrWords p.2.1 f1 ++ vrWords p.2.2 f2)) ++ tail) =
      .ok (normSet f1 f2 s)
  | [] => rfl
  | p :: s => by
    simp only [List.length_cons, List.flatMap_cons, List.cons_append, List.append_assoc, readPairs,
      vrRead_spec, readPairs_spec f1 f2 tail s, normSet, List.map_cons]

theorem pairSetWords_lt (f1 f2 : Nat) (s : PairSet) (h : PairSetOk s) :
    ∀ w ∈ pairSetWords f1 f2 s, w < 65536 := by
  intro w hw
  simp only [pairSetWords, List.mem_cons, List.mem_flatMap, List.mem_append] at hw
  rcases hw with rfl | ⟨p, hp, rfl | hw | hw⟩
  · exact w16_lt _
  · exact (h p hp).1
  · exact vrWords_lt _ (h p hp).2.1 _ w hw
  · exact vrWords_lt _ (h p hp).2.2 _ w hw

theorem pairSetWords_length (f1 f2 : Nat) (h1 : f1 < 256) (h2 : f2 < 256) (s : PairSet) :
    2 * (pairSetWords f1 f2 s).length = pairSetLen f1 f2 s := by
  have : ∀ (s : PairSet), (s.flatMap fun p => p.1 :: (vrWords p.2.1 f1 ++ vrWords p.2.2 f2)).length =
      s.length * (1 + popcount16 f1 + popcount16 f2) := by
    intro s
    induction s with
    | nil => simp
    | cons p s ih =>
      simp only [List.flatMap_cons, List.length_append, List.length_cons, ih,
        vrWords_length _ f1 h1, vrWords_length _ f2 h2, Nat.succ_mul]
      omega
  simp only [pairSetWords, List.length_cons, this, pairSetLen, vrLen]
  have e1 : s.length * (2 * popcount16 f1) = 2 * (s.length * popcount16 f1) := by
    rw [Nat.mul_left_comm]
  have e2 : s.length * (2 * popcount16 f2) = 2 * (s.length * popcount16 f2) := by
    rw [Nat.mul_left_comm]
  have e3 : s.length * (2 + 2 * popcount16 f1 + 2 * popcount16 f2) =
      2 * s.length + 2 * (s.length * popcount16 f1) + 2 * (s.length * popcount16 f2) := by
    rw [Nat.mul_add, Nat.mul_add, e1, e2]; omega
  have e4 : s.length * (1 + popcount16 f1 + popcount16 f2) =
      s.length + s.length * popcount16 f1 + s.length * popcount16 f2 := by
    rw [Nat.mul_add, Nat.mul_add]; omega
  rw [e3, e4]
  omega

theorem pairOffsets_spec (f1 f2 : Nat) : ∀ (sets : List PairSet) (total : Nat) (offs : List Nat),
    pairOffsets f1 f2 sets total = .ok offs →
    offs.length = sets.length ∧ (∀ o ∈ offs, o < 65536) ∧
    (sets ≠ [] → total ≤ 0xFFFF)
  | [], _, offs, h => by simp [pairOffsets] at h; subst h; simp
  | s :: ss, total, offs, h => by
    simp only [pairOffsets] at h
    split at h
    · simp at h
    · rename_i hle
      cases h2 : pairOffsets f1 f2 ss (total + pairSetLen f1 f2 s) with
      | ok r =>
        rw [h2] at h
        simp only [Outcome.ok.injEq] at h
        subst h
        obtain ⟨i1, i2, _⟩ := pairOffsets_spec f1 f2 ss _ r h2
        refine ⟨by simp [i1], ?_, fun _ => by omega⟩
        intro o ho
        rw [List.mem_cons] at ho
        rcases ho with rfl | ho
        · omega
        · exact i2 o ho
      | err e => rw [h2] at h; simp at h
      | panic s' => rw [h2] at h; simp at h

/-- every pair set is found at the offset the encoder wrote for it -/
theorem readPairSets_spec (f1 f2 : Nat) (h1 : f1 < 256) (h2 : f2 < 256) (c : Bytes) :
    ∀ (sets : List PairSet) (P T : List Nat) (offs : List Nat),
    (∀ w ∈ P, w < 65536) → (∀ w ∈ T, w < 65536) → (∀ s ∈ sets, PairSetOk s ∧ s.length < 65536) →
    pairOffsets f1 f2 sets (2 * P.length) = .ok offs →
    readPairSets (wordsToBytes (P ++ (sets.flatMap (pairSetWords f1 f2) ++ T)) ++ c) f1 f2 offs =
      .ok (sets.map (normSet f1 f2))
  | [], _, _, offs, _, _, _, ho => by
    simp [pairOffsets] at ho
    subst ho
    rfl
  | s :: ss, P, T, offs, hP, hT, hS, ho => by
    simp only [pairOffsets] at ho
    split at ho
    · simp at ho
    · cases ho2 : pairOffsets f1 f2 ss (2 * P.length + pairSetLen f1 f2 s) with
      | err e => rw [ho2] at ho; simp at ho
      | panic s' => rw [ho2] at ho; simp at ho
      | ok r =>
        rw [ho2] at ho
        simp only [Outcome.ok.injEq] at ho
        subst ho
        obtain ⟨hsok, hsl⟩ := hS s (by simp)
        have hlt : ∀ w ∈ (s :: ss).flatMap (pairSetWords f1 f2) ++ T, w < 65536 := by
          intro w hw
          rw [List.mem_append, List.mem_flatMap] at hw
          rcases hw with ⟨s', hs', hw⟩ | hw
          · exact pairSetWords_lt f1 f2 s' (hS s' hs').1 w hw
          · exact hT w hw
        have hwords : bytesToWords ((wordsToBytes (P ++ ((s :: ss).flatMap (pairSetWords f1 f2) ++ T)) ++ c).drop
            (2 * P.length)) = s.length ::
              (s.flatMap (fun p => p.1 :: (vrWords p.2.1 f1 ++ vrWords p.2.2 f2)) ++
                (ss.flatMap (pairSetWords f1 f2) ++ (T ++ bytesToWords c))) := by
          rw [drop_wordsToBytes_append', bytesToWords_append _ hlt]
          simp [pairSetWords, w16_of_lt hsl]
        have ih := readPairSets_spec f1 f2 h1 h2 c ss (P ++ pairSetWords f1 f2 s) T r
          (by intro w hw
              rw [List.mem_append] at hw
              rcases hw with hw | hw
              · exact hP w hw
              · exact pairSetWords_lt f1 f2 s hsok w hw)
          hT (fun s' hs' => hS s' (by simp [hs']))
          (by have := pairSetWords_length f1 f2 h1 h2 s
              simp only [List.length_append]
              rw [Nat.mul_add, this]
              exact ho2)
        have e2 : (P ++ pairSetWords f1 f2 s) ++ (ss.flatMap (pairSetWords f1 f2) ++ T) =
            P ++ ((s :: ss).flatMap (pairSetWords f1 f2) ++ T) := by simp
        rw [e2] at ih
        generalize wordsToBytes (P ++ ((s :: ss).flatMap (pairSetWords f1 f2) ++ T)) ++ c = b at hwords ih ⊢
        simp only [readPairSets, hwords, readPairs_spec, ih, List.map_cons]

theorem roundtrip21 (firsts : List Nat) (h : Cov.Valid firsts) (sets : List PairSet)
    (hl : sets.length = firsts.length) (hS : ∀ s ∈ sets, PairSetOk s ∧ s.length < 65536)
    (b : Bytes) (hb : encode21 firsts sets = .ok b) :
    readSubtable 2 b =
      .ok (.s21 firsts.zipIdx (sets.map (normSet (orFormat1 sets) (orFormat2 sets)))) ∧
    encodeLen21 firsts sets = .ok b.length := by
  have h1 : orFormat1 sets < 256 := orFormat_lt _
  have h2 : orFormat2 sets < 256 := orFormat_lt _
  have hcl := Cov.encodeW_length firsts h
  simp only [encode21, Cov.encodeLen_eq firsts h, Cov.encode_eq firsts h] at hb
  cases ho : pairOffsets (orFormat1 sets) (orFormat2 sets) sets
      (10 + 2 * sets.length + if Cov.fmt1Len firsts ≤ Cov.fmt2Len firsts then Cov.fmt1Len firsts
        else Cov.fmt2Len firsts) with
  | err e => rw [ho] at hb; simp at hb
  | panic s => rw [ho] at hb; simp at hb
  | ok offs =>
    rw [ho] at hb
    simp only [Outcome.ok.injEq] at hb
    rw [← hcl] at ho
    obtain ⟨hol, holt, htot⟩ := pairOffsets_spec _ _ _ _ _ ho
    -- the coverage offset and the count fit 16 bits
    have hc : 10 + 2 * sets.length < 65536 := by
      cases sets with
      | nil => simp
      | cons s ss => have := htot (by simp); omega
    rw [w16_of_lt hc, w16_of_lt (by omega)] at hb
    -- everything as one word list
    have hbw : b = wordsToBytes ((1 :: (10 + 2 * sets.length) :: orFormat1 sets :: orFormat2 sets ::
        sets.length :: offs) ++ (Cov.encodeW firsts ++
          sets.flatMap (pairSetWords (orFormat1 sets) (orFormat2 sets)))) := by
      rw [← hb]
      show _ = wordsToBytes (([1, 10 + 2 * sets.length, orFormat1 sets, orFormat2 sets, sets.length] ++ offs) ++
        (Cov.encodeW firsts ++ sets.flatMap (pairSetWords (orFormat1 sets) (orFormat2 sets))))
      simp only [wordsToBytes_append, List.append_assoc]
    have hPlt : ∀ w ∈ (1 :: (10 + 2 * sets.length) :: orFormat1 sets :: orFormat2 sets ::
        sets.length :: offs) ++ Cov.encodeW firsts, w < 65536 := by
      intro w hw
      simp only [List.mem_append, List.mem_cons] at hw
      rcases hw with (rfl | rfl | rfl | rfl | rfl | hw) | hw
      · decide
      · omega
      · omega
      · omega
      · omega
      · exact holt w hw
      · exact Cov.encodeW_lt firsts h w hw
    have hPSlt : ∀ w ∈ sets.flatMap (pairSetWords (orFormat1 sets) (orFormat2 sets)), w < 65536 := by
      intro w hw
      rw [List.mem_flatMap] at hw
      obtain ⟨s, hs, hw⟩ := hw
      exact pairSetWords_lt _ _ s (hS s hs).1 w hw
    have hall : ∀ w ∈ (1 :: (10 + 2 * sets.length) :: orFormat1 sets :: orFormat2 sets ::
        sets.length :: offs) ++ (Cov.encodeW firsts ++
          sets.flatMap (pairSetWords (orFormat1 sets) (orFormat2 sets))), w < 65536 := by
      intro w hw
      rw [← List.append_assoc, List.mem_append] at hw
      rcases hw with hw | hw
      · exact hPlt w hw
      · exact hPSlt w hw
    constructor
    · have hw : bytesToWords b = 1 :: (10 + 2 * sets.length) :: orFormat1 sets :: orFormat2 sets ::
          sets.length :: (offs ++ (Cov.encodeW firsts ++
            sets.flatMap (pairSetWords (orFormat1 sets) (orFormat2 sets)))) := by
        rw [hbw, bytesToWords_wordsToBytes _ hall]
        rfl
      -- the coverage table sits behind the header and the offsets
      have hdrop : b.drop (10 + 2 * sets.length) = wordsToBytes (Cov.encodeW firsts ++
          sets.flatMap (pairSetWords (orFormat1 sets) (orFormat2 sets))) := by
        have e : 10 + 2 * sets.length = 2 * (1 :: (10 + 2 * sets.length) :: orFormat1 sets ::
            orFormat2 sets :: sets.length :: offs).length := by
          simp only [List.length_cons, hol]; omega
        have := drop_wordsToBytes_append' (1 :: (10 + 2 * sets.length) :: orFormat1 sets ::
            orFormat2 sets :: sets.length :: offs) (Cov.encodeW firsts ++
          sets.flatMap (pairSetWords (orFormat1 sets) (orFormat2 sets))) []
        simp only [List.append_nil] at this
        rw [hbw]
        generalize 10 + 2 * sets.length = off at e ⊢
        rw [e]
        exact this
      have hrd : Cov.read (b.drop (10 + 2 * sets.length)) = .ok firsts.zipIdx := by
        unfold Cov.read
        rw [hdrop, bytesToWords_wordsToBytes _ (by
          intro w hw
          rw [List.mem_append] at hw
          rcases hw with hw | hw
          · exact Cov.encodeW_lt firsts h w hw
          · exact hPSlt w hw)]
        exact Cov.readW_encodeW_append firsts h _
      have hlen : ¬ (offs ++ (Cov.encodeW firsts ++
          sets.flatMap (pairSetWords (orFormat1 sets) (orFormat2 sets)))).length < sets.length := by
        simp [hol]
      have htake : (offs ++ (Cov.encodeW firsts ++
          sets.flatMap (pairSetWords (orFormat1 sets) (orFormat2 sets)))).take sets.length = offs := by
        rw [← hol]; exact List.take_left
      -- the pair sets
      have hps := readPairSets_spec _ _ h1 h2 [] sets
        ((1 :: (10 + 2 * sets.length) :: orFormat1 sets :: orFormat2 sets :: sets.length :: offs) ++
          Cov.encodeW firsts) [] offs hPlt (by simp) hS
        (by
          have e : 2 * ((1 :: (10 + 2 * sets.length) :: orFormat1 sets :: orFormat2 sets ::
              sets.length :: offs) ++ Cov.encodeW firsts).length =
              10 + 2 * sets.length + 2 * (Cov.encodeW firsts).length := by
            simp only [List.length_append, List.length_cons, hol]; omega
          rw [e]; exact ho)
      simp only [List.append_nil, List.append_assoc] at hps
      rw [← hbw] at hps
      simp only [readSubtable, hw, read21, hlen, if_false, hrd, htake]
      have hz : ¬ offs.length > firsts.zipIdx.length := by simp [hol, hl]
      have hz2 : ¬ offs.length < firsts.zipIdx.length := by simp [hol, hl]
      simp only [hz, hz2, if_false, hps]
      simp
    · simp only [encodeLen21, Cov.encodeLen_eq firsts h, ← hcl]
      rw [hbw, length_wordsToBytes]
      congr 1
      have hps : ∀ (l : List PairSet), 2 * (l.flatMap (pairSetWords (orFormat1 sets) (orFormat2 sets))).length =
          (l.map (pairSetLen (orFormat1 sets) (orFormat2 sets))).sum := by
        intro l
        induction l with
        | nil => rfl
        | cons s l ih =>
          simp only [List.flatMap_cons, List.length_append, List.map_cons, List.sum_cons]
          have := pairSetWords_length _ _ h1 h2 s
          omega
      have := hps sets
      simp only [List.length_append, List.length_cons, hol]
      omega

theorem encode21_not_err (firsts : List Nat) (sets : List PairSet) (e : String) :
    encode21 firsts sets ≠ .err e := by
  simp only [encode21]
  cases Cov.encodeLen firsts <;> cases Cov.encode firsts <;> simp
  rename_i n c
  have : ∀ (ss : List PairSet) (t : Nat) (e' : String), pairOffsets (orFormat1 sets) (orFormat2 sets) ss t ≠ .err e' := by
    intro ss
    induction ss with
    | nil => intro t e'; simp [pairOffsets]
    | cons s ss ih =>
      intro t e'
      simp only [pairOffsets]
      split
      · simp
      · cases h : pairOffsets (orFormat1 sets) (orFormat2 sets) ss (t + pairSetLen (orFormat1 sets) (orFormat2 sets) s) with
        | ok r => simp
        | err e2 => exact absurd h (ih _ e2)
        | panic s' => simp
  cases h : pairOffsets (orFormat1 sets) (orFormat2 sets) sets (10 + 2 * sets.length + n) with
  | ok r => simp
  | err e' => exact absurd h (this _ _ e')
  | panic s => simp

end SfntV.Otl.Gpos
