/-
C01 — what `Read` returns is in normal form (so that one more Write→Read cycle changes nothing),
outside the classes listed in `Stable`; and `nf` is idempotent.
-/
import SfntV.Proofs.FontRoundTrip

namespace SfntV.Font

/-- `T` is a table set the table decoders can return: every record is a fixed point of its
codec's normalisation, and integer fields are in the range of their binary field. -/
structure Decoded (T : Tables) : Prop where
  codecFixed : codec T = T
  /-- head.fontRevision is a 32-bit field -/
  revision : ∀ h, T.head = some h → h.fontRevision < 4294967296
  /-- hmtx advance widths and post underline metrics are int16 fields -/
  hmtxRange : ∀ h, T.hmtx = some h → ∀ w ∈ h.widths, isInt16 w
  postRange : ∀ p, T.post = some p → isInt16 p.underlinePosition ∧ isInt16 p.underlineThickness
  /-- the italic angle of a CFF FontInfo lies in (-180, 180] degrees and the caret angle
  recovered from hhea in [-90, 90]; both fit 16.16 -/
  cffAngle : ∀ c, T.cff = some c → isInt32 c.italicAngle.round16
  caretRange : ∀ h, T.hmtx = some h → isInt32 h.caret16
  /-- CFF glyph data carries one width per glyph -/
  cffWidths : ∀ l, T.outline.widths = some l → l.length = T.outline.numGlyphs

/-- an int16 whole number (what the post and hmtx tables can hold) -/
def isWhole16 (d : Dy) : Prop := ∃ n, d = Dy.ofInt n ∧ isInt16 n

/-- `T` is in none of the open known-finding classes of C01 (C01-bold-word and
C01-no-hmtx-cff-widths; C01-empty-glyf, C01-no-hmtx-widths and C01-no-post-underline are repaired).
A file with post and hmtx tables, and every TrueType file with a post table, can only fail `bold`. -/
structure Stable (T : Tables) : Prop where
  /-- not C01-bold-word (DESIGN §9 #4): if `Subfamily()` of the font as read says "Bold" — the
  weight word for usWeightClass 650..749 unless the family name already contains it — then the
  font was read with IsBold set -/
  bold : boldWord (subfamily (merge T)) = true → (merge T).isBold = true
  /-- what remains of C01-no-post-underline after the repair 0dc7ef1: without a post table the
  (now rounded) underline metrics of the CFF FontInfo must fit the int16 fields of the post table
  that `Write` will emit -/
  underline : T.post.isSome = true ∨
    ∀ c, T.scalerCFF = true → T.cff = some c →
      isInt16 c.underlinePosition.round ∧ isInt16 c.underlineThickness.round
  /-- not C01-no-hmtx-cff-widths: hmtx supplies the advance widths, or the file is TrueType
  (zero widths since the repair feedc74), or the widths stored in the CFF glyph data are whole
  numbers in int16 -/
  widths : hmtxWidths T ≠ [] ∨ T.scalerCFF = false ∨
    ((∀ w ∈ (merge T).outline.widthList, isWhole16 w) ∧
     ((merge T).outline.widths = none → (merge T).outline.numGlyphs = 0))

/-- the clauses of `Canonical (merge T)` that are not automatic (internal form of `Stable`) -/
structure StableF (T : Tables) : Prop where
  bold : boldWord (subfamily (merge T)) = true → (merge T).isBold = true
  angle : isInt32 (merge T).italicAngle.num
  ulPos : ∃ n, (merge T).underlinePosition = Dy.ofInt n ∧ isInt16 n
  ulThick : ∃ n, (merge T).underlineThickness = Dy.ofInt n ∧ isInt16 n
  widths : ∀ w ∈ (merge T).outline.widthList, ∃ n, w = Dy.ofInt n ∧ isInt16 n
  widthsNone : (merge T).outline.widths = none → (merge T).outline.numGlyphs = 0

/-! ## projections of `merge` and what `readErr = none` gives -/

theorem merge_outline (T : Tables) : (merge T).outline = mergeOutline T := rfl

theorem merge_version (T : Tables) : (merge T).version =
    match T.name.bind (fun n => verParse n.version) with
    | some v => verRound v
    | none =>
      match T.head with
      | some h => verRound h.fontRevision
      | none =>
        match (if T.scalerCFF then T.cff else none) with
        | some c => if c.version.isEmpty then 0 else verRound ((verParse c.version).getD 0)
        | none => 0 := rfl

theorem verRound_lt (v : Nat) : verRound v < 4294967296 := by
  unfold verRound
  exact Nat.mod_lt _ (by decide)

theorem merge_version_lt (T : Tables) : (merge T).version < 4294967296 := by
  rw [merge_version]
  split
  · exact verRound_lt _
  · split
    · exact verRound_lt _
    · split
      · split
        · decide
        · exact verRound_lt _
      · decide

theorem readErr_settle (T : Tables) (hacc : readErr T = none) :
    ∃ n, settleNumGlyphs T = some n ∧ (n = 0 ∨ T.outline.numGlyphs = n) := by
  unfold readErr at hacc
  split at hacc
  · cases hacc
  · split at hacc
    · cases hacc
    · rename_i n hn
      refine ⟨n, hn, ?_⟩
      repeat' split at hacc
      all_goals first | omega | cases hacc

theorem mergeOutline_widths_length (T : Tables) (hacc : readErr T = none)
    (hc : ∀ l, T.outline.widths = some l → l.length = T.outline.numGlyphs) :
    ∀ l, (mergeOutline T).widths = some l → l.length = (mergeOutline T).numGlyphs := by
  intro l hl
  obtain ⟨n', hs, hn⟩ := readErr_settle T hacc
  obtain ⟨scaler, head, hmtx, maxp, os2, name, post, cff, ⟨kind, n, widths, heights, glyphs, eg, cm, hb, gh, gx, sl⟩, gdef, gsub, gpos, kern⟩ := T
  simp only [mergeOutline, hmtxWidths] at hl ⊢
  simp only [settleNumGlyphs] at hs
  simp only at hc hn
  generalize maxp.getD 0 = n0 at *
  cases hmtx with
  | none =>
    cases scaler
    · simp at hl
      subst hl
      simp
    · simp at hl
      exact hc l hl
  | some h =>
    simp only at hl hs
    generalize h.widths = ws at *
    by_cases h0 : n0 = 0
    · subst h0
      simp only [ne_eq, not_true_eq_false, if_false, if_true] at hl hs
      by_cases hpos : ws.length > 0
      · simp only [hpos, if_true] at hl hs
        cases hl; cases hs
        rw [List.length_map]; omega
      · simp only [hpos, if_false] at hl
        cases scaler
        · simp at hl
          subst hl
          simp
        · exact hc l (by simpa using hl)
    · simp only [ne_eq, h0, not_false_eq_true, if_true, if_false, List.length_take] at hl hs
      by_cases hpos : min n0 ws.length > 0
      · simp only [hpos, if_true] at hl
        cases hl
        rw [List.length_map, List.length_take]
        have : ws.length > 0 := by omega
        simp only [this, if_true] at hs
        repeat' split at hs
        all_goals first | omega | cases hs
        all_goals omega
      · simp only [hpos, if_false] at hl
        cases scaler
        · simp at hl
          subst hl
          simp
        · exact hc l (by simpa using hl)

theorem inDomain_merge' (T : Tables) (hacc : readErr T = none)
    (hc : ∀ l, T.outline.widths = some l → l.length = T.outline.numGlyphs) : InDomain (merge T) := by
  refine ⟨?_, merge_version_lt T⟩
  rw [merge_outline]; exact mergeOutline_widths_length T hacc hc

theorem verOfDecimal_lt (n k : Nat) : verOfDecimal n k < 4294967296 := by
  unfold verOfDecimal
  exact Nat.mod_lt _ (by decide)

theorem verParse_lt (s : Str) (v : Nat) (h : verParse s = some v) : v < 4294967296 := by
  unfold verParse at h
  simp only [] at h
  repeat' split at h
  all_goals first | cases h | skip
  all_goals exact verOfDecimal_lt _ _

theorem merge_version_nf (T : Tables) (hrev : ∀ h, T.head = some h → h.fontRevision < 4294967296) :
    nfVersion (merge T).version = (merge T).version := by
  rw [merge_version]
  split
  · rename_i v hv
    apply nfVersion_verRound
    cases hn : T.name with
    | none => simp [hn] at hv
    | some n =>
      simp [hn] at hv
      exact verParse_lt _ _ hv
  · split
    · rename_i h hh
      exact nfVersion_verRound _ (hrev h hh)
    · split
      · split
        · decide
        · rename_i c _ _
          apply nfVersion_verRound
          cases hp : verParse c.version with
          | none => simp
          | some v => simpa using verParse_lt _ _ hp
      · decide

theorem merge_ctime (T : Tables) : (merge T).creationTime =
    match T.head with | some h => h.created | none => Time.zero := rfl
theorem merge_mtime (T : Tables) : (merge T).modificationTime =
    match T.head with | some h => h.modified | none => Time.zero := rfl
theorem merge_perm (T : Tables) : (merge T).permUse =
    match T.os2 with | some s => s.permUse | none => 0 := rfl
theorem merge_fontMatrix (T : Tables) : (merge T).fontMatrix =
    match (if T.scalerCFF then T.cff else none) with
    | some c => c.fontMatrix
    | none => ⟨['U'], some (merge T).unitsPerEm⟩ := rfl
theorem merge_cap (T : Tables) : (merge T).capHeight =
    heightFallback (match T.os2 with | some s => s.capHeight | none => 0) (mergeOutline T) (mergeOutline T).gidH := rfl
theorem merge_xh (T : Tables) : (merge T).xHeight =
    heightFallback (match T.os2 with | some s => s.xHeight | none => 0) (mergeOutline T) (mergeOutline T).gidX := rfl

theorem codec_head (T : Tables) (hc : codec T = T) (h : HeadRec) (hh : T.head = some h) : codecHead h = h := by
  have := congrArg Tables.head hc
  simp only [codec, hh, Option.map] at this
  exact Option.some.inj this

theorem codec_os2 (T : Tables) (hc : codec T = T) (s : Os2Rec) (hs : T.os2 = some s) : codecOs2 s = s := by
  have := congrArg Tables.os2 hc
  simp only [codec, hs, Option.map] at this
  exact Option.some.inj this

theorem merge_ctime_nf (T : Tables) (hc : codec T = T) :
    decodeTime (encodeTime (merge T).creationTime) = (merge T).creationTime := by
  rw [merge_ctime]
  cases hh : T.head with
  | none => decide
  | some h =>
    have := congrArg HeadRec.created (codec_head T hc h hh)
    simpa [codecHead] using this

theorem merge_mtime_nf (T : Tables) (hc : codec T = T) :
    decodeTime (encodeTime (merge T).modificationTime) = (merge T).modificationTime := by
  rw [merge_mtime]
  cases hh : T.head with
  | none => decide
  | some h =>
    have := congrArg HeadRec.modified (codec_head T hc h hh)
    simpa [codecHead] using this

theorem merge_perm_range (T : Tables) (hc : codec T = T) :
    0 ≤ (merge T).permUse ∧ (merge T).permUse ≤ 3 := by
  rw [merge_perm]
  cases hs : T.os2 with
  | none => decide
  | some s =>
    have := congrArg Os2Rec.permUse (codec_os2 T hc s hs)
    simp only [codecOs2] at this
    simp only
    split at this <;> omega

theorem merge_matrix (T : Tables) (hk : (merge T).outline.kind = .glyf) :
    (merge T).fontMatrix = ⟨['U'], some (merge T).unitsPerEm⟩ := by
  rw [merge_fontMatrix]
  rw [merge_outline] at hk
  cases hsc : T.scalerCFF
  · rfl
  · simp [mergeOutline, hsc] at hk

theorem heightFallback_nonneg (c : Int) (hc : 0 ≤ c) (o : Outline) (g : Nat) :
    0 < heightFallback c o g ∨ heightFallback 0 o g = heightFallback c o g := by
  by_cases h : c = 0
  · subst h; right; rfl
  · left
    unfold heightFallback
    simp [h]; omega

theorem merge_cap_ok (T : Tables) (hc : codec T = T) :
    0 < (merge T).capHeight ∨
      heightFallback 0 (merge T).outline (merge T).outline.gidH = (merge T).capHeight := by
  rw [merge_cap, merge_outline]
  apply heightFallback_nonneg
  cases hs : T.os2 with
  | none => decide
  | some s =>
    have := congrArg Os2Rec.capHeight (codec_os2 T hc s hs)
    simp only [codecOs2] at this
    simp only
    split at this <;> omega

theorem merge_xh_ok (T : Tables) (hc : codec T = T) :
    0 < (merge T).xHeight ∨
      heightFallback 0 (merge T).outline (merge T).outline.gidX = (merge T).xHeight := by
  rw [merge_xh, merge_outline]
  apply heightFallback_nonneg
  cases hs : T.os2 with
  | none => decide
  | some s =>
    have := congrArg Os2Rec.xHeight (codec_os2 T hc s hs)
    simp only [codecOs2] at this
    simp only
    split at this <;> omega

theorem merge_isOblique (T : Tables) : (merge T).isOblique =
    match T.os2 with | some s => s.isOblique | none => false := rfl
theorem merge_isItalic (T : Tables) : (merge T).isItalic =
    (decide ((merge T).italicAngle.num ≠ 0) ||
    (match T.head with | some h => h.isItalic | none => false) ||
    (match T.os2 with | some s => s.isItalic || s.isOblique | none => false) ||
    (T.name.isSome && hasInfix s_Italic (match T.name with | some n => n.subfamily | none => []))) := rfl
theorem merge_isRegular (T : Tables) : (merge T).isRegular =
    if !((merge T).isItalic || (merge T).isBold) then (match T.os2 with | some s => s.isRegular | none => false) else false := rfl
theorem merge_isSerif (T : Tables) : (merge T).isSerif =
    match T.os2 with | some s => classIsSerif s.familyClass | none => false := rfl
theorem merge_isScript (T : Tables) : (merge T).isScript =
    match T.os2 with | some s => classIsScript s.familyClass | none => false := rfl
theorem merge_gsub (T : Tables) : (merge T).gsub =
    match T.gsub with
      | some g => some g
      | none => if !isFixedPitch (mergeOutline T).widthList && (mergeOutline T).hasBest then (mergeOutline T).stdLig else none := rfl

theorem weightTag_mem (F : FontMeta) : ∀ p, weightTag F = some p → p.1 ∈ weightWords := by
  intro p hp
  unfold weightTag at hp
  split at hp
  · cases hp; exact weightSimple_mem _
  · cases hp

theorem subfamily_italic (F : FontMeta) :
    hasInfix s_Italic (subfamily F) = (F.isItalic && !F.isOblique) :=
  subfamilyCore_italic F.width (weightTag F) (weightTag_mem F) _ _ _

theorem isZero_eq (d : Dy) : d.isZero = !decide (d.num ≠ 0) := by
  unfold Dy.isZero
  by_cases h : d.num = 0 <;> simp [h]

theorem merge_italic_ok (T : Tables) :
    (merge T).isItalic = (!(merge T).italicAngle.isZero || (merge T).isOblique ||
      hasInfix s_Italic (subfamily (merge T))) := by
  rw [subfamily_italic _, isZero_eq]
  have h1 := merge_isItalic T
  have h2 := merge_isOblique T
  generalize (merge T).isItalic = it at *
  generalize (merge T).isOblique = ob at *
  generalize decide ((merge T).italicAngle.num ≠ 0) = a at *
  cases hs : T.os2 with
  | none =>
    simp only [hs] at h1 h2
    subst h2
    cases it <;> cases a <;> simp_all
  | some s =>
    simp only [hs] at h1 h2
    subst h2
    generalize (match T.head with | some h => h.isItalic | none => false) = x at h1
    generalize (T.name.isSome && hasInfix s_Italic (match T.name with | some n => n.subfamily | none => [])) = y at h1
    cases it <;> cases a <;> cases hso : s.isOblique <;> simp_all

theorem merge_regular_ok (T : Tables) :
    (merge T).isRegular = true → (merge T).isItalic = false ∧ (merge T).isBold = false := by
  rw [merge_isRegular]
  generalize (merge T).isItalic = it
  generalize (merge T).isBold = bo
  cases it <;> cases bo <;> simp

theorem merge_script_ok (T : Tables) : (merge T).isScript = true → (merge T).isSerif = false := by
  rw [merge_isScript, merge_isSerif]
  cases T.os2 with
  | none => simp
  | some s =>
    simp only [classIsScript, classIsSerif, decide_eq_true_eq, decide_eq_false_iff_not]
    omega

theorem mergeOutline_widthsGlyf (T : Tables) (hk : (mergeOutline T).kind = .glyf) :
    (mergeOutline T).widths ≠ none := by
  cases hsc : T.scalerCFF
  · simp only [mergeOutline, hsc]
    generalize hmtxWidths T = hw
    cases hw <;> simp
  · simp [mergeOutline, hsc] at hk

theorem merge_gsub_ok (T : Tables) : (merge T).gsub = none →
    (!isFixedPitch (merge T).outline.widthList && (merge T).outline.hasBest) = false ∨
      (merge T).outline.stdLig = none := by
  rw [merge_gsub, merge_outline]
  cases T.gsub with
  | some g => simp
  | none =>
    simp only
    split
    · intro h; exact Or.inr h
    · rename_i h
      intro _; left; simpa using h

theorem inDomain_merge (T : Tables) (hacc : readErr T = none) (hd : Decoded T) : InDomain (merge T) :=
  inDomain_merge' T hacc hd.cffWidths

theorem codec_post (T : Tables) (hc : codec T = T) (p : PostRec) (hp : T.post = some p) : codecPost p = p := by
  have := congrArg Tables.post hc
  simp only [codec, hp, Option.map] at this
  exact Option.some.inj this

theorem merge_ul_post (T : Tables) (p : PostRec) (hp : T.post = some p) :
    (merge T).underlinePosition = Dy.ofInt p.underlinePosition ∧
    (merge T).underlineThickness = Dy.ofInt p.underlineThickness := by
  unfold merge
  simp only [hp]
  exact ⟨trivial, trivial⟩

theorem merge_angle_num (T : Tables) :
    (merge T).italicAngle.num =
      (match T.post with
      | some p => p.italicAngle.round16
      | none => match (if T.scalerCFF then T.cff else none) with
        | some c => c.italicAngle.round16
        | none => match T.hmtx with
          | some h => h.caret16
          | none => 0) := rfl

theorem merge_angle_range (T : Tables) (hd : Decoded T) : isInt32 (merge T).italicAngle.num := by
  rw [merge_angle_num]
  cases hp : T.post with
  | some p =>
    have h := codec_post T hd.codecFixed p hp
    have h2 : p.italicAngle = ⟨toInt32 p.italicAngle.round16, 16⟩ := by
      have := congrArg PostRec.italicAngle h
      simpa [codecPost] using this.symm
    simp only
    rw [h2, round16_fix16]
    exact toInt32_range _
  | none =>
    simp only
    cases hs : T.scalerCFF with
    | false =>
      simp only [Bool.false_eq_true, if_false]
      cases hh : T.hmtx with
      | some h => exact hd.caretRange h hh
      | none => exact ⟨by decide, by decide⟩
    | true =>
      simp only [if_true]
      cases hc : T.cff with
      | some c => exact hd.cffAngle c hc
      | none =>
        simp only
        cases hh : T.hmtx with
        | some h => exact hd.caretRange h hh
        | none => exact ⟨by decide, by decide⟩

theorem hmtxWidths_range (T : Tables) (hd : Decoded T) : ∀ w ∈ hmtxWidths T, isInt16 w := by
  unfold hmtxWidths
  cases hh : T.hmtx with
  | none => intro w hw; cases hw
  | some h =>
    simp only
    intro w hw
    split at hw
    · exact hd.hmtxRange h hh w (List.mem_of_mem_take hw)
    · exact hd.hmtxRange h hh w hw

theorem mergeOutline_widths_hmtx (T : Tables) (h : hmtxWidths T ≠ []) :
    (mergeOutline T).widths = some ((hmtxWidths T).map Dy.ofInt) := by
  unfold mergeOutline
  have : (hmtxWidths T).length > 0 := by
    cases hh : hmtxWidths T with
    | nil => exact absurd hh h
    | cons a t => simp
  simp only [this, if_true]

theorem replicate_zero_ok (n : Nat) : ∀ w ∈ List.replicate n (Dy.ofInt 0), ∃ m, w = Dy.ofInt m ∧ isInt16 m := by
  intro w hw
  rw [List.eq_of_mem_replicate hw]
  exact ⟨0, rfl, by unfold isInt16; omega⟩

theorem merge_ul_nopost (T : Tables) (hp : T.post = none) :
    (merge T).underlinePosition =
      (match (if T.scalerCFF then T.cff else none) with
       | some c => Dy.ofInt c.underlinePosition.round | none => Dy.ofInt 0) ∧
    (merge T).underlineThickness =
      (match (if T.scalerCFF then T.cff else none) with
       | some c => Dy.ofInt c.underlineThickness.round | none => Dy.ofInt 0) := by
  unfold merge
  simp only [hp]
  cases (if T.scalerCFF then T.cff else none) <;> exact ⟨rfl, rfl⟩

theorem mergeOutline_widths_glyf_nohmtx (T : Tables) (hs : T.scalerCFF = false) (hm : hmtxWidths T = []) :
    (mergeOutline T).widths = some (List.replicate T.outline.numGlyphs (Dy.ofInt 0)) := by
  unfold mergeOutline
  simp [hm, hs]

/-- the table-level hypotheses give the field-level ones -/
theorem stableF_of (T : Tables) (hd : Decoded T) (hs : Stable T) : StableF T where
  bold := hs.bold
  angle := merge_angle_range T hd
  ulPos := by
    cases hp : T.post with
    | some p => exact ⟨p.underlinePosition, (merge_ul_post T p hp).1, (hd.postRange p hp).1⟩
    | none =>
      have hr : ∀ c, T.scalerCFF = true → T.cff = some c →
          isInt16 c.underlinePosition.round ∧ isInt16 c.underlineThickness.round := by
        rcases hs.underline with h | h
        · rw [hp] at h; cases h
        · exact h
      rw [(merge_ul_nopost T hp).1]
      cases hsc : T.scalerCFF with
      | false => exact ⟨0, rfl, by decide, by decide⟩
      | true =>
        simp only [if_true]
        cases hc : T.cff with
        | none => exact ⟨0, rfl, by decide, by decide⟩
        | some c => exact ⟨_, rfl, (hr c hsc hc).1⟩
  ulThick := by
    cases hp : T.post with
    | some p => exact ⟨p.underlineThickness, (merge_ul_post T p hp).2, (hd.postRange p hp).2⟩
    | none =>
      have hr : ∀ c, T.scalerCFF = true → T.cff = some c →
          isInt16 c.underlinePosition.round ∧ isInt16 c.underlineThickness.round := by
        rcases hs.underline with h | h
        · rw [hp] at h; cases h
        · exact h
      rw [(merge_ul_nopost T hp).2]
      cases hsc : T.scalerCFF with
      | false => exact ⟨0, rfl, by decide, by decide⟩
      | true =>
        simp only [if_true]
        cases hc : T.cff with
        | none => exact ⟨0, rfl, by decide, by decide⟩
        | some c => exact ⟨_, rfl, (hr c hsc hc).2⟩
  widths := by
    by_cases hm : hmtxWidths T = []
    · rcases hs.widths with h | h | h
      · exact absurd hm h
      · intro w hw
        rw [merge_outline] at hw
        unfold Outline.widthList at hw
        rw [mergeOutline_widths_glyf_nohmtx T h hm] at hw
        exact replicate_zero_ok _ w hw
      · exact h.1
    · intro w hw
      rw [merge_outline] at hw
      unfold Outline.widthList at hw
      rw [mergeOutline_widths_hmtx T hm] at hw
      simp only [List.mem_map] at hw
      obtain ⟨n, hn, rfl⟩ := hw
      exact ⟨n, rfl, hmtxWidths_range T hd n hn⟩
  widthsNone := by
    by_cases hm : hmtxWidths T = []
    · rcases hs.widths with h | h | h
      · exact absurd hm h
      · intro hn
        rw [merge_outline, mergeOutline_widths_glyf_nohmtx T h hm] at hn
        cases hn
      · exact h.2
    · intro hn
      rw [merge_outline, mergeOutline_widths_hmtx T hm] at hn
      cases hn

theorem canonical_merge (T : Tables) (hacc : readErr T = none) (hd : Decoded T) (hs : Stable T) :
    Canonical (merge T) where
  version := have _ := hacc; merge_version_nf T hd.revision
  ctime := merge_ctime_nf T hd.codecFixed
  mtime := merge_mtime_nf T hd.codecFixed
  perm := merge_perm_range T hd.codecFixed
  matrix := merge_matrix T
  cap := merge_cap_ok T hd.codecFixed
  xh := merge_xh_ok T hd.codecFixed
  angle := ⟨(merge T).italicAngle.num, rfl, (stableF_of T hd hs).angle⟩
  ulPos := (stableF_of T hd hs).ulPos
  ulThick := (stableF_of T hd hs).ulThick
  italic := merge_italic_ok T
  bold := hs.bold
  regular := merge_regular_ok T
  script := merge_script_ok T
  widths := (stableF_of T hd hs).widths
  widthsNone := (stableF_of T hd hs).widthsNone
  widthsGlyf := by rw [merge_outline]; exact mergeOutline_widthsGlyf T
  gsub := merge_gsub_ok T

/-- for accepted, decoder-produced table sets outside the excluded classes, re-writing and
re-reading the font `Read` returned gives the same font -/
theorem fixed_point (env : Env) (T : Tables) (hacc : readErr T = none) (hd : Decoded T) (hs : Stable T) :
    rewrite env (merge T) = merge T := by
  unfold rewrite
  rw [read_write env (merge T) (inDomain_merge T hacc hd)]
  exact lossless (merge T) (canonical_merge T hacc hd hs)

/-! ## projections of `nf` -/

theorem nf_outline (F : FontMeta) : (nf F).outline = nfOutline F.outline := rfl
theorem nf_version (F : FontMeta) : (nf F).version = nfVersion F.version := rfl
theorem nf_ctime (F : FontMeta) : (nf F).creationTime = decodeTime (encodeTime F.creationTime) := rfl
theorem nf_mtime (F : FontMeta) : (nf F).modificationTime = decodeTime (encodeTime F.modificationTime) := rfl
theorem nf_perm (F : FontMeta) : (nf F).permUse = if 1 ≤ F.permUse ∧ F.permUse ≤ 3 then F.permUse else 0 := rfl
theorem nf_fontMatrix (F : FontMeta) : (nf F).fontMatrix =
    match F.outline.kind with
      | .glyf => ⟨['U'], some F.unitsPerEm⟩
      | .cff => F.fontMatrix := rfl
theorem nf_unitsPerEm (F : FontMeta) : (nf F).unitsPerEm = F.unitsPerEm := rfl
theorem nf_cap (F : FontMeta) : (nf F).capHeight =
    heightFallback (if F.capHeight > 0 then F.capHeight else 0) (nfOutline F.outline) (nfOutline F.outline).gidH := rfl
theorem nf_xh (F : FontMeta) : (nf F).xHeight =
    heightFallback (if F.xHeight > 0 then F.xHeight else 0) (nfOutline F.outline) (nfOutline F.outline).gidX := rfl
theorem nf_angle (F : FontMeta) : (nf F).italicAngle = ⟨toInt32 F.italicAngle.round16, 16⟩ := rfl
theorem nf_ulPos (F : FontMeta) : (nf F).underlinePosition = Dy.ofInt (toInt16 F.underlinePosition.round) := rfl
theorem nf_ulThick (F : FontMeta) : (nf F).underlineThickness = Dy.ofInt (toInt16 F.underlineThickness.round) := rfl
theorem nf_isItalic (F : FontMeta) : (nf F).isItalic =
    (!F.italicAngle.isZero || F.isOblique || hasInfix s_Italic (subfamily F)) := rfl
theorem nf_isBold (F : FontMeta) : (nf F).isBold = ((F.isBold && !F.isRegular) || boldWord (subfamily F)) := rfl
theorem nf_isOblique (F : FontMeta) : (nf F).isOblique = F.isOblique := rfl
theorem nf_isRegular (F : FontMeta) : (nf F).isRegular = (F.isRegular && !(nf F).isItalic && !(nf F).isBold) := rfl
theorem nf_isScript (F : FontMeta) : (nf F).isScript = (F.isScript && !F.isSerif) := rfl
theorem nf_isSerif (F : FontMeta) : (nf F).isSerif = F.isSerif := rfl
theorem nf_width (F : FontMeta) : (nf F).width = F.width := rfl
theorem nf_weightTag (F : FontMeta) : weightTag (nf F) = weightTag F := rfl
theorem nf_gsub (F : FontMeta) : (nf F).gsub =
    match F.gsub with
      | some g => some g
      | none => if !isFixedPitch (nfOutline F.outline).widthList && (nfOutline F.outline).hasBest
          then (nfOutline F.outline).stdLig else none := rfl

theorem nfVersion_lt (v : Nat) : nfVersion v < 4294967296 := verOfDecimal_lt _ _

theorem nfVersion_idem (v : Nat) (h : v < 4294967296) : nfVersion (nfVersion v) = nfVersion v := by
  rw [← verRound_nfVersion v h]
  exact nfVersion_verRound _ (nfVersion_lt v)

/-- `boldWord (subfamily F)` as a function of the weight tag and the Bold flag -/
def boldForm (wt : Option (Str × Bool)) (b : Bool) : Bool :=
  match wt with
  | none => b
  | some (tag, seen) => decide (tag = s_Bold) && !seen

theorem subfamily_bold (F : FontMeta) :
    boldWord (subfamily F) = boldForm (weightTag F) F.isBold :=
  subfamilyCore_bold F.width (weightTag F) (weightTag_mem F) _ _ _

theorem nf_italic_ok (F : FontMeta) :
    (nf F).isItalic = (!(nf F).italicAngle.isZero || (nf F).isOblique ||
      hasInfix s_Italic (subfamily (nf F))) := by
  rw [subfamily_italic (nf F), nf_isOblique, nf_isItalic, nf_angle, subfamily_italic F]
  have hz := toInt32_zero_of_isZero F.italicAngle
  generalize toInt32 F.italicAngle.round16 = r at *
  cases hzz : F.italicAngle.isZero
  · cases F.isOblique <;> cases F.isItalic <;> simp
  · have := hz hzz
    subst this
    cases F.isOblique <;> cases F.isItalic <;> simp [Dy.isZero]

theorem nf_bold_ok (F : FontMeta) :
    boldWord (subfamily (nf F)) = true → (nf F).isBold = true := by
  rw [subfamily_bold (nf F), nf_weightTag, nf_isBold, subfamily_bold F]
  cases weightTag F with
  | none => simp [boldForm]
  | some p =>
    obtain ⟨t, s⟩ := p
    simp only [boldForm]
    intro h; rw [h]; simp

theorem nf_regular_ok (F : FontMeta) :
    (nf F).isRegular = true → (nf F).isItalic = false ∧ (nf F).isBold = false := by
  rw [nf_isRegular]
  generalize (nf F).isItalic = it
  generalize (nf F).isBold = bo
  cases it <;> cases bo <;> simp

theorem nf_script_ok (F : FontMeta) : (nf F).isScript = true → (nf F).isSerif = false := by
  rw [nf_isScript, nf_isSerif]
  cases F.isSerif <;> simp

theorem nf_gsub_ok (F : FontMeta) : (nf F).gsub = none →
    (!isFixedPitch (nf F).outline.widthList && (nf F).outline.hasBest) = false ∨
      (nf F).outline.stdLig = none := by
  rw [nf_gsub, nf_outline]
  cases F.gsub with
  | some g => simp
  | none =>
    simp only
    split
    · intro h; exact Or.inr h
    · rename_i h
      intro _; left; simpa using h

theorem nf_perm_range (F : FontMeta) : 0 ≤ (nf F).permUse ∧ (nf F).permUse ≤ 3 := by
  rw [nf_perm]
  split <;> omega

theorem nf_matrix (F : FontMeta) (hk : (nf F).outline.kind = .glyf) :
    (nf F).fontMatrix = ⟨['U'], some (nf F).unitsPerEm⟩ := by
  rw [nf_fontMatrix, nf_unitsPerEm]
  have : F.outline.kind = .glyf := hk
  rw [this]

theorem nf_cap_ok (F : FontMeta) :
    0 < (nf F).capHeight ∨ heightFallback 0 (nf F).outline (nf F).outline.gidH = (nf F).capHeight := by
  rw [nf_cap, nf_outline]
  apply heightFallback_nonneg
  split <;> omega

theorem nf_xh_ok (F : FontMeta) :
    0 < (nf F).xHeight ∨ heightFallback 0 (nf F).outline (nf F).outline.gidX = (nf F).xHeight := by
  rw [nf_xh, nf_outline]
  apply heightFallback_nonneg
  split <;> omega

theorem nfOutline_widths_ok (o : Outline) :
    ∀ w ∈ (nfOutline o).widthList, ∃ n, w = Dy.ofInt n ∧ isInt16 n := by
  obtain ⟨kind, n, widths, heights, glyphs, eg, cm, hb, gh, gx, sl⟩ := o
  simp only [nfOutline, List.length_map]
  by_cases hpos : (Outline.widthList ⟨kind, n, widths, heights, glyphs, eg, cm, hb, gh, gx, sl⟩).length > 0
  · rw [if_pos hpos]
    simp only [Outline.widthList]
    intro w hw
    simp only [List.mem_map] at hw
    obtain ⟨a, ⟨b, _, rfl⟩, rfl⟩ := hw
    exact ⟨_, rfl, toInt16_range _⟩
  · rw [if_neg hpos]
    cases kind
    · intro w hw; cases hw
    · cases widths with
      | none => exact replicate_zero_ok n
      | some l =>
        simp only [Outline.widthList] at hpos ⊢
        cases l with
        | nil => intro w hw; cases hw
        | cons a t => simp at hpos

theorem nfOutline_widthsNone (o : Outline) (h : ∀ l, o.widths = some l → l.length = o.numGlyphs) :
    (nfOutline o).widths = none → (nfOutline o).numGlyphs = 0 := by
  have hlen := widthList_length o h
  obtain ⟨kind, n, widths, heights, glyphs, eg, cm, hb, gh, gx, sl⟩ := o
  simp only [nfOutline, List.length_map, hlen] at hlen ⊢
  by_cases hn : n = 0
  · intro _; exact hn
  · have : n > 0 := by omega
    simp [this]

theorem nfOutline_widthsGlyf (o : Outline) (hk : (nfOutline o).kind = .glyf) :
    (nfOutline o).widths ≠ none := by
  obtain ⟨kind, n, widths, heights, glyphs, eg, cm, hb, gh, gx, sl⟩ := o
  simp only [nfOutline, List.length_map] at hk ⊢
  subst hk
  generalize Outline.widthList _ = wl
  cases wl <;> simp

theorem canonical_nf (F : FontMeta) (h : InDomain F) : Canonical (nf F) where
  version := nfVersion_idem F.version h.2
  ctime := decode_encode_idem _
  mtime := decode_encode_idem _
  perm := nf_perm_range F
  matrix := nf_matrix F
  cap := nf_cap_ok F
  xh := nf_xh_ok F
  angle := ⟨_, rfl, toInt32_range _⟩
  ulPos := ⟨_, rfl, toInt16_range _⟩
  ulThick := ⟨_, rfl, toInt16_range _⟩
  italic := nf_italic_ok F
  bold := nf_bold_ok F
  regular := nf_regular_ok F
  script := nf_script_ok F
  widths := nfOutline_widths_ok F.outline
  widthsNone := nfOutline_widthsNone F.outline h.1
  widthsGlyf := nfOutline_widthsGlyf F.outline
  gsub := nf_gsub_ok F

theorem nf_idem (F : FontMeta) (h : InDomain F) : nf (nf F) = nf F :=
  lossless (nf F) (canonical_nf F h)

end SfntV.Font
