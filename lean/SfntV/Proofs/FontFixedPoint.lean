/-
C01 — what `Read` returns is in normal form (so that one more Write→Read cycle changes nothing),
outside the classes listed in `Stable`; and `nf` is idempotent.
-/
import SfntV.Proofs.FontRoundTrip

namespace SfntV.Font

/-- `T` is a table set the table decoders can return: every record is a fixed point of its
codec's normalisation, and integer fields are in the range of their binary field. -/
structure Decoded (T : Tables) : Prop where
  codecFixed : codec T = T
  revision : ∀ h, T.head = some h → h.fontRevision < 4294967296
  hmtxRange : ∀ h, T.hmtx = some h → ∀ w ∈ h.widths, isInt16 w
  postRange : ∀ p, T.post = some p → isInt16 p.underlinePosition ∧ isInt16 p.underlineThickness
  /-- CFF glyph data carries one width per glyph -/
  cffWidths : ∀ l, T.outline.widths = some l → l.length = T.outline.numGlyphs

/-- The clauses of `Canonical (merge T)` that do *not* hold for every accepted table set.
`bold` fails for DESIGN §9 #4 (weight word "Bold" without the Bold flag); `angle`, `ulPos`,
`ulThick`, `widths`, `widthsNone` can only fail for files without post / hmtx tables (values then
come from the CFF table or are missing); `widthClass` is a limitation of the proof (the string
lemmas are proved for usWidthClass 0..9). -/
structure Stable (T : Tables) : Prop where
  bold : boldWord (subfamily (merge T)) = true → (merge T).isBold = true
  widthClass : (merge T).width ≤ 9
  angle : isInt32 (merge T).italicAngle.num
  ulPos : ∃ n, (merge T).underlinePosition = Dy.ofInt n ∧ isInt16 n
  ulThick : ∃ n, (merge T).underlineThickness = Dy.ofInt n ∧ isInt16 n
  widths : ∀ w ∈ (merge T).outline.widthList, ∃ n, w = Dy.ofInt n ∧ isInt16 n
  widthsNone : (merge T).outline.widths = none → (merge T).outline.numGlyphs = 0

theorem inDomain_merge (T : Tables) (hacc : readErr T = none) (hd : Decoded T) : InDomain (merge T) := by
  sorry

theorem canonical_merge (T : Tables) (hacc : readErr T = none) (hd : Decoded T) (hs : Stable T) :
    Canonical (merge T) := by
  sorry

/-- for accepted, decoder-produced table sets outside the excluded classes, re-writing and
re-reading the font `Read` returned gives the same font -/
theorem fixed_point (env : Env) (T : Tables) (hacc : readErr T = none) (hd : Decoded T) (hs : Stable T) :
    rewrite env (merge T) = merge T := by
  unfold rewrite
  rw [read_write env (merge T) (inDomain_merge T hacc hd)]
  exact lossless (merge T) (canonical_merge T hacc hd hs)

theorem canonical_nf (F : FontMeta) (h : InDomain F) (hw : F.width ≤ 9) : Canonical (nf F) := by
  sorry

theorem nf_idem (F : FontMeta) (h : InDomain F) (hw : F.width ≤ 9) : nf (nf F) = nf F :=
  lossless (nf F) (canonical_nf F h hw)

end SfntV.Font
