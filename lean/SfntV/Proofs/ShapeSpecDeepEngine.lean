/-
C06, stack entries of ENCLOSING matches: `fixStackInsert` / `fixStackMerge` on an entry whose
window contains the position operated on, which need not be one of its input positions
(E1, E2).  Generalises `fixInsertOne_expand` and `fixMergeOne_mergePos`.
-/
import SfntV.Proofs.ShapeSpecMergeEngine
set_option linter.unusedSimpArgs false
set_option linter.unusedVariables false
namespace SfntV.C06
open SfntV
open SfntV.Shape (Glyph Gdef Lookup LookupList Subtable Action St Nested)

/-! ## E1: `fixInsertOne`, the position is not an input position -/

/-- `expand` only shifts when `j` is not one of the positions -/
theorem expand_not_mem (ps : List Nat) (j k : Nat) (h : j ∉ ps) :
    expand ps j k = ps.map fun p => if p < j then p else p + (k - 1) := by
  induction ps with
  | nil => rfl
  | cons p ps ih =>
    have h1 : p ≠ j := fun hh => h (hh ▸ List.mem_cons_self ..)
    have h2 : j ∉ ps := fun hh => h (List.mem_cons_of_mem _ hh)
    rw [expand_cons, ih h2, List.map_cons]
    by_cases hlt : p < j
    · simp [hlt]
    · simp [hlt, h1]

private theorem shifted_not_mem (ps : List Nat) (j k : Nat) (h : j ∉ ps) :
    ((ps.map Int.ofNat).map fun p => if p > (j : Int) then p + ((k - 1 : Nat) : Int) else p)
      = (ps.map fun p => if p < j then p else p + (k - 1)).map Int.ofNat := by
  induction ps with
  | nil => rfl
  | cons p ps ih =>
    have h1 : p ≠ j := fun hh => h (hh ▸ List.mem_cons_self ..)
    have h2 : j ∉ ps := fun hh => h (List.mem_cons_of_mem _ hh)
    simp only [List.map_cons, Int.ofNat_eq_natCast]
    rw [← ih h2]
    congr 1
    by_cases hlt : p < j
    · have : ¬ ((p : Int) > (j : Int)) := by omega
      simp only [hlt, this, if_true, if_false]
    · have : (p : Int) > (j : Int) := by omega
      simp only [hlt, this, if_true, if_false]
      omega

private theorem shifted_not_mem' (ps : List Nat) (j k : Nat) (h : j ∉ ps) :
    (j : Int) ∉ (ps.map fun p => if p < j then p else p + (k - 1)).map Int.ofNat := by
  intro hm
  simp only [List.map_map, List.mem_map, Function.comp] at hm
  obtain ⟨q, hq, he⟩ := hm
  have hne : q ≠ j := fun hh => h (hh ▸ hq)
  simp only [Int.ofNat_eq_natCast] at he
  by_cases hlt : q < j
  · simp only [hlt, if_true] at he
    omega
  · simp only [hlt, if_false] at he
    omega

theorem fixInsertOne_expand' (ps : List Nat) (acts : List Action) (e j k : Nat)
    (hs : ps.Pairwise (· < ·)) (hje : j < e) (he : ∀ p ∈ ps, p < e) (hk : 1 ≤ k) :
    Shape.fixInsertOne (j : Int) k ⟨ps.map Int.ofNat, acts, (e : Int)⟩
      = ⟨(expand ps j k).map Int.ofNat, acts, ((e + (k - 1) : Nat) : Int)⟩ := by
  by_cases hj : j ∈ ps
  · exact fixInsertOne_expand ps acts e j k hs hj he hk
  · have h0 : ¬ ((e : Int) ≤ (j : Int)) := by omega
    unfold Shape.fixInsertOne
    simp only [h0, if_false]
    rw [shifted_not_mem ps j k hj, insAfterLast_not_mem _ _ _ (shifted_not_mem' ps j k hj), expand_not_mem ps j k hj]
    simp only [Option.getD_none, Int.natCast_add]

/-! ## E2: `fixMergeOne`, no merged position is an input position -/

/-- the positions lowered by `d` and by the number of deleted positions below them -/
private def lowerI (cs : List Nat) (d : Int) (ps : List Nat) : List Int :=
  ps.map fun (p : Nat) => (p : Int) - d - ((cs.filter fun c => c < p).length : Int)

private theorem lowerI_cons (cs : List Nat) (d : Int) (p : Nat) (ps : List Nat) :
    lowerI cs d (p :: ps) = ((p : Int) - d - ((cs.filter fun c => c < p).length : Int)) :: lowerI cs d ps := rfl

private theorem lowerI_cons_le (cs : List Nat) (d : Int) (p : Nat) (ps : List Nat) (h : ∀ c ∈ cs, p ≤ c) :
    lowerI cs d (p :: ps) = ((p : Int) - d) :: lowerI cs d ps := by
  rw [lowerI_cons, countLt_eq_zero cs p h]
  simp

private theorem lowerI_nil_cs (d : Int) (ps : List Nat) : lowerI [] d ps = (ps.map Int.ofNat).map (· - d) := by
  simp [lowerI]

private theorem lowerI_skip (c : Nat) (cs : List Nat) (d : Int) (ps : List Nat) (h : ∀ p ∈ ps, c < p) :
    lowerI (c :: cs) d ps = lowerI cs (d + 1) ps := by
  induction ps with
  | nil => rfl
  | cons p ps ih =>
    have hp : c < p := h p (List.mem_cons_self ..)
    rw [lowerI_cons, lowerI_cons, ih (fun q hq => h q (List.mem_cons_of_mem _ hq))]
    simp only [List.filter_cons, hp, decide_true, if_true, List.length_cons]
    congr 1
    omega

/-- without common positions `mergePos` deletes nothing -/
theorem mergePos_disjoint (ps cs : List Nat) (hd : ∀ c ∈ cs, c ∉ ps) :
    mergePos ps cs = ps.map fun p => p - (cs.filter (· < p)).length := by
  unfold mergePos
  congr 1
  rw [List.filter_eq_self]
  intro p hp
  have : cs.contains p = false := by
    rw [Bool.eq_false_iff]
    intro hh
    exact hd p (List.contains_iff_mem.mp hh) hp
  rw [this]
  rfl

private theorem lowerI_eq_mergePos (cs ps : List Nat) (hcs : cs.Pairwise (· < ·)) (hd : ∀ c ∈ cs, c ∉ ps) :
    lowerI cs 0 ps = (mergePos ps cs).map Int.ofNat := by
  rw [mergePos_disjoint ps cs hd]
  clear hd
  induction ps with
  | nil => rfl
  | cons p ps ih =>
    rw [lowerI_cons, ih]
    simp only [List.map_cons, Int.ofNat_eq_natCast]
    congr 1
    have := countLt_le cs p hcs
    omega

/-- the walk behind the first merged position when no merged position is an input position -/
private theorem mergeWalk_tail_disjoint (cs ps : List Nat) (d : Int) (hcs : cs.Pairwise (· < ·))
    (hps : ps.Pairwise (· < ·)) (hd : ∀ c ∈ cs, c ∉ ps) :
    Shape.mergeWalk (cs.map Int.ofNat) false (ps.map Int.ofNat) d = (lowerI cs d ps, false) := by
  induction cs generalizing d ps with
  | nil => simp only [List.map_nil, Shape.mergeWalk, lowerI_nil_cs]
  | cons c cs ih =>
    rw [List.pairwise_cons] at hcs
    induction ps with
    | nil => simp only [List.map_cons, List.map_nil, mergeWalk_nil_inp]; rfl
    | cons q ps ihp =>
      have hps' := hps
      rw [List.pairwise_cons] at hps'
      have hd' : ∀ x ∈ c :: cs, x ∉ ps := fun x hx hh => hd x hx (List.mem_cons_of_mem _ hh)
      rcases Nat.lt_trichotomy q c with hqc | hqc | hqc
      · have hI : Int.ofNat q < Int.ofNat c := by simp only [Int.ofNat_eq_natCast]; omega
        rw [List.map_cons, List.map_cons, mergeWalk_cons_lt _ _ _ _ _ _ hI]
        rw [← List.map_cons, ihp hps'.2 hd', lowerI_cons_le]
        · rfl
        · intro x hx
          rcases List.mem_cons.mp hx with hx | hx
          · omega
          · have := hcs.1 x hx; omega
      · exact absurd (hqc ▸ List.mem_cons_self ..) (hd c (List.mem_cons_self ..))
      · have hI : Int.ofNat c < Int.ofNat q := by simp only [Int.ofNat_eq_natCast]; omega
        rw [List.map_cons (l := cs), List.map_cons (l := ps), mergeWalk_cons_gt _ _ _ _ _ _ hI]
        simp only [Bool.false_eq_true, if_false]
        rw [← List.map_cons, ih (q :: ps) (d + 1) hcs.2 hps (fun x hx => hd x (List.mem_cons_of_mem _ hx)),
          lowerI_skip]
        intro x hx
        rcases List.mem_cons.mp hx with hx | hx
        · omega
        · have := hps'.1 x hx; omega

/-- the whole walk of `fixStackMerge` when no merged position is an input position: nothing is
removed and `needsMergePos` stays false -/
theorem mergeWalk_mergePos_disjoint (ps cs : List Nat) (j : Nat)
    (hps : ps.Pairwise (· < ·)) (hj : j ∉ ps) (hcs : cs.Pairwise (· < ·)) (hjc : ∀ c ∈ cs, j < c)
    (hd : ∀ c ∈ cs, c ∉ ps) :
    Shape.mergeWalk ((j :: cs).map Int.ofNat) true (ps.map Int.ofNat) 0
      = ((mergePos ps cs).map Int.ofNat, false) := by
  rw [← lowerI_eq_mergePos cs ps hcs hd]
  induction ps with
  | nil => simp only [List.map_cons, List.map_nil, mergeWalk_nil_inp]; rfl
  | cons q ps ih =>
    have hps' := hps
    rw [List.pairwise_cons] at hps'
    have hqj : q ≠ j := fun hh => hj (hh ▸ List.mem_cons_self ..)
    have hj' : j ∉ ps := fun hh => hj (List.mem_cons_of_mem _ hh)
    have hd' : ∀ x ∈ cs, x ∉ ps := fun x hx hh => hd x hx (List.mem_cons_of_mem _ hh)
    by_cases hlt : q < j
    · have hI : Int.ofNat q < Int.ofNat j := by simp only [Int.ofNat_eq_natCast]; omega
      rw [List.map_cons, List.map_cons, mergeWalk_cons_lt _ _ _ _ _ _ hI]
      rw [← List.map_cons, ih hps'.2 hj' hd', lowerI_cons_le]
      · rfl
      · intro c hc
        have := hjc c hc
        omega
    · have hI : Int.ofNat j < Int.ofNat q := by simp only [Int.ofNat_eq_natCast]; omega
      rw [List.map_cons (l := cs), List.map_cons (l := ps), mergeWalk_cons_gt _ _ _ _ _ _ hI]
      simp only [if_true]
      rw [← List.map_cons, mergeWalk_tail_disjoint cs (q :: ps) 0 hcs hps hd]

/-- the first merged position does not appear among the lowered positions -/
theorem not_mem_mergePos_first (ps cs : List Nat) (j : Nat) (hj : j ∉ ps) (hcs : cs.Pairwise (· < ·))
    (hjc : ∀ c ∈ cs, j < c) : j ∉ mergePos ps cs := by
  unfold mergePos
  intro hm
  obtain ⟨p, hp, he⟩ := List.mem_map.mp hm
  have hp' : p ∈ ps := (List.mem_filter.mp hp).1
  have hne : p ≠ j := fun hh => hj (hh ▸ hp')
  by_cases hlt : p < j
  · rw [countLt_eq_zero cs p (fun c hc => by have := hjc c hc; omega)] at he
    omega
  · have := length_add_le_of_sorted (cs.filter (· < p)) (j + 1) p (hcs.filter _) (by omega)
      (by
        intro x hx
        have := hjc x (List.mem_filter.mp hx).1
        omega)
      (by
        intro x hx
        simpa using (List.mem_filter.mp hx).2)
    omega

theorem fixMergeOne_mergePos' (ps cs : List Nat) (acts : List Action) (e j : Nat)
    (hps : ps.Pairwise (· < ·)) (hcs : cs.Pairwise (· < ·)) (hjc : ∀ c ∈ cs, j < c)
    (hje : j < e) (hpe : ∀ p ∈ ps, p < e) (hce : ∀ c ∈ cs, c < e)
    (hcomp : j ∈ ps ∨ ∀ c ∈ cs, c ∉ ps) :
    Shape.fixMergeOne ((j :: cs).map Int.ofNat) ⟨ps.map Int.ofNat, acts, (e : Int)⟩
      = ⟨(mergePos ps cs).map Int.ofNat, acts, ((e - cs.length : Nat) : Int)⟩ := by
  by_cases hj : j ∈ ps
  · exact fixMergeOne_mergePos ps cs acts e j hps hj hcs hjc hpe hce
  · have hd : ∀ c ∈ cs, c ∉ ps := hcomp.resolve_left hj
    have h0 : ¬ ((e : Int) ≤ Int.ofNat j) := by simp only [Int.ofNat_eq_natCast]; omega
    have hw := mergeWalk_mergePos_disjoint ps cs j hps hj hcs hjc hd
    have hlen : cs.length ≤ e := length_le_of_sorted cs e hcs hce
    have hnm : Int.ofNat j ∉ (mergePos ps cs).map Int.ofNat := by
      intro hm
      obtain ⟨q, hq, he⟩ := List.mem_map.mp hm
      simp only [Int.ofNat_eq_natCast] at he
      have : q = j := by omega
      exact not_mem_mergePos_first ps cs j hj hcs hjc (this ▸ hq)
    have hhas : ∀ i : Nat, (((mergePos ps cs).map Int.ofNat)[i]? == some (Int.ofNat j)) = false := by
      intro i
      rw [Bool.eq_false_iff]
      intro hh
      exact hnm (List.mem_of_getElem? (beq_iff_eq.mp hh))
    rw [List.map_cons] at hw ⊢
    simp only [Shape.fixMergeOne, h0, if_false, hw, hhas, Bool.false_and, Bool.and_false, Bool.false_eq_true,
      Bool.not_false, Bool.and_true, if_false, List.length_cons, List.length_map, Nat.add_sub_cancel]
    congr 1
    omega

end SfntV.C06
