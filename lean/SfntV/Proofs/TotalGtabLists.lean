/-
C02 (decoders are total): proofs about the checked-index models of `readLangSysTable`,
`readScriptTable`, `readScriptList`, `readFeatureList` and the header stage of `readGtab`
(`SfntV.Total.GtabLists`): no panic on any bytes, any position, any tag conversion and any sort
function; explicit cost bounds.

Cost summary (|b| = size of the whole table, F = min 65535 (|b|/2), K = |b|/12 + 1, S = |b|/6):
* `readLangSysTable`: steps = 1 + n, alloc = 1 + n for n = featureIndexCount ≤ F: LINEAR.
* `readScriptTable`: steps ≤ 1 + K·(F+3): QUADRATIC (LangSys offsets may alias one LangSys table).
* `readScriptList`: steps ≤ 1 + S·(4 + K·(F+3)): CUBIC (script offsets may alias one script table
  whose LangSys offsets alias one LangSys table).  `aliased_*` below evaluate a member of the
  witness family.
* `readFeatureList`: steps ≤ 98304, alloc ≤ 98303 — a CONSTANT cap: the running `totalSize` test
  (featurelist.go:91) bounds the sum of all lookup counts but the last by 0xFFFF/2, so aliasing
  feature tables cannot multiply the work (`featTables_cost`).
-/
import SfntV.Model.TotalGtabLists
import SfntV.Proofs.TotalGdef

namespace SfntV.Total.GtabLists
open SfntV SfntV.Total SfntV.Total.Gdef

/-! ## reads -/

theorem readU16_noPanic (site : String) (b : Bytes) (q : Nat) : (readU16 site b q).noPanic := by
  unfold readU16
  refine bind_noPanic (readBytes_noPanic _ _ _ _ (by omega)) (fun w hw => ?_)
  obtain ⟨hl, _⟩ := readBytes_ok_length hw
  obtain ⟨v, hv, _⟩ := w16_ok site w 0 (by omega)
  rw [hv]; exact True.intro

theorem readU16_ok {site : String} {b : Bytes} {q v : Nat} (h : readU16 site b q = .ok v) :
    v < 65536 ∧ q + 2 ≤ b.length := by
  unfold readU16 at h
  obtain ⟨w, hw, h⟩ := bind_eq_ok h
  exact ⟨w16_lt h, (readBytes_ok_length hw).2⟩

theorem slice_ok (site : String) (xs : List α) (lo hi : Nat) (h : lo ≤ hi ∧ hi ≤ xs.length) :
    slice site xs lo hi = .ok ((xs.drop lo).take (hi - lo)) := by
  unfold slice
  rw [if_pos h]

theorem setIdx_ok (site : String) (xs : List α) (i : Nat) (v : α) (h : i < xs.length) :
    setIdx site xs i v = .ok (xs.set i v) := by
  unfold setIdx
  rw [if_pos h]

/-- a 6-byte (tag, offset) record: the slice and the offset word succeed -/
theorem rec6_ok (s4 so : String) {site : String} {b : Bytes} {q : Nat} {buf : Bytes}
    (h : readBytes site b q 6 = .ok buf) :
    ∃ tag off, slice s4 buf 0 4 = .ok tag ∧ w16 so buf 4 = .ok off ∧ off < 65536 ∧
      q + 6 ≤ b.length := by
  obtain ⟨hl, hq⟩ := readBytes_ok_length h
  obtain ⟨off, ho, ho'⟩ := w16_ok so buf 4 (by omega)
  exact ⟨_, off, slice_ok s4 buf 0 4 (by omega), ho, ho', hq⟩

/-! ## readLangSysTable -/

theorem langSysLoop_noPanic (b : Bytes) : ∀ (n q i : Nat) (fi : List Nat) (c : Cost),
    i + n ≤ fi.length → (langSysLoop b n q i fi c).noPanic
  | 0, _, _, _, _, _ => True.intro
  | n+1, q, i, fi, c, h => by
    unfold langSysLoop
    refine bind_noPanic (readU16_noPanic _ _ _) (fun v _ => ?_)
    split
    · exact langSysLoop_noPanic b n (q + 2) (i + 1) fi c.tick (by omega)
    · rw [setIdx_ok _ fi i v (by omega), ok_bind]
      exact langSysLoop_noPanic b n (q + 2) (i + 1) _ c.tick (by rw [List.length_set]; omega)

theorem langSysLoop_ok (b : Bytes) : ∀ (n q i : Nat) (fi : List Nat) (c : Cost) (r : List Nat)
    (c' : Cost), langSysLoop b n q i fi c = .ok (r, c') →
    r.length = fi.length ∧ c'.steps = c.steps + n ∧ c'.alloc = c.alloc ∧
      (n = 0 ∨ q + 2 * n ≤ b.length)
  | 0, _, _, _, _, _, _, h => by
    unfold langSysLoop at h
    cases h
    simp
  | n+1, q, i, fi, c, r, c', h => by
    unfold langSysLoop at h
    obtain ⟨v, hv, h⟩ := bind_eq_ok h
    obtain ⟨_, hq⟩ := readU16_ok hv
    split at h
    · have ih := langSysLoop_ok b n (q + 2) (i + 1) fi c.tick r c' h
      simp only [Cost.tick] at ih
      omega
    · obtain ⟨fi', hfi, h⟩ := bind_eq_ok h
      have hl : fi'.length = fi.length := by
        unfold setIdx at hfi
        split at hfi
        · cases hfi; rw [List.length_set]
        · cases hfi
      have ih := langSysLoop_ok b n (q + 2) (i + 1) fi' c.tick r c' h
      simp only [Cost.tick] at ih
      omega

/-- `readLangSysTable` never panics -/
theorem readLangSysTable_noPanic (b : Bytes) (pos : Nat) : (readLangSysTable b pos).noPanic := by
  unfold readLangSysTable
  refine bind_noPanic (readBytes_noPanic _ _ _ _ (by omega)) (fun data hd => ?_)
  obtain ⟨hl, _⟩ := readBytes_ok_length hd
  obtain ⟨v0, h0, _⟩ := w16_ok "scriptlist.go:181#data[0],data[1]" data 0 (by omega)
  obtain ⟨v1, h1, _⟩ := w16_ok "scriptlist.go:182#data[2],data[3]" data 2 (by omega)
  obtain ⟨v2, h2, h2'⟩ := w16_ok "scriptlist.go:183#data[4],data[5]" data 4 (by omega)
  rw [h0, ok_bind, h1, ok_bind, h2, ok_bind]
  split
  · exact True.intro
  · rw [mkSlice_ok _ v2 _ h2', ok_bind]
    refine bind_noPanic (langSysLoop_noPanic b v2 (pos + 6) 0 _ _ (by simp)) (fun r _ => ?_)
    exact True.intro

/-- cost of `readLangSysTable`: exactly one read per feature index; LINEAR in the input -/
theorem readLangSysTable_cost (b : Bytes) (pos : Nat) (ff : Features) (c : Cost)
    (h : readLangSysTable b pos = .ok (ff, c)) :
    c.steps = 1 + ff.optional.length ∧ c.alloc = 1 + ff.optional.length ∧
      ff.optional.length ≤ 65535 ∧ pos + 6 + 2 * ff.optional.length ≤ b.length := by
  unfold readLangSysTable at h
  obtain ⟨data, hd, h⟩ := bind_eq_ok h
  obtain ⟨_, hq⟩ := readBytes_ok_length hd
  obtain ⟨v0, _, h⟩ := bind_eq_ok h
  obtain ⟨v1, _, h⟩ := bind_eq_ok h
  obtain ⟨v2, h2, h⟩ := bind_eq_ok h
  have h2' := w16_lt h2
  split at h
  · cases h
  · rw [mkSlice_ok _ v2 _ h2', ok_bind] at h
    obtain ⟨⟨fi, c1⟩, hl, h⟩ := bind_eq_ok h
    have := langSysLoop_ok b v2 (pos + 6) 0 _ _ fi c1 hl
    cases h
    simp only [List.length_replicate, Cost.mem, Cost.tick, Cost.zero] at this ⊢
    omega

/-- the linear clause for `readLangSysTable`: steps, alloc ≤ |b|/2 + 1 -/
theorem readLangSysTable_linear (b : Bytes) (pos : Nat) (ff : Features) (c : Cost)
    (h : readLangSysTable b pos = .ok (ff, c)) :
    c.steps ≤ b.length / 2 + 1 ∧ c.alloc ≤ b.length / 2 + 1 := by
  have := readLangSysTable_cost b pos ff c h
  omega

/-- the largest feature-index count a LangSys table inside `b` can have -/
def maxFI (b : Bytes) : Nat := min 65535 (b.length / 2)

theorem readLangSysTable_le (b : Bytes) (pos : Nat) (ff : Features) (c : Cost)
    (h : readLangSysTable b pos = .ok (ff, c)) :
    c.steps ≤ 1 + maxFI b ∧ c.alloc ≤ 1 + maxFI b := by
  have := readLangSysTable_cost b pos ff c h
  unfold maxFI
  omega

/-! ## tag records -/

theorem tagRecs_noPanic (s6 s4 so : String) (b : Bytes) :
    ∀ (n q : Nat) (acc : List (Bytes × Nat)) (c : Cost), (tagRecs s6 s4 so b n q acc c).noPanic
  | 0, _, _, _ => True.intro
  | n+1, q, acc, c => by
    unfold tagRecs
    refine bind_noPanic (readBytes_noPanic _ _ _ _ (by omega)) (fun buf hb => ?_)
    obtain ⟨tag, off, ht, ho, _, _⟩ := rec6_ok s4 so hb
    rw [ht, ok_bind, ho, ok_bind]
    exact tagRecs_noPanic s6 s4 so b n (q + 6) _ _

theorem tagRecs_ok (s6 s4 so : String) (b : Bytes) :
    ∀ (n q : Nat) (acc : List (Bytes × Nat)) (c : Cost) (r : List (Bytes × Nat)) (c' : Cost),
    tagRecs s6 s4 so b n q acc c = .ok (r, c') →
    r.length = acc.length + n ∧ c'.steps = c.steps + n ∧ c'.alloc = c.alloc + n ∧
      (n = 0 ∨ q + 6 * n ≤ b.length)
  | 0, _, acc, c, r, c', h => by
    unfold tagRecs at h
    cases h
    simp
  | n+1, q, acc, c, r, c', h => by
    unfold tagRecs at h
    obtain ⟨buf, hb, h⟩ := bind_eq_ok h
    obtain ⟨_, hq⟩ := readBytes_ok_length hb
    obtain ⟨tag, _, h⟩ := bind_eq_ok h
    obtain ⟨off, _, h⟩ := bind_eq_ok h
    have ih := tagRecs_ok s6 s4 so b n (q + 6) _ _ r c' h
    simp only [List.length_cons, Cost.tick, Cost.mem] at ih
    omega

/-! ## readScriptTable -/

theorem scriptLangs_noPanic (conv : Bytes → Bytes → Option τ) (b : Bytes) (script : Bytes)
    (pos : Nat) : ∀ (recs : List (Bytes × Nat)) (info : List (τ × Features)) (c : Cost),
    (scriptLangs conv b script pos recs info c).noPanic
  | [], _, _ => True.intro
  | (lang, off) :: rest, info, c => by
    unfold scriptLangs
    refine bind_noPanic (readLangSysTable_noPanic b _) (fun r _ => ?_)
    obtain ⟨ff, d⟩ := r
    dsimp only
    split
    · exact scriptLangs_noPanic conv b script pos rest _ _
    · exact scriptLangs_noPanic conv b script pos rest _ _

/-- `readScriptTable` never panics: any bytes, position, script tag, map, conversion, sort -/
theorem readScriptTable_noPanic (conv : Bytes → Bytes → Option τ)
    (srt : List (Bytes × Nat) → List (Bytes × Nat)) (b : Bytes) (script : Bytes) (pos : Nat)
    (info : List (τ × Features)) : (readScriptTable conv srt b script pos info).noPanic := by
  unfold readScriptTable
  refine bind_noPanic (readBytes_noPanic _ _ _ _ (by omega)) (fun data hd => ?_)
  obtain ⟨hl, _⟩ := readBytes_ok_length hd
  obtain ⟨v0, h0, _⟩ := w16_ok "scriptlist.go:110#data[0],data[1]" data 0 (by omega)
  obtain ⟨v1, h1, _⟩ := w16_ok "scriptlist.go:111#data[2],data[3]" data 2 (by omega)
  rw [h0, ok_bind, h1, ok_bind]
  split
  · exact True.intro
  · split
    · exact True.intro
    · refine bind_noPanic (tagRecs_noPanic _ _ _ b _ _ _ _) (fun r _ => ?_)
      exact scriptLangs_noPanic conv b script pos _ _ _

theorem scriptLangs_cost (conv : Bytes → Bytes → Option τ) (b : Bytes) (script : Bytes)
    (pos : Nat) : ∀ (recs : List (Bytes × Nat)) (info : List (τ × Features)) (c : Cost)
    (info' : List (τ × Features)) (c' : Cost),
    scriptLangs conv b script pos recs info c = .ok (info', c') →
    c'.steps ≤ c.steps + recs.length * (maxFI b + 2) ∧
      c'.alloc ≤ c.alloc + recs.length * (maxFI b + 2)
  | [], _, c, _, c', h => by
    unfold scriptLangs at h
    cases h
    simp
  | (lang, off) :: rest, info, c, info', c', h => by
    unfold scriptLangs at h
    obtain ⟨⟨ff, d⟩, hls, h⟩ := bind_eq_ok h
    have hd := readLangSysTable_le b _ ff d hls
    dsimp only at h
    have key : ∀ (info1 : List (τ × Features)) (c1 : Cost),
        scriptLangs conv b script pos rest info1 c1 = .ok (info', c') →
        c1.steps ≤ c.steps + (maxFI b + 2) → c1.alloc ≤ c.alloc + (maxFI b + 2) →
        c'.steps ≤ c.steps + (rest.length + 1) * (maxFI b + 2) ∧
          c'.alloc ≤ c.alloc + (rest.length + 1) * (maxFI b + 2) := by
      intro info1 c1 h1 hs ha
      have ih := scriptLangs_cost conv b script pos rest info1 c1 info' c' h1
      rw [Nat.add_mul, Nat.one_mul]
      omega
    rw [List.length_cons]
    split at h
    · exact key _ _ h (by simp only [addCost, Cost.tick]; omega)
        (by simp only [addCost, Cost.tick]; omega)
    · exact key _ _ h (by simp only [addCost, Cost.tick, Cost.mem]; omega)
        (by simp only [addCost, Cost.tick, Cost.mem]; omega)

/-- cost of one `readScriptTable` call: at most `|b|/12 + 1` LangSys records (the code's test
`8+12·langSysCount ≤ p.Size()`), each a full LangSys visit: QUADRATIC in the input size -/
theorem readScriptTable_cost (conv : Bytes → Bytes → Option τ)
    (srt : List (Bytes × Nat) → List (Bytes × Nat)) (hsrt : ∀ l, (srt l).length = l.length)
    (b : Bytes) (script : Bytes) (pos : Nat) (info info' : List (τ × Features)) (c : Cost)
    (h : readScriptTable conv srt b script pos info = .ok (info', c)) :
    c.steps ≤ 1 + (b.length / 12 + 1) * (maxFI b + 3) ∧
      c.alloc ≤ (b.length / 12 + 1) * (maxFI b + 3) := by
  unfold readScriptTable at h
  obtain ⟨data, hd, h⟩ := bind_eq_ok h
  obtain ⟨v0, _, h⟩ := bind_eq_ok h
  obtain ⟨v1, _, h⟩ := bind_eq_ok h
  split at h
  · cases h
  · split at h
    · cases h
    · rename_i hsize
      have hr0 : (if v0 ≠ 0 then [(([] : Bytes), v0)] else []).length ≤ 1 := by
        split <;> simp
      generalize (if v0 ≠ 0 then [(([] : Bytes), v0)] else []) = recs0 at h hr0
      obtain ⟨⟨records, c1⟩, hr, h⟩ := bind_eq_ok h
      have hrec := tagRecs_ok _ _ _ b _ _ _ _ records c1 hr
      have hsl := scriptLangs_cost conv b script pos (srt records) info c1 info' c h
      rw [hsrt] at hsl
      -- number of records ≤ langSysCount + 1 ≤ |b|/12 + 1
      have hL : v1 ≤ b.length / 12 := by omega
      have hlen : records.length ≤ b.length / 12 + 1 ∧ c1.steps ≤ 1 + b.length / 12 ∧
          c1.alloc ≤ b.length / 12 + 1 := by
        simp only [Cost.tick, Cost.mem, Cost.zero] at hrec
        omega
      have hm : records.length * (maxFI b + 2) ≤ (b.length / 12 + 1) * (maxFI b + 2) :=
        Nat.mul_le_mul_right _ hlen.1
      have he : (b.length / 12 + 1) * (maxFI b + 3) =
          (b.length / 12 + 1) * (maxFI b + 2) + (b.length / 12 + 1) := by
        rw [show maxFI b + 3 = (maxFI b + 2) + 1 from rfl, Nat.mul_add, Nat.mul_one]
      omega

/-! ## readScriptList -/

theorem scripts_noPanic (conv : Bytes → Bytes → Option τ)
    (srt : List (Bytes × Nat) → List (Bytes × Nat)) (b : Bytes) (pos : Nat) :
    ∀ (recs : List (Bytes × Nat)) (info : List (τ × Features)) (c : Cost),
    (scripts conv srt b pos recs info c).noPanic
  | [], _, _ => True.intro
  | (script, off) :: rest, info, c => by
    unfold scripts
    refine bind_noPanic (readScriptTable_noPanic conv srt b script _ info) (fun r _ => ?_)
    exact scripts_noPanic conv srt b pos rest _ _

/-- `readScriptList` never panics: any bytes, position, conversion, sort -/
theorem readScriptList_noPanic (conv : Bytes → Bytes → Option τ)
    (srt : List (Bytes × Nat) → List (Bytes × Nat)) (b : Bytes) (pos : Nat) :
    (readScriptList conv srt b pos).noPanic := by
  unfold readScriptList
  refine bind_noPanic (readU16_noPanic _ _ _) (fun n _ => ?_)
  split
  · exact True.intro
  · refine bind_noPanic (tagRecs_noPanic _ _ _ b _ _ _ _) (fun r _ => ?_)
    obtain ⟨entries, c⟩ := r
    dsimp only
    split
    · exact True.intro
    · exact scripts_noPanic conv srt b pos _ _ _

theorem scripts_cost (conv : Bytes → Bytes → Option τ)
    (srt : List (Bytes × Nat) → List (Bytes × Nat)) (hsrt : ∀ l, (srt l).length = l.length)
    (b : Bytes) (pos : Nat) (T : Nat) (hT : T = (b.length / 12 + 1) * (maxFI b + 3)) :
    ∀ (recs : List (Bytes × Nat)) (info : List (τ × Features)) (c : Cost)
    (info' : List (τ × Features)) (c' : Cost),
    scripts conv srt b pos recs info c = .ok (info', c') →
    c'.steps ≤ c.steps + recs.length * (T + 2) ∧ c'.alloc ≤ c.alloc + recs.length * T
  | [], _, c, _, c', h => by
    unfold scripts at h
    cases h
    simp
  | (script, off) :: rest, info, c, info', c', h => by
    unfold scripts at h
    obtain ⟨⟨info1, d⟩, hst, h⟩ := bind_eq_ok h
    have hd := readScriptTable_cost conv srt hsrt b script _ info info1 d hst
    rw [← hT] at hd
    have ih := scripts_cost conv srt hsrt b pos T hT rest info1 _ info' c' h
    simp only [addCost, Cost.tick] at ih
    rw [List.length_cons, Nat.add_mul, Nat.add_mul, Nat.one_mul, Nat.one_mul]
    omega

/-- cost of `readScriptList`: at most `|b|/6` script records, each a full script-table visit:
CUBIC in the input size (S·K·F with S = |b|/6, K = |b|/12+1, F = min 65535 (|b|/2)) -/
theorem readScriptList_cost (conv : Bytes → Bytes → Option τ)
    (srt : List (Bytes × Nat) → List (Bytes × Nat)) (hsrt : ∀ l, (srt l).length = l.length)
    (b : Bytes) (pos : Nat) (info : List (τ × Features)) (c : Cost)
    (h : readScriptList conv srt b pos = .ok (info, c)) :
    c.steps ≤ 1 + (b.length / 6) * (4 + (b.length / 12 + 1) * (maxFI b + 3)) ∧
      c.alloc ≤ 1 + (b.length / 6) * (1 + (b.length / 12 + 1) * (maxFI b + 3)) := by
  unfold readScriptList at h
  obtain ⟨n, hn, h⟩ := bind_eq_ok h
  split at h
  · cases h
  · rename_i hsize
    obtain ⟨⟨entries, c1⟩, he, h⟩ := bind_eq_ok h
    have hrec := tagRecs_ok _ _ _ b _ _ _ _ entries c1 he
    dsimp only at h
    split at h
    · cases h
    · have hs := scripts_cost conv srt hsrt b pos _ rfl (srt entries) [] _ info c h
      rw [hsrt] at hs
      simp only [List.length_nil, Cost.tick, Cost.mem, Cost.zero] at hrec hs
      have hS : entries.length ≤ b.length / 6 := by omega
      generalize (b.length / 12 + 1) * (maxFI b + 3) = T at hs ⊢
      have h1 : entries.length * (T + 2) ≤ (b.length / 6) * (T + 2) := Nat.mul_le_mul_right _ hS
      have h2 : entries.length * T ≤ (b.length / 6) * T := Nat.mul_le_mul_right _ hS
      have e1 : (b.length / 6) * (4 + T) = (b.length / 6) * (T + 2) + 2 * (b.length / 6) := by
        rw [show 4 + T = (T + 2) + 2 from by omega, Nat.mul_add, Nat.mul_comm _ 2]
      have e2 : (b.length / 6) * (1 + T) = (b.length / 6) * T + (b.length / 6) := by
        rw [Nat.mul_add, Nat.mul_one, Nat.add_comm]
      omega

/-! ## readFeatureList -/

theorem featLookups_noPanic (b : Bytes) : ∀ (n q : Nat) (acc : List Nat) (c : Cost),
    (featLookups b n q acc c).noPanic
  | 0, _, _, _ => True.intro
  | n+1, q, acc, c => by
    unfold featLookups
    refine bind_noPanic (readU16_noPanic _ _ _) (fun v _ => ?_)
    exact featLookups_noPanic b n (q + 2) _ _

theorem featLookups_ok (b : Bytes) : ∀ (n q : Nat) (acc : List Nat) (c : Cost) (r : List Nat)
    (c' : Cost), featLookups b n q acc c = .ok (r, c') →
    r.length = acc.length + n ∧ c'.steps = c.steps + n ∧ c'.alloc = c.alloc + n
  | 0, _, acc, c, r, c', h => by
    unfold featLookups at h
    cases h
    simp
  | n+1, q, acc, c, r, c', h => by
    unfold featLookups at h
    obtain ⟨v, _, h⟩ := bind_eq_ok h
    have ih := featLookups_ok b n (q + 2) _ _ r c' h
    simp only [List.length_cons, Cost.tick, Cost.mem] at ih
    omega

theorem featTables_noPanic (b : Bytes) (pos : Nat) : ∀ (recs : List (Bytes × Nat)) (total : Nat)
    (acc : List Feature) (c : Cost), (featTables b pos recs total acc c).noPanic
  | [], _, _, _ => True.intro
  | (tag, offs) :: rest, total, acc, c => by
    unfold featTables
    refine bind_noPanic (readBytes_noPanic _ _ _ _ (by omega)) (fun buf hb => ?_)
    obtain ⟨hl, _⟩ := readBytes_ok_length hb
    obtain ⟨v, hv, _⟩ := w16_ok "featurelist.go:89#buf[2],buf[3]" buf 2 (by omega)
    rw [hv, ok_bind]
    split
    · exact True.intro
    · refine bind_noPanic (featLookups_noPanic b _ _ _ _) (fun r _ => ?_)
      exact featTables_noPanic b pos rest _ _ _

/-- `readFeatureList` never panics -/
theorem readFeatureList_noPanic (b : Bytes) (pos : Nat) : (readFeatureList b pos).noPanic := by
  unfold readFeatureList
  refine bind_noPanic (readU16_noPanic _ _ _) (fun n _ => ?_)
  refine bind_noPanic (tagRecs_noPanic _ _ _ b _ _ _ _) (fun r _ => ?_)
  exact featTables_noPanic b pos _ _ _ _

/-- cost of the feature-table loop: 2 steps and 2 allocations per feature plus the `L` lookup
indices read in total — and the running `totalSize` test caps `L`: every feature but the last is
reached with `totalSize ≤ 0xFFFF`, so `total + 4·features + 2·L ≤ 0xFFFF + 4 + 2·0xFFFF`. -/
theorem featTables_cost (b : Bytes) (pos : Nat) : ∀ (recs : List (Bytes × Nat)) (total : Nat)
    (acc : List Feature) (c : Cost) (r : List Feature) (c' : Cost),
    featTables b pos recs total acc c = .ok (r, c') →
    ∃ L, c'.steps = c.steps + 2 * recs.length + L ∧ c'.alloc = c.alloc + 2 * recs.length + L ∧
      (recs = [] → L = 0) ∧ (recs ≠ [] → total + 4 * recs.length + 2 * L ≤ 196609)
  | [], _, _, c, r, c', h => by
    unfold featTables at h
    cases h
    exact ⟨0, by simp⟩
  | (tag, offs) :: rest, total, acc, c, r, c', h => by
    unfold featTables at h
    obtain ⟨buf, _, h⟩ := bind_eq_ok h
    obtain ⟨cnt, hc, h⟩ := bind_eq_ok h
    have hc' := w16_lt hc
    split at h
    · cases h
    · rename_i htot
      obtain ⟨⟨lk, c1⟩, hlk, h⟩ := bind_eq_ok h
      have h1 := featLookups_ok b cnt _ [] _ lk c1 hlk
      obtain ⟨L, hs, ha, h0, hne⟩ := featTables_cost b pos rest _ _ _ r c' h
      simp only [Cost.tick, Cost.mem, List.length_nil] at h1 hs ha
      refine ⟨cnt + L, ?_, ?_, ?_, ?_⟩
      · rw [List.length_cons]; omega
      · rw [List.length_cons]; omega
      · intro hnil; cases hnil
      · intro _
        rw [List.length_cons]
        cases rest with
        | nil =>
          have := h0 rfl
          simp only [List.length_nil]
          omega
        | cons x xs =>
          have := hne (by simp)
          omega

/-- cost of `readFeatureList`: bounded by a CONSTANT (98304 steps, 98303 allocations) whatever the
input, aliased offsets included -/
theorem readFeatureList_cost (b : Bytes) (pos : Nat) (r : List Feature) (c : Cost)
    (h : readFeatureList b pos = .ok (r, c)) : c.steps ≤ 98304 ∧ c.alloc ≤ 98303 := by
  unfold readFeatureList at h
  obtain ⟨n, _, h⟩ := bind_eq_ok h
  obtain ⟨⟨recs, c1⟩, hr, h⟩ := bind_eq_ok h
  have hrec := tagRecs_ok _ _ _ b _ _ _ _ recs c1 hr
  obtain ⟨L, hs, ha, h0, hne⟩ := featTables_cost b pos recs _ _ _ r c h
  simp only [List.length_nil, Cost.tick, Cost.mem, Cost.zero] at hrec hs ha
  cases hrecs : recs with
  | nil =>
    have := h0 hrecs
    rw [hrecs] at hrec hs ha
    simp only [List.length_nil] at hrec hs ha
    omega
  | cons x xs =>
    have := hne (by rw [hrecs]; simp)
    omega

/-- the feature list is also cheap on small inputs: `3·|b|/6` record steps plus the lookups -/
theorem readFeatureList_records (b : Bytes) (pos : Nat) (r : List Feature) (c : Cost)
    (h : readFeatureList b pos = .ok (r, c)) : 6 * r.length ≤ b.length := by
  unfold readFeatureList at h
  obtain ⟨n, _, h⟩ := bind_eq_ok h
  obtain ⟨⟨recs, c1⟩, hr, h⟩ := bind_eq_ok h
  have hrec := tagRecs_ok _ _ _ b _ _ _ _ recs c1 hr
  have : ∀ (recs : List (Bytes × Nat)) (total : Nat) (acc : List Feature) (c : Cost)
      (r : List Feature) (c' : Cost), featTables b pos recs total acc c = .ok (r, c') →
      r.length = acc.length + recs.length := by
    intro recs
    induction recs with
    | nil =>
      intro total acc c r c' h
      unfold featTables at h
      cases h
      simp
    | cons x xs ih =>
      intro total acc c r c' h
      obtain ⟨tag, offs⟩ := x
      unfold featTables at h
      obtain ⟨buf, _, h⟩ := bind_eq_ok h
      obtain ⟨cnt, _, h⟩ := bind_eq_ok h
      split at h
      · cases h
      · obtain ⟨⟨lk, c1⟩, _, h⟩ := bind_eq_ok h
        have := ih _ _ _ _ _ h
        simp only [List.length_cons] at this ⊢
        omega
  have hl := this _ _ _ _ _ _ h
  simp only [List.length_nil] at hl hrec
  omega

/-! ## readGtab -/

/-- the header stage of `readGtab` never panics, for any non-panicking lookup-list reader -/
theorem readGtab_noPanic (conv : Bytes → Bytes → Option τ)
    (srt : List (Bytes × Nat) → List (Bytes × Nat)) (ll : Nat → Outcome (ι × Cost))
    (hll : ∀ p, (ll p).noPanic) (b : Bytes) : (readGtab conv srt ll b).noPanic := by
  unfold readGtab
  have hrf : ∀ w, readFull b 0 10 = .ok w → w.length = 10 := by
    intro w hw
    unfold readFull at hw
    split at hw
    · cases hw
      simp only [List.length_take, List.length_drop]
      omega
    · cases hw
  refine bind_noPanic (by unfold readFull; split <;> exact True.intro) (fun hd hh => ?_)
  have hl := hrf hd hh
  obtain ⟨v0, h0, _⟩ := w16_ok "gtab.go:97#binary.Read" hd 0 (by omega)
  obtain ⟨v1, h1, _⟩ := w16_ok "gtab.go:97#binary.Read" hd 2 (by omega)
  obtain ⟨v2, h2, _⟩ := w16_ok "gtab.go:97#binary.Read" hd 4 (by omega)
  obtain ⟨v3, h3, _⟩ := w16_ok "gtab.go:97#binary.Read" hd 6 (by omega)
  obtain ⟨v4, h4, _⟩ := w16_ok "gtab.go:97#binary.Read" hd 8 (by omega)
  rw [h0, ok_bind, h1, ok_bind, h2, ok_bind, h3, ok_bind, h4, ok_bind]
  split
  · exact True.intro
  · refine bind_noPanic ?_ (fun r _ => ?_)
    · split
      · refine bind_noPanic (readBytes_noPanic _ _ _ _ (by omega)) (fun w hw => ?_)
        obtain ⟨hwl, _⟩ := readBytes_ok_length hw
        obtain ⟨v, hv⟩ := w32_ok "gtab.go:110#ReadUint32" w 0 (by omega)
        rw [hv]; exact True.intro
      · exact True.intro
    · obtain ⟨fvo, eoh, c⟩ := r
      dsimp only
      split
      · exact True.intro
      · split
        · exact True.intro
        · split
          · exact True.intro
          · refine bind_noPanic (readScriptList_noPanic conv srt b _) (fun r1 _ => ?_)
            refine bind_noPanic (readFeatureList_noPanic b _) (fun r2 _ => ?_)
            refine bind_noPanic (hll _) (fun r3 _ => ?_)
            exact True.intro

/-- cost of the header stage: 5 steps and 2 allocations of its own plus the three list readers -/
theorem readGtab_cost (conv : Bytes → Bytes → Option τ)
    (srt : List (Bytes × Nat) → List (Bytes × Nat)) (hsrt : ∀ l, (srt l).length = l.length)
    (ll : Nat → Outcome (ι × Cost)) (C : Nat)
    (hll : ∀ p v d, ll p = .ok (v, d) → d.steps ≤ C ∧ d.alloc ≤ C)
    (b : Bytes) (info : Info τ ι) (c : Cost) (h : readGtab conv srt ll b = .ok (info, c)) :
    c.steps ≤ 5 + (1 + (b.length / 6) * (4 + (b.length / 12 + 1) * (maxFI b + 3))) + 98304 + C ∧
      c.alloc ≤ 2 + (1 + (b.length / 6) * (1 + (b.length / 12 + 1) * (maxFI b + 3))) + 98303 + C := by
  unfold readGtab at h
  obtain ⟨hd, _, h⟩ := bind_eq_ok h
  obtain ⟨v0, _, h⟩ := bind_eq_ok h
  obtain ⟨v1, _, h⟩ := bind_eq_ok h
  obtain ⟨v2, _, h⟩ := bind_eq_ok h
  obtain ⟨v3, _, h⟩ := bind_eq_ok h
  obtain ⟨v4, _, h⟩ := bind_eq_ok h
  split at h
  · cases h
  · obtain ⟨⟨fvo, eoh, c0⟩, hv, h⟩ := bind_eq_ok h
    have hc0 : c0.steps ≤ 2 ∧ c0.alloc = 0 := by
      split at hv
      · obtain ⟨w, _, hv⟩ := bind_eq_ok hv
        obtain ⟨v, _, hv⟩ := bind_eq_ok hv
        cases hv
        simp [Cost.tick, Cost.zero]
      · cases hv
        simp [Cost.tick, Cost.zero]
    dsimp only at h
    split at h
    · cases h
      simp only [Cost.mem]
      omega
    · split at h
      · cases h
      · split at h
        · cases h
        · obtain ⟨⟨sl, d1⟩, h1, h⟩ := bind_eq_ok h
          obtain ⟨⟨fl, d2⟩, h2, h⟩ := bind_eq_ok h
          obtain ⟨⟨lk, d3⟩, h3, h⟩ := bind_eq_ok h
          have c1 := readScriptList_cost conv srt hsrt b _ sl d1 h1
          have c2 := readFeatureList_cost b _ fl d2 h2
          have c3 := hll _ lk d3 h3
          cases h
          simp only [addCost, Cost.tick, Cost.mem]
          omega

/-! ## non-vacuity and the aliasing witness -/

/-- a tag conversion for the examples: every pair converts to itself -/
def convId (s l : Bytes) : Option (Bytes × Bytes) := some (s, l)

/-- the stable (insertion) sort by offset — what `sort.Slice` does for up to 12 elements -/
def insOff (x : Bytes × Nat) : List (Bytes × Nat) → List (Bytes × Nat)
  | [] => [x]
  | y :: ys => if x.2 ≤ y.2 then x :: y :: ys else y :: insOff x ys

def srtM (l : List (Bytes × Nat)) : List (Bytes × Nat) := l.foldr insOff []

theorem insOff_length (x : Bytes × Nat) (l : List (Bytes × Nat)) :
    (insOff x l).length = l.length + 1 := by
  induction l with
  | nil => rfl
  | cons y ys ih =>
    unfold insOff
    split
    · rfl
    · simp only [List.length_cons, ih]

theorem srtM_length (l : List (Bytes × Nat)) : (srtM l).length = l.length := by
  induction l with
  | nil => rfl
  | cons x xs ih =>
    show (insOff x (srtM xs)).length = _
    rw [insOff_length, ih, List.length_cons]

/-- LangSys table: no reordering, required feature 2, feature indices 5 and (0xFFFF ↦ 0) -/
example : readLangSysTable [0,0, 0,2, 0,2, 0,5, 0xFF,0xFF] 0 = .ok (⟨2, [5, 0]⟩, ⟨3, 3⟩) := by
  decide

/-- script list: one script `latn` with a default LangSys (offset 4) -/
def sl1 : Bytes := [0,1, 0x6c,0x61,0x74,0x6e, 0,8,   0,4, 0,0,   0,0, 0xFF,0xFF, 0,1, 0,7]

example : readScriptTable convId srtM sl1 [0x6c,0x61,0x74,0x6e] 8 [] =
    .ok ([(([0x6c,0x61,0x74,0x6e], []), ⟨0xFFFF, [7]⟩)], ⟨4, 4⟩) := by decide

example : readScriptList convId srtM sl1 0 =
    .ok ([(([0x6c,0x61,0x74,0x6e], []), ⟨0xFFFF, [7]⟩)], ⟨8, 6⟩) := by decide

/-- feature list: `liga` with lookups 0 and 3 -/
example : readFeatureList [0,1, 0x6c,0x69,0x67,0x61, 0,8,  0,0, 0,2, 0,0, 0,3] 0 =
    .ok ([⟨[0x6c,0x69,0x67,0x61], [0, 3]⟩], ⟨6, 6⟩) := by decide

/-- the steps of an outcome -/
def stepsOf : Outcome (α × Cost) → Option Nat
  | .ok (_, c) => some c.steps
  | _ => none

/-- the aliasing witness family: `s` script records → ONE script table with `l` LangSys records →
ONE LangSys table with `f` feature indices; `6s + 6l + 2f + 12` bytes -/
def aliased (s l f : Nat) : Bytes :=
  be16 s ++ (List.replicate s ([0x6c,0x61,0x74,0x6e] ++ be16 (2 + 6 * s))).flatten ++
  [0, 0] ++ be16 l ++ (List.replicate l ([0x45,0x4e,0x47,0x20] ++ be16 (4 + 6 * l))).flatten ++
  [0, 0, 0xFF, 0xFF] ++ be16 f ++ (List.replicate f [0, 1]).flatten

/-- 64 bytes, 3·4 LangSys visits: the step count is `1 + 2s + s·(2 + l + l·(2+f))`, the product of
the three counts, not their sum -/
theorem aliased_3_4_5 : (aliased 3 4 5).length = 64 ∧
    stepsOf (readScriptList convId srtM (aliased 3 4 5) 0) = some (1 + 2*3 + 3*(2 + 4 + 4*(2+5))) := by
  decide

theorem aliased_6_8_10 : (aliased 6 8 10).length = 116 ∧
    stepsOf (readScriptList convId srtM (aliased 6 8 10) 0) = some (1 + 2*6 + 6*(2 + 8 + 8*(2+10))) := by
  decide

end SfntV.Total.GtabLists
