/-
C06: the scan of one lookup and the sequence of lookups — engine model = reference shaper,
given agreement of every subtable of the lookup at every position (`SubEq`).
-/
import SfntV.Proofs.ShapeSpecBase
import SfntV.Proofs.ShapeSafe

namespace SfntV.C06
open SfntV
open SfntV.Shape (Glyph Gdef Lookup LookupList Subtable St Nested)
open SfntV.Spec.Shape (TG gl SubEq Hit keepOf)

/-- agreement of "the first subtable that applies" -/
def AtEq (kp : Nat → Bool) (gd : Gdef) (pre : List TG) (cur : TG) (post : List TG) (ss : List Subtable) : Prop :=
  let seq := gl (pre.reverse ++ cur :: post)
  match Spec.Shape.firstHit kp gd pre cur post post.length ss with
  | .error _ => True
  | .ok none => Shape.applyAt kp ⟨seq, []⟩ pre.length seq.length ss = .ok none
  | .ok (some (.done dn rest)) =>
    Shape.applyAt kp ⟨seq, []⟩ pre.length seq.length ss
      = .ok (some (⟨gl (pre.reverse ++ dn ++ rest), []⟩, pre.length + dn.length))
  | .ok (some (.ctx _ _)) => False

theorem atEq_of_subEq (kp : Nat → Bool) (gd : Gdef) (pre : List TG) (cur : TG) (post : List TG) :
    ∀ (ss : List Subtable), (∀ s ∈ ss, SubEq kp gd pre cur post s) → AtEq kp gd pre cur post ss := by
  intro ss
  induction ss with
  | nil => intro _; simp [AtEq, Spec.Shape.firstHit, Shape.applyAt, pure, Except.pure]
  | cons s ss ih =>
    intro h
    have hs := h s List.mem_cons_self
    have hrest := ih (fun s' hs' => h s' (List.mem_cons_of_mem _ hs'))
    unfold AtEq
    unfold SubEq at hs
    simp only [Spec.Shape.firstHit, Shape.applyAt]
    cases hm : Spec.Shape.matchSub kp gd pre cur post post.length s with
    | error e => simp [bind, Except.bind]
    | ok r =>
      rw [hm] at hs
      cases r with
      | none =>
        simp only at hs
        simp only [bind, Except.bind]
        rw [hs]
        exact hrest
      | some hit =>
        cases hit with
        | done dn rest =>
          simp only at hs
          simp only [bind, Except.bind, pure, Except.pure]
          rw [hs]
        | ctx m a => exact hs.elim


/-! ## the forward scan -/

theorem idxI_mid (site : String) (pre : List TG) (cur : TG) (post : List TG) :
    Shape.idxI site (gl (pre.reverse ++ cur :: post)) (pre.length : Int) = .ok cur.g := by
  unfold Shape.idxI
  have : ¬ ((pre.length : Int) < 0) := by omega
  simp only [this, if_false, Int.toNat_natCast]
  unfold idx
  have h : (gl (pre.reverse ++ cur :: post))[pre.length]? = some cur.g := by
    simp [gl]
  rw [h]

theorem idx_mid (site : String) (pre : List TG) (cur : TG) (post : List TG) :
    idx site (gl (pre.reverse ++ cur :: post)) pre.length = .ok cur.g := by
  unfold idx
  have h : (gl (pre.reverse ++ cur :: post))[pre.length]? = some cur.g := by
    simp [gl]
  rw [h]

theorem seq_len (pre : List TG) (cur : TG) (post : List TG) :
    (gl (pre.reverse ++ cur :: post)).length = pre.length + 1 + post.length := by
  simp [gl]; omega

/-- The engine's `applyAtRecursively` at a kept or skipped glyph, when the first-subtable
answers agree and the stack is empty. -/
theorem applyAtRec_eq (B : Nat) (ll : LookupList) (gd : Gdef) (lk : Lookup) (pre : List TG) (cur : TG) (post : List TG)
    (hat : AtEq (lk.keep gd) gd pre cur post lk.subtables) :
    let seq := gl (pre.reverse ++ cur :: post)
    if lk.keep gd cur.g.gid = false then
      Shape.applyAtRec B ll gd lk ⟨seq, []⟩ pre.length = .ok (⟨seq, []⟩, (pre.length : Int) + 1)
    else
      match Spec.Shape.firstHit (lk.keep gd) gd pre cur post post.length lk.subtables with
      | .error _ => True
      | .ok none => Shape.applyAtRec B ll gd lk ⟨seq, []⟩ pre.length = .ok (⟨seq, []⟩, (pre.length : Int) + 1)
      | .ok (some (.done dn rest)) =>
        Shape.applyAtRec B ll gd lk ⟨seq, []⟩ pre.length
          = .ok (⟨gl (pre.reverse ++ dn ++ rest), []⟩, ((pre.length + dn.length : Nat) : Int))
      | .ok (some (.ctx _ _)) => False := by
  intro seq
  unfold Shape.applyAtRec
  have hi : Shape.idxI "applyAtRecursively:seq[pos]" seq (pre.length : Int) = .ok cur.g := idxI_mid _ pre cur post
  simp only [hi, Shape.bind_ok_eq, Int.toNat_natCast]
  cases hk : lk.keep gd cur.g.gid with
  | false => simp
  | true =>
    simp only [Bool.not_true, if_false, Bool.true_eq_false]
    unfold AtEq at hat
    cases hf : Spec.Shape.firstHit (lk.keep gd) gd pre cur post post.length lk.subtables with
    | error e => trivial
    | ok r =>
      rw [hf] at hat
      cases r with
      | none =>
        simp only at hat ⊢
        rw [hat]; rfl
      | some hit =>
        cases hit with
        | ctx m a => exact hat.elim
        | done dn rest =>
          simp only at hat ⊢
          rw [hat]
          simp only [Shape.bind_ok_eq]
          rw [Shape.nestedLoop_nil B ll gd _ _ 1 _ rfl]
          rfl


/-- agreement of all subtables of a lookup, at every position, under the lookup's own filter -/
def LookupEq (gd : Gdef) (lk : Lookup) : Prop :=
  ∀ pre cur post, ∀ s ∈ lk.subtables, SubEq (lk.keep gd) gd pre cur post s

theorem scanFwd_eq (B : Nat) (ll : LookupList) (gd : Gdef) (lk : Lookup) (hlk : LookupEq gd lk) :
    ∀ (f1 f2 : Nat) (done todo out : List TG), todo.length ≤ f2 →
    Spec.Shape.scanFwd B ll gd lk f1 done todo = .ok out →
    Shape.lookupLoop B ll gd lk f2 ⟨gl (done.reverse ++ todo), []⟩ (done.length : Int) = .ok ⟨gl out, []⟩ := by
  intro f1
  induction f1 with
  | zero =>
    intro f2 done todo out hf h
    cases todo with
    | nil =>
      simp only [Spec.Shape.scanFwd, pure, Except.pure] at h
      injection h with h; subst h
      cases f2 <;> simp [Shape.lookupLoop, gl]
    | cons c t => simp [Spec.Shape.scanFwd, Spec.Shape.undef] at h
  | succ f1 ih =>
    intro f2 done todo out hf h
    cases todo with
    | nil =>
      simp only [Spec.Shape.scanFwd, pure, Except.pure] at h
      injection h with h; subst h
      cases f2 <;> simp [Shape.lookupLoop, gl]
    | cons cur post =>
      cases f2 with
      | zero => simp at hf
      | succ f2 =>
        simp only [List.length_cons] at hf
        have hlen := seq_len done cur post
        simp only [Shape.lookupLoop]
        have hpos : ((done.length : Nat) : Int) < (((gl (done.reverse ++ cur :: post)).length : Nat) : Int) := by
          rw [hlen]; omega
        simp only [hpos, if_true]
        have hrec := applyAtRec_eq B ll gd lk done cur post
          (atEq_of_subEq _ gd done cur post lk.subtables (hlk done cur post))
        simp only [Spec.Shape.scanFwd, Spec.Shape.keepOf_eq] at h
        -- the step "pass over the current glyph"
        have hskip : ∀ out', Spec.Shape.scanFwd B ll gd lk f1 (cur :: done) post = .ok out' →
            Shape.applyAtRec B ll gd lk ⟨gl (done.reverse ++ cur :: post), []⟩ done.length
              = .ok (⟨gl (done.reverse ++ cur :: post), []⟩, (done.length : Int) + 1) →
            (Shape.applyAtRec B ll gd lk ⟨gl (done.reverse ++ cur :: post), []⟩ (done.length : Int) >>= fun x =>
              match x with
              | (st1, p1) =>
                Shape.lookupLoop B ll gd lk f2 st1
                  (if (st1.seq.length : Int) - p1 ≥ ((gl (done.reverse ++ cur :: post)).length : Int) - (done.length : Int)
                   then (st1.seq.length : Int) - (((gl (done.reverse ++ cur :: post)).length : Int) - (done.length : Int)) + 1
                   else p1)) = .ok ⟨gl out', []⟩ := by
          intro out' hs hr
          rw [hr]
          simp only [Shape.bind_ok_eq]
          have hno : ¬ ((((gl (done.reverse ++ cur :: post)).length : Nat) : Int) - ((done.length : Int) + 1)
              ≥ (((gl (done.reverse ++ cur :: post)).length : Nat) : Int) - (done.length : Int)) := by omega
          simp only [hno, if_false]
          have := ih f2 (cur :: done) post out' (by omega) hs
          simp only [List.reverse_cons, List.append_assoc, List.singleton_append, List.length_cons] at this
          simpa using this
        cases hk : lk.keep gd cur.g.gid with
        | false =>
          simp only [hk, Bool.not_false, if_true] at h
          simp only [hk, if_true] at hrec
          exact hskip out h hrec
        | true =>
          simp only [hk, Bool.not_true, Bool.false_eq_true, if_false] at h
          simp only [hk, Bool.true_eq_false, if_false] at hrec
          -- unfold the reference's `applyAt` (no contextual hit is possible)
          cases B with
          | zero => simp [Spec.Shape.applyAt, Spec.Shape.undef, bind, Except.bind] at h
          | succ B' =>
            simp only [Spec.Shape.applyAt, Spec.Shape.keepOf_eq] at h
            cases hf' : Spec.Shape.firstHit (lk.keep gd) gd done cur post post.length lk.subtables with
            | error e => rw [hf'] at h; simp [bind, Except.bind] at h
            | ok r =>
              rw [hf'] at h hrec
              cases r with
              | none =>
                simp only [bind, Except.bind, pure, Except.pure] at h
                exact hskip out h hrec
              | some hit =>
                cases hit with
                | ctx m a => exact hrec.elim
                | done dn rest =>
                  simp only [bind, Except.bind, pure, Except.pure] at h
                  simp only at hrec
                  split at h
                  · rename_i hle
                    rw [hrec]
                    simp only [Shape.bind_ok_eq]
                    have hl2 : (gl (done.reverse ++ dn ++ rest)).length = done.length + dn.length + rest.length := by
                      simp [gl]; omega
                    have hno : ¬ ((((gl (done.reverse ++ dn ++ rest)).length : Nat) : Int) - ((done.length + dn.length : Nat) : Int)
                        ≥ (((gl (done.reverse ++ cur :: post)).length : Nat) : Int) - (done.length : Int)) := by
                      rw [hl2, hlen]; omega
                    simp only [hno, if_false]
                    have := ih f2 (dn.reverse ++ done) rest out (by omega) h
                    simp only [List.reverse_append, List.reverse_reverse, List.length_append, List.length_reverse,
                      List.append_assoc] at this
                    rw [show dn.length + done.length = done.length + dn.length from Nat.add_comm _ _] at this
                    simpa [List.append_assoc] using this
                  · simp [Spec.Shape.undef] at h


/-! ## the reverse scan (GSUB type 8) -/

theorem scanRev_eq (gd : Gdef) (lk : Lookup) (hlk : LookupEq gd lk) :
    ∀ (todo after out : List TG), Spec.Shape.scanRev gd lk todo after = .ok out →
    Shape.revLoop gd lk todo.length ⟨gl (todo.reverse ++ after), []⟩ = .ok ⟨gl out, []⟩ := by
  intro todo
  induction todo with
  | nil =>
    intro after out h
    simp only [Spec.Shape.scanRev, pure, Except.pure] at h
    injection h with h; subst h
    simp [Shape.revLoop]
  | cons cur pre ih =>
    intro after out h
    simp only [List.length_cons, Shape.revLoop, List.reverse_cons, List.append_assoc, List.singleton_append]
    rw [idx_mid]
    simp only [Shape.bind_ok_eq]
    simp only [Spec.Shape.scanRev, Spec.Shape.keepOf_eq] at h
    have hstay : ∀ out', Spec.Shape.scanRev gd lk pre (cur :: after) = .ok out' →
        Shape.revLoop gd lk pre.length ⟨gl (pre.reverse ++ cur :: after), []⟩ = .ok ⟨gl out', []⟩ := by
      intro out' h'
      exact ih (cur :: after) out' h'
    cases hk : lk.keep gd cur.g.gid with
    | false =>
      simp only [hk, Bool.not_false, if_true] at h
      simp only [Bool.false_eq_true, if_false]
      exact hstay out h
    | true =>
      simp only [hk, Bool.not_true, Bool.false_eq_true, if_false] at h
      simp only [if_true]
      have hat := atEq_of_subEq _ gd pre cur after lk.subtables (hlk pre cur after)
      unfold AtEq at hat
      cases hf : Spec.Shape.firstHit (lk.keep gd) gd pre cur after after.length lk.subtables with
      | error e => rw [hf] at h; simp [bind, Except.bind] at h
      | ok r =>
        rw [hf] at h hat
        cases r with
        | none =>
          simp only [bind, Except.bind] at h
          simp only at hat
          rw [hat]
          simp only [Shape.bind_ok_eq]
          exact hstay out h
        | some hit =>
          cases hit with
          | ctx m a => exact hat.elim
          | done dn rest =>
            simp only [bind, Except.bind] at h
            simp only at hat
            rw [hat]
            simp only [Shape.bind_ok_eq]
            have := ih (dn ++ rest) out h
            simpa [List.append_assoc] using this

/-! ## one lookup, all lookups -/

theorem isReverse_eq (s : Subtable) : Spec.Shape.isReverse s = s.isRev81 := by
  cases s <;> rfl

theorem runLookup_eq (B : Nat) (ll : LookupList) (gd : Gdef) (lk : Lookup) (hlk : LookupEq gd lk)
    (ts out : List TG) (h : Spec.Shape.runLookup B ll gd lk ts = .ok out) :
    Shape.applyLookup B ll gd lk ⟨gl ts, []⟩ = .ok ⟨gl out, []⟩ := by
  unfold Spec.Shape.runLookup at h
  unfold Shape.applyLookup Shape.Lookup.reverse
  have hfun : Spec.Shape.isReverse = Subtable.isRev81 := funext isReverse_eq
  rw [hfun] at h
  by_cases hany : lk.subtables.any Subtable.isRev81 = true
  · simp only [hany, if_true] at h
    by_cases hall : lk.subtables.all Subtable.isRev81 = true
    · simp only [hall, if_true] at h
      have hne : lk.subtables.isEmpty = false := by
        cases hs : lk.subtables with
        | nil => rw [hs] at hany; simp at hany
        | cons a b => rfl
      simp only [hne, hall, Bool.not_false, Bool.and_self, if_true]
      have := scanRev_eq gd lk hlk ts.reverse [] out h
      simpa using this
    · simp only [hall] at h
      simp [Spec.Shape.undef] at h
  · simp only [hany] at h
    have hrev : (!lk.subtables.isEmpty && lk.subtables.all Subtable.isRev81) = false := by
      cases hs : lk.subtables with
      | nil => simp
      | cons a b =>
        rw [hs] at hany
        simp only [List.any_cons, Bool.or_eq_true, not_or, Bool.not_eq_true] at hany
        simp [List.all_cons, hany.1]
    simp only [hrev]
    have := scanFwd_eq B ll gd lk hlk ts.length ts.length [] ts out (Nat.le_refl _) h
    simpa using this

/-- every lookup of the list agrees subtable by subtable -/
def ListEq (ll : LookupList) (gd : Gdef) : Prop := ∀ lk ∈ ll, LookupEq gd lk

theorem runLookups_eq (B : Nat) (ll : LookupList) (gd : Gdef) (hll : ListEq ll gd) :
    ∀ (lookups : List Nat) (ts out : List TG), Spec.Shape.runLookups B ll gd lookups ts = .ok out →
    Shape.applyLookups B ll gd lookups ⟨gl ts, []⟩ = .ok ⟨gl out, []⟩ := by
  intro lookups
  induction lookups with
  | nil =>
    intro ts out h
    simp only [Spec.Shape.runLookups, pure, Except.pure] at h
    injection h with h; subst h
    simp [Shape.applyLookups]
  | cons i is ih =>
    intro ts out h
    simp only [Spec.Shape.runLookups] at h
    simp only [Shape.applyLookups]
    cases hi : ll[i]? with
    | none => rw [hi] at h; simp [Spec.Shape.need, Spec.Shape.undef, bind, Except.bind] at h
    | some lk =>
      rw [hi] at h
      simp only [Spec.Shape.need, bind, Except.bind, pure, Except.pure] at h
      cases hr : Spec.Shape.runLookup B ll gd lk ts with
      | error e => rw [hr] at h; simp at h
      | ok ts' =>
        rw [hr] at h
        simp only at h ⊢
        rw [runLookup_eq B ll gd lk (hll lk (List.mem_of_getElem? hi)) ts ts' hr]
        simp only [Shape.bind_ok_eq]
        exact ih ts' out h

theorem gl_untagged (seq : List Glyph) : gl (seq.map fun g => ({ g := g } : TG)) = seq := by
  induction seq with
  | nil => rfl
  | cons g t ih => simp only [List.map_cons, Spec.Shape.gl_cons, ih]

/-- the whole shaper: wherever the reference is defined, the engine returns the same glyphs and
an empty stack -/
theorem shape_eq (B : Nat) (ll : LookupList) (gd : Gdef) (hll : ListEq ll gd) (lookups : List Nat)
    (seq r : List Glyph) (h : Spec.Shape.shape B ll gd lookups seq = .ok r) :
    Shape.apply B ll gd lookups [] seq = .ok ⟨r, []⟩ := by
  unfold Spec.Shape.shape at h
  split at h
  · simp [Spec.Shape.undef] at h
  · simp only [bind, Except.bind, pure, Except.pure] at h
    cases hr : Spec.Shape.runLookups B ll gd lookups (seq.map fun g => ({ g := g } : TG)) with
    | error e => rw [hr] at h; simp at h
    | ok ts =>
      rw [hr] at h
      simp only at h
      injection h with h; subst h
      have := runLookups_eq B ll gd hll lookups _ ts hr
      rw [gl_untagged] at this
      exact this

end SfntV.C06
