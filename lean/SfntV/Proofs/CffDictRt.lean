/-
DICT level: `decodeDict` applied to the bytes `cffDict.encode` wrote (integer and real operands,
operators that are not string-valued).
-/
import SfntV.Proofs.CffDict
import SfntV.Proofs.CffRealClamp

namespace SfntV.Cff
open SfntV

/-- operands as written: int32, or a real given by its nine-digit mantissa and the position of
the decimal point -/
def ValidOperand : Operand → Prop
  | .int v => -2147483648 ≤ v ∧ v ≤ 2147483647
  | .real neg i l => (0 < i ∧ i < 10 ^ 9 ∧ -280 ≤ l ∧ l ≤ 280) ∨ (i = 0 ∧ neg = false ∧ l = 0)
  | .str _ => False

/-- what the decoder delivers for a written operand: reals in normal form -/
def decOperand : Operand → Operand
  | .int v => .int v
  | .real neg i l => .real neg (stripZeros 20 i) (l - (numDigits (stripZeros 20 i) : Int))
  | .str s => .str s

/-- operators `cffDict.encode` can write and `decodeDict` passes through unchanged: one byte
0…21 except the escape 12, or escape + one byte; not string-valued -/
def ValidOp (op : Nat) : Prop :=
  isStringOp op = false ∧ ((op ≤ 21 ∧ op ≠ 12) ∨ (3072 ≤ op ∧ op ≤ 3327))

theorem dictStep_operand (o : Operand) (h : ValidOperand o) (rest : Bytes) :
    dictStep (encodeOperand o ++ rest) = .ok (.operand (decOperand o), rest) := by
  cases o with
  | int v => exact dictStep_encodeInt v h rest
  | real neg i l =>
    rcases h with ⟨h1, h2, h3, h4⟩ | ⟨h1, h2, h3⟩
    · simp only [encodeOperand, List.cons_append, dictStep]
      have hv : (0x1e : UInt8).toNat = 30 := rfl
      simp only [hv]
      rw [if_neg (by omega), if_neg (by omega), if_neg (by omega), if_neg (by omega), if_neg (by omega)]
      simp only [if_true]
      rw [decodeReal_encodeReal_full neg i l rest h1 h2 ⟨h3, h4⟩]
      rfl
    · subst h1; subst h2; subst h3
      simp [encodeOperand, encodeReal, dictStep, decodeReal, floatNibbles, nibChars, floatValue, parseDec,
        parseUnsigned, takeDigits, isDig, clampValue, decOperand, stripZeros, numDigits, digitsOf, digitsAux]
  | str s => exact absurd h (by simp [ValidOperand])

theorem dictStep_op (op : Nat) (h : ValidOp op) (rest : Bytes) :
    dictStep (encodeOp op ++ rest) = .ok (.op op, rest) := by
  rcases h.2 with ⟨h1, h2⟩ | ⟨h1, h2⟩
  · have hlt : ¬ op > 255 := by omega
    have hv : (UInt8.ofNat op).toNat = op := by simp [UInt8.toNat_ofNat']; omega
    simp only [encodeOp, hlt, if_false, List.cons_append, List.nil_append, dictStep, hv]
    rw [if_neg h2, if_pos h1]
  · have hgt : op > 255 := by omega
    have hv : (UInt8.ofNat op).toNat = op - 3072 := by simp [UInt8.toNat_ofNat']; omega
    have h12 : (12 : UInt8).toNat = 12 := rfl
    simp only [encodeOp, hgt, if_true, List.cons_append, List.nil_append, dictStep, h12, hv]
    have : 12 * 256 + (op - 3072) = op := by omega
    rw [this]

theorem flushArgs_plain (std custom : Array String) (op : Nat) (h : ValidOp op) (stack : List Operand) :
    flushArgs std custom op stack = .ok stack := by
  simp [flushArgs, h.1]

/-- operands are pushed one token at a time -/
theorem decode_operands (std custom : Array String) (args : List Operand) (hv : ∀ o ∈ args, ValidOperand o) :
    ∀ (fuel : Nat) (T : Bytes) (stack : List Operand) (res : List (Nat × List Operand)),
      decodeDictAux std custom (fuel + args.length) (args.flatMap encodeOperand ++ T) stack res
        = decodeDictAux std custom fuel T (stack ++ args.map decOperand) res := by
  induction args with
  | nil => intro fuel T stack res; simp
  | cons o os ih =>
    intro fuel T stack res
    have ho := hv o (List.mem_cons_self ..)
    have hstep := dictStep_operand o ho (os.flatMap encodeOperand ++ T)
    have hne : encodeOperand o ++ (os.flatMap encodeOperand ++ T) ≠ [] := by
      intro h0; rw [h0] at hstep; simp [dictStep] at hstep
    simp only [List.flatMap_cons, List.append_assoc, List.length_cons]
    have hf : fuel + (os.length + 1) = (fuel + os.length) + 1 := by omega
    rw [hf]
    obtain ⟨b, bs, hb⟩ : ∃ b bs, encodeOperand o ++ (os.flatMap encodeOperand ++ T) = b :: bs := by
      cases hh : encodeOperand o ++ (os.flatMap encodeOperand ++ T) with
      | nil => exact absurd hh hne
      | cons b bs => exact ⟨b, bs, rfl⟩
    rw [hb] at hstep ⊢
    simp only [decodeDictAux, hstep]
    rw [ih (fun x hx => hv x (List.mem_cons_of_mem _ hx))]
    simp [List.append_assoc]

def encodeEntries (L : List (Nat × List Operand)) : Bytes :=
  L.flatMap fun e => e.2.flatMap encodeOperand ++ encodeOp e.1

/-- number of tokens -/
def tokens (L : List (Nat × List Operand)) : Nat := (L.map fun e => e.2.length + 1).sum

/-- the map contents after assigning the entries in order (`res[op] = args`) -/
def assignAll (res : List (Nat × List Operand)) (L : List (Nat × List Operand)) : List (Nat × List Operand) :=
  L.foldl (fun r e => dictSet r e.1 (e.2.map decOperand)) res

theorem decode_entries (std custom : Array String) (L : List (Nat × List Operand))
    (hv : ∀ e ∈ L, ValidOp e.1 ∧ ∀ o ∈ e.2, ValidOperand o) :
    ∀ (extra : Nat) (res : List (Nat × List Operand)),
      decodeDictAux std custom (tokens L + extra) (encodeEntries L) [] res = .ok (assignAll res L) := by
  induction L with
  | nil => intro extra res; cases extra <;> simp [encodeEntries, decodeDictAux, assignAll, tokens]
  | cons e es ih =>
    intro extra res
    obtain ⟨hop, hargs⟩ := hv e (List.mem_cons_self ..)
    have hd : encodeEntries (e :: es) = e.2.flatMap encodeOperand ++ (encodeOp e.1 ++ encodeEntries es) := by
      simp [encodeEntries, List.flatMap_cons, List.append_assoc]
    have hf : tokens (e :: es) + extra = (tokens es + extra + 1) + e.2.length := by
      simp [tokens]; omega
    rw [hd, hf, decode_operands std custom e.2 hargs]
    have hstep := dictStep_op e.1 hop (encodeEntries es)
    obtain ⟨b, bs, hb⟩ : ∃ b bs, encodeOp e.1 ++ encodeEntries es = b :: bs := by
      cases hh : encodeOp e.1 ++ encodeEntries es with
      | nil => rw [hh] at hstep; simp [dictStep] at hstep
      | cons b bs => exact ⟨b, bs, rfl⟩
    rw [hb] at hstep ⊢
    simp only [decodeDictAux, hstep, List.nil_append, flushArgs_plain std custom e.1 hop]
    rw [ih (fun x hx => hv x (List.mem_cons_of_mem _ hx))]
    simp [assignAll]

theorem length_encodeOperand_pos (o : Operand) (h : ValidOperand o) : 1 ≤ (encodeOperand o).length := by
  cases o with
  | int v =>
    simp only [encodeOperand]
    rw [length_encodeInt]; unfold intSize
    split <;> (try split) <;> (try split) <;> omega
  | real neg i l => simp [encodeOperand]
  | str s => exact absurd h (by simp [ValidOperand])

theorem tokens_le (L : List (Nat × List Operand)) (hv : ∀ e ∈ L, ∀ o ∈ e.2, ValidOperand o) :
    tokens L ≤ (encodeEntries L).length := by
  induction L with
  | nil => simp [tokens, encodeEntries]
  | cons e es ih =>
    have h1 : e.2.length ≤ (e.2.flatMap encodeOperand).length := by
      have hargs := hv e (List.mem_cons_self ..)
      generalize e.2 = args at *
      induction args with
      | nil => simp
      | cons o os iho =>
        have := length_encodeOperand_pos o (hargs o (List.mem_cons_self ..))
        have := iho (fun x hx => hargs x (List.mem_cons_of_mem _ hx))
        simp only [List.flatMap_cons, List.length_append, List.length_cons]
        omega
    have h2 : 1 ≤ (encodeOp e.1).length := by unfold encodeOp; split <;> simp
    have := ih (fun x hx => hv x (List.mem_cons_of_mem _ hx))
    simp only [tokens, List.map_cons, List.sum_cons] at this ⊢
    simp only [encodeEntries, List.flatMap_cons, List.length_append] at this ⊢
    omega

/-- `decodeDict (encode d)`: every entry comes back (`res[op] = operands`, reals in normal form). -/
theorem decodeDict_encodeDict (std custom : Array String) (d : List (Nat × List Operand))
    (hv : ∀ e ∈ sortDict d, ValidOp e.1 ∧ ∀ o ∈ e.2, ValidOperand o) :
    decodeDict std custom (encodeDict d) = .ok (assignAll [] (sortDict d)) := by
  have hle := tokens_le (sortDict d) (fun e he => (hv e he).2)
  have : encodeDict d = encodeEntries (sortDict d) := rfl
  unfold decodeDict
  rw [this]
  obtain ⟨extra, hx⟩ : ∃ extra, (encodeEntries (sortDict d)).length = tokens (sortDict d) + extra :=
    ⟨_, (Nat.add_sub_cancel' hle).symm⟩
  rw [hx]
  exact decode_entries std custom (sortDict d) hv extra []


/-! ### distinct operators: the decoded map is the sorted entry list -/

theorem insertByRank_perm (e : Nat × List Operand) (l : List (Nat × List Operand)) :
    (insertByRank e l).Perm (e :: l) := by
  induction l with
  | nil => exact List.Perm.refl _
  | cons x xs ih =>
    simp only [insertByRank]
    split
    · exact List.Perm.refl _
    · exact (List.Perm.cons x ih).trans (List.Perm.swap e x xs)

theorem sortDict_perm (d : List (Nat × List Operand)) : (sortDict d).Perm d := by
  have h : ∀ (l acc : List (Nat × List Operand)),
      (l.foldl (fun acc e => insertByRank e acc) acc).Perm (l.reverse ++ acc) := by
    intro l
    induction l with
    | nil => intro acc; exact List.Perm.refl _
    | cons x xs ih =>
      intro acc
      simp only [List.foldl_cons, List.reverse_cons, List.append_assoc, List.singleton_append]
      exact (ih _).trans (List.Perm.append_left _ (insertByRank_perm x acc))
  have := h d []
  simp only [List.append_nil] at this
  exact this.trans (List.reverse_perm d)

theorem assignAll_nodup (L : List (Nat × List Operand)) (hn : (L.map (·.1)).Nodup) :
    ∀ (res : List (Nat × List Operand)), (∀ r ∈ res, r.1 ∉ L.map (·.1)) →
      assignAll res L = res ++ L.map fun e => (e.1, e.2.map decOperand) := by
  induction L with
  | nil => intro res _; simp [assignAll]
  | cons e es ih =>
    intro res hres
    have hnd := List.nodup_cons.mp hn
    have hf : res.filter (fun r => decide (r.1 ≠ e.1)) = res := by
      apply List.filter_eq_self.mpr
      intro r hr
      have := hres r hr
      simp only [List.map_cons, List.mem_cons, not_or] at this
      simpa using this.1
    have : assignAll res (e :: es) = assignAll (res ++ [(e.1, e.2.map decOperand)]) es := by
      simp only [assignAll, List.foldl_cons, dictSet]
      rw [hf]
    rw [this, ih hnd.2]
    · simp [List.append_assoc]
    · intro r hr
      rcases List.mem_append.mp hr with h | h
      · have := hres r h
        simp only [List.map_cons, List.mem_cons, not_or] at this
        exact this.2
      · simp only [List.mem_singleton] at h
        subst h
        exact hnd.1

/-- For a DICT with pairwise distinct operators (a Go map), `decodeDict (encode d)` is the
list of entries in `sortedKeys` order with every operand as written (reals in normal form). -/
theorem decodeDict_encodeDict_nodup (std custom : Array String) (d : List (Nat × List Operand))
    (hn : (d.map (·.1)).Nodup)
    (hv : ∀ e ∈ d, ValidOp e.1 ∧ ∀ o ∈ e.2, ValidOperand o) :
    decodeDict std custom (encodeDict d)
      = .ok ((sortDict d).map fun e => (e.1, e.2.map decOperand)) := by
  have hp := sortDict_perm d
  have hv' : ∀ e ∈ sortDict d, ValidOp e.1 ∧ ∀ o ∈ e.2, ValidOperand o :=
    fun e he => hv e (hp.mem_iff.mp he)
  have hn' : ((sortDict d).map (·.1)).Nodup := (hp.map _).nodup_iff.mpr hn
  rw [decodeDict_encodeDict std custom d hv', assignAll_nodup _ hn' [] (by simp)]
  simp

end SfntV.Cff
