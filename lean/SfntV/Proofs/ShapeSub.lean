/-
What one successful `subtable.apply` does to the engine state (C07): the runes are
permuted, the stack grows by at most one entry, the sequence grows by at most the longest
replacement minus one; and it never reports "out of fuel".
-/
import SfntV.Proofs.ShapeBasic

namespace SfntV.Shape
open SfntV

/-! ## ligature matching -/

theorem matchComps_spec (kp : Nat → Bool) : ∀ (rest : List Glyph) (cs : List Nat) (p : Nat) (b : Int) ps t sk r,
    matchComps kp cs rest p b = .ok (some (ps, t, sk, r)) →
    (textOf rest).Perm (t ++ textOf sk ++ textOf r) ∧ sk.length + r.length ≤ rest.length := by
  intro rest
  induction rest with
  | nil =>
    intro cs p b ps t sk r h
    cases cs with
    | nil => simp only [matchComps] at h; injection h with h; injection h with h; injection h with h1 h2
             injection h2 with h2 h3; injection h3 with h3 h4; subst h1 h2 h3 h4; simp
    | cons c cs => simp only [matchComps] at h; split at h <;> cases h
  | cons g rest ih =>
    intro cs p b ps t sk r h
    cases cs with
    | nil => simp only [matchComps] at h; injection h with h; injection h with h; injection h with h1 h2
             injection h2 with h2 h3; injection h3 with h3 h4; subst h1 h2 h3 h4; simp
    | cons c cs =>
      simp only [matchComps] at h
      split at h
      · cases h
      · split at h
        · split at h
          · obtain ⟨x, hx, h⟩ := bind_ok h
            split at h
            · rename_i ps' t' sk' r'
              injection h with h; injection h with h; injection h with h1 h2
              injection h2 with h2 h3; injection h3 with h3 h4; subst h1 h2 h3 h4
              obtain ⟨hp, hl⟩ := ih cs _ _ _ _ _ _ hx
              constructor
              · simp only [textOf_cons, List.append_assoc]
                exact List.Perm.append_left _ (by simpa [List.append_assoc] using hp)
              · simp; omega
            · cases h
          · cases h
        · obtain ⟨x, hx, h⟩ := bind_ok h
          split at h
          · rename_i ps' t' sk' r'
            injection h with h; injection h with h; injection h with h1 h2
            injection h2 with h2 h3; injection h3 with h3 h4; subst h1 h2 h3 h4
            obtain ⟨hp, hl⟩ := ih (c :: cs) _ _ _ _ _ _ hx
            constructor
            · simp only [textOf_cons]
              refine (List.Perm.append_left g.text hp).trans ?_
              simp only [List.append_assoc]
              exact (List.perm_append_comm_assoc _ _ _)
            · simp; omega
          · cases h

theorem firstLig_spec (kp : Nat → Bool) (rest : List Glyph) (a : Nat) (b : Int) :
    ∀ (ligs : List Lig) l ps t sk r, firstLig kp rest a b ligs = .ok (some (l, ps, t, sk, r)) →
    (textOf rest).Perm (t ++ textOf sk ++ textOf r) ∧ sk.length + r.length ≤ rest.length := by
  intro ligs
  induction ligs with
  | nil => intro l ps t sk r h; simp only [firstLig] at h; cases h
  | cons l0 ls ih =>
    intro l ps t sk r h
    simp only [firstLig] at h
    obtain ⟨x, hx, h⟩ := bind_ok h
    split at h
    · rename_i ps' t' sk' r'
      injection h with h; injection h with h; injection h with h0 h
      injection h with h1 h2; injection h2 with h2 h3; injection h3 with h3 h4
      subst h0 h1 h2 h3 h4
      exact matchComps_spec kp _ _ _ _ _ _ _ _ hx
    · exact ih _ _ _ _ _ h

/-! ## what a successful application does -/

/-- longest list in a list of lists -/
def maxLen (l : List (List Nat)) : Nat := l.foldr (fun r m => max r.length m) 0

theorem le_maxLen {l : List (List Nat)} {r : List Nat} (h : r ∈ l) : r.length ≤ maxLen l := by
  induction l with
  | nil => cases h
  | cons x xs ih =>
    simp only [maxLen, List.foldr_cons]
    rcases List.mem_cons.mp h with h | h
    · subst h; exact Nat.le_max_left _ _
    · exact Nat.le_trans (ih h) (Nat.le_max_right _ _)

/-- by how many glyphs one application of the subtable can lengthen the sequence -/
def Subtable.growth : Subtable → Nat
  | .gsub21 _ repl => maxLen repl - 1
  | _ => 0

/-- effect of one successful `apply` on the state -/
structure StepOK (G : Nat) (st st' : St) : Prop where
  text : (textOf st'.seq).Perm (textOf st.seq)
  stack : st'.stack.length ≤ st.stack.length + 1
  len : st'.seq.length ≤ st.seq.length + G

theorem StepOK.refl (G : Nat) (st : St) : StepOK G st st :=
  ⟨List.Perm.refl _, Nat.le_succ _, Nat.le_add_right _ _⟩

theorem StepOK.mono {G G' : Nat} {st st' : St} (h : StepOK G st st') (hg : G ≤ G') : StepOK G' st st' :=
  ⟨h.text, h.stack, Nat.le_trans h.len (Nat.add_le_add_left hg _)⟩

theorem StepOK.trans {G G' : Nat} {s1 s2 s3 : St} (h1 : StepOK G s1 s2) (h2 : StepOK G' s2 s3) :
    (textOf s3.seq).Perm (textOf s1.seq) ∧ s3.seq.length ≤ s1.seq.length + (G + G') :=
  ⟨h2.text.trans h1.text, by have := h1.len; have := h2.len; omega⟩

theorem stepOK_set {st : St} {a : Nat} {g g' : Glyph} (h : st.seq[a]? = some g) (ht : g'.text = g.text) (G : Nat) :
    StepOK G st { st with seq := st.seq.set a g' } :=
  ⟨by simp only [textOf_set h ht]; exact List.Perm.refl _, Nat.le_succ _, by simp⟩

theorem stepOK_push {st : St} (ps : List Nat) (acts : List Action) (e : Nat) (G : Nat) :
    StepOK G st (pushMatch st ps acts e) :=
  ⟨List.Perm.refl _, by simp [pushMatch], by simp [pushMatch]⟩

theorem firstRule_spec (kp : Nat → Bool) (st : St) (a : Nat) (b : Int) (mb mi ml : Nat → Nat → Bool) :
    ∀ (rs : List Rule) st' n, firstRule kp st a b mb mi ml rs = .ok (some (st', n)) →
    ∃ ps acts e, st' = pushMatch st ps acts e := by
  intro rs
  induction rs with
  | nil => intro st' n h; simp only [firstRule] at h; cases h
  | cons r rs ih =>
    intro st' n h
    simp only [firstRule] at h
    obtain ⟨x, hx, h⟩ := bind_ok h
    split at h
    · injection h with h; injection h with h; injection h with h1 h2
      exact ⟨_, _, _, h1.symm⟩
    · exact ih _ _ h

theorem applyValue_ok {v : Option ValueRec} {g g' : Glyph} (h : applyValue v g = .ok g') : g'.text = g.text := by
  unfold applyValue at h
  split at h
  · injection h with h; subst h; rfl
  · split at h
    · cases h
    · injection h with h; subst h; rfl

theorem textOf_set' {seq : List Glyph} {i : Nat} {g' : Glyph}
    (h : ∀ g, seq[i]? = some g → g'.text = g.text) : textOf (seq.set i g') = textOf seq := by
  rcases Nat.lt_or_ge i seq.length with hi | hi
  · have hg : seq[i]? = some seq[i] := List.getElem?_eq_getElem hi
    exact textOf_set hg (h _ hg)
  · rw [List.set_eq_of_length_le hi]

theorem stepOK_set2 {st : St} {a p : Nat} {g1 g1' g2 g2' : Glyph} (h1 : st.seq[a]? = some g1)
    (t1 : g1'.text = g1.text) (h2 : st.seq[p]? = some g2) (t2 : g2'.text = g2.text) (G : Nat) :
    StepOK G st { st with seq := (st.seq.set a g1').set p g2' } := by
  refine ⟨?_, Nat.le_succ _, by simp⟩
  show (textOf ((st.seq.set a g1').set p g2')).Perm _
  rw [textOf_set' (seq := st.seq.set a g1'), textOf_set h1 t1]
  · intro g hg
    by_cases hp : a = p
    · subst hp
      rw [h1] at h2; injection h2 with h2; subst h2
      have hlt : a < st.seq.length := by
        rcases Nat.lt_or_ge a st.seq.length with h' | h'
        · exact h'
        · rw [List.getElem?_eq_none h'] at h1; cases h1
      rw [List.getElem?_set_self hlt] at hg
      injection hg with hg; subst hg
      rw [t2, t1]
    · rw [List.getElem?_set_ne hp] at hg
      rw [h2] at hg; injection hg with hg; subst hg; exact t2

theorem applyPair_ok {st : St} {a p : Nat} {g1 g2 : Glyph} {adj : PairAdj} {st' : St} {n : Nat}
    (h1 : st.seq[a]? = some g1) (h2 : st.seq[p]? = some g2)
    (h : applyPair st a p g1 g2 adj = .ok (some (st', n))) (G : Nat) : StepOK G st st' := by
  unfold applyPair at h
  obtain ⟨g1', hg1, h⟩ := bind_ok h
  split at h
  · injection h with h; injection h with h; injection h with h1' h2'; subst h1'
    exact stepOK_set h1 (applyValue_ok hg1) _
  · obtain ⟨g2', hg2, h⟩ := bind_ok h
    injection h with h; injection h with h; injection h with h1' h2'; subst h1'
    exact stepOK_set2 h1 (applyValue_ok hg1) h2 (applyValue_ok hg2) _

theorem applyMark_ok {add : Nat → Bool} {st : St} {a : Nat} {markCov baseCov : Cov} {marks : List MarkRec}
    {bases : List (List Anchor)} {st' : St} {n : Nat}
    (h : applyMark add st a markCov baseCov marks bases = .ok (some (st', n))) (G : Nat) : StepOK G st st' := by
  unfold applyMark at h
  obtain ⟨g, hg, h⟩ := bind_ok h
  split at h
  · cases h
  · obtain ⟨mr, hmr, h⟩ := bind_ok h
    split at h
    · cases h
    · split at h
      · cases h
      · split at h
        · cases h
        · obtain ⟨row, hrow, h⟩ := bind_ok h
          split at h
          · cases h
          · split at h
            · cases h
            · injection h with h; injection h with h; injection h with h1 h2; subst h1
              exact stepOK_set (idx_ok hg) (by rfl) _

theorem applySub_ok (kp : Nat → Bool) (st : St) (a : Nat) (b : Int) (s : Subtable) (st' : St) (n : Nat)
    (h : applySub kp st a b s = .ok (some (st', n))) : StepOK s.growth st st' := by
  cases s with
  | gsub11 cov delta =>
    simp only [applySub] at h
    obtain ⟨g, hg, h⟩ := bind_ok h
    split at h
    · cases h
    · injection h with h; injection h with h; injection h with h1 h2; subst h1
      exact stepOK_set (idx_ok hg) (by rfl) _
  | gsub12 cov subst =>
    simp only [applySub] at h
    obtain ⟨g, hg, h⟩ := bind_ok h
    split at h
    · cases h
    · obtain ⟨m, hm, h⟩ := bind_ok h
      injection h with h; injection h with h; injection h with h1 h2; subst h1
      exact stepOK_set (idx_ok hg) (by rfl) _
  | gsub21 cov repl =>
    simp only [applySub] at h
    obtain ⟨g, hg, h⟩ := bind_ok h
    split at h
    · cases h
    · obtain ⟨rp, hrp, h⟩ := bind_ok h
      split at h
      · cases h
      · rename_i r0 rs
        injection h with h; injection h with h; injection h with h1 h2; subst h1
        have hmem : (r0 :: rs) ∈ repl := List.mem_of_getElem? (idx_ok hrp)
        have hlen := le_maxLen hmem
        have hsplit := split_at (idx_ok hg)
        refine ⟨?_, ?_, ?_⟩
        · show (textOf (List.take a st.seq ++ ({ g with gid := r0 } :: List.map (fun r => (⟨r, [], 0, 0, 0⟩ : Glyph)) rs) ++ List.drop (a + 1) st.seq)).Perm _
          have hz : textOf (List.map (fun r => (⟨r, [], 0, 0, 0⟩ : Glyph)) rs) = [] := by
            induction rs with
            | nil => rfl
            | cons x xs ih => simp [textOf] 
          conv => rhs; rw [hsplit]
          simp [hz]
        · show (if rs.length + 1 > 1 then st.stack.map (fixInsertOne a (rs.length + 1)) else st.stack).length ≤ _
          split <;> simp
        · show (List.take a st.seq ++ ({ g with gid := r0 } :: List.map (fun r => (⟨r, [], 0, 0, 0⟩ : Glyph)) rs) ++ List.drop (a + 1) st.seq).length ≤ _
          have h1 : st.seq.length = (List.take a st.seq).length + 1 + (List.drop (a + 1) st.seq).length := by
            conv => lhs; rw [hsplit]
            simp; omega
          simp only [Subtable.growth, List.length_append, List.length_cons, List.length_map]
          simp only [List.length_cons] at hlen
          omega
  | gsub31 cov alts =>
    simp only [applySub] at h
    obtain ⟨g, hg, h⟩ := bind_ok h
    split at h
    · cases h
    · obtain ⟨alt, halt, h⟩ := bind_ok h
      split at h
      · cases h
      · injection h with h; injection h with h; injection h with h1 h2; subst h1
        exact stepOK_set (idx_ok hg) (by rfl) _
  | gsub41 cov ligs =>
    simp only [applySub] at h
    obtain ⟨g, hg, h⟩ := bind_ok h
    split at h
    · cases h
    · obtain ⟨ligSet, hls, h⟩ := bind_ok h
      obtain ⟨x, hx, h⟩ := bind_ok h
      split at h
      · cases h
      · rename_i l ps t sk r
        injection h with h; injection h with h; injection h with h1 h2; subst h1
        obtain ⟨hp, hl⟩ := firstLig_spec kp _ _ _ _ _ _ _ _ _ hx
        have hsplit := split_at (idx_ok hg)
        refine ⟨?_, ?_, ?_⟩
        · show (textOf (List.take a st.seq ++ ((⟨l.out, g.text ++ t, 0, 0, 0⟩ : Glyph) :: sk) ++ r)).Perm _
          conv => rhs; rw [hsplit]
          simp only [textOf_append, textOf_cons, List.append_assoc]
          refine List.Perm.append_left _ (List.Perm.append_left _ ?_)
          simpa [List.append_assoc] using hp.symm
        · show (st.stack.map _).length ≤ _
          simp
        · show (List.take a st.seq ++ ((⟨l.out, g.text ++ t, 0, 0, 0⟩ : Glyph) :: sk) ++ r).length ≤ _
          have h1 : st.seq.length = (List.take a st.seq).length + 1 + (List.drop (a + 1) st.seq).length := by
            conv => lhs; rw [hsplit]
            simp; omega
          simp only [List.length_append, List.length_cons]
          omega
  | gsub81 input back look subst =>
    simp only [applySub] at h
    obtain ⟨g, hg, h⟩ := bind_ok h
    split at h
    · cases h
    · split at h
      · cases h
      · obtain ⟨x, hx, h⟩ := bind_ok h
        split at h
        · cases h
        · obtain ⟨m, hm, h⟩ := bind_ok h
          injection h with h; injection h with h; injection h with h1 h2; subst h1
          exact stepOK_set (idx_ok hg) (by rfl) _
  | ctx1 cov rules =>
    simp only [applySub] at h
    obtain ⟨g, hg, h⟩ := bind_ok h
    split at h
    · cases h
    · obtain ⟨rs, hrs, h⟩ := bind_ok h
      obtain ⟨ps, acts, e, he⟩ := firstRule_spec _ _ _ _ _ _ _ _ _ _ h
      subst he; exact stepOK_push _ _ _ _
  | ctx2 cov cls rules =>
    simp only [applySub] at h
    obtain ⟨g, hg, h⟩ := bind_ok h
    split at h
    · cases h
    · split at h
      · cases h
      · obtain ⟨ps, acts, e, he⟩ := firstRule_spec _ _ _ _ _ _ _ _ _ _ h
        subst he; exact stepOK_push _ _ _ _
  | ctx3 input actions =>
    simp only [applySub] at h
    obtain ⟨g, hg, h⟩ := bind_ok h
    split at h
    · cases h
    · split at h
      · cases h
      · obtain ⟨x, hx, h⟩ := bind_ok h
        split at h
        · injection h with h; injection h with h; injection h with h1 h2; subst h1
          exact stepOK_push _ _ _ _
        · cases h
  | chain1 cov rules =>
    simp only [applySub] at h
    obtain ⟨g, hg, h⟩ := bind_ok h
    split at h
    · cases h
    · obtain ⟨rs, hrs, h⟩ := bind_ok h
      obtain ⟨ps, acts, e, he⟩ := firstRule_spec _ _ _ _ _ _ _ _ _ _ h
      subst he; exact stepOK_push _ _ _ _
  | chain2 cov bcls icls lcls rules =>
    simp only [applySub] at h
    obtain ⟨g, hg, h⟩ := bind_ok h
    split at h
    · cases h
    · split at h
      · cases h
      · obtain ⟨ps, acts, e, he⟩ := firstRule_spec _ _ _ _ _ _ _ _ _ _ h
        subst he; exact stepOK_push _ _ _ _
  | chain3 back input look actions =>
    simp only [applySub] at h
    split at h
    · cases h
    · obtain ⟨x, hx, h⟩ := bind_ok h
      split at h
      · cases h
      · obtain ⟨p0, hp0, h⟩ := bind_ok h
        obtain ⟨y, hy, h⟩ := bind_ok h
        split at h
        · cases h
        · injection h with h; injection h with h; injection h with h1 h2; subst h1
          exact stepOK_push _ _ _ _
  | gpos11 cov adj =>
    simp only [applySub] at h
    obtain ⟨g, hg, h⟩ := bind_ok h
    split at h
    · cases h
    · obtain ⟨g', hg', h⟩ := bind_ok h
      injection h with h; injection h with h; injection h with h1 h2; subst h1
      exact stepOK_set (idx_ok hg) (applyValue_ok hg') _
  | gpos12 cov adj =>
    simp only [applySub] at h
    obtain ⟨g, hg, h⟩ := bind_ok h
    split at h
    · cases h
    · obtain ⟨v, hv, h⟩ := bind_ok h
      obtain ⟨g', hg', h⟩ := bind_ok h
      injection h with h; injection h with h; injection h with h1 h2; subst h1
      exact stepOK_set (idx_ok hg) (applyValue_ok hg') _
  | gpos21 pairs =>
    simp only [applySub] at h
    obtain ⟨g1, hg1, h⟩ := bind_ok h
    obtain ⟨p, hp, h⟩ := bind_ok h
    split at h
    · cases h
    · obtain ⟨g2, hg2, h⟩ := bind_ok h
      split at h
      · cases h
      · cases h
      · exact applyPair_ok (idx_ok hg1) (idx_ok hg2) h _
  | gpos22 cov cls1 cls2 adj =>
    simp only [applySub] at h
    obtain ⟨g1, hg1, h⟩ := bind_ok h
    split at h
    · cases h
    · obtain ⟨p, hp, h⟩ := bind_ok h
      split at h
      · cases h
      · obtain ⟨g2, hg2, h⟩ := bind_ok h
        split at h
        · cases h
        · split at h
          · cases h
          · cases h
          · exact applyPair_ok (idx_ok hg1) (idx_ok hg2) h _
  | gpos31 cov recs =>
    simp only [applySub] at h
    obtain ⟨g, hg, h⟩ := bind_ok h
    split at h
    · cases h
    · obtain ⟨r, hr, h⟩ := bind_ok h
      obtain ⟨yo, hyo, h⟩ := bind_ok h
      obtain ⟨ad, had, h⟩ := bind_ok h
      injection h with h; injection h with h; injection h with h1 h2; subst h1
      exact stepOK_set (idx_ok hg) (by rfl) _
  | gpos41 markCov baseCov marks bases gclass =>
    simp only [applySub] at h
    exact applyMark_ok h _
  | gpos61 markCov baseCov marks bases =>
    simp only [applySub] at h
    exact applyMark_ok h _

end SfntV.Shape
