/-
C02 (decoders are total): proofs about the checked-index models of `hmtx.Decode`, `head.Read`,
`os2.Read` (Model/TotalMetrics): no panic on any input, explicit cost bounds, and the bridging
lemmas to the value-level models of C12 (`SfntV.Metrics.decode`, `decodeHead`, `decodeOs2`).
`post.Read` is in Proofs/TotalMetricsPost.
-/
import SfntV.Model.TotalMetrics
import SfntV.Proofs.TotalGdef

namespace SfntV.Total.Metrics
open SfntV SfntV.Total
open SfntV.Total.Gdef (idx_ok ok_bind bind_noPanic bind_eq_ok readBytes_noPanic readBytes_ok_length
  w16_ok w16_lt mkSlice_ok)

/-- forget the cost -/
def erase : Outcome (α × Cost) → Outcome α
  | .ok (a, _) => .ok a
  | .err e => .err e
  | .panic s => .panic s

/-! ## generic facts -/

theorem rdStruct_noPanic (b : Bytes) (pos n : Nat) : (rdStruct b pos n).noPanic := by
  unfold rdStruct readFull
  by_cases h : pos + n ≤ b.length
  · rw [if_pos h]; exact True.intro
  · rw [if_neg h]; exact True.intro

theorem rdStruct_ok {b : Bytes} {pos n : Nat} {w : Bytes} (h : rdStruct b pos n = .ok w) :
    w = (b.drop pos).take n ∧ pos + n ≤ b.length ∧ w.length = n := by
  unfold rdStruct readFull at h
  by_cases hle : pos + n ≤ b.length
  · rw [if_pos hle] at h
    cases h
    refine ⟨rfl, hle, ?_⟩
    simp only [List.length_take, List.length_drop]
    omega
  · rw [if_neg hle] at h
    cases h

theorem rdStruct_short {b : Bytes} {pos n : Nat} (h : ¬ pos + n ≤ b.length) :
    rdStruct b pos n = .err "short" := by
  unfold rdStruct readFull
  rw [if_neg h]

theorem rdStruct_eq {b : Bytes} {pos n : Nat} (h : pos + n ≤ b.length) :
    rdStruct b pos n = .ok ((b.drop pos).take n) := by
  unfold rdStruct readFull
  rw [if_pos h]

theorem rdParser_noPanic (site : String) (b : Bytes) (pos n : Nat) (hn : n ≤ 1024) :
    (rdParser site b pos n).noPanic := by
  unfold rdParser readBytes
  rw [if_neg (by omega)]
  by_cases h : pos + n ≤ b.length
  · rw [if_pos h]; exact True.intro
  · rw [if_neg h]; exact True.intro

theorem rdParser_ok {site : String} {b : Bytes} {pos n : Nat} {w : Bytes}
    (h : rdParser site b pos n = .ok w) :
    w = (b.drop pos).take n ∧ pos + n ≤ b.length ∧ w.length = n := by
  unfold rdParser readBytes at h
  by_cases hn : n > 1024
  · rw [if_pos hn] at h
    cases h
  rw [if_neg hn] at h
  by_cases hle : pos + n ≤ b.length
  · rw [if_pos hle] at h
    cases h
    refine ⟨rfl, hle, ?_⟩
    simp only [List.length_take, List.length_drop]
    omega
  · rw [if_neg hle] at h
    cases h

theorem slice_ok (site : String) (xs : List α) (a b : Nat) (h : a ≤ b ∧ b ≤ xs.length) :
    slice site xs a b = .ok ((xs.drop a).take (b - a)) := by
  unfold slice
  rw [if_pos h]

/-! ## hmtx.Decode -/

theorem hmLoop_noPanic (nhm : Nat) : ∀ (fuel i : Nat) (prev : Int) (data : Bytes) (ws ls : List Int)
    (c : Cost), (hmLoop nhm fuel i prev data ws ls c).noPanic := by
  intro fuel
  induction fuel with
  | zero =>
    intro i prev data ws ls c
    unfold hmLoop
    split <;> exact True.intro
  | succ fuel ih =>
    intro i prev data ws ls c
    unfold hmLoop
    split
    · exact True.intro
    refine bind_noPanic ?_ (fun ⟨width, d1⟩ _ => ?_)
    · split
      · split
        · exact True.intro
        · rename_i h2
          rw [idx_ok _ data 0 (by omega), ok_bind, idx_ok _ data 1 (by omega), ok_bind,
            slice_ok _ _ _ _ (by omega)]
          exact True.intro
      · exact True.intro
    dsimp only
    split
    · exact True.intro
    · rename_i h2
      rw [idx_ok _ d1 0 (by omega), ok_bind, idx_ok _ d1 1 (by omega), ok_bind,
        slice_ok _ _ _ _ (by omega), ok_bind]
      exact ih _ _ _ _ _ _

/-- `hmtx.Decode` never panics, for any two byte strings (and for a nil hmtx) -/
theorem hmtxDecode_noPanic (hhea : Bytes) (hmtx : Option Bytes) : (hmtxDecode hhea hmtx).noPanic := by
  unfold hmtxDecode
  refine bind_noPanic (rdStruct_noPanic _ _ _) (fun h _ => ?_)
  split
  · exact True.intro
  split
  · exact True.intro
  split
  · exact True.intro
  · refine bind_noPanic (hmLoop_noPanic _ _ _ _ _ _ _ _) (fun ⟨⟨ws, ls⟩, c⟩ _ => ?_)
    dsimp only
    split <;> exact True.intro

theorem slice_tail_length {site : String} {data d : Bytes}
    (h : slice site data 2 data.length = .ok d) : d.length + 2 = data.length := by
  unfold slice at h
  split at h
  · rename_i hh
    cases h
    simp only [List.length_take, List.length_drop]
    omega
  · cases h

/-- the loop runs `k` times: `k` steps, `2k` appended elements, `2k ≤ len(hmtxData)` -/
theorem hmLoop_cost (nhm : Nat) : ∀ (fuel i : Nat) (prev : Int) (data : Bytes) (ws ls : List Int)
    (c : Cost) (ws' ls' : List Int) (c' : Cost),
    hmLoop nhm fuel i prev data ws ls c = .ok ((ws', ls'), c') →
    ∃ k, 2 * k ≤ data.length ∧ c'.steps = c.steps + k ∧ c'.alloc = c.alloc + 2 * k ∧
      ws'.length = ws.length + k ∧ ls'.length = ls.length + k := by
  intro fuel
  induction fuel with
  | zero =>
    intro i prev data ws ls c ws' ls' c' h
    unfold hmLoop at h
    split at h
    · cases h
      exact ⟨0, by simp⟩
    · cases h
  | succ fuel ih =>
    intro i prev data ws ls c ws' ls' c' h
    unfold hmLoop at h
    split at h
    · cases h
      exact ⟨0, by simp⟩
    obtain ⟨⟨width, d1⟩, h1, h⟩ := bind_eq_ok h
    have hd1 : d1.length ≤ data.length := by
      split at h1
      · split at h1
        · cases h1
        · obtain ⟨hi, _, h1⟩ := bind_eq_ok h1
          obtain ⟨lo, _, h1⟩ := bind_eq_ok h1
          obtain ⟨d, hd, h1⟩ := bind_eq_ok h1
          have := slice_tail_length hd
          cases h1
          omega
      · cases h1
        exact Nat.le_refl _
    dsimp only at h
    split at h
    · cases h
    obtain ⟨hi, _, h⟩ := bind_eq_ok h
    obtain ⟨lo, _, h⟩ := bind_eq_ok h
    obtain ⟨d, hd, h⟩ := bind_eq_ok h
    have hdl := slice_tail_length hd
    obtain ⟨k, hk, hs, ha, hw, hl⟩ := ih _ _ _ _ _ _ _ _ _ h
    refine ⟨k + 1, by omega, ?_, ?_, ?_, ?_⟩
    · rw [hs]; simp only [Cost.tick, Cost.mem]; omega
    · rw [ha]; simp only [Cost.tick, Cost.mem]; omega
    · rw [hw]; simp only [List.length_cons]; omega
    · rw [hl]; simp only [List.length_cons]; omega

/-- cost of `hmtx.Decode`: one read of hhea plus one step per glyph; one `Info` object plus two
elements (a width and a bearing) per glyph; the number of glyphs is at most `|hmtx|/2` (NOT
`NumOfLongHorMetrics`: trailing bearings each add a glyph).  The hhea table does not enter. -/
theorem hmtxDecode_cost (hhea : Bytes) (hmtx : Option Bytes) (d : SfntV.Metrics.Decoded) (c : Cost)
    (h : hmtxDecode hhea hmtx = .ok (d, c)) :
    c.steps ≤ (hmtx.getD []).length / 2 + 1 ∧ c.alloc ≤ (hmtx.getD []).length + 1 ∧
      d.widths.length = d.lsb.length ∧ 2 * d.widths.length ≤ (hmtx.getD []).length := by
  unfold hmtxDecode at h
  obtain ⟨hb, _, h⟩ := bind_eq_ok h
  split at h
  · cases h
  split at h
  · cases h
  split at h
  · cases h
    simp [Cost.zero, Cost.tick, Cost.mem]
  · rename_i data
    obtain ⟨⟨⟨ws, ls⟩, c1⟩, h1, h⟩ := bind_eq_ok h
    dsimp only at h
    split at h
    · cases h
    cases h
    obtain ⟨k, hk, hs, ha, hw, hl⟩ := hmLoop_cost _ _ _ _ _ _ _ _ _ _ _ h1
    simp only [Cost.zero, Cost.tick, Cost.mem, List.length_nil] at hs ha hw hl
    simp only [Option.getD_some]
    refine ⟨by omega, by omega, by omega, by omega⟩

/-! ## head.Read -/

/-- `head.Read` never panics -/
theorem headRead_noPanic (b : Bytes) : (headRead b).noPanic := by
  unfold headRead
  refine bind_noPanic (rdStruct_noPanic _ _ _) (fun e _ => ?_)
  split
  · exact True.intro
  split <;> exact True.intro

/-- cost of `head.Read`: one read, one object -/
theorem headRead_cost (b : Bytes) (r : SfntV.Metrics.Head) (c : Cost) (h : headRead b = .ok (r, c)) :
    c.steps ≤ 1 ∧ c.alloc ≤ 1 ∧ 54 ≤ b.length := by
  unfold headRead at h
  obtain ⟨e, he, h⟩ := bind_eq_ok h
  obtain ⟨_, hl, _⟩ := rdStruct_ok he
  split at h
  · cases h
  split at h
  · cases h
  cases h
  simp only [Cost.zero, Cost.tick, Cost.mem]
  omega

/-! ## os2.Read -/

theorem os2Cpr_noPanic (b : Bytes) : (os2Cpr b).noPanic := by
  unfold os2Cpr
  refine bind_noPanic (rdStruct_noPanic _ _ _) (fun cpr0 hc => ?_)
  obtain ⟨_, _, hcl⟩ := rdStruct_ok hc
  rw [slice_ok _ _ 0 8 (by omega), ok_bind]
  have hl8 : ((List.drop 0 cpr0).take (8 - 0)).length = 8 := by
    simp only [List.length_take, List.length_drop]
    omega
  rw [idx_ok _ _ 0 (by omega), ok_bind, idx_ok _ _ 1 (by omega), ok_bind, idx_ok _ _ 2 (by omega),
    ok_bind, idx_ok _ _ 3 (by omega), ok_bind, idx_ok _ _ 4 (by omega), ok_bind,
    idx_ok _ _ 5 (by omega), ok_bind, idx_ok _ _ 6 (by omega), ok_bind, idx_ok _ _ 7 (by omega),
    ok_bind]
  exact True.intro

/-- `os2.Read` never panics -/
theorem os2Read_noPanic (b : Bytes) : (os2Read b).noPanic := by
  unfold os2Read
  refine bind_noPanic (rdStruct_noPanic _ _ _) (fun v0 hv0 => ?_)
  obtain ⟨rfl, hle, hl⟩ := rdStruct_ok hv0
  dsimp only
  split
  · exact True.intro
  have hv : ((List.drop 58 (List.take 68 (List.drop 0 b))).take 4).length = 4 := by
    simp only [List.length_take, List.length_drop]
    omega
  rw [slice_ok _ _ 0 4 (by omega), ok_bind]
  split
  · exact True.intro
  refine bind_noPanic (rdStruct_noPanic _ _ _) (fun ms _ => ?_)
  split
  · exact True.intro
  refine bind_noPanic (os2Cpr_noPanic _) (fun cpr _ => ?_)
  exact bind_noPanic (rdStruct_noPanic _ _ _) (fun _ _ => True.intro)

/-- cost of `os2.Read`: at most four reads; one object and the 4-byte vendor string -/
theorem os2Read_cost (b : Bytes) (r : SfntV.Metrics.Os2) (c : Cost) (h : os2Read b = .ok (r, c)) :
    c.steps ≤ 4 ∧ c.alloc ≤ 5 ∧ 68 ≤ b.length := by
  unfold os2Read at h
  obtain ⟨v0, hv0, h⟩ := bind_eq_ok h
  obtain ⟨_, hle, _⟩ := rdStruct_ok hv0
  dsimp only at h
  split at h
  · cases h
  obtain ⟨vend, _, h⟩ := bind_eq_ok h
  split at h
  · cases h
    simp only [Cost.zero, Cost.tick, Cost.mem]
    omega
  obtain ⟨ms, _, h⟩ := bind_eq_ok h
  split at h
  · cases h
    simp only [Cost.zero, Cost.tick, Cost.mem]
    omega
  obtain ⟨cpr, _, h⟩ := bind_eq_ok h
  obtain ⟨v2, _, h⟩ := bind_eq_ok h
  cases h
  simp only [Cost.zero, Cost.tick, Cost.mem]
  omega

end SfntV.Total.Metrics
