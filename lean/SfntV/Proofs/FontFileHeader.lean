/-
C01 (bytes) — the container as a table store: after `header.Write`, `header.Read` followed by
`ReadTableBytes` returns, for every written table, exactly its body (the head table with the
checksum adjustment patched in), and nothing for any other name.  Derived from C03.
-/
import SfntV.Model.FontFile
import SfntV.Props.C03

namespace SfntV.FontFile
open SfntV SfntV.Header

/-- the body `header.Write` stores for a table: the head table gets its checksum adjustment -/
def storedBody (adj : UInt32) (t : Bytes × Bytes) : Bytes :=
  if t.1 == headTag then patchAdj t.2 adj else t.2

/-- the directory loop of `read` only returns records with pairwise distinct names -/
theorem go_names_nodup (f : Bytes) : ∀ (fuel i : Nat) (acc recs : List (Bytes × Nat × Nat)),
    (acc.map (·.1)).Nodup → read.go f i fuel acc = .ok recs → (recs.map (·.1)).Nodup := by
  intro fuel
  induction fuel with
  | zero =>
    intro i acc recs hacc h
    simp only [read.go, Outcome.ok.injEq] at h
    subst h
    rw [List.map_reverse]
    exact ((List.reverse_perm _).nodup_iff).mpr hacc
  | succ fuel ih =>
    intro i acc recs hacc h
    simp only [read.go] at h
    split at h
    · cases h
    split at h
    · cases h
    split at h
    · cases h
    rename_i hany
    refine ih _ _ _ ?_ h
    simp only [List.map_cons, List.nodup_cons]
    refine ⟨?_, hacc⟩
    intro hm
    apply hany
    obtain ⟨r, hr, hre⟩ := List.mem_map.mp hm
    rw [List.any_eq_true]
    exact ⟨r, hr, by simp [hre]⟩

/-- `read` only returns records with pairwise distinct names -/
theorem read_names_nodup (m : Nat) (f : Bytes) (sc : Nat) (recs : List (Bytes × Nat × Nat))
    (h : Header.read m f = .ok (sc, recs)) : (recs.map (·.1)).Nodup := by
  unfold Header.read at h
  split at h
  · cases h
  dsimp only at h
  split at h
  · cases h
  split at h
  · cases h
  split at h
  · rename_i recs' hgo
    split at h
    · cases h
    split at h
    · split at h
      · cases h
      split at h
      · cases h
      split at h
      · cases h
      split at h
      · cases h
      simp only [Outcome.ok.injEq, Prod.mk.injEq] at h
      obtain ⟨_, rfl⟩ := h
      exact go_names_nodup f _ _ _ _ (by simp) hgo
    · cases h
  · cases h
  · cases h

/-- pigeonhole: a duplicate-free list inside a list that is not longer contains all of it -/
theorem mem_of_nodup_subset_length {α : Type} [DecidableEq α] :
    ∀ (A B : List α), A.Nodup → (∀ a ∈ A, a ∈ B) → B.length ≤ A.length → ∀ b ∈ B, b ∈ A := by
  intro A
  induction A with
  | nil =>
    intro B _ _ hl b hb
    have : B = [] := List.length_eq_zero_iff.mp (by simpa using hl)
    subst this; cases hb
  | cons a A ih =>
    intro B hnd hsub hl b hb
    simp only [List.nodup_cons] at hnd
    have haB : a ∈ B := hsub a List.mem_cons_self
    by_cases hba : b = a
    · subst hba; exact List.mem_cons_self
    · have hb' : b ∈ B.erase a := (List.mem_erase_of_ne hba).mpr hb
      refine List.mem_cons_of_mem _ (ih (B.erase a) hnd.2 ?_ ?_ b hb')
      · intro x hx
        have hxa : x ≠ a := fun e => hnd.1 (e ▸ hx)
        exact (List.mem_erase_of_ne hxa).mpr (hsub x (List.mem_cons_of_mem _ hx))
      · rw [List.length_erase_of_mem haB]
        simp only [List.length_cons] at hl
        omega

theorem onHead_stored (adj : UInt32) (t : Bytes × Bytes) :
    onHead (fun d => patchAdj d adj) t = (t.1, storedBody adj t) := by
  unfold onHead storedBody
  split <;> rfl

theorem container_lookup (sc : Nat) (hsc : scalerOk sc = true) (ts : List Entry)
    (h : SfntV.Props.C03.Dom ts) (hn : (named ts).length ≤ 280)
    (hpr : ∀ t ∈ named ts, ∀ b ∈ t.1, 0x20 ≤ b ∧ b ≤ 0x7e)
    (w : Written) (hw : write sc ts = .ok w) :
    ∃ recs adj, Header.read 280 w.bytes = .ok (sc, recs) ∧
      (∀ t ∈ named ts, tableOf w.bytes recs t.1 = some (storedBody adj t)) ∧
      (∀ name, (∀ t ∈ named ts, t.1 ≠ name) → tableOf w.bytes recs name = none) := by
  obtain ⟨recs, hread, hlen, hrec⟩ := SfntV.Props.C03.C03_read_write sc hsc ts h hn hpr w hw
  have hrn := read_names_nodup _ _ _ _ hread
  have hnn := named_nodup ts h.keys_nodup
  obtain ⟨adj, hp⟩ : ∃ adj : UInt32, w.bodies.Perm (mapHead (fun d => patchAdj d adj) (named ts)) := by
    obtain ⟨adj, hp | ⟨hp, hno⟩⟩ := SfntV.Props.C03.C03_tables_kept sc ts h.keys_nodup w hw
    · exact ⟨adj, hp⟩
    · exact ⟨0, by rw [mapHead_noHead _ _ hno]; exact hp⟩
  have hbn : (w.bodies.map (·.1)).Nodup := by
    refine ((hp.map (·.1)).nodup_iff).mpr ?_
    rw [map_fst_mapHead]; exact hnn
  -- every body name is a record name
  have hall := mem_of_nodup_subset_length (recs.map (·.1)) (w.bodies.map (·.1)) hrn
    (by
      intro a ha
      obtain ⟨r, hr, rfl⟩ := List.mem_map.mp ha
      obtain ⟨body, hb, _⟩ := hrec r hr
      exact List.mem_map.mpr ⟨_, hb, rfl⟩)
    (by rw [List.length_map, List.length_map, hlen]; exact Nat.le_refl _)
  refine ⟨recs, adj, hread, ?_, ?_⟩
  · intro t ht
    have hb : (t.1, storedBody adj t) ∈ w.bodies := by
      refine hp.symm.subset ?_
      rw [← onHead_stored, mapHead_eq]
      exact List.mem_map.mpr ⟨t, ht, rfl⟩
    obtain ⟨r, hr, hrt⟩ := List.mem_map.mp (hall t.1 (List.mem_map.mpr ⟨_, hb, rfl⟩))
    unfold tableOf
    cases hf : recs.find? (fun r => r.1 == t.1) with
    | none =>
      have := List.find?_eq_none.mp hf r hr
      simp [hrt] at this
    | some r' =>
      have hr' : r' ∈ recs := List.mem_of_find?_eq_some hf
      have hn' : r'.1 = t.1 := by simpa using List.find?_some hf
      obtain ⟨body, hb', hslice⟩ := hrec r' hr'
      rw [hn'] at hb'
      have := nodup_fst_unique w.bodies hbn t.1 _ _ hb' hb
      simp only [hslice, this]
  · intro name hno
    unfold tableOf
    cases hf : recs.find? (fun r => r.1 == name) with
    | none => rfl
    | some r' =>
      exfalso
      have hr' : r' ∈ recs := List.mem_of_find?_eq_some hf
      have hn' : r'.1 = name := by simpa using List.find?_some hf
      obtain ⟨body, hb', _⟩ := hrec r' hr'
      obtain ⟨s, hs, hse⟩ := mem_mapHead _ _ _ (hp.subset hb')
      have : r'.1 = s.1 := by
        have := congrArg Prod.fst hse
        rw [onHead_fst] at this; exact this
      exact hno s hs (by rw [← this, hn'])

end SfntV.FontFile
