/-
Soundness of the vvcurveto edges (derived from T2EdgesHH.lean by the x/y symmetry) (C04).
-/
import SfntV.Proofs.T2Edges

set_option linter.unusedSimpArgs false
set_option linter.unusedVariables false

namespace SfntV.T2Enc
open SfntV SfntV.T2 SfntV.Spec.T2

/-- curves after the first one of an vvcurveto: start and end tangent horizontal -/
inductive VVTail : List Seg → List EncNum → Prop
  | nil : VVTail [] []
  | cons (a1 a0 a2 a3 a5 a4 : EncNum) (t : List Seg) (as : List EncNum) : a0.val = 0 → a4.val = 0 →
      VVTail t as → VVTail (.curve a0 a1 a2 a3 a4 a5 :: t) (a1 :: a2 :: a3 :: a5 :: as)

theorem vvLoop_tail (q : Quirks) (s : St) (segs : List Seg) (as : List EncNum) (h : VVTail segs as) :
    vvLoop q s 0 (vals as) = drawSegs q s segs := by
  induction h generalizing s with
  | nil => simp [vals, vvLoop, drawSegs]
  | cons a1 a0 a2 a3 a5 a4 t as h1 h5 _ ih =>
    simp only [vals, List.map_cons, vvLoop, drawSegs_cons, drawSeg, h1, h5]
    exact ih _

theorem VVTail.snoc {t : List Seg} {as : List EncNum} (h : VVTail t as) (a1 a0 a2 a3 a5 a4 : EncNum)
    (h1 : a0.val = 0) (h5 : a4.val = 0) :
    VVTail (t ++ [.curve a0 a1 a2 a3 a4 a5]) (as ++ [a1, a2, a3, a5]) := by
  induction h with
  | nil => exact VVTail.cons _ _ _ _ _ _ _ _ h1 h5 VVTail.nil
  | cons b0 b1 b2 b3 b4 b5 t as g1 g5 _ ih => exact VVTail.cons _ _ _ _ _ _ _ _ g1 g5 ih

theorem VVTail.len {t : List Seg} {as : List EncNum} (h : VVTail t as) : as.length = 4 * t.length := by
  induction h with
  | nil => rfl
  | cons => simp [*]; omega

theorem VVTail.argsFrom {t : List Seg} {as : List EncNum} (h : VVTail t as) :
    ∀ a ∈ as, ∃ g ∈ t, a ∈ g.args := by
  induction h with
  | nil => simp
  | cons b0 b1 b2 b3 b4 b5 t as g1 g5 _ ih =>
    intro a ha
    simp only [List.mem_cons] at ha
    rcases ha with h | h | h | h | h
    · exact ⟨_, List.mem_cons_self, by simp [Seg.args, h]⟩
    · exact ⟨_, List.mem_cons_self, by simp [Seg.args, h]⟩
    · exact ⟨_, List.mem_cons_self, by simp [Seg.args, h]⟩
    · exact ⟨_, List.mem_cons_self, by simp [Seg.args, h]⟩
    · obtain ⟨g, hg, hag⟩ := ih a h
      exact ⟨g, List.mem_cons_of_mem _ hg, hag⟩

/-- operands of an vvcurveto covering `segs` -/
def VVRel (segs : List Seg) (args : List EncNum) : Prop :=
  ∃ a1 a0 a2 a3 a5 a4 t lead as, segs = .curve a0 a1 a2 a3 a4 a5 :: t ∧ args = lead ++ [a1, a2, a3, a5] ++ as ∧
    VVTail t as ∧ a4.val = 0 ∧ (lead = [a0] ∨ (lead = [] ∧ a0.val = 0))

theorem sound_vv (frm : Nat) (cmds : List Seg) (n : Nat) (args : List EncNum) (hn0 : 0 < n) (hn : n ≤ cmds.length)
    (hr : VVRel (cmds.take n) args) (h48 : args.length ≤ 48) :
    EdgeSound frm cmds ⟨args, .vvcurveto, frm + n⟩ := by
  obtain ⟨a1, a0, a2, a3, a5, a4, t, lead, as, hsegs, hargs, htail, h5, hlead⟩ := hr
  have hlen := htail.len
  have htl : (cmds.take n).length = n := by simp; omega
  have ht : t.length + 1 = n := by rw [← htl, hsegs]; simp
  refine ⟨by simp; omega, by simp; omega, h48, ?_, rfl, ?_, ?_⟩
  · rcases hlead with rfl | ⟨rfl, _⟩ <;> simp [legalCount, hargs, hlen] <;> omega
  · intro a ha
    rw [hargs] at ha
    have hc0 : Seg.curve a0 a1 a2 a3 a4 a5 ∈ cmds := by
      have : Seg.curve a0 a1 a2 a3 a4 a5 ∈ cmds.take n := by rw [hsegs]; exact List.mem_cons_self
      exact List.mem_of_mem_take this
    rcases List.mem_append.mp ha with h | h
    · rcases List.mem_append.mp h with h | h
      · rcases hlead with rfl | ⟨rfl, _⟩
        · exact ⟨_, hc0, by simp at h; simp [Seg.args, h]⟩
        · simp at h
      · simp only [List.mem_cons, List.not_mem_nil, or_false] at h
        exact ⟨_, hc0, by rcases h with h | h | h | h <;> simp [Seg.args, h]⟩
    · obtain ⟨g, hg, hag⟩ := htail.argsFrom a h
      have : g ∈ cmds.take n := by rw [hsegs]; exact List.mem_cons_of_mem _ hg
      exact ⟨g, List.mem_of_mem_take this, hag⟩
  · intro env s code hs
    simp only at hs
    have e : frm + n - frm = n := by omega
    simp only [T2.exec]
    rcases hlead with rfl | ⟨rfl, h1⟩
    · have hsl : s.stack.length = 4 * t.length + 5 := by rw [hs, vals_length, hargs]; simp [hlen]
      rw [pathOp_ok s code _ _ _ (by omega) (by simp; omega)]
      have hne : (s.stack.length % 4 != 0) = true := by simp; omega
      simp only [hne, if_true]
      rw [hs, hargs, e, hsegs]
      simp only [vals, List.cons_append, List.nil_append, List.map_cons, List.map_append, vvLoop, drawSegs_cons, drawSeg, h5]
      have := vvLoop_tail strict (rCurveTo strict s a0.val a1.val a2.val a3.val 0 a5.val) t as htail
      simp only [vals] at this
      rw [this]
    · have hsl : s.stack.length = 4 * t.length + 4 := by rw [hs, vals_length, hargs]; simp [hlen]
      rw [pathOp_ok s code _ _ _ (by omega) (by simp; omega)]
      have hne : (s.stack.length % 4 != 0) = false := by simp; omega
      simp only [hne, Bool.false_eq_true, if_false]
      rw [hs, hargs, e, hsegs]
      simp only [vals, List.cons_append, List.nil_append, List.map_cons, List.map_append, vvLoop, drawSegs_cons, drawSeg, h5, h1]
      have := vvLoop_tail strict (rCurveTo strict s 0 a1.val a2.val a3.val 0 a5.val) t as htail
      simp only [vals] at this
      rw [this]


theorem vvEdges_spec (frm : Nat) (rest pre : List Seg) (code : List EncNum)
    (hinv : (pre = [] ∧ code = []) ∨ VVRel pre code) :
    ∀ e ∈ hhvvEdges frm 0 .vvcurveto rest code pre.length,
      ∃ n, 0 < n ∧ n ≤ (pre ++ rest).length ∧ e = ⟨e.args, .vvcurveto, frm + n⟩ ∧
        VVRel ((pre ++ rest).take n) e.args ∧ e.args.length ≤ 48 := by
  induction rest generalizing pre code with
  | nil => simp [hhvvEdges]
  | cons g t ih =>
    cases g with
    | line dx dy => simp [hhvvEdges]
    | curve a0 a1 a2 a3 a4 a5 =>
      simp only [hhvvEdges, Seg.arg, Seg.args, List.getD_cons_succ, List.getD_cons_zero]
      split
      · rename_i hlen4
        rw [maxStack_48] at hlen4
        split
        · simp
        · rename_i hz5
          have h5 : a4.val = 0 := isZero_val (by simpa using hz5)
          -- the lead operand
          have key : ∀ (lead : List EncNum), (lead = [a0] ∧ pre = [] ∧ code.length + 5 ≤ 48) ∨ (lead = [] ∧ a0.val = 0) →
              ∀ e ∈ (⟨code ++ lead ++ [a1, a2, a3, a5], .vvcurveto, frm + pre.length + 1⟩ : Edge) ::
                  hhvvEdges frm 0 .vvcurveto t (code ++ lead ++ [a1, a2, a3, a5]) (pre.length + 1),
                ∃ n, 0 < n ∧ n ≤ (pre ++ Seg.curve a0 a1 a2 a3 a4 a5 :: t).length ∧ e = ⟨e.args, .vvcurveto, frm + n⟩ ∧
                  VVRel ((pre ++ Seg.curve a0 a1 a2 a3 a4 a5 :: t).take n) e.args ∧ e.args.length ≤ 48 := by
            intro lead hl e he
            have hc : pre ++ Seg.curve a0 a1 a2 a3 a4 a5 :: t = (pre ++ [Seg.curve a0 a1 a2 a3 a4 a5]) ++ t := by simp
            have hpos : pre.length + 1 = (pre ++ [Seg.curve a0 a1 a2 a3 a4 a5]).length := by simp
            have hrel : VVRel (pre ++ [Seg.curve a0 a1 a2 a3 a4 a5]) (code ++ lead ++ [a1, a2, a3, a5]) := by
              rcases hinv with ⟨rfl, rfl⟩ | ⟨b0, b1, b2, b3, b4, b5, t0, lead0, as0, hsegs, hargs, htail, g5, hlead0⟩
              · refine ⟨a1, a0, a2, a3, a5, a4, [], lead, [], by simp, by simp, VVTail.nil, h5, ?_⟩
                rcases hl with ⟨rfl, _, _⟩ | ⟨rfl, h1⟩
                · exact Or.inl rfl
                · exact Or.inr ⟨rfl, h1⟩
              · rcases hl with ⟨_, hpre, _⟩ | ⟨rfl, h1⟩
                · rw [hpre] at hsegs; cases hsegs
                · refine ⟨b0, b1, b2, b3, b4, b5, t0 ++ [Seg.curve a0 a1 a2 a3 a4 a5], lead0, as0 ++ [a1, a2, a3, a5],
                    by rw [hsegs]; simp, by rw [hargs]; simp, htail.snoc _ _ _ _ _ _ h1 h5, g5, hlead0⟩
            rcases List.mem_cons.mp he with rfl | h
            · refine ⟨pre.length + 1, by omega, by simp, rfl, ?_, ?_⟩
              · simp only
                rw [hc, hpos, take_append_len]
                exact hrel
              · rcases hl with ⟨rfl, _, h5'⟩ | ⟨rfl, _⟩ <;> simp <;> omega
            · rw [hpos] at h
              obtain ⟨n, h1, h2, h3, h4, h6⟩ := ih (pre ++ [Seg.curve a0 a1 a2 a3 a4 a5]) _ (Or.inr hrel) e h
              exact ⟨n, h1, by rw [hc]; exact h2, h3, by rw [hc]; exact h4, h6⟩
          by_cases hz1 : (!a0.isZero) = true
          · by_cases hpos0 : (pre.length == 0 && decide (code.length + 5 ≤ maxStack)) = true
            · simp only [hz1, hpos0, if_true]
              simp only [Bool.and_eq_true, beq_iff_eq, decide_eq_true_eq] at hpos0
              have hpre : pre = [] := List.eq_nil_of_length_eq_zero hpos0.1
              exact key [a0] (Or.inl ⟨rfl, hpre, by rw [maxStack_48] at hpos0; exact hpos0.2⟩)
            · simp only [hz1, hpos0, if_true, if_false]
              simp
          · simp only [hz1, if_false]
            have h1 : a0.val = 0 := isZero_val (by simpa using hz1)
            exact key [] (Or.inr ⟨rfl, h1⟩)
      · simp

/-- every vvcurveto edge proposed by `appendEdges` is sound -/
theorem vvEdges_sound (frm : Nat) (cmds : List Seg) :
    ∀ e ∈ hhvvEdges frm 0 .vvcurveto cmds [] 0, EdgeSound frm cmds e := by
  intro e he
  obtain ⟨n, h1, h2, h3, h4, h5⟩ := vvEdges_spec frm cmds [] [] (Or.inl ⟨rfl, rfl⟩) e he
  rw [h3]
  exact sound_vv frm cmds n e.args h1 (by simpa using h2) (by simpa using h4) h5

end SfntV.T2Enc
