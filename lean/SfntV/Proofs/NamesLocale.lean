/-
C14 — script/language tags survive the `-x-script-lang` private-use extension (string level).
-/
import SfntV.Model.NamesLocale
import SfntV.Generated.Names

namespace SfntV.Names

def isLowerAlnum (c : Nat) : Prop := (97 ≤ c ∧ c ≤ 122) ∨ (48 ≤ c ∧ c ≤ 57)
def isUpperAlnum (c : Nat) : Prop := (65 ≤ c ∧ c ≤ 90) ∨ (48 ≤ c ∧ c ≤ 57)

/-- an OpenType script tag: `DFLT`, or 1–4 lower-case letters/digits padded with spaces to 4
(other than the spelling `dflt`, which `bcp47ToOtf` turns into `DFLT`) -/
def OTScript (s : List Nat) : Prop :=
  s = DFLT ∨ ∃ core k, s = core ++ List.replicate k 32 ∧ core ≠ [] ∧ core ≠ dflt ∧
    core.length + k = 4 ∧ ∀ c ∈ core, isLowerAlnum c

/-- an OpenType language tag: empty (default language system), or 1–4 upper-case letters/digits
padded with spaces to 4 -/
def OTLang (l : List Nat) : Prop :=
  l = [] ∨ ∃ core k, l = core ++ List.replicate k 32 ∧ core ≠ [] ∧ core.length + k = 4 ∧
    ∀ c ∈ core, isUpperAlnum c

theorem dropWhile_replicate_sp (k : Nat) (r : List Nat) (h : ∀ c, r.head? = some c → c ≠ 32) :
    (List.replicate k 32 ++ r).dropWhile (· == 32) = r := by
  induction k with
  | zero =>
    cases r with
    | nil => rfl
    | cons c t =>
      have := h c rfl
      simp [this]
  | succ n ih => simp [List.replicate_succ, ih]

theorem trimSp_core (core : List Nat) (k : Nat) (h : ∀ c ∈ core, c ≠ 32) :
    trimSp (core ++ List.replicate k 32) = core := by
  unfold trimSp
  rw [List.reverse_append, List.reverse_replicate, dropWhile_replicate_sp, List.reverse_reverse]
  intro c hc
  have : c ∈ core.reverse := List.mem_of_mem_head? hc
  exact h c (List.mem_reverse.mp this)

theorem splitDash_nodash (a : List Nat) (h : ∀ c ∈ a, c ≠ 45) : splitDash a = [a] := by
  induction a with
  | nil => rfl
  | cons c t ih =>
    have hc := h c List.mem_cons_self
    simp only [splitDash, hc, if_false, ih (fun x hx => h x (List.mem_cons_of_mem _ hx))]

theorem splitDash_append (a b : List Nat) (h : ∀ c ∈ a, c ≠ 45) :
    splitDash (a ++ 45 :: b) = a :: splitDash b := by
  induction a with
  | nil => simp [splitDash]
  | cons c t ih =>
    have hc := h c List.mem_cons_self
    simp only [List.cons_append, splitDash, hc, if_false, ih (fun x hx => h x (List.mem_cons_of_mem _ hx))]

theorem lowerS_lower (core : List Nat) (h : ∀ c ∈ core, isLowerAlnum c) : lowerS core = core := by
  induction core with
  | nil => rfl
  | cons c t ih =>
    have hc := h c List.mem_cons_self
    simp only [lowerS, List.map_cons] at ih ⊢
    rw [ih (fun x hx => h x (List.mem_cons_of_mem _ hx))]
    congr 1
    unfold lowerC isLowerAlnum at *
    split <;> omega

theorem upper_lower (core : List Nat) (h : ∀ c ∈ core, isUpperAlnum c) : upperS (lowerS core) = core := by
  induction core with
  | nil => rfl
  | cons c t ih =>
    have hc := h c List.mem_cons_self
    simp only [upperS, lowerS, List.map_cons, List.map_map] at ih ⊢
    rw [ih (fun x hx => h x (List.mem_cons_of_mem _ hx))]
    congr 1
    unfold upperC lowerC isUpperAlnum at *
    split <;> split <;> omega

theorem lowerS_nodash (core : List Nat) (h : ∀ c ∈ core, isLowerAlnum c ∨ isUpperAlnum c) :
    ∀ c ∈ lowerS core, c ≠ 45 := by
  intro c hc
  simp only [lowerS, List.mem_map] at hc
  obtain ⟨d, hd, rfl⟩ := hc
  have := h d hd
  unfold lowerC isLowerAlnum isUpperAlnum at *
  split <;> omega

theorem pad4_core (core : List Nat) (k : Nat) (h : core.length + k = 4) :
    pad4 core = core ++ List.replicate k 32 := by
  unfold pad4
  have : 4 - core.length = k := by omega
  rw [this]

theorem lowerS_length (s : List Nat) : (lowerS s).length = s.length := by simp [lowerS]

/-- script part of the round trip: what `extToOtf` makes of the lower-cased, trimmed script -/
theorem script_back (s : List Nat) (hs : OTScript s) :
    (∀ c ∈ lowerS (trimSp s), c ≠ 45) ∧
    pad4 (if lowerS (trimSp s) = dflt then DFLT else lowerS (trimSp s)) = s := by
  rcases hs with rfl | ⟨core, k, rfl, hne, hnd, hlen, hc⟩
  · decide
  · have hsp : ∀ c ∈ core, c ≠ 32 := by
      intro c hcc; have := hc c hcc; unfold isLowerAlnum at this; omega
    rw [trimSp_core core k hsp, lowerS_lower core hc]
    refine ⟨?_, ?_⟩
    · intro c hcc; have := hc c hcc; unfold isLowerAlnum at this; omega
    · simp only [hnd, if_false]
      exact pad4_core core k hlen

/-- string-level round trip of `bcp47ToOtf ∘ otfToBCP47` through the private-use extension -/
theorem tag_roundtrip (s l : List Nat) (hs : OTScript s) (hl : OTLang l) :
    extToOtf (extString s l) = some (s, l) := by
  obtain ⟨hsd, hsb⟩ := script_back s hs
  unfold extString extToOtf
  rcases hl with rfl | ⟨core, k, rfl, hne, hlen, hc⟩
  · have ht : trimSp ([] : List Nat) = [] := rfl
    simp only [ht, if_true, List.append_nil]
    have : splitDash ([120, 45] ++ lowerS (trimSp s)) = [[120], lowerS (trimSp s)] := by
      have := splitDash_append [120] (lowerS (trimSp s)) (by decide)
      rw [splitDash_nodash _ hsd] at this
      simpa using this
    rw [this]
    simp only [List.length_cons, List.length_nil, List.getD_cons_succ, List.getD_cons_zero]
    simp [hsb]
  · have hsp : ∀ c ∈ core, c ≠ 32 := by
      intro c hcc; have := hc c hcc; unfold isUpperAlnum at this; omega
    have hnd := lowerS_nodash core (fun c hcc => Or.inr (hc c hcc))
    rw [trimSp_core core k hsp]
    simp only [hne, if_false]
    have : splitDash ([120, 45] ++ lowerS (trimSp s) ++ ([45] ++ lowerS core)) =
        [[120], lowerS (trimSp s), lowerS core] := by
      have h1 := splitDash_append [120] (lowerS (trimSp s) ++ 45 :: lowerS core) (by decide)
      rw [splitDash_append _ _ hsd, splitDash_nodash _ hnd] at h1
      simpa using h1
    rw [this]
    simp only [List.length_cons, List.length_nil, List.getD_cons_succ, List.getD_cons_zero]
    have hp : pad4 (upperS (lowerS core)) = core ++ List.replicate k 32 := by
      rw [upper_lower core hc]; exact pad4_core core k hlen
    simp [hsb, hp]

/-! ### decidable forms, for the regenerated tables -/

def lowerAlnumB (c : Nat) : Bool := (decide (97 ≤ c) && decide (c ≤ 122)) || (decide (48 ≤ c) && decide (c ≤ 57))
def upperAlnumB (c : Nat) : Bool := (decide (65 ≤ c) && decide (c ≤ 90)) || (decide (48 ≤ c) && decide (c ≤ 57))

def isOTScriptB (s : List Nat) : Bool :=
  decide (s = DFLT) ||
    (decide (trimSp s ≠ []) && decide (trimSp s ≠ dflt) && decide (s.length = 4) &&
      (trimSp s).all lowerAlnumB && decide (s = trimSp s ++ List.replicate (4 - (trimSp s).length) 32))

def isOTLangB (l : List Nat) : Bool :=
  decide (l = []) ||
    (decide (trimSp l ≠ []) && decide (l.length = 4) &&
      (trimSp l).all upperAlnumB && decide (l = trimSp l ++ List.replicate (4 - (trimSp l).length) 32))

theorem isOTScriptB_sound (s : List Nat) (h : isOTScriptB s = true) : OTScript s := by
  unfold isOTScriptB at h
  simp only [Bool.or_eq_true, Bool.and_eq_true, decide_eq_true_eq, List.all_eq_true] at h
  rcases h with h | ⟨⟨⟨⟨h1, h2⟩, h3⟩, h4⟩, h5⟩
  · exact Or.inl h
  · refine Or.inr ⟨trimSp s, 4 - (trimSp s).length, h5, h1, h2, ?_, ?_⟩
    · have := congrArg List.length h5
      rw [List.length_append, List.length_replicate, h3] at this
      omega
    · intro c hc
      have := h4 c hc
      simp only [lowerAlnumB, Bool.or_eq_true, Bool.and_eq_true, decide_eq_true_eq] at this
      exact this

theorem isOTLangB_sound (l : List Nat) (h : isOTLangB l = true) : OTLang l := by
  unfold isOTLangB at h
  simp only [Bool.or_eq_true, Bool.and_eq_true, decide_eq_true_eq, List.all_eq_true] at h
  rcases h with h | ⟨⟨⟨h1, h3⟩, h4⟩, h5⟩
  · exact Or.inl h
  · refine Or.inr ⟨trimSp l, 4 - (trimSp l).length, h5, h1, ?_, ?_⟩
    · have := congrArg List.length h5
      rw [List.length_append, List.length_replicate, h3] at this
      omega
    · intro c hc
      have := h4 c hc
      simp only [upperAlnumB, Bool.or_eq_true, Bool.and_eq_true, decide_eq_true_eq] at this
      exact this

/-- every key of the regenerated `scriptBcp47` is a well-shaped script tag -/
theorem otScripts_shape : (Gen.otScripts.all fun p => isOTScriptB p.1) = true := by decide +kernel

/-- every key of the regenerated `langBcp47` is a well-shaped language tag -/
theorem otLangs_shape : (Gen.otLangs.all fun p => isOTLangB p.1) = true := by decide +kernel

end SfntV.Names
