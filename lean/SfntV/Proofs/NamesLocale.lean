/-
C14 — script/language tags survive the `-x-script-lang` private-use extension (string level).
-/
import SfntV.Model.NamesLocale
import SfntV.Generated.Names
import SfntV.Proofs.NamesChoose

namespace SfntV.Names

def isLowerAlnum (c : Nat) : Prop := (97 ≤ c ∧ c ≤ 122) ∨ (48 ≤ c ∧ c ≤ 57)
def isUpperAlnum (c : Nat) : Prop := (65 ≤ c ∧ c ≤ 90) ∨ (48 ≤ c ∧ c ≤ 57)

/-- an OpenType script tag: `DFLT`, or 1–4 lower-case letters/digits padded with spaces to 4
(other than the spelling `dflt`, which `bcp47ToOtf` turns into `DFLT`) -/
def OTScript (s : List Nat) : Prop :=
  s = DFLT ∨ ∃ core k, s = core ++ List.replicate k 32 ∧ core ≠ [] ∧ core ≠ dflt ∧
    core.length + k = 4 ∧ ∀ c ∈ core, isLowerAlnum c

/-- an OpenType language tag: empty (default language system), or 1–4 upper-case letters/digits
padded with spaces to 4 -/
def OTLang (l : List Nat) : Prop :=
  l = [] ∨ ∃ core k, l = core ++ List.replicate k 32 ∧ core ≠ [] ∧ core.length + k = 4 ∧
    ∀ c ∈ core, isUpperAlnum c

theorem dropWhile_replicate_sp (k : Nat) (r : List Nat) (h : ∀ c, r.head? = some c → c ≠ 32) :
    (List.replicate k 32 ++ r).dropWhile (· == 32) = r := by
  induction k with
  | zero =>
    cases r with
    | nil => rfl
    | cons c t =>
      have := h c rfl
      simp [this]
  | succ n ih => simp [List.replicate_succ, ih]

theorem trimSp_core (core : List Nat) (k : Nat) (h : ∀ c ∈ core, c ≠ 32) :
    trimSp (core ++ List.replicate k 32) = core := by
  unfold trimSp
  rw [List.reverse_append, List.reverse_replicate, dropWhile_replicate_sp, List.reverse_reverse]
  intro c hc
  have : c ∈ core.reverse := List.mem_of_mem_head? hc
  exact h c (List.mem_reverse.mp this)

theorem splitDash_nodash (a : List Nat) (h : ∀ c ∈ a, c ≠ 45) : splitDash a = [a] := by
  induction a with
  | nil => rfl
  | cons c t ih =>
    have hc := h c List.mem_cons_self
    simp only [splitDash, hc, if_false, ih (fun x hx => h x (List.mem_cons_of_mem _ hx))]

theorem splitDash_append (a b : List Nat) (h : ∀ c ∈ a, c ≠ 45) :
    splitDash (a ++ 45 :: b) = a :: splitDash b := by
  induction a with
  | nil => simp [splitDash]
  | cons c t ih =>
    have hc := h c List.mem_cons_self
    simp only [List.cons_append, splitDash, hc, if_false, ih (fun x hx => h x (List.mem_cons_of_mem _ hx))]

theorem lowerS_lower (core : List Nat) (h : ∀ c ∈ core, isLowerAlnum c) : lowerS core = core := by
  induction core with
  | nil => rfl
  | cons c t ih =>
    have hc := h c List.mem_cons_self
    simp only [lowerS, List.map_cons] at ih ⊢
    rw [ih (fun x hx => h x (List.mem_cons_of_mem _ hx))]
    congr 1
    unfold lowerC isLowerAlnum at *
    split <;> omega

theorem upper_lower (core : List Nat) (h : ∀ c ∈ core, isUpperAlnum c) : upperS (lowerS core) = core := by
  induction core with
  | nil => rfl
  | cons c t ih =>
    have hc := h c List.mem_cons_self
    simp only [upperS, lowerS, List.map_cons, List.map_map] at ih ⊢
    rw [ih (fun x hx => h x (List.mem_cons_of_mem _ hx))]
    congr 1
    unfold upperC lowerC isUpperAlnum at *
    split <;> split <;> omega

theorem lowerS_nodash (core : List Nat) (h : ∀ c ∈ core, isLowerAlnum c ∨ isUpperAlnum c) :
    ∀ c ∈ lowerS core, c ≠ 45 := by
  intro c hc
  simp only [lowerS, List.mem_map] at hc
  obtain ⟨d, hd, rfl⟩ := hc
  have := h d hd
  unfold lowerC isLowerAlnum isUpperAlnum at *
  split <;> omega

theorem pad4_core (core : List Nat) (k : Nat) (h : core.length + k = 4) :
    pad4 core = core ++ List.replicate k 32 := by
  unfold pad4
  have : 4 - core.length = k := by omega
  rw [this]

theorem lowerS_length (s : List Nat) : (lowerS s).length = s.length := by simp [lowerS]

/-- script part of the round trip: what `extToOtf` makes of the lower-cased, trimmed script -/
theorem script_back (s : List Nat) (hs : OTScript s) :
    (∀ c ∈ lowerS (trimSp s), c ≠ 45) ∧
    pad4 (if lowerS (trimSp s) = dflt then DFLT else lowerS (trimSp s)) = s := by
  rcases hs with rfl | ⟨core, k, rfl, hne, hnd, hlen, hc⟩
  · decide
  · have hsp : ∀ c ∈ core, c ≠ 32 := by
      intro c hcc; have := hc c hcc; unfold isLowerAlnum at this; omega
    rw [trimSp_core core k hsp, lowerS_lower core hc]
    refine ⟨?_, ?_⟩
    · intro c hcc; have := hc c hcc; unfold isLowerAlnum at this; omega
    · simp only [hnd, if_false]
      exact pad4_core core k hlen

/-- string-level round trip of `bcp47ToOtf ∘ otfToBCP47` through the private-use extension -/
theorem tag_roundtrip (s l : List Nat) (hs : OTScript s) (hl : OTLang l) :
    extToOtf (extString s l) = some (s, l) := by
  obtain ⟨hsd, hsb⟩ := script_back s hs
  unfold extString extToOtf
  rcases hl with rfl | ⟨core, k, rfl, hne, hlen, hc⟩
  · have ht : trimSp ([] : List Nat) = [] := rfl
    simp only [ht, if_true, List.append_nil]
    have : splitDash ([120, 45] ++ lowerS (trimSp s)) = [[120], lowerS (trimSp s)] := by
      have := splitDash_append [120] (lowerS (trimSp s)) (by decide)
      rw [splitDash_nodash _ hsd] at this
      simpa using this
    rw [this]
    simp only [List.length_cons, List.length_nil, List.getD_cons_succ, List.getD_cons_zero]
    simp [hsb]
  · have hsp : ∀ c ∈ core, c ≠ 32 := by
      intro c hcc; have := hc c hcc; unfold isUpperAlnum at this; omega
    have hnd := lowerS_nodash core (fun c hcc => Or.inr (hc c hcc))
    rw [trimSp_core core k hsp]
    simp only [hne, if_false]
    have : splitDash ([120, 45] ++ lowerS (trimSp s) ++ ([45] ++ lowerS core)) =
        [[120], lowerS (trimSp s), lowerS core] := by
      have h1 := splitDash_append [120] (lowerS (trimSp s) ++ 45 :: lowerS core) (by decide)
      rw [splitDash_append _ _ hsd, splitDash_nodash _ hnd] at h1
      simpa using h1
    rw [this]
    simp only [List.length_cons, List.length_nil, List.getD_cons_succ, List.getD_cons_zero]
    have hp : pad4 (upperS (lowerS core)) = core ++ List.replicate k 32 := by
      rw [upper_lower core hc]; exact pad4_core core k hlen
    simp [hsb, hp]

/-! ### decidable forms, for the regenerated tables -/

def lowerAlnumB (c : Nat) : Bool := (decide (97 ≤ c) && decide (c ≤ 122)) || (decide (48 ≤ c) && decide (c ≤ 57))
def upperAlnumB (c : Nat) : Bool := (decide (65 ≤ c) && decide (c ≤ 90)) || (decide (48 ≤ c) && decide (c ≤ 57))

def isOTScriptB (s : List Nat) : Bool :=
  decide (s = DFLT) ||
    (decide (trimSp s ≠ []) && decide (trimSp s ≠ dflt) && decide (s.length = 4) &&
      (trimSp s).all lowerAlnumB && decide (s = trimSp s ++ List.replicate (4 - (trimSp s).length) 32))

def isOTLangB (l : List Nat) : Bool :=
  decide (l = []) ||
    (decide (trimSp l ≠ []) && decide (l.length = 4) &&
      (trimSp l).all upperAlnumB && decide (l = trimSp l ++ List.replicate (4 - (trimSp l).length) 32))

theorem isOTScriptB_sound (s : List Nat) (h : isOTScriptB s = true) : OTScript s := by
  unfold isOTScriptB at h
  simp only [Bool.or_eq_true, Bool.and_eq_true, decide_eq_true_eq, List.all_eq_true] at h
  rcases h with h | ⟨⟨⟨⟨h1, h2⟩, h3⟩, h4⟩, h5⟩
  · exact Or.inl h
  · refine Or.inr ⟨trimSp s, 4 - (trimSp s).length, h5, h1, h2, ?_, ?_⟩
    · have := congrArg List.length h5
      rw [List.length_append, List.length_replicate, h3] at this
      omega
    · intro c hc
      have := h4 c hc
      simp only [lowerAlnumB, Bool.or_eq_true, Bool.and_eq_true, decide_eq_true_eq] at this
      exact this

theorem isOTLangB_sound (l : List Nat) (h : isOTLangB l = true) : OTLang l := by
  unfold isOTLangB at h
  simp only [Bool.or_eq_true, Bool.and_eq_true, decide_eq_true_eq, List.all_eq_true] at h
  rcases h with h | ⟨⟨⟨h1, h3⟩, h4⟩, h5⟩
  · exact Or.inl h
  · refine Or.inr ⟨trimSp l, 4 - (trimSp l).length, h5, h1, ?_, ?_⟩
    · have := congrArg List.length h5
      rw [List.length_append, List.length_replicate, h3] at this
      omega
    · intro c hc
      have := h4 c hc
      simp only [upperAlnumB, Bool.or_eq_true, Bool.and_eq_true, decide_eq_true_eq] at this
      exact this

/-- every key of the regenerated `scriptBcp47` is a well-shaped script tag -/
theorem otScripts_shape : (Gen.otScripts.all fun p => isOTScriptB p.1) = true := by decide +kernel

/-- every key of the regenerated `langBcp47` is a well-shaped language tag -/
theorem otLangs_shape : (Gen.otLangs.all fun p => isOTLangB p.1) = true := by decide +kernel

/-! ### tags without the `-x-` extension -/

/-- what the reverse lookup returns: nothing if no entry has the value, otherwise the smallest
key among the entries with that value -/
def RevSpec (tbl : List (List Nat × List Nat)) (val cur : List Nat) : Prop :=
  (cur = [] ∧ ∀ p ∈ tbl, p.2 ≠ val) ∨
  (cur ≠ [] ∧ (∃ p ∈ tbl, p.1 = cur ∧ p.2 = val) ∧ ∀ q ∈ tbl, q.2 = val → lexLe cur q.1 = true)

theorem stepRev_inv (val : List Nat) (seen : List (List Nat × List Nat)) (cur : List Nat)
    (p : List Nat × List Nat) (hp : p.1 ≠ []) (h : RevSpec seen val cur) :
    RevSpec (seen ++ [p]) val (stepRev val cur p) := by
  unfold stepRev
  by_cases hv : p.2 = val
  · rcases h with ⟨hc, hno⟩ | ⟨hc, ⟨w, hw, hw1, hw2⟩, hmin⟩
    · simp only [hv, hc, true_or, and_self, if_true]
      refine Or.inr ⟨hp, ⟨p, by simp, rfl, hv⟩, ?_⟩
      intro q hq hqv
      simp only [List.mem_append, List.mem_singleton] at hq
      rcases hq with hq | rfl
      · exact absurd hqv (hno q hq)
      · exact lexLe_refl _
    · by_cases hlt : lexLt p.1 cur = true
      · simp only [hv, hlt, or_true, and_self, if_true]
        refine Or.inr ⟨hp, ⟨p, by simp, rfl, hv⟩, ?_⟩
        intro q hq hqv
        simp only [List.mem_append, List.mem_singleton] at hq
        rcases hq with hq | rfl
        · have h1 := hmin q hq hqv
          have h2 : lexLe p.1 cur = true := by
            have := lexLe_total p.1 cur
            simp only [lexLt, Bool.not_eq_true'] at hlt
            simpa [hlt] using this
          exact lexLe_trans _ _ _ h2 h1
        · exact lexLe_refl _
      · simp only [hv, hc, hlt]
        refine Or.inr ⟨hc, ⟨w, by simp [hw], hw1, hw2⟩, ?_⟩
        intro q hq hqv
        simp only [List.mem_append, List.mem_singleton] at hq
        rcases hq with hq | rfl
        · exact hmin q hq hqv
        · simp only [lexLt, Bool.not_eq_true', Bool.not_eq_false] at hlt
          simpa using hlt
  · simp only [hv, false_and, if_false]
    rcases h with ⟨hc, hno⟩ | ⟨hc, ⟨w, hw, hw1, hw2⟩, hmin⟩
    · refine Or.inl ⟨hc, ?_⟩
      intro q hq
      simp only [List.mem_append, List.mem_singleton] at hq
      rcases hq with hq | rfl
      · exact hno q hq
      · exact hv
    · refine Or.inr ⟨hc, ⟨w, by simp [hw], hw1, hw2⟩, ?_⟩
      intro q hq hqv
      simp only [List.mem_append, List.mem_singleton] at hq
      rcases hq with hq | rfl
      · exact hmin q hq hqv
      · exact absurd hqv hv

theorem foldl_stepRev_inv (val : List Nat) (rest seen : List (List Nat × List Nat)) (cur : List Nat)
    (hk : ∀ p ∈ rest, p.1 ≠ []) (h : RevSpec seen val cur) :
    RevSpec (seen ++ rest) val (rest.foldl (stepRev val) cur) := by
  induction rest generalizing seen cur with
  | nil => simpa using h
  | cons p t ih =>
    simp only [List.foldl_cons]
    have := ih (seen ++ [p]) (stepRev val cur p) (fun q hq => hk q (List.mem_cons_of_mem _ hq))
      (stepRev_inv val seen cur p (hk p List.mem_cons_self) h)
    simpa using this

theorem revLookup_spec (order : List (List Nat × List Nat)) (val : List Nat)
    (hk : ∀ p ∈ order, p.1 ≠ []) : RevSpec order val (revLookup order val) := by
  have := foldl_stepRev_inv val order [] [] hk (Or.inl ⟨rfl, by simp⟩)
  simpa [revLookup] using this

/-- the specification determines the answer: it depends on the entries, not on their order -/
theorem RevSpec_unique (t₁ t₂ : List (List Nat × List Nat)) (val a b : List Nat)
    (hm : ∀ p, p ∈ t₁ ↔ p ∈ t₂) (ha : RevSpec t₁ val a) (hb : RevSpec t₂ val b) : a = b := by
  rcases ha with ⟨ha0, hano⟩ | ⟨ha0, ⟨w, hw, hw1, hw2⟩, hamin⟩
  · rcases hb with ⟨hb0, _⟩ | ⟨_, ⟨v, hv, _, hv2⟩, _⟩
    · rw [ha0, hb0]
    · exact absurd hv2 (hano v ((hm v).mpr hv))
  · rcases hb with ⟨_, hbno⟩ | ⟨_, ⟨v, hv, hv1, hv2⟩, hbmin⟩
    · exact absurd hw2 (hbno w ((hm w).mp hw))
    · have h1 := hamin v ((hm v).mpr hv) hv2
      have h2 := hbmin w ((hm w).mp hw) hw2
      rw [hv1] at h1; rw [hw1] at h2
      exact lexLe_antisymm _ _ h1 h2

theorem revLookup_order_independent (t₁ t₂ : List (List Nat × List Nat)) (val : List Nat)
    (hm : ∀ p, p ∈ t₁ ↔ p ∈ t₂) (hk : ∀ p ∈ t₁, p.1 ≠ []) :
    revLookup t₁ val = revLookup t₂ val :=
  RevSpec_unique t₁ t₂ val _ _ hm (revLookup_spec t₁ val hk)
    (revLookup_spec t₂ val (fun p hp => hk p ((hm p).mpr hp)))

/-- a Go map literal of tags: keys not empty and distinct -/
def tagTableOK : List (List Nat × List Nat) → Bool
  | [] => true
  | p :: rest => !p.1.isEmpty && !(rest.any fun q => q.1 == p.1) && tagTableOK rest

theorem tagTableOK_keys (tbl : List (List Nat × List Nat)) (h : tagTableOK tbl = true) :
    ∀ p ∈ tbl, p.1 ≠ [] := by
  induction tbl with
  | nil => intro p hp; cases hp
  | cons x t ih =>
    simp only [tagTableOK, Bool.and_eq_true, Bool.not_eq_true', List.isEmpty_eq_false_iff] at h
    intro p hp
    simp only [List.mem_cons] at hp
    rcases hp with rfl | hp
    · exact h.1.1
    · exact ih h.2 p hp

theorem tagGet_of_mem (tbl : List (List Nat × List Nat)) (h : tagTableOK tbl = true)
    (k v : List Nat) (hm : (k, v) ∈ tbl) : tagGet tbl k = some v := by
  induction tbl with
  | nil => cases hm
  | cons x t ih =>
    obtain ⟨a, b⟩ := x
    simp only [tagTableOK, Bool.and_eq_true, Bool.not_eq_true', List.any_eq_false] at h
    unfold tagGet
    simp only [List.mem_cons, Prod.mk.injEq] at hm
    rcases hm with ⟨rfl, rfl⟩ | hm
    · simp
    · have : a ≠ k := by
        intro e
        have := h.1.2 (k, v) hm
        simp [e] at this
      simp only [this, if_false]
      exact ih h.2 hm

theorem tagGet_nil (tbl : List (List Nat × List Nat)) (h : ∀ p ∈ tbl, p.1 ≠ []) : tagGet tbl [] = none := by
  induction tbl with
  | nil => rfl
  | cons x t ih =>
    obtain ⟨a, b⟩ := x
    have ha : a ≠ [] := h (a, b) List.mem_cons_self
    simp only [tagGet, ha, if_false]
    exact ih (fun p hp => h p (List.mem_cons_of_mem _ hp))

/-- `otfToBCP47 ∘ bcp47ToOtf` on a tag without extension whose script and language the tables can
express: the tag comes back with its language and script, plus the `-x-` extension naming the
OpenType tags chosen (string level) -/
theorem noext_back (scripts langs so lo : List (List Nat × List Nat))
    (hs : tagTableOK scripts = true) (hl : tagTableOK langs = true)
    (hso : ∀ p, p ∈ so ↔ p ∈ scripts) (hlo : ∀ p, p ∈ lo ↔ p ∈ langs)
    (S L : List Nat) (hS : ∃ k, (k, S) ∈ scripts)
    (hL : (∃ k, (k, L) ∈ langs) ∨ (L = undS ∧ ∀ p ∈ langs, p.2 ≠ undS)) :
    otfToBCP47Str scripts langs (noExtToOtf so lo 0 L S).1 (noExtToOtf so lo 0 L S).2 =
      some (otfTagString S L (noExtToOtf so lo 0 L S).1 (noExtToOtf so lo 0 L S).2) := by
  have hks := tagTableOK_keys scripts hs
  have hkl := tagTableOK_keys langs hl
  have e1 : (noExtToOtf so lo 0 L S) = (revLookup so S, revLookup lo L) := by simp [noExtToOtf]
  rw [e1]
  simp only
  have sp1 := revLookup_spec so S (fun p hp => hks p ((hso p).mp hp))
  have sp2 := revLookup_spec lo L (fun p hp => hkl p ((hlo p).mp hp))
  obtain ⟨k, hk⟩ := hS
  have g1 : tagGet scripts (revLookup so S) = some S := by
    rcases sp1 with ⟨_, hno⟩ | ⟨_, ⟨w, hw, hw1, hw2⟩, _⟩
    · exact absurd rfl (hno (k, S) ((hso _).mpr hk))
    · obtain ⟨wa, wb⟩ := w
      simp only at hw1 hw2
      subst hw1 hw2
      exact tagGet_of_mem scripts hs _ _ ((hso _).mp hw)
  unfold otfToBCP47Str
  rw [g1]
  simp only
  rcases hL with ⟨k', hk'⟩ | ⟨hu, hnone⟩
  · have g2 : tagGet langs (revLookup lo L) = some L := by
      rcases sp2 with ⟨_, hno⟩ | ⟨_, ⟨w, hw, hw1, hw2⟩, _⟩
      · exact absurd rfl (hno (k', L) ((hlo _).mpr hk'))
      · obtain ⟨wa, wb⟩ := w
        simp only at hw1 hw2
        subst hw1 hw2
        exact tagGet_of_mem langs hl _ _ ((hlo _).mp hw)
    rw [g2]
  · have g2 : revLookup lo L = [] := by
      rcases sp2 with ⟨h0, _⟩ | ⟨_, ⟨w, hw, _, hw2⟩, _⟩
      · exact h0
      · exact absurd (hu ▸ hw2) (hnone w ((hlo _).mp hw))
    rw [g2, tagGet_nil langs hkl, hu]
    simp

/-! ### the normal form of the reverse lookup over the regenerated tables -/

/-! Kernel evaluation over the 620-entry language table.  The extractor emits the tables in
increasing order of the tags; that order is checked here (linear) and gives distinct keys and
"smallest key with the value = first entry with the value".  Values are compared through an
injective numeric code (one accelerated `Nat.beq` instead of a list comparison). -/

def strictSorted : List (List Nat × List Nat) → Bool
  | [] => true
  | [p] => !p.1.isEmpty
  | p :: q :: rest => !p.1.isEmpty && lexLt p.1 q.1 && strictSorted (q :: rest)

theorem lexLt_le {a b : List Nat} (h : lexLt a b = true) : lexLe a b = true := by
  have := lexLe_total a b
  simp only [lexLt, Bool.not_eq_true'] at h
  simpa [h] using this

theorem lexLt_trans {a b c : List Nat} (h1 : lexLt a b = true) (h2 : lexLt b c = true) : lexLt a c = true := by
  simp only [lexLt, Bool.not_eq_true'] at *
  cases hca : lexLe c a with
  | false => rfl
  | true =>
    have hab := lexLt_le (a := a) (b := b) (by simp [lexLt, h1])
    have := lexLe_trans c a b hca hab
    rw [this] at h2; cases h2

theorem strictSorted_spec : ∀ (tbl : List (List Nat × List Nat)), strictSorted tbl = true →
    tbl.Pairwise (fun a b => lexLt a.1 b.1 = true) ∧ ∀ p ∈ tbl, p.1 ≠ []
  | [], _ => ⟨List.Pairwise.nil, fun p hp => by cases hp⟩
  | [p], h => by
    simp only [strictSorted, Bool.not_eq_true', List.isEmpty_eq_false_iff] at h
    exact ⟨List.pairwise_singleton _ _, fun q hq => by simp only [List.mem_singleton] at hq; rw [hq]; exact h⟩
  | p :: q :: rest, h => by
    simp only [strictSorted, Bool.and_eq_true, Bool.not_eq_true', List.isEmpty_eq_false_iff] at h
    obtain ⟨ih1, ih2⟩ := strictSorted_spec (q :: rest) h.2
    refine ⟨List.pairwise_cons.mpr ⟨?_, ih1⟩, ?_⟩
    · intro x hx
      simp only [List.mem_cons] at hx
      rcases hx with rfl | hx
      · exact h.1.2
      · exact lexLt_trans h.1.2 ((List.pairwise_cons.mp ih1).1 x hx)
    · intro x hx
      simp only [List.mem_cons] at hx
      rcases hx with rfl | hx
      · exact h.1.1
      · exact ih2 x (by simp only [List.mem_cons]; exact hx)

theorem tagTableOK_of_sorted (tbl : List (List Nat × List Nat)) (h : strictSorted tbl = true) :
    tagTableOK tbl = true := by
  obtain ⟨hp, hk⟩ := strictSorted_spec tbl h
  clear h
  induction tbl with
  | nil => rfl
  | cons p t ih =>
    rw [List.pairwise_cons] at hp
    simp only [tagTableOK, Bool.and_eq_true, Bool.not_eq_true', List.isEmpty_eq_false_iff, List.any_eq_false]
    refine ⟨⟨hk p List.mem_cons_self, ?_⟩, ih hp.2 (fun q hq => hk q (List.mem_cons_of_mem _ hq))⟩
    intro q hq
    have := hp.1 q hq
    intro heq
    have e : q.1 = p.1 := by simpa using heq
    rw [e] at this
    simp [lexLt, lexLe_refl] at this

/-- first entry with the value -/
def firstMatch : List (List Nat × List Nat) → List Nat → List Nat
  | [], _ => []
  | p :: rest, val => if p.2 = val then p.1 else firstMatch rest val

theorem firstMatch_spec (tbl : List (List Nat × List Nat)) (val : List Nat)
    (hp : tbl.Pairwise (fun a b => lexLt a.1 b.1 = true)) (hk : ∀ p ∈ tbl, p.1 ≠ []) :
    RevSpec tbl val (firstMatch tbl val) := by
  induction tbl with
  | nil => exact Or.inl ⟨rfl, fun p hp => by cases hp⟩
  | cons p t ih =>
    rw [List.pairwise_cons] at hp
    unfold firstMatch
    by_cases hv : p.2 = val
    · simp only [hv, if_true]
      refine Or.inr ⟨hk p List.mem_cons_self, ⟨p, List.mem_cons_self, rfl, hv⟩, ?_⟩
      intro q hq _
      simp only [List.mem_cons] at hq
      rcases hq with rfl | hq
      · exact lexLe_refl _
      · exact lexLt_le (hp.1 q hq)
    · simp only [hv, if_false]
      rcases ih hp.2 (fun q hq => hk q (List.mem_cons_of_mem _ hq)) with ⟨h0, hno⟩ | ⟨h0, ⟨w, hw, hw1, hw2⟩, hmin⟩
      · refine Or.inl ⟨h0, ?_⟩
        intro q hq
        simp only [List.mem_cons] at hq
        rcases hq with rfl | hq
        · exact hv
        · exact hno q hq
      · refine Or.inr ⟨h0, ⟨w, List.mem_cons_of_mem _ hw, hw1, hw2⟩, ?_⟩
        intro q hq hqv
        simp only [List.mem_cons] at hq
        rcases hq with rfl | hq
        · exact absurd hqv hv
        · exact hmin q hq hqv

theorem revLookup_eq_firstMatch (tbl : List (List Nat × List Nat)) (val : List Nat)
    (hs : strictSorted tbl = true) : revLookup tbl val = firstMatch tbl val := by
  obtain ⟨hp, hk⟩ := strictSorted_spec tbl hs
  exact RevSpec_unique tbl tbl val _ _ (fun _ => Iff.rfl) (revLookup_spec tbl val hk)
    (firstMatch_spec tbl val hp hk)

/-- little-endian base-256 code with a terminating 1: injective on byte strings -/
def codeR : List Nat → Nat
  | [] => 1
  | b :: t => b + 256 * codeR t

theorem codeR_pos (l : List Nat) : 1 ≤ codeR l := by
  cases l with
  | nil => exact Nat.le_refl 1
  | cons b t => simp only [codeR]; have := codeR_pos t; omega

theorem codeR_inj : ∀ (a b : List Nat), (∀ x ∈ a, x < 256) → (∀ x ∈ b, x < 256) → codeR a = codeR b → a = b
  | [], [], _, _, _ => rfl
  | [], y :: u, _, _, h => by
    simp only [codeR] at h; have := codeR_pos u; omega
  | x :: t, [], _, _, h => by
    simp only [codeR] at h; have := codeR_pos t; omega
  | x :: t, y :: u, ha, hb, h => by
    simp only [codeR] at h
    have hx := ha x List.mem_cons_self
    have hy := hb y List.mem_cons_self
    have h1 : x = y := by omega
    have h2 : codeR t = codeR u := by omega
    rw [h1, codeR_inj t u (fun z hz => ha z (List.mem_cons_of_mem _ hz))
      (fun z hz => hb z (List.mem_cons_of_mem _ hz)) h2]

def firstMatchC : List (List Nat × Nat) → Nat → List Nat
  | [], _ => []
  | p :: rest, v =>
    match Nat.beq p.2 v with
    | true => p.1
    | false => firstMatchC rest v

def codedTable (tbl : List (List Nat × List Nat)) : List (List Nat × Nat) := tbl.map fun p => (p.1, codeR p.2)

def bytesB (l : List Nat) : Bool := l.all fun x => Nat.blt x 256

theorem bytesB_sound (l : List Nat) (h : bytesB l = true) : ∀ x ∈ l, x < 256 := by
  intro x hx
  have := List.all_eq_true.mp h x hx
  simpa [Nat.blt_eq] using this

theorem firstMatchC_eq (tbl : List (List Nat × List Nat)) (val : List Nat)
    (ht : ∀ p ∈ tbl, ∀ x ∈ p.2, x < 256) (hv : ∀ x ∈ val, x < 256) :
    firstMatchC (codedTable tbl) (codeR val) = firstMatch tbl val := by
  induction tbl with
  | nil => rfl
  | cons p t ih =>
    simp only [codedTable, List.map_cons, firstMatchC, firstMatch] at ih ⊢
    have ih' := ih (fun q hq => ht q (List.mem_cons_of_mem _ hq))
    by_cases hpv : p.2 = val
    · subst hpv
      simp only [Nat.beq_refl, if_true]
    · have : Nat.beq (codeR p.2) (codeR val) = false := by
        cases hb : Nat.beq (codeR p.2) (codeR val) with
        | false => rfl
        | true =>
          exact absurd (codeR_inj _ _ (ht p List.mem_cons_self) hv (Nat.eq_of_beq_eq_true hb)) hpv
      simp only [this, hpv, if_false]
      exact ih'

def checkNF (twins : List (List Nat × List Nat)) (coded : List (List Nat × Nat))
    (tbl : List (List Nat × List Nat)) : Bool :=
  tbl.all fun q => q.2.contains 45 || firstMatchC coded (codeR q.2) == nfTag twins q.1

theorem otScripts_sorted : strictSorted Gen.otScripts = true := by decide +kernel
theorem otLangs_sorted : strictSorted Gen.otLangs = true := by decide +kernel
theorem otScripts_ok : tagTableOK Gen.otScripts = true := tagTableOK_of_sorted _ otScripts_sorted
theorem otLangs_ok : tagTableOK Gen.otLangs = true := tagTableOK_of_sorted _ otLangs_sorted

theorem otTables_bytes :
    (Gen.otScripts.all fun p => bytesB p.2) = true ∧ (Gen.otLangs.all fun p => bytesB p.2) = true := by
  constructor <;> decide +kernel

theorem otScripts_nfC : checkNF scriptTwins (codedTable Gen.otScripts) Gen.otScripts = true := by
  decide +kernel

theorem otLangs_nfC : checkNF langTwins (codedTable Gen.otLangs) Gen.otLangs = true := by
  decide +kernel

theorem nf_of_check (twins tbl : List (List Nat × List Nat)) (hs : strictSorted tbl = true)
    (hb : (tbl.all fun p => bytesB p.2) = true) (hc : checkNF twins (codedTable tbl) tbl = true)
    (q : List Nat × List Nat) (hq : q ∈ tbl) (hd : q.2.contains 45 = false) :
    revLookup tbl q.2 = nfTag twins q.1 := by
  have hbytes : ∀ p ∈ tbl, ∀ x ∈ p.2, x < 256 :=
    fun p hp => bytesB_sound _ (List.all_eq_true.mp hb p hp)
  have := List.all_eq_true.mp hc q hq
  rw [hd, Bool.false_or, firstMatchC_eq tbl q.2 hbytes (hbytes q hq)] at this
  rw [revLookup_eq_firstMatch tbl q.2 hs]
  exact eq_of_beq this

/-- every script of the table: the reverse lookup of its BCP 47 value gives the script itself,
except for the ten scripts listed in `scriptTwins`, which give their smaller twin -/
theorem otScripts_nf (p : List Nat × List Nat) (hp : p ∈ Gen.otScripts) :
    revLookup Gen.otScripts p.2 = nfTag scriptTwins p.1 := by
  have hd : p.2.contains 45 = false := by
    have h : (Gen.otScripts.all fun p => !p.2.contains 45) = true := by decide +kernel
    have := List.all_eq_true.mp h p hp
    simpa using this
  exact nf_of_check scriptTwins Gen.otScripts otScripts_sorted otTables_bytes.1 otScripts_nfC p hp hd

/-- every language whose BCP 47 value is a bare language subtag: the reverse lookup gives the
language itself, except for the nineteen listed in `langTwins`, which give their smaller twin -/
theorem otLangs_nf (q : List Nat × List Nat) (hq : q ∈ Gen.otLangs) (hd : q.2.contains 45 = false) :
    revLookup Gen.otLangs q.2 = nfTag langTwins q.1 :=
  nf_of_check langTwins Gen.otLangs otLangs_sorted otTables_bytes.2 otLangs_nfC q hq hd

/-- the eight languages whose value is not a bare subtag (never found by the reverse lookup,
because `tag.Raw()` yields a bare language subtag); `ZHS `, `ZHT ` come back through the special
cases for `zh-Hans`, `zh-Hant` -/
theorem otLangs_dashed :
    (Gen.otLangs.filter fun q => q.2.contains 45).map (·.1) =
      [[80, 71, 82, 32], [83, 89, 82, 69], [83, 89, 82, 74], [83, 89, 82, 78],
       [90, 72, 72, 32], [90, 72, 83, 32], [90, 72, 84, 32], [90, 72, 84, 77]] := by
  decide +kernel

/-- `und` is not the value of any language tag, `Hans`/`Hant` are not the value of any script tag -/
theorem otTables_misc :
    (Gen.otLangs.all fun q => q.2 != undS) = true ∧
    (Gen.otScripts.all fun p => p.2 != [72, 97, 110, 115] && p.2 != [72, 97, 110, 116]) = true ∧
    tagGet Gen.otLangs ZHP = some [122, 104] ∧ tagGet Gen.otScripts hani = some [72, 97, 110, 105] := by
  refine ⟨?_, ?_, ?_, ?_⟩ <;> decide +kernel

end SfntV.Names
