/-
C06, ligature substitution (GSUB 4.1) as a nested lookup: what `fixStackMerge` does to a stack
entry whose input positions are strictly increasing and contain the first merged position (M1),
and elementary facts on `mergePos` (M2).
-/
import SfntV.Proofs.ShapeSpecMergeBase
import SfntV.Proofs.ShapeSpecInsEngine
set_option linter.unusedSimpArgs false
set_option linter.unusedVariables false
namespace SfntV.C06
open SfntV
open SfntV.Shape (Glyph Gdef Lookup LookupList Subtable Action St Nested)

/-! ## counting -/

/-- a strictly increasing list of naturals in `[a, n)` has at most `n - a` elements -/
theorem length_add_le_of_sorted (l : List Nat) (a n : Nat) (hs : l.Pairwise (· < ·)) (han : a ≤ n)
    (hlo : ∀ x ∈ l, a ≤ x) (hhi : ∀ x ∈ l, x < n) : l.length + a ≤ n := by
  induction l generalizing a with
  | nil => simpa using han
  | cons x xs ih =>
    rw [List.pairwise_cons] at hs
    have hx1 := hlo x (List.mem_cons_self ..)
    have hx2 := hhi x (List.mem_cons_self ..)
    have := ih (x + 1) hs.2 (by omega) (fun y hy => hs.1 y hy) (fun y hy => hhi y (List.mem_cons_of_mem _ hy))
    simp only [List.length_cons]
    omega

theorem length_le_of_sorted (l : List Nat) (n : Nat) (hs : l.Pairwise (· < ·)) (hhi : ∀ x ∈ l, x < n) :
    l.length ≤ n :=
  length_add_le_of_sorted l 0 n hs (Nat.zero_le _) (fun _ _ => Nat.zero_le _) hhi

/-- the number of deleted positions below `p` is at most `p` -/
theorem countLt_le (cs : List Nat) (p : Nat) (hcs : cs.Pairwise (· < ·)) : (cs.filter (· < p)).length ≤ p := by
  apply length_le_of_sorted _ _ (hcs.filter _)
  intro x hx
  simpa using (List.mem_filter.mp hx).2

theorem countLt_eq_zero (cs : List Nat) (p : Nat) (h : ∀ c ∈ cs, p ≤ c) : (cs.filter (· < p)).length = 0 := by
  rw [List.length_eq_zero_iff, List.filter_eq_nil_iff]
  intro c hc
  have := h c hc
  simp only [decide_eq_true_eq]
  omega

theorem contains_eq_false_of_lt (cs : List Nat) (p : Nat) (h : ∀ c ∈ cs, p < c) : cs.contains p = false := by
  rw [Bool.eq_false_iff]
  intro hh
  have := h p (List.contains_iff_mem.mp hh)
  omega

/-! ## M2: `mergePos` -/

theorem mergePos_nil_ps (cs : List Nat) : mergePos [] cs = [] := rfl

theorem mergePos_cons (p : Nat) (ps cs : List Nat) :
    mergePos (p :: ps) cs =
      if cs.contains p then mergePos ps cs else (p - (cs.filter (· < p)).length) :: mergePos ps cs := by
  simp only [mergePos, List.filter_cons]
  cases cs.contains p <;> simp

theorem mergePos_nil (ps : List Nat) : mergePos ps [] = ps := by
  simp [mergePos]

theorem mergePos_length_le (ps cs : List Nat) : (mergePos ps cs).length ≤ ps.length := by
  simp only [mergePos, List.length_map]
  exact List.length_filter_le _ _

private theorem contains_map_add (cs : List Nat) (p a : Nat) : (cs.map (· + a)).contains (p + a) = cs.contains p := by
  induction cs with
  | nil => rfl
  | cons c cs ih =>
    simp only [List.map_cons, List.contains_cons, ih]
    congr 1
    rw [Bool.eq_iff_iff]
    simp only [beq_iff_eq]
    omega

private theorem countLt_map_add (cs : List Nat) (p a : Nat) :
    ((cs.map (· + a)).filter (· < p + a)).length = (cs.filter (· < p)).length := by
  induction cs with
  | nil => rfl
  | cons c cs ih =>
    simp only [List.map_cons, List.filter_cons]
    by_cases h : c < p
    · have h' : c + a < p + a := by omega
      simp only [h, h', decide_true, if_true, List.length_cons, ih]
    · have h' : ¬ (c + a < p + a) := by omega
      simp only [h, h', decide_false, Bool.false_eq_true, if_false, ih]

/-- `mergePos` commutes with a shift of all positions.  The hypothesis on `cs` is needed:
`(mergePos [1] [0,0]).map (· + 1) = [1]` but `mergePos [2] [1,1] = [0]` (truncated subtraction). -/
theorem mergePos_shift (ps cs : List Nat) (a : Nat) (hcs : cs.Pairwise (· < ·)) :
    (mergePos ps cs).map (· + a) = mergePos (ps.map (· + a)) (cs.map (· + a)) := by
  induction ps with
  | nil => rfl
  | cons p ps ih =>
    rw [List.map_cons, mergePos_cons, mergePos_cons, contains_map_add, countLt_map_add]
    cases cs.contains p
    · simp only [Bool.false_eq_true, if_false, List.map_cons, ih]
      congr 1
      have := countLt_le cs p hcs
      omega
    · simp only [if_true, ih]

/-- `mergePos` keeps the order -/
theorem mergePos_sorted (ps cs : List Nat) (hps : ps.Pairwise (· < ·)) (hcs : cs.Pairwise (· < ·)) :
    (mergePos ps cs).Pairwise (· < ·) := by
  have key : ∀ (cs : List Nat), cs.Pairwise (· < ·) → ∀ a b : Nat, a < b → a ∉ cs →
      (cs.filter (· < b)).length + a + 1 ≤ (cs.filter (· < a)).length + b := by
    intro cs hcs a b hab
    induction cs with
    | nil => intro _; simp; omega
    | cons c cs ih =>
      intro hm
      rw [List.pairwise_cons] at hcs
      have hca : c ≠ a := fun h => hm (h ▸ List.mem_cons_self ..)
      have hm' : a ∉ cs := fun h => hm (List.mem_cons_of_mem _ h)
      by_cases h1 : c < a
      · have h2 : c < b := by omega
        have := ih hcs.2 hm'
        simp only [List.filter_cons, h1, h2, decide_true, if_true, List.length_cons]
        omega
      · have hac : a < c := by omega
        have hz : ((c :: cs).filter (· < a)).length = 0 := by
          apply countLt_eq_zero
          intro x hx
          rcases List.mem_cons.mp hx with hx | hx
          · omega
          · have := hcs.1 x hx; omega
        rw [hz]
        have := length_add_le_of_sorted ((c :: cs).filter (· < b)) (a + 1) b
          ((List.pairwise_cons.mpr hcs).filter _) (by omega)
          (by
            intro x hx
            rcases List.mem_cons.mp (List.mem_filter.mp hx).1 with hx | hx
            · omega
            · have := hcs.1 x hx; omega)
          (by
            intro x hx
            simpa using (List.mem_filter.mp hx).2)
        omega
  unfold mergePos
  rw [List.pairwise_map]
  have hf := hps.filter (fun p => !cs.contains p)
  refine List.Pairwise.imp_of_mem ?_ hf
  intro a b ha _ hab
  have ha' : a ∉ cs := by
    have := (List.mem_filter.mp ha).2
    intro hh
    rw [List.contains_iff_mem.mpr hh] at this
    cases this
  have h1 := key cs hcs a b hab ha'
  have h2 := countLt_le cs a hcs
  omega

/-! ## `mergeWalk`, one step -/

theorem mergeWalk_nil_inp (p : Int) (ps : List Int) (first : Bool) (d : Int) :
    Shape.mergeWalk (p :: ps) first [] d = ([], false) := by
  simp [Shape.mergeWalk]

/-- an input position below the current merged position is kept, lowered by `delta` -/
theorem mergeWalk_cons_lt (p q : Int) (ps inp : List Int) (first : Bool) (d : Int) (h : q < p) :
    Shape.mergeWalk (p :: ps) first (q :: inp) d =
      ((q - d) :: (Shape.mergeWalk (p :: ps) first inp d).1, (Shape.mergeWalk (p :: ps) first inp d).2) := by
  rw [Shape.mergeWalk, Shape.mergeWalk]
  simp only [List.takeWhile_cons, List.dropWhile_cons, h, decide_true, if_true, List.map_cons]
  split
  · rfl
  · split
    · rfl
    · split <;> rfl

/-- the current merged position is not an input position -/
theorem mergeWalk_cons_gt (p q : Int) (ps inp : List Int) (first : Bool) (d : Int) (h : p < q) :
    Shape.mergeWalk (p :: ps) first (q :: inp) d =
      Shape.mergeWalk ps false (q :: inp) (if first then d else d + 1) := by
  have h' : ¬ q < p := by omega
  rw [Shape.mergeWalk]
  simp only [List.takeWhile_cons, List.dropWhile_cons, h', decide_false, Bool.false_eq_true, if_false, h, if_true,
    List.map_nil, List.nil_append]

/-- the current merged position is an input position -/
theorem mergeWalk_cons_eq (p : Int) (ps inp : List Int) (first : Bool) (d : Int) :
    Shape.mergeWalk (p :: ps) first (p :: inp) d =
      if first then (p :: (Shape.mergeWalk ps false inp d).1, true)
      else ((Shape.mergeWalk ps false inp (d + 1)).1, ps.isEmpty || (Shape.mergeWalk ps false inp (d + 1)).2) := by
  have h' : ¬ p < p := by omega
  rw [Shape.mergeWalk]
  simp only [List.takeWhile_cons, List.dropWhile_cons, h', decide_false, Bool.false_eq_true, if_false,
    List.map_nil, List.nil_append]
  cases first <;> simp

/-! ## `mergeWalk` on sorted lists -/

/-- `mergePos` with integer values and a running `delta` -/
private def mergeI (cs : List Nat) (d : Int) (ps : List Nat) : List Int :=
  (ps.filter fun p => !cs.contains p).map fun (p : Nat) => (p : Int) - d - ((cs.filter fun c => c < p).length : Int)

private theorem mergeI_cons (cs : List Nat) (d : Int) (p : Nat) (ps : List Nat) :
    mergeI cs d (p :: ps) =
      if cs.contains p then mergeI cs d ps
      else ((p : Int) - d - ((cs.filter fun c => c < p).length : Int)) :: mergeI cs d ps := by
  simp only [mergeI, List.filter_cons]
  cases cs.contains p <;> simp

private theorem mergeI_cons_lt (cs : List Nat) (d : Int) (p : Nat) (ps : List Nat) (h : ∀ c ∈ cs, p < c) :
    mergeI cs d (p :: ps) = ((p : Int) - d) :: mergeI cs d ps := by
  rw [mergeI_cons, contains_eq_false_of_lt cs p h, countLt_eq_zero cs p (fun c hc => Nat.le_of_lt (h c hc))]
  simp

private theorem mergeI_nil_cs (d : Int) (ps : List Nat) : mergeI [] d ps = (ps.map Int.ofNat).map (· - d) := by
  induction ps with
  | nil => rfl
  | cons p ps ih =>
    rw [mergeI_cons, ih]
    simp

/-- behind a merged position it only counts as one more deleted glyph -/
private theorem mergeI_skip (c : Nat) (cs : List Nat) (d : Int) (ps : List Nat) (h : ∀ p ∈ ps, c < p) :
    mergeI (c :: cs) d ps = mergeI cs (d + 1) ps := by
  induction ps with
  | nil => rfl
  | cons p ps ih =>
    have hp : c < p := h p (List.mem_cons_self ..)
    have hne : (p == c) = false := by simp; omega
    rw [mergeI_cons, mergeI_cons, ih (fun q hq => h q (List.mem_cons_of_mem _ hq))]
    simp only [List.contains_cons, hne, Bool.false_or, List.filter_cons, hp, decide_true, if_true, List.length_cons]
    cases cs.contains p
    · simp only [Bool.false_eq_true, if_false]
      congr 1
      omega
    · rfl

private theorem mergeI_eq_mergePos (cs ps : List Nat) (hcs : cs.Pairwise (· < ·)) :
    mergeI cs 0 ps = (mergePos ps cs).map Int.ofNat := by
  induction ps with
  | nil => rfl
  | cons p ps ih =>
    rw [mergeI_cons, mergePos_cons, ih]
    cases cs.contains p
    · simp only [Bool.false_eq_true, if_false, List.map_cons, Int.ofNat_eq_natCast]
      congr 1
      have := countLt_le cs p hcs
      omega
    · rfl

/-- the walk behind the first merged position: `d` merged positions have been passed -/
private theorem mergeWalk_tail (cs ps : List Nat) (d : Int) (hcs : cs.Pairwise (· < ·)) (hps : ps.Pairwise (· < ·)) :
    (Shape.mergeWalk (cs.map Int.ofNat) false (ps.map Int.ofNat) d).1 = mergeI cs d ps := by
  induction cs generalizing d ps with
  | nil => simp only [List.map_nil, Shape.mergeWalk, mergeI_nil_cs]
  | cons c cs ih =>
    rw [List.pairwise_cons] at hcs
    induction ps with
    | nil => simp only [List.map_cons, List.map_nil, mergeWalk_nil_inp]; rfl
    | cons q ps ihp =>
      have hps' := hps
      rw [List.pairwise_cons] at hps'
      rcases Nat.lt_trichotomy q c with hqc | hqc | hqc
      · have hI : Int.ofNat q < Int.ofNat c := by simp only [Int.ofNat_eq_natCast]; omega
        rw [List.map_cons, List.map_cons, mergeWalk_cons_lt _ _ _ _ _ _ hI]
        simp only
        rw [← List.map_cons, ihp hps'.2, mergeI_cons_lt]
        · rfl
        · intro x hx
          rcases List.mem_cons.mp hx with hx | hx
          · omega
          · have := hcs.1 x hx; omega
      · subst hqc
        rw [List.map_cons, List.map_cons, mergeWalk_cons_eq]
        simp only [Bool.false_eq_true, if_false]
        rw [ih ps (d + 1) hcs.2 hps'.2, mergeI_cons, mergeI_skip q cs d ps hps'.1]
        simp
      · have hI : Int.ofNat c < Int.ofNat q := by simp only [Int.ofNat_eq_natCast]; omega
        rw [List.map_cons (l := cs), List.map_cons (l := ps), mergeWalk_cons_gt _ _ _ _ _ _ hI]
        simp only [Bool.false_eq_true, if_false]
        rw [← List.map_cons, ih (q :: ps) (d + 1) hcs.2 hps, mergeI_skip]
        intro x hx
        rcases List.mem_cons.mp hx with hx | hx
        · omega
        · have := hps'.1 x hx; omega

/-- the whole walk of `fixStackMerge`, the first merged position being an input position -/
theorem mergeWalk_mergePos (ps cs : List Nat) (j : Nat)
    (hps : ps.Pairwise (· < ·)) (hj : j ∈ ps) (hcs : cs.Pairwise (· < ·)) (hjc : ∀ c ∈ cs, j < c) :
    Shape.mergeWalk ((j :: cs).map Int.ofNat) true (ps.map Int.ofNat) 0
      = ((mergePos ps cs).map Int.ofNat, true) := by
  rw [← mergeI_eq_mergePos cs ps hcs]
  induction ps with
  | nil => cases hj
  | cons q ps ih =>
    rw [List.pairwise_cons] at hps
    by_cases hqj : q = j
    · subst hqj
      rw [List.map_cons, List.map_cons, mergeWalk_cons_eq]
      simp only [if_true]
      rw [mergeWalk_tail cs ps 0 hcs hps.2, mergeI_cons_lt cs 0 q ps hjc]
      simp
    · have hj' : j ∈ ps := by
        rcases List.mem_cons.mp hj with h | h
        · exact absurd h.symm hqj
        · exact h
      have hlt : q < j := hps.1 j hj'
      have hI : Int.ofNat q < Int.ofNat j := by simp only [Int.ofNat_eq_natCast]; omega
      rw [List.map_cons, List.map_cons, mergeWalk_cons_lt _ _ _ _ _ _ hI]
      rw [← List.map_cons, ih hps.2 hj', mergeI_cons_lt]
      · rfl
      · intro c hc
        have := hjc c hc
        omega

/-! ## `bsearch` -/

private theorem bsearch_inv (l : List Int) (t : Int) (i : Nat) (hs : l.Pairwise (· < ·)) (hi : l[i]? = some t)
    (f lo hi' : Nat) (h1 : lo ≤ i) (h2 : i ≤ hi') (h3 : hi' ≤ l.length) (hf : hi' - lo < f) :
    Shape.bsearch l t f lo hi' = i := by
  obtain ⟨hil, hit⟩ := List.getElem?_eq_some_iff.mp hi
  rw [List.pairwise_iff_getElem] at hs
  induction f generalizing lo hi' with
  | zero => omega
  | succ f ih =>
    rw [Shape.bsearch]
    by_cases hlt : lo < hi'
    · simp only [hlt, if_true]
      have hh : (lo + hi') / 2 < l.length := by omega
      have hg : l.getD ((lo + hi') / 2) 0 = l[(lo + hi') / 2] := by
        rw [List.getD_eq_getElem?_getD, List.getElem?_eq_getElem hh]
        rfl
      rw [hg]
      by_cases hc : l[(lo + hi') / 2] < t
      · simp only [hc, if_true]
        have : (lo + hi') / 2 < i := by
          apply Classical.byContradiction
          intro hn
          by_cases he : (lo + hi') / 2 = i
          · simp only [he] at hc
            omega
          · have := hs i ((lo + hi') / 2) hil hh (by omega)
            omega
        exact ih _ _ (by omega) h2 h3 (by omega)
      · simp only [hc, if_false]
        have : i ≤ (lo + hi') / 2 := by
          apply Classical.byContradiction
          intro hn
          have := hs ((lo + hi') / 2) i hh hil (by omega)
          omega
        exact ih _ _ h1 this (by omega) (by omega)
    · simp only [hlt, if_false]
      omega

/-- `slices.BinarySearch` finds an element of a strictly increasing list -/
theorem bsearch_sorted (l : List Int) (t : Int) (i : Nat) (hs : l.Pairwise (· < ·)) (hi : l[i]? = some t) :
    Shape.bsearch l t (l.length + 1) 0 l.length = i := by
  have hil := (List.getElem?_eq_some_iff.mp hi).1
  exact bsearch_inv l t i hs hi _ _ _ (Nat.zero_le _) (by omega) (Nat.le_refl _) (by omega)

/-! ## M1: `fixMergeOne` -/

theorem mem_mergePos_first (ps cs : List Nat) (j : Nat) (hj : j ∈ ps) (hjc : ∀ c ∈ cs, j < c) :
    j ∈ mergePos ps cs := by
  unfold mergePos
  rw [List.mem_map]
  refine ⟨j, List.mem_filter.mpr ⟨hj, ?_⟩, ?_⟩
  · rw [contains_eq_false_of_lt cs j hjc]
    rfl
  · rw [countLt_eq_zero cs j (fun c hc => Nat.le_of_lt (hjc c hc))]
    rfl

theorem fixMergeOne_mergePos (ps cs : List Nat) (acts : List Action) (e j : Nat)
    (hps : ps.Pairwise (· < ·)) (hj : j ∈ ps) (hcs : cs.Pairwise (· < ·)) (hjc : ∀ c ∈ cs, j < c)
    (hpe : ∀ p ∈ ps, p < e) (hce : ∀ c ∈ cs, c < e) :
    Shape.fixMergeOne ((j :: cs).map Int.ofNat) ⟨ps.map Int.ofNat, acts, (e : Int)⟩
      = ⟨(mergePos ps cs).map Int.ofNat, acts, ((e - cs.length : Nat) : Int)⟩ := by
  have hje : j < e := hpe j hj
  have h0 : ¬ ((e : Int) ≤ Int.ofNat j) := by simp only [Int.ofNat_eq_natCast]; omega
  have hw := mergeWalk_mergePos ps cs j hps hj hcs hjc
  have hlen : cs.length ≤ e := length_le_of_sorted cs e hcs hce
  have hsI : ((mergePos ps cs).map Int.ofNat).Pairwise (· < ·) := by
    rw [List.pairwise_map]
    refine (mergePos_sorted ps cs hps hcs).imp ?_
    intro a b hab
    simp only [Int.ofNat_eq_natCast]
    omega
  obtain ⟨i, hi⟩ : ∃ i, ((mergePos ps cs).map Int.ofNat)[i]? = some (Int.ofNat j) :=
    List.getElem?_of_mem (List.mem_map.mpr ⟨j, mem_mergePos_first ps cs j hj hjc, rfl⟩)
  have hb := bsearch_sorted _ _ i hsI hi
  rw [List.length_map] at hb
  rw [List.map_cons] at hw ⊢
  simp only [Shape.fixMergeOne, h0, if_false, hw, hb, hi, beq_self_eq_true, Bool.not_true, Bool.and_false,
    Bool.false_eq_true, Bool.and_self, if_false, List.length_cons, List.length_map, Nat.add_sub_cancel]
  congr 1
  omega

end SfntV.C06
