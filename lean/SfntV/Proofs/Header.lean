/-
Proofs for property C03 (header.Write produces well-formed sfnt containers).
Helper lemmas only; the property theorems are stated in Props/C03.lean.
-/
import SfntV.Model.Header

namespace SfntV.Header
open SfntV

/-! ## the name order -/

theorem nameLt_irrefl (a : Bytes) : nameLt a a = false := by
  induction a with
  | nil => rfl
  | cons x xs ih => simp [nameLt, ih]

theorem nameLt_trans : ∀ (a b c : Bytes), nameLt a b = true → nameLt b c = true → nameLt a c = true
  | [], [], _, h, _ => by simp [nameLt] at h
  | [], _ :: _, [], _, h => by simp [nameLt] at h
  | [], _ :: _, _ :: _, _, _ => by simp [nameLt]
  | _ :: _, [], _, h, _ => by simp [nameLt] at h
  | _ :: _, _ :: _, [], _, h => by simp [nameLt] at h
  | x :: xs, y :: ys, z :: zs, h1, h2 => by
    simp only [nameLt] at h1 h2 ⊢
    have ih := nameLt_trans xs ys zs
    simp only [UInt8.lt_iff_toNat_lt] at h1 h2 ⊢
    split at h1
    · split at h2
      · rw [if_pos (by omega)]
      · split at h2
        · simp at h2
        · rw [if_pos (by omega)]
    · split at h1
      · simp at h1
      · split at h2
        · rw [if_pos (by omega)]
        · split at h2
          · simp at h2
          · rw [if_neg (by omega), if_neg (by omega)]; exact ih h1 h2

theorem nameLt_tri : ∀ (a b : Bytes), nameLt a b = false → nameLt b a = false → a = b
  | [], [], _, _ => rfl
  | [], _ :: _, h, _ => by simp [nameLt] at h
  | _ :: _, [], _, h => by simp [nameLt] at h
  | x :: xs, y :: ys, h1, h2 => by
    simp only [nameLt] at h1 h2
    simp only [UInt8.lt_iff_toNat_lt] at h1 h2
    split at h1
    · simp at h1
    · split at h1
      · rw [if_pos (by omega)] at h2; simp at h2
      · rw [if_neg (by omega), if_neg (by omega)] at h2
        have : x = y := UInt8.toNat_inj.mp (by omega)
        rw [this, nameLt_tri xs ys h1 h2]

theorem nameLt_asymm (a b : Bytes) (h : nameLt a b = true) : nameLt b a = false := by
  cases h' : nameLt b a with
  | false => rfl
  | true => have := nameLt_trans a b a h h'; rw [nameLt_irrefl] at this; cases this

/-- negative transitivity -/
theorem nameLt_negtrans (a b c : Bytes) (h1 : nameLt b a = false) (h2 : nameLt c b = false) :
    nameLt c a = false := by
  cases h : nameLt c a with
  | false => rfl
  | true =>
    cases hbc : nameLt b c with
    | true => have := nameLt_trans b c a hbc h; rw [h1] at this; cases this
    | false => have := nameLt_tri b c hbc h2; subst this; rw [h1] at h; cases h

theorem recLe_trans (a b c : Rec) (h1 : recLe a b = true) (h2 : recLe b c = true) : recLe a c = true := by
  simp only [recLe, Bool.not_eq_true'] at *
  exact nameLt_negtrans _ _ _ h1 h2

theorem recLe_total (a b : Rec) : (recLe a b || recLe b a) = true := by
  simp only [recLe]
  cases h : nameLt b.tag a.tag with
  | false => simp
  | true => simp [nameLt_asymm _ _ h]

theorem layoutLe_trans (a b c : Bytes × Bytes) (h1 : layoutLe a b = true) (h2 : layoutLe b c = true) :
    layoutLe a c = true := by
  simp only [layoutLe] at *
  generalize prio a.1 = pa at *
  generalize prio b.1 = pb at *
  generalize prio c.1 = pc at *
  split at h1
  · simp only [decide_eq_true_eq] at h1
    split at h2
    · simp only [decide_eq_true_eq] at h2
      rw [if_pos (by omega)]; simp; omega
    · have : pb = pc := by simp_all
      subst this
      rw [if_pos (by omega)]; simp; omega
  · have : pa = pb := by simp_all
    subst this
    split at h2
    · simp only [decide_eq_true_eq] at h2
      rw [if_pos (by omega)]; simp; omega
    · rename_i h3
      rw [if_neg h3]
      simp only [Bool.not_eq_true'] at *
      exact nameLt_negtrans _ _ _ h1 h2

theorem layoutLe_total (a b : Bytes × Bytes) : (layoutLe a b || layoutLe b a) = true := by
  simp only [layoutLe]
  generalize prio a.1 = pa at *
  generalize prio b.1 = pb at *
  by_cases h : pa = pb
  · subst h
    simp only [ne_eq, not_true_eq_false, if_false]
    cases h : nameLt b.1 a.1 with
    | false => simp
    | true => simp [nameLt_asymm _ _ h]
  · have h' : pb ≠ pa := fun e => h e.symm
    simp only [ne_eq, h, h', not_false_eq_true, if_true, Bool.or_eq_true, decide_eq_true_eq]
    omega

theorem layoutLe_antisymm (a b : Bytes × Bytes) (h1 : layoutLe a b = true) (h2 : layoutLe b a = true) :
    a.1 = b.1 := by
  simp only [layoutLe] at *
  generalize prio a.1 = pa at *
  generalize prio b.1 = pb at *
  by_cases h : pa = pb
  · subst h
    simp only [ne_eq, not_true_eq_false, if_false, Bool.not_eq_true'] at h1 h2
    exact nameLt_tri _ _ h2 h1
  · have h' : pb ≠ pa := fun e => h e.symm
    simp only [ne_eq, h, h', not_false_eq_true, if_true, decide_eq_true_eq] at h1 h2
    omega


/-! ## checksums and big-endian fields -/

theorem cksum_append (xs ys : Bytes) (h : xs.length % 4 = 0) :
    cksum (xs ++ ys) = cksum xs + cksum ys := by
  induction xs using cksum.induct with
  | case1 a b c d rest ih =>
    simp only [List.length_cons] at h
    have h' : rest.length % 4 = 0 := by omega
    simp [cksum, ih h', UInt32.add_assoc]
  | case2 a b c => simp at h
  | case3 a b => simp at h
  | case4 a => simp at h
  | case5 => simp [cksum]

theorem cksum_pad4 (b : Bytes) : cksum (pad4 b) = cksum b := by
  induction b using cksum.induct with
  | case1 a b c d rest ih =>
    have : pad4 (a :: b :: c :: d :: rest) = a :: b :: c :: d :: pad4 rest := by
      simp [pad4, padLen]; congr 2; omega
    rw [this]; simp [cksum, ih]
  | case2 a b c => simp [pad4, padLen, cksum]
  | case3 a b => simp [pad4, padLen, cksum, List.replicate]
  | case4 a => simp [pad4, padLen, cksum, List.replicate]
  | case5 => simp [pad4, padLen, cksum]

theorem length_pad4 (b : Bytes) : (pad4 b).length = 4 * ((b.length + 3) / 4) := by
  simp only [pad4, padLen, List.length_append, List.length_replicate]; omega

theorem length_be32 (x : Nat) : (be32 x).length = 4 := rfl
theorem length_be16 (x : Nat) : (be16 x).length = 2 := rfl

theorem cksum_be32 (x : UInt32) : cksum (be32 x.toNat) = x := by
  simp only [be32, cksum, w32, UInt32.add_zero]
  apply UInt32.toNat_inj.mp
  have hx := x.toNat_lt
  simp only [UInt32.toNat_ofNat', UInt8.toNat_ofNat']
  omega

theorem cksum_zero4 : cksum ([0,0,0,0] : Bytes) = 0 := by
  simp [cksum, w32]

theorem cksum_patch (pre post : Bytes) (x : UInt32) (h : pre.length % 4 = 0) :
    cksum (pre ++ be32 x.toNat ++ post) = cksum (pre ++ [0,0,0,0] ++ post) + x := by
  have h4 : (be32 x.toNat).length % 4 = 0 := by simp [be32]
  have h0 : ([0,0,0,0] : Bytes).length % 4 = 0 := by simp
  rw [List.append_assoc, List.append_assoc, cksum_append _ _ h, cksum_append _ _ h4,
      cksum_append _ _ h, cksum_append _ _ h0, cksum_be32, cksum_zero4]
  simp only [UInt32.zero_add]
  rw [UInt32.add_comm x, UInt32.add_assoc]

theorem beVal_be32 (x : Nat) : beVal (be32 x) = x % 4294967296 := by
  simp only [be32, beVal, UInt8.toNat_ofNat', List.length_cons, List.length_nil]
  omega

theorem beVal_be16 (x : Nat) : beVal (be16 x) = x % 65536 := by
  simp only [be16, beVal, UInt8.toNat_ofNat', List.length_cons, List.length_nil]
  omega

theorem rd32_at (A B : Bytes) (x o : Nat) (h : o = A.length) :
    rd32 (A ++ (be32 x ++ B)) o = x % 4294967296 := by
  subst h
  have : ((be32 x ++ B).take 4) = be32 x := by
    rw [List.take_append_of_le_length (by simp [length_be32])]; exact List.take_of_length_le (by simp [length_be32])
  simp only [rd32, List.drop_left, this, beVal_be32]

theorem rd16_at (A B : Bytes) (x o : Nat) (h : o = A.length) :
    rd16 (A ++ (be16 x ++ B)) o = x % 65536 := by
  subst h
  have : ((be16 x ++ B).take 2) = be16 x := by
    rw [List.take_append_of_le_length (by simp [length_be16])]; exact List.take_of_length_le (by simp [length_be16])
  simp only [rd16, List.drop_left, this, beVal_be16]

/-! clearAdj / patchAdj -/

theorem length_clearAdj (d : Bytes) (h : 12 ≤ d.length) : (clearAdj d).length = d.length := by
  simp only [clearAdj, List.length_append, List.length_take, List.length_drop, List.length_cons, List.length_nil]
  omega

theorem length_patchAdj (d : Bytes) (v : UInt32) (h : 12 ≤ d.length) : (patchAdj d v).length = d.length := by
  simp only [patchAdj, List.length_append, List.length_take, List.length_drop, length_be32]
  omega

theorem take8_clearAdj (d : Bytes) (h : 12 ≤ d.length) : (clearAdj d).take 8 = d.take 8 := by
  have h8 : (d.take 8).length = 8 := by simp; omega
  simp only [clearAdj, List.append_assoc]
  rw [List.take_append_of_le_length (by omega), List.take_of_length_le (by omega)]

theorem drop12_clearAdj (d : Bytes) (h : 12 ≤ d.length) : (clearAdj d).drop 12 = d.drop 12 := by
  have h8 : (d.take 8 ++ [0,0,0,0]).length = 12 := by simp; omega
  simp only [clearAdj]
  rw [show (12 : Nat) = (d.take 8 ++ [0,0,0,0]).length from h8.symm, List.drop_left]

theorem take8_patchAdj (d : Bytes) (v : UInt32) (h : 12 ≤ d.length) : (patchAdj d v).take 8 = d.take 8 := by
  have h8 : (d.take 8).length = 8 := by simp; omega
  simp only [patchAdj, List.append_assoc]
  rw [List.take_append_of_le_length (by omega), List.take_of_length_le (by omega)]

theorem drop12_patchAdj (d : Bytes) (v : UInt32) (h : 12 ≤ d.length) : (patchAdj d v).drop 12 = d.drop 12 := by
  have h8 : (d.take 8 ++ be32 v.toNat).length = 12 := by simp [length_be32]; omega
  simp only [patchAdj]
  rw [show (12 : Nat) = (d.take 8 ++ be32 v.toNat).length from h8.symm, List.drop_left]

theorem clearAdj_patchAdj (d : Bytes) (v : UInt32) (h : 12 ≤ d.length) :
    clearAdj (patchAdj d v) = clearAdj d := by
  rw [clearAdj, take8_patchAdj d v h, drop12_patchAdj d v h, clearAdj]

theorem clearAdj_clearAdj (d : Bytes) (h : 12 ≤ d.length) : clearAdj (clearAdj d) = clearAdj d := by
  rw [clearAdj, take8_clearAdj d h, drop12_clearAdj d h, clearAdj]

theorem patchAdj_clearAdj (d : Bytes) (v : UInt32) (h : 12 ≤ d.length) :
    patchAdj (clearAdj d) v = patchAdj d v := by
  rw [patchAdj, take8_clearAdj d h, drop12_clearAdj d h, patchAdj]

theorem cksum_patchAdj (d : Bytes) (v : UInt32) (h : 12 ≤ d.length) :
    cksum (patchAdj d v) = cksum (clearAdj d) + v := by
  have h8 : (d.take 8).length % 4 = 0 := by simp; omega
  exact cksum_patch _ _ _ h8


/-! ## record layout -/


def padSum (l : List (Bytes × Bytes)) : Nat := (l.map fun t => 4 * ((t.2.length + 3) / 4)).sum

def fileSize (l : List (Bytes × Bytes)) : Nat :=
  12 + 16 * l.length + (l.map fun t => 4 * ((t.2.length + 3) / 4)).sum

def flat (l : List (Bytes × Bytes)) : Bytes := l.flatMap (fun t => pad4 t.2)

theorem padSum_cons (t : Bytes × Bytes) (l) : padSum (t :: l) = 4 * ((t.2.length + 3) / 4) + padSum l := by
  simp [padSum]

theorem length_flat (l : List (Bytes × Bytes)) : (flat l).length = padSum l := by
  induction l with
  | nil => rfl
  | cons t l ih => simp only [flat, List.flatMap_cons, List.length_append, length_pad4, padSum_cons] at *; omega

theorem length_mkRecs (o : Nat) (l : List (Bytes × Bytes)) : (mkRecs o l).length = l.length := by
  induction l generalizing o with
  | nil => rfl
  | cons t l ih => simp [mkRecs, ih]

theorem map_tag_mkRecs (o : Nat) (l : List (Bytes × Bytes)) : (mkRecs o l).map (·.tag) = l.map (·.1) := by
  induction l generalizing o with
  | nil => rfl
  | cons t l ih => simp [mkRecs, ih]

theorem mkRecs_bounds (o : Nat) (l : List (Bytes × Bytes)) :
    ∀ r ∈ mkRecs o l, o ≤ r.off ∧ r.off % 4 = o % 4 ∧ r.off + 4 * ((r.len + 3) / 4) ≤ o + padSum l := by
  induction l generalizing o with
  | nil => intro r h; simp [mkRecs] at h
  | cons t l ih =>
    intro r h
    simp only [mkRecs, List.mem_cons] at h
    rw [padSum_cons]
    rcases h with rfl | h
    · dsimp only; omega
    · have := ih _ r h
      omega

theorem mkRecs_disj (o : Nat) (l : List (Bytes × Bytes)) :
    (mkRecs o l).Pairwise (fun a b => a.off + 4 * ((a.len + 3) / 4) ≤ b.off) := by
  induction l generalizing o with
  | nil => simp [mkRecs]
  | cons t l ih =>
    simp only [mkRecs, List.pairwise_cons]
    refine ⟨fun r h => ?_, ih _⟩
    have := mkRecs_bounds _ _ r h
    omega

theorem take_pad4 (b : Bytes) (Q : Bytes) (n : Nat) (h : n = b.length) : (pad4 b ++ Q).take n = b := by
  subst h
  simp only [pad4, List.append_assoc]
  rw [List.take_left]

/-- what an offset/length reader finds at each record -/
theorem mkRecs_extract (g : Bytes × Bytes → Bytes × Bytes) (l : List (Bytes × Bytes))
    (hg : ∀ t ∈ l, (g t).2.length = t.2.length) (P : Bytes) (o : Nat) (ho : o = P.length) :
    (mkRecs o l).map (fun r => (r.tag, r.sum, r.len, ((P ++ flat (l.map g)).drop r.off).take r.len))
      = l.map (fun t => (t.1, cksum t.2, t.2.length, (g t).2)) := by
  induction l generalizing P o with
  | nil => rfl
  | cons t l ih =>
    subst ho
    simp only [mkRecs, List.map_cons, flat, List.flatMap_cons]
    congr 1
    · simp only [List.drop_left]
      rw [take_pad4 _ _ _ (hg t List.mem_cons_self).symm]
    · have := ih (fun t' h => hg t' (List.mem_cons_of_mem _ h)) (P ++ pad4 (g t).2)
        (P.length + 4 * ((t.2.length + 3) / 4))
        (by simp only [List.length_append, length_pad4, hg t List.mem_cons_self])
      simp only [flat, List.append_assoc] at this
      exact this


/-! ## decoding the directory -/

def toDir (r : Rec) : DirEnt := ⟨r.tag, r.sum.toNat, r.off, r.len⟩

def entAt (f : Bytes) (o : Nat) : DirEnt :=
  ⟨(f.drop o).take 4, rd32 f (o + 4), rd32 f (o + 8), rd32 f (o + 12)⟩

theorem specDir_eq (f : Bytes) :
    specDir f = (List.range (rd16 f 4)).map (fun i => entAt f (12 + 16 * i)) := rfl

structure RecOk (r : Rec) : Prop where
  tag : r.tag.length = 4
  off : r.off < 4294967296
  len : r.len < 4294967296

theorem length_recBytes (r : Rec) (h : r.tag.length = 4) : r.bytes.length = 16 := by
  simp only [Rec.bytes, List.length_append, length_be32, h]

theorem length_flatMap_recBytes (rs : List Rec) (h : ∀ r ∈ rs, r.tag.length = 4) :
    (rs.flatMap Rec.bytes).length = 16 * rs.length := by
  induction rs with
  | nil => rfl
  | cons r rs ih =>
    simp only [List.flatMap_cons, List.length_append, List.length_cons,
      length_recBytes r (h r List.mem_cons_self), ih (fun r' h' => h r' (List.mem_cons_of_mem _ h'))]
    omega

theorem entAt_rec (P Q : Bytes) (r : Rec) (h : RecOk r) :
    entAt (P ++ (r.bytes ++ Q)) P.length = toDir r := by
  have hs := r.sum.toNat_lt
  have e0 : P ++ (r.bytes ++ Q) = P ++ (r.tag ++ (be32 r.sum.toNat ++ (be32 r.off ++ (be32 r.len ++ Q)))) := by
    simp only [Rec.bytes, List.append_assoc]
  have e1 : P ++ (r.bytes ++ Q) = (P ++ r.tag) ++ (be32 r.sum.toNat ++ (be32 r.off ++ (be32 r.len ++ Q))) := by
    simp only [Rec.bytes, List.append_assoc]
  have e2 : P ++ (r.bytes ++ Q) = (P ++ r.tag ++ be32 r.sum.toNat) ++ (be32 r.off ++ (be32 r.len ++ Q)) := by
    simp only [Rec.bytes, List.append_assoc]
  have e3 : P ++ (r.bytes ++ Q) = (P ++ r.tag ++ be32 r.sum.toNat ++ be32 r.off) ++ (be32 r.len ++ Q) := by
    simp only [Rec.bytes, List.append_assoc]
  have t : ((P ++ (r.bytes ++ Q)).drop P.length).take 4 = r.tag := by
    rw [e0, List.drop_left, ← h.tag, List.take_left]
  have s : rd32 (P ++ (r.bytes ++ Q)) (P.length + 4) = r.sum.toNat := by
    rw [e1, rd32_at _ _ _ _ (by simp only [List.length_append, h.tag])]; omega
  have o : rd32 (P ++ (r.bytes ++ Q)) (P.length + 8) = r.off := by
    rw [e2, rd32_at _ _ _ _ (by simp only [List.length_append, h.tag, length_be32])]
    have := h.off; omega
  have l : rd32 (P ++ (r.bytes ++ Q)) (P.length + 12) = r.len := by
    rw [e3, rd32_at _ _ _ _ (by simp only [List.length_append, h.tag, length_be32])]
    have := h.len; omega
  simp only [entAt, toDir, t, s, o, l]

theorem decode_dir (rs : List Rec) (h : ∀ r ∈ rs, RecOk r) (P Q : Bytes) :
    (List.range rs.length).map (fun i => entAt (P ++ (rs.flatMap Rec.bytes ++ Q)) (P.length + 16 * i))
      = rs.map toDir := by
  induction rs generalizing P with
  | nil => rfl
  | cons r rs ih =>
    have hr := h r List.mem_cons_self
    simp only [List.length_cons, List.range_succ_eq_map, List.map_cons, List.map_map,
      List.flatMap_cons, List.append_assoc]
    congr 1
    · exact entAt_rec P _ r hr
    · have := ih (fun r' h' => h r' (List.mem_cons_of_mem _ h')) (P ++ r.bytes)
      simp only [List.append_assoc, List.length_append, length_recBytes r hr.tag] at this
      rw [← this]
      apply List.map_congr_left
      intro i _
      simp only [Function.comp, Nat.succ_eq_add_one]
      congr 1
      omega

/-! ## sortedness and disjointness -/

theorem strictlySorted_of_pairwise (l : List Bytes) (h : l.Pairwise (fun a b => nameLt a b = true)) :
    strictlySorted l = true := by
  induction l with
  | nil => rfl
  | cons a l ih =>
    cases l with
    | nil => rfl
    | cons b l =>
      simp only [strictlySorted, Bool.and_eq_true]
      rw [List.pairwise_cons] at h
      exact ⟨h.1 b List.mem_cons_self, ih h.2⟩

theorem sorted_tags (rs : List Rec) (hnd : (rs.map (·.tag)).Nodup) :
    strictlySorted ((rs.mergeSort recLe).map (·.tag)) = true := by
  apply strictlySorted_of_pairwise
  rw [List.pairwise_map]
  have h1 : (rs.mergeSort recLe).Pairwise (fun a b => recLe a b = true) :=
    List.pairwise_mergeSort recLe_trans recLe_total rs
  have h2 : (rs.mergeSort recLe).Pairwise (fun a b => a.tag ≠ b.tag) := by
    have : ((rs.mergeSort recLe).map (·.tag)).Nodup :=
      ((List.mergeSort_perm rs recLe).map (·.tag)).symm.nodup hnd
    rw [List.Nodup, List.pairwise_map] at this
    exact this
  refine (h1.and h2).imp ?_
  intro a b ⟨hab, hne⟩
  simp only [recLe, Bool.not_eq_true'] at hab
  cases hlt : nameLt a.tag b.tag with
  | true => rfl
  | false => exact absurd (nameLt_tri _ _ hlt hab) hne

def Disj (e x : DirEnt) : Prop :=
  e.off + 4 * ((e.len + 3) / 4) ≤ x.off ∨ x.off + 4 * ((x.len + 3) / 4) ≤ e.off

theorem disjointAll_of_pairwise (l : List DirEnt) (h : l.Pairwise Disj) : disjointAll l = true := by
  induction l with
  | nil => rfl
  | cons e l ih =>
    rw [List.pairwise_cons] at h
    simp only [disjointAll, Bool.and_eq_true, List.all_eq_true, Bool.or_eq_true, decide_eq_true_eq]
    exact ⟨fun x hx => h.1 x hx, ih h.2⟩

theorem disjointAll_sorted (o : Nat) (l : List (Bytes × Bytes)) :
    disjointAll (((mkRecs o l).mergeSort recLe).map toDir) = true := by
  apply disjointAll_of_pairwise
  rw [List.pairwise_map]
  have h1 : (mkRecs o l).Pairwise (fun a b => Disj (toDir a) (toDir b)) :=
    (mkRecs_disj o l).imp (fun h => Or.inl h)
  exact (List.mergeSort_perm _ recLe).symm.pairwise h1 (fun h => h.symm)

/-! ## `named` and `mapHead` -/

theorem mem_named (ts : List Entry) (t : Bytes × Bytes) :
    t ∈ named ts ↔ ∃ e ∈ ts, e.data = some t.2 ∧ e.name = t.1 ∧ t.1.length = 4 := by
  simp only [named, List.mem_filterMap]
  constructor
  · rintro ⟨e, he, h⟩
    refine ⟨e, he, ?_⟩
    split at h
    · split at h
      · rename_i d hd hl
        cases h
        exact ⟨hd, rfl, hl⟩
      · cases h
    · cases h
  · rintro ⟨e, he, hd, hn, hl⟩
    refine ⟨e, he, ?_⟩
    rw [hd]
    simp only
    rw [if_pos (by rw [hn]; exact hl), hn]

theorem named_tag_len (ts : List Entry) : ∀ t ∈ named ts, t.1.length = 4 := by
  intro t h
  obtain ⟨e, _, _, _, hl⟩ := (mem_named ts t).mp h
  exact hl

theorem named_cons (e : Entry) (ts : List Entry) :
    named (e :: ts) = named ts ∨ ∃ d, named (e :: ts) = (e.name, d) :: named ts := by
  simp only [named, List.filterMap_cons]
  split
  · left; rfl
  · rename_i b hb
    right
    split at hb
    · split at hb
      · cases hb; exact ⟨_, rfl⟩
      · cases hb
    · cases hb

theorem named_nodup (ts : List Entry) (h : (ts.map (·.name)).Nodup) :
    ((named ts).map (·.1)).Nodup := by
  induction ts with
  | nil => simp [named]
  | cons e ts ih =>
    simp only [List.map_cons, List.nodup_cons] at h
    rcases named_cons e ts with h' | ⟨d, h'⟩
    · rw [h']; exact ih h.2
    · rw [h']
      simp only [List.map_cons, List.nodup_cons]
      refine ⟨?_, ih h.2⟩
      intro hm
      apply h.1
      obtain ⟨t, ht, hte⟩ := List.mem_map.mp hm
      obtain ⟨e', he', _, hn, _⟩ := (mem_named ts t).mp ht
      exact List.mem_map.mpr ⟨e', he', by rw [hn, hte]⟩

theorem named_perm {ts₁ ts₂ : List Entry} (h : ts₁.Perm ts₂) : (named ts₁).Perm (named ts₂) :=
  h.filterMap _

/-- distinct keys: a key has one value -/
theorem nodup_fst_unique (l : List (Bytes × Bytes)) (h : (l.map (·.1)).Nodup) (a x y : Bytes)
    (hx : (a, x) ∈ l) (hy : (a, y) ∈ l) : x = y := by
  induction l with
  | nil => cases hx
  | cons t l ih =>
    simp only [List.map_cons, List.nodup_cons] at h
    simp only [List.mem_cons] at hx hy
    rcases hx with rfl | hx
    · rcases hy with hy | hy
      · cases hy; rfl
      · exact absurd (List.mem_map.mpr ⟨_, hy, rfl⟩) h.1
    · rcases hy with rfl | hy
      · exact absurd (List.mem_map.mpr ⟨_, hx, rfl⟩) h.1
      · exact ih h.2 hx hy

/-- the function `mapHead f` maps over the list -/
def onHead (f : Bytes → Bytes) (t : Bytes × Bytes) : Bytes × Bytes :=
  if t.1 == headTag then (t.1, f t.2) else t

theorem mapHead_eq (f : Bytes → Bytes) (l : List (Bytes × Bytes)) : mapHead f l = l.map (onHead f) := rfl

theorem onHead_fst (f : Bytes → Bytes) (t : Bytes × Bytes) : (onHead f t).1 = t.1 := by
  unfold onHead; split <;> rfl

theorem onHead_head (f : Bytes → Bytes) (t : Bytes × Bytes) (h : t.1 = headTag) :
    onHead f t = (t.1, f t.2) := by
  unfold onHead; rw [if_pos (by rw [h]; exact beq_self_eq_true _)]

theorem onHead_other (f : Bytes → Bytes) (t : Bytes × Bytes) (h : t.1 ≠ headTag) :
    onHead f t = t := by
  unfold onHead; rw [if_neg (by simpa using h)]

theorem map_fst_mapHead (f : Bytes → Bytes) (l : List (Bytes × Bytes)) :
    (mapHead f l).map (·.1) = l.map (·.1) := by
  rw [mapHead_eq, List.map_map]
  apply List.map_congr_left
  intro t _
  exact onHead_fst f t

theorem length_mapHead (f : Bytes → Bytes) (l : List (Bytes × Bytes)) : (mapHead f l).length = l.length := by
  rw [mapHead_eq, List.length_map]

theorem mapHead_noHead (f : Bytes → Bytes) (l : List (Bytes × Bytes)) (h : ∀ t ∈ l, t.1 ≠ headTag) :
    mapHead f l = l := by
  rw [mapHead_eq]
  conv => rhs; rw [← List.map_id l]
  apply List.map_congr_left
  intro t ht
  exact onHead_other f t (h t ht)

theorem mapHead_congr (f g : Bytes → Bytes) (l : List (Bytes × Bytes))
    (h : ∀ t ∈ l, t.1 = headTag → f t.2 = g t.2) : mapHead f l = mapHead g l := by
  rw [mapHead_eq, mapHead_eq]
  apply List.map_congr_left
  intro t ht
  by_cases hh : t.1 = headTag
  · rw [onHead_head f t hh, onHead_head g t hh, h t ht hh]
  · rw [onHead_other f t hh, onHead_other g t hh]

theorem mapHead_mapHead (f g : Bytes → Bytes) (l : List (Bytes × Bytes)) :
    mapHead f (mapHead g l) = mapHead (fun d => f (g d)) l := by
  rw [mapHead_eq, mapHead_eq, mapHead_eq, List.map_map]
  apply List.map_congr_left
  intro t _
  by_cases hh : t.1 = headTag
  · simp only [Function.comp]
    rw [onHead_head g t hh, onHead_head f (t.1, g t.2) hh, onHead_head _ t hh]
  · simp only [Function.comp]
    rw [onHead_other g t hh, onHead_other f t hh, onHead_other _ t hh]

theorem mem_mapHead (f : Bytes → Bytes) (l : List (Bytes × Bytes)) (t : Bytes × Bytes)
    (h : t ∈ mapHead f l) : ∃ s ∈ l, t = onHead f s := by
  rw [mapHead_eq] at h
  obtain ⟨s, hs, rfl⟩ := List.mem_map.mp h
  exact ⟨s, hs, rfl⟩

/-! ## sum of the table checksums -/

def sumCk : List (Bytes × Bytes) → UInt32
  | [] => 0
  | t :: r => cksum t.2 + sumCk r

theorem foldl_sum_mkRecs (s : UInt32) (o : Nat) (l : List (Bytes × Bytes)) :
    (mkRecs o l).foldl (fun s r => s + r.sum) s = s + sumCk l := by
  induction l generalizing s o with
  | nil => simp [mkRecs, sumCk]
  | cons t l ih => simp only [mkRecs, List.foldl_cons, ih, sumCk, UInt32.add_assoc]

theorem sumRecs_mkRecs (o : Nat) (l : List (Bytes × Bytes)) : sumRecs (mkRecs o l) = sumCk l := by
  rw [sumRecs, foldl_sum_mkRecs, UInt32.zero_add]

theorem cksum_flat (l : List (Bytes × Bytes)) : cksum (flat l) = sumCk l := by
  induction l with
  | nil => rfl
  | cons t l ih =>
    have : flat (t :: l) = pad4 t.2 ++ flat l := by simp [flat]
    rw [this, cksum_append _ _ (by rw [length_pad4]; omega), cksum_pad4, sumCk, ih]

theorem sumCk_mapHead (f : Bytes → Bytes) (adj : UInt32) (l : List (Bytes × Bytes))
    (hnd : (l.map (·.1)).Nodup) (hex : ∃ t ∈ l, t.1 = headTag)
    (hf : ∀ t ∈ l, t.1 = headTag → cksum (f t.2) = cksum t.2 + adj) :
    sumCk (mapHead f l) = sumCk l + adj := by
  induction l with
  | nil => obtain ⟨t, ht, _⟩ := hex; cases ht
  | cons t l ih =>
    simp only [List.map_cons, List.nodup_cons] at hnd
    have e : mapHead f (t :: l) = onHead f t :: mapHead f l := rfl
    rw [e]
    by_cases hh : t.1 = headTag
    · have hno : ∀ s ∈ l, s.1 ≠ headTag := by
        intro s hs hc
        exact hnd.1 (List.mem_map.mpr ⟨s, hs, by rw [hc, hh]⟩)
      rw [mapHead_noHead f l hno, onHead_head f t hh]
      simp only [sumCk]
      rw [hf t List.mem_cons_self hh, UInt32.add_assoc, UInt32.add_assoc, UInt32.add_comm adj]
    · rw [onHead_other f t hh]
      simp only [sumCk]
      have hex' : ∃ s ∈ l, s.1 = headTag := by
        obtain ⟨s, hs, hsh⟩ := hex
        rcases List.mem_cons.mp hs with rfl | hs
        · exact absurd hsh hh
        · exact ⟨s, hs, hsh⟩
      rw [ih hnd.2 hex' (fun s hs => hf s (List.mem_cons_of_mem _ hs)), UInt32.add_assoc]

theorem padSum_mapHead (f : Bytes → Bytes) (l : List (Bytes × Bytes))
    (hf : ∀ t ∈ l, t.1 = headTag → (f t.2).length = t.2.length) : padSum (mapHead f l) = padSum l := by
  rw [mapHead_eq, padSum, padSum, List.map_map]
  congr 1
  apply List.map_congr_left
  intro t ht
  by_cases hh : t.1 = headTag
  · simp only [Function.comp]; rw [onHead_head f t hh]; simp only; rw [hf t ht hh]
  · simp only [Function.comp]; rw [onHead_other f t hh]

theorem onHead_len (f : Bytes → Bytes) (l : List (Bytes × Bytes))
    (hf : ∀ t ∈ l, t.1 = headTag → (f t.2).length = t.2.length) :
    ∀ t ∈ l, (onHead f t).2.length = t.2.length := by
  intro t ht
  by_cases hh : t.1 = headTag
  · rw [onHead_head f t hh]; exact hf t ht hh
  · rw [onHead_other f t hh]

/-! ## the offset table -/

theorem length_hdrBytes (sc n : Nat) : (hdrBytes sc n).length = 12 := rfl

theorem hdr_fields (sc n : Nat) (Q : Bytes) :
    rd32 (hdrBytes sc n ++ Q) 0 = sc % 4294967296 ∧
    rd16 (hdrBytes sc n ++ Q) 4 = n % 65536 ∧
    rd16 (hdrBytes sc n ++ Q) 6 = 2 ^ (Nat.log2 n + 4) % 65536 ∧
    rd16 (hdrBytes sc n ++ Q) 8 = Nat.log2 n % 65536 ∧
    rd16 (hdrBytes sc n ++ Q) 10 = (16 * (n - 2 ^ Nat.log2 n)) % 65536 := by
  simp only [hdrBytes, entrySelector, List.append_assoc]
  refine ⟨?_, ?_, ?_, ?_, ?_⟩
  · exact rd32_at [] _ sc 0 rfl
  · exact rd16_at (be32 sc) _ n 4 rfl
  · have := rd16_at (be32 sc ++ be16 n) (be16 n.log2 ++ (be16 (16 * (n - 2 ^ n.log2)) ++ Q)) (2 ^ (n.log2 + 4)) 6 rfl
    simpa only [List.append_assoc] using this
  · have := rd16_at (be32 sc ++ be16 n ++ be16 (2 ^ (n.log2 + 4))) (be16 (16 * (n - 2 ^ n.log2)) ++ Q) n.log2 8 rfl
    simpa only [List.append_assoc] using this
  · have := rd16_at (be32 sc ++ be16 n ++ be16 (2 ^ (n.log2 + 4)) ++ be16 n.log2) Q (16 * (n - 2 ^ n.log2)) 10 rfl
    simpa only [List.append_assoc] using this

theorem search_fields (n : Nat) (h0 : n ≠ 0) (h : n < 4096) :
    2 ^ (Nat.log2 n + 4) % 65536 = 16 * 2 ^ Nat.log2 n ∧
    Nat.log2 n % 65536 = Nat.log2 n ∧
    (16 * (n - 2 ^ Nat.log2 n)) % 65536 = 16 * n - 16 * 2 ^ Nat.log2 n := by
  have h1 : 2 ^ Nat.log2 n ≤ n := Nat.log2_self_le h0
  have h2 : Nat.log2 n < 12 := (Nat.log2_lt h0).mpr (by omega)
  rw [Nat.pow_add]
  generalize 2 ^ Nat.log2 n = p at *
  omega


/-! ## the container produced for laid-out tables `l0` whose head data is finally replaced by `f` -/

structure Layout (l0 : List (Bytes × Bytes)) (f : Bytes → Bytes) : Prop where
  tag4 : ∀ t ∈ l0, t.1.length = 4
  nodup : (l0.map (·.1)).Nodup
  ne : l0 ≠ []
  count : l0.length < 4096
  size : fileSize l0 < 4294967296
  flen : ∀ t ∈ l0, t.1 = headTag → (f t.2).length = t.2.length

def recsOf (l0 : List (Bytes × Bytes)) : List Rec := mkRecs (12 + 16 * l0.length) l0
def dirOf (l0 : List (Bytes × Bytes)) : List Rec := (recsOf l0).mergeSort recLe
def fileOf (sc : Nat) (l0 : List (Bytes × Bytes)) (f : Bytes → Bytes) : Bytes :=
  headerOf sc l0 ++ flat (mapHead f l0)

theorem headerOf_eq (sc : Nat) (l0 : List (Bytes × Bytes)) :
    headerOf sc l0 = hdrBytes sc l0.length ++ (dirOf l0).flatMap Rec.bytes := rfl

theorem dirOf_perm (l0 : List (Bytes × Bytes)) : (dirOf l0).Perm (recsOf l0) := List.mergeSort_perm _ _

theorem mem_dirOf (l0 : List (Bytes × Bytes)) (r : Rec) : r ∈ dirOf l0 ↔ r ∈ recsOf l0 :=
  (dirOf_perm l0).mem_iff

theorem length_dirOf (l0 : List (Bytes × Bytes)) : (dirOf l0).length = l0.length := by
  rw [(dirOf_perm l0).length_eq, recsOf, length_mkRecs]

theorem fileOf_eq (sc : Nat) (l0 : List (Bytes × Bytes)) (f : Bytes → Bytes) : fileOf sc l0 f =
    hdrBytes sc l0.length ++ ((dirOf l0).flatMap Rec.bytes ++ flat (mapHead f l0)) := by
  rw [fileOf, headerOf_eq, List.append_assoc]

section
variable {l0 : List (Bytes × Bytes)} {f : Bytes → Bytes} (L : Layout l0 f) (sc : Nat)
include L

theorem Layout.recs_tag4 : ∀ r ∈ recsOf l0, r.tag.length = 4 := by
  intro r hr
  have : r.tag ∈ (recsOf l0).map (·.tag) := List.mem_map.mpr ⟨r, hr, rfl⟩
  rw [recsOf, map_tag_mkRecs] at this
  obtain ⟨t, ht, hte⟩ := List.mem_map.mp this
  rw [← hte]; exact L.tag4 t ht

theorem Layout.recOk : ∀ r ∈ dirOf l0, RecOk r := by
  intro r hr
  rw [mem_dirOf] at hr
  have hb := mkRecs_bounds _ _ r hr
  have hs := L.size
  simp only [fileSize] at hs
  simp only [padSum] at hb
  exact ⟨L.recs_tag4 r hr, by omega, by omega⟩

theorem Layout.length_header : (headerOf sc l0).length = 12 + 16 * l0.length := by
  rw [headerOf_eq, List.length_append, length_hdrBytes,
    length_flatMap_recBytes _ (fun r hr => (L.recOk r hr).tag), length_dirOf]

theorem Layout.length_file : (fileOf sc l0 f).length = fileSize l0 := by
  rw [fileOf, List.length_append, L.length_header, length_flat, padSum_mapHead f l0 L.flen]
  rfl

theorem Layout.count_field : rd16 (fileOf sc l0 f) 4 = l0.length := by
  rw [fileOf_eq, (hdr_fields _ _ _).2.1]
  have := L.count; omega

theorem Layout.specDir_file : specDir (fileOf sc l0 f) = (dirOf l0).map toDir := by
  rw [specDir_eq, L.count_field]
  have := decode_dir (dirOf l0) L.recOk (hdrBytes sc l0.length) (flat (mapHead f l0))
  rw [length_dirOf, length_hdrBytes, ← fileOf_eq] at this
  exact this

theorem Layout.extract :
    (recsOf l0).map (fun r => (r.tag, r.sum, r.len, tableBytes (fileOf sc l0 f) (toDir r)))
      = l0.map (fun t => (t.1, cksum t.2, t.2.length, (onHead f t).2)) :=
  mkRecs_extract (onHead f) l0 (onHead_len f l0 L.flen) (headerOf sc l0) _ (L.length_header sc).symm

theorem Layout.extract_mem (r : Rec) (hr : r ∈ recsOf l0) :
    ∃ t ∈ l0, r.tag = t.1 ∧ r.sum = cksum t.2 ∧ r.len = t.2.length ∧
      tableBytes (fileOf sc l0 f) (toDir r) = (onHead f t).2 := by
  have h : (r.tag, r.sum, r.len, tableBytes (fileOf sc l0 f) (toDir r)) ∈
      (recsOf l0).map (fun r => (r.tag, r.sum, r.len, tableBytes (fileOf sc l0 f) (toDir r))) :=
    List.mem_map.mpr ⟨r, hr, rfl⟩
  rw [L.extract] at h
  obtain ⟨t, ht, hte⟩ := List.mem_map.mp h
  simp only [Prod.mk.injEq] at hte
  exact ⟨t, ht, hte.1.symm, hte.2.1.symm, hte.2.2.1.symm, hte.2.2.2.symm⟩

theorem Layout.bodies :
    (recsOf l0).map (fun r => (r.tag, tableBytes (fileOf sc l0 f) (toDir r))) = mapHead f l0 := by
  have h := congrArg (List.map (fun q : Bytes × UInt32 × Nat × Bytes => (q.1, q.2.2.2))) (L.extract sc)
  simp only [List.map_map] at h
  rw [mapHead_eq]
  refine Eq.trans ?_ (Eq.trans h ?_)
  · rfl
  · apply List.map_congr_left
    intro t _
    simp only [Function.comp]
    rw [← onHead_fst f t]

theorem Layout.tags_nodup : ((recsOf l0).map (·.tag)).Nodup := by
  rw [recsOf, map_tag_mkRecs]; exact L.nodup


theorem Layout.wellFormed
    (hclr : ∀ t ∈ l0, t.1 = headTag → cksum (clearAdj (f t.2)) = cksum t.2)
    (hfile : (∃ t ∈ l0, t.1 = headTag) → (cksum (fileOf sc l0 f)).toNat = Gen.checksumMagic) :
    WellFormed (fileOf sc l0 f) := by
  have hn0 : l0.length ≠ 0 := fun h => L.ne (List.length_eq_zero_iff.mp h)
  have hF := hdr_fields sc l0.length ((dirOf l0).flatMap Rec.bytes ++ flat (mapHead f l0))
  rw [← fileOf_eq] at hF
  have hS := search_fields l0.length hn0 L.count
  have hdir := L.specDir_file sc
  have hlen := L.length_file (f := f) sc
  -- per-entry facts
  have hent : ∀ r ∈ dirOf l0, r.off % 4 = 0 ∧ 12 + 16 * l0.length ≤ r.off ∧
      r.off + r.len ≤ (fileOf sc l0 f).length ∧
      (entrySum (fileOf sc l0 f) (toDir r)).toNat = r.sum.toNat := by
    intro r hr
    rw [mem_dirOf] at hr
    have hb := mkRecs_bounds _ _ r hr
    obtain ⟨t, ht, htag, hsum, _, hbody⟩ := L.extract_mem sc r hr
    refine ⟨by omega, by omega, ?_, ?_⟩
    · rw [hlen]; simp only [fileSize]; simp only [padSum] at hb; omega
    · congr 1
      simp only [entrySum]
      rw [hbody, hsum]
      have : (toDir r).tag = t.1 := htag
      rw [this]
      by_cases hh : t.1 = headTag
      · rw [if_pos (by rw [hh]; exact beq_self_eq_true _), onHead_head f t hh]
        exact hclr t ht hh
      · rw [if_neg (by simpa using hh), onHead_other f t hh]
  have c1 : ¬ (fileOf sc l0 f).length < 12 + 16 * l0.length := by
    rw [hlen]; simp only [fileSize]; omega
  have c3 : strictlySorted (((dirOf l0).map toDir).map (·.tag)) = true := by
    rw [List.map_map]
    exact sorted_tags _ L.tags_nodup
  have c7 : ((dirOf l0).map toDir).all (fun e => e.off % 4 == 0) = true := by
    simp only [List.all_eq_true, List.mem_map, beq_iff_eq]
    rintro e ⟨r, hr, rfl⟩
    exact (hent r hr).1
  have c8 : ((dirOf l0).map toDir).all
      (fun e => 12 + 16 * l0.length ≤ e.off && e.off + e.len ≤ (fileOf sc l0 f).length) = true := by
    simp only [List.all_eq_true, List.mem_map, Bool.and_eq_true, decide_eq_true_eq]
    rintro e ⟨r, hr, rfl⟩
    exact ⟨(hent r hr).2.1, (hent r hr).2.2.1⟩
  have c9 : disjointAll ((dirOf l0).map toDir) = true := disjointAll_sorted _ _
  have c10 : ((dirOf l0).map toDir).all
      (fun e => (entrySum (fileOf sc l0 f) e).toNat == e.sum) = true := by
    simp only [List.all_eq_true, List.mem_map, beq_iff_eq]
    rintro e ⟨r, hr, rfl⟩
    exact (hent r hr).2.2.2
  have c11 : ¬ ((((dirOf l0).map toDir).any (fun e => e.tag == headTag)) = true ∧
      (cksum (fileOf sc l0 f)).toNat ≠ Gen.checksumMagic) := by
    rintro ⟨h1, h2⟩
    apply h2
    apply hfile
    simp only [List.any_eq_true, List.mem_map, beq_iff_eq] at h1
    obtain ⟨e, ⟨r, hr, rfl⟩, he⟩ := h1
    rw [mem_dirOf] at hr
    obtain ⟨t, ht, htag, _⟩ := L.extract_mem sc r hr
    exact ⟨t, ht, htag.symm.trans he⟩
  unfold WellFormed wellFormedErr
  simp only [L.count_field sc, hdir, hF.2.2.1, hF.2.2.2.1, hF.2.2.2.2, hS.1, hS.2.1, hS.2.2]
  rw [if_neg c1, if_neg hn0]
  simp only [c3, c7, c8, c9, c10]
  simpa using c11


theorem Layout.parse :
    ∃ l, specParse (fileOf sc l0 f) = some (sc % 4294967296, l) ∧ l.Perm (mapHead f l0) := by
  refine ⟨(dirOf l0).map (fun r => (r.tag, tableBytes (fileOf sc l0 f) (toDir r))), ?_, ?_⟩
  · have hF := hdr_fields sc l0.length ((dirOf l0).flatMap Rec.bytes ++ flat (mapHead f l0))
    rw [← fileOf_eq] at hF
    have hlen := L.length_file (f := f) sc
    have c1 : ¬ (fileOf sc l0 f).length < 12 := by
      rw [hlen]; simp only [fileSize]; omega
    have c2 : ((dirOf l0).map toDir).all (fun e => e.off + e.len ≤ (fileOf sc l0 f).length) = true := by
      simp only [List.all_eq_true, List.mem_map, decide_eq_true_eq]
      rintro e ⟨r, hr, rfl⟩
      rw [mem_dirOf] at hr
      have hb := mkRecs_bounds _ _ r hr
      rw [hlen]; simp only [fileSize]; simp only [padSum] at hb
      show r.off + r.len ≤ _
      omega
    unfold specParse
    simp only [L.specDir_file sc, hF.1]
    rw [if_neg c1, if_pos c2, List.map_map]
    rfl
  · rw [← L.bodies sc]
    exact (dirOf_perm l0).map _

end

/-! ## the writer -/

def orderOf (ts : List Entry) : List (Bytes × Bytes) := (named ts).mergeSort layoutLe

def adjOf (sc : Nat) (l0 : List (Bytes × Bytes)) : UInt32 :=
  UInt32.ofNat Gen.checksumMagic - (sumRecs (mkRecs (12 + 16 * l0.length) l0) + cksum (headerOf sc l0))

theorem write_eq (sc : Nat) (ts : List Entry) : write sc ts =
    if (orderOf ts).length = 0 then .err "no tables" else
    match (orderOf ts).find? (fun t => t.1 == headTag) with
    | some (_, d) =>
      if d.length < 12 then .err "head too short" else
      .ok ⟨headerOf sc (mapHead clearAdj (orderOf ts)),
           mapHead (fun d => patchAdj d (adjOf sc (mapHead clearAdj (orderOf ts))))
             (mapHead clearAdj (orderOf ts))⟩
    | none => .ok ⟨headerOf sc (orderOf ts), orderOf ts⟩ := rfl

theorem orderOf_perm (ts : List Entry) : (orderOf ts).Perm (named ts) := List.mergeSort_perm _ _

theorem mem_orderOf (ts : List Entry) (t : Bytes × Bytes) : t ∈ orderOf ts ↔ t ∈ named ts :=
  (orderOf_perm ts).mem_iff

theorem orderOf_nodup (ts : List Entry) (h : (ts.map (·.name)).Nodup) :
    ((orderOf ts).map (·.1)).Nodup :=
  ((orderOf_perm ts).map (·.1)).symm.nodup (named_nodup ts h)

theorem find_head_some (l : List (Bytes × Bytes)) (a d : Bytes)
    (h : l.find? (fun t => t.1 == headTag) = some (a, d)) : (headTag, d) ∈ l := by
  have h1 := List.find?_some h
  have h2 := List.mem_of_find?_eq_some h
  simp only [beq_iff_eq] at h1
  rw [← h1]; exact h2

theorem find_head_none (l : List (Bytes × Bytes))
    (h : l.find? (fun t => t.1 == headTag) = none) : ∀ t ∈ l, t.1 ≠ headTag := by
  intro t ht hc
  have := List.find?_eq_none.mp h t ht
  simp [hc] at this

theorem write_noPanic (sc : Nat) (ts : List Entry) : (write sc ts).noPanic := by
  rw [write_eq]
  split
  · trivial
  · split
    · split <;> trivial
    · trivial

/-- the two ways `write` succeeds -/
theorem write_ok_cases (sc : Nat) (ts : List Entry) (w : Written) (hw : write sc ts = .ok w) :
    orderOf ts ≠ [] ∧
    ((∃ d, (headTag, d) ∈ orderOf ts ∧ 12 ≤ d.length ∧
        w = ⟨headerOf sc (mapHead clearAdj (orderOf ts)),
             mapHead (fun d => patchAdj d (adjOf sc (mapHead clearAdj (orderOf ts))))
               (mapHead clearAdj (orderOf ts))⟩) ∨
     ((∀ t ∈ orderOf ts, t.1 ≠ headTag) ∧ w = ⟨headerOf sc (orderOf ts), orderOf ts⟩)) := by
  rw [write_eq] at hw
  split at hw
  · cases hw
  · rename_i hne
    refine ⟨fun h => hne (by rw [h]; rfl), ?_⟩
    split at hw
    · rename_i a d hf
      split at hw
      · cases hw
      · rename_i hd
        cases hw
        exact Or.inl ⟨d, find_head_some _ a d hf, by omega, rfl⟩
    · rename_i hf
      cases hw
      exact Or.inr ⟨find_head_none _ hf, rfl⟩

/-- sufficient condition for success; needs no assumption on the keys -/
theorem write_ok_of (sc : Nat) (ts : List Entry) (hne : named ts ≠ [])
    (hh : ∀ d, (headTag, d) ∈ named ts → 12 ≤ d.length) : ∃ w, write sc ts = .ok w := by
  rw [write_eq]
  have : ¬ (orderOf ts).length = 0 := by
    rw [(orderOf_perm ts).length_eq]; exact fun h => hne (List.length_eq_zero_iff.mp h)
  rw [if_neg this]
  split
  · rename_i a d hf
    have := hh d ((mem_orderOf ts _).mp (find_head_some _ a d hf))
    rw [if_neg (by omega)]
    exact ⟨_, rfl⟩
  · exact ⟨_, rfl⟩

theorem write_ok_iff (sc : Nat) (ts : List Entry) (keys_nodup : (ts.map (·.name)).Nodup) :
    (∃ w, write sc ts = .ok w) ↔
      (named ts ≠ [] ∧ ∀ d, (headTag, d) ∈ named ts → 12 ≤ d.length) := by
  constructor
  · rintro ⟨w, hw⟩
    obtain ⟨hne, h⟩ := write_ok_cases sc ts w hw
    refine ⟨fun h0 => hne (by simp [orderOf, h0]), ?_⟩
    intro d' hd'
    rw [← mem_orderOf] at hd'
    rcases h with ⟨d, hd, hlen, _⟩ | ⟨hno, _⟩
    · rw [nodup_fst_unique _ (orderOf_nodup ts keys_nodup) headTag d' d hd' hd]; exact hlen
    · exact absurd rfl (hno _ hd')
  · rintro ⟨hne, hh⟩
    exact write_ok_of sc ts hne hh


theorem fileSize_perm {l l' : List (Bytes × Bytes)} (h : l.Perm l') : fileSize l = fileSize l' := by
  simp only [fileSize, h.length_eq, (h.map _).sum_nat]

theorem fileSize_mapHead (f : Bytes → Bytes) (l : List (Bytes × Bytes))
    (hf : ∀ t ∈ l, t.1 = headTag → (f t.2).length = t.2.length) : fileSize (mapHead f l) = fileSize l := by
  have := padSum_mapHead f l hf
  simp only [padSum] at this
  simp only [fileSize, length_mapHead, this]

/-- in a map with distinct keys where the head found has ≥ 12 bytes, every head has -/
theorem heads_long (ts : List Entry) (keys_nodup : (ts.map (·.name)).Nodup) (d : Bytes)
    (hd : (headTag, d) ∈ orderOf ts) (hlen : 12 ≤ d.length) :
    ∀ s ∈ orderOf ts, s.1 = headTag → 12 ≤ s.2.length := by
  intro s hs hh
  have : s = (headTag, s.2) := by rw [← hh]
  rw [this] at hs
  rw [nodup_fst_unique _ (orderOf_nodup ts keys_nodup) headTag s.2 d hs hd]; exact hlen

theorem cleared_heads (l : List (Bytes × Bytes)) (hl : ∀ s ∈ l, s.1 = headTag → 12 ≤ s.2.length) :
    ∀ t ∈ mapHead clearAdj l, t.1 = headTag → 12 ≤ t.2.length ∧ clearAdj t.2 = t.2 := by
  intro t ht hh
  obtain ⟨s, hs, rfl⟩ := mem_mapHead _ _ _ ht
  rw [onHead_fst] at hh
  have h12 := hl s hs hh
  rw [onHead_head _ s hh]
  exact ⟨by rw [length_clearAdj _ h12]; exact h12, clearAdj_clearAdj _ h12⟩

theorem layout_noHead (ts : List Entry) (keys_nodup : (ts.map (·.name)).Nodup)
    (size_ok : fileSize (named ts) < 4294967296) (count_ok : (named ts).length < 4096)
    (hne : orderOf ts ≠ []) : Layout (orderOf ts) id where
  tag4 := fun t ht => named_tag_len ts t ((mem_orderOf ts t).mp ht)
  nodup := orderOf_nodup ts keys_nodup
  ne := hne
  count := by rw [(orderOf_perm ts).length_eq]; exact count_ok
  size := by rw [fileSize_perm (orderOf_perm ts)]; exact size_ok
  flen := fun _ _ _ => rfl

theorem layout_head (ts : List Entry) (keys_nodup : (ts.map (·.name)).Nodup)
    (size_ok : fileSize (named ts) < 4294967296) (count_ok : (named ts).length < 4096)
    (hne : orderOf ts ≠ []) (hl : ∀ s ∈ orderOf ts, s.1 = headTag → 12 ≤ s.2.length) (adj : UInt32) :
    Layout (mapHead clearAdj (orderOf ts)) (fun d => patchAdj d adj) where
  tag4 := by
    intro t ht
    obtain ⟨s, hs, rfl⟩ := mem_mapHead _ _ _ ht
    rw [onHead_fst]
    exact named_tag_len ts s ((mem_orderOf ts s).mp hs)
  nodup := by rw [map_fst_mapHead]; exact orderOf_nodup ts keys_nodup
  ne := by
    intro h
    apply hne
    have := length_mapHead clearAdj (orderOf ts)
    rw [h] at this
    exact List.length_eq_zero_iff.mp this.symm
  count := by rw [length_mapHead, (orderOf_perm ts).length_eq]; exact count_ok
  size := by
    rw [fileSize_mapHead _ _ (fun t ht hh => length_clearAdj _ (hl t ht hh)), fileSize_perm (orderOf_perm ts)]
    exact size_ok
  flen := fun t ht hh => length_patchAdj _ _ (cleared_heads _ hl t ht hh).1

theorem magic_toNat : (UInt32.ofNat Gen.checksumMagic).toNat = Gen.checksumMagic := by decide

theorem adj_cancel (m s c : UInt32) : c + (s + (m - (s + c))) = m := by
  rw [← UInt32.add_assoc, UInt32.add_comm c s, UInt32.add_comm, UInt32.sub_add_cancel]


theorem bytes_head (sc : Nat) (l0 : List (Bytes × Bytes)) (f : Bytes → Bytes) :
    (Written.mk (headerOf sc l0) (mapHead f l0)).bytes = fileOf sc l0 f := rfl

theorem bytes_noHead (sc : Nat) (l : List (Bytes × Bytes)) (h : ∀ t ∈ l, t.1 ≠ headTag) :
    (Written.mk (headerOf sc l) l).bytes = fileOf sc l id := by
  rw [fileOf, mapHead_noHead id l h]; rfl

/-- the whole-file checksum of a file written with a head table -/
theorem file_cksum (sc : Nat) (l : List (Bytes × Bytes))
    (hnd : (l.map (·.1)).Nodup) (hex : ∃ t ∈ l, t.1 = headTag)
    (hhl : ∀ t ∈ l, t.1 = headTag → 12 ≤ t.2.length ∧ clearAdj t.2 = t.2)
    (hH : (headerOf sc l).length % 4 = 0) :
    (cksum (fileOf sc l (fun d => patchAdj d (adjOf sc l)))).toNat = Gen.checksumMagic := by
  rw [fileOf, cksum_append _ _ hH, cksum_flat,
    sumCk_mapHead _ (adjOf sc l) l hnd hex
      (fun t ht hh => by rw [cksum_patchAdj _ _ (hhl t ht hh).1, (hhl t ht hh).2]),
    adjOf, sumRecs_mkRecs, adj_cancel, magic_toNat]

theorem write_wellFormed (sc : Nat) (ts : List Entry) (keys_nodup : (ts.map (·.name)).Nodup)
    (size_ok : fileSize (named ts) < 4294967296) (count_ok : (named ts).length < 4096)
    (w : Written) (hw : write sc ts = .ok w) : WellFormed w.bytes := by
  obtain ⟨hne, ⟨d, hd, hlen, rfl⟩ | ⟨hno, rfl⟩⟩ := write_ok_cases sc ts w hw
  · have hl := heads_long ts keys_nodup d hd hlen
    have hc := cleared_heads _ hl
    have L := layout_head ts keys_nodup size_ok count_ok hne hl (adjOf sc (mapHead clearAdj (orderOf ts)))
    rw [bytes_head]
    apply L.wellFormed sc
    · intro t ht hh
      rw [clearAdj_patchAdj _ _ (hc t ht hh).1, (hc t ht hh).2]
    · intro hex
      exact file_cksum sc _ L.nodup hex hc (by rw [L.length_header]; omega)
  · have L := layout_noHead ts keys_nodup size_ok count_ok hne
    rw [bytes_noHead sc _ hno]
    apply L.wellFormed sc
    · intro t ht hh; exact absurd hh (hno t ht)
    · rintro ⟨t, ht, hh⟩; exact absurd hh (hno t ht)

theorem parse_write (sc : Nat) (hsc : sc < 4294967296) (ts : List Entry)
    (keys_nodup : (ts.map (·.name)).Nodup)
    (size_ok : fileSize (named ts) < 4294967296) (count_ok : (named ts).length < 4096)
    (w : Written) (hw : write sc ts = .ok w) :
    ∃ l, specParse w.bytes = some (sc, l) ∧ l.Perm w.bodies := by
  obtain ⟨hne, ⟨d, hd, hlen, rfl⟩ | ⟨hno, rfl⟩⟩ := write_ok_cases sc ts w hw
  · have hl := heads_long ts keys_nodup d hd hlen
    have L := layout_head ts keys_nodup size_ok count_ok hne hl (adjOf sc (mapHead clearAdj (orderOf ts)))
    rw [bytes_head]
    have := L.parse sc
    rw [Nat.mod_eq_of_lt hsc] at this
    exact this
  · have L := layout_noHead ts keys_nodup size_ok count_ok hne
    rw [bytes_noHead sc _ hno]
    have := L.parse sc
    rw [Nat.mod_eq_of_lt hsc, mapHead_noHead id _ hno] at this
    exact this

theorem tables_kept (sc : Nat) (ts : List Entry) (keys_nodup : (ts.map (·.name)).Nodup)
    (w : Written) (hw : write sc ts = .ok w) :
    ∃ adj : UInt32, w.bodies.Perm (mapHead (fun d => patchAdj d adj) (named ts)) ∨
      (w.bodies.Perm (named ts) ∧ ∀ t ∈ named ts, t.1 ≠ headTag) := by
  obtain ⟨_, ⟨d, hd, hlen, rfl⟩ | ⟨hno, rfl⟩⟩ := write_ok_cases sc ts w hw
  · have hl := heads_long ts keys_nodup d hd hlen
    refine ⟨adjOf sc (mapHead clearAdj (orderOf ts)), Or.inl ?_⟩
    dsimp only
    rw [mapHead_mapHead, mapHead_congr _ (fun d => patchAdj d (adjOf sc (mapHead clearAdj (orderOf ts)))) _
      (fun t ht hh => patchAdj_clearAdj _ _ (hl t ht hh)), mapHead_eq, mapHead_eq]
    exact (orderOf_perm ts).map _
  · exact ⟨0, Or.inr ⟨orderOf_perm ts, fun t ht => hno t ((mem_orderOf ts t).mpr ht)⟩⟩

theorem orderOf_eq_of_perm (ts₁ ts₂ : List Entry) (keys_nodup : (ts₁.map (·.name)).Nodup)
    (hp : ts₁.Perm ts₂) : orderOf ts₁ = orderOf ts₂ := by
  have hperm : (orderOf ts₁).Perm (orderOf ts₂) :=
    (orderOf_perm ts₁).trans ((named_perm hp).trans (orderOf_perm ts₂).symm)
  refine List.Perm.eq_of_pairwise (le := fun a b => layoutLe a b = true) ?_
    (List.pairwise_mergeSort layoutLe_trans layoutLe_total _)
    (List.pairwise_mergeSort layoutLe_trans layoutLe_total _) hperm
  intro a b ha hb hab hba
  have hb' : b ∈ orderOf ts₁ := hperm.mem_iff.mpr hb
  have h1 := layoutLe_antisymm a b hab hba
  have ea : a = (a.1, a.2) := rfl
  have eb : b = (a.1, b.2) := by rw [h1]
  rw [ea] at ha
  rw [eb] at hb'
  have := nodup_fst_unique _ (orderOf_nodup ts₁ keys_nodup) a.1 a.2 b.2 ha hb'
  rw [ea, eb, this]

theorem write_perm (sc : Nat) (ts₁ ts₂ : List Entry) (keys_nodup : (ts₁.map (·.name)).Nodup)
    (hp : ts₁.Perm ts₂) :
    Written.bytes <$> write sc ts₁ = Written.bytes <$> write sc ts₂ := by
  rw [write_eq, write_eq, orderOf_eq_of_perm ts₁ ts₂ keys_nodup hp]

end SfntV.Header
