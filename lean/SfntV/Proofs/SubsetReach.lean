/-
C10 — which glyphs a subset contains, independently of the iteration order: the glyph list when
is exactly the closure of the requested glyphs under the GSUB rules and composite components.
-/
import SfntV.Proofs.SubsetGsubRules

namespace SfntV.Subset

/-- closure of the requested glyphs under the GSUB rules and (TrueType outlines only) under
"is a component of" -/
inductive Reach (f : Font) (glyphs : List Gid) (rules : List Rule) : Gid → Prop
  | base {g : Gid} : g ∈ glyphs → Reach f glyphs rules g
  | rule {r : Rule} {o : Gid} : r ∈ rules → (∀ i ∈ r.ins, Reach f glyphs rules i) → o ∈ r.outs →
      Reach f glyphs rules o
  | comp {p c : Gid} : f.isCFF = false → Reach f glyphs rules p → c ∈ (f.glyph p).comps →
      Reach f glyphs rules c

theorem missing_zero {m : GMap} {ins : List Gid} (h : missing m ins = 0) :
    ∀ g ∈ ins, (m.lookup g).isSome = true := by
  intro g hg
  unfold missing at h
  have : (ins.filter fun g => (m.lookup g).isNone) = [] := List.eq_nil_of_length_eq_zero h
  rw [List.filter_eq_nil_iff] at this
  have := this g hg
  cases hx : m.lookup g <;> simp_all

theorem addOuts_sound (Q : Gid → Prop) : ∀ (outs : List Gid) (s : St) (added : List Gid),
    (∀ g ∈ s.glyphs, Q g) → (∀ o ∈ outs, Q o) → ∀ g ∈ (addOuts s added outs).1.glyphs, Q g := by
  intro outs
  induction outs with
  | nil => intro s added h _; exact h
  | cons o os ih =>
    intro s added h ho
    simp only [addOuts]
    split
    · exact ih s added h (fun x hx => ho x (List.mem_cons_of_mem _ hx))
    · rename_i hn
      apply ih _ _ _ (fun x hx => ho x (List.mem_cons_of_mem _ hx))
      rw [getNewGid_of_not_has hn]
      intro g hg
      simp only [St.push, List.mem_append, List.mem_singleton] at hg
      rcases hg with hg | rfl
      · exact h g hg
      · exact ho g List.mem_cons_self

theorem sweep_sound (Q : Gid → Prop) : ∀ (work : List (Int × Rule)) (s : St) (added : List Gid),
    (∀ g ∈ s.glyphs, Q g) → (∀ w ∈ work, w.1 = 0 → ∀ o ∈ w.2.outs, Q o) →
    ∀ g ∈ (sweep s added work).1.glyphs, Q g := by
  intro work
  induction work with
  | nil => intro s added h _; exact h
  | cons w ws ih =>
    intro s added h hw
    simp only [sweep]
    split
    · rename_i h0
      apply ih _ _ _ (fun x hx => hw x (List.mem_cons_of_mem _ hx))
      exact addOuts_sound Q _ _ _ h (hw w List.mem_cons_self h0)
    · exact ih s added h (fun x hx => hw x (List.mem_cons_of_mem _ hx))

/-- after a sweep and the `dec` pass the counters are right for the new state -/
theorem sweep_count {s : St} {work : List (Int × Rule)} (h : Inv s)
    (hc : ∀ w ∈ work, w.1 = Int.ofNat (missing s.newGid w.2.ins)) :
    ∀ w ∈ (sweep s [] work).2.2,
      (dec (sweep s [] work).2.1 w).1 = Int.ofNat (missing (sweep s [] work).1.newGid w.2.ins) := by
  have hs := sweep_good work s [] h
  have hsp := sweep_spec work s [] h
  intro w hw
  have hw0 := hc w (hsp.2.1 w hw).1
  have hadd : ∀ g, g ∈ (sweep s [] work).2.1 ↔
      (g ∈ (sweep s [] work).1.glyphs ∧ g ∉ s.glyphs) := by
    intro g; rw [hsp.2.2 g]; simp
  have := missing_dec s.newGid (sweep s [] work).1.newGid (sweep s [] work).2.1 w.2.ins
    (by
      intro g
      have a := hs.1.lookup_none g
      have b := h.lookup_none g
      constructor
      · intro hn
        have hn' : (sweep s [] work).1.newGid.lookup g = none := by simpa using hn
        have hg1 := a.1 hn'
        have hg0 : g ∉ s.glyphs := fun hm => hg1 (ext_mem hs.2 hm)
        exact ⟨by simpa using b.2 hg0, fun hm => hg1 ((hadd g).1 hm).1⟩
      · rintro ⟨hn, hna⟩
        have hn' : s.newGid.lookup g = none := by simpa using hn
        have hg0 := b.1 hn'
        have : g ∉ (sweep s [] work).1.glyphs := fun hm => hna ((hadd g).2 ⟨hm, hg0⟩)
        simpa using a.2 this)
    (by
      intro g hg
      have := ((hadd g).1 hg).2
      simpa using (h.lookup_none g).2 this)
  simp only [dec, hw0]
  rw [this]
  simp only [Int.ofNat_eq_natCast]
  omega

theorem gsubLoop_sound (all : List Rule) (Q : Gid → Prop)
    (hQ : ∀ r ∈ all, (∀ i ∈ r.ins, Q i) → ∀ o ∈ r.outs, Q o) :
    ∀ (fuel : Nat) (s : St) (work : List (Int × Rule)) (s' : St), Inv s →
    (∀ w ∈ work, w.1 = Int.ofNat (missing s.newGid w.2.ins)) → (∀ w ∈ work, w.2 ∈ all) →
    (∀ g ∈ s.glyphs, Q g) → gsubLoop fuel s work = some s' → ∀ g ∈ s'.glyphs, Q g := by
  intro fuel
  induction fuel with
  | zero => intro s work s' _ _ _ _ h; simp [gsubLoop] at h
  | succ fuel ih =>
    intro s work s' h hc hall hq hr
    simp only [gsubLoop] at hr
    have hs := sweep_good work s [] h
    have hsp := sweep_spec work s [] h
    have hsound : ∀ g ∈ (sweep s [] work).1.glyphs, Q g := by
      apply sweep_sound Q work s [] hq
      intro w hw h0 o ho
      apply hQ w.2 (hall w hw) _ o ho
      intro i hi
      have hm : missing s.newGid w.2.ins = 0 := by
        have := hc w hw; rw [h0] at this
        simp only [Int.ofNat_eq_natCast] at this; omega
      have := missing_zero hm i hi
      exact hq i ((h.has_iff i).1 this)
    split at hr
    · refine ih _ _ s' hs.1 ?_ ?_ hsound hr
      · intro w' hw'
        obtain ⟨w, hw, rfl⟩ := List.mem_map.1 hw'
        have := sweep_count h hc w hw
        simpa [dec] using this
      · intro w' hw'
        obtain ⟨w, hw, rfl⟩ := List.mem_map.1 hw'
        exact hall w (hsp.2.1 w hw).1
    · injection hr with hr; subst hr; exact hsound

/-- `addGsubGlyphs` appends only outputs of rules whose inputs are present: any property `Q` of
glyphs that is closed under the rules is kept -/
theorem gsubClose_sound {ro : List Rule → List Rule} {s t : St} {l : Layout GsubSub} (Q : Gid → Prop)
    (h : Inv s) (hp : ∀ x, (ro x).Perm x)
    (hQ : ∀ r ∈ rulesOf l, (∀ i ∈ r.ins, Q i) → ∀ o ∈ r.outs, Q o)
    (hq : ∀ g ∈ s.glyphs, Q g) (hr : gsubClose ro s l = some t) : ∀ g ∈ t.glyphs, Q g := by
  have hwork : ∀ w ∈ (ro (rulesOf l)).map (fun r => (Int.ofNat (missing s.newGid r.ins), r)),
      w.1 = Int.ofNat (missing s.newGid w.2.ins) ∧ w.2 ∈ ro (rulesOf l) := by
    intro w hw
    obtain ⟨r, hrm, rfl⟩ := List.mem_map.1 hw
    exact ⟨rfl, hrm⟩
  exact gsubLoop_sound (ro (rulesOf l)) Q
    (fun r hrm => hQ r ((hp (rulesOf l)).mem_iff.1 hrm)) _ s _ t h
    (fun w hw => (hwork w hw).1) (fun w hw => (hwork w hw).2) hq hr

end SfntV.Subset
