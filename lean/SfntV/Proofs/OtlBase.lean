/-
Helper lemmas for the `otl` models (C08): words ↔ bytes.
-/
import SfntV.Model.OtlBase

namespace SfntV.Otl
open SfntV

theorem length_be16 (n : Nat) : (be16 n).length = 2 := rfl

theorem length_wordsToBytes (ws : List Nat) : (wordsToBytes ws).length = 2 * ws.length := by
  induction ws with
  | nil => rfl
  | cons w ws ih =>
    simp only [wordsToBytes, List.flatMap_cons, List.length_append, length_be16, List.length_cons] at ih ⊢
    omega

theorem wordsToBytes_cons (w : Nat) (ws : List Nat) :
    wordsToBytes (w :: ws) = be16 w ++ wordsToBytes ws := by
  simp [wordsToBytes]

theorem wordsToBytes_append (a b : List Nat) :
    wordsToBytes (a ++ b) = wordsToBytes a ++ wordsToBytes b := by
  simp [wordsToBytes]

theorem bytesToWords_be16 (w : Nat) (h : w < 65536) (r : Bytes) :
    bytesToWords (be16 w ++ r) = w :: bytesToWords r := by
  simp only [be16, List.cons_append, List.nil_append, bytesToWords, UInt8.toNat_ofNat']
  congr 1
  omega

theorem bytesToWords_wordsToBytes (ws : List Nat) (h : ∀ w ∈ ws, w < 65536) :
    bytesToWords (wordsToBytes ws) = ws := by
  induction ws with
  | nil => rfl
  | cons w ws ih =>
    rw [wordsToBytes_cons, bytesToWords_be16 w (h w (by simp))]
    rw [ih (fun x hx => h x (by simp [hx]))]

theorem w16_of_lt {n : Nat} (h : n < 65536) : w16 n = n := Nat.mod_eq_of_lt h

theorem w16_lt (n : Nat) : w16 n < 65536 := Nat.mod_lt _ (by decide)

theorem drop_wordsToBytes_append (ws : List Nat) (c : Bytes) :
    (wordsToBytes ws ++ c).drop (2 * ws.length) = c := by
  rw [← length_wordsToBytes]
  exact List.drop_left

theorem bytesToWords_append (ws : List Nat) (h : ∀ w ∈ ws, w < 65536) (c : Bytes) :
    bytesToWords (wordsToBytes ws ++ c) = ws ++ bytesToWords c := by
  induction ws with
  | nil => rfl
  | cons w ws ih =>
    rw [wordsToBytes_cons, List.append_assoc, bytesToWords_be16 w (h w (by simp))]
    rw [ih (fun x hx => h x (by simp [hx]))]
    rfl

theorem drop_wordsToBytes_append' (a b : List Nat) (c : Bytes) :
    (wordsToBytes (a ++ b) ++ c).drop (2 * a.length) = wordsToBytes b ++ c := by
  rw [wordsToBytes_append, List.append_assoc]
  exact drop_wordsToBytes_append a _


theorem drop_wordsToBytes (ws : List Nat) (k : Nat) (c : Bytes) (hk : k ≤ ws.length) :
    (wordsToBytes ws ++ c).drop (2 * k) = wordsToBytes (ws.drop k) ++ c := by
  have hl : (ws.take k).length = k := by simp [List.length_take]; omega
  have := drop_wordsToBytes_append' (ws.take k) (ws.drop k) c
  rw [hl, List.take_append_drop] at this
  exact this

end SfntV.Otl
