/-
C02 (decoders are total): proofs about the checked-index models of the GPOS subtable readers of
lookup types 1–3, `anchor.Read` and `markarray.Read` (`SfntV.Total.GposSub`): no panic on any
bytes at any position (no hypothesis), and the TRUE cost bounds.
-/
import SfntV.Model.TotalGposSub
import SfntV.Proofs.TotalOtl

namespace SfntV.Total.GposSub
open SfntV SfntV.Total SfntV.Total.Gdef SfntV.Total.Otl

/-! ## helpers -/

theorem slice_ok (site : String) (xs : List α) (a b : Nat) (h : a ≤ b ∧ b ≤ xs.length) :
    slice site xs a b = .ok ((xs.drop a).take (b - a)) := by
  unfold slice
  rw [if_pos h]

theorem setAt_ok (site : String) (xs : List α) (i : Nat) (v : α) (h : i < xs.length) :
    setAt site xs i v = .ok (xs.set i v) := by
  unfold setAt
  rw [if_pos h]

theorem mkSlice_ok' (site : String) (n : Nat) (c : Cost) (h : n < 2 ^ 47) :
    mkSlice site n c = .ok (c.mem n) := by
  unfold mkSlice
  rw [if_neg (by omega)]

theorem pure_noPanic (a : α) : (pure a : Outcome α).noPanic := True.intro

theorem pure_eq_ok {a r : α} (h : (pure a : Outcome α) = .ok r) : a = r := by
  cases h; rfl

/-- a successful `ReadBytes(k)`: every 16-bit word inside is there and below 65536 -/
theorem buf_w16 {site : String} {b : Bytes} {q k : Nat} {buf : Bytes}
    (h : readBytes site b q k = .ok buf) (s : String) (i : Nat) (hi : i + 2 ≤ k) :
    ∃ v, w16 s buf i = .ok v ∧ v < 65536 := by
  obtain ⟨hl, _⟩ := readBytes_ok_length h
  exact w16_ok s buf i (by omega)

/-! ## no panic -/

theorem readWords_noPanic (site : String) (b : Bytes) : ∀ (n q : Nat) (acc : List Nat) (c : Cost),
    (readWords site b n q acc c).noPanic
  | 0, _, _, _ => True.intro
  | n+1, q, acc, c => by
    unfold readWords
    exact bind_noPanic (readU16_noPanic _ _ _) (fun v _ => readWords_noPanic site b n _ _ _)

theorem readWords_ok (site : String) (b : Bytes) : ∀ (n q : Nat) (acc : List Nat) (c : Cost)
    (ws : List Nat) (c' : Cost), readWords site b n q acc c = .ok (ws, c') →
    ws.length = acc.length + n ∧ c'.steps = c.steps + n ∧ c'.alloc = c.alloc ∧
      2 * n ≤ b.length - q
  | 0, _, acc, c, ws, c', h => by
    unfold readWords at h
    cases h
    simp
  | n+1, q, acc, c, ws, c', h => by
    unfold readWords at h
    obtain ⟨v, hv, h⟩ := bind_eq_ok h
    obtain ⟨_, _, hq⟩ := readU16_ok hv
    have ih := readWords_ok site b n (q + 2) (v :: acc) c.tick ws c' h
    simp only [List.length_cons, Cost.tick] at ih
    omega

theorem vrFields_noPanic (b : Bytes) (fmt : Nat) : ∀ (fuel k q : Nat) (c : Cost),
    (vrFields b fmt fuel k q c).noPanic
  | 0, _, _, _ => True.intro
  | fuel+1, k, q, c => by
    unfold vrFields
    split
    · refine bind_noPanic (readU16_noPanic _ _ _) (fun v _ => ?_)
      exact bind_noPanic (vrFields_noPanic b fmt fuel _ _ _) (fun r _ => pure_noPanic _)
    · exact bind_noPanic (vrFields_noPanic b fmt fuel _ _ _) (fun r _ => pure_noPanic _)

theorem vrRead_noPanic (b : Bytes) (fmt q : Nat) (c : Cost) : (vrRead b fmt q c).noPanic := by
  unfold vrRead
  split
  · exact True.intro
  · exact bind_noPanic (vrFields_noPanic b fmt _ _ _ _) (fun r _ => pure_noPanic _)

/-- `anchor.Read` never panics: all bytes, all positions -/
theorem anchorRead_noPanic (b : Bytes) (pos : Nat) : (anchorRead b pos).noPanic := by
  unfold anchorRead
  refine bind_noPanic (readBytes_noPanic _ _ _ _ (by omega)) (fun buf hbuf => ?_)
  obtain ⟨f, hf, _⟩ := buf_w16 hbuf "anchor.go:46#buf[0],buf[1]" 0 (by omega)
  obtain ⟨x, hx, _⟩ := buf_w16 hbuf "anchor.go:47#buf[2],buf[3]" 2 (by omega)
  obtain ⟨y, hy, _⟩ := buf_w16 hbuf "anchor.go:48#buf[4],buf[5]" 4 (by omega)
  rw [hf, ok_bind, hx, ok_bind, hy, ok_bind]
  split
  · exact True.intro
  · exact pure_noPanic _

theorem maLoop1_noPanic (b : Bytes) : ∀ (fuel i q : Nat) (res : List (Nat × Anchor))
    (offs : List Nat) (c : Cost), i + fuel ≤ res.length → i + fuel ≤ offs.length →
    (maLoop1 b fuel i q res offs c).noPanic
  | 0, _, _, _, _, _, _, _ => True.intro
  | fuel+1, i, q, res, offs, c, h1, h2 => by
    unfold maLoop1
    refine bind_noPanic (readU16_noPanic _ _ _) (fun cls _ => ?_)
    rw [idx_ok _ res i (by omega), ok_bind, setAt_ok _ res i _ (by omega), ok_bind]
    refine bind_noPanic (readU16_noPanic _ _ _) (fun o _ => ?_)
    rw [setAt_ok _ offs i _ (by omega), ok_bind]
    exact maLoop1_noPanic b fuel (i + 1) _ _ _ _
      (by rw [List.length_set]; omega) (by rw [List.length_set]; omega)

theorem maLoop1_ok (b : Bytes) : ∀ (fuel i q : Nat) (res : List (Nat × Anchor))
    (offs : List Nat) (c : Cost) (res' : List (Nat × Anchor)) (offs' : List Nat) (c' : Cost),
    maLoop1 b fuel i q res offs c = .ok (res', offs', c') →
    res'.length = res.length ∧ offs'.length = offs.length ∧ c'.steps = c.steps + 3 * fuel ∧
      c'.alloc = c.alloc ∧ 4 * fuel ≤ b.length - q
  | 0, _, _, _, _, _, _, _, _, h => by
    unfold maLoop1 at h
    cases h
    exact ⟨rfl, rfl, rfl, rfl, by omega⟩
  | fuel+1, i, q, res, offs, c, res', offs', c', h => by
    unfold maLoop1 at h
    obtain ⟨cls, hcls, h⟩ := bind_eq_ok h
    obtain ⟨r, _, h⟩ := bind_eq_ok h
    obtain ⟨res1, hres1, h⟩ := bind_eq_ok h
    obtain ⟨o, ho, h⟩ := bind_eq_ok h
    obtain ⟨offs1, hoffs1, h⟩ := bind_eq_ok h
    have ih := maLoop1_ok b fuel _ _ _ _ _ _ _ _ h
    obtain ⟨_, _, hq⟩ := readU16_ok ho
    unfold setAt at hres1 hoffs1
    split at hres1
    · split at hoffs1
      · cases hres1; cases hoffs1
        simp only [List.length_set, Cost.tick] at ih
        omega
      · cases hoffs1
    · cases hres1

theorem maLoop2_noPanic (b : Bytes) (pos : Nat) : ∀ (offs : List Nat) (i : Nat)
    (res : List (Nat × Anchor)) (c : Cost), i + offs.length ≤ res.length →
    (maLoop2 b pos offs i res c).noPanic
  | [], _, _, _, _ => True.intro
  | o :: offs, i, res, c, h => by
    unfold maLoop2
    simp only [List.length_cons] at h
    refine bind_noPanic (anchorRead_noPanic _ _) (fun a _ => ?_)
    rw [idx_ok _ res i (by omega), ok_bind, setAt_ok _ res i _ (by omega), ok_bind]
    exact maLoop2_noPanic b pos offs (i + 1) _ _ (by rw [List.length_set]; omega)

/-- the (clamped) mark count is below 65536 -/
theorem markCount_lt (mc0 : Nat) (numMarks : Int) (h : mc0 < 65536) :
    (if (mc0 : Int) > numMarks then (numMarks % 65536).toNat else mc0) < 65536 := by
  split
  · have := Int.emod_lt_of_pos numMarks (show (0 : Int) < 65536 by decide)
    have := Int.emod_nonneg numMarks (show (65536 : Int) ≠ 0 by decide)
    omega
  · exact h

/-- `markarray.Read` never panics: all bytes, all positions, every `numMarks` (negative too) -/
theorem markarrayRead_noPanic (b : Bytes) (pos : Nat) (numMarks : Int) :
    (markarrayRead b pos numMarks).noPanic := by
  unfold markarrayRead
  refine bind_noPanic (readU16_noPanic _ _ _) (fun mc0 hmc0 => ?_)
  obtain ⟨_, hlt, _⟩ := readU16_ok hmc0
  have hmc := markCount_lt mc0 numMarks hlt
  dsimp only
  rw [mkSlice_ok _ _ _ hmc, ok_bind, mkSlice_ok _ _ _ hmc, ok_bind]
  refine bind_noPanic (maLoop1_noPanic b _ 0 _ _ _ _ (by simp) (by simp)) (fun r hr => ?_)
  obtain ⟨res', offs', c'⟩ := r
  obtain ⟨h1, h2, _⟩ := maLoop1_ok b _ _ _ _ _ _ _ _ _ hr
  simp only [List.length_replicate] at h1 h2
  exact maLoop2_noPanic b pos _ 0 _ _ (by simp only []; omega)


/-! ## coverage indices are below the number of entries -/

theorem covLoop1_idx (b : Bytes) : ∀ (n q i : Nat) (prev : Int) (acc : List (Nat × Nat)) (c : Cost)
    (r : List (Nat × Nat)) (c' : Cost), (∀ p ∈ acc, p.2 < i) → acc.length = i →
    covLoop1 b n q i prev acc c = .ok (r, c') → ∀ p ∈ r, p.2 < r.length
  | 0, _, i, _, acc, _, r, _, hm, hl, h => by
    unfold covLoop1 at h
    cases h
    intro p hp
    rw [List.length_reverse, hl]
    exact hm p (List.mem_reverse.mp hp)
  | n+1, q, i, prev, acc, c, r, c', hm, hl, h => by
    unfold covLoop1 at h
    obtain ⟨gid, _, h⟩ := bind_eq_ok h
    split at h
    · cases h
    refine covLoop1_idx b n _ (i + 1) _ _ _ r c' ?_ ?_ h
    · intro p hp
      rcases List.mem_cons.mp hp with rfl | hp
      · exact Nat.lt_succ_self _
      · exact Nat.lt_succ_of_lt (hm p hp)
    · rw [List.length_cons, hl]

theorem covLoop2_idx (b : Bytes) : ∀ (n q pos : Nat) (prev : Int) (acc : List (Nat × Nat))
    (c : Cost) (r : List (Nat × Nat)) (c' : Cost), (∀ p ∈ acc, p.2 < pos) → acc.length = pos →
    covLoop2 b n q pos prev acc c = .ok (r, c') → ∀ p ∈ r, p.2 < r.length
  | 0, _, pos, _, acc, _, r, _, hm, hl, h => by
    unfold covLoop2 at h
    cases h
    intro p hp
    rw [List.length_reverse, hl]
    exact hm p (List.mem_reverse.mp hp)
  | n+1, q, pos, prev, acc, c, r, c', hm, hl, h => by
    unfold covLoop2 at h
    obtain ⟨buf, _, h⟩ := bind_eq_ok h
    obtain ⟨s, _, h⟩ := bind_eq_ok h
    obtain ⟨e, _, h⟩ := bind_eq_ok h
    obtain ⟨sci, _, h⟩ := bind_eq_ok h
    split at h
    · cases h
    refine covLoop2_idx b n _ (pos + (e + 1 - s)) _ _ _ r c' ?_ ?_ h
    · intro p hp
      rcases List.mem_append.mp hp with hp | hp
      · have hp := List.mem_reverse.mp hp
        obtain ⟨g, j⟩ := p
        have := List.mem_zipIdx hp
        simp only [List.length_range'] at this
        exact this.2.1
      · exact Nat.lt_of_lt_of_le (hm p hp) (Nat.le_add_right _ _)
    · rw [List.length_append, List.length_reverse, List.length_zipIdx, List.length_range', hl]
      omega

/-- every coverage index delivered by `coverage.Read` is below the number of entries -/
theorem coverageRead_idx (b : Bytes) (pos : Nat) (r : List (Nat × Nat)) (c : Cost)
    (h : coverageRead b pos = .ok (r, c)) : ∀ p ∈ r, p.2 < r.length := by
  unfold coverageRead at h
  obtain ⟨format, _, h⟩ := bind_eq_ok h
  dsimp only at h
  split at h
  · obtain ⟨n, _, h⟩ := bind_eq_ok h
    exact covLoop1_idx b n _ 0 _ [] _ r c (fun _ hp => by cases hp) rfl h
  split at h
  · obtain ⟨n, _, h⟩ := bind_eq_ok h
    exact covLoop2_idx b n _ 0 _ [] _ r c (fun _ hp => by cases hp) rfl h
  · cases h

/-! ## GPOS 1.1, 1.2 -/

/-- `readGpos1_1` never panics -/
theorem read11_noPanic (b : Bytes) (pos : Nat) : (read11 b pos).noPanic := by
  unfold read11
  refine bind_noPanic (readBytes_noPanic _ _ _ _ (by omega)) (fun buf hbuf => ?_)
  obtain ⟨co, hco, _⟩ := buf_w16 hbuf "gpos.go:90#buf[0],buf[1]" 0 (by omega)
  obtain ⟨vf, hvf, _⟩ := buf_w16 hbuf "gpos.go:91#buf[2],buf[3]" 2 (by omega)
  rw [hco, ok_bind, hvf, ok_bind]
  refine bind_noPanic (vrRead_noPanic _ _ _ _) (fun r _ => ?_)
  exact bind_noPanic (coverageRead_noPanic _ _) (fun cv _ => pure_noPanic _)

theorem vrLoop_noPanic (b : Bytes) (fmt : Nat) : ∀ (n q : Nat) (acc : List VR) (c : Cost),
    (vrLoop b fmt n q acc c).noPanic
  | 0, _, _, _ => True.intro
  | n+1, q, acc, c => by
    unfold vrLoop
    exact bind_noPanic (vrRead_noPanic _ _ _ _) (fun r _ => vrLoop_noPanic b fmt n _ _ _)

theorem prune_noPanic (site : String) (cov : List (Nat × Nat)) (xs : List α) (c : Cost) :
    (prune site cov xs c).noPanic := by
  unfold prune
  split
  · rw [slice_ok _ _ _ _ (by omega), ok_bind]
    exact pure_noPanic _
  · split <;> exact True.intro

/-- after the pruning every coverage index is below the number of records kept -/
theorem prune_ok {site : String} {cov : List (Nat × Nat)} {xs : List α} {c : Cost}
    {p : List (Nat × Nat) × List α} {c' : Cost} (h : prune site cov xs c = .ok (p, c'))
    (hc : ∀ e ∈ cov, e.2 < cov.length) :
    (∀ e ∈ p.1, e.2 < p.2.length) ∧ p.2.length ≤ xs.length ∧ p.1.length ≤ cov.length ∧
      c'.steps ≤ c.steps + cov.length ∧ c'.alloc = c.alloc := by
  unfold prune at h
  split at h
  · rename_i hgt
    rw [slice_ok _ _ _ _ (by omega), ok_bind] at h
    cases h
    have hl : ((xs.drop 0).take (cov.length - 0)).length = cov.length := by
      simp only [List.drop_zero, Nat.sub_zero, List.length_take]; omega
    refine ⟨fun e he => ?_, ?_, Nat.le_refl _, Nat.le_add_right _ _, rfl⟩
    · show e.2 < ((xs.drop 0).take (cov.length - 0)).length
      rw [hl]; exact hc e he
    · show ((xs.drop 0).take (cov.length - 0)).length ≤ xs.length
      rw [hl]; omega
  · split at h
    · cases h
      refine ⟨fun e he => ?_, Nat.le_refl _, List.length_filter_le _ _, Nat.le_refl _, rfl⟩
      exact of_decide_eq_true (List.mem_filter.mp he).2
    · rename_i h1 h2
      cases h
      refine ⟨fun e he => ?_, Nat.le_refl _, Nat.le_refl _, Nat.le_add_right _ _, rfl⟩
      show e.2 < xs.length
      have := hc e he
      omega

/-- `readGpos1_2` never panics -/
theorem read12_noPanic (b : Bytes) (pos : Nat) : (read12 b pos).noPanic := by
  unfold read12
  refine bind_noPanic (readBytes_noPanic _ _ _ _ (by omega)) (fun buf hbuf => ?_)
  obtain ⟨co, hco, _⟩ := buf_w16 hbuf "gpos.go:156#buf[0],buf[1]" 0 (by omega)
  obtain ⟨vf, hvf, _⟩ := buf_w16 hbuf "gpos.go:157#buf[2],buf[3]" 2 (by omega)
  obtain ⟨n, hn, hnlt⟩ := buf_w16 hbuf "gpos.go:158#buf[4],buf[5]" 4 (by omega)
  rw [hco, ok_bind, hvf, ok_bind, hn, ok_bind, mkSlice_ok _ _ _ hnlt, ok_bind]
  refine bind_noPanic (vrLoop_noPanic _ _ _ _ _ _) (fun r _ => ?_)
  refine bind_noPanic (coverageRead_noPanic _ _) (fun cv _ => ?_)
  exact bind_noPanic (prune_noPanic _ _ _ _) (fun p _ => pure_noPanic _)

/-! ## GPOS 2.1 -/

theorem pairs_noPanic (b : Bytes) (f1 f2 : Nat) : ∀ (n q : Nat) (acc : PairSet) (c : Cost),
    (pairs b f1 f2 n q acc c).noPanic
  | 0, _, _, _ => True.intro
  | n+1, q, acc, c => by
    unfold pairs
    refine bind_noPanic (readU16_noPanic _ _ _) (fun g _ => ?_)
    refine bind_noPanic (vrRead_noPanic _ _ _ _) (fun r1 _ => ?_)
    exact bind_noPanic (vrRead_noPanic _ _ _ _) (fun r2 _ => pairs_noPanic b f1 f2 n _ _ _)

theorem pairSets_noPanic (b : Bytes) (pos f1 f2 : Nat) : ∀ (offs : List Nat) (i : Nat)
    (adjust : List PairSet) (c : Cost), i + offs.length ≤ adjust.length →
    (pairSets b pos f1 f2 offs i adjust c).noPanic
  | [], _, _, _, _ => True.intro
  | off :: rest, i, adjust, c, h => by
    unfold pairSets
    simp only [List.length_cons] at h
    refine bind_noPanic (readU16_noPanic _ _ _) (fun pvc hpvc => ?_)
    obtain ⟨_, hlt, _⟩ := readU16_ok hpvc
    rw [mkSlice_ok _ _ _ hlt, ok_bind]
    refine bind_noPanic (pairs_noPanic _ _ _ _ _ _ _) (fun ps _ => ?_)
    rw [setAt_ok _ adjust i _ (by omega), ok_bind]
    exact pairSets_noPanic b pos f1 f2 rest (i + 1) _ _ (by rw [List.length_set]; omega)

theorem pairSets_length (b : Bytes) (pos f1 f2 : Nat) : ∀ (offs : List Nat) (i : Nat)
    (adjust : List PairSet) (c : Cost) (a : List PairSet) (c' : Cost),
    pairSets b pos f1 f2 offs i adjust c = .ok (a, c') → a.length = adjust.length
  | [], _, _, _, _, _, h => by
    unfold pairSets at h
    cases h; rfl
  | off :: rest, i, adjust, c, a, c', h => by
    unfold pairSets at h
    obtain ⟨pvc, _, h⟩ := bind_eq_ok h
    obtain ⟨c1, _, h⟩ := bind_eq_ok h
    obtain ⟨ps, _, h⟩ := bind_eq_ok h
    obtain ⟨adj1, hadj1, h⟩ := bind_eq_ok h
    have ih := pairSets_length b pos f1 f2 rest _ _ _ _ _ h
    unfold setAt at hadj1
    split at hadj1
    · cases hadj1
      rw [ih, List.length_set]
    · cases hadj1

theorem mergeLoop_noPanic (adjust : List PairSet) : ∀ (cov : List (Nat × Nat)) (c : Cost),
    (∀ p ∈ cov, p.2 < adjust.length) → (mergeLoop adjust cov c).noPanic
  | [], _, _ => True.intro
  | p :: rest, c, h => by
    unfold mergeLoop
    rw [idx_ok _ adjust p.2 (h p (List.mem_cons_self ..)), ok_bind]
    exact mergeLoop_noPanic adjust rest _ (fun e he => h e (List.mem_cons_of_mem _ he))

/-- `readGpos2_1` never panics (the index `adjust[i]` of gpos.go:343 is safe because every coverage
index is below the number of pair sets kept by the pruning) -/
theorem read21_noPanic (b : Bytes) (pos : Nat) : (read21 b pos).noPanic := by
  unfold read21
  refine bind_noPanic (readBytes_noPanic _ _ _ _ (by omega)) (fun buf hbuf => ?_)
  obtain ⟨co, hco, _⟩ := buf_w16 hbuf "gpos.go:285#buf[0],buf[1]" 0 (by omega)
  obtain ⟨f1, hf1, _⟩ := buf_w16 hbuf "gpos.go:286#buf[2],buf[3]" 2 (by omega)
  obtain ⟨f2, hf2, _⟩ := buf_w16 hbuf "gpos.go:287#buf[4],buf[5]" 4 (by omega)
  obtain ⟨n, hn, hnlt⟩ := buf_w16 hbuf "gpos.go:288#buf[6],buf[7]" 6 (by omega)
  rw [hco, ok_bind, hf1, ok_bind, hf2, ok_bind, hn, ok_bind, mkSlice_ok _ _ _ hnlt, ok_bind]
  refine bind_noPanic (readWords_noPanic _ _ _ _ _ _) (fun o ho => ?_)
  refine bind_noPanic (coverageRead_noPanic _ _) (fun cv hcv => ?_)
  refine bind_noPanic (prune_noPanic _ _ _ _) (fun p hp => ?_)
  obtain ⟨cvl, cvc⟩ := cv
  obtain ⟨⟨pc, po⟩, pcost⟩ := p
  obtain ⟨hidx, hlen, _⟩ := prune_ok hp (coverageRead_idx b _ _ _ hcv)
  dsimp only at hidx hlen ⊢
  obtain ⟨hol, _⟩ := readWords_ok _ _ _ _ _ _ _ _ ho
  simp only [List.length_nil] at hol
  have hpo : po.length < 2 ^ 47 := by omega
  rw [mkSlice_ok' _ _ _ hpo, ok_bind]
  refine bind_noPanic (pairSets_noPanic _ _ _ _ _ _ _ _ (by simp)) (fun a ha => ?_)
  obtain ⟨al, ac⟩ := a
  have hal := pairSets_length _ _ _ _ _ _ _ _ _ _ ha
  simp only [List.length_replicate] at hal
  refine bind_noPanic (mergeLoop_noPanic _ _ _ (fun e he => ?_)) (fun c _ => pure_noPanic _)
  dsimp only
  rw [hal]
  exact hidx e he


/-! ## GPOS 2.2 -/

theorem recLoop_noPanic (b : Bytes) (f1 f2 : Nat) : ∀ (fuel i q : Nat) (recs : List (VR × VR))
    (c : Cost), i + fuel ≤ recs.length → (recLoop b f1 f2 fuel i q recs c).noPanic
  | 0, _, _, _, _, _ => True.intro
  | fuel+1, i, q, recs, c, h => by
    unfold recLoop
    refine bind_noPanic (vrRead_noPanic _ _ _ _) (fun r1 _ => ?_)
    refine bind_noPanic (vrRead_noPanic _ _ _ _) (fun r2 _ => ?_)
    rw [setAt_ok _ recs i _ (by omega), ok_bind]
    exact recLoop_noPanic b f1 f2 fuel (i + 1) _ _ _ (by rw [List.length_set]; omega)

theorem recLoop_length (b : Bytes) (f1 f2 : Nat) : ∀ (fuel i q : Nat) (recs : List (VR × VR))
    (c : Cost) (r : List (VR × VR)) (c' : Cost),
    recLoop b f1 f2 fuel i q recs c = .ok (r, c') → r.length = recs.length
  | 0, _, _, _, _, _, _, h => by
    unfold recLoop at h
    cases h; rfl
  | fuel+1, i, q, recs, c, r, c', h => by
    unfold recLoop at h
    obtain ⟨r1, _, h⟩ := bind_eq_ok h
    obtain ⟨r2, _, h⟩ := bind_eq_ok h
    obtain ⟨recs1, hrecs1, h⟩ := bind_eq_ok h
    have ih := recLoop_length b f1 f2 fuel _ _ _ _ _ _ h
    unfold setAt at hrecs1
    split at hrecs1
    · cases hrecs1
      rw [ih, List.length_set]
    · cases hrecs1

theorem rowLoop_noPanic (c2 : Nat) (records : List (VR × VR)) : ∀ (fuel i : Nat)
    (adj : List (List (VR × VR))) (c : Cost), (i + fuel) * c2 ≤ records.length →
    i + fuel ≤ adj.length → (rowLoop c2 records fuel i adj c).noPanic
  | 0, _, _, _, _, _ => True.intro
  | fuel+1, i, adj, c, h1, h2 => by
    unfold rowLoop
    have ha : i * c2 ≤ (i + 1) * c2 := Nat.mul_le_mul_right c2 (Nat.le_succ i)
    have hb : (i + 1) * c2 ≤ (i + (fuel + 1)) * c2 := Nat.mul_le_mul_right c2 (by omega)
    rw [slice_ok _ _ _ _ ⟨ha, Nat.le_trans hb h1⟩, ok_bind, setAt_ok _ adj i _ (by omega), ok_bind]
    exact rowLoop_noPanic c2 records fuel (i + 1) _ _
      (by rw [show i + 1 + fuel = i + (fuel + 1) by omega]; exact h1)
      (by rw [List.length_set]; omega)

/-- `readGpos2_2` never panics (`class1Count·class2Count < 65536` is checked before the `make`;
the row slices `records[i*c2:(i+1)*c2]` stay inside the `c1·c2` records) -/
theorem read22_noPanic (b : Bytes) (pos : Nat) : (read22 b pos).noPanic := by
  unfold read22
  refine bind_noPanic (readBytes_noPanic _ _ _ _ (by omega)) (fun buf hbuf => ?_)
  obtain ⟨co, hco, _⟩ := buf_w16 hbuf "gpos.go:508#buf[0],buf[1]" 0 (by omega)
  obtain ⟨f1, hf1, _⟩ := buf_w16 hbuf "gpos.go:509#buf[2],buf[3]" 2 (by omega)
  obtain ⟨f2, hf2, _⟩ := buf_w16 hbuf "gpos.go:510#buf[4],buf[5]" 4 (by omega)
  obtain ⟨d1, hd1, _⟩ := buf_w16 hbuf "gpos.go:511#buf[6],buf[7]" 6 (by omega)
  obtain ⟨d2, hd2, _⟩ := buf_w16 hbuf "gpos.go:512#buf[8],buf[9]" 8 (by omega)
  obtain ⟨c1, hc1, hc1lt⟩ := buf_w16 hbuf "gpos.go:513#buf[10],buf[11]" 10 (by omega)
  obtain ⟨c2, hc2, _⟩ := buf_w16 hbuf "gpos.go:514#buf[12],buf[13]" 12 (by omega)
  rw [hco, ok_bind, hf1, ok_bind, hf2, ok_bind, hd1, ok_bind, hd2, ok_bind, hc1, ok_bind,
    hc2, ok_bind]
  split
  · exact True.intro
  rename_i hnr
  rw [mkSlice_ok _ _ _ (by omega), ok_bind]
  refine bind_noPanic (recLoop_noPanic _ _ _ _ _ _ _ _ (by simp)) (fun r hr => ?_)
  obtain ⟨recs, rc⟩ := r
  have hrl := recLoop_length _ _ _ _ _ _ _ _ _ _ hr
  simp only [List.length_replicate] at hrl
  refine bind_noPanic (readSet_noPanic _ _) (fun cv _ => ?_)
  refine bind_noPanic (classdefRead_noPanic _ _) (fun t1 _ => ?_)
  refine bind_noPanic (classdefRead_noPanic _ _) (fun t2 _ => ?_)
  rw [mkSlice_ok _ _ _ hc1lt, ok_bind]
  refine bind_noPanic (rowLoop_noPanic _ _ _ _ _ _ ?_ ?_) (fun a _ => pure_noPanic _)
  · dsimp only
    rw [hrl, Nat.zero_add]
    exact Nat.le_refl _
  · simp

/-! ## GPOS 3.1 -/

theorem anchorOpt_noPanic (b : Bytes) (pos off : Nat) (c : Cost) :
    (anchorOpt b pos off c).noPanic := by
  unfold anchorOpt
  split
  · exact bind_noPanic (anchorRead_noPanic _ _) (fun a _ => pure_noPanic _)
  · exact True.intro

theorem eeLoop_noPanic (b : Bytes) (pos : Nat) (offsets : List Nat) : ∀ (fuel i : Nat)
    (acc : List (Anchor × Anchor)) (c : Cost), 2 * (i + fuel) ≤ offsets.length →
    (eeLoop b pos offsets fuel i acc c).noPanic
  | 0, _, _, _, _ => True.intro
  | fuel+1, i, acc, c, h => by
    unfold eeLoop
    rw [idx_ok _ offsets (2 * i) (by omega), ok_bind]
    refine bind_noPanic (anchorOpt_noPanic _ _ _ _) (fun e _ => ?_)
    rw [idx_ok _ offsets (2 * i + 1) (by omega), ok_bind]
    refine bind_noPanic (anchorOpt_noPanic _ _ _ _) (fun x _ => ?_)
    exact eeLoop_noPanic b pos offsets fuel (i + 1) _ _ (by omega)

/-- `readGpos3_1` never panics (`offsets` has `2·entryExitCount` elements when the loop starts) -/
theorem read31_noPanic (b : Bytes) (pos : Nat) : (read31 b pos).noPanic := by
  unfold read31
  refine bind_noPanic (readBytes_noPanic _ _ _ _ (by omega)) (fun buf hbuf => ?_)
  obtain ⟨co, hco, _⟩ := buf_w16 hbuf "gpos.go:702#buf[0],buf[1]" 0 (by omega)
  obtain ⟨n, hn, hnlt⟩ := buf_w16 hbuf "gpos.go:703#buf[2],buf[3]" 2 (by omega)
  rw [hco, ok_bind, hn, ok_bind, mkSlice_ok' _ _ _ (by omega), ok_bind]
  refine bind_noPanic (readWords_noPanic _ _ _ _ _ _) (fun o ho => ?_)
  obtain ⟨hol, _⟩ := readWords_ok _ _ _ _ _ _ _ _ ho
  simp only [List.length_nil] at hol
  rw [mkSlice_ok _ _ _ hnlt, ok_bind]
  refine bind_noPanic (eeLoop_noPanic _ _ _ _ _ _ _ (by omega)) (fun r _ => ?_)
  refine bind_noPanic (coverageRead_noPanic _ _) (fun cv _ => ?_)
  exact bind_noPanic (prune_noPanic _ _ _ _) (fun p _ => pure_noPanic _)

end SfntV.Total.GposSub
